/-
Executable models of the allocation-free validators of `/repo/netutil/ip.go`
(`IsValidIPString`, `isValidIPv4String`, `isIPv4Label`, `isValidIPv6String`,
`countIPv6SepRunes`, `trimValidIPv6Field`, `countIPv6FieldRunes`, `IsValidIPPortString`,
`splitAddrPort`, `isUint16`), following the Go source statement by statement; every index
or slice expression is a `GoM` operation.  Shared by C01, C02, C05.
-/
import GolibsVerif.Go.Netip

namespace GolibsVerif.Netutil
open GolibsVerif.Str GolibsVerif.Netip

/-- `isIPv4Label`: a decimal number in 0..255 without leading zeros -/
def isIPv4Label (label : Bytes) : GoM Bool := do
  let l := label.length
  if l < 1 ∨ l > 3 then return false
  let c0 ← GoM.idx label 0
  if l = 1 then return isDigit c0
  if c0 = 48 then return false
  -- `for _, c := range label { if c < '0' || c > '9' { return false }; val = val*10 + … }`
  if !label.all isDigit then return false
  let val := label.foldl (fun a c => a * 10 + (c - 48)) 0
  return decide (val ≤ 255)

/-- the `for ; num < 4 && ok; …` loop of `isValidIPv4String`; the first argument is
`4 - num` -/
def v4Loop : Nat → Bytes → Bytes → Bool → GoM Bool
  | 0, label, _, ok => do return !ok && (← isIPv4Label label)
  | n + 1, label, s, ok => do
    if ok then
      if !(← isIPv4Label label) then return false
      let (label', s', ok') := cut 46 s
      v4Loop n label' s' ok'
    else return false        -- `num == net.IPv4len` fails

/-- `isValidIPv4String` -/
def isValidIPv4String (s : Bytes) : GoM Bool :=
  let (label, s', ok) := cut 46 s
  v4Loop 3 label s' ok

/-- `countIPv6FieldRunes` (`for n = range s` visits rune starts; every hex digit is a
one-byte rune, so up to the first non-hex byte this is a byte loop) -/
def countIPv6FieldRunesAux : Bytes → Nat → Nat
  | [], n => n
  | c :: rest, n =>
    if (hexVal c).isNone then n
    else if n > 3 then 0
    else countIPv6FieldRunesAux rest (n + 1)

def countIPv6FieldRunes (s : Bytes) : Nat := countIPv6FieldRunesAux s 0

def maxIPv6FieldsNum : Nat := 8

/-- `trimValidIPv6Field` -/
def trimValidIPv6Field (s : Bytes) (gotFields : Nat) (hasEllipsis : Bool) : GoM (Bytes × Bool) := do
  let fieldLen := countIPv6FieldRunes s
  if fieldLen = 0 then return ([], false)
  if fieldLen = s.length then
    return ([], hasEllipsis == decide (gotFields + 1 < maxIPv6FieldsNum))
  let c ← GoM.idx s fieldLen
  if c = 46 then
    -- an IPv4 tail replaces the final two fields
    if !(decide (gotFields ≤ maxIPv6FieldsNum - 2) &&
        (hasEllipsis == decide (gotFields < maxIPv6FieldsNum - 2))) then return ([], false)
    return ([], ← isValidIPv4String s)
  return (← GoM.sliceFrom s fieldLen, true)

/-- `countIPv6SepRunes` -/
def countIPv6SepRunes (s : Bytes) (hadEllipsis : Bool) : GoM (Nat × Bool) := do
  let c0 ← GoM.idx s 0
  if c0 ≠ 58 ∨ s.length = 1 then return (0, hadEllipsis)
  let c1 ← GoM.idx s 1
  if c1 = 58 then
    if hadEllipsis then return (0, false)
    return (2, true)
  return (1, hadEllipsis)

/-- the `for ; fieldsNum < 8 && s != ""; fieldsNum++` loop; first argument `8 - fieldsNum` -/
def v6FieldsLoop : Nat → Bytes → Nat → Bool → GoM Bool
  | 0, s, fieldsNum, hasEllipsis =>
    return decide (s = []) && (hasEllipsis == decide (fieldsNum < maxIPv6FieldsNum))
  | fuel + 1, s, fieldsNum, hasEllipsis => do
    if s = [] then
      return hasEllipsis == decide (fieldsNum < maxIPv6FieldsNum)
    let (s1, ok) ← trimValidIPv6Field s fieldsNum hasEllipsis
    if !ok then return false
    if s1 = [] then return true
    let (sepLen, hasEllipsis') ← countIPv6SepRunes s1 hasEllipsis
    if sepLen = 0 then return false
    let s2 ← GoM.sliceFrom s1 sepLen
    v6FieldsLoop fuel s2 (fieldsNum + 1) hasEllipsis'

/-- `isValidIPv6String` (no zone) -/
def isValidIPv6String (s : Bytes) : GoM Bool := do
  let hasEllipsis := hasPrefix s [58, 58]
  let s ← if hasEllipsis then GoM.sliceFrom s 2 else pure s
  v6FieldsLoop maxIPv6FieldsNum s 0 hasEllipsis

/-- the scanning loop of `IsValidIPString` (`maxSignificant = 4`) -/
def isValidIPStringAux (whole : Bytes) : Bytes → Nat → GoM Bool
  | [], _ => return false
  | c :: rest, significant =>
    if significant > 4 then return false
    else if c = 46 then isValidIPv4String whole
    else if c = 58 then
      let (withoutZone, zone, hasZone) := cut 37 whole
      if hasZone ∧ zone = [] then return false
      else isValidIPv6String withoutZone
    else isValidIPStringAux whole rest (significant + 1)

/-- `IsValidIPString` -/
def isValidIPString (s : Bytes) : GoM Bool := isValidIPStringAux s s 0

/-- `isUint16` -/
def isUint16Aux : Bytes → Nat → Bool
  | [], _ => true
  | b :: rest, n =>
    if !isDigit b then false
    else
      let n' := n * 10 + (b - 48)
      if n' > 65535 then false else isUint16Aux rest n'

def isUint16 (s : Bytes) : Bool := isUint16Aux s 0

/-- `splitAddrPort` -/
def splitAddrPort (s : Bytes) : GoM (Option (Bytes × Bytes)) := do
  let i := lastIndexByte s 58
  if i = -1 then return none
  let ip ← GoM.sliceTo s i
  let port ← GoM.sliceFrom s (i + 1)
  if ip = [] ∨ port = [] then return none
  if containsByte ip 58 then
    if !hasPrefix ip [91] || !hasSuffix ip [93] then return none
    let ip' ← GoM.slice ip 1 ((ip.length : Int) - 1)
    return some (ip', port)
  return some (ip, port)

/-- `IsValidIPPortString` -/
def isValidIPPortString (s : Bytes) : GoM Bool := do
  match ← splitAddrPort s with
  | none => return false
  | some (ip, port) =>
    if !isUint16 port then return false
    isValidIPString ip

end GolibsVerif.Netutil
