/-
Small hazard-bearing functions of `/repo/netutil/addr.go` and `/repo/netutil/ip.go` that no
other property models: `IsSubdomain`, `IsImmediateSubdomain`, `Subdomains`, `ParseIPv4`
(single-value type assertion), `CloneIPs` (indexed store).  Used by C01.
-/
import GolibsVerif.Model.NetReversed

namespace GolibsVerif.Netutil
open GolibsVerif.Str

/-- `IsSubdomain` -/
def isSubdomain (domain top : Bytes) : GoM Bool := do
  if !(decide (domain.length > top.length + 1)) then return false
  if !hasSuffix domain top then return false
  let c ← GoM.idx domain ((domain.length : Int) - top.length - 1)
  return c == 46

/-- `IsImmediateSubdomain` -/
def isImmediateSubdomain (domain top : Bytes) : GoM Bool := do
  if !(← isSubdomain domain top) then return false
  return countByte domain 46 == countByte top 46 + 1

/-- the loop of `Subdomains`; `.error (explicit "fuel")` would be a hang -/
def subdomainsLoop : Nat → Bytes → List Bytes → GoM (List Bytes)
  | 0, _, _ => .error (.explicit "fuel")
  | fuel + 1, domain, sub => do
    if domain = [] then return sub
    let i := indexByte domain 46
    if i < 0 then return sub
    let domain' ← GoM.sliceFrom domain (i + 1)
    subdomainsLoop fuel domain' (sub ++ [domain'])

/-- `Subdomains` (`none` = nil) -/
def subdomains (domain : Bytes) : GoM (Option (List Bytes)) := do
  if domain = [] then return none
  return some (← subdomainsLoop (domain.length + 1) domain [domain])

/-- `ParseIP` (wrapper around `net.ParseIP`, a parameter) -/
def parseIP (netParseIP : Bytes → Option Bytes) (s : Bytes) : Except Err Bytes :=
  match netParseIP s with
  | none => .error (.addr .ip s none)
  | some ip => .ok ip

/-- `ParseIPv4`: `err.(*AddrError).Kind = AddrKindIPv4` is a single-value type assertion -/
def parseIPv4 (netParseIP : Bytes → Option Bytes) (s : Bytes) : GoM (Except Err Bytes) :=
  match parseIP netParseIP s with
  | .error (.addr _ a i) => .ok (.error (.addr .ipv4 a i))
  | .error _ => .error .typeAssert
  | .ok ip =>
    match ipTo4 ip with
    | none => .ok (.error (.addr .ipv4 s none))
    | some ip4 => .ok (.ok ip4)

/-- `clone[i] = v` on a slice -/
def setIdx {α} (l : List α) (i : Nat) (v : α) : GoM (List α) :=
  if i < l.length then .ok (l.set i v) else .error (.indexOutOfRange i l.length)

/-- the `for i, ip := range ips { clone[i] = slices.Clone(ip) }` loop of `CloneIPs` -/
def cloneIPsLoop : List Bytes → Nat → List Bytes → GoM (List Bytes)
  | [], _, clone => .ok clone
  | ip :: rest, i, clone => do
    let clone' ← setIdx clone i ip
    cloneIPsLoop rest (i + 1) clone'

/-- `CloneIPs` (`none` = nil) -/
def cloneIPs (ips : Option (List Bytes)) : GoM (Option (List Bytes)) :=
  match ips with
  | none => .ok none
  | some l => do return some (← cloneIPsLoop l 0 (List.replicate l.length []))

end GolibsVerif.Netutil
