/-
C18 — executable models of `service.SignalHandler.Handle / shutdown / shutdownService`
(`/repo/service/signal.go`, `osutil.isShutdownSignal` in `/repo/osutil/signal_unix.go`) and of
`service.RefreshWorker.refreshInALoop / refresh / Shutdown` (`/repo/service/refreshworker.go`).

The models are of the *minimally repaired* code (DESIGN.md §9 #14, #15):
  * `shutdownService` recovers a panic of one service's `Shutdown` and returns it as an error
    (`errors.FromRecovered`), so the reverse loop continues and the status is failure;
  * `refreshInALoop` re-checks `done` after the timer case of its `select` was chosen.
Both repairs are a Boolean parameter of the general definitions (`recover`, `recheck`), so
that the behaviour of the code before the repair stays available for the negated witnesses
in `Theorems/C18.lean`; the property theorems are about the instances with `true`.

The synchronisation skeletons these definitions were written against are in
`Model/C18Skel.lean`; `theorem skel_… : Gen.SyncSkel.… = Expected.… := by decide` ties them to
the current source on every run.
-/
import GolibsVerif.Go.Basic
import GolibsVerif.Gen.Consts

namespace GolibsVerif.C18
open GolibsVerif.Gen.Consts (ExitCodeSuccess ExitCodeFailure)

/-! ## Part 1 — SignalHandler -/

/-- What one registered service's `Shutdown` does. -/
inductive Outcome where
  | nil      -- returns nil
  | err      -- returns a non-nil error
  | panic    -- panics
  deriving DecidableEq, Repr

/-- An `os.Signal` value: `sys n` is `syscall.Signal(n)` (the dynamic type of `unix.SIGINT` …);
`other n` is a value of any other dynamic type, which compares unequal to every
`syscall.Signal` in an interface comparison. -/
inductive Signal where
  | sys (n : Nat)
  | other (n : Nat)
  deriving DecidableEq, Repr

/-- linux signal numbers of the three names in `isShutdownSignal`'s `case` list (the names
are tied by `skel_isShutdownSignal`; the numbers are checked by the harness at start). -/
def SIGINT : Nat := 2
def SIGQUIT : Nat := 3
def SIGTERM : Nat := 15

/-- `osutil.isShutdownSignal`: `switch sig { case unix.SIGINT, unix.SIGQUIT, unix.SIGTERM:
return true; default: return false }`. -/
def isShutdownSignal : Signal → Bool
  | .sys n => n == SIGINT || n == SIGQUIT || n == SIGTERM
  | .other _ => false

/-- `h.services[i]` with Go's bounds check. -/
def idxSvc (svcs : List Outcome) (i : Nat) : GoM Outcome :=
  match svcs[i]? with
  | some o => .ok o
  | none => .error (.indexOutOfRange i svcs.length)

/-- `shutdownService(ctx, s)`: `defer func() { if v := recover(); v != nil { err =
errors.FromRecovered(v) } }(); return s.Shutdown(ctx)`.  The result says whether `err != nil`.
With `recover = false` this is the bare `s.Shutdown(ctx)` of the code before the repair: the
panic propagates. -/
def shutdownService (recover : Bool) : Outcome → GoM Bool
  | .nil => .ok false
  | .err => .ok true
  | .panic => if recover then .ok true else .error (.explicit "panic in Shutdown")

/-- Result of `h.shutdown`: the indices of the services whose `Shutdown` was entered, in call
order, and the returned status — or the panic that left the function. -/
structure ShutdownRes where
  calls : List Nat
  result : GoM Nat
  deriving Repr

/-- The loop `for i := len(h.services) - 1; i >= 0; i-- { … }` of `h.shutdown`; the first
argument is `i + 1` (so `0` is `i = -1`, where `i >= 0` fails), `status` and `calls` are the
loop-carried state. -/
def shutdownLoop (recover : Bool) (svcs : List Outcome) : Nat → Nat → List Nat → ShutdownRes
  | 0, status, calls => { calls := calls, result := .ok status }          -- `return status`
  | i + 1, status, calls =>
    match idxSvc svcs i with                                               -- `h.services[i]`
    | .error p => { calls := calls, result := .error p }
    | .ok o =>
      match shutdownService recover o with                                 -- `err := shutdownService(…)`
      | .error p => { calls := calls ++ [i], result := .error p }
      | .ok false => shutdownLoop recover svcs i status (calls ++ [i])     -- `if err == nil { continue }`
      | .ok true => shutdownLoop recover svcs i ExitCodeFailure (calls ++ [i])  -- `status = ExitCodeFailure`

/-- `h.shutdown(ctx)`: `status = osutil.ExitCodeSuccess`, then the reverse loop. -/
def shutdownG (recover : Bool) (svcs : List Outcome) : ShutdownRes :=
  shutdownLoop recover svcs svcs.length ExitCodeSuccess []

/-- Result of `h.Handle(ctx)` for a finite sequence of delivered signals: either it is still
blocked in `range h.signal` (the channel is never closed), or it returned. -/
inductive HandleRes where
  | blocked
  | returned (status : Nat) (calls : List Nat)
  deriving Repr, DecidableEq

/-- `h.Handle(ctx)`: `for sig := range h.signal { if osutil.IsShutdownSignal(sig) { …; return
h.shutdown(ctx) } }` under `defer slogutil.RecoverAndLog`: a panic that leaves `h.shutdown` is
recovered and `Handle` returns the zero value of its named result `status`, i.e. `0`. -/
def handleG (recover : Bool) : List Signal → List Outcome → HandleRes
  | [], _ => .blocked
  | sig :: rest, svcs =>
    if isShutdownSignal sig then
      let r := shutdownG recover svcs
      match r.result with
      | .ok status => .returned status r.calls
      | .error _ => .returned 0 r.calls
    else handleG recover rest svcs

/-- the repaired code -/
abbrev shutdown := shutdownG true
abbrev handle := handleG true

/-! ## Part 2 — RefreshWorker

An event-driven transition system.  The environment (harness / real world) produces the
events; the worker answers each with the calls it makes on its collaborators. -/

/-- Contexts: the one given to `Start`, the one given to `Shutdown`, and what
`contextCons.New(parent)` returns. -/
inductive Ctx where
  | start
  | shutdown
  | cons (parent : Ctx)
  deriving DecidableEq, Repr

/-- Which goroutine is inside `w.refresh`: the loop, or the caller of `Shutdown`. -/
inductive Caller where
  | loop
  | shutdown
  deriving DecidableEq, Repr

inductive Ev where
  /-- the timer channel returned by the last `clock.After` delivers -/
  | tick
  /-- the `Refresh` call made by `c` returns error code `e` (`0` = nil) -/
  | refreshReturns (c : Caller) (e : Nat)
  /-- `w.Shutdown(ctx)` is called -/
  | shutdown
  deriving DecidableEq, Repr

inductive Out where
  | untilNext                       -- `w.schedule.UntilNext(w.clock.Now())`
  | after (d : Nat)                 -- `w.clock.After(d)`
  | refresh (ctx : Ctx)             -- `w.refr.Refresh(ctx)` is entered
  | handle (ctx : Ctx) (e : Nat)    -- `w.errHdlr.Handle(ctx, err)`
  | shutdownReturns (e : Nat)       -- `Shutdown` returns (`0` = nil, else wraps error `e`)
  | panicClose                      -- `close(w.done)` of a closed channel panics
  deriving DecidableEq, Repr

/-- Where the goroutine running `refreshInALoop` is. -/
inductive Loop where
  | waiting      -- blocked in the outer `select`: `done` open, timer not fired
  | refreshing   -- inside `w.refr.Refresh`
  | exited       -- returned
  deriving DecidableEq, Repr

/-- Where the (first) `Shutdown` call is. -/
inductive Final where
  | idle         -- not called
  | refreshing   -- inside the final `w.refr.Refresh`
  | returned
  deriving DecidableEq, Repr

/-- The environment: `dur k` is what the `k`-th `UntilNext` call returns; `imm k` says that the
channel returned by the `k`-th `After` call is ready at once; `pick k` resolves Go's random
choice for the `k`-th `select` if both `done` and the timer are ready (`true` = timer). -/
structure Env where
  dur : Nat → Nat
  imm : Nat → Bool
  pick : Nat → Bool

structure St where
  loop : Loop
  closed : Bool     -- `w.done` is closed
  fin : Final
  k : Nat           -- number of `UntilNext` (and of `After`) calls so far
  deriving DecidableEq, Repr

/-- `w.refresh(ctx)` up to the call of the refresher: `ctx, cancel := w.contextCons.New(ctx);
defer cancel(); return w.refr.Refresh(ctx)`. -/
def refreshStart (parent : Ctx) : List Out := [.refresh (.cons parent)]

inductive Sel where
  | done | timer | block
  deriving DecidableEq, Repr

/-- `select { case <-w.done: …  case <-w.clock.After(waitDur): … }`. -/
def selectDoneTimer (closed ready pick : Bool) : Sel :=
  if closed && ready then (if pick then .timer else .done)
  else if closed then .done
  else if ready then .timer
  else .block

/-- The body of the timer case up to the start of `Refresh`.  With `recheck` (the repaired
code) it begins with `select { case <-w.done: return; default: }`. -/
def timerCase (recheck : Bool) (s : St) : St × List Out :=
  if recheck && s.closed then ({ s with loop := .exited }, [])
  else ({ s with loop := .refreshing }, refreshStart .start)

/-- `waitDur = w.schedule.UntilNext(w.clock.Now())` followed by the top of the `for` loop:
`w.clock.After(waitDur)` is evaluated and the `select` is entered. -/
def loopTop (recheck : Bool) (env : Env) (s : St) : St × List Out :=
  let pre := [Out.untilNext, Out.after (env.dur s.k)]
  let s' := { s with k := s.k + 1 }
  match selectDoneTimer s.closed (env.imm s.k) (env.pick s.k) with
  | .done => ({ s' with loop := .exited }, pre)
  | .block => ({ s' with loop := .waiting }, pre)
  | .timer => ((timerCase recheck s').1, pre ++ (timerCase recheck s').2)

/-- `Start`: the loop goroutine runs up to its first blocking point. -/
def initG (recheck : Bool) (env : Env) : St × List Out :=
  loopTop recheck env { loop := .waiting, closed := false, fin := .idle, k := 0 }

/-- One event.  Events that cannot happen in the state (a tick without an armed timer, a
return without a call in flight) change nothing and produce nothing. -/
def stepG (recheck : Bool) (env : Env) (ros : Bool) (s : St) : Ev → St × List Out
  | .tick =>
    match s.loop with
    | .waiting => timerCase recheck s
    | _ => (s, [])
  | .refreshReturns .loop e =>
    match s.loop with
    | .refreshing =>
      -- `if err != nil { w.errHdlr.Handle(ctx, err) }`, then the schedule is consulted
      ((loopTop recheck env s).1, (if e ≠ 0 then [Out.handle .start e] else []) ++ (loopTop recheck env s).2)
    | _ => (s, [])
  | .refreshReturns .shutdown e =>
    match s.fin with
    | .refreshing => ({ s with fin := .returned }, [.shutdownReturns e])
    | _ => (s, [])
  | .shutdown =>
    if s.closed then (s, [.panicClose])
    else
      -- `close(w.done)`: a loop blocked in the select returns
      let s1 := { s with closed := true, loop := if s.loop = Loop.waiting then Loop.exited else s.loop }
      if ros then ({ s1 with fin := .refreshing }, refreshStart .shutdown)
      else ({ s1 with fin := .returned }, [.shutdownReturns 0])

/-- A history from a state: the final state and the outputs of every event. -/
def runFromG (recheck : Bool) (env : Env) (ros : Bool) (s : St) : List Ev → St × List (List Out)
  | [] => (s, [])
  | e :: es =>
    ((runFromG recheck env ros (stepG recheck env ros s e).1 es).1,
     (stepG recheck env ros s e).2 :: (runFromG recheck env ros (stepG recheck env ros s e).1 es).2)

/-- `Start` followed by a history; the first group of outputs belongs to `Start`. -/
def runG (recheck : Bool) (env : Env) (ros : Bool) (evs : List Ev) : St × List (List Out) :=
  ((runFromG recheck env ros (initG recheck env).1 evs).1,
   (initG recheck env).2 :: (runFromG recheck env ros (initG recheck env).1 evs).2)

/-- the repaired code -/
abbrev step := stepG true
abbrev init := initG true
abbrev runFrom := runFromG true
abbrev run := runG true

end GolibsVerif.C18
