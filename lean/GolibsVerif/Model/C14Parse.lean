/-
C14 — executable model of `time.ParseDuration` (go1.24, `src/time/format.go`), written
statement by statement after the Go source: `leadingInt`, `leadingFraction`, `unitMap`,
`ParseDuration`.  Strings are byte lists, `uint64` values are `Nat`s; every place where the
Go code can wrap (`d += v`) carries an explicit `% 2^64`, every other `uint64` expression is
guarded by the overflow tests of the Go code itself (noted at the spot), so that it cannot
wrap.

The only non-integer arithmetic of `ParseDuration` is

    v += uint64(float64(f) * (float64(unit) / scale))

with `scale` built by repeated `scale *= 10`.  It is modelled exactly: a finite non-negative
`float64` is a fraction `num/den`, and every operation (`uint64 → float64`, `*`, `/`) is the
exact rational result rounded to 53 significant bits, ties to even (`F64.round`), i.e. IEEE
754 binary64 arithmetic with an unbounded exponent.  The exponent range of a real `float64`
matters only when more than 308 fraction digits are consumed (`scale` = +Inf, quotient 0) or
the quotient is subnormal (< 2^-1022); in both cases the real product is < 1, and so is the
model's, hence `uint64(·)` is 0 on both sides.  No `float64` addition occurs, so no fused
multiply-add can be generated on any architecture.

The model is validated against the real function by the op `C14.std.parsedur` on every run.
-/
import GolibsVerif.Model.C14

namespace GolibsVerif.C14

/-! ## `float64`, as far as `ParseDuration` uses it -/

/-- a finite non-negative `float64` value: the fraction `num / den` (`den > 0`) -/
structure F64 where
  num : Nat
  den : Nat
  deriving Repr, DecidableEq

/-- `n / d` rounded to the nearest integer, ties to even -/
def roundHalfEven (n d : Nat) : Nat :=
  let q := n / d
  let r := n % d
  if 2 * r < d then q else if 2 * r > d then q + 1 else if q % 2 = 0 then q else q + 1

/-- The fraction `n / d` (`d > 0`) rounded to 53 significant bits, ties to even: with `e`
the exponent for which `2^52 ≤ (n/d) / 2^e < 2^53`, the result is
`roundHalfEven ((n/d) / 2^e) * 2^e`. -/
def F64.round (n d : Nat) : F64 :=
  if n = 0 then ⟨0, 1⟩
  else if d ≤ n then
    let lg := Nat.log2 (n / d)                 -- 2^lg ≤ n/d < 2^(lg+1)
    if lg ≤ 52 then ⟨roundHalfEven (n * 2 ^ (52 - lg)) d, 2 ^ (52 - lg)⟩
    else ⟨roundHalfEven n (d * 2 ^ (lg - 52)) * 2 ^ (lg - 52), 1⟩
  else
    -- n/d < 1: `j` is the least exponent with d ≤ n * 2^j, so 2^-j ≤ n/d < 2^(1-j)
    let g := Nat.log2 d - Nat.log2 n
    let j := if d ≤ n * 2 ^ g then g else g + 1
    ⟨roundHalfEven (n * 2 ^ (j + 52)) d, 2 ^ (j + 52)⟩

/-- `float64(x)` for a `uint64` -/
def F64.ofNat (x : Nat) : F64 := F64.round x 1

/-- `a * b` -/
def F64.mul (a b : F64) : F64 := F64.round (a.num * b.num) (a.den * b.den)

/-- `a / b` (`b ≠ 0`) -/
def F64.div (a b : F64) : F64 := F64.round (a.num * b.den) (a.den * b.num)

/-- `uint64(a)` (truncation; all values that occur are < 2^63) -/
def F64.trunc (a : F64) : Nat := a.num / a.den

def F64.one : F64 := ⟨1, 1⟩
def F64.ten : F64 := ⟨10, 1⟩

/-! ## `leadingInt`, `leadingFraction` -/

def two63 : Nat := 9223372036854775808

/-- `leadingInt(s)`: `x` is the accumulator (0 at the call); `none` = `errLeadingInt`.
`x*10 + uint64(c) - '0'` does not wrap: `x ≤ 2^63/10` at that point. -/
def leadingInt : Bytes → Nat → Option (Nat × Bytes)
  | [], x => some (x, [])
  | c :: rest, x =>
    if c < 48 ∨ c > 57 then some (x, c :: rest)
    else if x > two63 / 10 then none
    else
      let x' := x * 10 + c - 48
      if x' > two63 then none else leadingInt rest x'

/-- `leadingFraction(s)`: state `x`, `scale`, `overflow` (0, 1, false at the call).
`x*10 + uint64(c) - '0'` does not wrap: `x ≤ (2^63-1)/10` at that point. -/
def leadingFraction : Bytes → Nat → F64 → Bool → Nat × F64 × Bytes
  | [], x, scale, _ => (x, scale, [])
  | c :: rest, x, scale, overflow =>
    if c < 48 ∨ c > 57 then (x, scale, c :: rest)
    else if overflow then leadingFraction rest x scale true
    else if x > (two63 - 1) / 10 then leadingFraction rest x scale true
    else
      let y := x * 10 + c - 48
      if y > two63 then leadingFraction rest x scale true
      else leadingFraction rest y (F64.mul scale F64.ten) false

/-! ## units -/

/-- `unitMap[u]` -/
def unitOf (u : Bytes) : Option Nat :=
  if u = [110, 115] then some 1                         -- "ns"
  else if u = [117, 115] then some 1000                 -- "us"
  else if u = [0xC2, 0xB5, 115] then some 1000          -- "µs" U+00B5
  else if u = [0xCE, 0xBC, 115] then some 1000          -- "μs" U+03BC
  else if u = [109, 115] then some 1000000              -- "ms"
  else if u = [115] then some 1000000000                -- "s"
  else if u = [109] then some 60000000000               -- "m"
  else if u = [104] then some 3600000000000             -- "h"
  else none

/-- the unit scan `for ; i < len(s); i++ { if c == '.' || '0' <= c && c <= '9' { break } }`:
returns `(s[:i], s[i:])` -/
def unitSpan : Bytes → Bytes × Bytes
  | [] => ([], [])
  | c :: rest =>
    if c = 46 ∨ (48 ≤ c ∧ c ≤ 57) then ([], c :: rest)
    else let r := unitSpan rest; (c :: r.1, r.2)

/-! ## one round of the loop of `ParseDuration` -/

/-- `post := false; if s != "" && s[0] == '.' { s = s[1:]; pl := len(s);
f, scale, s = leadingFraction(s); post = pl != len(s) }`: returns `f`, `scale`, `post`, `s`
(`f = 0`, `scale = 1` are the values the variables were declared with). -/
def parseFrac (s : Bytes) : Nat × F64 × Bool × Bytes :=
  match s with
  | [] => (0, F64.one, false, s)
  | c :: t =>
    if c = 46 then
      let r := leadingFraction t 0 F64.one false
      (r.1, r.2.1, t.length != r.2.2.length, r.2.2)
    else (0, F64.one, false, s)

/-- From `// Consume unit.` to the end of the loop body except `d += v`: the unit scan, the
`unitMap` lookup, `v > 1<<63/unit`, `v *= unit`, and the fraction
`v += uint64(float64(f) * (float64(unit) / scale))` with its overflow test. -/
def parseUnit (v f : Nat) (scale : F64) (s : Bytes) : Option (Nat × Bytes) :=
  let us := unitSpan s
  if us.1 = [] then none else                          -- missing unit
  match unitOf us.1 with
  | none => none                                       -- unknown unit
  | some unit =>
    if v > two63 / unit then none else
    let v := v * unit                                  -- ≤ 2^63: no wrap
    if f > 0 then
      -- f ≤ 2^63, unit ≤ 3.6e12 and f/scale < 1: the sum stays far below 2^64
      let v := v + F64.trunc (F64.mul (F64.ofNat f) (F64.div (F64.ofNat unit) scale))
      if v > two63 then none else some (v, us.2)
    else some (v, us.2)

/-- The body of `for s != "" { … }` up to (not including) `d += v`: returns `v` and the rest
of the text; `none` = one of the `return 0, errors.New(…)`. -/
def parseGroup (s : Bytes) : Option (Nat × Bytes) :=
  match s with
  | [] => none                                         -- not reached: the loop tests `s != ""`
  | c0 :: _ =>
    -- The next character must be [0-9.]
    if ¬ (c0 = 46 ∨ (48 ≤ c0 ∧ c0 ≤ 57)) then none else
    -- Consume [0-9]*
    match leadingInt s 0 with
    | none => none
    | some (v, s1) =>
      let pre := s.length != s1.length
      -- Consume (\.[0-9]*)?
      let fr := parseFrac s1
      if !pre && !fr.2.2.1 then none                   -- no digits (e.g. ".s" or "-.s")
      else parseUnit v fr.1 fr.2.1 fr.2.2.2

/-- `for s != "" { …; d += v; if d > 1<<63 { return error } }`.  `d` and `v` are both
`≤ 2^63`, so `d += v` can reach `2^64` and wrap — the Go code does not notice that
(`"9223372036854775808ns9223372036854775808ns"` parses to 0).  The fuel is `len(s)`; every
round consumes at least one byte (the unit), so it never runs out
(`parseLoop_fuel`, `Lemmas/C14Parse.lean`). -/
def parseLoop : Nat → Bytes → Nat → Option Nat
  | _, [], d => some d
  | 0, _ :: _, _ => none
  | fuel + 1, c :: rest, d =>
    match parseGroup (c :: rest) with
    | none => none
    | some (v, s') =>
      let d' := (d + v) % 18446744073709551616
      if d' > two63 then none else parseLoop fuel s' d'

/-- `ParseDuration` after `// Consume [-+]?`: the `"0"` special case, the empty text, the
loop, and the result.  For `neg`, `-Duration(d)` is the `int64` negation of the `int64`
conversion of `d ≤ 2^63` (both wrap for `d = 2^63`). -/
def parseAfterSign (neg : Bool) (s : Bytes) : Option Int :=
  -- Special case: if all that is left is "0", this is zero.
  if s = [48] then some 0
  else if s = [] then none
  else
    match parseLoop s.length s 0 with
    | none => none
    | some d =>
      if neg then some (wrap64 (- wrap64 (d : Int)))
      else if d > two63 - 1 then none
      else some (d : Int)

/-- `time.ParseDuration(s)`; `none` = error.
`if s != "" { c := s[0]; if c == '-' || c == '+' { neg = c == '-'; s = s[1:] } }` -/
def parseDuration (s : Bytes) : Option Int :=
  match s with
  | [] => parseAfterSign false s
  | c :: t => if c = 45 ∨ c = 43 then parseAfterSign (c == 45) t else parseAfterSign false s

end GolibsVerif.C14
