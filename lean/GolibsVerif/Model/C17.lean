/-
C17 — labelled transition systems for `syncutil.OnceConstructor.Get` and
`syncutil.ChanSemaphore.{Acquire,Release}`, written statement by statement after the Go code.

Part 1 (`OState`, `next`): OnceConstructor.  One *thread id* is one invocation of `Get`
(a goroutine that calls `Get` several times is several ids used one after the other; all their
interleavings are interleavings of ids).  The loader closure created by invocation `t` (its
`done` channel and its `cached` variable) is identified with `t`.  `sync.Map.Load` and
`LoadOrStore` are atomic per key (contract MEM-1); a channel of capacity 1 is `{buf, closed}`
with Go's semantics: send blocks on a full buffer and panics on a closed channel; receive takes
a buffered element (`ok = true`), else returns `ok = false` at once on a closed channel, else
blocks; `close` of a closed channel panics.

Part 2 (`SState`, `snext`): ChanSemaphore.  `select` is a nondeterministic choice among the
ready cases; a `select` with `default` never blocks.

Core Lean only (linked into the driver).
-/
namespace GolibsVerif.C17

/-- point-wise function update -/
def upd {α : Type} {β : Type} [DecidableEq α] (f : α → β) (a : α) (b : β) : α → β :=
  fun x => if x = a then b else f x

@[simp] theorem upd_same {α β : Type} [DecidableEq α] (f : α → β) (a : α) (b : β) :
    upd f a b a = b := by simp [upd]

@[simp] theorem upd_other {α β : Type} [DecidableEq α] (f : α → β) (a x : α) (b : β) (h : x ≠ a) :
    upd f a b x = f x := by simp [upd, h]

theorem upd_apply {α β : Type} [DecidableEq α] (f : α → β) (a x : α) (b : β) :
    upd f a b x = if x = a then b else f x := rfl

/-! ## Part 1: OnceConstructor.Get -/

/-- program counter of one invocation of `Get(key)`; `l` is the loader (closure) being run -/
inductive PC (K V : Type) where
  | idle                              -- not called yet
  | load (k : K)                      -- at `loaderVal, inited := c.loaders.Load(key)`
  | mk (k : K)                        -- at `var cached V; done := make(chan struct{}, 1)`
  | send (k : K)                      -- at `done <- struct{}{}`
  | los (k : K)                       -- at `c.loaders.LoadOrStore(key, func() …)`
  | recv (k : K) (l : Nat)            -- inside loader `l`: at `_, ok := <-done`
  | construct (k : K) (l : Nat)       -- `ok == true`: about to call `c.new(key)`
  | inCtor (k : K) (l : Nat)          -- inside `c.new(key)`
  | close (k : K) (l : Nat)           -- `cached` assigned: at `close(done)`
  | readCached (k : K) (l : Nat)      -- at `return cached`
  | done (k : K) (r : Option V)       -- `Get` returned `r` (`none` = zero value of `V`)
  | panicked (k : K)                  -- run-time panic (send on / close of a closed channel)

/-- a channel of capacity 1 -/
structure Chan where
  buf : Nat
  closed : Bool
  deriving DecidableEq, Repr

structure OState (K V : Type) where
  pc : Nat → PC K V
  /-- the `sync.Map`: key ↦ loader -/
  stored : K → Option Nat
  /-- the `done` channel of loader `l` -/
  chan : Nat → Chan
  /-- the `cached` variable of loader `l` (`none` = still the zero value) -/
  cached : Nat → Option V
  /-- ghost: number of invocations of `c.new(k)` -/
  ctorCalls : K → Nat
  /-- ghost: number of receives with `ok = true` on the channel of loader `l` -/
  taken : Nat → Nat

/-- what the environment supplies to a step: the key of a new call, the value the
constructor returns, or nothing -/
inductive In (K V : Type) where
  | call (k : K)
  | ctorRet (v : V)
  | tau

/-- observable events (what the harness can record around the real code) -/
inductive Ev (K V : Type) where
  | call (t : Nat) (k : K)
  | ctorStart (k : K)
  | ctorEnd (k : K) (v : V)
  | ret (t : Nat) (k : K) (r : Option V)

def OState.init {K V : Type} : OState K V where
  pc := fun _ => .idle
  stored := fun _ => none
  chan := fun _ => ⟨0, false⟩
  cached := fun _ => none
  ctorCalls := fun _ => 0
  taken := fun _ => 0

variable {K V : Type} [DecidableEq K]

/-- One step of invocation `t`.  `none` = the step is not enabled (wrong input for the
program counter, or the thread is blocked on a channel). -/
def next (s : OState K V) (t : Nat) (i : In K V) : Option (OState K V × Option (Ev K V)) :=
  match s.pc t, i with
  | .idle, .call k => some ({ s with pc := upd s.pc t (.load k) }, some (.call t k))
  | .load k, .tau =>
    -- loaderVal, inited := c.loaders.Load(key); if inited { return loaderVal.(func() V)() }
    match s.stored k with
    | some l => some ({ s with pc := upd s.pc t (.recv k l) }, none)
    | none => some ({ s with pc := upd s.pc t (.mk k) }, none)
  | .mk k, .tau =>
    -- var cached V; done := make(chan struct{}, 1)
    some ({ s with pc := upd s.pc t (.send k), chan := upd s.chan t ⟨0, false⟩,
                   cached := upd s.cached t none }, none)
  | .send k, .tau =>
    -- done <- struct{}{}
    if (s.chan t).closed then some ({ s with pc := upd s.pc t (.panicked k) }, none)
    else if (s.chan t).buf < 1 then
      some ({ s with pc := upd s.pc t (.los k),
                     chan := upd s.chan t ⟨(s.chan t).buf + 1, false⟩ }, none)
    else none
  | .los k, .tau =>
    -- loaderVal, _ = c.loaders.LoadOrStore(key, closure); return loaderVal.(func() V)()
    match s.stored k with
    | some l => some ({ s with pc := upd s.pc t (.recv k l) }, none)
    | none => some ({ s with pc := upd s.pc t (.recv k t), stored := upd s.stored k (some t) }, none)
  | .recv k l, .tau =>
    -- _, ok := <-done
    if 0 < (s.chan l).buf then
      some ({ s with pc := upd s.pc t (.construct k l),
                     chan := upd s.chan l ⟨(s.chan l).buf - 1, (s.chan l).closed⟩,
                     taken := upd s.taken l (s.taken l + 1) }, none)
    else if (s.chan l).closed then some ({ s with pc := upd s.pc t (.readCached k l) }, none)
    else none
  | .construct k l, .tau =>
    -- if ok { … c.new(key) is entered
    some ({ s with pc := upd s.pc t (.inCtor k l), ctorCalls := upd s.ctorCalls k (s.ctorCalls k + 1) },
          some (.ctorStart k))
  | .inCtor k l, .ctorRet v =>
    -- cached = c.new(key)
    some ({ s with pc := upd s.pc t (.close k l), cached := upd s.cached l (some v) }, some (.ctorEnd k v))
  | .close k l, .tau =>
    -- close(done)
    if (s.chan l).closed then some ({ s with pc := upd s.pc t (.panicked k) }, none)
    else some ({ s with pc := upd s.pc t (.readCached k l), chan := upd s.chan l ⟨(s.chan l).buf, true⟩ }, none)
  | .readCached k l, .tau =>
    -- return cached
    some ({ s with pc := upd s.pc t (.done k (s.cached l)) }, some (.ret t k (s.cached l)))
  | _, _ => none

/-- states reachable from the initial one by any number of threads in any interleaving -/
inductive Reachable : OState K V → Prop where
  | init : Reachable OState.init
  | step {s s' : OState K V} {t : Nat} {i : In K V} {e : Option (Ev K V)} :
      Reachable s → next s t i = some (s', e) → Reachable s'

/-- runs with their sequence of observable events -/
inductive Trace : OState K V → List (Ev K V) → OState K V → Prop where
  | nil (s : OState K V) : Trace s [] s
  | tau {s s' s'' : OState K V} {t : Nat} {i : In K V} {es : List (Ev K V)} :
      Trace s es s' → next s' t i = some (s'', none) → Trace s es s''
  | vis {s s' s'' : OState K V} {t : Nat} {i : In K V} {es : List (Ev K V)} {e : Ev K V} :
      Trace s es s' → next s' t i = some (s'', some e) → Trace s (es ++ [e]) s''

/-- run a schedule: a list of (thread, input) pairs; `none` if some step is not enabled -/
def runSteps (s : OState K V) : List (Nat × In K V) → Option (OState K V)
  | [] => some s
  | (t, i) :: rest => match next s t i with
    | some (s', _) => runSteps s' rest
    | none => none

/-- thread `t` has an enabled step in `s` -/
def Enabled (s : OState K V) (t : Nat) : Prop := ∃ i r, next s t i = some r

/-! ### The monitor: an executable acceptor for observed histories -/

inductive MTh (K : Type) where
  | fresh | inGet (k : K) | returned
  deriving DecidableEq

inductive MPh (V : Type) where
  | notStarted | running | built (v : V)

structure MState (K V : Type) where
  th : Nat → MTh K
  ph : K → MPh V
  called : K → Bool

def MState.init : MState K V where
  th := fun _ => .fresh
  ph := fun _ => .notStarted
  called := fun _ => false

def mstep [DecidableEq V] (m : MState K V) : Ev K V → Option (MState K V)
  | .call t k =>
    match m.th t with
    | .fresh => some { m with th := upd m.th t (.inGet k), called := upd m.called k true }
    | _ => none
  | .ctorStart k =>
    match m.ph k, m.called k with
    | .notStarted, true => some { m with ph := upd m.ph k .running }
    | _, _ => none
  | .ctorEnd k v =>
    match m.ph k with
    | .running => some { m with ph := upd m.ph k (.built v) }
    | _ => none
  | .ret t k r =>
    match m.th t, m.ph k, r with
    | .inGet k', .built v, some v' =>
      if k' = k ∧ v' = v then some { m with th := upd m.th t .returned } else none
    | _, _, _ => none

def mrun [DecidableEq V] (m : MState K V) : List (Ev K V) → Option (MState K V)
  | [] => some m
  | e :: es => match mstep m e with
    | some m' => mrun m' es
    | none => none

/-- the acceptor used by the driver on histories recorded from the real code -/
def acceptsOnce [DecidableEq V] (es : List (Ev K V)) : Bool := (mrun MState.init es).isSome

/-- index of the first event the monitor does not allow -/
def firstRejected [DecidableEq V] (m : MState K V) (i : Nat) : List (Ev K V) → Option Nat
  | [] => none
  | e :: es => match mstep m e with
    | some m' => firstRejected m' (i + 1) es
    | none => some i

/-- `e` is the start of a construction of key `k` -/
def Ev.isStart (k : K) : Ev K V → Bool
  | .ctorStart k' => decide (k' = k)
  | _ => false

def MPh.started : MPh V → Nat
  | .notStarted => 0
  | _ => 1

/-! ## Part 2: ChanSemaphore -/

inductive SPC where
  | idle
  | acquiring (ctx : Nat)   -- blocked in / about to run the `select` of `Acquire(ctx)`
  deriving DecidableEq, Repr

structure SState where
  /-- `cap(c.c)`, fixed by `NewChanSemaphore(maxRes)` -/
  cap : Nat
  /-- `len(c.c)`: elements in the channel buffer -/
  c : Nat
  pc : Nat → SPC
  /-- whether `ctx.Done()` is closed -/
  done : Nat → Bool
  /-- ghost: `Acquire` calls that returned nil -/
  acq : Nat
  /-- ghost: `Release` calls -/
  rel : Nat
  /-- ghost: `Release` calls that took the `default` branch -/
  relNoop : Nat

inductive SLabel where
  | acquire (t ctx : Nat)   -- call `Acquire(ctx)`
  | acqOk (t : Nat)         -- `case c.c <- unit{}: return nil`
  | acqErr (t : Nat)        -- `case <-ctx.Done(): return ctx.Err()`
  | release (t : Nat)       -- `Release()`: `select { case <-c.c: default: }`, one atomic step
  | handoff (tr ta : Nat)   -- `Release()` by `tr` whose receive is served by the sender `ta`
                            -- parked in `Acquire` (Go's chanrecv with a waiting sender; the
                            -- only way a receive succeeds on a channel of capacity 0)
  | cancel (ctx : Nat)      -- the context is cancelled / its deadline passes
  deriving DecidableEq, Repr

def SState.init (cap : Nat) : SState where
  cap := cap
  c := 0
  pc := fun _ => .idle
  done := fun _ => false
  acq := 0
  rel := 0
  relNoop := 0

def snext (s : SState) : SLabel → Option SState
  | .acquire t ctx =>
    match s.pc t with
    | .idle => some { s with pc := upd s.pc t (.acquiring ctx) }
    | _ => none
  | .acqOk t =>
    match s.pc t with
    | .acquiring _ =>
      if s.c < s.cap then some { s with c := s.c + 1, acq := s.acq + 1, pc := upd s.pc t .idle } else none
    | _ => none
  | .acqErr t =>
    match s.pc t with
    | .acquiring ctx => if s.done ctx then some { s with pc := upd s.pc t .idle } else none
    | _ => none
  | .release t =>
    match s.pc t with
    | .idle =>
      if 0 < s.c then some { s with c := s.c - 1, rel := s.rel + 1 }
      else some { s with rel := s.rel + 1, relNoop := s.relNoop + 1 }
    | _ => none
  | .handoff tr ta =>
    match s.pc tr, s.pc ta with
    | .idle, .acquiring _ =>
      if s.c = s.cap then some { s with acq := s.acq + 1, rel := s.rel + 1, pc := upd s.pc ta .idle } else none
    | _, _ => none
  | .cancel ctx => some { s with done := upd s.done ctx true }

def SLabel.isRelease : SLabel → Bool
  | .release _ => true
  | .handoff _ _ => true
  | _ => false

/-- Reachable states of a semaphore of capacity `cap`.  With `disc = true` only *disciplined*
histories are considered: a `Release` is called only when more `Acquire`s have succeeded than
`Release`s were called (every `Release` pairs with an earlier successful `Acquire`). -/
inductive SReach (cap : Nat) (disc : Bool) : SState → Prop where
  | init : SReach cap disc (SState.init cap)
  | step {s s' : SState} {l : SLabel} :
      SReach cap disc s → (disc = true → l.isRelease = true → s.rel < s.acq) →
      snext s l = some s' → SReach cap disc s'

def srun (s : SState) : List SLabel → Option SState
  | [] => some s
  | l :: ls => match snext s l with
    | some s' => srun s' ls
    | none => none

inductive STrace : SState → List SLabel → SState → Prop where
  | nil (s : SState) : STrace s [] s
  | cons {s s' s'' : SState} {l : SLabel} {ls : List SLabel} :
      snext s l = some s' → STrace s' ls s'' → STrace s (l :: ls) s''

/-- acceptor for semaphore histories (every label except `handoff` is observable) -/
def acceptsSema (cap : Nat) (ls : List SLabel) : Bool := (srun (SState.init cap) ls).isSome

/-- disciplined variant: additionally every release is preceded by an unmatched successful acquire -/
def srunD (s : SState) : List SLabel → Option SState
  | [] => some s
  | l :: ls =>
    if l.isRelease ∧ ¬ s.rel < s.acq then none
    else match snext s l with
      | some s' => srunD s' ls
      | none => none

def acceptsSemaD (cap : Nat) (ls : List SLabel) : Bool := (srunD (SState.init cap) ls).isSome

def sfirstRejected (s : SState) (i : Nat) : List SLabel → Option Nat
  | [] => none
  | l :: ls =>
    if l.isRelease ∧ ¬ s.rel < s.acq then some i
    else match snext s l with
      | some s' => sfirstRejected s' (i + 1) ls
      | none => some i

end GolibsVerif.C17
