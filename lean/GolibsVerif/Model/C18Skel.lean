/-
C18 — the synchronisation skeletons the models in `Model/C18.lean` were written against
(the repaired code: per-service recovery in `shutdownService`, re-check of `done` in the
timer case of `refreshInALoop`).  `Theorems/C18.lean` proves `Gen.SyncSkel.X = Expected.X`
for each of them by `decide`, so any edit of `/repo` that changes the order or nesting of
select / case / receive / close / go / defer / return / loop / branch or of the calls to
Shutdown / Refresh / Handle / UntilNext / After in these functions breaks an obligation.

How the models read them:
  * `Handle`: deferred `RecoverAndLog` (a panic leaves `status` at its zero value), a `range`
    over the signal channel, the `IsShutdownSignal` filter, `return h.shutdown(ctx)`, and a
    `panic` after the loop that is unreachable while the channel is open.
  * `shutdown`: `status = ExitCodeSuccess`; loop `i := len-1; i >= 0; i--`; one
    `shutdownService` per iteration; `continue` when `err == nil`, else `status =
    ExitCodeFailure`; `return status` — no `break`, no early `return`.
  * `shutdownService`: deferred closure with `recover()` that turns a panic into `err`.
  * `refreshInALoop`: `Now, UntilNext` once before the loop; every iteration evaluates
    `After` and then selects between `w.done` (return) and the timer; the timer case first
    re-checks `w.done` (`select … default`), then `refresh`, `Handle` iff `err != nil`, then
    `Now, UntilNext`.
  * `refresh`: `New`, deferred `cancel`, `Refresh`.
  * `Shutdown`: `close(w.done)` first; iff `w.refrOnShutdown` one `refresh` whose error is
    returned wrapped.
-/
import GolibsVerif.Go.Skel

namespace GolibsVerif.C18.Expected
open GolibsVerif.Skel

/-- `service.(SignalHandler).Handle` (service/signal.go) -/
def service_SignalHandler_Handle : Skeleton := [
  .fn "SignalHandler" "Handle",
  .deferCall "RecoverAndLog",
  .loop "range" "h.signal",
  .call "IsShutdownSignal",
  .ifBegin "osutil.IsShutdownSignal(sig)",
  .call "WithTimeout",
  .deferCall "cancel",
  .call "shutdown",
  .ret "h.shutdown(ctx)",
  .endIf,
  .endLoop,
  .panic
]

/-- `service.(SignalHandler).shutdown` (service/signal.go) -/
def service_SignalHandler_shutdown : Skeleton := [
  .fn "SignalHandler" "shutdown",
  .assignResult "status" "osutil.ExitCodeSuccess",
  .loop "for-cond" "i := len(h.services) - 1; i >= 0; i--",
  .call "shutdownService",
  .ifBegin "err == nil",
  .cont,
  .endIf,
  .assignResult "status" "osutil.ExitCodeFailure",
  .endLoop,
  .ret "status"
]

/-- `service.shutdownService` (service/signal.go) -/
def service_shutdownService : Skeleton := [
  .fn "" "shutdownService",
  .deferFunc,
  .recover,
  .ifBegin "v != nil",
  .call "FromRecovered",
  .assignResult "err" "errors.FromRecovered(v)",
  .endIf,
  .endFunc,
  .call "Shutdown",
  .ret "s.Shutdown(ctx)"
]

/-- `service.(RefreshWorker).Start` (service/refreshworker.go) -/
def service_RefreshWorker_Start : Skeleton := [
  .fn "RefreshWorker" "Start",
  .goCall "refreshInALoop",
  .ret "nil"
]

/-- `service.(RefreshWorker).refreshInALoop` (service/refreshworker.go) -/
def service_RefreshWorker_refreshInALoop : Skeleton := [
  .fn "RefreshWorker" "refreshInALoop",
  .deferCall "RecoverAndLogDefault",
  .call "Now",
  .call "UntilNext",
  .loop "for" "",
  .call "After",
  .select,
  .caseRecv "w.done",
  .ret "",
  .caseRecv "w.clock.After(waitDur)",
  .select,
  .caseRecv "w.done",
  .ret "",
  .caseDefault,
  .endSelect,
  .call "refresh",
  .ifBegin "err != nil",
  .call "Handle",
  .endIf,
  .call "Now",
  .call "UntilNext",
  .endSelect,
  .endLoop
]

/-- `service.(RefreshWorker).refresh` (service/refreshworker.go) -/
def service_RefreshWorker_refresh : Skeleton := [
  .fn "RefreshWorker" "refresh",
  .call "New",
  .deferCall "cancel",
  .call "Refresh",
  .ret "w.refr.Refresh(ctx)"
]

/-- `service.(RefreshWorker).Shutdown` (service/refreshworker.go) -/
def service_RefreshWorker_Shutdown : Skeleton := [
  .fn "RefreshWorker" "Shutdown",
  .close "w.done",
  .ifBegin "w.refrOnShutdown",
  .call "refresh",
  .assignResult "err" "w.refresh(ctx)",
  .ifBegin "err != nil",
  .ret "fmt.Errorf(\"refresh on shutdown: %w\", err)",
  .endIf,
  .endIf,
  .ret "nil"
]

/-- `osutil.isShutdownSignal` (osutil/signal_unix.go) -/
def osutil_isShutdownSignal : Skeleton := [
  .fn "" "isShutdownSignal",
  .switchBegin "sig",
  .caseExprs ["unix.SIGINT", "unix.SIGQUIT", "unix.SIGTERM"],
  .ret "true",
  .caseExprs [],
  .ret "false",
  .endSwitch
]

end GolibsVerif.C18.Expected
