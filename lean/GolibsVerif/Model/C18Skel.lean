/-
C18 — the event graphs (synchronisation skeletons in normal form, `Go/Skel.lean`) the models
in `Model/C18.lean` and `Model/C18Fine.lean` were written against (the repaired code:
per-service recovery in `shutdownService`, re-check of `done` in the timer case of
`refreshInALoop`).  `Theorems/C18.lean` proves `Gen.SyncSkel.X = Expected.X` for each of them
by `decide`, so any edit of `/repo` that changes the order of select / case / receive / close
/ go / defer / return / panic / recover or of the calls to Shutdown / Refresh / Handle /
UntilNext / After / Now / New / cancel / WithTimeout / IsShutdownSignal / RecoverAndLog on
some control path of these entry points — or the choices offered at some point, or the
direction of the loop over the services — breaks an obligation; an edit that leaves all of
that unchanged (helpers extracted or inlined, `continue` vs. `else`, loop rotated, locals
renamed, logging or error wrapping changed) does not.

The graphs are those of the ENTRY POINTS with every function of package `service` (resp.
`osutil`) they call inlined: `Handle` contains `shutdown` and `shutdownService`; `Start`
contains `refreshInALoop` (the body of the goroutine, between `goFunc` and `endFunc`) and
`refresh`; `Shutdown` contains `refresh`; `IsShutdownSignal` contains `isShutdownSignal`.
They were regenerated once from the unchanged tree for this normal form and reviewed against
the source by hand; the pseudo-code in each doc comment is the same graph, printed depth
first (`Lk:` marks state `k` when it has several predecessors).

How the models read them:
  * `Handle`: deferred `RecoverAndLog` (a panic leaves `status` at its zero value); loop: receive
    from the signal channel, `panic` when it is closed (unreachable while it is open);
    `IsShutdownSignal`: if false back to the receive; if true `WithTimeout`, deferred `cancel`,
    then `shutdown`: a loop over `h.services` from the LAST element to the first; every
    iteration runs `shutdownService` = a frame with a deferred closure that calls `recover()`
    directly, then `Shutdown`; after EVERY iteration, whatever `Shutdown` returned, back to the
    loop head — no `break`, no early `return` (the status aggregation is not an event: it is
    compared by the trace tie); `ret` when the slice is exhausted.
  * `Start`: `go` of: deferred `RecoverAndLogDefault`; loop head: `Now`, `UntilNext`, `After`,
    then a `select` between `w.done` (return) and the timer; the timer case first re-checks
    `w.done` (`select` with `default`; return when closed), then `refresh` = frame [`New`,
    deferred `cancel`, `Refresh`], `Handle` iff the error is not nil, back to the loop head.
    (`Now`, `UntilNext` before the loop and at the end of an iteration are one state.)
  * `Shutdown`: `close(w.done)` first; iff `w.refrOnShutdown` one `refresh`; return.
  * `IsShutdownSignal`: true exactly for SIGINT, SIGQUIT, SIGTERM.
-/
import GolibsVerif.Go.Skel

namespace GolibsVerif.C18.Expected
open GolibsVerif.Skel

/-- `service.(SignalHandler).Handle` (service/signal.go)
```
  deferCall "RecoverAndLog"
  L1:
  recv "recv.<chan os.Signal>"
  cond "ok(<-recv.<chan os.Signal>)" false:
      panic
      L5:
      end
  cond "ok(<-recv.<chan os.Signal>)" true:
      call "IsShutdownSignal"
      cond "IsShutdownSignal()" false:
          goto L1
      cond "IsShutdownSignal()" true:
          call "WithTimeout"
          deferCall "WithTimeout().1"
          L9:
          cond "range backward recv.services" false:
              ret ""
              goto L5
          cond "range backward recv.services" true:
              frame
              deferFunc
              recover
              endFunc
              call "Shutdown"
              endFunc
              goto L9
```
-/
def service_SignalHandler_Handle : Graph := [
  /- 0 -/ [(.deferCall "RecoverAndLog", 1)],
  /- 1 -/ [(.recv "recv.<chan os.Signal>", 2)],
  /- 2 -/ [(.cond "ok(<-recv.<chan os.Signal>)" false, 3), (.cond "ok(<-recv.<chan os.Signal>)" true, 4)],
  /- 3 -/ [(.panic, 5)],
  /- 4 -/ [(.call "IsShutdownSignal", 6)],
  /- 5 -/ [],
  /- 6 -/ [(.cond "IsShutdownSignal()" false, 1), (.cond "IsShutdownSignal()" true, 7)],
  /- 7 -/ [(.call "WithTimeout", 8)],
  /- 8 -/ [(.deferCall "WithTimeout().1", 9)],
  /- 9 -/ [(.cond "range backward recv.services" false, 10), (.cond "range backward recv.services" true, 11)],
  /- 10 -/ [(.ret "", 5)],
  /- 11 -/ [(.frame, 12)],
  /- 12 -/ [(.deferFunc, 13)],
  /- 13 -/ [(.recover, 14)],
  /- 14 -/ [(.endFunc, 15)],
  /- 15 -/ [(.call "Shutdown", 16)],
  /- 16 -/ [(.endFunc, 9)]
]

/-- `service.(RefreshWorker).Start` (service/refreshworker.go)
```
  goFunc
  deferCall "RecoverAndLogDefault"
  L2:
  call "Now"
  call "UntilNext"
  call "After"
  select
  caseRecv "After()":
      select
      caseDefault:
          frame
          call "New"
          deferCall "New().1"
          call "Refresh"
          endFunc
          cond "Refresh() == nil" false:
              call "Handle"
              goto L2
          cond "Refresh() == nil" true:
              goto L2
      caseRecv "recv.<chan unit>":
          L8:
          endFunc
          ret ""
          end
  caseRecv "recv.<chan unit>":
      goto L8
```
-/
def service_RefreshWorker_Start : Graph := [
  /- 0 -/ [(.goFunc, 1)],
  /- 1 -/ [(.deferCall "RecoverAndLogDefault", 2)],
  /- 2 -/ [(.call "Now", 3)],
  /- 3 -/ [(.call "UntilNext", 4)],
  /- 4 -/ [(.call "After", 5)],
  /- 5 -/ [(.select, 6)],
  /- 6 -/ [(.caseRecv "After()", 7), (.caseRecv "recv.<chan unit>", 8)],
  /- 7 -/ [(.select, 9)],
  /- 8 -/ [(.endFunc, 10)],
  /- 9 -/ [(.caseDefault, 11), (.caseRecv "recv.<chan unit>", 8)],
  /- 10 -/ [(.ret "", 12)],
  /- 11 -/ [(.frame, 13)],
  /- 12 -/ [],
  /- 13 -/ [(.call "New", 14)],
  /- 14 -/ [(.deferCall "New().1", 15)],
  /- 15 -/ [(.call "Refresh", 16)],
  /- 16 -/ [(.endFunc, 17)],
  /- 17 -/ [(.cond "Refresh() == nil" false, 18), (.cond "Refresh() == nil" true, 2)],
  /- 18 -/ [(.call "Handle", 2)]
]

/-- `service.(RefreshWorker).Shutdown` (service/refreshworker.go)
```
  close "recv.<chan unit>"
  cond "recv.refrOnShutdown" false:
      L2:
      ret ""
      end
  cond "recv.refrOnShutdown" true:
      frame
      call "New"
      deferCall "New().1"
      call "Refresh"
      endFunc
      goto L2
```
-/
def service_RefreshWorker_Shutdown : Graph := [
  /- 0 -/ [(.close "recv.<chan unit>", 1)],
  /- 1 -/ [(.cond "recv.refrOnShutdown" false, 2), (.cond "recv.refrOnShutdown" true, 3)],
  /- 2 -/ [(.ret "", 4)],
  /- 3 -/ [(.frame, 5)],
  /- 4 -/ [],
  /- 5 -/ [(.call "New", 6)],
  /- 6 -/ [(.deferCall "New().1", 7)],
  /- 7 -/ [(.call "Refresh", 8)],
  /- 8 -/ [(.endFunc, 2)]
]

/-- `osutil.IsShutdownSignal` (osutil/signal.go)
```
  cond "p0 == unix.SIGINT || p0 == unix.SIGQUIT || p0 == unix.SIGTERM" false:
      ret "false"
      L3:
      end
  cond "p0 == unix.SIGINT || p0 == unix.SIGQUIT || p0 == unix.SIGTERM" true:
      ret "true"
      goto L3
```
-/
def osutil_IsShutdownSignal : Graph := [
  /- 0 -/ [(.cond "p0 == unix.SIGINT || p0 == unix.SIGQUIT || p0 == unix.SIGTERM" false, 1), (.cond "p0 == unix.SIGINT || p0 == unix.SIGQUIT || p0 == unix.SIGTERM" true, 2)],
  /- 1 -/ [(.ret "false", 3)],
  /- 2 -/ [(.ret "true", 3)],
  /- 3 -/ []
]

end GolibsVerif.C18.Expected
