/-
C09 — pointer-level model of the cache's intrusive doubly-linked usage list
(`/repo/cache/list.go`) as `/repo/cache/data.go` uses it.

`Model/C09.lean` keeps the usage list as a plain `List Entry` (oldest first).  Here the
same list is what the Go code really has: a *heap* of `listItem` objects
`{next, prev *listItem}` addressed by numbers, the sentinel `cache.usage` at some address
`s`, one `listItem` embedded in every `item` (`item.used`), and `structPtr` going from the
address of an `item.used` back to the address of the `item` by subtracting the constant
field offset.  `Lemmas/C09List.lean` / `Theorems/C09List.lean` prove that this heap
*represents* the list of `Model/C09.lean` under every sequence of list operations the
cache performs.

What is modelled, statement by statement:

* a `*listItem` is `Option Ptr`: `none` is Go's `nil` — the zero value of both fields of an
  `item.used` that was never linked (`it := item{}`);
* dereferencing (`p.next`, `p.prev`, `p.next = …`) goes through `deref`: `nil` is Go's
  nil-pointer panic (`GoPanic.nilDeref`).  A non-nil address at which no `listItem` lives
  (`Heap` is partial) has no counterpart in type-safe Go — only the `unsafe` arithmetic of
  `structPtr` can manufacture one; it is a *distinct* error (`wild`), and the theorems show
  that the list functions never run into it: every pointer they follow is a live node;
* a store writes ONE field of ONE object (`setNext` / `setPrev`), the other field and all
  other objects are untouched — aliasing (`l == r`, `after == sentinel`, …) is therefore
  handled by the heap, not by case distinctions in the functions;
* Go's evaluation order: `listAppend(item, after)` reads `after.next` before the first
  `listLink2`; `listUnlink(item)` reads `item.prev` and `item.next` before linking them and
  leaves `item`'s own two fields as they were (dangling).

Core Lean only.
-/
import GolibsVerif.Go.Basic

namespace GolibsVerif.C09.LL

/-- An address (of a `listItem`, an `item` or the `cache` object). -/
abbrev Ptr := Nat

/-- `type listItem struct { next *listItem; prev *listItem }`; `none` = `nil`. -/
structure Node where
  next : Option Ptr
  prev : Option Ptr
  deriving Repr, DecidableEq

/-- the zero value: `item{}.used`, the `usage` field of `cache{}` before `listInit` -/
def Node.zero : Node := { next := none, prev := none }

/-- The `listItem` objects that exist, by address. -/
def Heap := Ptr → Option Node

namespace Heap

def empty : Heap := fun _ => none

/-- a (new or re-used) object at address `a` with contents `n` -/
def set (h : Heap) (a : Ptr) (n : Node) : Heap := fun b => if b = a then some n else h b

/-- `it := item{}` seen from the list: a zeroed `listItem` now lives at `a` -/
def alloc (h : Heap) (a : Ptr) : Heap := h.set a Node.zero

/-- the store `a.next = v` (no effect when nothing lives at `a`; the Go functions below
check that first) -/
def setNext (h : Heap) (a : Ptr) (v : Option Ptr) : Heap :=
  fun b => if b = a then (h a).map (fun n => { n with next := v }) else h b

/-- the store `a.prev = v` -/
def setPrev (h : Heap) (a : Ptr) (v : Option Ptr) : Heap :=
  fun b => if b = a then (h a).map (fun n => { n with prev := v }) else h b

/-- the value of `a.next`: `none` when it is nil (or when nothing lives at `a`) -/
def nx (h : Heap) (a : Ptr) : Option Ptr := (h a).bind Node.next

/-- the value of `a.prev` -/
def pv (h : Heap) (a : Ptr) : Option Ptr := (h a).bind Node.prev

/-- a `listItem` lives at `a` -/
def live (h : Heap) (a : Ptr) : Prop := (h a).isSome = true

instance (h : Heap) (a : Ptr) : Decidable (h.live a) := inferInstanceAs (Decidable (_ = true))

end Heap

/-- the error for following a non-nil pointer to an address where no `listItem` lives -/
def wild : GoPanic := .explicit "pointer to no listItem"

/-- Evaluate `*p`: the address and the object, or Go's nil-dereference panic. -/
def deref (h : Heap) : Option Ptr → GoM (Ptr × Node)
  | none => .error .nilDeref
  | some a =>
    match h a with
    | some n => .ok (a, n)
    | none => .error wild

/-- `p.next = v` -/
def storeNext (p v : Option Ptr) (h : Heap) : GoM Heap := do
  let (a, _) ← deref h p
  pure (h.setNext a v)

/-- `p.prev = v` -/
def storePrev (p v : Option Ptr) (h : Heap) : GoM Heap := do
  let (a, _) ← deref h p
  pure (h.setPrev a v)

/-! ### `list.go`, function by function -/

/-- `func listInit(l *listItem) { l.next = l; l.prev = l }` -/
def listInit (l : Option Ptr) (h : Heap) : GoM Heap := do
  let h ← storeNext l l h
  storePrev l l h

/-- `func listFirst(l *listItem) *listItem { return l.next }` -/
def listFirst (l : Option Ptr) (h : Heap) : GoM (Option Ptr) := do
  let (_, n) ← deref h l
  pure n.next

/-- `func listLast(l *listItem) *listItem { return l.prev }` -/
def listLast (l : Option Ptr) (h : Heap) : GoM (Option Ptr) := do
  let (_, n) ← deref h l
  pure n.prev

/-- `func listLink2(l, r *listItem) { l.next = r; r.prev = l }` -/
def listLink2 (l r : Option Ptr) (h : Heap) : GoM Heap := do
  let h ← storeNext l r h
  storePrev r l h

/-- `func listUnlink(item *listItem) { listLink2(item.prev, item.next) }` — the two
arguments are read from `item` first; `item.next` / `item.prev` themselves are not reset. -/
def listUnlink (item : Option Ptr) (h : Heap) : GoM Heap := do
  let (_, n) ← deref h item
  listLink2 n.prev n.next h

/-- `func listAppend(item, after *listItem) { listLink2(item, after.next); listLink2(after, item) }` -/
def listAppend (item after : Option Ptr) (h : Heap) : GoM Heap := do
  let (_, a) ← deref h after
  let h ← listLink2 item a.next h
  listLink2 after item h

/-! ### `structPtr` -/

/-- addresses are `uintptr`s of a 64-bit platform -/
def addrMod : Nat := 18446744073709551616

/-- `func structPtr(fieldPtr unsafe.Pointer, fieldOff uintptr) unsafe.Pointer {
return unsafe.Pointer(uintptr(fieldPtr) - fieldOff) }` — `uintptr` subtraction wraps
(`fieldPtr` is a `uintptr` already, i.e. `< addrMod`). -/
def structPtr (fieldPtr : Ptr) (fieldOff : Nat) : Ptr :=
  (fieldPtr + (addrMod - fieldOff % addrMod)) % addrMod

/-- `&obj.field` for a field at constant offset `fieldOff` -/
def fieldPtr (obj : Ptr) (fieldOff : Nat) : Ptr := (obj + fieldOff) % addrMod

/-- `unsafe.Offsetof(item{}.used)`: `key, value []byte` are two 24-byte slice headers. -/
def usedOff : Nat := 48

/-- `unsafe.Offsetof(cache{}.usage)`: after the 8-byte map header pointer `items`. -/
def usageOff : Nat := 8

/-- `&it.used` -/
def usedOf (item : Ptr) : Ptr := fieldPtr item usedOff

/-- `(*item)(structPtr(unsafe.Pointer(li), unsafe.Offsetof(item{}.used)))` -/
def itemOf (li : Ptr) : Ptr := structPtr li usedOff

/-! ### The list operations as `data.go` composes them

`s` is the address of the sentinel `&c.usage`. -/

/-- `listAppend(&it.used, listLast(&c.usage))` (`Set` with LRU, second half of `Get`) -/
def pushBack (s x : Ptr) (h : Heap) : GoM Heap := do
  let last ← listLast (some s) h
  listAppend (some x) last h

/-- One iteration of the eviction loop of `Set`, the list part:
`first := listFirst(&c.usage); … listUnlink(first)`.  Returns `first` too (the loop applies
`structPtr` to it to reach the item). -/
def popFront (s : Ptr) (h : Heap) : GoM (Option Ptr × Heap) := do
  let first ← listFirst (some s) h
  let h ← listUnlink first h
  pure (first, h)

/-- `Get` on a hit with LRU: `listUnlink(&val.used); listAppend(&val.used, listLast(&c.usage))` -/
def moveBack (s x : Ptr) (h : Heap) : GoM Heap := do
  let h ← listUnlink (some x) h
  pushBack s x h

/-- The list operations of the cache, as an abstract instruction set. -/
inductive LOp where
  /-- `it := item{}` in `Set`: a zeroed `listItem` (the `used` field) at address `x` -/
  | alloc (x : Ptr)
  /-- `listAppend(&it.used, listLast(&c.usage))` -/
  | append (x : Ptr)
  /-- `listUnlink(&it.used)` (`Set` replacing a key, `Del`) -/
  | unlink (x : Ptr)
  /-- `Get`: unlink + append -/
  | moveBack (x : Ptr)
  /-- eviction: `listFirst` + `listUnlink` -/
  | popFront
  /-- `Clear` (and `newCache`): `listInit(&c.usage)` -/
  | clear
  deriving Repr, DecidableEq

/-- pointer-level execution of one instruction -/
def execOp (s : Ptr) : LOp → Heap → GoM Heap
  | .alloc x, h => pure (h.alloc x)
  | .append x, h => pushBack s x h
  | .unlink x, h => listUnlink (some x) h
  | .moveBack x, h => moveBack s x h
  | .popFront, h => do let (_, h) ← popFront s h; pure h
  | .clear, h => listInit (some s) h

def execOps (s : Ptr) : List LOp → Heap → GoM Heap
  | [], h => pure h
  | op :: rest, h => do
    let h ← execOp s op h
    execOps s rest h

/-- `newCache`: the `cache` object (its `usage` field zeroed at `s`), then `listInit`. -/
def newList (s : Ptr) : GoM Heap := listInit (some s) (Heap.empty.alloc s)

/-- how a traversal ended -/
inductive WalkEnd where
  | sentinel   -- came back to the sentinel
  | nil        -- ran into a nil pointer
  | wild       -- ran into an address where no `listItem` lives
  | fuel       -- step bound exhausted (a cycle that avoids the sentinel)
  deriving Repr, DecidableEq

/-- Traversal used by the differential tie and by `VerifSnapshot`: follow `next` starting
with pointer `p` for at most `fuel` steps, stop at the sentinel `s`, at nil or at a wild
pointer; the nodes visited and how it ended. -/
def walkNext (h : Heap) (s : Ptr) : Nat → Option Ptr → List Ptr × WalkEnd
  | 0, _ => ([], .fuel)
  | _ + 1, none => ([], .nil)
  | fuel + 1, some a =>
    if a = s then ([], .sentinel) else
    match h a with
    | none => ([], .wild)
    | some n => let r := walkNext h s fuel n.next; (a :: r.1, r.2)

/-- the same backwards (`prev`) -/
def walkPrev (h : Heap) (s : Ptr) : Nat → Option Ptr → List Ptr × WalkEnd
  | 0, _ => ([], .fuel)
  | _ + 1, none => ([], .nil)
  | fuel + 1, some a =>
    if a = s then ([], .sentinel) else
    match h a with
    | none => ([], .wild)
    | some n => let r := walkPrev h s fuel n.prev; (a :: r.1, r.2)

end GolibsVerif.C09.LL
