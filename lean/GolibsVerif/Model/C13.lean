/-
C13 — executable model of `stringutil.ContainsFold` and `stringutil.SplitTrimmed`
(`/repo/stringutil/stringutil.go`), written against the *minimally repaired* code (the scan
predicate tests membership in the whole `unicode.SimpleFold` orbit of the needle's first
rune; the code as shipped compares against one fold only and is kept as
`containsFoldOrig`).

Strings are `Bytes = List Nat`.  Index and slice expressions of the golibs code go through
`GoM` so that a Go panic is a value.  Stdlib pieces:

* `decodeRune`     = `utf8.DecodeRuneInString` (invalid input → `(RuneError, 1)`),
* `decodeLastRune` = `utf8.DecodeLastRuneInString`,
* `runes`          = the rune sequence of `for _, r := range s`,
* `indexFunc`      = `strings.IndexFunc`,
* `equalFold`      = `strings.EqualFold` in rune-sequence form, parametric in
                     `fold = unicode.SimpleFold` (contract FOLD-1, see `Spec/C13.lean`),
* `trimSpace`      = `strings.TrimSpace`, `split` = `strings.Split`.

Each of them is compared with the real function by the `C13.std.*` ops on every check.
Core Lean only (this file is linked into the driver executable).
-/
import GolibsVerif.Go.Basic

namespace GolibsVerif.C13

/-! ## UTF-8 decoding -/

/-- `utf8.RuneError` -/
def RuneError : Nat := 0xFFFD

/-- UTF-8 continuation byte, `b & 0xC0 == 0x80` (so `utf8.RuneStart b = !isCont b`). -/
def isCont (b : Nat) : Prop := 0x80 ≤ b ∧ b ≤ 0xBF

instance (b : Nat) : Decidable (isCont b) := by unfold isCont; infer_instance

/-- The `first` / `acceptRanges` tables of `unicode/utf8`: for a leading byte, the encoded
size (0 = invalid `xx`, 1 = ASCII `as`) and the accept range of the *second* byte. -/
def lead (b : Nat) : Nat × Nat × Nat :=
  if b < 0x80 then (1, 0, 0)
  else if b < 0xC2 then (0, 0, 0)
  else if b < 0xE0 then (2, 0x80, 0xBF)
  else if b = 0xE0 then (3, 0xA0, 0xBF)
  else if b = 0xED then (3, 0x80, 0x9F)
  else if b < 0xF0 then (3, 0x80, 0xBF)
  else if b = 0xF0 then (4, 0x90, 0xBF)
  else if b < 0xF4 then (4, 0x80, 0xBF)
  else if b = 0xF4 then (4, 0x80, 0x8F)
  else (0, 0, 0)

/-- `utf8.DecodeRuneInString`: `(rune, width)`; `(RuneError, 0)` for the empty string and
`(RuneError, 1)` for every invalid or truncated encoding. -/
def decodeRune : Bytes → Nat × Nat
  | [] => (RuneError, 0)
  | s0 :: rest =>
    match (lead s0).1, rest with
    | 1, _ => (s0, 1)
    | 2, s1 :: _ =>
      if (lead s0).2.1 ≤ s1 ∧ s1 ≤ (lead s0).2.2 then (s0 % 32 * 64 + s1 % 64, 2)
      else (RuneError, 1)
    | 3, s1 :: s2 :: _ =>
      if (lead s0).2.1 ≤ s1 ∧ s1 ≤ (lead s0).2.2 ∧ isCont s2 then
        (s0 % 16 * 4096 + s1 % 64 * 64 + s2 % 64, 3)
      else (RuneError, 1)
    | 4, s1 :: s2 :: s3 :: _ =>
      if (lead s0).2.1 ≤ s1 ∧ s1 ≤ (lead s0).2.2 ∧ isCont s2 ∧ isCont s3 then
        (s0 % 8 * 262144 + s1 % 64 * 4096 + s2 % 64 * 64 + s3 % 64, 4)
      else (RuneError, 1)
    | _, _ => (RuneError, 1)

theorem decodeRune_width_pos (b : Nat) (t : Bytes) : 1 ≤ (decodeRune (b :: t)).2 := by
  simp only [decodeRune]
  split <;> (try split) <;> first | decide | omega | simp

theorem decodeRune_width_le (s : Bytes) : (decodeRune s).2 ≤ s.length := by
  cases s with
  | nil => simp [decodeRune]
  | cons b t =>
    simp only [decodeRune]
    split <;> (try split) <;> simp <;> omega

/-- The rune sequence of `for _, r := range s` (each invalid byte is one `RuneError`). -/
def runes (s : Bytes) : List Nat :=
  match s with
  | [] => []
  | b :: t => (decodeRune (b :: t)).1 :: runes ((b :: t).drop (decodeRune (b :: t)).2)
termination_by s.length
decreasing_by
  have := decodeRune_width_pos b t
  simp only [List.length_drop, List.length_cons]; omega

/-- `strings.IndexFunc(s, p)` continued at byte offset `off`; `-1` when no rune satisfies `p`. -/
def indexFuncAux (p : Nat → Bool) (s : Bytes) (off : Nat) : Int :=
  match s with
  | [] => -1
  | b :: t =>
    if p (decodeRune (b :: t)).1 then (off : Int)
    else indexFuncAux p ((b :: t).drop (decodeRune (b :: t)).2) (off + (decodeRune (b :: t)).2)
termination_by s.length
decreasing_by
  have := decodeRune_width_pos b t
  simp only [List.length_drop, List.length_cons]; omega

/-- `strings.IndexFunc` -/
def indexFunc (p : Nat → Bool) (s : Bytes) : Int := indexFuncAux p s 0

/-! ## Simple case folding -/

/-- Bound on the number of `SimpleFold` steps a walk round one orbit may take (the largest
orbit of Unicode 15 has 4 members; FOLD-1 states `period ≤ orbitFuel`). -/
def orbitFuel : Nat := 8

/-- `for r := fold(a); r != a; r = fold(r) { folds = append(folds, r) }`, started at
`f = fold(a)`: the members of the orbit of `a` other than `a` itself.  The Go loop has no
bound; the model stops after `orbitFuel` steps.  Under FOLD-1 the walk is back at `a` before
that, so the two agree (`orbitMem_iff` in `Lemmas/C13.lean`). -/
def orbitRest (fold : Nat → Nat) (a : Nat) : Nat → Nat → List Nat
  | 0, _ => []
  | n + 1, f => if f = a then [] else f :: orbitRest fold a n (fold f)

/-- The slice `folds` of the repaired `ContainsFold`. -/
def folds (fold : Nat → Nat) (a : Nat) : List Nat := orbitRest fold a orbitFuel (fold a)

/-- Is `b` in the `SimpleFold` orbit of `a`: `b == a || slices.Contains(folds, b)`.  (The
repaired scan predicate of `ContainsFold`, and the rune comparison of `strings.EqualFold`.) -/
def orbitMem (fold : Nat → Nat) (a b : Nat) : Bool :=
  decide (b = a) || (folds fold a).contains b

/-- `strings.EqualFold` on rune sequences. -/
def eqFoldRunes (fold : Nat → Nat) : List Nat → List Nat → Bool
  | [], [] => true
  | a :: as, b :: bs => orbitMem fold a b && eqFoldRunes fold as bs
  | _, _ => false

/-- `strings.EqualFold(s, t)` -/
def equalFold (fold : Nat → Nat) (s t : Bytes) : Bool := eqFoldRunes fold (runes s) (runes t)

/-! ## `ContainsFold` -/

/-- The loop of `ContainsFold`; `pred` is the closure handed to `strings.IndexFunc`.

```go
for i := 0; i != -1 && len(s) >= len(substr); {
    if strings.EqualFold(s[:substrLen], substr) { return true }
    i = strings.IndexFunc(s[1:], pred)
    s = s[1+i:]
}
return false
```
The recursion is on `len(s)`: Lean accepting it is the proof that the loop terminates.  The
last branch only serves that termination argument; `containsFold_never_panics` shows that
no `.error` branch — this one, or a slice expression out of range — is ever taken. -/
def cfLoop (fold : Nat → Nat) (pred : Nat → Bool) (sub : Bytes) (s : Bytes) : GoM Bool :=
  if s.length < sub.length then .ok false else
  match GoM.sliceTo s sub.length with
  | .error e => .error e
  | .ok w =>
    if equalFold fold w sub then .ok true else
    match GoM.sliceFrom s 1 with
    | .error e => .error e
    | .ok s1 =>
      match GoM.sliceFrom s (1 + indexFunc pred s1) with
      | .error e => .error e
      | .ok s' =>
        if indexFunc pred s1 = -1 then .ok false
        else if _hlt : s'.length < s.length then cfLoop fold pred sub s'
        else .error (.explicit "unreachable: s[1+i:] is not shorter than s")
termination_by s.length

/-- `stringutil.ContainsFold` after the repair (`fix-1.diff`): the scan looks for any member of
the fold orbit of the needle's first rune,
`func(r rune) bool { return r == first || slices.Contains(folds, r) }`. -/
def containsFold (fold : Nat → Nat) (s sub : Bytes) : GoM Bool :=
  if s.length < sub.length then .ok false
  else if s.length = sub.length then .ok (equalFold fold s sub)
  else cfLoop fold (fun r => orbitMem fold (decodeRune sub).1 r) sub s

/-- `stringutil.ContainsFold` as shipped: only `first` and `unicode.SimpleFold(first)` are
searched for. -/
def containsFoldOrig (fold : Nat → Nat) (s sub : Bytes) : GoM Bool :=
  if s.length < sub.length then .ok false
  else if s.length = sub.length then .ok (equalFold fold s sub)
  else cfLoop fold (fun r => r == (decodeRune sub).1 || r == fold (decodeRune sub).1) sub s

/-! ## `strings.TrimSpace`, `strings.Split` -/

/-- `unicode.IsSpace` -/
def isSpace (r : Nat) : Bool :=
  r == 0x09 || r == 0x0A || r == 0x0B || r == 0x0C || r == 0x0D || r == 0x20 || r == 0x85 || r == 0xA0
  || r == 0x1680 || (0x2000 ≤ r && r ≤ 0x200A) || r == 0x2028 || r == 0x2029 || r == 0x202F
  || r == 0x205F || r == 0x3000

def trimLeftSpace (s : Bytes) : Bytes :=
  match s with
  | [] => []
  | b :: t =>
    if isSpace (decodeRune (b :: t)).1 then trimLeftSpace ((b :: t).drop (decodeRune (b :: t)).2)
    else b :: t
termination_by s.length
decreasing_by
  have := decodeRune_width_pos b t
  simp only [List.length_drop, List.length_cons]; omega

/-- `utf8.DecodeLastRuneInString` -/
def decodeLastRune (s : Bytes) : Nat × Nat :=
  match s.reverse with
  | [] => (RuneError, 0)
  | c0 :: before =>
    if c0 < 0x80 then (c0, 1) else
    -- nearest rune-start byte among the three bytes before the last one
    match (before.take 3).findIdx? (fun b => !decide (isCont b)) with
    | none => (RuneError, 1)
    | some j =>
      let d := decodeRune (s.drop (s.length - 2 - j))
      if d.2 = j + 2 then d else (RuneError, 1)

def trimRightSpace (s : Bytes) : Bytes :=
  if h : s = [] then [] else
  have _ := h
  if isSpace (decodeLastRune s).1 ∧ 1 ≤ (decodeLastRune s).2 then
    trimRightSpace (s.take (s.length - (decodeLastRune s).2))
  else s
termination_by s.length
decreasing_by
  have : 0 < s.length := List.length_pos_iff.mpr h
  simp only [List.length_take]; omega

/-- `strings.TrimSpace` -/
def trimSpace (s : Bytes) : Bytes := trimRightSpace (trimLeftSpace s)

/-- `strings.Split(s, "")` (`explode`): one element per UTF-8 sequence / invalid byte. -/
def explode (s : Bytes) : List Bytes :=
  match s with
  | [] => []
  | b :: t => (b :: t).take (decodeRune (b :: t)).2 :: explode ((b :: t).drop (decodeRune (b :: t)).2)
termination_by s.length
decreasing_by
  have := decodeRune_width_pos b t
  simp only [List.length_drop, List.length_cons]; omega

/-- `strings.Split(s, sep)` for non-empty `sep`, as one left-to-right scan: `cur` is the
current piece (reversed), `skip` the number of bytes of a matched separator still to skip. -/
def splitScan (sep : Bytes) : Bytes → Bytes → Nat → List Bytes
  | [], cur, _ => [cur.reverse]
  | _ :: t, cur, skip + 1 => splitScan sep t cur skip
  | b :: t, cur, 0 =>
    if sep.isPrefixOf (b :: t) then cur.reverse :: splitScan sep t [] (sep.length - 1)
    else splitScan sep t (b :: cur) 0

/-- `strings.Split` -/
def split (s sep : Bytes) : List Bytes :=
  if sep = [] then explode s else splitScan sep s [] 0

/-! ## `SplitTrimmed` on a backing array -/

/-- A `[]string` value: the elements, and whether the slice header is nil. -/
structure StrSlice where
  elems : List Bytes
  isNil : Bool
  deriving Repr, DecidableEq

/-- `a[i]` on the backing array of a `[]string` of length `a.length`, with Go's bounds check. -/
def idxS (a : List Bytes) (i : Nat) : GoM Bytes :=
  match a[i]? with
  | some v => .ok v
  | none => .error (.indexOutOfRange i a.length)

/-- `a[i] = v` with Go's bounds check. -/
def setS (a : List Bytes) (i : Nat) (v : Bytes) : GoM (List Bytes) :=
  if i < a.length then .ok (a.set i v) else .error (.indexOutOfRange i a.length)

/-- State of the filter loop of `SplitTrimmed`.  `A` is the backing array of `split`
(`len(split) = cap(split) = A.length`).  `strs` is `A[:j]` while `own = none`; if `append`
ever had to grow it, `strs` is the fresh array `own = some B` (and no longer aliases `split`). -/
structure FState where
  A : List Bytes
  own : Option (List Bytes)
  j : Nat
  deriving Repr, DecidableEq

/-- `strs = append(strs, t)`: writes `A[j]` in place while `len(strs) < cap(strs)`,
otherwise copies `strs` to a fresh array. -/
def FState.append (st : FState) (t : Bytes) : FState :=
  match st.own with
  | some b => { st with own := some (b ++ [t]), j := st.j + 1 }
  | none =>
    if st.j < st.A.length then { st with A := st.A.set st.j t, j := st.j + 1 }
    else { st with own := some (st.A.take st.j ++ [t]), j := st.j + 1 }

/-- The value of `strs`. -/
def FState.strs (st : FState) : List Bytes :=
  match st.own with
  | some b => b
  | none => st.A.take st.j

/-- `k` iterations of `for _, s := range split { s = TrimSpace(s); if s == "" { continue };
strs = append(strs, s) }` starting at index `i`: each iteration *reads* `A[i]` from the
(possibly already overwritten) backing array. -/
def filterLoop (trim : Bytes → Bytes) : Nat → Nat → FState → GoM FState
  | 0, _, st => .ok st
  | k + 1, i, st =>
    match idxS st.A i with
    | .error e => .error e
    | .ok s =>
      if trim s = [] then filterLoop trim k (i + 1) st
      else filterLoop trim k (i + 1) (st.append (trim s))

/-- `for i := len(strs); i < len(split); i++ { split[i] = "" }` -/
def zeroLoop : Nat → Nat → List Bytes → GoM (List Bytes)
  | 0, _, a => .ok a
  | k + 1, i, a =>
    match setS a i [] with
    | .error e => .error e
    | .ok a' => zeroLoop k (i + 1) a'

/-- `stringutil.SplitTrimmed`, parametric in `strings.TrimSpace` and `strings.Split`
(`strings.Split` returns a freshly made, non-nil slice with `len = cap`). -/
def splitTrimmed (trim : Bytes → Bytes) (split : Bytes → Bytes → List Bytes) (str sep : Bytes) :
    GoM StrSlice :=
  let str := trim str
  if str = [] then .ok { elems := [], isNil := false } else
  let sp := split str sep
  match filterLoop trim sp.length 0 { A := sp, own := none, j := 0 } with
  | .error e => .error e
  | .ok st =>
    match zeroLoop (sp.length - st.j) st.j st.A with
    | .error e => .error e
    | .ok a' => .ok { elems := ({ st with A := a' } : FState).strs, isNil := false }

end GolibsVerif.C13
