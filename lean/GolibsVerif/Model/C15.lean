/-
C15 — executable models of `ioutil.limitedReader.Read` and `ioutil.TruncatedWriter.Write`
(`/repo/ioutil/limitedreader.go`, `/repo/ioutil/truncwriter.go`).

The wrapped reader / writer is a parameter: for one call it is a function from the length
of the buffer it is handed to what it answers.  A whole history is a list of such calls, so
"every behaviour of r" is "every list of response functions".
-/
import GolibsVerif.Go.Basic

namespace GolibsVerif.C15

/-- What the wrapped reader answers to one `Read(p)`: the count it reports (Go `int`, so it
may be negative), the bytes it stored into `p`, and its error (`0` = nil, `1` = io.EOF,
other = an injected error with that code). -/
structure Resp where
  n : Int
  data : Bytes
  err : Nat
  deriving Repr, DecidableEq

/-- Errors `limitedReader.Read` can return. -/
inductive RErr where
  | nil
  | limit (n : Nat)          -- *LimitError{Limit: n}
  | badLen (n : Int)         -- fmt.Errorf("bad read length: %d", n)
  | under (code : Nat)       -- the wrapped reader's error, passed through
  deriving Repr, DecidableEq

/-- `limitedReader`: `limit` and the remaining budget `n`. -/
structure LR where
  limit : Nat
  n : Nat
  deriving Repr, DecidableEq

/-- Observable result of one `Read`: how many bytes were requested from the wrapped reader
(`none` when it was not called), the returned count, the delivered bytes, the error. -/
structure ReadOut where
  requested : Option Nat
  n : Int
  data : Bytes
  err : RErr
  deriving Repr, DecidableEq

def limitReader (n : Nat) : LR := { limit := n, n := n }

def underErr (code : Nat) : RErr := if code = 0 then .nil else .under code

/-- One `Read(p)` with `len(p) = plen`; `r l` is the wrapped reader's answer to a buffer of
length `l`. -/
def LR.read (lr : LR) (plen : Nat) (r : Nat → Resp) : LR × ReadOut :=
  if lr.n = 0 then
    (lr, { requested := none, n := 0, data := [], err := .limit lr.limit })
  else
    let l := min plen lr.n
    let resp := r l
    if resp.n < 0 then
      (lr, { requested := some l, n := 0, data := [], err := .badLen resp.n })
    else
      ({ lr with n := lr.n - resp.n.toNat },
       { requested := some l, n := resp.n, data := resp.data, err := underErr resp.err })

/-- A history of reads. -/
def LR.run (lr : LR) : List (Nat × (Nat → Resp)) → LR × List ReadOut
  | [] => (lr, [])
  | (plen, r) :: rest =>
    let (lr', o) := lr.read plen r
    let (lr'', os) := lr'.run rest
    (lr'', o :: os)

/-- The wrapped reader obeys the `io.Reader` contract on this call: `0 ≤ n ≤ len(p)` and it
stored exactly `n` bytes.  (Negative counts are handled by the code and are allowed
separately.) -/
def Resp.wf (resp : Resp) (l : Nat) : Prop :=
  resp.n < 0 ∨ (resp.n = resp.data.length ∧ resp.data.length ≤ l)

/-! ### Limited readers stacked on a limited reader

`LimitReader(LimitReader(src, n), m)`: the reader the outer one wraps is itself a
`limitedReader`, so its answer to a buffer of length `l` is the inner one's `Read` on that
buffer, and the inner one's state moves exactly when the outer one called it. -/

/-- The error of an inner `Read` as the outer reader sees it: an error code that is `0`
exactly for `nil` (the outer only passes it on).  Injective, so the outer's
`.under code` still says which error the inner one returned. -/
def RErr.code : RErr → Nat
  | .nil => 0
  | .under c => 4 * c + 1
  | .limit n => 4 * n + 2
  | .badLen (.ofNat k) => 4 * k + 3
  | .badLen (.negSucc k) => 4 * k + 4

/-- What an inner `Read` returned, as the answer of a wrapped reader. -/
def ReadOut.toResp (o : ReadOut) : Resp := { n := o.n, data := o.data, err := o.err.code }

/-- The wrapped-reader behaviour "a `limitedReader` in state `inner` over a source that
answers `s`". -/
def LR.asReader (inner : LR) (s : Nat → Resp) : Nat → Resp :=
  fun l => (inner.read l s).2.toResp

/-- State of a stack: the outer reader and the inner one it wraps. -/
structure Stack where
  outer : LR
  inner : LR
  deriving Repr, DecidableEq

/-- Result of one `Read` on the outer reader: what the outer returned, and what the inner one
returned to it (`none` when the outer did not call it). -/
structure StackOut where
  out : ReadOut
  inner : Option ReadOut
  deriving Repr, DecidableEq

/-- One `Read(p)` on the outer reader, `len(p) = plen`; `s` is the source's answer if the
inner reader calls it. -/
def Stack.read (st : Stack) (plen : Nat) (s : Nat → Resp) : Stack × StackOut :=
  let r := st.outer.read plen (st.inner.asReader s)
  match r.2.requested with
  | none => ({ outer := r.1, inner := st.inner }, { out := r.2, inner := none })
  | some l =>
    ({ outer := r.1, inner := (st.inner.read l s).1 },
     { out := r.2, inner := some (st.inner.read l s).2 })

/-- A history of reads on the outer reader. -/
def Stack.run (st : Stack) : List (Nat × (Nat → Resp)) → Stack × List StackOut
  | [] => (st, [])
  | (plen, s) :: rest =>
    let (st', o) := st.read plen s
    let (st'', os) := st'.run rest
    (st'', o :: os)

/-- What the callers of the outer reader got. -/
def outerOuts (os : List StackOut) : List ReadOut := os.map (·.out)

/-- What the inner reader returned, call by call (only the calls that happened). -/
def innerOuts (os : List StackOut) : List ReadOut := os.filterMap (·.inner)

/-- Several readers made one after the other over the SAME inner reader: a session is
`some m` — a fresh `LimitReader(inner, m)` read through a history of calls and then dropped —
or `none` — the history is read from the inner reader directly.  Result: the inner reader's
final state, everything the callers got, and everything the inner reader returned. -/
def sessions (inner : LR) :
    List (Option Nat × List (Nat × (Nat → Resp))) → LR × List ReadOut × List ReadOut
  | [] => (inner, [], [])
  | (none, calls) :: rest =>
    let r := inner.run calls
    let t := sessions r.1 rest
    (t.1, r.2 ++ t.2.1, r.2 ++ t.2.2)
  | (some m, calls) :: rest =>
    let r := ({ outer := limitReader m, inner := inner } : Stack).run calls
    let t := sessions r.1.inner rest
    (t.1, outerOuts r.2 ++ t.2.1, innerOuts r.2 ++ t.2.2)

/-! ### TruncatedWriter -/

structure TW where
  limit : Nat
  offset : Nat
  deriving Repr, DecidableEq

structure WriteOut where
  forwarded : Option Bytes     -- the slice handed to the wrapped writer, if it was called
  n : Nat
  err : Nat                    -- 0 = nil, else the wrapped writer's error code
  deriving Repr, DecidableEq

def newTruncatedWriter (limit : Nat) : TW := { limit := limit, offset := 0 }

/-- One `Write(b)`; `werr` is the error the wrapped writer returns if it is called. -/
def TW.write (w : TW) (b : Bytes) (werr : Nat) : TW × WriteOut :=
  let n := b.length
  let remaining := w.limit - w.offset
  if remaining = 0 then (w, { forwarded := none, n := n, err := 0 })
  else
    let idx := min n remaining
    ({ w with offset := w.offset + idx }, { forwarded := some (b.take idx), n := n, err := werr })

def TW.run (w : TW) : List (Bytes × Nat) → TW × List WriteOut
  | [] => (w, [])
  | (b, e) :: rest =>
    let (w', o) := w.write b e
    let (w'', os) := w'.run rest
    (w'', o :: os)

def forwardedAll (os : List WriteOut) : Bytes :=
  os.flatMap fun o => o.forwarded.getD []

end GolibsVerif.C15
