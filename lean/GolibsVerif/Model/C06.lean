/-
C06 — executable model of `netutil.IsLocallyServed` / `netutil.IsSpecialPurpose`.

The bodies are NOT hand-written: they are the terms `Gen.Subnets.IsLocallyServed`,
`Gen.Subnets.IsSpecialPurpose` (dispatch) and `Gen.Subnets.is…V4/V6` (byte formulas) that
`gen/subnets.go` regenerates from `/repo/netutil/subnetset.go` on every `./check` run.
This file gives them their meaning on a model of `netip.Addr`.
-/
import GolibsVerif.Model.C06F
import GolibsVerif.Gen.Subnets

namespace GolibsVerif.C06

/-- `netip.Addr`: the zero value, an IPv4 address, or an IPv6 address with a zone (`""` for
none).  As in `net/netip`, `::ffff:a.b.c.d` (4in6) is a `v6` value: `Is4` is false for it. -/
inductive Addr where
  | invalid
  | v4 (a : BitVec 32)
  | v6 (a : BitVec 128) (zone : String)
  deriving DecidableEq, Repr

namespace Addr

/-- `Is4In6`: `hi == 0 && lo>>32 == 0xffff` -/
def kind : Addr → Kind
  | invalid => .invalid
  | v4 _ => .v4
  | v6 a _ => if a.toNat / 2 ^ 32 = 0xffff then .v4in6 else .v6

/-- `ip.As4()`: panics on the zero value and on a non-mapped IPv6 address. -/
def as4 : Addr → GoM (List Nat)
  | invalid => .error (.explicit "As4 called on IP zero value")
  | v4 a => .ok (toBytes 4 a.toNat)
  | v6 a _ =>
    if a.toNat / 2 ^ 32 = 0xffff then .ok (toBytes 4 a.toNat)
    else .error (.explicit "As4 called on IPv6 address")

/-- `ip.As16()`: never panics; IPv4 is returned 4in6-mapped, the zero value as zeroes, the
zone is dropped. -/
def as16 : Addr → List Nat
  | invalid => toBytes 16 0
  | v4 a => toBytes 16 (0xffff * 2 ^ 32 + a.toNat)
  | v6 a _ => toBytes 16 a.toNat

/-- `ip.Unmap()`: a 4in6 address `::ffff:a.b.c.d` becomes the IPv4 address `a.b.c.d` (the
zone is dropped); every other address is returned as is. -/
def unmap : Addr → Addr
  | v6 a z => if a.toNat / 2 ^ 32 = 0xffff then v4 (BitVec.ofNat 32 a.toNat) else v6 a z
  | x => x

end Addr

/-- run a reified dispatcher on an address -/
def D.eval (x : Addr) : D → GoM Bool
  | .ret b => .ok b
  | .on4 f => x.as4.map fun bs => f.eval (ipOf bs)
  | .on16 f => .ok (f.eval (ipOf x.as16))
  | .ite c t e => if c.holds x.kind then D.eval x t else D.eval x e
  | .unmap d => D.eval x.unmap d

/-- `netutil.IsLocallyServed`, as the current source has it -/
def isLocallyServed (x : Addr) : GoM Bool := Gen.Subnets.IsLocallyServed.eval x

/-- `netutil.IsSpecialPurpose`, as the current source has it -/
def isSpecialPurpose (x : Addr) : GoM Bool := Gen.Subnets.IsSpecialPurpose.eval x

/-- executable form of "lies in one of the documented networks of its family" (the zone is
ignored, a 4in6 address belongs to the IPv6 family, the zero value to none) -/
def Addr.inDocB (x : Addr) (doc : List Pfx) : Bool :=
  match x with
  | .invalid => false
  | .v4 a => (family 4 doc).any fun p => p.containsB 4 a.toNat
  | .v6 a _ => (family 16 doc).any fun p => p.containsB 16 a.toNat

end GolibsVerif.C06
