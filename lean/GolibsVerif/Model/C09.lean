/-
C09 — executable model of the in-memory cache of `/repo/cache` (`cache.go`, `data.go`,
`list.go`).

The Go object is `{items map[string]*item, usage listItem (intrusive list, oldest first),
size uint, hit, miss int32, conf Config}` behind one mutex.  The model keeps ONE list of
entries (`St.lru`, oldest first) standing for both the map and the usage list; an entry
remembers in `linked` whether `listAppend` was ever executed for its `used` field, because
`listUnlink` on an item that was never linked dereferences a nil `prev` pointer (that is
defect 7 of DESIGN.md §9; see `setCommitWith`/`delWith` below).

Every *critical section* of the Go code (the code between one `Lock` and the next
`Unlock`) is one step function, total in `GoM` (a Go panic is an `Except.error`):

  `setCheck`      size check before the lock + "cache is full" refusal without LRU
  `evictOne`      one iteration of the eviction loop of `Set` (drop the list head); the lock
                  is released after it and `OnDelete` is called
  `setCommit`     the section that leaves the loop: link, look up / unlink old, store, size
  `get`, `del`, `clear`, `stats`

`CStep`/`Trace` is the labelled transition system "any critical section may come next";
the theorems about it therefore hold for every interleaving of pending `Set` frames — that
covers calls made re-entrantly from inside `OnDelete` (and, for C10, other goroutines).
`runOp`/`runOps`/`evictLoop` is the deterministic nested interpreter built from the same
step functions that the differential tie drives: an `Op.set` carries, for the i-th
`OnDelete` call made by *that* `Set`, the list of operations the callback performs
(themselves operations with callbacks, to any depth).

Arithmetic: `uint` is modelled on `Nat`; the stated assumption is that `size + addSize`
does not wrap (sizes are lengths of live slices).  `size -= …` never underflows: that is
part of the proved invariant (`size = Σ entry sizes`).
-/
import GolibsVerif.Go.Basic

namespace GolibsVerif.C09

/-- `item`: key, value and whether `item.used` is linked into `cache.usage`. -/
structure Entry where
  key : Bytes
  val : Bytes
  linked : Bool
  deriving Repr, DecidableEq

/-- `len(it.key) + len(it.value)` -/
def Entry.sz (e : Entry) : Nat := e.key.length + e.val.length

/-- `Config` as passed to `New` (`hasCb` = `OnDelete != nil`). -/
structure RawConf where
  maxSize : Nat
  maxElem : Nat
  maxCount : Nat
  lru : Bool
  hasCb : Bool
  deriving Repr, DecidableEq

/-- `c.conf` after `newCache`. -/
structure Conf where
  maxSize : Nat
  maxElem : Nat
  maxCount : Nat
  lru : Bool
  hasCb : Bool
  deriving Repr, DecidableEq

/-- `maxUint` on a 64-bit platform. -/
def maxUint : Nat := 2 ^ 64 - 1

/-- The normalisation done by `newCache`, statement by statement. -/
def newConf (r : RawConf) : Conf :=
  let maxSize := if r.maxSize = 0 then maxUint else r.maxSize
  let maxCount := if r.maxCount = 0 then maxUint else r.maxCount
  let maxElem := if r.maxElem = 0 then maxSize else r.maxElem
  let maxElem := if maxElem > maxSize then maxSize else maxElem
  { maxSize := maxSize, maxElem := maxElem, maxCount := maxCount, lru := r.lru, hasCb := r.hasCb }

structure St where
  lru : List Entry       -- oldest first
  size : Nat
  hit : Nat
  miss : Nat
  deriving Repr, DecidableEq

def St.init : St := { lru := [], size := 0, hit := 0, miss := 0 }

structure Stats where
  count : Nat
  size : Nat
  hit : Nat
  miss : Nat
  deriving Repr, DecidableEq

def sumSz (l : List Entry) : Nat := (l.map Entry.sz).sum

/-- `c.items[string(k)]` -/
def lookup (l : List Entry) (k : Bytes) : Option Entry := l.find? (fun x => x.key = k)

/-- the map/list without key `k` (`delete(c.items, k)` + `listUnlink`) -/
def remove (l : List Entry) (k : Bytes) : List Entry := l.filter (fun x => x.key ≠ k)

/-- `c.size+addSize > c.conf.MaxSize || uint(len(c.items)) == c.conf.MaxCount` -/
def full (c : Conf) (s : St) (add : Nat) : Bool :=
  decide (s.size + add > c.maxSize) || decide (s.lru.length = c.maxCount)

/-- `listUnlink(&it.used)`: `listLink2(item.prev, item.next)` writes through `item.prev`,
which is nil for an item that was never appended. -/
def unlink (e : Entry) : GoM Unit :=
  if e.linked then pure () else throw .nilDeref

/-! ### `Set` -/

inductive Check where
  | tooLarge      -- `addSize > MaxElementSize`: `return false` before taking the lock
  | fullNoLru     -- `!EnableLRU && (full)`: `return false`
  | proceed
  deriving Repr, DecidableEq

def setCheck (c : Conf) (s : St) (k v : Bytes) : Check :=
  let add := k.length + v.length
  if add > c.maxElem then .tooLarge
  else if !c.lru && full c s add then .fullNoLru
  else .proceed

/-- Loop body of `Set` (entered when `full` holds): `first := listFirst(&c.usage)`, the item
around it, `c.size -= …`, `listUnlink(first)`, `delete(c.items, …)`.  On an empty list
`listFirst` returns the sentinel and `structPtr` computes a pointer into the `cache` struct
itself: modelled as a panic. -/
def evictOne (s : St) : GoM (St × Entry) :=
  match s.lru with
  | [] => throw (.explicit "list sentinel treated as an item")
  | e :: rest => do
    unlink e
    pure ({ s with lru := rest, size := s.size - e.sz }, e)

/-- The section of `Set` after the loop.  `guardUnlink = false` is the code as it stood
(`listUnlink(&it2.used)` unconditionally); the repaired code unlinks only `if EnableLRU`. -/
def setCommitWith (guardUnlink : Bool) (c : Conf) (s : St) (k v : Bytes) : GoM (St × Bool) :=
  let e : Entry := { key := k, val := v, linked := c.lru }   -- `if EnableLRU { listAppend }`
  match lookup s.lru k with
  | some old => do
    if !guardUnlink || c.lru then unlink old
    pure ({ s with lru := remove s.lru k ++ [e], size := s.size - old.sz + e.sz }, true)
  | none => pure ({ s with lru := s.lru ++ [e], size := s.size + e.sz }, false)

def setCommit := setCommitWith true

/-! ### `Get`, `Del`, `Clear`, `Stats` -/

def get (c : Conf) (s : St) (k : Bytes) : GoM (St × Option Bytes) :=
  match lookup s.lru k with
  | none => pure ({ s with miss := s.miss + 1 }, none)
  | some e =>
    if c.lru then do
      unlink e
      pure ({ s with lru := remove s.lru k ++ [e], hit := s.hit + 1 }, some e.val)
    else pure ({ s with hit := s.hit + 1 }, some e.val)

def delWith (guardUnlink : Bool) (c : Conf) (s : St) (k : Bytes) : GoM St :=
  match lookup s.lru k with
  | none => pure s
  | some old => do
    if !guardUnlink || c.lru then unlink old
    pure { s with lru := remove s.lru k, size := s.size - old.sz }

def del := delWith true

def clear (_s : St) : St := St.init

def stats (s : St) : Stats := { count := s.lru.length, size := s.size, hit := s.hit, miss := s.miss }

/-! ### Events, the transition system of critical sections -/

inductive Ev where
  | refused (k v : Bytes)                 -- `Set` returned false without storing
  | evict (k v : Bytes)                   -- one loop iteration removed this entry
  | onDelete (k v : Bytes)                -- `c.conf.OnDelete(k, v)` is called
  | commit (k v : Bytes) (replaced : Bool)  -- `Set` stored and returned `replaced`
  | get (k : Bytes) (r : Option Bytes)
  | del (k : Bytes)
  | clear
  | stats (st : Stats)
  deriving Repr, DecidableEq

/-- A log record: the event and the cache state right after it. -/
structure Rec where
  ev : Ev
  after : St
  deriving Repr, DecidableEq

/-- One critical section (or one `OnDelete` call, which does not touch the state) executed
from state `s`.  `Set(k,v)` frames appear only through the guards of their sections, so
every interleaving of frames is a path of this relation. -/
inductive CStep (c : Conf) : St → Ev → St → Prop where
  | refuse (s : St) (k v : Bytes) :
      setCheck c s k v ≠ .proceed → CStep c s (.refused k v) s
  | evict (s s' : St) (add : Nat) (e : Entry) :
      c.lru = true → add ≤ c.maxElem → full c s add = true →
      evictOne s = .ok (s', e) → CStep c s (.evict e.key e.val) s'
  | onDelete (s : St) (k v : Bytes) : c.hasCb = true → CStep c s (.onDelete k v) s
  | commit (s s' : St) (k v : Bytes) (r : Bool) :
      k.length + v.length ≤ c.maxElem → full c s (k.length + v.length) = false →
      setCommit c s k v = .ok (s', r) → CStep c s (.commit k v r) s'
  | get (s s' : St) (k : Bytes) (r : Option Bytes) :
      get c s k = .ok (s', r) → CStep c s (.get k r) s'
  | del (s s' : St) (k : Bytes) : del c s k = .ok s' → CStep c s (.del k) s'
  | clear (s : St) : CStep c s .clear (clear s)
  | stats (s : St) : CStep c s (.stats (stats s)) s

/-- A chronological run of critical sections from `s` to `s'`. -/
inductive Trace (c : Conf) : St → List Rec → St → Prop where
  | nil (s : St) : Trace c s [] s
  | cons {s s' s'' : St} {ev : Ev} {rest : List Rec} :
      CStep c s ev s' → Trace c s' rest s'' → Trace c s (⟨ev, s'⟩ :: rest) s''

/-! ### The nested interpreter -/

/-- An API call.  `set k v cbs`: `cbs[i]` is what the `OnDelete` callback does when this
`Set` calls it for the i-th time (nothing when `i ≥ cbs.length`). -/
inductive Op where
  | set (k v : Bytes) (cbs : List (List Op))
  | get (k : Bytes)
  | del (k : Bytes)
  | clear
  | stats
  deriving Repr

/-- events of one loop iteration: the eviction, then the callback call if configured -/
def evictEvents (c : Conf) (e : Entry) (s1 : St) : List Rec :=
  ⟨.evict e.key e.val, s1⟩ :: (if c.hasCb then [⟨.onDelete e.key e.val, s1⟩] else [])

/-- The eviction loop once the callback script is exhausted (callbacks do nothing any
more).  It is only ever called with `n = s.lru.length` and every iteration removes one entry,
so with `n = 0` the list is empty and a further iteration is the sentinel case of
`evictOne`. -/
def evictQuiet (c : Conf) (add : Nat) : Nat → St → GoM (St × List Rec)
  | 0, s =>
    if full c s add then throw (.explicit "list sentinel treated as an item")
    else pure (s, [])
  | n + 1, s =>
    if full c s add then do
      let (s1, e) ← evictOne s
      let (s2, l2) ← evictQuiet c add n s1
      pure (s2, evictEvents c e s1 ++ l2)
    else pure (s, [])

mutual

def runOp (c : Conf) : Op → St → GoM (St × List Rec)
  | .set k v cbs, s =>
    match setCheck c s k v with
    | .tooLarge => pure (s, [⟨.refused k v, s⟩])
    | .fullNoLru => pure (s, [⟨.refused k v, s⟩])
    | .proceed => do
      let (s1, l1) ← evictLoop c (k.length + v.length) cbs s
      let (s2, r) ← setCommit c s1 k v
      pure (s2, l1 ++ [⟨.commit k v r, s2⟩])
  | .get k, s => do
    let (s', r) ← get c s k
    pure (s', [⟨.get k r, s'⟩])
  | .del k, s => do
    let s' ← del c s k
    pure (s', [⟨.del k, s'⟩])
  | .clear, s => pure (clear s, [⟨.clear, clear s⟩])
  | .stats, s => pure (s, [⟨.stats (stats s), s⟩])

def runOps (c : Conf) : List Op → St → GoM (St × List Rec)
  | [], s => pure (s, [])
  | op :: rest, s => do
    let (s1, l1) ← runOp c op s
    let (s2, l2) ← runOps c rest s1
    pure (s2, l1 ++ l2)

/-- `for full { evict; unlock; OnDelete(...); lock }` -/
def evictLoop (c : Conf) (add : Nat) : List (List Op) → St → GoM (St × List Rec)
  | [], s => evictQuiet c add s.lru.length s
  | ops :: rest, s =>
    if full c s add then do
      let (s1, e) ← evictOne s
      let (s2, l2) ← if c.hasCb then runOps c ops s1 else pure (s1, [])
      let (s3, l3) ← evictLoop c add rest s2
      pure (s3, evictEvents c e s1 ++ l2 ++ l3)
    else pure (s, [])

end

/-- A whole history against a fresh cache made by `New(conf)`. -/
def runScript (r : RawConf) (ops : List Op) : GoM (St × List Rec) :=
  runOps (newConf r) ops St.init

end GolibsVerif.C09
