/-
C20 — models of `httputil.Wrap` (`/repo/netutil/httputil/httputil.go`) and of
`(*LogMiddleware).Wrap` with its three `syncutil.Pool`s (`logmw.go`, `responsewriter.go`,
`syncutil/pool.go`).

Part 1 is the loop of `httputil.Wrap` as it is written (index running down from
`len(middlewares)-1`, checked indexing).

Part 2 is a labelled transition system.  A *request* `i : Rid` is one call of the closure
`f` returned by `LogMiddleware.Wrap`; it runs through the program counters of `PC` in
exactly the order of the events of `f`, the four deferred calls last and in LIFO order
(`Expected.logmwWrap` below is the normal form of `Wrap` the system was written against:
helpers inlined, every pool `Get` immediately before the first use of its object, the
deferred calls listed in running order; the `skel_*` theorems of `Theorems/C20.lean`
compare it with the normal form regenerated from the source on every run).  Any number of requests interleave at the granularity of single
steps.  `sync.Pool` is modelled per contract MEM-1: `Get` returns either a fresh object
(the pool's `New`) or an object that was `Put` and not handed out since; the pool may also
drop an idle object at any time (`gc`).  Which object `Get` returns is the scheduler's
choice and is part of the action label, so the theorems quantify over it.

The logger created by `WithAttrs(*attrsPtr)` is modelled in the least favourable way
permitted by `slog`: the derived handler *aliases* the pooled slice and reads it each time
it emits a record.
-/
import GolibsVerif.Go.Basic
import GolibsVerif.Gen.C20Skel

namespace GolibsVerif.C20

/-! ## Part 1 — `httputil.Wrap` -/

/-- A handler is described by the trace of events serving a request causes. -/
abbrev Handler (ρ ε : Type) := ρ → List ε

/-- `Middleware.Wrap`. -/
abbrev Middleware (ρ ε : Type) := Handler ρ ε → Handler ρ ε

/-- `middlewares[i]` with Go's bounds check. -/
def idxMw {α : Type} (ms : List α) (i : Int) : GoM α :=
  if i < 0 then .error (.indexOutOfRange i ms.length)
  else match ms[i.toNat]? with
    | some m => .ok m
    | none => .error (.indexOutOfRange i ms.length)

/-- `for i := …; i >= 0; i-- { m := middlewares[i]; wrapped = m.Wrap(wrapped) }` -/
def wrapLoop {ρ ε : Type} (ms : List (Middleware ρ ε)) (i : Int) (wrapped : Handler ρ ε) :
    GoM (Handler ρ ε) :=
  if h : i ≥ 0 then do
    let m ← idxMw ms i
    wrapLoop ms (i - 1) (m wrapped)
  else pure wrapped
termination_by (i + 1).toNat
decreasing_by omega

/-- `httputil.Wrap(h, middlewares...)`. -/
def wrap {ρ ε : Type} (h : Handler ρ ε) (ms : List (Middleware ρ ε)) : GoM (Handler ρ ε) :=
  wrapLoop ms ((ms.length : Int) - 1) h

/-- Events of the order experiment: a middleware received the request, a middleware's
`ServeHTTP` returned, the innermost handler received the request. -/
inductive Ev (ρ : Type) where
  | enter (id : Nat) (r : ρ)
  | exit (id : Nat) (r : ρ)
  | handler (r : ρ)
  deriving Repr, DecidableEq

/-- A recording middleware: notes the request on entry and on exit; a blocking one answers
itself and does not call the next handler. -/
structure MwSpec where
  id : Nat
  blocks : Bool
  deriving Repr, DecidableEq

def MwSpec.mw {ρ : Type} (m : MwSpec) : Middleware ρ (Ev ρ) := fun next r =>
  Ev.enter m.id r :: ((if m.blocks then [] else next r) ++ [Ev.exit m.id r])

/-- the innermost recording handler -/
def baseHandler {ρ : Type} : Handler ρ (Ev ρ) := fun r => [Ev.handler r]

/-! ## Part 2 — `LogMiddleware` as a transition system -/

/-- identity of a pooled object -/
abbrev Obj := Nat
/-- identity of a request (= of one invocation of the wrapped handler) -/
abbrev Rid := Nat

/-- What a request carries.  `rest` stands for everything the middleware copies without
looking at it: URL, headers, body, context values. -/
structure ReqData where
  host : Bytes
  method : Bytes
  raddr : Bytes
  uri : Bytes
  rest : Bytes
  deriving Repr, DecidableEq

/-- one `slog.Attr` with a string value -/
abbrev Attr := String × Bytes

/-- the attributes `attrsSlicePtr` stores for a request -/
def attrsOf (d : ReqData) : List Attr :=
  [("host", d.host), ("method", d.method), ("raddr", d.raddr), ("request_uri", d.uri)]

/-- `sync.Pool` (MEM-1): the idle objects, and the allocation counter of `New` (every
object ever created is `< fresh`). -/
structure Pool where
  free : List Obj
  fresh : Nat
  deriving Repr

/-- `Get` returning `o`: `o` is idle, or `o` is the next fresh object.  The flag tells
whether `New` ran. -/
def Pool.get (p : Pool) (o : Obj) : Option (Pool × Bool) :=
  if o ∈ p.free then some ({ p with free := p.free.erase o }, false)
  else if o = p.fresh then some ({ p with fresh := p.fresh + 1 }, true)
  else none

def Pool.put (p : Pool) (o : Obj) : Pool := { p with free := o :: p.free }

/-- the pool forgets an idle object (GC) -/
def Pool.drop (p : Pool) (o : Obj) : Option Pool :=
  if o ∈ p.free then some { p with free := p.free.erase o } else none

/-- `CodeRecorderResponseWriter`: the wrapped writer (`none` = nil; the writer handed to
request `i` is identified with `i`) and the recorded code. -/
structure RwObj where
  under : Option Rid
  code : Nat
  deriving Repr, DecidableEq

/-- program counter of one request inside `f`; the name says which statement is next -/
inductive PC where
  | idle         -- the request has not arrived
  | getAttr      -- attrsPtr = mw.attrPool.Get()
  | fillAttr     -- _ = attrs[logMwAttrNum-1]; attrs[0..3] = …
  | withAttrs    -- defer attrPool.Put; logHdlr := ….WithAttrs(*attrsPtr); l; ctx
  | getReq       -- nextReq := mw.reqPool.Get()
  | copyReq      -- defer reqPool.Put; CopyRequestTo(ctx, nextReq, r)
  | getRw        -- rw := mw.rwPool.Get()
  | resetRw      -- defer rwPool.Put; rw.Reset(w)
  | logStarted   -- l.Log(ctx, lvl, "started")
  | serve        -- defer logFinished; h.ServeHTTP(rw, nextReq)   (handler steps)
  | implicit     -- rw.SetImplicitSuccess()
  | logFinished  -- deferred: mw.logFinished(ctx, l, rw, startTime)
  | putRw        -- deferred: mw.rwPool.Put(rw)
  | putReq       -- deferred: mw.reqPool.Put(nextReq)
  | putAttr      -- deferred: mw.attrPool.Put(attrsPtr)
  | done
  deriving Repr, DecidableEq

/-- local variables of one request -/
structure Thread where
  pc : PC
  a : Obj   -- attrsPtr
  q : Obj   -- nextReq
  w : Obj   -- rw
  lg : Obj  -- the slice the logger `l` aliases
  deriving Repr

structure St where
  pA : Pool
  pQ : Pool
  pW : Pool
  /-- contents of the pooled `[]slog.Attr` -/
  mA : Obj → List Attr
  /-- contents of the pooled `http.Request`: the copied request and the logger stored in
  its context (`none` = the zero `http.Request{}`) -/
  mQ : Obj → Option (ReqData × Obj)
  mW : Obj → RwObj
  th : Rid → Thread

def upd {α : Type} (f : Nat → α) (i : Nat) (v : α) : Nat → α := fun j => if j = i then v else f j

def init : St where
  pA := ⟨[], 0⟩
  pQ := ⟨[], 0⟩
  pW := ⟨[], 0⟩
  mA := fun _ => []
  mQ := fun _ => none
  mW := fun _ => ⟨none, 0⟩
  th := fun _ => ⟨.idle, 0, 0, 0, 0⟩

/-- what the wrapped handler does, one call at a time -/
inductive HOp where
  | observe                 -- look at the request it was given and at the context logger
  | log                     -- emit a record through the context logger
  | writeHeader (c : Nat)   -- rw.WriteHeader(c)
  | write (b : Bytes)       -- rw.Write(b)
  | ret                     -- return normally
  | panic                   -- panic (SetImplicitSuccess is skipped, the defers run)
  deriving Repr, DecidableEq

inductive PoolId where
  | attr | req | rw
  deriving Repr, DecidableEq

/-- scheduler choices -/
inductive Act where
  | arrive (i : Rid)
  | get (i : Rid) (o : Obj)       -- the pending pool `Get` of request `i` returns `o`
  | tick (i : Rid)                -- the next statement of `f` (other than a `Get`)
  | handler (i : Rid) (op : HOp)  -- one call made by the wrapped handler
  | gc (p : PoolId) (o : Obj)     -- the pool forgets the idle object `o`
  deriving Repr, DecidableEq

/-- what a step makes observable -/
inductive Obs where
  | silent
  | started (i : Rid) (attrs : List Attr)
  | seen (i : Rid) (d : Option ReqData) (attrs : List Attr)
  | hlog (i : Rid) (attrs : List Attr)
  /-- `client = none` stands for a nil wrapped writer (the call would panic) -/
  | wroteHeader (i : Rid) (client : Option Rid) (c : Nat)
  | wrote (i : Rid) (client : Option Rid) (b : Bytes)
  | finished (i : Rid) (attrs : List Attr) (code : Nat)
  | handlerPanic (i : Rid)
  /-- a run-time panic of the middleware itself (`attrs[logMwAttrNum-1]` out of range) -/
  | goPanic (i : Rid)
  deriving Repr, DecidableEq

def setTh (s : St) (i : Rid) (t : Thread) : St := { s with th := upd s.th i t }

/-- `cmp.Or(code, http.StatusOK)` -/
def cmpOr (c : Nat) : Nat := if c = 0 then 200 else c

/-- the four stores of `attrsSlicePtr` -/
def fillAttrs (sl : List Attr) (d : ReqData) : List Attr :=
  (((sl.set 0 ("host", d.host)).set 1 ("method", d.method)).set 2 ("raddr", d.raddr)).set 3
    ("request_uri", d.uri)

/-- the attributes of the logger found in the context of the pooled request `q` -/
def ctxAttrs (s : St) (q : Obj) : List Attr :=
  match s.mQ q with
  | some (_, lg) => s.mA lg
  | none => []

def stepGet (s : St) (i : Rid) (o : Obj) : Option (St × Obs) :=
  let t := s.th i
  match t.pc with
  | .getAttr =>
    (s.pA.get o).map fun (p, isNew) =>
      ({ s with pA := p,
                mA := if isNew then upd s.mA o (List.replicate Gen.C20Skel.logMwAttrNum ("", [])) else s.mA,
                th := upd s.th i { t with pc := .fillAttr, a := o } }, .silent)
  | .getReq =>
    (s.pQ.get o).map fun (p, isNew) =>
      ({ s with pQ := p,
                mQ := if isNew then upd s.mQ o none else s.mQ,
                th := upd s.th i { t with pc := .copyReq, q := o } }, .silent)
  | .getRw =>
    (s.pW.get o).map fun (p, isNew) =>
      ({ s with pW := p,
                mW := if isNew then upd s.mW o ⟨none, 0⟩ else s.mW,
                th := upd s.th i { t with pc := .resetRw, w := o } }, .silent)
  | _ => none

def stepTick (inp : Rid → ReqData) (s : St) (i : Rid) : Option (St × Obs) :=
  let t := s.th i
  match t.pc with
  | .fillAttr =>
    -- `_ = attrs[logMwAttrNum-1]`: index out of range panics before the defer is registered
    if (s.mA t.a).length ≤ Gen.C20Skel.logMwAttrNum - 1 then
      some (setTh s i { t with pc := .done }, .goPanic i)
    else
      some ({ s with mA := upd s.mA t.a (fillAttrs (s.mA t.a) (inp i)),
                     th := upd s.th i { t with pc := .withAttrs } }, .silent)
  | .withAttrs => some (setTh s i { t with pc := .getReq, lg := t.a }, .silent)
  | .copyReq =>
    some ({ s with mQ := upd s.mQ t.q (some (inp i, t.lg)),
                   th := upd s.th i { t with pc := .getRw } }, .silent)
  | .resetRw =>
    some ({ s with mW := upd s.mW t.w ⟨some i, 0⟩,
                   th := upd s.th i { t with pc := .logStarted } }, .silent)
  | .logStarted => some (setTh s i { t with pc := .serve }, .started i (s.mA t.lg))
  | .implicit =>
    some ({ s with mW := upd s.mW t.w { s.mW t.w with code := cmpOr (s.mW t.w).code },
                   th := upd s.th i { t with pc := .logFinished } }, .silent)
  | .logFinished =>
    some (setTh s i { t with pc := .putRw }, .finished i (s.mA t.lg) (s.mW t.w).code)
  | .putRw => some ({ s with pW := s.pW.put t.w, th := upd s.th i { t with pc := .putReq } }, .silent)
  | .putReq => some ({ s with pQ := s.pQ.put t.q, th := upd s.th i { t with pc := .putAttr } }, .silent)
  | .putAttr => some ({ s with pA := s.pA.put t.a, th := upd s.th i { t with pc := .done } }, .silent)
  | _ => none

def stepHandler (s : St) (i : Rid) (op : HOp) : Option (St × Obs) :=
  let t := s.th i
  match t.pc with
  | .serve =>
    match op with
    | .observe => some (s, .seen i ((s.mQ t.q).map (·.1)) (ctxAttrs s t.q))
    | .log => some (s, .hlog i (ctxAttrs s t.q))
    | .writeHeader c =>
      some ({ s with mW := upd s.mW t.w { s.mW t.w with code := c } },
            .wroteHeader i (s.mW t.w).under c)
    | .write b => some (s, .wrote i (s.mW t.w).under b)
    | .ret => some (setTh s i { t with pc := .implicit }, .silent)
    | .panic => some (setTh s i { t with pc := .logFinished }, .handlerPanic i)
  | _ => none

def stepGc (s : St) (p : PoolId) (o : Obj) : Option (St × Obs) :=
  match p with
  | .attr => (s.pA.drop o).map fun p' => ({ s with pA := p' }, .silent)
  | .req => (s.pQ.drop o).map fun p' => ({ s with pQ := p' }, .silent)
  | .rw => (s.pW.drop o).map fun p' => ({ s with pW := p' }, .silent)

/-- One step of the system; `none` = the action is not enabled. -/
def step (inp : Rid → ReqData) (s : St) : Act → Option (St × Obs)
  | .arrive i =>
    if (s.th i).pc = .idle then some (setTh s i { s.th i with pc := .getAttr }, .silent) else none
  | .get i o => stepGet s i o
  | .tick i => stepTick inp s i
  | .handler i op => stepHandler s i op
  | .gc p o => stepGc s p o

/-- Run a schedule; `none` if some action is not enabled. -/
def run (inp : Rid → ReqData) : St → List Act → Option (St × List Obs)
  | s, [] => some (s, [])
  | s, a :: as =>
    match step inp s a with
    | none => none
    | some (s', o) => (run inp s' as).map fun (s'', os) => (s'', o :: os)

/-- Executions from the initial state, with the trace of observations so far. -/
inductive Exec (inp : Rid → ReqData) : St → List Obs → Prop where
  | init : Exec inp init []
  | step {s s' : St} {tr : List Obs} {a : Act} {o : Obs} :
      Exec inp s tr → step inp s a = some (s', o) → Exec inp s' (tr ++ [o])

/-! ### Ownership (derived): which object of each pool a request holds -/

def holdsA : PC → Bool
  | .idle | .getAttr | .done => false
  | _ => true

def holdsQ : PC → Bool
  | .copyReq | .getRw | .resetRw | .logStarted | .serve | .implicit | .logFinished | .putRw | .putReq => true
  | _ => false

def holdsW : PC → Bool
  | .resetRw | .logStarted | .serve | .implicit | .logFinished | .putRw => true
  | _ => false

/-- `owned` of the attribute-slice pool -/
def ownedA (th : Rid → Thread) : Rid → Option Obj := fun i => if holdsA (th i).pc then some (th i).a else none
/-- `owned` of the request pool -/
def ownedQ (th : Rid → Thread) : Rid → Option Obj := fun i => if holdsQ (th i).pc then some (th i).q else none
/-- `owned` of the response-writer pool -/
def ownedW (th : Rid → Thread) : Rid → Option Obj := fun i => if holdsW (th i).pc then some (th i).w else none

/-! ### What the traces say about one request -/

/-- the code of the last `WriteHeader` call request `i`'s handler made -/
def lastHeader (i : Rid) (tr : List Obs) : Option Nat :=
  tr.foldl (fun acc o => match o with
    | .wroteHeader j _ c => if j = i then some c else acc
    | _ => acc) none

def hasPanicked (i : Rid) (tr : List Obs) : Bool := decide (Obs.handlerPanic i ∈ tr)

/-- what `logFinished` must report: the code the handler set (as `cmp.Or` leaves it), 200
when it set none; after a handler panic `SetImplicitSuccess` did not run. -/
def finCode (last : Option Nat) (panicked : Bool) : Nat :=
  if panicked then last.getD 0 else cmpOr (last.getD 0)

/-- the writes (header codes and body chunks) that reached client `j` -/
def received (j : Rid) : List Obs → List (Nat ⊕ Bytes)
  | [] => []
  | .wroteHeader _ cl c :: rest => if cl = some j then .inl c :: received j rest else received j rest
  | .wrote _ cl b :: rest => if cl = some j then .inr b :: received j rest else received j rest
  | _ :: rest => received j rest

/-- the writes the handler invocation of request `j` made -/
def written (j : Rid) : List Obs → List (Nat ⊕ Bytes)
  | [] => []
  | .wroteHeader i _ c :: rest => if i = j then .inl c :: written j rest else written j rest
  | .wrote i _ b :: rest => if i = j then .inr b :: written j rest else written j rest
  | _ :: rest => written j rest

/-! ### The normal forms the system was written against

These are the lists `gen/c20skel.go` produces for the unchanged tree (read the comment at
the top of `gen/c20norm.go` for the notation).  They were generated once and reviewed line
by line against `netutil/httputil/{logmw,responsewriter,httputil}.go` and
`syncutil/pool.go`: `attrsSlicePtr` and `logFinished` are inlined into the closure, the
four indexed stores are the `fill` line, the four `defer`s appear as the `on-exit` block
in force when the wrapped handler is called (in running order), `cmp.Or(w.code, 200)` is the `if recv.<int> == 0` of
`crwSetImplicitSuccess`, and the index loop of `httputil.Wrap` is `last-to-first`. -/

namespace Expected

def logmwWrap : List String := [
  "return http.HandlerFunc(func(c0 http.ResponseWriter, c1 *http.Request) {",
  "obj<[]slog.Attr> := get recv.<Pool[[]slog.Attr]>",
  "fill *obj<[]slog.Attr> := [slog.String(\"host\", c1.Host), slog.String(\"method\", c1.Method), slog.String(\"raddr\", c1.RemoteAddr), slog.String(\"request_uri\", c1.RequestURI)] (len 4)",
  "%1 := call recv.<*slog.Logger>.Handler()",
  "%2 := call %1.WithAttrs(*obj<[]slog.Attr>)",
  "%3 := call slog.New(%2)",
  "%4 := call c1.Context()",
  "%5 := call slogutil.ContextWithLogger(%4, %3)",
  "obj<http.Request> := get recv.<Pool[http.Request]>",
  "call CopyRequestTo(%5, obj<http.Request>, c1)",
  "obj<CodeRecorderResponseWriter> := get recv.<Pool[CodeRecorderResponseWriter]>",
  "call obj<CodeRecorderResponseWriter>.Reset(c0)",
  "call %3.Log(%5, recv.<slog.Level>, \"started\")",
  "on-exit {",
  "if call %3.Enabled(%5, recv.<slog.Level>) {",
  "call %3.Log(%5, recv.<slog.Level>, \"finished\", \"code\", obj<CodeRecorderResponseWriter>.<int>, \"elapsed\", _:timeutil.Duration)",
  "}",
  "put recv.<Pool[CodeRecorderResponseWriter]> obj<CodeRecorderResponseWriter>",
  "put recv.<Pool[http.Request]> obj<http.Request>",
  "put recv.<Pool[[]slog.Attr]> obj<[]slog.Attr>",
  "}",
  "call p0.ServeHTTP(obj<CodeRecorderResponseWriter>, obj<http.Request>)",
  "on-panic {",
  "if call %3.Enabled(%5, recv.<slog.Level>) {",
  "call %3.Log(%5, recv.<slog.Level>, \"finished\", \"code\", obj<CodeRecorderResponseWriter>.<int>, \"elapsed\", _:timeutil.Duration)",
  "}",
  "}",
  "call obj<CodeRecorderResponseWriter>.SetImplicitSuccess()",
  "run on-exit",
  "})"
]

def newLogMiddleware : List String := [
  "%1 := call syncutil.NewPool[http.Request](func() (*http.Request) {",
  "return &http.Request{}",
  "})",
  "%2 := call syncutil.NewPool[CodeRecorderResponseWriter](func() (*CodeRecorderResponseWriter) {",
  "return &CodeRecorderResponseWriter{}",
  "})",
  "return &LogMiddleware{<*syncutil.Pool[[]slog.Attr]>: syncutil.NewSlicePool[slog.Attr](4), <*syncutil.Pool[http.Request]>: %1, <*syncutil.Pool[CodeRecorderResponseWriter]>: %2, <*slog.Logger>: p0, <slog.Level>: p1}"
]

def httputilWrap : List String := [
  "res0 := p0",
  "for elem of p1 last-to-first {",
  "res0 := call elem.Wrap(res0)",
  "}",
  "return res0"
]

def copyRequestTo : List String := [
  "%1 := call p2.WithContext(p0)",
  "*p1 := *%1"
]

def crwReset : List String := [
  "recv.<http.ResponseWriter> := p0",
  "recv.<int> := 0"
]

def crwSetImplicitSuccess : List String := [
  "if recv.<int> == 0 {",
  "recv.<int> := 200",
  "}"
]

def crwWriteHeader : List String := [
  "recv.<int> := p0",
  "call recv.<http.ResponseWriter>.WriteHeader(p0)"
]

def crwWrite : List String := [
  "return call recv.<http.ResponseWriter>.Write(p0)"
]

def crwHeader : List String := [
  "return call recv.<http.ResponseWriter>.Header()"
]

def newPool : List String := [
  "if p0 == nil {",
  "panic(fmt.Errorf(\"nil newFunc in NewPool\"))",
  "} else {",
  "return &Pool[T]{<*sync.Pool>: &sync.Pool{New: func() (any) {",
  "return call p0()",
  "}}}",
  "}"
]

def newSlicePool : List String := [
  "return call NewPool[[]T](func() (*[]T) {",
  "var1 := make([]T, p0)",
  "return &var1",
  "})"
]

def poolGet : List String := [
  "%1 := call recv.<*sync.Pool>.Get()",
  "return %1.(*T)"
]

def poolPut : List String := [
  "call recv.<*sync.Pool>.Put(p0)"
]

end Expected

/-! ### Reading a normal form

The lines of a function in normal form are its events in program order.  An `on-exit {` …
`}` block is not an event: it lists the deferred calls that would run, in the order in which
they would run, if the function were left at the next event whose panic the model follows
(a call of a handler or callback that is a parameter, `panic`), at a `return` or at the end;
it is printed whenever that list has changed.  `run on-exit` is the normal end of the
function: the calls of the `on-exit` block printed last run.  An `on-panic {` … `}` block
is the same list for the other events that can panic (calls into the logger, `net/http`,
…), without the pool `Put`s of objects that no later deferred call mentions (whether an
unused object goes back to its pool or is dropped is unobservable under MEM-1); the
transition system has no transition for such a panic, so the reader skips these blocks. -/

/-- state of the reader: the events so far, the block being read, the `on-exit` block read
last, the brace depth inside a block (0 = outside), and whether the block is `on-exit` -/
structure NP where
  out : List String := []
  cur : List String := []
  last : List String := []
  depth : Nat := 0
  keep : Bool := false

def npStep (s : NP) (l : String) : NP :=
  if s.depth > 0 then
    if l = "}" then
      if s.depth = 1 then { s with depth := 0, last := if s.keep then s.cur else s.last, cur := [] }
      else { s with depth := s.depth - 1, cur := s.cur ++ [l] }
    else if l.endsWith "{" && !l.startsWith "}" then { s with depth := s.depth + 1, cur := s.cur ++ [l] }
    else { s with cur := s.cur ++ [l] }
  else if l = "on-exit {" then { s with depth := 1, cur := [], keep := true }
  else if l = "on-panic {" then { s with depth := 1, cur := [], keep := false }
  else if l = "run on-exit" then { s with out := s.out ++ s.last }
  else { s with out := s.out ++ [l] }

/-- Go's execution order on the path without panics: the events in sequence, then the
deferred calls (last-in-first-out; the translator has already put them in running order). -/
def normalPath (lines : List String) : List String := (lines.foldl npStep {}).out

/-- the deferred calls that run if the event `ev` panics -/
def exitAt (ev : String) (lines : List String) : List String :=
  ((lines.takeWhile (· ≠ ev)).foldl npStep {}).last

/-- the body of the closure returned by `LogMiddleware.Wrap`: the lines between
`return http.HandlerFunc(func(c0 http.ResponseWriter, c1 *http.Request) {` and `})` -/
def closureBody (lines : List String) : List String := (lines.drop 1).dropLast

/-- the serve event -/
def serveLine : String := "call p0.ServeHTTP(obj<CodeRecorderResponseWriter>, obj<http.Request>)"

/-- Each event of the closure, in execution order, with the program counter at which the
system performs it.  (`recv` = the middleware, `p0` = the wrapped handler `h`, `c0`/`c1` =
the closure's `w`/`r`, `obj<T>` = the object taken from the pool of `T`s, `%k` = the
result of the k-th call: `%3` = the request logger `l`, `%5` = the context `ctx`.) -/
def pcOrder : List (String × PC) := [
  ("obj<[]slog.Attr> := get recv.<Pool[[]slog.Attr]>", .getAttr),
  ("fill *obj<[]slog.Attr> := [slog.String(\"host\", c1.Host), slog.String(\"method\", c1.Method), slog.String(\"raddr\", c1.RemoteAddr), slog.String(\"request_uri\", c1.RequestURI)] (len 4)", .fillAttr),
  ("%1 := call recv.<*slog.Logger>.Handler()", .withAttrs),
  ("%2 := call %1.WithAttrs(*obj<[]slog.Attr>)", .withAttrs),
  ("%3 := call slog.New(%2)", .withAttrs),
  ("%4 := call c1.Context()", .withAttrs),
  ("%5 := call slogutil.ContextWithLogger(%4, %3)", .withAttrs),
  ("obj<http.Request> := get recv.<Pool[http.Request]>", .getReq),
  ("call CopyRequestTo(%5, obj<http.Request>, c1)", .copyReq),
  ("obj<CodeRecorderResponseWriter> := get recv.<Pool[CodeRecorderResponseWriter]>", .getRw),
  ("call obj<CodeRecorderResponseWriter>.Reset(c0)", .resetRw),
  ("call %3.Log(%5, recv.<slog.Level>, \"started\")", .logStarted),
  (serveLine, .serve),
  ("call obj<CodeRecorderResponseWriter>.SetImplicitSuccess()", .implicit),
  ("if call %3.Enabled(%5, recv.<slog.Level>) {", .logFinished),
  ("call %3.Log(%5, recv.<slog.Level>, \"finished\", \"code\", obj<CodeRecorderResponseWriter>.<int>, \"elapsed\", _:timeutil.Duration)", .logFinished),
  ("}", .logFinished),
  ("put recv.<Pool[CodeRecorderResponseWriter]> obj<CodeRecorderResponseWriter>", .putRw),
  ("put recv.<Pool[http.Request]> obj<http.Request>", .putReq),
  ("put recv.<Pool[[]slog.Attr]> obj<[]slog.Attr>", .putAttr)
]

def PC.rank : PC → Nat
  | .idle => 0 | .getAttr => 1 | .fillAttr => 2 | .withAttrs => 3 | .getReq => 4 | .copyReq => 5
  | .getRw => 6 | .resetRw => 7 | .logStarted => 8 | .serve => 9 | .implicit => 10
  | .logFinished => 11 | .putRw => 12 | .putReq => 13 | .putAttr => 14 | .done => 15

end GolibsVerif.C20
