/-
C12 — executable models of `netutil/addrconv.go` (`IPToAddr`, `IPToAddrNoMapped`,
`IPNetToPrefix`, `IPNetToPrefixNoMapped`, `NetAddrToAddrPort`) and `netutil/sort.go`
(`prefer`, `PreferIPv4`, `PreferIPv6`), over small models of the standard-library pieces
they call (`net.IP.To4/To16`, `net.IPMask.Size`, `net.IPNet.Contains`,
`netip.AddrFromSlice`, `Addr.Is4In6/Unmap/WithZone/Compare`, `netip.PrefixFrom`,
`Prefix.Contains`, `(*TCPAddr|*UDPAddr).AddrPort`).

Representation.  A Go byte slice is `Bytes`; where the Go code tests a slice against `nil`
the model uses `Option Bytes` (`none` = nil, `some []` = empty non-nil).  A `netip.Addr` is
the zero Addr, an IPv4 address (4 bytes) or an IPv6 address (16 bytes and a zone); its
numeric value (the `uint128` of the real type) is the big-endian number `beNat` of its
bytes.  Every stdlib model below is compared with the real function by the `std.*` ops of
`harness/c12.go` on every run.

`ipNetToPrefix` is the model of the *minimally repaired* code: a mask for which
`Mask.Size()` reports `bits = 0` (nil, empty or non-canonical) is rejected
(`fix-1.diff`).  The unrepaired behaviour is kept as `ipNetToPrefixUnfixed`.
-/
import GolibsVerif.Go.Basic

namespace GolibsVerif.C12

/-! ### `net.IP` -/

/-- `net.v4InV6Prefix` -/
def v4InV6Prefix : Bytes := [0, 0, 0, 0, 0, 0, 0, 0, 0, 0, 255, 255]

/-- `IP.To4`: `none` is the nil result. -/
def to4 (ip : Bytes) : Option Bytes :=
  if ip.length = 4 then some ip
  else if ip.length = 16 ∧ ip.take 12 = v4InV6Prefix then some (ip.drop 12)
  else none

/-- `IP.To16` -/
def to16 (ip : Bytes) : Option Bytes :=
  if ip.length = 4 then some (v4InV6Prefix ++ ip)
  else if ip.length = 16 then some ip
  else none

/-! ### `net.IPMask.Size` -/

/-- the inner loop of `simpleMaskLength`: `for v&0x80 != 0 { n++; v <<= 1 }` on a `byte`;
the fuel is the width of the byte (a byte other than 0xff leaves the loop within 7 steps) -/
def shiftLoop : Nat → Nat → Nat → Nat × Nat
  | 0, v, n => (v, n)
  | fuel + 1, v, n => if v &&& 0x80 ≠ 0 then shiftLoop fuel ((v <<< 1) % 256) (n + 1) else (v, n)

/-- leading ones of a non-0xff mask byte; `none` when the rest of the byte is not zero -/
def byteOnes (v : Nat) : Option Nat :=
  let r := shiftLoop 8 v 0
  if r.1 ≠ 0 then none else some r.2

/-- `simpleMaskLength`; `none` is `-1` -/
def simpleMaskLength : Bytes → Option Nat
  | [] => some 0
  | v :: rest =>
    if v = 255 then (simpleMaskLength rest).map (· + 8)
    else match byteOnes v with
      | none => none
      | some k => if rest.all (· == 0) then some k else none

/-- `IPMask.Size` : `(ones, bits)` -/
def maskSize (m : Bytes) : Nat × Nat :=
  match simpleMaskLength m with
  | none => (0, 0)
  | some ones => (ones, m.length * 8)

/-! ### `net.IPNet.Contains` -/

structure IPNet where
  ip : Option Bytes
  mask : Option Bytes
  deriving Repr, DecidableEq

def orNil (b : Option Bytes) : Bytes := b.getD []

/-- `networkNumberAndMask`; `(nil, nil)` is `([], [])` -/
def networkNumberAndMask (n : IPNet) : Bytes × Bytes :=
  let ip0 := orNil n.ip
  let ipo : Option Bytes :=
    match to4 ip0 with
    | some ip4 => some ip4
    | none => if ip0.length ≠ 16 then none else some ip0
  match ipo with
  | none => ([], [])
  | some ip =>
    let m := orNil n.mask
    if m.length = 4 then (if ip.length ≠ 4 then ([], []) else (ip, m))
    else if m.length = 16 then (if ip.length = 4 then (ip, m.drop 12) else (ip, m))
    else ([], [])

/-- the loop `nn[i]&m[i] != ip[i]&m[i]` over three slices of one length -/
def maskedEq : Bytes → Bytes → Bytes → Bool
  | a :: as, m :: ms, b :: bs => (a &&& m == b &&& m) && maskedEq as ms bs
  | _, _, _ => true

/-- `(*IPNet).Contains` -/
def ipNetContains (n : IPNet) (x : Bytes) : Bool :=
  let (nn, m) := networkNumberAndMask n
  let x' := match to4 x with | some x4 => x4 | none => x
  if x'.length ≠ nn.length then false else maskedEq nn m x'

/-! ### `netip.Addr` -/

inductive Addr where
  | zero
  | v4 (b : Bytes)
  | v6 (b : Bytes) (zone : Bytes)
  deriving Repr, DecidableEq

namespace Addr

def isValid : Addr → Bool
  | zero => false
  | _ => true

def is4 : Addr → Bool
  | v4 _ => true
  | _ => false

def is6 : Addr → Bool
  | v6 _ _ => true
  | _ => false

def bitLen : Addr → Nat
  | zero => 0
  | v4 _ => 32
  | v6 _ _ => 128

def bytes : Addr → Bytes
  | zero => []
  | v4 b => b
  | v6 b _ => b

def zoneOf : Addr → Bytes
  | v6 _ z => z
  | _ => []

def hasZone (a : Addr) : Bool := !a.zoneOf.isEmpty

/-- `Is4In6`: `hi == 0 && lo>>32 == 0xffff` -/
def is4In6 : Addr → Bool
  | v6 b _ => b.take 12 == v4InV6Prefix
  | _ => false

/-- `Unmap` -/
def unmap (a : Addr) : Addr :=
  match a with
  | v6 b _ => if a.is4In6 then v4 (b.drop 12) else a
  | _ => a

/-- `WithZone` -/
def withZone (a : Addr) (zone : Bytes) : Addr :=
  match a with
  | v6 b _ => v6 b zone
  | _ => a

def withoutZone (a : Addr) : Addr :=
  match a with
  | v6 b _ => v6 b []
  | _ => a

end Addr

/-- `netip.AddrFromSlice`; `none` is `ok = false` -/
def addrFromSlice (s : Bytes) : Option Addr :=
  if s.length = 4 then some (.v4 s)
  else if s.length = 16 then some (.v6 s [])
  else none

/-- big-endian value of a byte string -/
def beNat : Bytes → Nat
  | [] => 0
  | b :: rest => b * 256 ^ rest.length + beNat rest

/-- three-way comparison of Go strings (bytewise lexicographic) -/
def lexCmp : Bytes → Bytes → Int
  | [], [] => 0
  | [], _ :: _ => -1
  | _ :: _, [] => 1
  | a :: as, b :: bs => if a < b then -1 else if a > b then 1 else lexCmp as bs

def cmpNat (a b : Nat) : Int := if a < b then -1 else if a > b then 1 else 0

/-- `Addr.Compare`: bit length, then the 128-bit value, then (IPv6) the zone -/
def Addr.compare (a b : Addr) : Int :=
  if a.bitLen < b.bitLen then -1
  else if a.bitLen > b.bitLen then 1
  else if beNat a.bytes < beNat b.bytes then -1
  else if beNat a.bytes > beNat b.bytes then 1
  else if a.is6 then lexCmp a.zoneOf b.zoneOf
  else 0

/-! ### `netip.Prefix` -/

structure Prefix where
  addr : Addr
  bitsPlusOne : Nat
  deriving Repr, DecidableEq

def Prefix.isValid (p : Prefix) : Bool := p.bitsPlusOne > 0
def Prefix.bits (p : Prefix) : Int := (p.bitsPlusOne : Int) - 1

/-- `netip.PrefixFrom` -/
def prefixFrom (ip : Addr) (bits : Int) : Prefix :=
  { addr := ip.withoutZone
    bitsPlusOne := if ip.isValid ∧ 0 ≤ bits ∧ bits ≤ ip.bitLen then bits.toNat + 1 else 0 }

/-- `Prefix.Contains`: same family, no zone, and the leading `bits` bits agree
(`(x ^ p) >> (len - bits) == 0`, resp. `(x ^ p) & mask6(bits) == 0`) -/
def Prefix.contains (p : Prefix) (x : Addr) : Bool :=
  if !p.isValid || x.hasZone then false
  else if p.addr.bitLen = 0 || x.bitLen = 0 || p.addr.bitLen ≠ x.bitLen then false
  else
    let sh := x.bitLen - (p.bitsPlusOne - 1)
    beNat x.bytes >>> sh == beNat p.addr.bytes >>> sh

/-! ### `netip.AddrPort`, `net.Addr` -/

structure AddrPort where
  addr : Addr
  port : Nat
  deriving Repr, DecidableEq

/-- the dynamic types of a `net.Addr` value that matter to `NetAddrToAddrPort` -/
inductive NetAddr where
  | nil                                            -- nil interface
  | tcp (ip : Bytes) (port : Int) (zone : Bytes)   -- *net.TCPAddr
  | udp (ip : Bytes) (port : Int) (zone : Bytes)   -- *net.UDPAddr
  | tcpNil                                         -- (*net.TCPAddr)(nil)
  | udpNil                                         -- (*net.UDPAddr)(nil)
  | other                                          -- any type without an AddrPort method
  | custom (ap : AddrPort)                         -- any other type with an AddrPort method
  deriving Repr, DecidableEq

/-- `(*TCPAddr).AddrPort` / `(*UDPAddr).AddrPort` on a non-nil receiver -/
def sockAddrPort (ip : Bytes) (port : Int) (zone : Bytes) : AddrPort :=
  let na := (addrFromSlice ip).getD .zero
  { addr := na.withZone zone, port := (port % 65536).toNat }

/-! ### golibs: `addrconv.go` -/

inductive ConvErr where
  | nilIP        -- "nil ip"
  | bad4         -- "bad ipv4 net.IP …"
  | badIP        -- "bad net.IP value …"
  deriving Repr, DecidableEq

/-- `AddrFamilyIPv4 = 1`, `AddrFamilyIPv6 = 2` -/
def famV4 : Nat := 1
def famV6 : Nat := 2

def fromSlice (s : Option Bytes) : Except ConvErr Addr :=
  match addrFromSlice (orNil s) with
  | some a => .ok a
  | none => .error .badIP

/-- `IPToAddr`.  The outer `GoM` is the `panic(badAddrFam(…))` of the default branch. -/
def ipToAddr (ip : Option Bytes) (fam : Nat) : GoM (Except ConvErr Addr) :=
  match ip with
  | none => pure (.error .nilIP)
  | some b =>
    if fam = famV4 then
      match to4 b with
      | none => pure (.error .bad4)
      | some ip4 => pure (fromSlice (some ip4))
    else if fam = famV6 then pure (fromSlice (to16 b))
    else .error (.explicit "bad address family")

/-- `IPToAddrNoMapped` -/
def ipToAddrNoMapped (ip : Option Bytes) : GoM (Except ConvErr Addr) :=
  match to4 (orNil ip) with
  | some ip4 => ipToAddr (some ip4) famV4
  | none => ipToAddr ip famV6

inductive NetErr where
  | nilSubnet              -- "nil subnet"
  | badIP (e : ConvErr)    -- "bad ip for subnet …: %w"
  | badMask                -- repaired code: Mask.Size() reported bits = 0
  | badSubnet              -- "bad subnet …": PrefixFrom gave an invalid prefix
  deriving Repr, DecidableEq

/-- `IPNetToPrefix`, repaired (`fix-1.diff`): `ones, bits := Mask.Size(); bits == 0` is an
error. -/
def ipNetToPrefix (n : Option IPNet) (fam : Nat) : GoM (Except NetErr Prefix) :=
  match n with
  | none => pure (.error .nilSubnet)
  | some n => do
    match ← ipToAddr n.ip fam with
    | .error e => pure (.error (.badIP e))
    | .ok addr =>
      let sz := maskSize (orNil n.mask)
      if sz.2 = 0 then pure (.error .badMask)
      else
        let p := prefixFrom addr sz.1
        if !p.isValid then pure (.error .badSubnet) else pure (.ok p)

/-- `IPNetToPrefix` as it is in the unchanged tree (`ones, _ := subnet.Mask.Size()`). -/
def ipNetToPrefixUnfixed (n : Option IPNet) (fam : Nat) : GoM (Except NetErr Prefix) :=
  match n with
  | none => pure (.error .nilSubnet)
  | some n => do
    match ← ipToAddr n.ip fam with
    | .error e => pure (.error (.badIP e))
    | .ok addr =>
      let p := prefixFrom addr (maskSize (orNil n.mask)).1
      if !p.isValid then pure (.error .badSubnet) else pure (.ok p)

/-- `IPNetToPrefixNoMapped` (the assignment `subnet.IP = ip4` is the `{ n with ip := … }`) -/
def ipNetToPrefixNoMapped (n : Option IPNet) : GoM (Except NetErr Prefix) :=
  match n with
  | none => pure (.error .nilSubnet)
  | some n =>
    match to4 (orNil n.ip) with
    | some ip4 => ipNetToPrefix (some { n with ip := some ip4 }) famV4
    | none => ipNetToPrefix (some n) famV6

/-- `NetAddrToAddrPort` -/
def netAddrToAddrPort (a : NetAddr) : AddrPort :=
  let viaMethod : Option AddrPort :=
    match a with
    | .nil => none
    | .other => none
    | .tcpNil => some { addr := .zero, port := 0 }
    | .udpNil => some { addr := .zero, port := 0 }
    | .tcp ip port zone => some (sockAddrPort ip port zone)
    | .udp ip port zone => some (sockAddrPort ip port zone)
    | .custom ap => some ap
  match viaMethod with
  | none => { addr := .zero, port := 0 }
  | some ap => if ap.addr.is4In6 then { addr := ap.addr.unmap, port := ap.port } else ap

/-! ### golibs: `sort.go` -/

/-- `prefer` -/
def prefer (a b : Addr) (famFunc : Addr → Bool) : Int :=
  if !a.isValid then 1
  else if !b.isValid then -1
  else if famFunc a == famFunc b then a.compare b
  else if famFunc a then -1
  else 1

def preferIPv4 (a b : Addr) : Int := prefer a b Addr.is4
def preferIPv6 (a b : Addr) : Int := prefer a b Addr.is6

/-- insertion sort on lists: the witness that the SORT-1 contract is satisfiable
(`sortBy_contract`).  `sortFunc_order` speaks about *any* function meeting SORT-1; the model of
the real `slices.SortFunc` is `Slices.sortFunc` in `Go/Sort.lean` (the driver runs that one),
and `Theorems/C12Sort.lean` proves SORT-1 for it. -/
def insertBy (cmp : Addr → Addr → Int) (x : Addr) : List Addr → List Addr
  | [] => [x]
  | y :: ys => if cmp x y < 0 then x :: y :: ys else y :: insertBy cmp x ys

def sortBy (cmp : Addr → Addr → Int) (l : List Addr) : List Addr :=
  l.foldr (insertBy cmp) []

end GolibsVerif.C12
