/-
C08 — executable model of `/repo/hostsfile/parse.go` (`Parse`) and
`/repo/hostsfile/storage.go` (`orderedSet.add`, `DefaultStorage.Add / ByAddr / ByName /
RangeNames / RangeAddrs / Equal`).

* `bufio.Scanner` + `bufio.ScanLines` is the function `scanLines` on the whole byte stream
  (formerly contract SCAN-1, now theorem `scan_fragmentation_independent` over the model of
  `Scanner.Scan` in `Go/Scanner.lean`: the scanner yields exactly these tokens however the
  reader fragments the stream, for lines < 64 KiB and at most 100 consecutive empty reads;
  `Model/C08Scan.lean` runs `Parse` on that scanner).
* `Parse` is the fold the code performs over the tokens: 1-based `lineNum`, a fresh
  `&Record{Source: srcName}` per line, `UnmarshalText` (the C07 model), dispatch to
  `dst.Add` or to `handleInvalid` (the `HandleSet` method, or the closure that appends to
  `errs`), then `s.Err()` and `errors.Annotate(errors.Join(errs...))`.
* Go maps are association lists (`Map.get` / `Map.put` = `m[k]` / `m[k] = v`); map iteration
  order is unspecified, so everything printed from a `Range*` is sorted by the driver.
  `*orderedSet` pointers stored in a map are values stored under the key; a mutation through
  the pointer is a `put` under that key (no pointer is shared between two keys).
* `strings.ToLower` is the opaque key function `lower` (contract LOWER-1).

`DefaultStorage.Add` is modelled **with the minimal repair** of defect #6 (DESIGN.md §9):
it returns early for a record without names.  The unrepaired body is `addUnfixed`.
-/
import GolibsVerif.Model.C07

namespace GolibsVerif.C08
open GolibsVerif GolibsVerif.Netip GolibsVerif.C07

/-! ### `bufio.ScanLines` over a whole stream -/

/-- `dropCR`: drop one trailing `'\r'` -/
def dropCR (l : Bytes) : Bytes :=
  match l.getLast? with
  | some 13 => l.dropLast
  | _ => l

/-- the tokens `bufio.Scanner` with `bufio.ScanLines` yields for a complete stream: `cur` is
the current, not yet terminated line (reversed).  A line ends at `'\n'`; a final
unterminated **non-empty** rest is a line too; each line loses one trailing `'\r'`. -/
def scanLinesAux : Bytes → Bytes → List Bytes
  | [], cur => if cur = [] then [] else [dropCR cur.reverse]
  | b :: rest, cur =>
    if b = 10 then dropCR cur.reverse :: scanLinesAux rest []
    else scanLinesAux rest (b :: cur)

def scanLines (stream : Bytes) : List Bytes := scanLinesAux stream []

/-! ### `Parse` -/

/-- `*LineError` -/
structure LineError where
  line : Nat
  err : RecErr
  deriving Repr

/-- the calls `Parse` makes on `dst` -/
inductive Call where
  | add (r : Record)                                        -- dst.Add(rec)
  | handleInvalid (srcName data : Bytes) (e : LineError)    -- dst.HandleInvalid(srcName, data, err)
  deriving Repr

/-- what `Parse` returns -/
inductive Ret where
  | nil                                  -- no error
  | scanning                             -- fmt.Errorf("scanning: %w", s.Err())
  | parsing (errs : List LineError)      -- errors.Annotate(errors.Join(errs...), "parsing: %w")
  deriving Repr

structure PState where
  calls : List Call
  errs : List LineError
  deriving Repr

/-- the `for lineNum := 1; s.Scan(); lineNum++ { … }` loop over the scanner's tokens -/
def parseLoop (toASCII : Bytes → Option Bytes) (isHandleSet : Bool) (srcName : Bytes) :
    List Bytes → Nat → PState → GoM PState
  | [], _, st => pure st
  | data :: rest, lineNum, st => do
    let (r, err) ← unmarshalText toASCII { addr := .invalid, source := srcName, names := [] } data
    let st : PState := match err with
      | some e =>
        let le : LineError := { line := lineNum, err := e }
        if isHandleSet then { st with calls := st.calls ++ [.handleInvalid srcName data le] }
        else { st with errs := st.errs ++ [le] }
      | none => { st with calls := st.calls ++ [.add r] }
    parseLoop toASCII isHandleSet srcName rest (lineNum + 1) st

/-- `Parse(dst, src, buf)`: `srcName` is `src.Name()` for a `NamedReader` and `""` otherwise;
`isHandleSet` says whether `dst` implements `HandleSet`; `readErr` says whether the reader
ended with an error other than `io.EOF` (then `s.Err() != nil`).  Returns the calls made on
`dst`, in order, and the returned error. -/
def parse (toASCII : Bytes → Option Bytes) (isHandleSet : Bool) (srcName : Bytes) (readErr : Bool)
    (stream : Bytes) : GoM (List Call × Ret) := do
  let st ← parseLoop toASCII isHandleSet srcName (scanLines stream) 1 { calls := [], errs := [] }
  if readErr then return (st.calls, .scanning)
  -- errors.Join of no errors is nil, and errors.Annotate(nil, …) is nil
  if st.errs.length = 0 then return (st.calls, .nil)
  return (st.calls, .parsing st.errs)

/-! ### Go maps as association lists -/

abbrev Map (K V : Type) := List (K × V)

/-- `m[k]` (with the `ok` flag as `Option`) -/
def Map.get {K V : Type} [DecidableEq K] : Map K V → K → Option V
  | [], _ => none
  | (k', v) :: rest, k => if k' = k then some v else Map.get rest k

/-- `m[k] = v` -/
def Map.put {K V : Type} [DecidableEq K] : Map K V → K → V → Map K V
  | [], k, v => [(k, v)]
  | (k', v') :: rest, k, v => if k' = k then (k, v) :: rest else (k', v') :: Map.put rest k v

/-! ### `orderedSet` -/

/-- `orderedSet[K]`: `set` is the `container.MapSet` (only membership is ever asked),
`vals` the slice -/
structure OSet (K : Type) where
  set : List K
  vals : List K
  deriving Repr

def OSet.empty {K : Type} : OSet K := { set := [], vals := [] }

/-- `(*orderedSet).add(key, val)` -/
def OSet.add {K : Type} [DecidableEq K] (os : OSet K) (key val : K) : OSet K :=
  if key ∈ os.set then os else { set := os.set ++ [key], vals := os.vals ++ [val] }

/-! ### `DefaultStorage` -/

structure Storage where
  names : Map Addr (OSet Bytes)      -- map[netip.Addr]*namesSet
  addrs : Map Bytes (OSet Addr)      -- map[string]*addrsSet
  deriving Repr

/-- `NewDefaultStorage()` without readers -/
def Storage.empty : Storage := { names := [], addrs := [] }

/-- one iteration of `for _, name := range rec.Names { … }` in `Add`; `names` is the pointer
`s.names[rec.Addr]` taken before the loop (dereferencing it when the key is absent would be
a nil dereference) -/
def addName (lower : Bytes → Bytes) (a : Addr) (s : Storage) (name : Bytes) : GoM Storage :=
  let lowered := lower name
  match s.names.get a with
  | none => .error .nilDeref
  | some ns =>
    let names' := s.names.put a (ns.add lowered name)             -- names.add(lowered, name)
    let as : OSet Addr := match s.addrs.get lowered with          -- addrs := s.addrs[lowered]
      | some as => as
      | none => OSet.empty                                        -- if addrs == nil { … }
    .ok { names := names', addrs := s.addrs.put lowered (as.add a a) }   -- addrs.add(rec.Addr, rec.Addr)

/-- the body of `Add` after the early return: make sure `s.names[rec.Addr]` exists, then loop -/
def addBody (lower : Bytes → Bytes) (s : Storage) (r : Record) : GoM Storage :=
  let s1 : Storage := match s.names.get r.addr with
    | some _ => s
    | none => { s with names := s.names.put r.addr OSet.empty }
  r.names.foldlM (addName lower r.addr) s1

/-- `(*DefaultStorage).Add(rec)`, repaired: `if len(rec.Names) == 0 { return }` first -/
def add (lower : Bytes → Bytes) (s : Storage) (r : Record) : GoM Storage :=
  if r.names.length = 0 then pure s else addBody lower s r

/-- `Add` as it is on the unchanged tree (no early return) -/
def addUnfixed (lower : Bytes → Bytes) (s : Storage) (r : Record) : GoM Storage := addBody lower s r

/-- a sequence of `Add` calls -/
def adds (lower : Bytes → Bytes) (s : Storage) (rs : List Record) : GoM Storage :=
  rs.foldlM (add lower) s

/-- `ByAddr(addr)` (`nil` is the empty list) -/
def byAddr (s : Storage) (a : Addr) : List Bytes :=
  match s.names.get a with
  | some os => os.vals
  | none => []

/-- `ByName(host)` -/
def byName (lower : Bytes → Bytes) (s : Storage) (host : Bytes) : List Addr :=
  match s.addrs.get (lower host) with
  | some os => os.vals
  | none => []

/-- the pairs `RangeNames` passes to `f` when `f` always continues (in the model's order;
Go's order is unspecified) -/
def rangeNames (s : Storage) : List (Addr × List Bytes) := s.names.map fun e => (e.1, e.2.vals)

/-- the pairs `RangeAddrs` passes to `f` -/
def rangeAddrs (s : Storage) : List (Bytes × List Addr) := s.addrs.map fun e => (e.1, e.2.vals)

/-- `s.Equal(other)`; `none` is the nil pointer -/
def equal : Option Storage → Option Storage → Bool
  | none, none => true
  | none, some _ => false
  | some _, none => false
  | some s, some o =>
    if s.names.length ≠ o.names.length ∨ s.addrs.length ≠ o.addrs.length then false
    else s.names.all fun e =>
      match o.names.get e.1 with
      | none => false
      | some on => e.2.vals.length = on.vals.length && e.2.vals == on.vals

end GolibsVerif.C08
