/-
C19 — labelled transition system of concurrent `JSONHybridHandler.Handle` calls on
handlers that share one writer (all handlers derived from one root share `encoder`, `mu`
and `bufTextPool`, see `WithAttrs`).

Every call `i` is a thread that goes through the steps of `Handle` in the order the code
has them (the deferred calls run last, in reverse order of registration):

    start      --Get-->       got         bufTextHdlr := h.bufTextPool.Get();  defer Put
    got        --reset-->     rendering   bufTextHdlr.reset()
    rendering  --render-->    rendered    r.Clone/AddAttrs (thread-local); handler.Handle(ctx, r)
                                          appends the text line to the pooled buffer;
                                          msg/data alias that buffer
    rendered   --lock-->      locked      h.mu.Lock();  defer Unlock    (enabled iff mu is free)
    locked     --marshal-->   writing     encoder.Encode(data) reads the pooled buffer …
    writing    --emit c-->    writing     … and the writer receives the line byte by byte
                                          (any chunking of `Write` calls is a coarsening)
    writing    --return-->    unlocking   Encode returns
    unlocking  --unlock-->    putting     deferred h.mu.Unlock()
    putting    --put-->       done        deferred h.bufTextPool.Put(bufTextHdlr)

`sync.Pool` (MEM-1): `Get` hands out a free object (removing it from the pool) or a new one;
`Put` makes the object free again; the runtime may drop free objects at any time (`gc`).
The writer is *not* assumed atomic: a line reaches it one byte per step, so an interleaving
would be visible in `out`.
-/
import GolibsVerif.Go.Basic

namespace GolibsVerif.C19.Lts

inductive PC where
  | start | got | rendering | rendered | locked | writing | unlocking | putting | done
  deriving DecidableEq, Repr

structure Thread where
  pc : PC
  obj : Nat
  pending : Bytes
  deriving Repr

/-- pointwise update -/
def upd {α : Type} (f : Nat → α) (i : Nat) (v : α) : Nat → α := fun j => if j = i then v else f j

structure State where
  th : Nat → Thread
  free : Nat → Bool          -- the pool: object `o` is in the pool
  nobj : Nat                 -- objects created so far by the pool's `New`
  bufs : Nat → Bytes         -- contents of the pooled buffers
  mu : Option Nat            -- holder of `h.mu`
  out : Bytes                -- everything the shared writer has received
  completed : List Nat       -- ghost: calls whose `Encode` has returned, in that order

/-- The calls: what the text handler prints for call `i` and what `Encode` makes of a
buffer content for call `i` (strip + severity + JSON). -/
structure Prog where
  line : Nat → Bytes
  enc : Nat → Bytes → Bytes

inductive Label where
  | get (i : Nat) (reuse : Option Nat)   -- `Get` returning pooled object `o` / a new object
  | adv (i : Nat)                        -- the next step of call `i` (deterministic)
  | gc (o : Nat)                         -- the pool drops a free object
  deriving Repr

def init : State :=
  { th := fun _ => { pc := .start, obj := 0, pending := [] }
    free := fun _ => false, nobj := 0, bufs := fun _ => [], mu := none, out := [], completed := [] }

def next (P : Prog) (s : State) : Label → Option State
  | .get i reuse =>
    if (s.th i).pc = .start then
      match reuse with
      | some o =>
        if s.free o then
          some { s with th := upd s.th i { pc := .got, obj := o, pending := [] }, free := upd s.free o false }
        else none
      | none =>
        some { s with th := upd s.th i { pc := .got, obj := s.nobj, pending := [] }
                      nobj := s.nobj + 1, bufs := upd s.bufs s.nobj [] }
    else none
  | .gc o => if s.free o then some { s with free := upd s.free o false } else none
  | .adv i =>
    let t := s.th i
    match t.pc with
    | .start => none
    | .done => none
    | .got => some { s with th := upd s.th i { t with pc := .rendering }, bufs := upd s.bufs t.obj [] }
    | .rendering =>
      some { s with th := upd s.th i { t with pc := .rendered }
                    bufs := upd s.bufs t.obj (s.bufs t.obj ++ P.line i) }
    | .rendered =>
      if s.mu = none then some { s with th := upd s.th i { t with pc := .locked }, mu := some i } else none
    | .locked =>
      some { s with th := upd s.th i { t with pc := .writing, pending := P.enc i (s.bufs t.obj) } }
    | .writing =>
      match t.pending with
      | [] => some { s with th := upd s.th i { t with pc := .unlocking }, completed := s.completed ++ [i] }
      | c :: rest => some { s with th := upd s.th i { t with pending := rest }, out := s.out ++ [c] }
    | .unlocking => some { s with th := upd s.th i { t with pc := .putting }, mu := none }
    | .putting => some { s with th := upd s.th i { t with pc := .done }, free := upd s.free t.obj true }

def run (P : Prog) : State → List Label → Option State
  | s, [] => some s
  | s, l :: ls => (next P s l).bind fun s' => run P s' ls

def Reachable (P : Prog) (s : State) : Prop := ∃ ls, run P init ls = some s

/-! ### A deterministic scheduler for the driver: run `n` calls to completion, choosing the
next enabled call pseudo-randomly from `seed`. -/

def enabledAdv (s : State) (i : Nat) : Bool :=
  match (s.th i).pc with
  | .start => true
  | .done => false
  | .rendered => s.mu.isNone
  | _ => true

def firstFree (s : State) : Option Nat := (List.range s.nobj).find? fun o => s.free o

def lcg (x : Nat) : Nat := (x * 6364136223846793005 + 1442695040888963407) % 18446744073709551616

/-- one scheduling decision -/
def schedStep (P : Prog) (n : Nat) (s : State) (seed : Nat) : Option State :=
  let en := (List.range n).filter (enabledAdv s)
  match en[(seed / 65536) % (max en.length 1)]? with
  | none => none
  | some i =>
    if (s.th i).pc = .start then
      -- reuse a pooled object when there is one and the coin says so
      match firstFree s with
      | some o => if (seed / 7) % 4 = 0 then next P s (.get i none) else next P s (.get i (some o))
      | none => next P s (.get i none)
    else next P s (.adv i)

/-- the same state with its function fields tabulated (extensionally equal on calls `< n`
and objects `< nobj`; keeps lookups O(1) in the compiled driver) -/
def compact (n : Nat) (s : State) : State :=
  let ths := (List.range n).map s.th
  let fr := (List.range s.nobj).map s.free
  let bs := (List.range s.nobj).map s.bufs
  { s with th := fun i => ths.getD i { pc := .start, obj := 0, pending := [] }
           free := fun o => fr.getD o false
           bufs := fun o => bs.getD o [] }

def schedRun (P : Prog) (n : Nat) : Nat → State → Nat → State
  | 0, s, _ => s
  | fuel + 1, s, seed =>
    match schedStep P n s seed with
    | none => s
    | some s' => schedRun P n fuel (compact n s') (lcg seed)

/-! ### correspondence with the source skeleton (`Gen/C19Skel.lean`, regenerated on every run)

The skeleton is a NORMAL FORM (see `gen/c19sym.go`): the paths of `Handle` after inlining every
function of the package, each path the list of the operations on the shared and pooled objects
in EXECUTION order.  An object is named by the type of the handler field that holds it
(`h.<sync.Mutex>`, whatever intermediate struct it lives in), the pooled object is
`syncutil.Pool.Get#1`, its parts are named by type as well; arguments are data-flow terms.  Kinds:
`call` (executed in line), `defer` (registration of a deferred call, with the callees it will
run), `run` (a deferred call running, LIFO at the return of the function or helper that
registered it), `assume`/`assume-not` (an undecided branch), `return`. -/

def evGet : String := "syncutil.Pool.Get(h.<syncutil.Pool[{bytes.Buffer,slog.TextHandler}]>)"
def evReset : String := "bytes.Buffer.Reset(syncutil.Pool.Get#1.<bytes.Buffer>)"
def evAddAttrs : String := "slog.Record.AddAttrs(slog.Record.Clone(arg2); h.<[]slog.Attr>...)"
def evTextHandle : String :=
  "slog.TextHandler.Handle(syncutil.Pool.Get#1.<slog.TextHandler>; arg1, slog.Record.Clone(arg2)+slog.Record.AddAttrs#1)"
def evBytes : String := "bytes.Buffer.Bytes(syncutil.Pool.Get#1.<bytes.Buffer>)"
def evLock : String := "sync.Mutex.Lock(h.<sync.Mutex>)"
def evEncode : String :=
  "json.Encoder.Encode(h.<json.Encoder>; {severity=ite((arg2.Level >= 8), \"ERROR\", \"NORMAL\"); message=bytes.Buffer.Bytes#1[:(len(bytes.Buffer.Bytes#1) - 1)]})"
def evUnlock : String := "sync.Mutex.Unlock(h.<sync.Mutex>)"
def evPut : String := "syncutil.Pool.Put(h.<syncutil.Pool[{bytes.Buffer,slog.TextHandler}]>; syncutil.Pool.Get#1)"

/-- the source operations each step of a call stands for (the step leaving that pc) -/
def stepEvents : PC → List String
  | .start => [evGet]
  | .got => [evReset]
  | .rendering => [evAddAttrs, evTextHandle]
  | .rendered => [evBytes, evLock]
  | .locked => [evEncode]
  | .writing => []
  | .unlocking => [evUnlock]
  | .putting => [evPut]
  | .done => []

/-- the order in which one call executes the operations -/
def programOrder : List String :=
  [PC.start, .got, .rendering, .rendered, .locked, .writing, .unlocking, .putting].flatMap stepEvents

/-- the error exit (the text handler failed): the mutex is never taken, the pooled object is
put back -/
def errorOrder : List String := [evGet, evReset, evAddAttrs, evTextHandle, evPut]

/-- The operations a path of the skeleton executes, in execution order. -/
def pathOps (path : List (String × String)) : List String :=
  (path.filter fun e => e.1 == "call" || e.1 == "run").map (·.2)

/-- The operations of a path that run as deferred calls (they also run when the code in between
panics). -/
def pathDeferred (path : List (String × String)) : List String :=
  (path.filter fun e => e.1 == "run").map (·.2)

end GolibsVerif.C19.Lts
