/-
Executable models of `/repo/netutil/reversed.go` (ARPA reverse-address codec), following
the Go source statement by statement; index arithmetic on `Int`, every index / slice is a
`GoM` operation, loops carry explicit fuel whose exhaustion is a modelled failure
(`explicit "fuel"`), so "never panics, never loops" is a statement about these functions.
Shared by C01, C04, C05.
-/
import GolibsVerif.Model.NetAddr
import GolibsVerif.Model.NetIP

namespace GolibsVerif.Netutil
open GolibsVerif.Str GolibsVerif.Netip GolibsVerif.Gen.Consts

/-- `fromHexByte`: 0..15, or 0xff for every other byte -/
def fromHexByte (c : Nat) : Nat := (hexVal c).getD 255

/-- `netip.Prefix` (address and bit length; `PrefixFrom` does not mask) -/
structure Prefix where
  addr : Addr
  bits : Nat
  deriving Repr, DecidableEq

/-- `ipv4FromReversed` -/
def ipv4FromReversed (arpa : Bytes) : Except Err Addr :=
  match parseAddr arpa with
  | none => .error (.const .parseAddr)
  | some (.v4 b) => .ok (.v4 b.reverse)
  | some _ => .error (.addr .ipv4 arpa none)

/-- the loop of `ipv6FromReversed`: `i` runs over 0..15, `ip` collects the bytes written at
index `15 - i` (so it is built back to front) -/
def ipv6FromReversedLoop (arpa : Bytes) : Nat → Nat → List Nat → GoM (Except Err (List Nat))
  | 0, _, ip => return .ok ip
  | n + 1, i, ip => do
    let sIdx : Int := i * 4
    let c ← GoM.idx arpa sIdx
    let lo := fromHexByte c
    if lo = 255 then return .error (.rune .arpa c)
    let c ← GoM.idx arpa (sIdx + 2)
    let hi := fromHexByte c
    if hi = 255 then return .error (.rune .arpa c)
    -- `arpa[sIdx+1] != '.' || arpa[sIdx+3] != '.'` (short-circuit)
    let d1 ← GoM.idx arpa (sIdx + 1)
    if d1 ≠ 46 then return .error (.const .notAReversedIP)
    let d3 ← GoM.idx arpa (sIdx + 3)
    if d3 ≠ 46 then return .error (.const .notAReversedIP)
    ipv6FromReversedLoop arpa n (i + 1) ((hi * 16 + lo) :: ip)

/-- `ipv6FromReversed` -/
def ipv6FromReversed (arpa : Bytes) : GoM (Except Err Addr) := do
  match ← ipv6FromReversedLoop arpa 16 0 [] with
  | .error e => return .error e
  | .ok ip => return .ok (.v6 ip [])

/-- `defer makeAddrError(&err, arpa, AddrKindARPA)` -/
def wrapARPA {α} (arpa : Bytes) : Except Err α → Except Err α
  | .ok a => .ok a
  | .error e => .error (.addr .arpa arpa (some e))

/-- common prologue of the three exported decoders: trim one trailing dot, validate as a
domain name, re-kind a validation error to "arpa domain name" -/
def arpaPrologue (toASCII : Bytes → Option Bytes) (arpa : Bytes) : GoM (Except Err Bytes) := do
  let arpa := trimSuffix arpa [46]
  match ← validateDomainName toASCII arpa with
  | some e =>
    let e' ← replaceKind (some e) .arpa
    return .error e'
  | none => return .ok arpa

/-- `IPFromReversedAddr` -/
def ipFromReversedAddr (toASCII : Bytes → Option Bytes) (arpa : Bytes) : GoM (Except Err Addr) := do
  match ← arpaPrologue toASCII arpa with
  | .error e => return .error e
  | .ok arpa0 =>
    let arpa := asciiLower arpa0
    if hasSuffix arpa arpaV4Suffix then
      let ipStr ← GoM.sliceTo arpa ((arpa.length : Int) - arpaV4Suffix.length)
      return wrapARPA arpa0 (ipv4FromReversed ipStr)
    else if hasSuffix arpa arpaV6Suffix then
      let l := arpa.length
      if l = arpaV6MaxLen then
        return wrapARPA arpa0 (← ipv6FromReversed arpa)
      return wrapARPA arpa0 (.error (.length .arpa [arpaV6MaxLen] 0 l))
    else return wrapARPA arpa0 (.error (.const .notAReversedIP))

/-- `net.IP.To4` / `To16` on a byte slice -/
def ipTo4 (ip : Bytes) : Option Bytes :=
  if ip.length = 4 then some ip
  else if ip.length = 16 ∧ ip.take 10 = List.replicate 10 0 ∧ ip[10]? = some 255 ∧ ip[11]? = some 255 then
    some (ip.drop 12)
  else none

def ipTo16 (ip : Bytes) : Option Bytes :=
  if ip.length = 4 then some (List.replicate 10 0 ++ [255, 255] ++ ip)
  else if ip.length = 16 then some ip
  else none

/-- `strconv.Itoa` of a byte -/
def itoa (n : Nat) : Bytes :=
  if n < 10 then [48 + n]
  else if n < 100 then [48 + n / 10, 48 + n % 10]
  else [48 + n / 100, 48 + n / 10 % 10, 48 + n % 10]

/-- `strconv.FormatUint(n, 16)` of a nibble -/
def hexDigit (n : Nat) : Nat := if n < 10 then 48 + n else 97 + (n - 10)

/-- `IPToReversedAddr`; `none` is the `*AddrError{Kind: "ip address"}` for a slice that is
neither an IPv4 nor an IPv6 address -/
def ipToReversedAddr (ip : Bytes) : GoM (Option Bytes) := do
  match ipTo4 ip with
  | some ip4 =>
    let suffix ← GoM.sliceFrom arpaV4Suffix 1
    return some (ip4.reverse.flatMap (fun b => itoa b ++ [46]) ++ suffix)
  | none =>
    match ipTo16 ip with
    | some ip6 =>
      let suffix ← GoM.sliceFrom arpaV6Suffix 1
      return some (ip6.reverse.flatMap (fun b => [hexDigit (b % 16), 46, hexDigit (b / 16), 46]) ++ suffix)
    | none => return none

/-- the loop of `ipv4NetFromReversed`: `ip` holds the `l` octets written so far -/
def ipv4NetLoop : Nat → Bytes → List Nat → GoM (Except Err (List Nat))
  | 0, _, _ => .error (.explicit "fuel")
  | fuel + 1, addr, ip => do
    if addr = [] then return .ok ip
    let octetIdx : Int := lastIndexByte addr 46 + 1
    let octetStr ← GoM.sliceFrom addr octetIdx
    match parseUintDec octetStr 255 with
    | none => return .error (.const .parseUint)
    | some octet =>
      let c0 ← GoM.idx addr octetIdx
      if (addr.length : Int) - octetIdx > 1 ∧ c0 = 48 then
        return .error (.addr .lblDomain octetStr (some (.const .leadingZero)))
      -- `ip[l] = byte(octet64)` on a `[4]byte`
      if ip.length ≥ 4 then throw (.indexOutOfRange ip.length 4)
      let ip := ip ++ [octet]
      if octetIdx = 0 then return .ok ip
      let addr' ← GoM.sliceTo addr (octetIdx - 1)
      ipv4NetLoop fuel addr' ip

def pad (n : Nat) (l : List Nat) : List Nat := l ++ List.replicate (n - l.length) 0

/-- `ipv4NetFromReversed` -/
def ipv4NetFromReversed (arpa : Bytes) : GoM (Except Err Prefix) := do
  match ← ipv4NetLoop (arpa.length + 1) arpa [] with
  | .error e => return .error e
  | .ok ip => return .ok { addr := .v4 (pad 4 ip), bits := ip.length * 8 }

/-- the loop of `ipv6NetFromReversed`: `nibs` holds the `l` nibbles read so far (first read
= most significant) -/
def ipv6NetLoop (arpa : Bytes) : Nat → Int → List Nat → GoM (Except Err (List Nat))
  | 0, _, _ => .error (.explicit "fuel")
  | fuel + 1, nibbleIdx, nibs => do
    if nibbleIdx < 0 then return .ok nibs
    let d ← GoM.idx arpa (nibbleIdx + 1)
    if d ≠ 46 then return .error (.const .notAReversedSubnet)
    let c ← GoM.idx arpa nibbleIdx
    let b := fromHexByte c
    if b = 255 then return .error (.rune .arpa c)
    -- `ip[l/2] |= …` on a `[16]byte`
    if nibs.length / 2 ≥ 16 then throw (.indexOutOfRange (nibs.length / 2) 16)
    ipv6NetLoop arpa fuel (nibbleIdx - 2) (nibs ++ [b])

def nibblesToBytes : List Nat → List Nat
  | [] => []
  | [hi] => [hi * 16]
  | hi :: lo :: rest => (hi * 16 + lo) :: nibblesToBytes rest

/-- `ipv6NetFromReversed` -/
def ipv6NetFromReversed (arpa : Bytes) : GoM (Except Err Prefix) := do
  let nibbleIdx : Int := (arpa.length : Int) - arpaV6Suffix.length + 1 - 2
  if nibbleIdx.tmod 2 ≠ 0 then return .error (.const .notAReversedSubnet)
  match ← ipv6NetLoop arpa (arpa.length + 1) nibbleIdx [] with
  | .error e => return .error e
  | .ok nibs => return .ok { addr := .v6 (pad 16 (nibblesToBytes nibs)) [], bits := nibs.length * 4 }

def mapAddr (f : Addr → Prefix) : Except Err Addr → Except Err Prefix
  | .ok a => .ok (f a)
  | .error e => .error e

/-- `subnetFromReversedV4` -/
def subnetFromReversedV4 (arpa : Bytes) : GoM (Except Err Prefix) := do
  let l : Int := (arpa.length : Int) - arpaV4Suffix.length + 1
  let arpa ← GoM.sliceTo arpa l
  if l = 0 then ipv4NetFromReversed arpa
  else if !hasSuffix arpa [46] then return .error (.const .notAReversedSubnet)
  else
    let arpa ← GoM.sliceTo arpa (l - 1)
    let dots := countByte arpa 46
    if dots > 3 then return .error (.const .notAReversedSubnet)
    if dots = 3 then
      return mapAddr (fun a => { addr := a, bits := 32 }) (ipv4FromReversed arpa)
    ipv4NetFromReversed arpa

/-- `subnetFromReversedV6` -/
def subnetFromReversedV6 (arpa : Bytes) : GoM (Except Err Prefix) := do
  let l := arpa.length
  if l = arpaV6MaxLen then
    return mapAddr (fun a => { addr := a, bits := 128 }) (← ipv6FromReversed arpa)
  if l > arpaV6MaxLen then return .error (.length .arpa [] arpaV6MaxLen l)
  ipv6NetFromReversed arpa

/-- `PrefixFromReversedAddr` -/
def prefixFromReversedAddr (toASCII : Bytes → Option Bytes) (arpa : Bytes) : GoM (Except Err Prefix) := do
  match ← arpaPrologue toASCII arpa with
  | .error e => return .error e
  | .ok arpa0 =>
    let arpa := asciiLower arpa0
    let v4suf ← GoM.sliceFrom arpaV4Suffix 1
    let v6suf ← GoM.sliceFrom arpaV6Suffix 1
    if hasSuffix arpa v4suf then return wrapARPA arpa0 (← subnetFromReversedV4 arpa)
    else if hasSuffix arpa v6suf then return wrapARPA arpa0 (← subnetFromReversedV6 arpa)
    else return wrapARPA arpa0 (.error (.const .notAReversedSubnet))

/-- `indexFirstV4Label`: the loop `for labelsNum < 4 && idx > 0` -/
def indexFirstV4Loop (domain : Bytes) : Nat → Int → GoM Int
  | 0, idx => return idx
  | n + 1, idx => do
    if idx > 0 then
      let head ← GoM.sliceTo domain (idx - 1)
      let curIdx : Int := lastIndexByte head 46 + 1
      let label ← GoM.slice domain curIdx (idx - 1)
      if !(← isIPv4Label label) then return idx
      indexFirstV4Loop domain n curIdx
    else return idx

def indexFirstV4Label (domain : Bytes) : GoM Int :=
  indexFirstV4Loop domain 4 ((domain.length : Int) - arpaV4Suffix.length + 1)

/-- `indexFirstV6Label`: the loop `for labelsNum < 32 && idx > 0` -/
def indexFirstV6Loop (domain : Bytes) : Nat → Int → GoM Int
  | 0, idx => return idx
  | n + 1, idx => do
    if idx > 0 then
      let curIdx : Int := idx - 2
      -- `curIdx > 0 && domain[curIdx-1] != '.' || fromHexByte(domain[curIdx]) == 0xff`
      let notDot ← if curIdx > 0 then (do let c ← GoM.idx domain (curIdx - 1); pure (c ≠ 46 : Bool)) else pure false
      if notDot then return idx
      let c ← GoM.idx domain curIdx
      if fromHexByte c = 255 then return idx
      indexFirstV6Loop domain n curIdx
    else return idx

def indexFirstV6Label (domain : Bytes) : GoM Int :=
  indexFirstV6Loop domain 32 ((domain.length : Int) - arpaV6Suffix.length + 1)

/-- `ExtractReversedAddr` -/
def extractReversedAddr (toASCII : Bytes → Option Bytes) (domain : Bytes) : GoM (Except Err Prefix) := do
  match ← arpaPrologue toASCII domain with
  | .error e => return .error e
  | .ok domain0 =>
    let domain := asciiLower domain0
    let v4suf ← GoM.sliceFrom arpaV4Suffix 1
    let v6suf ← GoM.sliceFrom arpaV6Suffix 1
    let domLen : Int := domain.length
    if hasSuffix domain v4suf then
      let sufLen : Int := arpaV4Suffix.length
      let aligned ← if domLen < sufLen then pure true
                    else (do let c ← GoM.idx domain (domLen - sufLen); pure (c = 46 : Bool))
      if aligned then
        let i ← indexFirstV4Label domain
        let arpa ← GoM.sliceFrom domain i
        return wrapARPA domain0 (← subnetFromReversedV4 arpa)
      return wrapARPA domain0 (.error (.const .notAReversedSubnet))
    else if hasSuffix domain v6suf then
      let sufLen : Int := arpaV6Suffix.length
      let aligned ← if domLen < sufLen then pure true
                    else (do let c ← GoM.idx domain (domLen - sufLen); pure (c = 46 : Bool))
      if aligned then
        let i ← indexFirstV6Label domain
        let arpa ← GoM.sliceFrom domain i
        return wrapARPA domain0 (← subnetFromReversedV6 arpa)
      return wrapARPA domain0 (.error (.const .notAReversedSubnet))
    else return wrapARPA domain0 (.error (.const .notAReversedSubnet))

end GolibsVerif.Netutil
