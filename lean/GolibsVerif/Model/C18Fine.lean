/-
C18 — statement-level ("fine-grained") transition system of `service.RefreshWorker`
(`/repo/service/refreshworker.go`): the goroutine running `refreshInALoop` and a goroutine
inside `Shutdown`, interleaved arbitrarily, one Go statement (or one call / return of a
user-supplied callback) per step.

`Model/C18.lean` makes "timer fired → re-check of `done` → `contextCons.New` → `Refresh` is
entered" ONE step, so it cannot exhibit a `Shutdown` that runs to completion between the
loop's re-check and the start of `Refresh`.  Here these are separate steps:

    loop goroutine                                   Shutdown goroutine
    ------------------------------------------      -----------------------------------
    untilCall   w.schedule.UntilNext(…) is called    idle       Shutdown not called
    inUntil     … inside UntilNext                   closeDone  about to `close(w.done)`
    afterCall d w.clock.After(waitDur) is evaluated  branch     `if w.refrOnShutdown`
    select      outer `select` (done / timer)        newCall    `w.contextCons.New(ctx)`
    recheck     inner `select { <-done; default }`   inNew
    newCall     w.refresh: `w.contextCons.New(ctx)`  refreshCall `w.refr.Refresh(ctx)`
    inNew                                            inRefresh
    refreshCall `w.refr.Refresh(ctx)`                gotErr e   `if err != nil { return wrap }`
    inRefresh                                        returned e
    gotErr e    `if err != nil`
    inHandle    … inside w.errHdlr.Handle
    exited      `return`

Every step emits at most one event; the events carry what the property clauses need
(who calls, which context, which error, whether `done` was seen open or closed).

Only the first `Shutdown` call is modelled (a second one panics in `close`, see
`Model/C18.lean`, output `panicClose`).  Panics of the callbacks are not modelled.

The step order was written against the event graphs in `Model/C18Skel.lean`; the obligations
`fine_loop_order_matches_skeleton`, `fine_exits_match_skeleton`,
`fine_shutdown_order_matches_skeleton` and `fine_alphabet_covers_skeleton`
(`Theorems/C18Fine.lean`) walk the graphs regenerated from `/repo` on every run along the
order that THIS step function produces.

The second half of the file is the scripted executor used by the line protocol
(`Driver/C18.lean`, op `C18.fine`): one script command = one stimulus (a timer delivery, the
return of one blocked callback, a `Shutdown` call) followed by running both goroutines until
each is blocked in a callback, blocked in the `select`, or gone — exactly what the harness does
with the real code (`harness/c18fine.go`).
-/
import GolibsVerif.Model.C18
import GolibsVerif.Go.Skel

namespace GolibsVerif.C18.Fine
open GolibsVerif.C18

/-- program counter of the goroutine running `refreshInALoop` -/
inductive LPc where
  | untilCall
  | inUntil
  | afterCall (d : Nat)
  | select
  | recheck
  | newCall
  | inNew
  | refreshCall
  | inRefresh
  | gotErr (e : Nat)
  | inHandle
  | exited
  deriving DecidableEq, Repr

/-- program counter of the goroutine that called `Shutdown` -/
inductive SPc where
  | idle
  | closeDone
  | branch
  | newCall
  | inNew
  | refreshCall
  | inRefresh
  | gotErr (e : Nat)
  | returned (e : Nat)
  deriving DecidableEq, Repr

structure FSt where
  lpc : LPc
  spc : SPc
  /-- `w.done` is closed -/
  closed : Bool
  /-- the channel returned by the last `clock.After` holds a value -/
  ready : Bool
  deriving DecidableEq, Repr

/-- Who moves.  `loop b`: the loop goroutine executes its next own statement; `b` resolves
the nondeterminism of that statement, if it has any: at `afterCall`, whether the channel that
`After` returns is ready at once; at `select` with both `done` and the timer ready, Go's
random choice (`true` = timer).  The other actions are the environment: the timer delivers, a
callback returns, somebody calls `Shutdown`. -/
inductive Act where
  | loop (b : Bool)
  | shut
  | callShutdown
  | tick
  | untilRet (d : Nat)
  | newRet (c : Caller)
  | refreshRet (c : Caller) (e : Nat)
  | handleRet
  deriving DecidableEq, Repr

inductive FEv where
  | untilCall
  | untilRet (d : Nat)
  | after (d : Nat) (imm : Bool)
  /-- the pending timer delivers -/
  | fire
  /-- outer select took the timer case -/
  | selTimer
  /-- outer select took `<-w.done`: the loop returns -/
  | selDone
  /-- inner select: `done` not ready, `default` taken -/
  | recheckOpen
  /-- inner select took `<-w.done`: the loop returns -/
  | recheckClosed
  | newCall (c : Caller)
  | newRet (c : Caller)
  | refreshCall (c : Caller) (ctx : Ctx)
  | refreshRet (c : Caller) (e : Nat)
  | handleCall (e : Nat)
  | handleRet
  | shutCall
  | closeDone
  /-- `Shutdown` returns: `0` = nil, else the final refresh's error `e`, wrapped -/
  | shutRet (e : Nat)
  deriving DecidableEq, Repr

/-- One step.  An action that is not enabled in the state (a goroutine that is blocked or
gone, a return without a call in flight, a tick without a pending timer) changes nothing. -/
def fstep (ros : Bool) (s : FSt) : Act → FSt × Option FEv
  | .loop b =>
    match s.lpc with
    | .untilCall => ({ s with lpc := .inUntil }, some .untilCall)
    | .afterCall d => ({ s with lpc := .select, ready := b }, some (.after d b))
    | .select =>
      match selectDoneTimer s.closed s.ready b with
      | .done => ({ s with lpc := .exited }, some .selDone)
      | .timer => ({ s with lpc := .recheck, ready := false }, some .selTimer)
      | .block => (s, none)
    | .recheck =>
      if s.closed then ({ s with lpc := .exited }, some .recheckClosed)
      else ({ s with lpc := .newCall }, some .recheckOpen)
    | .newCall => ({ s with lpc := .inNew }, some (.newCall .loop))
    | .refreshCall => ({ s with lpc := .inRefresh }, some (.refreshCall .loop (.cons .start)))
    | .gotErr e =>
      if e ≠ 0 then ({ s with lpc := .inHandle }, some (.handleCall e))
      else ({ s with lpc := .untilCall }, none)
    | .inUntil => (s, none)
    | .inNew => (s, none)
    | .inRefresh => (s, none)
    | .inHandle => (s, none)
    | .exited => (s, none)
  | .shut =>
    match s.spc with
    | .closeDone => ({ s with spc := .branch, closed := true }, some .closeDone)
    | .branch =>
      if ros then ({ s with spc := .newCall }, none)
      else ({ s with spc := .returned 0 }, some (.shutRet 0))
    | .newCall => ({ s with spc := .inNew }, some (.newCall .shutdown))
    | .refreshCall => ({ s with spc := .inRefresh }, some (.refreshCall .shutdown (.cons .shutdown)))
    | .gotErr e => ({ s with spc := .returned e }, some (.shutRet e))
    | .idle => (s, none)
    | .inNew => (s, none)
    | .inRefresh => (s, none)
    | .returned _ => (s, none)
  | .callShutdown =>
    match s.spc with
    | .idle => ({ s with spc := .closeDone }, some .shutCall)
    | _ => (s, none)
  | .tick =>
    match s.lpc with
    | .select => if s.ready then (s, none) else ({ s with ready := true }, some .fire)
    | _ => (s, none)
  | .untilRet d =>
    match s.lpc with
    | .inUntil => ({ s with lpc := .afterCall d }, some (.untilRet d))
    | _ => (s, none)
  | .newRet .loop =>
    match s.lpc with
    | .inNew => ({ s with lpc := .refreshCall }, some (.newRet .loop))
    | _ => (s, none)
  | .newRet .shutdown =>
    match s.spc with
    | .inNew => ({ s with spc := .refreshCall }, some (.newRet .shutdown))
    | _ => (s, none)
  | .refreshRet .loop e =>
    match s.lpc with
    | .inRefresh => ({ s with lpc := .gotErr e }, some (.refreshRet .loop e))
    | _ => (s, none)
  | .refreshRet .shutdown e =>
    match s.spc with
    | .inRefresh => ({ s with spc := .gotErr e }, some (.refreshRet .shutdown e))
    | _ => (s, none)
  | .handleRet =>
    match s.lpc with
    | .inHandle => ({ s with lpc := .untilCall }, some .handleRet)
    | _ => (s, none)

/-- `Start` has been called: the loop goroutine is about to consult the schedule. -/
def finit : FSt := { lpc := .untilCall, spc := .idle, closed := false, ready := false }

/-- the state after a sequence of actions -/
def frun (ros : Bool) : FSt → List Act → FSt
  | s, [] => s
  | s, a :: as => frun ros (fstep ros s a).1 as

/-- the events of a sequence of actions, in order -/
def ftrace (ros : Bool) : FSt → List Act → List FEv
  | _, [] => []
  | s, a :: as => (fstep ros s a).2.toList ++ ftrace ros (fstep ros s a).1 as

/-! ## Step order, for the comparison with the regenerated event graphs -/

open GolibsVerif.Skel in
/-- the labels of the event graphs (`Go/Skel.lean`) an event of the model stands for.  The
channel / value descriptions are the translator's name-free ones: `recv.<chan unit>` is the
worker's only channel field (`done`), `After()` the channel returned by `w.clock.After`. -/
def evLbls : FEv → List Lbl
  | .untilCall => [.call "UntilNext"]
  | .after _ _ => [.call "After"]
  | .selTimer => [.select, .caseRecv "After()"]
  | .selDone => [.select, .caseRecv "recv.<chan unit>"]
  | .recheckOpen => [.select, .caseDefault]
  | .recheckClosed => [.select, .caseRecv "recv.<chan unit>"]
  | .newCall _ => [.call "New"]
  | .refreshCall _ _ => [.call "Refresh"]
  /- the loop's `if err != nil`; `Shutdown`'s own test of the final error decides between two
  `return`s only and is not a state of the graph -/
  | .refreshRet .loop e => [.cond "Refresh() == nil" (e == 0)]
  | .handleCall _ => [.call "Handle"]
  | .closeDone => [.close "recv.<chan unit>"]
  | _ => []

open GolibsVerif.Skel in
/-- labels of the graphs the fine model has no event for: the clock reading passed to
`UntilNext`, `go`, the registration of deferred calls (`RecoverAndLogDefault`, `cancel`), frame
brackets, residual conditions (the walk is directed by the next event), the final `return` -/
def silentLbl : Lbl → Bool
  | .call "Now" => true
  | .goFunc | .frame | .endFunc | .deferCall _ | .cond _ _ | .ret _ => true
  | _ => false

open GolibsVerif.Skel in
/-- every label of the graph is silent or in the model's alphabet -/
def alphabetCovers (g : Graph) : Bool :=
  g.all fun es => es.all fun e =>
    silentLbl e.1 ||
      [Lbl.call "UntilNext", .call "After", .select, .caseRecv "After()", .caseRecv "recv.<chan unit>",
        .caseDefault, .call "New", .call "Refresh", .call "Handle", .close "recv.<chan unit>"].contains e.1

/-- One full iteration of the loop goroutine with a failing refresh, no `Shutdown`: from the
schedule consultation before the loop to the one at the end of the iteration. -/
def loopIterationActs : List Act :=
  [.loop false, .untilRet 5, .loop true, .loop true, .loop false, .loop false, .newRet .loop,
   .loop false, .refreshRet .loop 1, .loop false, .handleRet, .loop false]

/-- the same with a successful refresh (no `Handle`) -/
def loopIterationOkActs : List Act :=
  [.loop false, .untilRet 5, .loop true, .loop true, .loop false, .loop false, .newRet .loop,
   .loop false, .refreshRet .loop 0, .loop false, .loop false]

/-- `done` closed while the loop is blocked in the outer select -/
def loopExitOuterActs : List Act :=
  [.loop false, .untilRet 5, .loop false, .callShutdown, .shut, .loop false]

/-- `done` closed between the outer select taking the timer and the re-check -/
def loopExitRecheckActs : List Act :=
  [.loop false, .untilRet 5, .loop true, .loop true, .callShutdown, .shut, .loop false]

/-- a `Shutdown` with `RefreshOnShutdown` whose final refresh fails -/
def shutdownActs : List Act :=
  [.callShutdown, .shut, .shut, .shut, .newRet .shutdown, .shut, .refreshRet .shutdown 3, .shut]

/-! ## Scripted executor (line protocol `C18.fine`) -/

inductive Cmd where
  /-- the pending timer delivers -/
  | tick
  /-- the loop's `UntilNext` returns `d`; with `imm` the channel of the `After` call that
  follows is ready at once -/
  | untL (d : Nat) (imm : Bool)
  /-- the loop's `contextCons.New` returns -/
  | newL
  /-- the loop's `Refresh` returns error code `e` -/
  | refL (e : Nat)
  /-- the loop's `errHdlr.Handle` returns -/
  | hdlL
  /-- `Shutdown` is called on another goroutine -/
  | shut
  /-- the final refresh's `contextCons.New` returns -/
  | newF
  /-- the final `Refresh` returns `e` -/
  | refF (e : Nat)
  deriving DecidableEq, Repr

def Cmd.act : Cmd → Act
  | .tick => .tick
  | .untL d _ => .untilRet d
  | .newL => .newRet .loop
  | .refL e => .refreshRet .loop e
  | .hdlL => .handleRet
  | .shut => .callShutdown
  | .newF => .newRet .shutdown
  | .refF e => .refreshRet .shutdown e

def Cmd.imm : Cmd → Bool
  | .untL _ i => i
  | _ => false

/-- the goroutine can make a step of its own -/
def loopRunnable (s : FSt) : Bool :=
  match s.lpc with
  | .inUntil | .inNew | .inRefresh | .inHandle | .exited => false
  | .select => s.closed || s.ready
  | _ => true

def shutRunnable (s : FSt) : Bool :=
  match s.spc with
  | .idle | .inNew | .inRefresh | .returned _ => false
  | _ => true

/-- run the Shutdown goroutine until it is blocked in a callback or has returned; the acts
taken are returned (newest last) -/
def settleShut (ros : Bool) : Nat → FSt → List Act
  | 0, _ => []
  | n + 1, s => if shutRunnable s then .shut :: settleShut ros n (fstep ros s .shut).1 else []

/-- run the loop goroutine until it is blocked in a callback, blocked in the select, or gone -/
def settleLoop (ros : Bool) (b : Bool) : Nat → FSt → List Act
  | 0, _ => []
  | n + 1, s => if loopRunnable s then .loop b :: settleLoop ros b n (fstep ros s (.loop b)).1 else []

/-- the actions one script command stands for, in a state -/
def cmdActs (ros : Bool) (s : FSt) (c : Cmd) : List Act :=
  let a1 := [c.act]
  let s1 := frun ros s a1
  let a2 := settleShut ros 8 s1
  let s2 := frun ros s1 a2
  a1 ++ a2 ++ settleLoop ros c.imm 8 s2

/-- what is released at the end of a script, so that everything in flight completes: the
loop's callbacks first (a `nil` refresh, schedule answer `1`, timer not ready), then those of
the final refresh -/
def drainCmd (s : FSt) : Option Cmd :=
  match s.lpc with
  | .inUntil => some (.untL 1 false)
  | .inNew => some .newL
  | .inRefresh => some (.refL 0)
  | .inHandle => some .hdlL
  | _ =>
    match s.spc with
    | .inNew => some .newF
    | .inRefresh => some (.refF 0)
    | _ => none

def drainActs (ros : Bool) : Nat → FSt → List Act
  | 0, _ => []
  | n + 1, s =>
    match drainCmd s with
    | none => []
    | some c => cmdActs ros s c ++ drainActs ros n (frun ros s (cmdActs ros s c))

/-- groups of actions of a script: `Start`, one group per command, the final drain -/
def scriptGroups (ros : Bool) : FSt → List Cmd → List (List Act)
  | s, [] => [drainActs ros 16 s]
  | s, c :: cs => cmdActs ros s c :: scriptGroups ros (frun ros s (cmdActs ros s c)) cs

def startActs (ros : Bool) : List Act := settleLoop ros false 8 finit

/-- all actions of a script, in order: this is one execution of the transition system -/
def scriptActs (ros : Bool) (cs : List Cmd) : List Act :=
  startActs ros ++ (scriptGroups ros (frun ros finit (startActs ros)) cs).flatten

/-- the events of every group -/
def groupTraces (ros : Bool) : FSt → List (List Act) → List (List FEv)
  | _, [] => []
  | s, g :: gs => ftrace ros s g :: groupTraces ros (frun ros s g) gs

def runScript (ros : Bool) (cs : List Cmd) : List (List FEv) :=
  groupTraces ros finit (startActs ros :: scriptGroups ros (frun ros finit (startActs ros)) cs)

end GolibsVerif.C18.Fine
