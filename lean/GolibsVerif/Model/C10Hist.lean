/-
C10 — an executable acceptor for recorded histories (`C10.hist` case lines: small histories
recorded from free-running goroutines on the real cache).

`checkCert c h cert` checks a *certificate* — a linearization written out as a list of
operations (each with "stored or refused" for a `Set`) and losses — against every clause of
`Linearizable` (`Spec/C10.lean`), running the sequential specification on an association list.
`search` looks for a certificate exhaustively (all orders compatible with the real-time order,
pending calls taken or left out, losses exactly where an observation needs them);
`acceptHist` = search, then check.  Only `checkCert` is trusted by the soundness theorem
`acceptHist_sound` (`Theorems/C10.lean`): accepted ⇒ `Linearizable`.
-/
import GolibsVerif.Spec.C10

namespace GolibsVerif.C10
open GolibsVerif.C09

/-- the register as an association list with unique keys -/
abbrev AReg := List (Bytes × Bytes)

inductive CertStep where
  | drop (k : Bytes)                      -- the entry of `k` is lost
  | op (x : LinOp) (stored : Bool)        -- call `x`; for a `Set`: did it store (or refuse)
  deriving Repr, DecidableEq

/-- one operation on the association list; `none` = the recorded result is impossible here -/
def applyOp (c : Conf) (m : AReg) (x : LinOp) (stored : Bool) : Option AReg :=
  match x.op, x.res with
  | .set k v, .set b =>
    if stored then
      if b = (aLookup m k).isSome then some (aRemove m k ++ [(k, v)]) else none
    else if b = false then some m else none
  | .get k, .get r => if r = aLookup m k then some m else none
  | .del k, .del => some (aRemove m k)
  | .clear, .clear => some []
  | .stats, .stats st =>
    if st.count = m.length ∧ st.size = aSize m ∧ st.count ≤ c.maxCount ∧ st.size ≤ c.maxSize
    then some m else none
  | _, _ => none

def runCert (c : Conf) : AReg → List CertStep → Option AReg
  | m, [] => some m
  | m, .drop k :: rest => runCert c (aRemove m k) rest
  | m, .op x st :: rest =>
    match applyOp c m x st with
    | some m' => runCert c m' rest
    | none => none

/-- the linearization a certificate stands for -/
def linOf : List CertStep → List LinOp
  | [] => []
  | .drop _ :: rest => linOf rest
  | .op x _ :: rest => x :: linOf rest

/-- all pairs `(a, b)` such that `a` returned before `b` was invoked -/
def rtPairs : History → List (Nat × Nat)
  | [] => []
  | .ret a _ :: rest =>
    (rest.filterMap fun e => match e with | .inv b _ => some (a, b) | _ => none) ++ rtPairs rest
  | .inv .. :: rest => rtPairs rest

/-- `b` occurs after the first occurrence of `a` -/
def beforeB : List Nat → Nat → Nat → Bool
  | [], _, _ => false
  | x :: rest, a, b => if x = a then rest.contains b else beforeB rest a b

def retOk (x : LinOp) : HEv → Bool
  | .ret id r => id != x.id || r == x.res
  | .inv .. => true

def retIn (is : List Nat) : HEv → Bool
  | .ret id _ => is.contains id
  | .inv .. => true

/-- every clause of `Linearizable`, decided -/
def checkCert (c : Conf) (h : History) (cert : List CertStep) : Bool :=
  let lin := linOf cert
  let is : List Nat := lin.map (·.id)
  decide is.Nodup &&
  lin.all (fun x => h.contains (.inv x.id x.op) && h.all (retOk x)) &&
  h.all (retIn is) &&
  (rtPairs h).all (fun p => !is.contains p.2 || beforeB is p.1 p.2) &&
  (runCert c [] cert).isSome

/-! ### the search -/

/-- a call of the history: `res = none` for a pending call -/
structure PCall where
  id : Nat
  op : Call
  res : Option Res
  deriving Repr, DecidableEq

def resultOf (h : History) (id : Nat) : Option Res :=
  h.findSome? fun e => match e with
    | .ret id' r => if id' = id then some r else none
    | .inv .. => none

/-- the calls worth linearizing: all completed ones, and the pending ones with an effect -/
def callsOf (h : History) : List PCall :=
  h.filterMap fun e => match e with
    | .inv id op =>
      match resultOf h id, op with
      | some r, _ => some ⟨id, op, some r⟩
      | none, .set .. => some ⟨id, op, none⟩
      | none, .del _ => some ⟨id, op, none⟩
      | none, .clear => some ⟨id, op, none⟩
      | none, _ => none
    | .ret .. => none

def sublistsOf {α : Type} : List α → List (List α)
  | [] => [[]]
  | a :: rest => (sublistsOf rest).map (a :: ·) ++ sublistsOf rest

/-- the ways to take call `x` at register `m`: the losses needed first, then the operation, and
the register after -/
def ways (c : Conf) (m : AReg) (x : PCall) : List (List CertStep × AReg) :=
  let go (pre : List CertStep) (m0 : AReg) (r : Res) (stored : Bool) : List (List CertStep × AReg) :=
    match applyOp c m0 ⟨x.id, x.op, r⟩ stored with
    | some m1 => [(pre ++ [.op ⟨x.id, x.op, r⟩ stored], m1)]
    | none => []
  match x.op, x.res with
  | .set _ _, some (.set true) => go [] m (.set true) true
  | .set k _, some (.set false) =>
    (if (aLookup m k).isSome then go [.drop k] (aRemove m k) (.set false) true
     else go [] m (.set false) true) ++ go [] m (.set false) false
  | .set k _, none => go [] m (.set (aLookup m k).isSome) true
  | .get k, some (.get r) =>
    if r = aLookup m k then go [] m (.get r) false
    else if r = none then go [.drop k] (aRemove m k) (.get none) false else []
  | .del _, _ => go [] m .del false
  | .clear, _ => go [] m .clear false
  | .stats, some (.stats st) =>
    -- choose which entries are still there
    ((sublistsOf m).filter fun keep => keep.length = st.count ∧ aSize keep = st.size).flatMap fun keep =>
      let lost := (m.filter fun p => !keep.contains p).map (·.1)
      go (lost.map .drop) (lost.foldl aRemove m) (.stats st) false
  | _, _ => []

/-- may `x` come next: everything that returned before its invocation has been taken -/
def ready (rt : List (Nat × Nat)) (todo : List PCall) (x : PCall) : Bool :=
  rt.all fun p => p.2 != x.id || !(todo.any fun y => y.id == p.1)

def search (c : Conf) (rt : List (Nat × Nat)) : Nat → List PCall → AReg → Option (List CertStep)
  | 0, _, _ => none
  | fuel + 1, todo, m =>
    if todo.all (fun x => x.res.isNone) then some []
    else
      (todo.filter (ready rt todo)).findSome? fun x =>
        (ways c m x).findSome? fun w =>
          (search c rt fuel (todo.filter fun y => y.id != x.id) w.2).map fun rest => w.1 ++ rest

/-- the acceptor: look for a certificate, then check it -/
def acceptHist (c : Conf) (h : History) : Bool :=
  let calls := callsOf h
  match search c (rtPairs h) (calls.length + 1) calls [] with
  | some cert => checkCert c h cert
  | none => false

end GolibsVerif.C10
