/-
C16 — executable model of `urlutil.RedactUserinfo` and `urlutil.RedactUserinfoInURLError`
(`/repo/netutil/urlutil/urlutil.go`).

```go
var redactedUserinfo = url.UserPassword("xxxxx", "xxxxx")

func RedactUserinfo(u *url.URL) (redacted *url.URL) {
	if u.User == nil {
		return u
	}
	ru := *u
	ru.User = redactedUserinfo
	return &ru
}

func RedactUserinfoInURLError(u *url.URL, err error) {
	if err == nil {
		return
	}
	errURL, ok := err.(*url.Error)
	if !ok {
		return
	}
	if u.User == nil {
		return
	}
	errURL.URL = RedactUserinfo(u).String()
}
```

* A `url.URL` value is `{user, rest}`: `rest` carries every field of `url.URL` other than
  `User` (the harness checks by reflection that these are exactly the fields of the Go
  struct).  `User *Userinfo` is modelled as `Option Userinfo` (`none` = nil pointer): a
  `url.Userinfo` is immutable, so sharing one between URLs is unobservable.
* `*url.URL` pointers are addresses into a heap of URL values, so that "returned as is"
  (same pointer), "the input is never modified" and "a fresh copy is returned" are
  statements of the model.  The shallow struct copy `ru := *u` is a copy of the value: all
  fields but `User` are strings and bools (immutable values in Go).
* `(*url.URL).String` is a parameter `render : Option Userinfo → Rest → Bytes` (contract
  URL-ID: `String()` is a function of the fields and nothing else); nothing is assumed of it.
* The mask comes from the regenerated `Gen/C16.lean` (read from the source by `gen/c16.go`).
* `RedactUserinfoInURLError` returns nothing and acts by mutating the `*url.Error` it finds;
  the model returns the state of the error value after the call.  NB the Go function does
  not parse the error's URL text: it takes the already parsed `u` from its caller and
  overwrites the text with `String()` of the redacted `u` whatever the old text was.
-/
import GolibsVerif.Go.Basic
import GolibsVerif.Gen.C16

namespace GolibsVerif.C16

/-- `url.Userinfo` (`username`, `password`, `passwordSet`). -/
structure Userinfo where
  username : Bytes
  password : Bytes
  passwordSet : Bool
  deriving Repr, DecidableEq

/-- Every field of `url.URL` except `User`. -/
structure Rest where
  scheme : Bytes
  opaqueStr : Bytes      -- `Opaque`
  host : Bytes
  path : Bytes
  rawPath : Bytes
  omitHost : Bool
  forceQuery : Bool
  rawQuery : Bytes
  fragment : Bytes
  rawFragment : Bytes
  deriving Repr, DecidableEq

/-- A `url.URL` value. -/
structure URL where
  user : Option Userinfo
  rest : Rest
  deriving Repr, DecidableEq

/-- `var redactedUserinfo = url.UserPassword(…)`, regenerated from the source. -/
def redactedUserinfo : Userinfo :=
  { username := Gen.C16.redactedUsername
    password := Gen.C16.redactedPassword
    passwordSet := Gen.C16.redactedPasswordSet }

/-! ### Heap of `url.URL` values -/

/-- A `*url.URL`: `none` is the nil pointer, `some a` the address of cell `a`.  An address
outside the heap cannot arise in Go; the model treats it like nil. -/
abbrev Ptr := Option Nat

structure Heap where
  cells : List URL
  deriving Repr, DecidableEq

/-- `*p` (panics on nil). -/
def Heap.get (h : Heap) : Ptr → GoM URL
  | none => .error .nilDeref
  | some a =>
    match h.cells[a]? with
    | some u => .ok u
    | none => .error .nilDeref

/-- `&v` for a local `v` that escapes: a new cell; existing cells are not touched. -/
def Heap.alloc (h : Heap) (u : URL) : Heap × Ptr :=
  ({ cells := h.cells ++ [u] }, some h.cells.length)

/-- `*p = v` — also any assignment to fields through `p`, which leaves a cell with some other
value; panics on nil.  Only the cell `p` points to changes. -/
def Heap.set (h : Heap) : Ptr → URL → GoM Heap
  | none, _ => .error .nilDeref
  | some a, v =>
    if a < h.cells.length then .ok { cells := h.cells.set a v } else .error .nilDeref

/-- What the callers may do to the heap between two calls: store through a pointer, or make
a new `url.URL`. -/
inductive Mut where
  | store (p : Ptr) (v : URL)
  | new (v : URL)
  deriving Repr, DecidableEq

/-- A sequence of such steps (fails if a store goes through nil). -/
def Heap.apply (h : Heap) : List Mut → GoM Heap
  | [] => .ok h
  | .store p v :: rest =>
    match h.set p v with
    | .ok h' => h'.apply rest
    | .error e => .error e
  | .new v :: rest => (h.alloc v).1.apply rest

/-! ### `RedactUserinfo` -/

/-- `RedactUserinfo(u)`: the new heap and the returned pointer. -/
def redact (h : Heap) (p : Ptr) : GoM (Heap × Ptr) := do
  let u ← h.get p                       -- `u.User` dereferences u
  match u.user with
  | none => pure (h, p)                 -- if u.User == nil { return u }
  | some _ =>
    let ru : URL := u                   -- ru := *u
    let ru := { ru with user := some redactedUserinfo }   -- ru.User = redactedUserinfo
    pure (h.alloc ru)                   -- return &ru

/-- The value-level reading of `RedactUserinfo`: what the returned pointer points to. -/
def redactVal (u : URL) : URL :=
  match u.user with
  | none => u
  | some _ => { u with user := some redactedUserinfo }

/-! ### `RedactUserinfoInURLError` -/

/-- The fields of a `url.Error`; the wrapped `Err error` is an opaque identity. -/
structure URLError where
  op : Bytes
  url : Bytes
  err : Nat
  deriving Repr, DecidableEq

/-- The `err error` argument, by dynamic type. -/
inductive Err where
  | nil                                      -- nil interface
  | urlError (e : URLError)                  -- a non-nil `*url.Error` at top level
  | urlErrorNilPtr                           -- `(*url.Error)(nil)` stored in the interface
  | wrapped (wrapper : Nat) (e : URLError)   -- any other type that wraps a `*url.Error`
  | other (code : Nat)                       -- any other error
  deriving Repr, DecidableEq

/-- `RedactUserinfoInURLError(u, err)`: the heap and the state of `err` after the call. -/
def redactInURLError (render : Option Userinfo → Rest → Bytes) (h : Heap) (p : Ptr) (e : Err) :
    GoM (Heap × Err) :=
  match e with
  | .nil => pure (h, e)                      -- if err == nil { return }
  | .wrapped .. => pure (h, e)               -- errURL, ok := err.(*url.Error); if !ok { return }
  | .other .. => pure (h, e)
  | .urlError ue => do
    let u ← h.get p                          -- u.User
    match u.user with
    | none => pure (h, e)                    -- if u.User == nil { return }
    | some _ =>
      let (h', q) ← redact h p               -- RedactUserinfo(u)
      let r ← h'.get q                       -- .String()
      pure (h', .urlError { ue with url := render r.user r.rest })   -- errURL.URL = …
  | .urlErrorNilPtr => do
    -- the type assertion succeeds with a nil pointer
    let u ← h.get p
    match u.user with
    | none => pure (h, e)
    | some _ =>
      let (h', q) ← redact h p
      let _ ← h'.get q
      .error .nilDeref                       -- errURL.URL = … with errURL == nil

end GolibsVerif.C16
