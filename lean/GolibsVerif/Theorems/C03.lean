/-
C03 — property theorems: `ValidateHostname`, `ValidateDomainName`, `ValidateSRVDomainName`
implement the documented grammar (`Spec/C03.lean`) for every string and every behaviour of
`idna.ToASCII`; inclusion chain; every rejection is an `*AddrError` carrying the original
input; no validator panics.
-/
import GolibsVerif.Lemmas.C03
import GolibsVerif.Lemmas.Strings

namespace GolibsVerif.C03
open GolibsVerif.Netutil GolibsVerif.Str GolibsVerif.Gen.Consts GolibsVerif

/-- The constants regenerated from `/repo/netutil` are the documented RFC limits; an edit
of any of them breaks this obligation. -/
theorem consts_documented :
    MaxDomainLabelLen = 63 ∧ MaxDomainNameLen = 253 ∧ MaxServiceLabelLen = 16 := ⟨rfl, rfl, rfl⟩

/-- generic characterisation of the three name validators -/
theorem validateName_spec (kind : Kind) {f P} (hf : LabelValidator f P)
    (toASCII : Bytes → Option Bytes) (s : Bytes) :
    (∃ r, validateName kind f toASCII s = .ok r) ∧
    (validateName kind f toASCII s = .ok none ↔ NameOK P toASCII s) ∧
    (∀ e, validateName kind f toASCII s = .ok (some e) → ∃ inner, e = .addr kind s (some inner)) := by
  unfold validateName NameOK
  cases ht : toASCII s with
  | none =>
    simp only [bind, Except.bind, pure, Except.pure]
    refine ⟨⟨_, rfl⟩, ?_, ?_⟩
    · constructor
      · intro h; cases h
      · rintro ⟨t, h, _⟩; cases h
    · intro e h; cases h; exact ⟨_, rfl⟩
  | some n =>
    simp only [bind, Except.bind, pure, Except.pure, maxName_eq]
    by_cases h0 : n = []
    · subst h0
      simp only [if_true]
      refine ⟨⟨_, rfl⟩, ?_, ?_⟩
      · constructor
        · intro h; cases h
        · rintro ⟨t, h, h1, _⟩; cases h; simp at h1
      · intro e h; cases h; exact ⟨_, rfl⟩
    · simp only [h0, if_false]
      by_cases hlen : n.length > 253
      · simp only [hlen, if_true]
        refine ⟨⟨_, rfl⟩, ?_, ?_⟩
        · constructor
          · intro h; cases h
          · rintro ⟨t, h, _, h2, _⟩; cases h; omega
        · intro e h; cases h; exact ⟨_, rfl⟩
      · simp only [hlen, if_false]
        obtain ⟨r, hr⟩ := validateLabels_total hf (splitOn 46 n)
        have hiff := validateLabels_none_iff hf (splitOn 46 n) (splitOn_ne_nil 46 n)
        rw [hr] at hiff ⊢
        have hpos : 1 ≤ n.length := List.length_pos_iff.2 h0
        cases r with
        | none =>
          refine ⟨⟨_, rfl⟩, ?_, ?_⟩
          · constructor
            · intro _; exact ⟨n, rfl, hpos, by omega, hiff.1 rfl⟩
            · intro _; rfl
          · intro e h; cases h
        | some e =>
          refine ⟨⟨_, rfl⟩, ?_, ?_⟩
          · constructor
            · intro h; cases h
            · rintro ⟨t, h, _, _, hl⟩
              cases h
              have := hiff.2 hl; cases this
          · intro e' h; cases h; exact ⟨_, rfl⟩

/-- `ValidateHostname(s) = nil` ⇔ `idna.ToASCII(s)` succeeds with 1..253 bytes whose labels are
hostname labels and whose last label has a non-digit. -/
theorem validateHostname_iff (toASCII : Bytes → Option Bytes) (s : Bytes) :
    validateHostname toASCII s = .ok none ↔ HostnameOK toASCII s :=
  (validateName_spec .name hostValidator toASCII s).2.1

/-- `ValidateDomainName` relaxes non-final labels to any 1..63 bytes. -/
theorem validateDomainName_iff (toASCII : Bytes → Option Bytes) (s : Bytes) :
    validateDomainName toASCII s = .ok none ↔ DomainNameOK toASCII s :=
  (validateName_spec .domainName domainValidator toASCII s).2.1

/-- `ValidateSRVDomainName` additionally admits non-final `'_'`+hostname-label of ≤ 16 bytes. -/
theorem validateSRVDomainName_iff (toASCII : Bytes → Option Bytes) (s : Bytes) :
    validateSRVDomainName toASCII s = .ok none ↔ SRVNameOK toASCII s :=
  (validateName_spec .srvName srvValidator toASCII s).2.1

/-- No validator panics, on any input and for any `idna.ToASCII` (C01 for these functions;
in particular `replaceKind`'s `default: panic` branch is unreachable). -/
theorem validators_total (toASCII : Bytes → Option Bytes) (s : Bytes) :
    (∃ r, validateHostname toASCII s = .ok r) ∧ (∃ r, validateDomainName toASCII s = .ok r) ∧
    (∃ r, validateSRVDomainName toASCII s = .ok r) :=
  ⟨(validateName_spec .name hostValidator toASCII s).1,
   (validateName_spec .domainName domainValidator toASCII s).1,
   (validateName_spec .srvName srvValidator toASCII s).1⟩

theorem label_validators_total (l : Bytes) :
    (∃ r, validateHostnameLabel l = .ok r) ∧ (∃ r, validateTLDLabel l = .ok r) ∧
    (∃ r, validateServiceNameLabel l = .ok r) :=
  ⟨vhl_total l, vtld_total l, vsrv_total l⟩

/-- Every rejection is an `*AddrError` whose `Addr` is the original input (not the
`ToASCII` form) and whose kind is the validator's own. -/
theorem reject_is_addrError (toASCII : Bytes → Option Bytes) (s : Bytes) (e : Err) :
    (validateHostname toASCII s = .ok (some e) → ∃ inner, e = .addr .name s (some inner)) ∧
    (validateDomainName toASCII s = .ok (some e) → ∃ inner, e = .addr .domainName s (some inner)) ∧
    (validateSRVDomainName toASCII s = .ok (some e) → ∃ inner, e = .addr .srvName s (some inner)) :=
  ⟨(validateName_spec .name hostValidator toASCII s).2.2 e,
   (validateName_spec .domainName domainValidator toASCII s).2.2 e,
   (validateName_spec .srvName srvValidator toASCII s).2.2 e⟩

theorem labelsOK_mono {P Q : Bytes → Prop} (h : ∀ l, P l → Q l) :
    ∀ ls, LabelsOK P ls → LabelsOK Q ls
  | [], hl => hl
  | [_], hl => hl
  | l :: l' :: rest, hl => ⟨h l hl.1, labelsOK_mono h (l' :: rest) hl.2⟩

/-- every hostname-valid name is SRV-valid -/
theorem host_sub_srv (toASCII : Bytes → Option Bytes) (s : Bytes)
    (h : validateHostname toASCII s = .ok none) : validateSRVDomainName toASCII s = .ok none := by
  rw [validateSRVDomainName_iff]
  obtain ⟨t, h1, h2, h3, h4⟩ := (validateHostname_iff toASCII s).1 h
  exact ⟨t, h1, h2, h3, labelsOK_mono (fun l hl => Or.inl hl) _ h4⟩

/-- every SRV-valid name is domain-name-valid -/
theorem srv_sub_domain (toASCII : Bytes → Option Bytes) (s : Bytes)
    (h : validateSRVDomainName toASCII s = .ok none) : validateDomainName toASCII s = .ok none := by
  rw [validateDomainName_iff]
  obtain ⟨t, h1, h2, h3, h4⟩ := (validateSRVDomainName_iff toASCII s).1 h
  refine ⟨t, h1, h2, h3, labelsOK_mono (fun l hl => ?_) _ h4⟩
  rcases hl with hl | ⟨hle, r, rfl, hr⟩
  · exact ⟨hl.len_pos, hl.len_le⟩
  · exact ⟨by simp, by omega⟩

/-- The `strings.Cut` loop of the Go code visits exactly the `'.'`-split pieces the model
folds over. -/
theorem cut_loop_is_split (s : Bytes) :
    splitOn 46 s = match cut 46 s with
      | (before, after, true) => before :: splitOn 46 after
      | (before, _, false) => [before] := splitOn_cut 46 s

/-! ### Non-vacuity -/

def idAscii : Bytes → Option Bytes := some

/-- accepted, as a Boolean (the error type has no decidable equality) -/
def accepted : GoM (Option Err) → Bool
  | .ok none => true
  | _ => false

theorem accepted_iff (r : GoM (Option Err)) : accepted r = true ↔ r = .ok none := by
  unfold accepted; split <;> simp_all

example : HostnameOK idAscii (ascii "a-1.example.org") :=
  (validateHostname_iff _ _).1 ((accepted_iff _).1 (by decide))
example : accepted (validateHostname idAscii (ascii "_svc.example.org")) = false := by decide
example : accepted (validateSRVDomainName idAscii (ascii "_svc.example.org")) = true := by decide
example : accepted (validateDomainName idAscii (ascii "a b.example.org")) = true := by decide
example : accepted (validateSRVDomainName idAscii (ascii "a b.example.org")) = false := by decide
example : accepted (validateHostname idAscii (ascii "example.123")) = false := by decide

end GolibsVerif.C03
