/-
Theorems about the model `Idna.process` / `Idna.toASCII` (`Go/Idna.lean`) of
`golang.org/x/net/idna.ToASCII` (raw `Punycode` profile), for EVERY behaviour of the two
punycode functions `enc` (= `encode("xn--", ·)`) and `dec` (= `decode`):

* `process_eq_spec` — the statement-by-statement model (label iterator in both of its modes,
  two loops, error accumulation) computes exactly the label-wise description `Spec/Idna.lean`;
  in particular (`process_total`) it never panics (`l.slice[l.i]`, `l.orig[a:b]`,
  `l.orig[i]` stay in range) and its loops end within their fuel;
* `idna1_model` — the contract IDNA-1 that `C04.decode_encode` / `C05.prefix_complete` assumed:
  an all-ASCII name none of whose labels starts with `xn--` (in any letter case) is returned
  unchanged, without error;  `idna1_model_strong` — the same for the weaker hypothesis the
  code really needs: no label starts with the LOWER-CASE `xn--` (`strings.HasPrefix` is
  case-sensitive, so `XN--…`, `Xn--…` labels are ordinary ASCII labels for `idna.ToASCII`);
* `hDot_model` — the contract `hDot` of `C05.prefix_sound` / `extract_*`: a leading dot is kept
  (`hDot_process`: also in the string Go returns together with an error);
  `hTrailingDot_model`: a trailing dot is kept as well.

What is NOT true of the real function (theorems `ace_label_not_fixed`, `ace_prefix_alone`,
`leading_dot_introduced`, all confirmed on the real code by the tie `std.idna`):
an ASCII label that does start with `xn--` need not be a fixed point even when there is no
error — `xn--abc-` becomes `abc`, the bare prefix `xn--` becomes the empty label — and
therefore the converse of `hDot` fails: `xn--.b` is mapped to `.b`.
-/
import GolibsVerif.Lemmas.Idna

namespace GolibsVerif.Idna
open GolibsVerif GolibsVerif.Str

/-! ### the model computes the label-wise description -/

theorem result_eq (l : LabelIter) : l.result = [46].intercalate (cur l) := by
  unfold LabelIter.result cur
  cases l.slice with
  | some sl => rfl
  | none => exact (join_splitOn 46 l.orig).symm

/-- `Punycode.process(s, true)`, modelled statement by statement, returns normally and returns
what the label-wise description says — for every string and all punycode functions. -/
theorem process_eq_spec (enc dec : Bytes → Option Bytes) (s : Bytes) :
    process enc dec s = .ok (spec enc dec s) := by
  cases s with
  | nil => simp [process, fuelFor, forLabels, LabelIter.done, LabelIter.reset, LabelIter.result, spec,
      labels1, splitOn, step1_nil, step2_nil, bind, Except.bind, pure, Except.pure]
  | cons b rest =>
    generalize hs : b :: rest = s
    have hpos : 0 < s.length := by rw [← hs]; simp
    have hN : 0 < (splitOn 46 s).length := List.length_pos_iff.2 (splitOn_ne_nil 46 s)
    have hfuel : (splitOn 46 s).length - 0 < fuelFor s := by
      have := length_splitOn_le 46 s
      unfold fuelFor; omega
    -- first loop
    have hwf0 : WF s ⟨s, none, 0, 0, 0⟩ 0 := by
      refine ⟨rfl, rfl, rfl, Or.inr ⟨?_, hN, fun _ => ⟨0, rfl, by simp⟩⟩⟩
      simp [LabelIter.done]; exact fun h => by simp [h] at hpos
    obtain ⟨l1, h1, hcur1, ho1, hlen1⟩ :=
      forLabels_spec s (body1 dec) (step1 dec) (step1_nil dec) (fun l e k x => body1_spec dec s l e k x)
        (fuelFor s) _ false 0 hwf0 hfuel
    have hc0 : cur (⟨s, none, 0, 0, 0⟩ : LabelIter) = splitOn 46 s := rfl
    rw [hc0] at h1 hcur1
    simp only [List.take_zero, List.drop_zero, List.nil_append, Bool.false_or] at h1 hcur1
    -- second loop
    have hcr : cur l1.reset = cur l1 := rfl
    have hwf1 : WF s l1.reset 0 := by
      refine ⟨ho1, rfl, by rw [hcr]; exact hlen1, Or.inr ⟨?_, hN, fun _ => ⟨0, rfl, by simp⟩⟩⟩
      simp [LabelIter.done, LabelIter.reset, ho1]; exact fun h => by simp [h] at hpos
    obtain ⟨l2, h2, hcur2, _, _⟩ :=
      forLabels_spec s (body2 enc) (step2 enc) (step2_nil enc) (fun l e k x => body2_spec enc s l e k x)
        (fuelFor s) l1.reset ((splitOn 46 s).any fun x => (step1 dec x).2) 0 hwf1 hfuel
    rw [hcr, hcur1] at h2 hcur2
    simp only [List.take_zero, List.drop_zero, List.nil_append] at h2 hcur2
    simp only [process, h1, h2, bind, Except.bind, pure, Except.pure, result_eq, hcur2]
    rfl

/-- No Go panic and no non-termination in `idna.ToASCII` (as modelled). -/
theorem process_total (enc dec : Bytes → Option Bytes) (s : Bytes) :
    ∃ r, process enc dec s = .ok r := ⟨_, process_eq_spec enc dec s⟩

/-- `idna.ToASCII` as the validators consume it. -/
theorem toASCII_eq_spec (enc dec : Bytes → Option Bytes) (s : Bytes) :
    toASCII enc dec s = if (spec enc dec s).2 then none else some (spec enc dec s).1 := by
  unfold toASCII
  rw [process_eq_spec]
  rcases spec enc dec s with ⟨t, _ | _⟩ <;> rfl

/-! ### IDNA-1 -/

theorem mem_of_mem_splitOn (c : Nat) (s : Bytes) : ∀ l ∈ splitOn c s, ∀ b ∈ l, b ∈ s := by
  induction s with
  | nil => intro l hl b hb; simp [splitOn] at hl; subst hl; cases hb
  | cons a rest ih =>
    intro l hl b hb
    rw [splitOn] at hl
    by_cases h : a = c
    · simp only [h, if_true, List.mem_cons] at hl
      rcases hl with rfl | hl
      · cases hb
      · exact List.mem_cons_of_mem _ (ih l hl b hb)
    · simp only [h, if_false] at hl
      cases hsp : splitOn c rest with
      | nil => exact absurd hsp (splitOn_ne_nil c rest)
      | cons p ps =>
        rw [hsp] at hl ih
        simp only [List.mem_cons] at hl
        rcases hl with rfl | hl
        · simp only [List.mem_cons] at hb
          rcases hb with rfl | hb
          · simp
          · exact List.mem_cons_of_mem _ (ih p (by simp) b hb)
        · exact List.mem_cons_of_mem _ (ih l (by simp [hl]) b hb)

/-- IDNA-1 with the hypothesis the code needs: an all-ASCII name none of whose labels starts
with the lower-case ACE prefix `xn--` is returned unchanged, and without error. -/
theorem idna1_model_strong (enc dec : Bytes → Option Bytes) (s : Bytes)
    (hascii : ∀ b ∈ s, b < 128) (hxn : ∀ l ∈ splitOn 46 s, ¬ acePrefix <+: l) :
    toASCII enc dec s = some s := by
  have h1 : ∀ l ∈ splitOn 46 s, step1 dec l = (l, false) := by
    intro l hl
    have : hasPrefix l acePrefix = false := by
      cases hp : hasPrefix l acePrefix with
      | false => rfl
      | true => exact absurd (List.isPrefixOf_iff_prefix.1 hp) (hxn l hl)
    simp [step1, this]
  have h2 : ∀ l ∈ splitOn 46 s, step2 enc l = (l, false) := by
    intro l hl
    have : isAscii l = true := by
      simp only [isAscii, List.all_eq_true, decide_eq_true_eq]
      exact fun b hb => hascii b (mem_of_mem_splitOn 46 s l hl b hb)
    simp [step2, this]
  have hl1 : labels1 dec s = splitOn 46 s := by
    unfold labels1
    conv => rhs; rw [← List.map_id (splitOn 46 s)]
    exact List.map_congr_left (fun l hl => by rw [h1 l hl]; rfl)
  have hl2 : (labels1 dec s).map (fun x => (step2 enc x).1) = splitOn 46 s := by
    rw [hl1]
    conv => rhs; rw [← List.map_id (splitOn 46 s)]
    exact List.map_congr_left (fun l hl => by rw [h2 l hl]; rfl)
  have he1 : (splitOn 46 s).any (fun x => (step1 dec x).2) = false := by
    rw [List.any_eq_false]; intro l hl; rw [h1 l hl]; simp
  have he2 : (labels1 dec s).any (fun x => (step2 enc x).2) = false := by
    rw [hl1, List.any_eq_false]; intro l hl; rw [h2 l hl]; simp
  rw [toASCII_eq_spec]
  simp [spec, hl2, he1, he2, join_splitOn]

theorem prefix_asciiLower (l : Bytes) (h : acePrefix <+: l) : acePrefix <+: asciiLower l := by
  obtain ⟨t, rfl⟩ := h
  exact ⟨asciiLower t, by simp [asciiLower, acePrefix, lowerByte]⟩

/-- IDNA-1, as `C04.decode_encode` and `C05.prefix_complete` assume it (`hT`; the second
hypothesis is `C04.NoXnLabel s` / `C05.NoXnLabel s` unfolded): an all-ASCII name without a label
that starts with `xn--` in any letter case is a fixed point of `idna.ToASCII`. -/
theorem idna1_model (enc dec : Bytes → Option Bytes) (s : Bytes)
    (hascii : ∀ b ∈ s, b < 128)
    (hxn : ∀ l ∈ splitOn 46 s, ¬ ([120, 110, 45, 45] <+: asciiLower l)) :
    toASCII enc dec s = some s :=
  idna1_model_strong enc dec s hascii (fun l hl hp => hxn l hl (prefix_asciiLower l hp))

/-! ### the leading dot -/

/-- `hDot`, as `C05.prefix_sound`, `C05.extract_*` assume it: when `idna.ToASCII` succeeds on
a name that starts with a dot, the result starts with a dot (the empty first label is neither
decoded nor encoded, and `strings.Join` puts the separator back). -/
theorem hDot_model (enc dec : Bytes → Option Bytes) (s t : Bytes)
    (h : toASCII enc dec s = some t) (hd : s.head? = some 46) : t.head? = some 46 := by
  rw [toASCII_eq_spec] at h
  cases s with
  | nil => simp at hd
  | cons b rest =>
    simp at hd; subst hd
    have hne := splitOn_ne_nil 46 rest
    cases hsp : splitOn 46 rest with
    | nil => exact absurd hsp hne
    | cons p ps =>
      have hsplit : splitOn 46 (46 :: rest) = [] :: p :: ps := by simp [splitOn, hsp]
      split at h
      · cases h
      · injection h with h
        subst h
        simp [spec, labels1, hsplit, step1_nil, step2_nil, List.intercalate_cons_cons]

/-- The same for the string Go returns together with an error: also the partially processed
name keeps the leading dot. -/
theorem hDot_process (enc dec : Bytes → Option Bytes) (s : Bytes) (hd : s.head? = some 46) :
    ∃ t e, process enc dec s = .ok (t, e) ∧ t.head? = some 46 := by
  refine ⟨_, _, process_eq_spec enc dec s, ?_⟩
  cases s with
  | nil => simp at hd
  | cons b rest =>
    simp at hd; subst hd
    cases hsp : splitOn 46 rest with
    | nil => exact absurd hsp (splitOn_ne_nil 46 rest)
    | cons p ps =>
      have hsplit : splitOn 46 (46 :: rest) = [] :: p :: ps := by simp [splitOn, hsp]
      simp [labels1, hsplit, step1_nil, step2_nil, List.intercalate_cons_cons]

/-! ### the trailing dot -/

theorem splitOn_snoc_sep (c : Nat) (s : Bytes) : splitOn c (s ++ [c]) = splitOn c s ++ [[]] := by
  induction s with
  | nil => simp [splitOn]
  | cons b rest ih =>
    by_cases h : b = c
    · simp [splitOn, h, ← ih]
    · cases hsp : splitOn c rest with
      | nil => exact absurd hsp (splitOn_ne_nil c rest)
      | cons p ps =>
        rw [hsp] at ih
        simp [splitOn, h, ih, hsp]

theorem intercalate_snoc_nil (c : Nat) (L : List Bytes) (h : L ≠ []) :
    [c].intercalate (L ++ [[]]) = [c].intercalate L ++ [c] := by
  induction L with
  | nil => exact absurd rfl h
  | cons x t ih =>
    cases t with
    | nil => simp [List.intercalate_cons_cons]
    | cons y t =>
      have := ih (by simp)
      simp only [List.cons_append] at this ⊢
      rw [List.intercalate_cons_cons, this, List.intercalate_cons_cons]
      simp

/-- A trailing dot (the root label) is kept as well: the last, empty label is skipped by the
iterator and `strings.Join` restores its separator. -/
theorem hTrailingDot_model (enc dec : Bytes → Option Bytes) (s t : Bytes)
    (h : toASCII enc dec s = some t) (hd : s.getLast? = some 46) : t.getLast? = some 46 := by
  rw [toASCII_eq_spec] at h
  obtain ⟨s', rfl⟩ := List.getLast?_eq_some_iff.1 hd
  split at h
  · cases h
  · injection h with h
    subst h
    have hne : (splitOn 46 s').map (fun x => (step2 enc (step1 dec x).1).1) ≠ [] := by
      simp [splitOn_ne_nil]
    have := intercalate_snoc_nil 46 _ hne
    simp only [spec, labels1, splitOn_snoc_sep, List.map_append, List.map_map, List.map_cons,
      List.map_nil, step1_nil, step2_nil, Function.comp_def] at this ⊢
    rw [this]
    simp

/-! ### what is not true of `idna.ToASCII` -/

/-- IDNA-1 cannot be extended to ASCII labels that start with `xn--`: a label whose punycode
part ends with a hyphen decodes to its ASCII part (`decode("abc-") = "abc"` in
`punycode.go`), and `idna.ToASCII("xn--abc-") = "abc"` with a nil error. -/
theorem ace_label_not_fixed (enc dec : Bytes → Option Bytes)
    (hdec : dec (ascii "abc-") = some (ascii "abc")) :
    toASCII enc dec (ascii "xn--abc-") = some (ascii "abc") := by
  rw [toASCII_eq_spec]
  have h1 : splitOn 46 (ascii "xn--abc-") = [ascii "xn--abc-"] := by decide
  have hs1 : step1 dec (ascii "xn--abc-") = (ascii "abc", false) := by
    have hp : hasPrefix (ascii "xn--abc-") acePrefix = true := by decide
    have hd : (ascii "xn--abc-").drop 4 = ascii "abc-" := by decide
    simp only [step1, hp, hd, hdec, if_true]
  have hs2 : step2 enc (ascii "abc") = (ascii "abc", false) := by
    have : isAscii (ascii "abc") = true := by decide
    simp only [step2, this, if_true]
  simp [spec, labels1, h1, hs1, hs2]

theorem step1_ace_alone (dec : Bytes → Option Bytes) (hdec : dec [] = some []) :
    step1 dec (ascii "xn--") = ([], false) := by
  have hp : hasPrefix (ascii "xn--") acePrefix = true := by decide
  have hd : (ascii "xn--").drop 4 = [] := by decide
  simp only [step1, hp, hd, hdec, if_true]

/-- `decode("") = ("", nil)`: the bare prefix is mapped to the empty label. -/
theorem ace_prefix_alone (enc dec : Bytes → Option Bytes) (hdec : dec [] = some []) :
    toASCII enc dec (ascii "xn--") = some [] := by
  rw [toASCII_eq_spec]
  have h1 : splitOn 46 (ascii "xn--") = [ascii "xn--"] := by decide
  simp [spec, labels1, h1, step1_ace_alone dec hdec, step2_nil]

/-- The converse of `hDot` is false: `idna.ToASCII("xn--.b") = ".b"` — a name that does not
start with a dot is mapped, without error, to one that does. -/
theorem leading_dot_introduced (enc dec : Bytes → Option Bytes) (hdec : dec [] = some []) :
    toASCII enc dec (ascii "xn--.b") = some (ascii ".b") := by
  rw [toASCII_eq_spec]
  have h1 : splitOn 46 (ascii "xn--.b") = [ascii "xn--", ascii "b"] := by decide
  have hb1 : step1 dec (ascii "b") = (ascii "b", false) := by
    have hp : hasPrefix (ascii "b") acePrefix = false := by decide
    simp [step1, hp]
  have hb2 : step2 enc (ascii "b") = (ascii "b", false) := by
    have : isAscii (ascii "b") = true := by decide
    simp only [step2, this, if_true]
  simp [spec, labels1, h1, step1_ace_alone dec hdec, step2_nil, hb1, hb2, List.intercalate_cons_cons]
  decide

/-! ### Non-vacuity -/

/-- an upper-case prefix is not an ACE prefix: instance of `idna1_model_strong` that
`idna1_model` does not cover -/
example (enc dec : Bytes → Option Bytes) :
    toASCII enc dec (ascii "XN--abc-.Xn--a") = some (ascii "XN--abc-.Xn--a") :=
  idna1_model_strong enc dec _ (by decide) (by decide)

example (enc dec : Bytes → Option Bytes) :
    toASCII enc dec (ascii "4.3.2.1.In-Addr.ARPA.") = some (ascii "4.3.2.1.In-Addr.ARPA.") :=
  idna1_model enc dec _ (by decide) (by decide)

/-- a non-ASCII label is encoded, the other labels and the dots stay -/
example : toASCII (fun _ => some (ascii "xn--tda")) (fun _ => none) (ascii ".a." ++ [0xc3, 0xbc] ++ ascii ".") =
    some (ascii ".a.xn--tda.") := by decide

/-- a failing `decode` is an error (and Go returns the name with the label kept) -/
example : process (fun _ => none) (fun _ => none) (ascii "a.xn---") = .ok (ascii "a.xn---", true) := by
  decide

end GolibsVerif.Idna
