/-
C13 — stringutil fold-search and split-trim agree with their reference definitions.

The theorems are about the executable model `Model/C13.lean` of the (repaired)
`stringutil.ContainsFold` and of `stringutil.SplitTrimmed`, against the reference
definitions of `Spec/C13.lean`.  `fold` stands for `unicode.SimpleFold`; the only thing
assumed about it is the named contract `Fold1` (FOLD-1).

FOLD-1 itself is a theorem (`fold1_model`) about `Unicode.simpleFold`, the statement-by-statement
model (`Go/Unicode.lean`) of Go's `unicode.SimpleFold` over the tables `asciiFold`, `caseOrbit`,
`CaseRanges` that `gen/unifold.go` reads from `$GOROOT/src/unicode/tables.go` of the toolchain
building /repo on every run; the model is compared with the real function on every rune on
every run (`C13.std.simplefold`).  The `…_unicode` theorems are the main theorems with
`fold := Unicode.simpleFold` and no hypothesis about folding left.
-/
import GolibsVerif.Lemmas.C13
import GolibsVerif.Lemmas.C13Fold
import GolibsVerif.Lemmas.UnicodeFold1
import GolibsVerif.Lemmas.UnicodeSearch

namespace GolibsVerif.C13

/-! ## ContainsFold -/

/-- **Full-strength statement.**  For valid UTF-8 operands free of U+FFFD, `ContainsFold(s, sub)`
returns (never panics), and it is true iff `s` has a substring of the same byte length as
`sub`, starting at a rune boundary (`i = len(s)` or `utf8.RuneStart(s[i])`), that equals
`sub` under simple case folding (`strings.EqualFold`). -/
theorem containsFold_iff {fold : Nat → Nat} (hf : Fold1 fold) (s sub : Bytes)
    (_hvs : validUtf8 s = true) (_hvsub : validUtf8 sub = true)
    (hs : noFFFD s = true) (hsub : noFFFD sub = true) :
    ∃ b, containsFold fold s sub = .ok b ∧
      (b = true ↔ ∃ i, boundary s i ∧ i + sub.length ≤ s.length ∧
        equalFold fold ((s.drop i).take sub.length) sub = true) :=
  containsFold_good hf (good_of_noFFFD hs) (good_of_noFFFD hsub)

/-- For ASCII operands, `ContainsFold(s, sub) = strings.Contains(ToLower(s), ToLower(sub))`:
the lower-cased needle is a contiguous sublist of the lower-cased haystack. -/
theorem containsFold_ascii {fold : Nat → Nat} (hf : Fold1 fold) (s sub : Bytes)
    (hs : ∀ b ∈ s, b < 128) (hsub : ∀ b ∈ sub, b < 128) :
    ∃ b, containsFold fold s sub = .ok b ∧
      (b = true ↔ sub.map lowerASCII <:+: s.map lowerASCII) := by
  obtain ⟨b, h1, h2⟩ := containsFold_good hf (good_ascii hs) (good_ascii hsub)
  exact ⟨b, h1, h2.trans (ref_ascii hf hs hsub)⟩

/-- The same with an explicit offset: some window `s[i : i+len(sub)]` equals `sub` after
ASCII lower-casing. -/
theorem containsFold_ascii_offset {fold : Nat → Nat} (hf : Fold1 fold) (s sub : Bytes)
    (hs : ∀ b ∈ s, b < 128) (hsub : ∀ b ∈ sub, b < 128) :
    ∃ b, containsFold fold s sub = .ok b ∧
      (b = true ↔ ∃ i, i + sub.length ≤ s.length ∧
        ((s.drop i).take sub.length).map lowerASCII = sub.map lowerASCII) := by
  obtain ⟨b, h1, h2⟩ := containsFold_good hf (good_ascii hs) (good_ascii hsub)
  refine ⟨b, h1, h2.trans ?_⟩
  constructor
  · rintro ⟨i, _, hl, he⟩
    exact ⟨i, hl, (equalFold_ascii hf (window_ascii hs _ _) hsub).mp he⟩
  · rintro ⟨i, hl, he⟩
    exact ⟨i, (boundary_ascii hs i).mpr (by omega), hl,
      (equalFold_ascii hf (window_ascii hs _ _) hsub).mpr he⟩

/-- What "equal under simple case folding" means in the statements above: the two strings
have the same number of runes and corresponding runes lie in one `SimpleFold` orbit (under
FOLD-1 the model of `strings.EqualFold` is exactly this). -/
theorem equalFold_iff {fold : Nat → Nat} (hf : Fold1 fold) (s t : Bytes) :
    equalFold fold s t = true ↔
      (runes s).length = (runes t).length ∧
      ∀ p ∈ (runes s).zip (runes t), ∃ n, iter fold n p.1 = p.2 := by
  unfold equalFold
  generalize runes s = xs
  generalize runes t = ys
  induction xs generalizing ys with
  | nil =>
    cases ys with
    | nil => simp [eqFoldRunes]
    | cons b bs => simp [eqFoldRunes]
  | cons a as ih =>
    cases ys with
    | nil => simp [eqFoldRunes]
    | cons b bs =>
      simp only [eqFoldRunes, Bool.and_eq_true, ih, orbitMem_iff hf, List.length_cons, List.zip_cons_cons,
        List.mem_cons, forall_eq_or_imp, Nat.add_right_cancel_iff]
      constructor
      · rintro ⟨h1, h2, h3⟩; exact ⟨h2, h1, h3⟩
      · rintro ⟨h2, h1, h3⟩; exact ⟨h1, h2, h3⟩

/-- `ContainsFold` returns a Boolean — no index or slice expression panics and the loop
terminates — for *all* byte strings (valid UTF-8 or not) and whatever `SimpleFold` does. -/
theorem containsFold_never_panics (fold : Nat → Nat) (s sub : Bytes) :
    ∃ b, containsFold fold s sub = .ok b := by
  unfold containsFold
  split
  · exact ⟨_, rfl⟩
  · split
    · exact ⟨_, rfl⟩
    · exact cfLoop_total fold _ sub s

/-- Why the shipped code is wrong and the repair is right, as a statement about the scan
predicate handed to `strings.IndexFunc`: the loop decides the reference definition for
*every* predicate that accepts each rune a matching window can start with and rejects
`RuneError`.  Membership in the whole fold orbit of the needle's first rune has this
property (`containsFold_iff`); `r == first || r == SimpleFold(first)` has it only when the
orbit has at most two members. -/
theorem scan_decides_reference {fold : Nat → Nat} {sub : Bytes} {pred : Nat → Bool}
    (hpred : ∀ u : Bytes, sub.length ≤ u.length → equalFold fold (u.take sub.length) sub = true →
      pred (decodeRune u).1 = true)
    (hrej : pred RuneError = false) (hne : sub ≠ []) (s : Bytes) (hs : noFFFD s = true) :
    ∃ b, cfLoop fold pred sub s = .ok b ∧
      (b = true ↔ ∃ i, boundary s i ∧ i + sub.length ≤ s.length ∧
        equalFold fold ((s.drop i).take sub.length) sub = true) := by
  have hg := good_of_noFFFD hs
  obtain ⟨b, h1, h2⟩ := cfLoop_spec (fold := fold) (sub := sub) (pred := pred)
    (fun u hm => hpred u hm.1 hm.2) hrej hne s hg
  exact ⟨b, h1, h2.trans (exMatch_iff_ref hg)⟩

/-! ## FOLD-1 is a theorem about the model of `unicode.SimpleFold` -/

/-- **FOLD-1 for the model of `unicode.SimpleFold`** (Go 1.24.2 `letter.go`, tables regenerated
from the toolchain source): for every rune `a : Nat` the fold cycle through `a` closes within
`orbitFuel = 8` steps; U+FFFD is a fixed point; two ASCII runes are in one cycle iff they have
the same ASCII lower case. -/
theorem fold1_model : Fold1 Unicode.simpleFold := Unicode.fold1_model

/-- Every rune that is not ASCII, not a `From` of `caseOrbit` and in no range of `CaseRanges`
is a fixed point of `SimpleFold` — for every natural number, beyond `MaxRune` too (the part of
FOLD-1 that is a proof about the two binary searches rather than an evaluation). -/
theorem simpleFold_fixed_outside_tables (r : Nat) (h1 : 128 ≤ r)
    (h2 : ∀ e ∈ Gen.UniFold.caseOrbit, e.1 ≠ r)
    (h3 : ∀ cr ∈ Gen.UniFold.caseRanges, ¬ (cr.1 ≤ r ∧ r ≤ cr.2.1)) :
    Unicode.simpleFold r = r := by
  rcases Unicode.simpleFold_cases r with h | h | ⟨e, he, h⟩ | ⟨cr, hcr, h⟩
  · exact h
  · omega
  · exact absurd h (h2 e he)
  · exact absurd h (h3 cr hcr)

/-- **Table semantics of the model**: the two binary searches are sound and, the regenerated
tables being sorted, complete, so `Unicode.simpleFold` computes what the tables say — an ASCII
rune folds to its `asciiFold` entry; otherwise a `caseOrbit` key folds to its `To`; otherwise a
rune in a range `cr` of `CaseRanges` folds to `convertCase(LowerCase)` if that moves it, else to
`convertCase(UpperCase)`; a rune above `MaxRune` is a fixed point (and so is every rune outside
all tables, `simpleFold_fixed_outside_tables`). -/
theorem simpleFold_table_semantics (r : Nat) :
    (r < 128 → Gen.UniFold.asciiFold[r]? = some (Unicode.simpleFold r)) ∧
    (128 ≤ r → r ≤ Gen.UniFold.maxRune → ∀ e ∈ Gen.UniFold.caseOrbit, e.1 = r → Unicode.simpleFold r = e.2) ∧
    (128 ≤ r → r ≤ Gen.UniFold.maxRune → (∀ e ∈ Gen.UniFold.caseOrbit, e.1 ≠ r) →
      ∀ cr ∈ Gen.UniFold.caseRanges, cr.1 ≤ r ∧ r ≤ cr.2.1 →
        Unicode.simpleFold r =
          if Unicode.convertCase Unicode.LowerCase r cr ≠ r then Unicode.convertCase Unicode.LowerCase r cr
          else Unicode.convertCase Unicode.UpperCase r cr) ∧
    (Gen.UniFold.maxRune < r → Unicode.simpleFold r = r) := by
  refine ⟨Unicode.simpleFold_ascii, fun h1 h2 e he hk => Unicode.simpleFold_of_orbit h1 h2 he hk,
    fun h1 h2 hno cr hcr hin => Unicode.simpleFold_of_range h1 h2 hno hcr hin, fun h => ?_⟩
  unfold Unicode.simpleFold
  rw [if_pos h]

/-- `containsFold_iff` with `fold := Unicode.simpleFold`: no hypothesis about case folding. -/
theorem containsFold_iff_unicode (s sub : Bytes)
    (hvs : validUtf8 s = true) (hvsub : validUtf8 sub = true)
    (hs : noFFFD s = true) (hsub : noFFFD sub = true) :
    ∃ b, containsFold Unicode.simpleFold s sub = .ok b ∧
      (b = true ↔ ∃ i, boundary s i ∧ i + sub.length ≤ s.length ∧
        equalFold Unicode.simpleFold ((s.drop i).take sub.length) sub = true) :=
  containsFold_iff Unicode.fold1_model s sub hvs hvsub hs hsub

/-- `containsFold_ascii` with `fold := Unicode.simpleFold`: for ASCII operands,
`ContainsFold(s, sub) = strings.Contains(ToLower(s), ToLower(sub))`, outright. -/
theorem containsFold_ascii_unicode (s sub : Bytes)
    (hs : ∀ b ∈ s, b < 128) (hsub : ∀ b ∈ sub, b < 128) :
    ∃ b, containsFold Unicode.simpleFold s sub = .ok b ∧
      (b = true ↔ sub.map lowerASCII <:+: s.map lowerASCII) :=
  containsFold_ascii Unicode.fold1_model s sub hs hsub

/-- `equalFold_iff` with `fold := Unicode.simpleFold`: the model of `strings.EqualFold` is
"same number of runes, corresponding runes in one `SimpleFold` cycle". -/
theorem equalFold_iff_unicode (s t : Bytes) :
    equalFold Unicode.simpleFold s t = true ↔
      (runes s).length = (runes t).length ∧
      ∀ p ∈ (runes s).zip (runes t), ∃ n, iter Unicode.simpleFold n p.1 = p.2 :=
  equalFold_iff Unicode.fold1_model s t

/-! ## Algebraic corollaries for ASCII operands (no hypothesis left) -/

/-- ASCII case-insensitivity proper: the outcome of `ContainsFold` is invariant under any
change of ASCII letter case in either operand (operands with equal `ToLower` images get the
same answer). -/
theorem containsFold_ascii_case_invariant (s s' sub sub' : Bytes)
    (hs : ∀ b ∈ s, b < 128) (hs' : ∀ b ∈ s', b < 128)
    (hsub : ∀ b ∈ sub, b < 128) (hsub' : ∀ b ∈ sub', b < 128)
    (h1 : s.map lowerASCII = s'.map lowerASCII) (h2 : sub.map lowerASCII = sub'.map lowerASCII) :
    containsFold Unicode.simpleFold s sub = containsFold Unicode.simpleFold s' sub' := by
  obtain ⟨b, hb, hiff⟩ := containsFold_ascii_unicode s sub hs hsub
  obtain ⟨b', hb', hiff'⟩ := containsFold_ascii_unicode s' sub' hs' hsub'
  rw [hb, hb']
  rw [h1, h2] at hiff
  have : b = true ↔ b' = true := hiff.trans hiff'.symm
  cases b <;> cases b' <;> simp_all

/-- Every ASCII string contains itself and the empty string, in any letter case. -/
theorem containsFold_ascii_refl (s s' : Bytes) (hs : ∀ b ∈ s, b < 128) (hs' : ∀ b ∈ s', b < 128)
    (h : s.map lowerASCII = s'.map lowerASCII) :
    containsFold Unicode.simpleFold s s' = .ok true ∧
    containsFold Unicode.simpleFold s [] = .ok true := by
  obtain ⟨b, hb, hiff⟩ := containsFold_ascii_unicode s s' hs hs'
  obtain ⟨b0, hb0, hiff0⟩ := containsFold_ascii_unicode s [] hs (by simp)
  refine ⟨?_, ?_⟩
  · rw [hb, hiff.2 (by rw [h]; exact List.infix_refl _)]
  · rw [hb0, hiff0.2 (by simp)]

/-- `ContainsFold` is monotone in the haystack for ASCII operands: what is found in `s` is
found in `pre ++ s ++ post`. -/
theorem containsFold_ascii_mono (pre s post sub : Bytes)
    (hpre : ∀ b ∈ pre, b < 128) (hs : ∀ b ∈ s, b < 128) (hpost : ∀ b ∈ post, b < 128)
    (hsub : ∀ b ∈ sub, b < 128)
    (h : containsFold Unicode.simpleFold s sub = .ok true) :
    containsFold Unicode.simpleFold (pre ++ s ++ post) sub = .ok true := by
  obtain ⟨b, hb, hiff⟩ := containsFold_ascii_unicode s sub hs hsub
  have hall : ∀ x ∈ pre ++ s ++ post, x < 128 := by
    intro x hx
    simp only [List.mem_append] at hx
    rcases hx with (hx | hx) | hx
    · exact hpre x hx
    · exact hs x hx
    · exact hpost x hx
  obtain ⟨b', hb', hiff'⟩ := containsFold_ascii_unicode (pre ++ s ++ post) sub hall hsub
  rw [hb] at h
  have hbt : b = true := by injection h
  have hin := hiff.1 hbt
  rw [hb', hiff'.2]
  simp only [List.map_append]
  exact List.IsInfix.trans hin ⟨pre.map lowerASCII, post.map lowerASCII, rfl⟩

example : containsFold Unicode.simpleFold (ascii "DISK") (ascii "sk") = .ok true :=
  containsFold_ascii_mono (ascii "DI") (ascii "SK") [] (ascii "sk") (by decide) (by decide) (by simp)
    (by decide) (containsFold_ascii_refl (ascii "SK") (ascii "sk") (by decide) (by decide) (by decide)).1

/-! ## SplitTrimmed -/

/-- `inplace_filter_safe`: run the filter loop of `SplitTrimmed` for any number `i` of
iterations over the result `orig` of `strings.Split`.  It does not panic, and afterwards
`strs` still shares the backing array of `split` (`append` never had to reallocate), the
write index `len(strs)` is at most the read index `i`, every element at an index `≥ i` —
everything not yet read — is still the original one, and `strs` is the filtered, trimmed
prefix.  (So each read `split[i]` sees the value `strings.Split` produced.) -/
theorem inplace_filter_safe (trim : Bytes → Bytes) (orig : List Bytes) (i : Nat) (hi : i ≤ orig.length) :
    ∃ st, filterLoop trim i 0 { A := orig, own := none, j := 0 } = .ok st ∧
      st.own = none ∧ st.j ≤ i ∧ st.A.length = orig.length ∧
      (∀ m, i ≤ m → st.A[m]? = orig[m]?) ∧
      st.A.take st.j = ((orig.take i).map trim).filter (fun p => p ≠ []) := by
  obtain ⟨st, h1, h2⟩ := filterLoop_inv (trim := trim) i 0 _ (filterInv_init trim orig) (by omega)
  rw [Nat.zero_add] at h2
  exact ⟨st, h1, h2.aliased, h2.write_le_read, h2.same_len, h2.unread_intact, h2.filtered⟩

/-- `splitTrimmed_spec`, parametric in the models of `strings.TrimSpace` and `strings.Split`:
the result is exactly the non-empty trimmed pieces of `Split(TrimSpace(s), sep)`, in order.
The two hypotheses say that trimming the empty string gives the empty string and that
splitting the empty string gives only empty pieces (needed for the early return). -/
theorem splitTrimmed_spec (trim : Bytes → Bytes) (split : Bytes → Bytes → List Bytes)
    (htrim : trim [] = []) (hsplit : ∀ sep, ∀ p ∈ split [] sep, p = []) (s sep : Bytes) :
    ∃ r, splitTrimmed trim split s sep = .ok r ∧
      r.elems = ((split (trim s) sep).map trim).filter (fun p => p ≠ []) := by
  refine ⟨_, splitTrimmed_ok trim split s sep, ?_⟩
  by_cases h0 : trim s = []
  · simp only [h0, ↓reduceIte]
    symm
    rw [List.filter_eq_nil_iff]
    intro p hp
    obtain ⟨q, hq, rfl⟩ := List.mem_map.mp hp
    simp [hsplit sep q hq, htrim]
  · simp only [h0, ↓reduceIte, refSplitTrimmed]

/-- `splitTrimmed_spec` for the modelled `strings.TrimSpace` / `strings.Split`: no hypotheses. -/
theorem splitTrimmed_spec_std (s sep : Bytes) :
    ∃ r, splitTrimmed trimSpace split s sep = .ok r ∧
      r.elems = ((split (trimSpace s) sep).map trimSpace).filter (fun p => p ≠ []) := by
  refine splitTrimmed_spec trimSpace split trimSpace_nil ?_ s sep
  intro sep p hp
  rw [split_nil] at hp
  split at hp
  · simp at hp
  · simpa using hp

/-- `splitTrimmed_nonnil`: the result is never a nil slice — in particular it is the non-nil
empty slice when there are no pieces — and `SplitTrimmed` never panics. -/
theorem splitTrimmed_nonnil (trim : Bytes → Bytes) (split : Bytes → Bytes → List Bytes) (s sep : Bytes) :
    ∃ r, splitTrimmed trim split s sep = .ok r ∧ r.isNil = false :=
  ⟨_, splitTrimmed_ok trim split s sep, rfl⟩

/-! ## The hypotheses are satisfiable; the shipped scan predicate is not sufficient -/

/-- FOLD-1 is satisfiable: by the model of `unicode.SimpleFold` itself (`fold1_model`), by
ASCII case swapping … -/
example : Fold1 swapFold := swapFold_fold1

/-- … and by a fold function with the three-member orbits k/K/U+212A and s/S/U+017F. -/
example : Fold1 kFold := kFold_fold1

/-- the operands of the known witness are valid UTF-8 without U+FFFD -/
example : validUtf8 (ascii "DISK") = true ∧ noFFFD (ascii "DISK") = true ∧
    validUtf8 (ascii "sk") = true ∧ noFFFD (ascii "sk") = true := by
  simp [ascii, validUtf8, noFFFD, runes, decodeRune, lead, RuneError]

/-- … and so are non-ASCII operands such as "x€K" with the Kelvin sign (78 E2 82 AC E2 84 AA),
while a lone continuation byte or a literal U+FFFD (EF BF BD) is excluded -/
example : validUtf8 [0x78, 0xE2, 0x82, 0xAC, 0xE2, 0x84, 0xAA] = true ∧
    noFFFD [0x78, 0xE2, 0x82, 0xAC, 0xE2, 0x84, 0xAA] = true ∧
    validUtf8 [0x78, 0x84] = false ∧ noFFFD [0xEF, 0xBF, 0xBD] = false := by
  decide +kernel

/-- The defect of the shipped code (DESIGN.md §9 #12), on the model: with a fold function
satisfying FOLD-1 whose orbit of `k` has three members, the shipped predicate
(`containsFoldOrig`) answers `false` for `ContainsFold("DISK", "sk")` and for the smaller
`ContainsFold("xK", "k")`, while the reference definition holds (the repaired model answers
`true`, and by `containsFold_ascii` that is the reference). -/
theorem containsFoldOrig_defect :
    Fold1 kFold ∧
    -- "DISK" = 44 49 53 4B, "sk" = 73 6B
    isOkB false (containsFoldOrig kFold [0x44, 0x49, 0x53, 0x4B] [0x73, 0x6B]) = true ∧
    isOkB true (containsFold kFold [0x44, 0x49, 0x53, 0x4B] [0x73, 0x6B]) = true ∧
    -- "xK" = 78 4B, "k" = 6B
    isOkB false (containsFoldOrig kFold [0x78, 0x4B] [0x6B]) = true ∧
    isOkB true (containsFold kFold [0x78, 0x4B] [0x6B]) = true :=
  ⟨kFold_fold1, by decide +kernel, by decide +kernel, by decide +kernel, by decide +kernel⟩

end GolibsVerif.C13
