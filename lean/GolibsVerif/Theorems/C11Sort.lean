/-
C11 — the two "by contract" stand-ins of `Model/C11.lean` for standard-library functions,
`sort` (insertion sort for `slices.Sort`) and `binarySearch` (the lower bound for
`slices.BinarySearch`), are what the models of the real functions in `Go/Sort.lean` compute
(`slices.Sort`: Go 1.24.2's `pdqsortOrdered`; `slices.BinarySearch`: its loop), for every element
type with a decidable linear order on which `==` agrees with `cmp.Compare(a, b) == 0`.
Only property theorems and examples live here; the proofs are in `Lemmas/C11Sort.lean`,
`Lemmas/SortSearch.lean` and the `Lemmas/Sort*.lean` files behind `Theorems/C12Sort.lean`.
-/
import GolibsVerif.Theorems.C11
import GolibsVerif.Lemmas.C11Sort

namespace GolibsVerif.C11
open GolibsVerif.Slices (sortOrdered binarySearchBy lessCmp)

variable {T : Type} [GoOrdered T]

/-- `slices.Sort(x)`, as modelled (pdqsort with `cmp.Less`), never panics and leaves exactly the
list `sort x` of the C11 model: the sorted permutation of a list is unique on a linear order. -/
theorem sort_stdlib (l : List T) : sortOrdered less l = .ok (sort l) := by
  obtain ⟨r, h, hp, hs⟩ := Slices.sortFunc_spec (lessCmp (less (T := T))) l
  have hsorted : r.Pairwise le := by
    have := hs weakCmp_less
    unfold C12.Sorted at this
    exact this.imp (fun {a b} h => by rw [lessCmp_neg_iff] at h; exact h)
  have : r = sort l := eq_of_perm_sorted r (sort l) (hp.trans (perm_sort l).symm) hsorted (sorted_sort l)
  rw [sortOrdered, h, this]

/-- `slices.BinarySearch(x, target)`, as modelled (the bisection loop with `cmp.Less`, then
`x[i] == target`), never panics and on a sorted slice returns exactly `binarySearch x target` of
the C11 model: the number of leading elements less than the target, and whether the element at
that position equals it. -/
theorem binarySearch_lower_bound (l : List T) (v : T) (hs : l.Pairwise le) :
    binarySearchBy (fun e => less e v) (fun e => cmpEq e v) l =
      .ok (((binarySearch l v).1 : Int), (binarySearch l v).2) := by
  obtain ⟨i, hi, h1, h2⟩ := Slices.binarySearchBy_spec (fun e => less e v) (fun e => cmpEq e v) l
  have hpart : Slices.PartitionedBy (fun e => less e v) l.toArray := by
    intro p q x y hpq hx hy hlt
    have hp0 := (Slices.at?_bounds hx).1
    have hq0 := (Slices.at?_bounds hy).1
    have hx' : l[p.toNat]? = some x := by
      have e : p = (p.toNat : Int) := by omega
      rw [e, Slices.at?_ofNat] at hx; simpa using hx
    have hy' : l[q.toNat]? = some y := by
      have e : q = (q.toNat : Int) := by omega
      rw [e, Slices.at?_ofNat] at hy; simpa using hy
    obtain ⟨hpl, rfl⟩ := List.getElem?_eq_some_iff.1 hx'
    obtain ⟨hql, rfl⟩ := List.getElem?_eq_some_iff.1 hy'
    have hle : le l[p.toNat] l[q.toNat] := (List.pairwise_iff_getElem.1 hs) _ _ hpl hql (by omega)
    exact less_iff.2 (lt_of_le_of_lt'' hle (less_iff.1 hlt))
  obtain ⟨h3, h4⟩ := h2 hpart
  have hlb : lowerBound v l = i := lowerBound_eq v l i h3 h4 hi
  rw [h1]
  simp only [binarySearch, hlb]
  cases l[i]? <;> rfl

/-! ### examples -/

example : sort [3, 1, 2, (1 : Int)] = [1, 1, 2, 3] := by decide
example : binarySearch [1, 3, 5, (7 : Int)] 5 = (2, true) ∧ binarySearch [1, 3, 5, (7 : Int)] 4 = (2, false) := by decide
-- the hypothesis of `binarySearch_lower_bound` is satisfiable
example : ([1, 3, 5, 7] : List Int).Pairwise le := by
  simp [le, GoOrdered.lt]

end GolibsVerif.C11
