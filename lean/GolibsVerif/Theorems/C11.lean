/-
C11 — property theorems: `container.RingBuffer`, `container.SortedSliceSet` and
`container.MapSet` refine their abstract ring / set models (models in `Model/C11.lean`,
abstract models in `Spec/C11.lean`, helper lemmas in `Lemmas/C11Ring.lean`,
`Lemmas/C11Sets.lean`).  Only property theorems and non-vacuity examples live here.

Everything is stated for an arbitrary element type `T` (ring: any type with a zero value;
sorted set: any `GoOrdered` type, i.e. a decidable strict linear order on which `==` agrees
with `cmp.Compare`; map set: any type with decidable equality), arbitrary capacities
(including 0 and 1), arbitrary operation sequences and arbitrary (stateful) callbacks.
-/
import GolibsVerif.Lemmas.C11Ring
import GolibsVerif.Lemmas.C11Sets
import GolibsVerif.Lemmas.C11Heap

namespace GolibsVerif.C11

/-! ## RingBuffer -/

section Ring
variable {σ T : Type}

/-- `ring_refines`: for every capacity `n` and every sequence of `Push / Clear / Current / Len
/ Range / ReverseRange` calls (with arbitrary stateful, early-terminating callbacks) on
`NewRingBuffer(n)`, no call panics and every call returns exactly what the abstract ring
returns — the abstract ring being "the list `l` of values pushed since creation or the last
`Clear`", observed through `lastN n l`: `Range` passes `lastN n l` oldest first to the
callback until it answers false, `ReverseRange` the same list newest first, `Len` is
`min (length l) n`, `Current` is the oldest retained value when `n` values are retained and
the zero value otherwise. -/
theorem ring_refines (zero : T) (n : Nat) (ops : List (ROp σ T)) :
    (Ring.run zero (some (Ring.new zero n)) ops).2 = (specRun zero n [] ops).map .ok :=
  (run_refines (inv_new zero n) ops).1

/-- `ring_view`: after any sequence of calls the buffer is non-nil and the two halves
`splitCur` yields (what `Range` walks, in order) are exactly the last `n` values pushed since
creation or the last `Clear`. -/
theorem ring_view (zero : T) (n : Nat) (ops : List (ROp σ T)) :
    ∃ rb before after, (Ring.run zero (some (Ring.new zero n)) ops).1 = some rb ∧
      rb.splitCur = .ok (before, after) ∧
      before ++ after = lastN n (pushesSinceClear ops) := by
  obtain ⟨rb, hrb, hinv⟩ := (run_refines (inv_new zero n) ops).2
  obtain ⟨before, after, hs, hcat⟩ := inv_splitCur hinv
  refine ⟨rb, before, after, hrb, hs, ?_⟩
  rw [hcat, spec_state_eq]

/-- `range_early_stop`: what a callback gets to see is the prefix of the walked list up to
and including the first element on which it answers `false`; nothing after it. -/
theorem range_early_stop (p : T → Bool) (xs acc : List T) :
    callUntil (recorder p) acc xs = acc ++ takeThrough p xs := by
  induction xs generalizing acc with
  | nil => simp [callUntil, takeThrough]
  | cons e rest ih =>
    simp only [callUntil, recorder, takeThrough]
    by_cases hp : p e = true
    · simp only [hp, if_true]
      rw [ih (acc ++ [e])]; simp
    · simp [hp]

/-- the harness's callbacks: stopping at the `k`-th call shows the first `k` elements
(all of them for `k = 0` or `k` beyond the length) -/
theorem range_stopAt (k : Nat) (xs : List T) (c : Nat) (acc : List T) (hk : k = 0 ∨ c < k) :
    callUntil (stopAt k) (c, acc) xs =
      (c + min xs.length (if k = 0 then xs.length else k - c),
       acc ++ xs.take (if k = 0 then xs.length else k - c)) := by
  induction xs generalizing c acc with
  | nil => simp [callUntil]
  | cons e rest ih =>
    simp only [callUntil, stopAt]
    by_cases hstop : c + 1 = k
    · have hk0 : k ≠ 0 := by omega
      have : k - c = 1 := by omega
      simp [hstop, hk0, this]
    · have hne : (c + 1 == k) = false := by simpa using hstop
      simp only [hne, Bool.not_false, if_true]
      have := ih (c + 1) (acc ++ [e]) (by omega)
      rw [this]
      by_cases hk0 : k = 0
      · simp [hk0]; omega
      · have : k - c = (k - (c + 1)) + 1 := by omega
        simp [hk0, this]; omega

/-- `clear_eq_new`: `Clear` puts the buffer into the very state `NewRingBuffer` creates. -/
theorem clear_eq_new (zero : T) (rb : Ring T) : rb.clear zero = Ring.new zero rb.buf.length := rfl

/-- `clear_indistinguishable`: a buffer of capacity `n` that went through any history and
was then cleared answers every subsequent sequence of calls exactly like a new buffer of
capacity `n`. -/
theorem clear_indistinguishable (zero : T) (n : Nat) (history : List (ROp σ T)) (ops : List (ROp σ T)) :
    (Ring.run zero (Ring.run zero (some (Ring.new zero n)) (history ++ [.clear])).1 ops).2 =
    (Ring.run zero (some (Ring.new zero n)) ops).2 := by
  obtain ⟨rb, hrb, hinv⟩ := (run_refines (inv_new zero n) (history ++ [ROp.clear])).2
  rw [hrb]
  have hl : (history ++ [ROp.clear]).foldl (fun l (op : ROp σ T) => (specStep zero n l op).1) [] = [] := by
    simp [List.foldl_append, specStep]
  rw [hl] at hinv
  rw [(run_refines hinv ops).1, (run_refines (inv_new zero n) ops).1]

/-- a nil `*RingBuffer`: `Current` is documented to return the zero value -/
theorem ring_nil_current (zero : T) :
    Ring.step (σ := σ) zero none .current = (none, .ok (.val zero)) := rfl

end Ring

/-! ## SortedSliceSet -/

section Sorted
variable {σ T : Type} [GoOrdered T]

/-- general form of `sorted_refines`, from any strictly ascending state -/
theorem sorted_run (s : SSS T) (m : T → Bool) (hs : StrictAsc s.elems)
    (hm : ∀ v, v ∈ s.elems ↔ m v = true) (ops : List (SetOp T)) :
    ∃ s', s.run ops = .ok s' ∧ StrictAsc s'.elems ∧
      ∀ v, v ∈ s'.elems ↔ memAfter m ops v = true := by
  induction ops generalizing s m with
  | nil => exact ⟨s, rfl, hs, hm⟩
  | cons op rest ih =>
    obtain ⟨l⟩ := s
    cases op with
    | add w =>
      obtain ⟨s', h1, h2, h3⟩ := ih ⟨addSpec w l⟩ (memStep m (.add w)) (strictAsc_addSpec hs)
        (by intro v; simp only [memStep, mem_addSpec]
            by_cases hv : v = w <;> simp [hv, hm])
      exact ⟨s', by simp [SSS.run, add_eq, bind, Except.bind, h1], h2, h3⟩
    | delete w =>
      obtain ⟨s', h1, h2, h3⟩ := ih ⟨delSpec w l⟩ (memStep m (.delete w)) (strictAsc_delSpec hs)
        (by intro v; simp only [memStep, mem_delSpec hs]
            by_cases hv : v = w <;> simp [hv, hm])
      exact ⟨s', by simp [SSS.run, delete_eq, bind, Except.bind, h1], h2, h3⟩
    | clear =>
      obtain ⟨s', h1, h2, h3⟩ := ih (SSS.clear ⟨l⟩) (memStep m .clear) (by simp [SSS.clear, StrictAsc])
        (by intro v; simp [SSS.clear, memStep])
      exact ⟨s', by simp [SSS.run, h1], h2, h3⟩

/-- `sorted_refines`: for every argument list of `NewSortedSliceSet` and every sequence of
`Add / Delete / Clear`, no call panics, the underlying slice is strictly ascending, and its
members are exactly the values that were given or added and not deleted (or cleared)
since. -/
theorem sorted_refines (init : List T) (ops : List (SetOp T)) :
    ∃ s, (SSS.new init).run ops = .ok s ∧ StrictAsc s.elems ∧
      ∀ v, v ∈ s.elems ↔ memAfter (fun x => decide (x ∈ init)) ops v = true :=
  sorted_run (SSS.new init) _ (new_spec init).1 (by intro v; simp [(new_spec init).2 v]) ops

/-- `sorted_queries`: on a strictly ascending state (every reachable state, by
`sorted_refines`) the queries are those of the set of members: `Has` is membership, `Len` the
number of members (the list has no duplicates), `Values` the strictly ascending enumeration,
`Range` passes exactly that enumeration to the callback until it answers false. -/
theorem sorted_queries (s : SSS T) (hs : StrictAsc s.elems) :
    (∀ v, s.has v = decide (v ∈ s.elems)) ∧ s.len = s.elems.length ∧ s.elems.Nodup ∧
    s.values = s.elems ∧ ∀ (f : Callback σ T) (st : σ), s.range f st = callUntil f st s.elems := by
  obtain ⟨l⟩ := s
  refine ⟨fun v => ?_, rfl, strictAsc_nodup hs, rfl, fun f st => forRange_fst f st l⟩
  rw [has_eq]
  have := hasSpec_iff (v := v) hs
  cases h : hasSpec v l <;> simp_all

/-- `sorted_values_unique`: `Values` is *the* strictly ascending enumeration of the member
set: any strictly ascending list with the same members is equal to it. -/
theorem sorted_values_unique (s : SSS T) (hs : StrictAsc s.elems) (l : List T) (hl : StrictAsc l)
    (h : ∀ v, v ∈ l ↔ v ∈ s.elems) : l = s.values :=
  strictAsc_ext hl hs h

/-- `sorted_equal_iff`: `Equal` on two non-nil sets holds iff they have the same members. -/
theorem sorted_equal_iff (a b : SSS T) (ha : StrictAsc a.elems) (hb : StrictAsc b.elems) :
    SSS.equalP (some a) (some b) = true ↔ ∀ v, a.has v = b.has v := by
  simp only [SSS.equalP, equalElems_iff]
  constructor
  · intro h v; obtain ⟨la⟩ := a; obtain ⟨lb⟩ := b; simp at h; subst h; rfl
  · intro h
    apply strictAsc_ext ha hb
    intro v
    have h1 := (sorted_queries (σ := Unit) a ha).1 v
    have h2 := (sorted_queries (σ := Unit) b hb).1 v
    have := h v
    rw [h1, h2] at this
    simpa using this

/-- `sorted_clone`: `Clone` of a reachable set is a set with the same value (so it `Equal`s
its origin and answers every later script like the origin would). -/
theorem sorted_clone (s : SSS T) (hs : StrictAsc s.elems) : s.clone = s := by
  obtain ⟨l⟩ := s
  exact new_of_strictAsc l hs

end Sorted

/-! ## MapSet -/

section MapSet
variable {σ T : Type} [DecidableEq T]

theorem mapset_run (s : MS T) (m : T → Bool) (hs : s.keys.Nodup)
    (hm : ∀ v, v ∈ s.keys ↔ m v = true) (ops : List (SetOp T)) :
    (s.run ops).keys.Nodup ∧ ∀ v, v ∈ (s.run ops).keys ↔ memAfter m ops v = true := by
  induction ops generalizing s m with
  | nil => exact ⟨hs, hm⟩
  | cons op rest ih =>
    cases op with
    | add w =>
      exact ih (s.add w) (memStep m (.add w)) (ms_nodup_add hs)
        (by intro v; simp only [memStep, ms_mem_add]
            by_cases hv : v = w <;> simp [hv, hm])
    | delete w =>
      exact ih (s.delete w) (memStep m (.delete w)) (ms_nodup_delete hs)
        (by intro v; simp only [memStep, ms_mem_delete hs]
            by_cases hv : v = w <;> simp [hv, hm])
    | clear =>
      exact ih s.clear (memStep m .clear) (by simp [MS.clear]) (by intro v; simp [MS.clear, memStep])

/-- `mapset_refines`: for every argument list of `NewMapSet` and every sequence of `Add /
Delete / Clear` the key list has no duplicates (so `Len` is the number of members and
`Values` lists each member once) and `Has` is "given or added and not deleted since". -/
theorem mapset_refines (init : List T) (ops : List (SetOp T)) :
    ((MS.new init).run ops).keys.Nodup ∧
    (∀ v, ((MS.new init).run ops).has v = memAfter (fun x => decide (x ∈ init)) ops v) ∧
    ((MS.new init).run ops).len = ((MS.new init).run ops).values.length := by
  have hnew := ms_new_spec init ⟨[]⟩ (by simp)
  have := mapset_run (MS.new init) (fun x => decide (x ∈ init)) hnew.1
    (by intro v; simp [MS.new, hnew.2 v]) ops
  refine ⟨this.1, fun v => ?_, rfl⟩
  have h := this.2 v
  simp only [MS.has]
  cases hm : memAfter (fun x => decide (x ∈ init)) ops v <;> simp_all

/-- `mapset_equal_iff`: `Equal` on two non-nil map sets holds iff they have the same members. -/
theorem mapset_equal_iff (a b : MS T) (ha : a.keys.Nodup) (hb : b.keys.Nodup) :
    MS.equalP (some a) (some b) = true ↔ ∀ v, a.has v = b.has v := by
  simp only [MS.equalP, equalMaps_iff ha hb, MS.has]
  constructor
  · intro h v; simp [h v]
  · intro h v; simpa using h v

omit [DecidableEq T] in
/-- `Range` on a map set passes the key list (each member once) until the callback answers
false -/
theorem mapset_range (s : MS T) (f : Callback σ T) (st : σ) :
    s.range f st = callUntil f st s.values := forRange_fst f st s.keys

end MapSet

/-! ## Clone independence and nil receivers -/

/-- `clone_faithful`: `Clone` copies the value: whatever script is run on the clone yields
what it yields on the origin. -/
theorem clone_faithful {T : Type} [GoOrdered T] (s : SSS T) (hs : StrictAsc s.elems)
    (ops : List (SetOp T)) : s.clone.run ops = s.run ops := by
  rw [sorted_clone s hs]

/-- `heap_clone_independent`: in the storage-level model (`Model/C11Heap.lean`: objects are
slice headers into a heap of backing arrays, `Add`/`Delete`/`Clear` work in place) every
script of `New… / nil / Add / Delete / Clear / Clone` calls over any number of registers
leaves each register holding exactly the value it holds in the value model, where registers
are independent mathematical values.  Hence no call on one object — in particular on a
clone or on its origin — is ever visible through another. -/
theorem heap_clone_independent {T : Type} [GoOrdered T] (zero : T) (ops : List (Heap.Op T)) (k : Nat) :
    Heap.valueOf (Heap.run zero Heap.init ops) k = Heap.vrun (fun _ => none) ops k :=
  (Heap.run_refines zero Heap.wf_init ops).2 k

/-- `heap_other_objects_unchanged`: the same, one call at a time: after any history, a call
changes the observable value of no register but the one it is applied (or assigned) to. -/
theorem heap_other_objects_unchanged {T : Type} [GoOrdered T] (zero : T) (history : List (Heap.Op T))
    (op : Heap.Op T) (k : Nat) (hk : k ≠ op.target) :
    Heap.valueOf (Heap.run zero Heap.init (history ++ [op])) k =
      Heap.valueOf (Heap.run zero Heap.init history) k := by
  have hwf := (Heap.run_refines zero Heap.wf_init history).1
  have := (Heap.step_refines zero hwf op).2 k
  simp only [Heap.run, List.foldl_append, List.foldl_cons, List.foldl_nil] at this ⊢
  rw [this, Heap.vstep_other _ op k hk]

theorem mapset_clone_faithful {T : Type} [DecidableEq T] (s : MS T) (ops : List (SetOp T)) :
    s.clone.run ops = s.run ops := rfl

/-- `nil_receivers`: the documented behaviour of nil `*SortedSliceSet` / `*MapSet`
receivers: `Clear` and (for `MapSet`) `Delete` have no effect, `Clone` is nil, `Has` is false,
`Len` is 0, `Values` is nil, `Range` calls nothing, `Equal` holds exactly between two nils. -/
theorem nil_receivers {σ T : Type} [GoOrdered T] (v : T) (f : Callback σ T) (st : σ)
    (s : SSS T) (m : MS T) :
    SSS.clearP (none : Option (SSS T)) = none ∧ SSS.cloneP (none : Option (SSS T)) = none ∧
    SSS.hasP none v = false ∧ SSS.lenP (none : Option (SSS T)) = 0 ∧
    SSS.valuesP (none : Option (SSS T)) = none ∧ SSS.rangeP none f st = st ∧
    SSS.equalP (none : Option (SSS T)) none = true ∧ SSS.equalP none (some s) = false ∧
    SSS.equalP (some s) none = false ∧
    MS.clearP (none : Option (MS T)) = none ∧ MS.deleteP none v = none ∧
    MS.cloneP (none : Option (MS T)) = none ∧
    MS.hasP none v = false ∧ MS.lenP (none : Option (MS T)) = 0 ∧
    MS.valuesP (none : Option (MS T)) = none ∧ MS.rangeP none f st = st ∧
    MS.equalP (none : Option (MS T)) none = true ∧ MS.equalP none (some m) = false ∧
    MS.equalP (some m) none = false := by
  refine ⟨rfl, rfl, rfl, rfl, rfl, rfl, rfl, rfl, rfl, rfl, rfl, rfl, rfl, rfl, rfl, rfl, rfl, rfl, rfl⟩

/-! ## Non-vacuity and the pre-fix behaviour -/

/-- (for `decide` in the examples below) -/
local instance {ε α} [DecidableEq ε] [DecidableEq α] : DecidableEq (Except ε α) := fun a b =>
  match a, b with
  | .ok x, .ok y => if h : x = y then isTrue (by rw [h]) else isFalse (fun h' => h (by cases h'; rfl))
  | .error x, .error y => if h : x = y then isTrue (by rw [h]) else isFalse (fun h' => h (by cases h'; rfl))
  | .ok _, .error _ => isFalse (fun h => by cases h)
  | .error _, .ok _ => isFalse (fun h => by cases h)

/-- counting/recording callback used in the examples -/
def exCb : Callback (List Int) Int := recorder (fun e => e != 5)

-- capacity 3, pushes 1..5: Range sees 3,4 and stops at 5; ReverseRange stops at once at 5;
-- Len 3; Current is the oldest retained value 3
example : (Ring.run (0 : Int) (some (Ring.new 0 3))
    [.push 1, .push 2, .push 3, .push 4, .push 5, .range exCb [], .reverseRange exCb [], .len, .current]).2
    = [.ok .unit, .ok .unit, .ok .unit, .ok .unit, .ok .unit, .ok (.st [3, 4, 5]), .ok (.st [5]),
       .ok (.len 3), .ok (.val 3)] := by decide

-- the defect that was fixed: with the old `Clear` (storage kept), `Push(7); Clear(); Current()`
-- answers 7 where a new buffer answers 0
example : ((Ring.new (0 : Int) 2).push 7).map (fun rb => (rb.clearUnfixed.current 0, (Ring.new (0 : Int) 2).current 0))
    = .ok (.ok 7, .ok 0) := by decide

example : ((Ring.new (0 : Int) 2).push 7).map (fun rb => (rb.clear 0).current 0) = .ok (.ok 0) := by decide

-- capacity 0 and the nil receiver
example : (Ring.run (0 : Int) (some (Ring.new 0 0)) [.push 1, .current, .len, .range exCb []]).2
    = [.ok .unit, .ok (.val 0), .ok (.len 0), .ok (.st [])] := by decide

example : (Ring.run (0 : Int) none [.push 1, .current, .len (σ := List Int)]).2
    = [.error .nilDeref, .ok (.val 0), .error .nilDeref] := by decide

example : ((SSS.new [5, 1, 3, 1, 5] : SSS Int).run [.add 2, .delete 5, .add 3]).map (·.elems) = .ok [1, 2, 3] := by
  decide

/-- Go's `float64` as far as `NewSortedSliceSet` is concerned: `none` is NaN; `==` is false
on NaN while `cmp.Compare(NaN, NaN) == 0`. -/
def floatEq : Option Int → Option Int → Bool
  | some a, some b => a == b
  | _, _ => false

def floatCmpEq : Option Int → Option Int → Bool
  | some a, some b => a == b
  | none, none => true
  | _, _ => false

-- the heap model can tell sharing from copying: if "clone" merely copied the slice header
-- (register 1 := register 0's header), an in-place `Add` on the origin would show through it
example :
    let s0 := Heap.run (0 : Int) Heap.init [.new 0 [1, 1, 5]]          -- array [1,5,0], len 2
    let shared : Heap.St Int := ⟨s0.arrays, Heap.setReg s0.regs 1 (s0.regs 0)⟩
    (Heap.valueOf shared 1, Heap.valueOf (Heap.step 0 shared (.add 0 3)) 1,
     Heap.valueOf (Heap.run 0 s0 [.clone 0 1, .add 0 3]) 1)
      = (some ⟨[1, 5]⟩, some ⟨[1, 3]⟩, some ⟨[1, 5]⟩) := by decide

-- the second defect that was fixed: `slices.Compact` (`==`) keeps both NaNs of the sorted
-- argument list `[NaN, NaN, 1]`; `CompactFunc` with `cmp.Compare(a, b) == 0` does not
example : compactBy floatEq [none, none, some 1] = [none, none, some 1] := by decide
example : compactBy floatCmpEq [none, none, some 1] = [none, some 1] := by decide

end GolibsVerif.C11
