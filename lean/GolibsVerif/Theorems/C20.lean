/-
C20 — property theorems: `httputil.Wrap` keeps the order of the middlewares, and
`LogMiddleware` keeps concurrent requests apart (models in `Model/C20.lean`, invariant in
`Lemmas/C20Inv.lean`).  Only property theorems and non-vacuity examples live here.

All theorems of part 2 quantify over every execution `Exec inp s tr` of the transition
system: any number of requests, any interleaving of their steps, any choice of the object
a pool `Get` returns among those MEM-1 allows, any handler behaviour (`HOp` sequences,
including none or several `WriteHeader` calls and a panic), any GC of idle pool objects.
-/
import GolibsVerif.Lemmas.C20Inv

namespace GolibsVerif.C20

/-! ## The normal forms the models were written against are those of the source -/

theorem skel_httputil_wrap : Gen.C20Skel.httputilWrap = Expected.httputilWrap := by decide
theorem skel_logmw_wrap : Gen.C20Skel.logmwWrap = Expected.logmwWrap := by decide +kernel
theorem skel_new_log_middleware : Gen.C20Skel.newLogMiddleware = Expected.newLogMiddleware := by decide +kernel
theorem skel_copy_request_to : Gen.C20Skel.copyRequestTo = Expected.copyRequestTo := by decide

theorem skel_code_recorder :
    Gen.C20Skel.crwReset = Expected.crwReset ∧
    Gen.C20Skel.crwSetImplicitSuccess = Expected.crwSetImplicitSuccess ∧
    Gen.C20Skel.crwWriteHeader = Expected.crwWriteHeader ∧
    Gen.C20Skel.crwWrite = Expected.crwWrite ∧
    Gen.C20Skel.crwHeader = Expected.crwHeader := by decide

theorem skel_pool :
    Gen.C20Skel.newPool = Expected.newPool ∧ Gen.C20Skel.newSlicePool = Expected.newSlicePool ∧
    Gen.C20Skel.poolGet = Expected.poolGet ∧ Gen.C20Skel.poolPut = Expected.poolPut := by decide

/-- The order in which the transition system performs the events of the closure returned
by `LogMiddleware.Wrap` (`pcOrder`) is Go's execution order of the regenerated normal form:
the events in sequence — every pool `Get` immediately before the first use of its object,
the attribute slice filled before the logger is derived from it — then the deferred calls
last-in-first-out: the `finished` record (which reads the recorder's code) runs before
`rwPool.Put`, which runs before `reqPool.Put`, which runs before `attrPool.Put`; and the
program counters along it never go back. -/
theorem skel_defer_order :
    normalPath (closureBody Gen.C20Skel.logmwWrap) = pcOrder.map (·.1) ∧
    (pcOrder.map (·.2.rank)).Pairwise (· ≤ ·) := by decide +kernel

/-- If the wrapped handler panics, exactly the deferred calls of the normal end run, in
the same order (the transition `serve → logFinished → putRw → putReq → putAttr` of
`stepHandler … .panic`), and nothing has been returned to a pool before the handler runs. -/
theorem skel_panic_path :
    exitAt serveLine (closureBody Gen.C20Skel.logmwWrap) =
      ((pcOrder.filter (fun p => p.2.rank ≥ PC.logFinished.rank)).map (·.1)) ∧
    (normalPath ((closureBody Gen.C20Skel.logmwWrap).takeWhile (· ≠ serveLine))).all
      (fun l => !l.startsWith "put ") = true := by
  decide +kernel

/-! ## Part 1 — `httputil.Wrap` -/

private theorem wrapLoop_take {ρ ε : Type} (ms : List (Middleware ρ ε)) :
    ∀ k, k ≤ ms.length → ∀ w : Handler ρ ε,
      wrapLoop ms ((k : Int) - 1) w = .ok ((ms.take k).foldr (fun m acc => m acc) w) := by
  intro k
  induction k with
  | zero =>
    intro _ w
    unfold wrapLoop
    simp
    rfl
  | succ k ih =>
    intro hk w
    unfold wrapLoop
    have hge : ((k + 1 : Nat) : Int) - 1 ≥ 0 := by omega
    simp only [hge, dite_true]
    have hidx : idxMw ms (((k + 1 : Nat) : Int) - 1) = .ok ms[k] := by
      have h1 : ((k + 1 : Nat) : Int) - 1 = (k : Int) := by omega
      unfold idxMw
      rw [h1]
      have h2 : ¬ ((k : Int) < 0) := by omega
      simp [h2, List.getElem?_eq_getElem (show k < ms.length by omega)]
    rw [hidx]
    have h1 : ((k + 1 : Nat) : Int) - 1 - 1 = (k : Int) - 1 := by omega
    show wrapLoop ms (((k + 1 : Nat) : Int) - 1 - 1) (ms[k] w) = _
    rw [h1, ih (by omega)]
    rw [List.take_succ_eq_append_getElem (show k < ms.length by omega), List.foldr_append]
    rfl

/-- `Wrap` never panics and returns the right fold: `m₁ (m₂ (… (mₙ h)))`. -/
theorem wrap_eq_foldr {ρ ε : Type} (h : Handler ρ ε) (ms : List (Middleware ρ ε)) :
    wrap h ms = .ok (ms.foldr (fun m acc => m acc) h) := by
  unfold wrap
  rw [wrapLoop_take ms ms.length (Nat.le_refl _) h, List.take_length]

/-- The middleware specified first is the outermost one: it is the first to receive the
request, whatever the middlewares do. -/
theorem wrap_first_outermost {ρ ε : Type} (h : Handler ρ ε) (m : Middleware ρ ε)
    (ms : List (Middleware ρ ε)) :
    ∃ inner, wrap h ms = .ok inner ∧ wrap h (m :: ms) = .ok (m inner) := by
  refine ⟨_, wrap_eq_foldr h ms, ?_⟩
  rw [wrap_eq_foldr]; rfl

private theorem foldr_pass {ρ : Type} (ms : List MwSpec) (hp : ∀ m ∈ ms, m.blocks = false) (r : ρ) :
    (ms.map (MwSpec.mw (ρ := ρ))).foldr (fun m acc => m acc) baseHandler r =
      ms.map (fun m => Ev.enter m.id r) ++ [Ev.handler r] ++ ms.reverse.map (fun m => Ev.exit m.id r) := by
  induction ms with
  | nil => rfl
  | cons m rest ih =>
    have hm : m.blocks = false := hp m (List.mem_cons_self ..)
    have hr := ih (fun x hx => hp x (List.mem_cons_of_mem _ hx))
    simp only [List.map_cons, List.foldr_cons, List.reverse_cons, List.map_append, List.map_nil]
    simp only [MwSpec.mw, hm, Bool.false_eq_true, if_false]
    rw [hr]
    simp

/-- **wrap_order.**  For every list of pass-through middlewares, a request to
`Wrap(h, m₁…mₙ)` is received by `m₁, …, mₙ` in that order, then by `h`; the calls return in
the opposite order. -/
theorem wrap_order {ρ : Type} (ms : List MwSpec) (hp : ∀ m ∈ ms, m.blocks = false) :
    ∃ w, wrap baseHandler (ms.map (MwSpec.mw (ρ := ρ))) = .ok w ∧
      ∀ r, w r = ms.map (fun m => Ev.enter m.id r) ++ [Ev.handler r] ++
                 ms.reverse.map (fun m => Ev.exit m.id r) :=
  ⟨_, wrap_eq_foldr _ _, fun r => foldr_pass ms hp r⟩

/-- who received the request, in order (`none` = the innermost handler) -/
def receivers {ρ : Type} : List (Ev ρ) → List (Option Nat)
  | [] => []
  | .enter id _ :: rest => some id :: receivers rest
  | .handler _ :: rest => none :: receivers rest
  | .exit _ _ :: rest => receivers rest

private theorem receivers_append {ρ : Type} (xs ys : List (Ev ρ)) :
    receivers (xs ++ ys) = receivers xs ++ receivers ys := by
  induction xs with
  | nil => rfl
  | cons x rest ih => cases x <;> simp [receivers, ih]

/-- the literal form of the property: `trace (wrap h [m₁…mₙ]) = m₁, …, mₙ, h` -/
theorem wrap_order_receivers {ρ : Type} (ms : List MwSpec) (hp : ∀ m ∈ ms, m.blocks = false) :
    ∃ w, wrap baseHandler (ms.map (MwSpec.mw (ρ := ρ))) = .ok w ∧
      ∀ r, receivers (w r) = ms.map (fun m => some m.id) ++ [none] := by
  obtain ⟨w, hw, htr⟩ := wrap_order (ρ := ρ) ms hp
  refine ⟨w, hw, fun r => ?_⟩
  rw [htr r, receivers_append, receivers_append]
  have h1 : ∀ l : List MwSpec, receivers (l.map (fun m => Ev.enter m.id r)) = l.map (fun m => some m.id) := by
    intro l; induction l with
    | nil => rfl
    | cons x rest ih => simp [receivers, ih]
  have h2 : ∀ l : List MwSpec, receivers (l.map (fun m => Ev.exit m.id r)) = [] := by
    intro l; induction l with
    | nil => rfl
    | cons x rest ih => simp [receivers, ih]
  rw [h1, h2]; simp [receivers]

/-- A middleware that answers itself stops the request there: the ones before it receive
it in order, the ones after it and the handler never do. -/
theorem wrap_block {ρ : Type} (pre post : List MwSpec) (b : MwSpec)
    (hp : ∀ m ∈ pre, m.blocks = false) (hb : b.blocks = true) :
    ∃ w, wrap baseHandler ((pre ++ b :: post).map (MwSpec.mw (ρ := ρ))) = .ok w ∧
      ∀ r, w r = pre.map (fun m => Ev.enter m.id r) ++ [Ev.enter b.id r, Ev.exit b.id r] ++
                 pre.reverse.map (fun m => Ev.exit m.id r) := by
  refine ⟨_, wrap_eq_foldr _ _, fun r => ?_⟩
  induction pre with
  | nil => simp [MwSpec.mw, hb]
  | cons m rest ih =>
    have hm : m.blocks = false := hp m (List.mem_cons_self ..)
    have hr := ih (fun x hx => hp x (List.mem_cons_of_mem _ hx))
    simp only [List.map_append, List.map_cons] at hr
    simp only [List.cons_append, List.map_cons, List.foldr_cons, List.reverse_cons, List.map_append,
      List.map_nil]
    simp only [MwSpec.mw, hm, Bool.false_eq_true, if_false]
    rw [hr]
    simp

/-- **wrap_nil.**  `Wrap(h)` with no middlewares is `h` itself: it never panics and serves
every request exactly as `h` does. -/
theorem wrap_nil {ρ ε : Type} (h : Handler ρ ε) :
    wrap h [] = .ok h ∧ ∃ w, wrap h [] = .ok w ∧ ∀ r, w r = h r :=
  ⟨wrap_eq_foldr h [], h, wrap_eq_foldr h [], fun _ => rfl⟩

/-- **wrap_wrap.**  `Wrap(Wrap(h, ms₂...), ms₁...)` is `Wrap(h, ms₁..., ms₂...)`: neither
call panics, and the two handlers are the same function of the request — for every handler
and all lists of middlewares, whatever the middlewares do (pass the request on, answer
themselves, call the next handler several times). -/
theorem wrap_wrap {ρ ε : Type} (h : Handler ρ ε) (ms₁ ms₂ : List (Middleware ρ ε)) :
    ∃ w₂ w, wrap h ms₂ = .ok w₂ ∧ wrap w₂ ms₁ = .ok w ∧ wrap h (ms₁ ++ ms₂) = .ok w ∧
      (wrap h ms₂ >>= fun w₂ => wrap w₂ ms₁) = wrap h (ms₁ ++ ms₂) := by
  refine ⟨_, _, wrap_eq_foldr h ms₂, wrap_eq_foldr _ ms₁, ?_, ?_⟩
  · rw [wrap_eq_foldr, List.foldr_append]
  · rw [wrap_eq_foldr h ms₂, wrap_eq_foldr h (ms₁ ++ ms₂), List.foldr_append]
    show wrap _ ms₁ = _
    rw [wrap_eq_foldr]

/-- `wrap_wrap` for the recording middlewares of the order experiment, blocking ones
included: the same events in the same order — so the same middlewares receive the request in
the same order and the handler is reached in the one exactly when it is reached in the
other. -/
theorem wrap_wrap_trace {ρ : Type} (ms₁ ms₂ : List MwSpec) :
    ∃ w₂ w₁₂ w, wrap baseHandler (ms₂.map (MwSpec.mw (ρ := ρ))) = .ok w₂ ∧
      wrap w₂ (ms₁.map (MwSpec.mw (ρ := ρ))) = .ok w₁₂ ∧
      wrap baseHandler ((ms₁ ++ ms₂).map (MwSpec.mw (ρ := ρ))) = .ok w ∧
      ∀ r, w₁₂ r = w r ∧ receivers (w₁₂ r) = receivers (w r) := by
  obtain ⟨w₂, w, h2, h1, h12, _⟩ :=
    wrap_wrap (baseHandler (ρ := ρ)) (ms₁.map MwSpec.mw) (ms₂.map MwSpec.mw)
  refine ⟨w₂, w, w, h2, h1, ?_, fun r => ⟨rfl, rfl⟩⟩
  rw [List.map_append]; exact h12

/-! ### Non-vacuity of `wrap_wrap`: a concrete split, with and without a blocking middleware -/

example : ∃ w₂ w, wrap (baseHandler (ρ := Nat)) ([⟨3, false⟩].map MwSpec.mw) = .ok w₂ ∧
    wrap w₂ ([⟨1, false⟩, ⟨2, false⟩].map MwSpec.mw) = .ok w ∧
    w 7 = [.enter 1 7, .enter 2 7, .enter 3 7, .handler 7, .exit 3 7, .exit 2 7, .exit 1 7] :=
  ⟨_, _, wrap_eq_foldr _ _, wrap_eq_foldr _ _, by decide⟩

-- the blocking middleware is in the inner `Wrap`: the outer ones still see the request,
-- the handler does not
example : ∃ w₂ w, wrap (baseHandler (ρ := Nat)) ([⟨2, true⟩, ⟨3, false⟩].map MwSpec.mw) = .ok w₂ ∧
    wrap w₂ ([⟨1, false⟩].map MwSpec.mw) = .ok w ∧
    w 7 = [.enter 1 7, .enter 2 7, .exit 2 7, .exit 1 7] ∧ receivers (w 7) = [some 1, some 2] :=
  ⟨_, _, wrap_eq_foldr _ _, wrap_eq_foldr _ _, by decide, by decide⟩

/-! ## Part 2 — `LogMiddleware` under concurrency -/

section
variable {inp : Rid → ReqData} {s s' : St} {tr : List Obs} {a : Act}

/-- **pool_exclusive.**  In every reachable state no pooled object is held by two
requests, and no held object is idle in its pool (so `Get` cannot hand it out again) —
for each of the three pools. -/
theorem pool_exclusive (h : Exec inp s tr) :
    (∀ i j o, ownedA s.th i = some o → ownedA s.th j = some o → i = j) ∧
    (∀ i j o, ownedQ s.th i = some o → ownedQ s.th j = some o → i = j) ∧
    (∀ i j o, ownedW s.th i = some o → ownedW s.th j = some o → i = j) ∧
    (∀ i o, ownedA s.th i = some o → o ∉ s.pA.free) ∧
    (∀ i o, ownedQ s.th i = some o → o ∉ s.pQ.free) ∧
    (∀ i o, ownedW s.th i = some o → o ∉ s.pW.free) := by
  obtain ⟨hA, hQ, hW⟩ := (exec_inv h).pools
  exact ⟨hA.excl, hQ.excl, hW.excl, hA.own_nfree, hQ.own_nfree, hW.own_nfree⟩

/-- **sees_own_request.**  Whenever the wrapped handler of request `i` looks at the request
it was given, it finds request `i`'s own data (all of it: `rest` stands for URL, headers,
body and context values) and a context logger carrying `i`'s four attributes. -/
theorem sees_own_request (h : Exec inp s tr) {i : Rid} {d : Option ReqData} {la : List Attr}
    (hs : step inp s a = some (s', .seen i d la)) :
    d = some (inp i) ∧ la = attrsOf (inp i) :=
  step_obs_ok (exec_inv h) hs

/-- **logger_has_own_attrs.**  Every record emitted for request `i` — "started", anything
the handler logs through the context logger, "finished" — carries host, method, raddr and
request_uri of request `i`, even though the logger reads them from a pooled slice. -/
theorem logger_has_own_attrs (h : Exec inp s tr) {i : Rid} {la : List Attr} {o : Obs}
    (hs : step inp s a = some (s', o))
    (ho : o = .started i la ∨ o = .hlog i la ∨ ∃ c, o = .finished i la c) :
    la = [("host", (inp i).host), ("method", (inp i).method), ("raddr", (inp i).raddr),
          ("request_uri", (inp i).uri)] := by
  have hok := step_obs_ok (exec_inv h) hs
  rcases ho with rfl | rfl | ⟨c, rfl⟩
  · exact hok
  · exact hok
  · exact hok.1

/-- **finished_code.**  The "finished" record of request `i` reports the code of the last
`WriteHeader` call made by *that* invocation of the handler, 200 if it made none (and, as
`cmp.Or` has it, if it set 0); if the handler panicked, `SetImplicitSuccess` was skipped and
the code is the one set so far (0 if none).  The code is read while request `i` still
holds its response-writer wrapper (`finished_before_put`). -/
theorem finished_code (h : Exec inp s tr) {i : Rid} {la : List Attr} {c : Nat}
    (hs : step inp s a = some (s', .finished i la c)) :
    c = (if hasPanicked i tr then (lastHeader i tr).getD 0
         else if (lastHeader i tr).getD 0 = 0 then 200 else (lastHeader i tr).getD 0) := by
  have hok := (step_obs_ok (exec_inv h) hs).2
  simpa [finCode, cmpOr] using hok

/-- the reading used in the property text: a handler that returns normally and set a
non-zero code `c` last gets `c`; one that set nothing gets 200 -/
theorem finished_code_set (h : Exec inp s tr) {i : Rid} {la : List Attr} {c : Nat}
    (hs : step inp s a = some (s', .finished i la c)) (hp : hasPanicked i tr = false) :
    (∀ c', lastHeader i tr = some c' → c' ≠ 0 → c = c') ∧ (lastHeader i tr = none → c = 200) := by
  have hc := finished_code h hs
  rw [hp] at hc
  constructor
  · intro c' hl hne; simp [hl, hne] at hc; exact hc
  · intro hl; simp [hl] at hc; exact hc

/-- the "finished" record is emitted, and the code read, while the request still holds its
response-writer wrapper, its request copy and its attribute slice (defer order): the step
that emits it is taken from a state in which all three are owned, and the code is the one
stored in the owned wrapper -/
theorem finished_before_put {i : Rid} {la : List Attr} {c : Nat}
    (hst : step inp s a = some (s', .finished i la c)) :
    ownedW s.th i = some (s.th i).w ∧ ownedQ s.th i = some (s.th i).q ∧
    ownedA s.th i = some (s.th i).a ∧ c = (s.mW (s.th i).w).code := by
  cases a with
  | tick j =>
    simp only [step, stepTick] at hst
    cases hpc : (s.th j).pc <;> simp only [hpc] at hst
    all_goals try (split at hst)
    all_goals first
      | (simp at hst; done)
      | (
          simp only [Option.some.injEq, Prod.mk.injEq, Obs.finished.injEq] at hst
          obtain ⟨-, rfl, -, rfl⟩ := hst
          simp [ownedW, ownedQ, ownedA, hpc, holdsW, holdsQ, holdsA])
  | arrive j =>
    simp only [step] at hst
    split at hst <;> simp at hst
  | get j ob =>
    simp only [step, stepGet] at hst
    cases hpc : (s.th j).pc <;> simp [hpc] at hst
  | handler j op =>
    simp only [step, stepHandler] at hst
    cases hpc : (s.th j).pc <;> simp only [hpc] at hst
    all_goals first
      | (simp at hst; done)
      | (cases op <;> simp at hst)
  | gc p ob =>
    simp only [step, stepGc] at hst
    cases p <;> simp at hst

/-- **client_gets_own_writes** (one step).  Whatever the handler of request `i` writes —
a header code or a body chunk — goes through a wrapper that points at client `i`. -/
theorem write_goes_to_own_client (h : Exec inp s tr) {i : Rid} {cl : Option Rid} {o : Obs}
    (hs : step inp s a = some (s', o)) (ho : (∃ c, o = .wroteHeader i cl c) ∨ ∃ b, o = .wrote i cl b) :
    cl = some i := by
  have hok := step_obs_ok (exec_inv h) hs
  rcases ho with ⟨c, rfl⟩ | ⟨b, rfl⟩ <;> exact hok

/-- the middleware itself never panics at run time: the pooled slices always have
`logMwAttrNum` elements, so `attrs[logMwAttrNum-1]` is in range -/
theorem no_runtime_panic (h : Exec inp s tr) {i : Rid} : Obs.goPanic i ∉ tr := by
  intro hm
  obtain ⟨pre, post, rfl⟩ := List.append_of_mem hm
  obtain ⟨s0, s1, a0, hex, hst⟩ := exec_split h pre _ post rfl
  exact step_obs_ok (exec_inv hex) hst

end

/-! ### The same facts about whole traces -/

section
variable {inp : Rid → ReqData} {s : St} {tr : List Obs}

/-- Every observation of every execution is the right one given what was observed before
it (`ObsOk` spells out: own request, own attributes, own client, own code). -/
theorem trace_ok (h : Exec inp s tr) (pre post : List Obs) (o : Obs) (ht : tr = pre ++ o :: post) :
    ObsOk inp pre o := by
  obtain ⟨s0, s1, a0, hex, hst⟩ := exec_split h pre o post ht
  exact step_obs_ok (exec_inv hex) hst

private theorem received_eq_written_aux (j : Rid) :
    ∀ (l : List Obs), (∀ i cl c, Obs.wroteHeader i cl c ∈ l → cl = some i) →
      (∀ i cl b, Obs.wrote i cl b ∈ l → cl = some i) → received j l = written j l := by
  intro l
  induction l with
  | nil => intros; rfl
  | cons o rest ih =>
    intro h1 h2
    have ihr := ih (fun i cl c hm => h1 i cl c (List.mem_cons_of_mem _ hm))
      (fun i cl b hm => h2 i cl b (List.mem_cons_of_mem _ hm))
    cases o with
    | wroteHeader i cl c =>
      have := h1 i cl c (List.mem_cons_self ..)
      subst this
      simp only [received, written, Option.some.injEq, ihr]
    | wrote i cl b =>
      have := h2 i cl b (List.mem_cons_self ..)
      subst this
      simp only [received, written, Option.some.injEq, ihr]
    | _ => simpa [received, written] using ihr

/-- **client_gets_own_writes.**  In every execution, what client `j` receives (header
codes and body chunks, in order) is exactly what the handler invocation of request `j`
wrote: nothing is lost to another client and nothing of another request arrives. -/
theorem client_gets_own_writes (h : Exec inp s tr) (j : Rid) : received j tr = written j tr := by
  apply received_eq_written_aux
  · intro i cl c hm
    obtain ⟨pre, post, rfl⟩ := List.append_of_mem hm
    exact trace_ok h pre post _ rfl
  · intro i cl b hm
    obtain ⟨pre, post, rfl⟩ := List.append_of_mem hm
    exact trace_ok h pre post _ rfl

/-- **finished_code**, on traces: the code in a "finished" record is determined by the
`WriteHeader` calls of the same request that precede it in the trace. -/
theorem finished_code_trace (h : Exec inp s tr) (pre post : List Obs) (i : Rid) (la : List Attr) (c : Nat)
    (ht : tr = pre ++ Obs.finished i la c :: post) :
    la = attrsOf (inp i) ∧ c = finCode (lastHeader i pre) (hasPanicked i pre) :=
  trace_ok h pre post _ ht

/-- the executable `run` only produces executions -/
theorem run_exec {s0 : St} {tr0 : List Obs} (h0 : Exec inp s0 tr0) :
    ∀ (acts : List Act) (s1 : St) (os : List Obs), run inp s0 acts = some (s1, os) → Exec inp s1 (tr0 ++ os) := by
  intro acts
  induction acts generalizing s0 tr0 with
  | nil =>
    intro s1 os hr
    simp only [run, Option.some.injEq, Prod.mk.injEq] at hr
    obtain ⟨rfl, rfl⟩ := hr
    simpa using h0
  | cons a rest ih =>
    intro s1 os hr
    simp only [run] at hr
    split at hr
    · simp at hr
    · next s' o hst =>
      simp only [Option.map_eq_some_iff] at hr
      obtain ⟨⟨s'', os'⟩, hrun, heq⟩ := hr
      simp only [Prod.mk.injEq] at heq
      obtain ⟨rfl, rfl⟩ := heq
      have := ih (Exec.step h0 hst) s'' os' hrun
      simpa using this

end

/-! ## The hypotheses are satisfiable -/

/-- two requests with different data -/
def exInp : Rid → ReqData := fun i =>
  if i = 0 then ⟨[97], [71], [1], [47], [10]⟩ else ⟨[98], [80], [2], [47, 120], [20]⟩

/-- Request 0 runs to the end and returns its objects; request 1 then reuses all three of
them (objects `0`), sets 404 and writes; request 2 overlaps with 1, gets fresh objects
and sets nothing. -/
def exSchedule : List Act := [
  .arrive 0, .get 0 0, .tick 0, .tick 0, .get 0 0, .tick 0, .get 0 0, .tick 0, .tick 0,
  .handler 0 .observe, .handler 0 (.writeHeader 201), .handler 0 .ret,
  .tick 0, .tick 0, .tick 0, .tick 0, .tick 0,
  .arrive 1, .get 1 0, .tick 1, .tick 1, .get 1 0, .tick 1, .get 1 0, .tick 1, .tick 1,
  .arrive 2, .get 2 1, .tick 2, .tick 2, .get 2 1, .tick 2, .get 2 1, .tick 2, .tick 2,
  .handler 1 .observe, .handler 2 .observe, .handler 1 (.writeHeader 404), .handler 2 (.write [1]),
  .handler 1 (.write [7]), .handler 2 .ret, .handler 1 .ret,
  .tick 2, .tick 1, .tick 2, .tick 1, .tick 1, .tick 2, .tick 2, .tick 1, .tick 2, .tick 1]

example : ((run exInp init exSchedule).map (·.2)).map (fun os => os.filter (· ≠ .silent)) = some [
    .started 0 (attrsOf (exInp 0)), .seen 0 (some (exInp 0)) (attrsOf (exInp 0)),
    .wroteHeader 0 (some 0) 201, .finished 0 (attrsOf (exInp 0)) 201,
    .started 1 (attrsOf (exInp 1)), .started 2 (attrsOf (exInp 2)),
    .seen 1 (some (exInp 1)) (attrsOf (exInp 1)), .seen 2 (some (exInp 2)) (attrsOf (exInp 2)),
    .wroteHeader 1 (some 1) 404, .wrote 2 (some 2) [1], .wrote 1 (some 1) [7],
    .finished 2 (attrsOf (exInp 2)) 200, .finished 1 (attrsOf (exInp 1)) 404] := by
  decide +kernel

/-- pass-through lists exist, and so do lists with a blocker -/
example : ∀ m ∈ [MwSpec.mk 3 false, ⟨1, false⟩, ⟨2, false⟩], m.blocks = false := by decide

end GolibsVerif.C20
