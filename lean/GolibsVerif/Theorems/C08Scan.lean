/-
C08 — `bufio.Scanner` with `bufio.ScanLines` does not depend on how the reader fragments the
byte stream (what used to be the trusted contract SCAN-1).

The scanner is the model of `Go/Scanner.lean`: `Scan`'s loop with its buffer window
(`start`, `end`, `len(buf)`), shifting, doubling up to `maxTokenSize`, the `ErrTooLong` exit,
the read loop with `maxConsecutiveEmptyReads`, `setErr`, the `atEOF = (s.err != nil)` call of
the split function, and `ScanLines` / `dropCR`.  The reader is a byte stream plus an
arbitrary fragmentation script of read results `(n, err)`.

Every theorem is an induction over arbitrary scripts (through `fill_spec`, `scanLoop_spec`,
`scanAll_spec` of `Lemmas/C08Scan.lean`); none is a statement about sample scripts.
-/
import GolibsVerif.Lemmas.C08Scan

namespace GolibsVerif.C08
open GolibsVerif GolibsVerif.Bufio

/-- **The scanner's output is a function of what was delivered and how the input ended.**
For every stream, every script, every initial buffer capacity and every maximum token size
(≤ 2^62, so that the overflow guard `len(buf) > maxInt/2` is not what stops the growth): if
the script has the scanner receive `m` bytes and then ends the input with `e` (`outcome`
accounts for the 101st consecutive `(0, nil)` read as `io.ErrNoProgress`), and the lines of
these `m` bytes are shorter than the maximum token size, then the tokens are exactly
`scanLines` of the `m` bytes — the unterminated tail included: the split function is called
with `atEOF = true` once `s.err != nil`, whatever the error — and `Err()` is nil for `io.EOF`
and `e` otherwise.  No panic. -/
theorem scan_outcome (stream : Bytes) (script : Script) (bufCap max m : Nat) (e : Err)
    (hmax : max ≤ maxInt / 2 + 1)
    (hout : outcome 0 script = (m, e)) (hm : m ≤ stream.length)
    (hshort : LinesShort (stream.take m) max) :
    scanStream bufCap max stream script = .ok (scanLines (stream.take m), errOf e) :=
  scanAll_spec _ _ _ (Or.inl (new_live stream script bufCap max m e hmax hout hm hshort))

/-- **SCAN-1, proved.**  For every stream whose lines are shorter than the maximum token
size, every fragmentation script that delivers the whole stream and then `io.EOF` (possibly
together with the last bytes) and never answers `(0, nil)` more than 100 times in a row, and
every initial buffer: the tokens are exactly `scanLines stream` and `Err()` is nil. -/
theorem scan_fragmentation_independent (stream : Bytes) (script : Script) (bufCap max : Nat)
    (hmax : max ≤ maxInt / 2 + 1) (hshort : LinesShort stream max)
    (hdel : delivered script = stream.length) (hend : ending script = .eof) (hstall : NoStall 0 script) :
    scanStream bufCap max stream script = .ok (scanLines stream, none) := by
  have hout := outcome_noStall script 0 hstall
  rw [hdel, hend] at hout
  have := scan_outcome stream script bufCap max stream.length .eof hmax hout (Nat.le_refl _)
    (by rw [List.take_length]; exact hshort)
  rw [List.take_length] at this
  exact this

/-- **A failing reader.**  If the script ends with an error `e` other than `io.EOF` after
delivering a prefix `p` of the stream (`p = stream.take (delivered script)`), the tokens are
exactly `scanLines p` — the final-token rule applies to the unterminated tail of `p` just as
at end of file, because `Scan` passes `atEOF = (s.err != nil)` — and `Err()` is `e`. -/
theorem scan_read_error (stream : Bytes) (script : Script) (bufCap max : Nat) (e : Err)
    (hmax : max ≤ maxInt / 2 + 1)
    (hdel : delivered script ≤ stream.length) (hend : ending script = e) (hne : e ≠ .eof)
    (hstall : NoStall 0 script) (hshort : LinesShort (stream.take (delivered script)) max) :
    scanStream bufCap max stream script = .ok (scanLines (stream.take (delivered script)), some e) := by
  have hout := outcome_noStall script 0 hstall
  rw [hend] at hout
  have := scan_outcome stream script bufCap max _ e hmax hout hdel hshort
  simpa [errOf, hne] using this

/-- the outcome of `k` or more empty reads when `100 < j + k` -/
theorem outcome_stall (post : Script) : ∀ (j k : Nat), maxConsecutiveEmptyReads < k + j → 0 < j →
    outcome k (List.replicate j (0, none) ++ post) = (0, .noProgress) := by
  intro j
  induction j with
  | zero => intro k _ h; omega
  | succ j ih =>
    intro k h _
    simp only [List.replicate_succ, List.cons_append, outcome, if_true]
    by_cases hk : maxConsecutiveEmptyReads ≤ k
    · simp [hk]
    · simp only [hk, if_false]
      exact ih (k + 1) (by omega) (by simp only [maxConsecutiveEmptyReads] at *; omega)

/-- **A stalling reader.**  If, after reads without error and without a stall that deliver a
prefix `p` of the stream, the reader answers `(0, nil)` 101 times in a row, the tokens are
`scanLines p` and `Err()` is `io.ErrNoProgress`, whatever follows in the script. -/
theorem scan_stall (stream : Bytes) (pre post : Script) (bufCap max : Nat)
    (hmax : max ≤ maxInt / 2 + 1) (hnoerr : ∀ x ∈ pre, x.2 = none) (hstall : NoStall 0 pre)
    (hdel : delivered pre ≤ stream.length)
    (hshort : LinesShort (stream.take (delivered pre)) max) :
    scanStream bufCap max stream (pre ++ List.replicate (maxConsecutiveEmptyReads + 1) (0, none) ++ post) =
      .ok (scanLines (stream.take (delivered pre)), some .noProgress) := by
  have hout : ∀ k, NoStall k pre →
      outcome k (pre ++ List.replicate (maxConsecutiveEmptyReads + 1) (0, none) ++ post) =
        (delivered pre, .noProgress) := by
    clear hdel hshort hstall
    induction pre with
    | nil =>
      intro k _
      simp only [List.nil_append, delivered]
      exact outcome_stall post _ k (by omega) (by omega)
    | cons hd tl ih =>
      obtain ⟨n, x⟩ := hd
      have hx : x = none := hnoerr (n, x) (by simp)
      subst hx
      have ih := ih (fun y hy => hnoerr y (by simp [hy]))
      intro k hk
      simp only [List.cons_append, outcome, delivered]
      by_cases h0 : n = 0
      · subst h0
        simp only [NoStall, if_true] at hk
        have hk' : ¬ maxConsecutiveEmptyReads ≤ k := by omega
        simp only [if_true, hk', if_false, Nat.zero_add]
        exact ih (k + 1) hk.2
      · simp only [NoStall, h0, if_false] at hk
        simp only [h0, if_false, ih 0 hk]
        rw [Nat.add_comm]
  have := scan_outcome stream _ bufCap max _ .noProgress hmax (hout 0 hstall) hdel hshort
  simpa [errOf] using this

/-- **What "lines shorter than the limit" means**, in the terms of `scanLines_lines`
(`Theorems/C08.lean`): for a stream made of LF-terminated lines `ls` and an unterminated rest
`last`, `LinesShort` says exactly that every line — its `'\r'` included, its `'\n'` excluded — and
the rest are shorter than `lim`. -/
theorem linesShort_lines (ls : List Bytes) (hls : ∀ l ∈ ls, 10 ∉ l) (last : Bytes) (hlast : 10 ∉ last)
    (lim : Nat) :
    LinesShort ((ls.flatMap fun l => l ++ [10]) ++ last) lim ↔
      (∀ l ∈ ls, l.length < lim) ∧ last.length < lim := by
  constructor
  · intro h
    constructor
    · intro l hl
      refine h l ?_ (hls l hl)
      clear h hls
      induction ls with
      | nil => simp at hl
      | cons l0 ls ih =>
        simp only [List.flatMap_cons, List.append_assoc]
        rcases List.mem_cons.1 hl with rfl | hl'
        · exact (List.prefix_append _ _).isInfix
        · exact List.IsInfix.trans (ih hl') ⟨l0 ++ [10], [], by simp⟩
    · exact h last (List.suffix_append _ _).isInfix hlast
  · rintro ⟨h1, h2⟩
    induction ls with
    | nil =>
      intro l hl _
      simp only [List.flatMap_nil, List.nil_append] at hl
      exact Nat.lt_of_le_of_lt hl.length_le h2
    | cons l0 ls ih =>
      intro l hl h10
      simp only [List.flatMap_cons, List.append_assoc, List.singleton_append] at hl
      rcases infix_split hl h10 with h | h
      · exact Nat.lt_of_le_of_lt h.length_le (h1 l0 (by simp))
      · exact ih (fun l hl => hls l (by simp [hl])) (fun l hl => h1 l (by simp [hl])) l h h10

/-! ### the hypotheses are satisfiable, and what happens at the limit -/

theorem linesShort_of_length (s : Bytes) (lim : Nat) (h : s.length < lim) : LinesShort s lim :=
  fun _ hl _ => Nat.lt_of_le_of_lt hl.length_le h

/-- "ab\\r\\ncd\\n\\nxyz" in 1-byte reads, an empty read, a read that is cut by the room of the
2-byte buffer, data together with `io.EOF` -/
example : scanStream 2 16 (ascii "ab\r\ncd\n\nxyz") [(1, none), (0, none), (1, none), (6, none), (3, some .eof)] =
    .ok ([ascii "ab", ascii "cd", [], ascii "xyz"], none) :=
  scan_fragmentation_independent _ _ 2 16 (by decide) (linesShort_of_length _ _ (by decide))
    (by decide) (by decide) (by decide)

/-- the same stream with an error after 6 bytes: `"cd"` is unterminated in the prefix and is
still a token -/
example : scanStream 0 16 (ascii "ab\r\ncd\n\nxyz") [(4, none), (2, some (.reader 7))] =
    .ok ([ascii "ab", ascii "cd"], some (.reader 7)) :=
  scan_read_error _ _ 0 16 (.reader 7) (by decide) (by decide) (by decide) (by decide) (by decide)
    (linesShort_of_length _ _ (by decide))

end GolibsVerif.C08
