/-
C10, package L — the cache is free of data races: lock discipline of `cache/data.go`, proved
for the lock-discipline IR regenerated from the Go source on every check
(`gen/cachelock.go` → `Gen/CacheLockIR.lean`).

* `analyse_sound`     the checker is sound for ALL control paths of a method, through every
  inlined helper call (`Stmt.call`: the callee's body runs in the caller's lock state);
* `mutual_exclusion`, `no_race`  for ALL traces of ANY number of threads calling analysed
  methods in any order and interleaving, under `sync.Mutex` semantics;
* `lock_discipline`   THE regenerated obligation: every method of `cache` passes the checker
  (fails to build on a tree whose `Stats` reads `len(c.items)` / `c.size` without the lock);
* `cache_race_free`   `no_race` for the regenerated program;
* `profile_sound`     the critical-section profile computed by `sectionsOf` covers every path;
* `sections_expected` the critical-section profile of the source (which locations are touched
  inside / outside the critical sections, one section or several, the lock given up only
  around `OnDelete`) is the one the transition systems of C09/C10 were written against.
-/
import GolibsVerif.Lemmas.C10IR
import GolibsVerif.Lemmas.C10Profile
import GolibsVerif.Gen.CacheLockIR

namespace GolibsVerif.C10
open GolibsVerif.C10.Lock

/-- Soundness of the checker: if `analyse` accepts a method then EVERY control path of its body
(either branch of every `if`, any number of iterations of every loop, early returns, every path
through the body of every inlined helper — a `return` of a helper continues in its caller) is
well locked: walking the path from "lock not held, item not published", every event is permitted
(protected locations only under the lock and never atomically; counters only atomically; `conf`
and published items never written; the local item written only before publication; publication
only under the lock; `Lock` only when not held, `Unlock` only when held; `OnDelete` and
`return` only without the lock) and the call ends without the lock. -/
theorem analyse_sound (m : Method) (h : analyse m = true) :
    ∀ p, Path m.body p → WellLocked p :=
  fun _ hp => analyse_path h hp

/-- Publication safety of a well-locked path: the `publish` event happens under the lock, and no
write of the local item's `key`/`value` follows it (all such writes precede publication). -/
theorem Lock.publication_safe {p p1 p2 : List Ev} (hw : WellLocked p) (hsplit : p = p1 ++ Ev.publish :: p2) :
    Holds p1 ∧ ∀ e ∈ p2, e ≠ Ev.acc .write (.itemKV true) := by
  obtain ⟨s', hwalk, _⟩ := hw
  subst hsplit
  rw [walk_append] at hwalk
  cases h1 : walk init p1 with
  | none => simp [h1] at hwalk
  | some s1 =>
    simp only [h1, Option.bind_some, walk] at hwalk
    cases h2 : s1.step .publish with
    | none => simp [h2] at hwalk
    | some s2 =>
      simp only [h2, Option.bind_some] at hwalk
      simp only [St.step] at h2
      split at h2
      · rename_i hheld
        cases h2
        refine ⟨?_, (walk_published hwalk rfl).2⟩
        have := walk_walkH h1
        simpa [Holds, init, hheld] using this
      · cases h2

/-- Mutual exclusion.  In every trace — any number of threads, each running any sequence of
analysed methods (the last call possibly in progress), interleaved in any way that respects
`sync.Mutex` — at every point of the trace at most one thread is between its `lock` and its
`unlock`. -/
theorem mutual_exclusion (prog : List Method) (hprog : ∀ m ∈ prog, analyse m = true)
    (tr : Trace) (hthreads : ∀ t, ThreadOf prog (proj t tr)) (hmutex : MutexOK tr)
    (pre post : Trace) (hsplit : tr = pre ++ post) (t1 t2 : Tid)
    (h1 : Holds (proj t1 pre)) (h2 : Holds (proj t2 pre)) : t1 = t2 := by
  obtain ⟨o', _, hown⟩ := system_accepts hprog hthreads hmutex hsplit
  have e1 := hown t1
  have e2 := hown t2
  simp only [Holds] at h1 h2
  rw [h1] at e1
  rw [h2] at e2
  simp at e1 e2
  rw [e1] at e2
  simpa using e2

/-- Every access in every such trace has the mode its location demands: the counters are only
touched atomically, `conf` and published items are only read, and the protected locations are
touched non-atomically by a thread that is inside a critical section at that moment. -/
theorem Lock.access_modes (prog : List Method) (hprog : ∀ m ∈ prog, analyse m = true)
    (tr : Trace) (hthreads : ∀ t, ThreadOf prog (proj t tr)) (hmutex : MutexOK tr)
    (pre post : Trace) (t : Tid) (a : Acc) (l : Loc) (hsplit : tr = pre ++ (t, Ev.acc a l) :: post) :
    (l = .hit ∨ l = .miss → a = .atomic) ∧
    (l = .conf ∨ l = .itemKV false → a = .read) ∧
    (l.protected = true → a ≠ .atomic ∧ Holds (proj t pre)) := by
  have hs2 : tr = (pre ++ [(t, Ev.acc a l)]) ++ post := by simp [hsplit]
  obtain ⟨o1, hg1, hown⟩ := system_accepts hprog hthreads hmutex hsplit
  obtain ⟨o2, hg2, _⟩ := system_accepts hprog hthreads hmutex hs2
  rw [grun_append, hg1] at hg2
  simp only [Option.bind_some, grun] at hg2
  cases hs : gstep o1 t (.acc a l) with
  | none => simp [hs] at hg2
  | some o1' =>
    obtain ⟨_, hok⟩ := gstep_acc hs
    have hh := hown t
    refine ⟨?_, ?_, ?_⟩
    · rintro (rfl | rfl) <;> simpa [accOK] using hok
    · rintro (rfl | rfl) <;> simpa [accOK] using hok
    · intro hp
      have : a ≠ .atomic ∧ o1 = some t := by
        cases l <;> simp [Loc.protected] at hp <;> simpa [accOK] using hok
      refine ⟨this.1, ?_⟩
      simp only [Holds, hh, this.2]
      simp

/-- Race freedom.  In every such trace, take ANY two accesses to the same location by different
threads that could form a data race (not both atomic, at least one not a plain read; the fields
of a thread's own unpublished local item are not shared).  Then the location is one of the
lock-protected ones (so counters, `conf` and published items never give rise to such a pair)
and strictly between the two accesses the first thread unlocks and, later, the second thread
locks: the accesses are ordered by the happens-before edge `Unlock → Lock` of the Go memory
model. -/
theorem no_race (prog : List Method) (hprog : ∀ m ∈ prog, analyse m = true)
    (tr : Trace) (hthreads : ∀ t, ThreadOf prog (proj t tr)) (hmutex : MutexOK tr)
    (pre mid post : Trace) (t1 t2 : Tid) (a1 a2 : Acc) (l : Loc)
    (hsplit : tr = pre ++ (t1, Ev.acc a1 l) :: mid ++ (t2, Ev.acc a2 l) :: post)
    (hne : t1 ≠ t2) (hshared : l ≠ .itemKV true) (hrace : RaceCandidate a1 a2) :
    l.protected = true ∧
    ∃ m1 m2 m3, mid = m1 ++ (t1, Ev.unlock) :: m2 ++ (t2, Ev.lock) :: m3 := by
  have hs1 : tr = (pre ++ (t1, Ev.acc a1 l) :: mid ++ [(t2, Ev.acc a2 l)]) ++ post := by simp [hsplit]
  obtain ⟨o3, hg, _⟩ := system_accepts hprog hthreads hmutex hs1
  -- split the accepted run at the two accesses
  rw [grun_append] at hg
  cases hpre : grun none pre with
  | none => simp [hpre, grun_append] at hg
  | some o0 =>
    rw [show pre ++ (t1, Ev.acc a1 l) :: mid = pre ++ ((t1, Ev.acc a1 l) :: mid) from rfl,
      grun_append, hpre] at hg
    simp only [Option.bind_some, grun] at hg
    cases hs1' : gstep o0 t1 (.acc a1 l) with
    | none => simp [hs1'] at hg
    | some o1 =>
      simp only [hs1', Option.bind_some] at hg
      cases hmid : grun o1 mid with
      | none => simp [hmid] at hg
      | some o2 =>
        simp only [hmid, Option.bind_some] at hg
        cases hs2' : gstep o2 t2 (.acc a2 l) with
        | none => simp [hs2'] at hg
        | some o2' =>
          obtain ⟨ho1, hok1⟩ := gstep_acc hs1'
          obtain ⟨_, hok2⟩ := gstep_acc hs2'
          obtain ⟨hnn, hrw⟩ := hrace
          -- the location must be a protected one, and both threads own the mutex at their access
          have hprot : l.protected = true ∧ o0 = some t1 ∧ o2 = some t2 := by
            cases l with
            | itemKV f =>
              cases f
              · simp only [accOK, beq_iff_eq] at hok1 hok2
                exact absurd hok1 (by intro h; cases hrw with
                  | inl h1 => exact h1 h
                  | inr h2 => exact h2 hok2)
              · exact absurd rfl hshared
            | conf =>
              simp only [accOK, beq_iff_eq] at hok1 hok2
              cases hrw with
              | inl h1 => exact absurd hok1 h1
              | inr h2 => exact absurd hok2 h2
            | hit =>
              simp only [accOK, beq_iff_eq] at hok1 hok2
              exact absurd ⟨hok1, hok2⟩ hnn
            | miss =>
              simp only [accOK, beq_iff_eq] at hok1 hok2
              exact absurd ⟨hok1, hok2⟩ hnn
            | items | usage | size =>
              simp only [accOK, Bool.and_eq_true, decide_eq_true_eq] at hok1 hok2
              exact ⟨rfl, hok1.2, hok2.2⟩
          obtain ⟨hp, h01, h02⟩ := hprot
          subst ho1 h01 h02
          exact ⟨hp, grun_handover hne mid hmid⟩

/-- THE regenerated obligation: every method of `cache` in the current source passes the
lock-discipline checker.  (On the unrepaired tree `Stats` reads `len(c.items)` and `c.size`
without the lock and this theorem does not build.) -/
theorem lock_discipline : Gen.CacheLockIR.methods.all analyse = true := by decide

/-- Race freedom of the cache as it is in the source: `no_race` for the regenerated program. -/
theorem cache_race_free
    (tr : Trace) (hthreads : ∀ t, ThreadOf Gen.CacheLockIR.methods (proj t tr)) (hmutex : MutexOK tr)
    (pre mid post : Trace) (t1 t2 : Tid) (a1 a2 : Acc) (l : Loc)
    (hsplit : tr = pre ++ (t1, Ev.acc a1 l) :: mid ++ (t2, Ev.acc a2 l) :: post)
    (hne : t1 ≠ t2) (hshared : l ≠ .itemKV true) (hrace : RaceCandidate a1 a2) :
    l.protected = true ∧
    ∃ m1 m2 m3, mid = m1 ++ (t1, Ev.unlock) :: m2 ++ (t2, Ev.lock) :: m3 :=
  no_race _ (List.all_eq_true.mp lock_discipline) tr hthreads hmutex pre mid post t1 t2 a1 a2 l
    hsplit hne hshared hrace

/-- Soundness of the critical-section profile: for EVERY control path of a method (through every
inlined helper), every event is accounted for by the profile `sectionsOf m`.  Walking the path
with the region state (`pre` = before the first `Lock`, `held` = inside a critical section,
`free` = after an `Unlock`): a plain access to a lock-protected location / a publication / an
`OnDelete` call in a region of kind `r` is in the profile's set for `r` (a read may be
represented by the write of the same location); an atomic access is in `atomics`; the `n`-th `Lock` of the path (n saturating at 2) satisfies `n ≤ sections`; a `Lock`
that follows an `Unlock` without an `OnDelete` call in between sets `relockBare`. -/
theorem profile_sound (m : Method) (p : List Ev) (hp : Path m.body p) :
    ∀ f ∈ pathFacts pinit p, (sectionsOf m).has f := by
  intro f hf
  apply profileOfFacts_has
  rcases hp with hx | ⟨p', hx, rfl⟩
  · exact (flow_sound hx pinit).1 f hf
  · rw [pathFacts_append] at hf
    simp only [pathFacts, PSt.facts, List.append_nil] at hf
    exact (flow_sound hx pinit).1 f hf

/-- ... in particular for accesses: a plain access to a lock-protected location on a path is in
the may-access set of the kind of region it happens in. -/
theorem Lock.profile_access (m : Method) (p p1 p2 : List Ev) (a : Acc) (l : Loc) (hp : Path m.body p)
    (hsplit : p = p1 ++ Ev.acc a l :: p2) (ha : a ≠ .atomic) (hl : l.protected = true) :
    covers ((sectionsOf m).region (pwalk pinit p1).reg.kind) (.acc a l) := by
  subst hsplit
  apply profile_sound m _ hp (.item (pwalk pinit p1).reg.kind (.acc a l))
  rw [pathFacts_append]
  apply List.mem_append_right
  simp [pathFacts, PSt.facts, ha, hl]

/-- ... and for the number of critical sections: a method whose profile says "at most one
section" takes the lock at most once on every path. -/
theorem Lock.one_section (m : Method) (h : (sectionsOf m).sections ≤ 1) (p : List Ev)
    (hp : Path m.body p) : p.count .lock ≤ 1 := by
  false_or_by_contra
  rename_i hc
  have h2 : 2 ≤ p.count .lock := by omega
  have := profile_sound m p hp _ (sections_two_of_locks p pinit h2)
  simp only [Profile.has] at this
  omega

/-- The critical-section profile of the source — per exported method: what may be accessed
before the first `Lock`, inside the critical sections, after an `Unlock`; the atomics; whether a
path can enter more than one critical section; whether the lock is ever given up mid-call other
than around an `OnDelete` call — is the documented one (`Expected.sections`).  The profile is a
normal form of the set of paths (`profile_sound`), so it does not change under helper
extraction, statement reordering inside a region, `defer`, early-return restructuring. -/
theorem sections_expected : Gen.CacheLockIR.sections = Expected.sections := by decide +kernel

/-- Consequence for the source as it is: every exported method of `cache` other than `Set` takes
the lock at most once on every control path (ONE critical section: the atomic step of the
transition system of C09/C10). -/
theorem cache_single_section (m : Method) (hm : m ∈ Gen.CacheLockIR.methods) (hn : m.name ≠ "Set")
    (p : List Ev) (hp : Path m.body p) : p.count .lock ≤ 1 := by
  apply Lock.one_section m _ p hp
  have hmem : sectionsOf m ∈ Expected.sections := by
    rw [← sections_expected]
    exact List.mem_map.mpr ⟨m, hm, rfl⟩
  have hall : Expected.sections.all (fun P => P.name == "Set" || decide (P.sections ≤ 1)) = true := by decide
  have := List.all_eq_true.mp hall _ hmem
  have hname : (sectionsOf m).name = m.name := rfl
  simp only [hname, Bool.or_eq_true, beq_iff_eq, decide_eq_true_eq] at this
  rcases this with h | h
  · exact absurd h hn
  · exact h

/-! ## Non-vacuity -/

/-- the checker rejects the `Stats` of the unrepaired tree: plain reads of `items`, `size`
without the lock -/
example : analyse ⟨"Stats", [.acc .read .items, .acc .read .size, .acc .atomic .hit, .acc .atomic .miss, .ret]⟩
    = false := by decide

/-- and accepts the repaired one -/
example : analyse ⟨"Stats", [.lock, .acc .read .items, .acc .read .size, .unlock,
    .acc .atomic .hit, .acc .atomic .miss, .ret]⟩ = true := by decide

/-- a `Get` that moves the LRU link after `Unlock` is rejected -/
example : analyse ⟨"Get", [.lock, .acc .read .items, .unlock,
    .ite [.acc .read .conf] [.acc .write .usage, .acc .read .usage, .acc .write .usage] [],
    .acc .atomic .hit, .acc .read (.itemKV false), .ret]⟩ = false := by decide

/-- an `OnDelete` call under the lock is rejected -/
example : analyse ⟨"Set", [.lock, .loop [.acc .read .size] [.acc .write .items,
    .ite [.acc .read .conf] [.acc .read .conf, .callOnDelete] []], .unlock, .ret]⟩ = false := by decide

/-- a missing `Unlock` on an early return is rejected -/
example : analyse ⟨"Del", [.lock, .acc .read .items, .ite [] [.ret] [], .acc .write .items, .unlock]⟩
    = false := by decide

/-- a non-atomic counter update, a write to a published item, a write of `conf`, a write of the
local item after publication, re-locking, a loop body that leaks the lock: all rejected -/
example : analyse ⟨"x", [.acc .read .hit, .acc .write .hit]⟩ = false := by decide
example : analyse ⟨"x", [.lock, .acc .write (.itemKV false), .unlock]⟩ = false := by decide
example : analyse ⟨"x", [.lock, .acc .write .conf, .unlock]⟩ = false := by decide
example : analyse ⟨"x", [.lock, .publish, .acc .write (.itemKV true), .unlock]⟩ = false := by decide
example : analyse ⟨"x", [.lock, .lock, .unlock]⟩ = false := by decide
example : analyse ⟨"x", [.lock, .loop [] [.unlock], .unlock]⟩ = false := by decide

/-- the path semantics has the early-return path and the two-iteration path of a loop -/
example : Path [.lock, .ite [.acc .read .items] [.unlock, .ret] [], .acc .write .items, .unlock]
    [.lock, .acc .read .items, .unlock, .ret] :=
  .inr ⟨_, .lock (.iteThen (.acc (.unlock .ret))), rfl⟩

example : Path [.loop [.acc .read .size] [.acc .write .size], .ret]
    [.acc .read .size, .acc .write .size, .acc .read .size, .acc .write .size, .acc .read .size, .ret] :=
  .inr ⟨_, .loopIter (.acc (.acc (.loopIter (.acc (.acc (.loopExit (.acc .ret))))))), rfl⟩

/-- a helper's `return` ends the helper, not the method: after `full` returns (with the lock
held — that is fine for a helper) the caller goes on and unlocks -/
example : Path [.lock, .call "full" [.acc .read .size, .ite [] [.ret] [], .acc .read .items, .ret], .unlock]
    [.lock, .acc .read .size, .unlock] :=
  .inl (.lock (.call (p := [.acc .read .size]) (.acc (.iteThen .ret)) (.unlock .nil)))

example : analyse ⟨"m", [.lock, .call "full" [.acc .read .size, .ite [] [.ret] [], .acc .read .items, .ret], .unlock]⟩
    = true := by decide

/-- defects hidden inside a helper are found through the call: an LRU move in a helper called
after `Unlock`; a helper that unlocks and does not re-lock, called in a loop; a helper reading
`len(c.items)` called without the lock -/
example : analyse ⟨"Get", [.lock, .acc .read .items, .unlock,
    .call "touch" [.acc .write .usage, .acc .read .usage, .acc .write .usage], .ret]⟩ = false := by decide
example : analyse ⟨"Set", [.lock, .loop [.acc .read .size] [.acc .write .items,
    .call "notify" [.ite [.acc .read .conf] [.ret] [], .unlock, .callOnDelete]], .unlock]⟩ = false := by decide
example : analyse ⟨"Stats", [.call "count" [.acc .read .items, .ret], .acc .atomic .hit, .ret]⟩ = false := by decide

/-- the hypotheses of `no_race` are satisfiable with a genuinely conflicting pair: two threads
each run the one-section method `[lock; size := …; unlock]`, one after the other. -/
example :
    let m : Method := ⟨"W", [.lock, .acc .write .size, .unlock]⟩
    let tr : Trace := [(0, .lock), (0, .acc .write .size), (0, .unlock), (1, .lock), (1, .acc .write .size), (1, .unlock)]
    analyse m = true ∧ (∀ t, ThreadOf [m] (proj t tr)) ∧ MutexOK tr := by
  intro m tr
  have hp : Path m.body [.lock, .acc .write .size, .unlock] := .inl (.lock (.acc (.unlock .nil)))
  have one : ThreadTrace [m] ([Ev.lock, .acc .write .size, .unlock] ++ []) :=
    .call (List.mem_singleton.mpr rfl) hp .nil
  refine ⟨by decide, ?_, by unfold MutexOK; decide⟩
  intro t
  by_cases h0 : t = 0
  · subst h0; exact ⟨[], one⟩
  · by_cases h1 : t = 1
    · subst h1; exact ⟨[], one⟩
    · have h0' : ¬ 0 = t := fun h => h0 h.symm
      have h1' : ¬ 1 = t := fun h => h1 h.symm
      exact ⟨[], by simpa [tr, proj, h0', h1'] using ThreadTrace.nil⟩

/-- ... and with a callback that re-enters the cache: the `OnDelete` call of the first call of
`m` itself runs a whole call of `m` before the first call continues. -/
example :
    let m : Method := ⟨"E", [.lock, .acc .write .items, .unlock, .callOnDelete, .lock, .acc .write .size, .unlock]⟩
    analyse m = true ∧
    ThreadOf [m] [.lock, .acc .write .items, .unlock, .callOnDelete,
      .lock, .acc .write .items, .unlock, .callOnDelete, .lock, .acc .write .size, .unlock,
      .lock, .acc .write .size] := by
  intro m
  have hp : Path m.body [.lock, .acc .write .items, .unlock, .callOnDelete, .lock, .acc .write .size, .unlock] :=
    .inl (.lock (.acc (.unlock (.callOnDelete (.lock (.acc (.unlock .nil)))))))
  have one : ThreadTrace [m] ([Ev.lock, .acc .write .items, .unlock, .callOnDelete, .lock, .acc .write .size, .unlock] ++ []) :=
    .call (List.mem_singleton.mpr rfl) hp .nil
  refine ⟨by decide, [.unlock], ?_⟩
  exact ThreadTrace.reenter (a := [.lock, .acc .write .items, .unlock]) (b := [.lock, .acc .write .size, .unlock]) one one

end GolibsVerif.C10
