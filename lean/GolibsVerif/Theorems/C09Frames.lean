/-
C09 — property theorems about the FRAMED transition system (`Model/C09Frames.lean`).

A *framed execution* is `FTrace c FSt.init flog σ`: from the empty cache with no call
pending, any sequence of `call` labels (a `Set(k, v)` call is made and becomes a frame) and
sections — of a frame, in the order the code of `cache.Set` prescribes for THAT frame, or of a
one-section call (`Get`, `Del`, `Clear`, `Stats`) — in any interleaving whatever.  That covers
other goroutines and the calls a callback makes from inside `OnDelete`, to any depth.

`frames_refine_steps`            framed executions project to traces of the frameless `CStep`
                                 system, so everything in `Theorems/C09.lean` transfers
                                 (`inv_reachable_framed`, `stats_bounded_framed`,
                                 `get_latest_framed` are the transfers spelled out)
`onDelete_once_framed`           per frame, every eviction is followed — as that frame's very
                                 next step — by exactly one `OnDelete` with the evicted key and
                                 value, and no `OnDelete` happens otherwise
`evict_then_onDelete_framed`,    the same, positionally
`onDelete_after_evict_framed`
`evict_only_when_needed_framed`  a frame evicts only while ITS OWN `Set` does not fit in the
                                 cache as it is at that moment (after whatever the callbacks
                                 and the other goroutines did), and then drops the LRU entry
`commit_only_when_fits_framed`   and stores only when it fits at that moment
`loop_head_decides`              which of the two happens is decided by `full` alone
`frame_progress`                 no pending frame is ever stuck (no deadlock, no modelled panic)
`run_is_framed`                  the nested interpreter `runScript` (the one tied to the Go code on
                                 every check) runs framed executions: its log is the projection
                                 of one, with the callback's calls as frames nested between the
                                 `onDelete` label and the next section of the calling frame
-/
import GolibsVerif.Lemmas.C09Frames
import GolibsVerif.Lemmas.C09FramesRun
import GolibsVerif.Theorems.C09

namespace GolibsVerif.C09

/-! ### Refinement of the frameless system -/

/-- **Every framed execution is a history of the frameless system**: forgetting the frames
(dropping `call` labels, keeping each section's event and the cache after it) gives a `Trace`
of `CStep` from the empty cache to the final cache.  Nothing is assumed about the
configuration. -/
theorem frames_refine_steps {c : Conf} {flog : List FRec} {σ : FSt}
    (ht : FTrace c FSt.init flog σ) : Trace c St.init (projLog flog) σ.cache :=
  (ftrace_proj ht (FramesOk.init c)).2

/-- transfer of `inv_reachable`: the cache invariant holds in the final state and after every
section of every framed execution -/
theorem inv_reachable_framed {c : Conf} {flog : List FRec} {σ : FSt}
    (ht : FTrace c FSt.init flog σ) :
    Inv c σ.cache ∧ ∀ r ∈ flog, Inv c r.after.cache := by
  have hinit : ∀ {l : List FRec} {σ : FSt}, FTrace c FSt.init l σ → Inv c σ.cache :=
    fun h => (inv_reachable (frames_refine_steps h)).1
  refine ⟨hinit ht, ?_⟩
  intro r hr
  obtain ⟨pre, post, rfl⟩ := List.append_of_mem hr
  obtain ⟨σ0, hpre, hstep, _⟩ := ftrace_split (ev := r.ev) (σ1 := r.after) ht
  exact hinit (ftrace_append hpre (ftrace_single hstep))

/-- transfer of `stats_bounded`: what any `Stats()` call observes, wherever it falls between
the sections of the pending `Set` frames -/
theorem stats_bounded_framed {c : Conf} {pre post : List FRec} {who : Option Nat} {st : Stats}
    {σ1 σ : FSt} (ht : FTrace c FSt.init (pre ++ ⟨.sec who (.stats st), σ1⟩ :: post) σ) :
    st.count = (absOf c.lru (evsOf (projLog pre))).live.length ∧ st.count ≤ c.maxCount ∧
    st.size = aSize (absOf c.lru (evsOf (projLog pre))).live ∧ st.size ≤ c.maxSize := by
  have := frames_refine_steps ht
  rw [projLog_sec] at this
  exact stats_bounded this

/-- transfer of `get_latest` -/
theorem get_latest_framed {c : Conf} {pre post : List FRec} {who : Option Nat} {k : Bytes}
    {r : Option Bytes} {σ1 σ : FSt}
    (ht : FTrace c FSt.init (pre ++ ⟨.sec who (.get k r), σ1⟩ :: post) σ) :
    r = lastSurviving (evsOf (projLog pre)) k := by
  have := frames_refine_steps ht
  rw [projLog_sec] at this
  exact get_latest this

/-! ### `OnDelete`, per frame -/

/-- **`OnDelete` exactly once per eviction, by the evicting frame, before its next section.**
For every frame `i` of every framed execution: the sections of frame `i`, followed by the
`OnDelete` call it still owes at the end of the execution (if it stopped between an eviction
and the callback), satisfy the `OnDelete` discipline `cbOK` of `Spec/C09.lean` — with a
callback configured every `evict k v` of the frame is immediately followed (in the frame) by
`onDelete k v`, and no `onDelete` of the frame occurs anywhere else; without a callback there
is none.  And no `OnDelete` is ever called by anything but a `Set` frame. -/
theorem onDelete_once_framed {c : Conf} {flog : List FRec} {σ : FSt}
    (ht : FTrace c FSt.init flog σ) :
    (∀ i, cbOK c.hasCb (secsOf i flog ++ owed σ i) = true) ∧
    (∀ r ∈ flog, ∀ k v, r.ev ≠ .sec none (.onDelete k v)) := by
  constructor
  · intro i
    have := frame_scan ht i
    simpa [FSt.init, FSt.phaseAt, pendOf, cbOK] using this
  · intro r hr k v hev
    obtain ⟨pre, post, rfl⟩ := List.append_of_mem hr
    obtain ⟨σ0, _, hstep, _⟩ := ftrace_split (ev := r.ev) (σ1 := r.after) ht
    rw [hev] at hstep
    cases hstep

/-- positionally, forwards: with a callback configured, an eviction of `(k, v)` by frame `i`
is followed, as the next section of frame `i`, by `onDelete k v`, and the section of frame
`i` after that (if any) is not another `onDelete`; or the execution ends before frame `i`
runs again, and then frame `i` is in phase `cb k v`, owing exactly that call.  Sections of
other frames may come in between. -/
theorem evict_then_onDelete_framed {c : Conf} (hcb : c.hasCb = true) {pre post : List FRec}
    {who : Option Nat} {k v : Bytes} {σ1 σ : FSt}
    (ht : FTrace c FSt.init (pre ++ ⟨.sec who (.evict k v), σ1⟩ :: post) σ) :
    ∃ i, who = some i ∧
      ((∃ rest, secsOf i post = .onDelete k v :: rest ∧
          ∀ k' v', rest.head? ≠ some (.onDelete k' v')) ∨
       (secsOf i post = [] ∧ σ.phaseAt i = some (.cb k v))) := by
  obtain ⟨σ0, _, hstep, hpost⟩ := ftrace_split ht
  generalize hev : FEv.sec who (.evict k v) = lab at hstep
  cases hstep with
  | evict i f s' e hf hh hfull he =>
    injection hev with hw hev
    injection hev with hk hv
    subst hw; subst hk; subst hv
    refine ⟨i, rfl, ?_⟩
    have hscan := frame_scan hpost i
    rw [move_phaseAt _ _ hf] at hscan
    simp only [if_true, hcb, pendOf] at hscan
    obtain ⟨rest, hl, hrest⟩ := cbScan_some_head hscan
    cases hsec : secsOf i post with
    | nil =>
      right
      refine ⟨rfl, ?_⟩
      rw [hsec, List.nil_append] at hl
      unfold owed at hl
      cases hp : σ.phaseAt i with
      | none => rw [hp] at hl; simp [owedOf] at hl
      | some ph =>
        rw [hp] at hl
        cases ph <;> simp [owedOf] at hl
        obtain ⟨⟨rfl, rfl⟩, _⟩ := hl
        rfl
    | cons x xs =>
      left
      rw [hsec, List.cons_append, List.cons.injEq] at hl
      obtain ⟨rfl, hxs⟩ := hl
      refine ⟨xs, rfl, ?_⟩
      intro k' v' hc
      cases xs with
      | nil => simp at hc
      | cons y ys =>
        simp only [List.head?_cons, Option.some.injEq] at hc
        subst hc
        rw [← hxs] at hrest
        simp [cbScan] at hrest
  | _ => cases hev

/-- positionally, backwards: every `OnDelete(k, v)` call in a framed execution is made by a
`Set` frame `i`, a callback is configured, and the section of frame `i` before it is the
eviction of exactly `(k, v)` -/
theorem onDelete_after_evict_framed {c : Conf} {pre post : List FRec} {who : Option Nat}
    {k v : Bytes} {σ1 σ : FSt}
    (ht : FTrace c FSt.init (pre ++ ⟨.sec who (.onDelete k v), σ1⟩ :: post) σ) :
    ∃ i, who = some i ∧ c.hasCb = true ∧ (secsOf i pre).getLast? = some (.evict k v) := by
  obtain ⟨σ0, hpre, hstep, _⟩ := ftrace_split ht
  generalize hev : FEv.sec who (.onDelete k v) = lab at hstep
  cases hstep with
  | onDelete i f k' v' hf hp =>
    injection hev with hw hev
    injection hev with hk hv
    subst hw; subst hk; subst hv
    refine ⟨i, rfl, ?_⟩
    have hscan := frame_scan hpre i
    have ho : owed σ0 i = [.onDelete k v] := by simp [owed, phaseAt_of_get hf, hp, owedOf]
    rw [ho] at hscan
    rcases cbScan_snoc_onDelete _ _ _ _ _ hscan with ⟨_, hnone⟩ | ⟨hl, hh⟩
    · simp [FSt.init, FSt.phaseAt, pendOf] at hnone
    · exact ⟨hh, hl⟩
  | _ => cases hev

/-! ### Evictions only while the frame's own `Set` does not fit -/

/-- **A frame evicts only while its own `Set` does not fit**, "fit" being evaluated on the
cache as it is when the section runs — i.e. after everything the callbacks of this and of other
frames, and other goroutines, have done in between (`σ0` is the state reached by the whole
prefix `pre`).  The evicting label belongs to a frame `i` that was created by a
`call i key val` label of the prefix; LRU is on; `|key| + |val| ≤ MaxElementSize`; the loop
condition `size + |key| + |val| > MaxSize || count == MaxCount` holds for THAT key and value
in `σ0` — equivalently, in terms of the reference map run over the history so far; and the
entry dropped is the least recently used one. -/
theorem evict_only_when_needed_framed {c : Conf} {pre post : List FRec} {who : Option Nat}
    {k v : Bytes} {σ1 σ : FSt}
    (ht : FTrace c FSt.init (pre ++ ⟨.sec who (.evict k v), σ1⟩ :: post) σ) :
    ∃ i f σ0, who = some i ∧ FTrace c FSt.init pre σ0 ∧ σ0.frames[i]? = some f ∧
      (∃ p1 p2 σc, pre = p1 ++ ⟨.call i f.key f.val, σc⟩ :: p2) ∧
      c.lru = true ∧ f.key.length + f.val.length ≤ c.maxElem ∧
      full c σ0.cache (f.key.length + f.val.length) = true ∧
      (aSize (absOf c.lru (evsOf (projLog pre))).live + (f.key.length + f.val.length) > c.maxSize ∨
        (absOf c.lru (evsOf (projLog pre))).live.length = c.maxCount) ∧
      (absOf c.lru (evsOf (projLog pre))).live.head? = some (k, v) := by
  obtain ⟨σ0, hpre, hstep, _⟩ := ftrace_split ht
  obtain ⟨hok, htr⟩ := ftrace_proj hpre (FramesOk.init c)
  obtain ⟨h0, ha0⟩ := trace_from_init htr
  generalize hev : FEv.sec who (.evict k v) = lab at hstep
  cases hstep with
  | evict i f s' e hf hh hfull he =>
    injection hev with hw hev
    injection hev with hk hv
    subst hw; subst hk; subst hv
    obtain ⟨hadd, hor⟩ := atLoopHead_ok (hok i f hf) hh
    have hl : c.lru = true := by
      rcases hor with h1 | h1
      · exact h1
      · rw [hfull] at h1; cases h1
    refine ⟨i, f, σ0, rfl, hpre, hf, frame_origin hpre i f hf, hl, hadd, hfull, ?_, ?_⟩
    · rw [← ha0.live, aSize_pairs, ← h0.size_eq]
      simpa [full, pairs, Frame.add] using hfull
    · rw [← ha0.live, (evictOne_ok he).1]; simp [pairs]
  | _ => cases hev

/-- **A frame stores only when its `Set` fits** at that moment: the storing label
`commit k v r` belongs to a frame created by `call i k v`, and the loop condition is false for
`(k, v)` in the cache as left by the whole prefix. -/
theorem commit_only_when_fits_framed {c : Conf} {pre post : List FRec} {who : Option Nat}
    {k v : Bytes} {r : Bool} {σ1 σ : FSt}
    (ht : FTrace c FSt.init (pre ++ ⟨.sec who (.commit k v r), σ1⟩ :: post) σ) :
    ∃ i σ0, who = some i ∧ FTrace c FSt.init pre σ0 ∧
      (∃ p1 p2 σc, pre = p1 ++ ⟨.call i k v, σc⟩ :: p2) ∧
      k.length + v.length ≤ c.maxElem ∧ full c σ0.cache (k.length + v.length) = false ∧
      aSize (absOf c.lru (evsOf (projLog pre))).live + (k.length + v.length) ≤ c.maxSize ∧
      (absOf c.lru (evsOf (projLog pre))).live.length ≠ c.maxCount := by
  obtain ⟨σ0, hpre, hstep, _⟩ := ftrace_split ht
  obtain ⟨hok, htr⟩ := ftrace_proj hpre (FramesOk.init c)
  obtain ⟨h0, ha0⟩ := trace_from_init htr
  generalize hev : FEv.sec who (.commit k v r) = lab at hstep
  cases hstep with
  | commit i f s' r' hf hh hfull hc =>
    injection hev with hw hev
    injection hev with hk hv hr
    subst hw; subst hk; subst hv
    obtain ⟨hadd, _⟩ := atLoopHead_ok (hok i f hf) hh
    refine ⟨i, σ0, rfl, hpre, frame_origin hpre i f hf, hadd, hfull, ?_⟩
    rw [← ha0.live, aSize_pairs, ← h0.size_eq]
    have : ¬ (σ0.cache.size + (f.key.length + f.val.length) > c.maxSize) ∧
        ¬ (σ0.cache.lru.length = c.maxCount) := by
      simpa [full, Frame.add] using hfull
    exact ⟨by omega, by simpa [pairs] using this.2⟩
  | _ => cases hev

/-- **The check is re-evaluated at every loop head, and it alone decides**: a frame at the
head of the loop (first section past the refusal tests, or back from a callback) that runs a
section evicts if `full` holds for its key and value in the present cache, and stores if it
does not — whatever happened since the frame last looked. -/
theorem loop_head_decides {c : Conf} {σ σ' : FSt} {i : Nat} {f : Frame} {ev : Ev}
    (hf : σ.frames[i]? = some f) (hh : f.atLoopHead c σ.cache)
    (hs : FStep c σ (.sec (some i) ev) σ') :
    (full c σ.cache f.add = true → ∃ k v, ev = .evict k v) ∧
    (full c σ.cache f.add = false → ∃ r, ev = .commit f.key f.val r) := by
  generalize hev : FEv.sec (some i) ev = lab at hs
  cases hs with
  | refuse j g hg hp hc =>
    injection hev with hw hev
    injection hw with hw; subst hw
    rw [hf] at hg; injection hg with hg; subst hg
    rcases hh with ⟨_, hpr⟩ | hl
    · exact absurd hpr hc
    · rw [hp] at hl; cases hl
  | evict j g s' e hg hh' hfull he =>
    injection hev with hw hev
    injection hw with hw; subst hw
    rw [hf] at hg; injection hg with hg; subst hg
    subst hev
    exact ⟨fun _ => ⟨_, _, rfl⟩, fun h => (by rw [hfull] at h; cases h)⟩
  | onDelete j g k v hg hp =>
    injection hev with hw hev
    injection hw with hw; subst hw
    rw [hf] at hg; injection hg with hg; subst hg
    rcases hh with ⟨hs', _⟩ | hl
    · rw [hp] at hs'; cases hs'
    · rw [hp] at hl; cases hl
  | commit j g s' r hg hh' hfull hc =>
    injection hev with hw hev
    injection hw with hw; subst hw
    rw [hf] at hg; injection hg with hg; subst hg
    subst hev
    exact ⟨fun h => (by rw [hfull] at h; cases h), fun _ => ⟨_, rfl⟩⟩
  | call => cases hev
  | get => cases hev
  | del => cases hev
  | clear => cases hev
  | stats => cases hev

/-- **No pending frame is ever stuck.**  In every state of every framed execution (normalised
configuration), every frame that has not returned can run its next step: the guards of the
framed system do not exclude anything the code would do, the eviction loop never reaches the
list sentinel and no `listUnlink` touches an unlinked item, whatever the interleaving. -/
theorem frame_progress {c : Conf} (ok : ConfOk c) {flog : List FRec} {σ : FSt}
    (ht : FTrace c FSt.init flog σ) {i : Nat} {f : Frame} (hf : σ.frames[i]? = some f)
    (hnd : f.phase ≠ .done) : ∃ ev σ', FStep c σ (.sec (some i) ev) σ' := by
  obtain ⟨hok, htr⟩ := ftrace_proj ht (FramesOk.init c)
  have hinv : Inv c σ.cache := (inv_reachable htr).1
  obtain ⟨hev, ⟨s2, r2, hcm⟩, _, _⟩ := sections_total ok hinv f.key f.val
  have head : f.atLoopHead c σ.cache → ∃ ev σ', FStep c σ (.sec (some i) ev) σ' := by
    intro hh
    obtain ⟨hadd, hor⟩ := atLoopHead_ok (hok i f hf) hh
    cases hfull : full c σ.cache f.add with
    | true =>
      have hl : c.lru = true := by
        rcases hor with h1 | h1
        · exact h1
        · rw [hfull] at h1; cases h1
      obtain ⟨s', e, he⟩ := hev f.add hl hadd hfull
      exact ⟨_, _, FStep.evict σ i f s' e hf hh hfull he⟩
    | false => exact ⟨_, _, FStep.commit σ i f s2 r2 hf hh hfull hcm⟩
  cases hp : f.phase with
  | start =>
    by_cases hc : setCheck c σ.cache f.key f.val = .proceed
    · exact head (Or.inl ⟨hp, hc⟩)
    · exact ⟨_, _, FStep.refuse σ i f hf hp hc⟩
  | cb k v => exact ⟨_, _, FStep.onDelete σ i f k v hf hp⟩
  | loop => exact head (Or.inr hp)
  | done => exact absurd hp hnd

/-! ### The nested interpreter runs framed executions -/

/-- **Every script of the nested interpreter is a framed execution.**  For every configuration
`New` accepts and every script (any calls, any callback behaviour, re-entrant to any depth),
`runScript` returns, and its log is the projection of a framed execution from the empty cache
in which every `Set` is a `call` label followed by the sections of its own frame, what a
callback does runs as further frames between the caller's `onDelete` label and its next
section, and at the end every frame has returned.  So the framed theorems above speak about
exactly the histories the differential tie compares with the Go code. -/
theorem run_is_framed (r : RawConf) (ops : List Op) :
    ∃ s log flog σ, runScript r ops = .ok (s, log) ∧ FTrace (newConf r) FSt.init flog σ ∧
      projLog flog = log ∧ σ.cache = s ∧ ∀ f ∈ σ.frames, f.phase = .done := by
  obtain ⟨s, log, hr, _⟩ := run_is_history r ops
  obtain ⟨flog, σ, extra, ht, hp, hc, hf, hd⟩ :=
    (run_framed (newConf r)).2.2 ops St.init FSt.init s log rfl hr
  refine ⟨s, log, flog, σ, hr, ht, hp, hc, ?_⟩
  intro f hmem
  rw [hf] at hmem
  exact hd f (by simpa [FSt.init] using hmem)

/-! ### Non-vacuity: an execution with two interleaved frames -/

def exConf : Conf := { maxSize := 4, maxElem := 4, maxCount := 2, lru := true, hasCb := true }

/-- MaxSize 4, MaxCount 2, LRU, callback.  Frame 2 (`Set(03, 03)`) evicts `(01, 02)`; before it
gets to call `OnDelete`, another goroutine's `Set(09, 09)` (frame 3) is made and stores —
filling the cache again; frame 2 then calls `OnDelete(01, 02)`, re-evaluates the loop
condition, finds the cache full once more and evicts `(02, 02)`; a `Get` runs between that
eviction and its callback; then `OnDelete(02, 02)`, and at last the `Set` fits and stores. -/
example : ∃ flog σ, FTrace exConf FSt.init flog σ ∧
    flog.map (·.ev) =
      [.call 0 [1] [2], .sec (some 0) (.commit [1] [2] false),
       .call 1 [2] [2], .sec (some 1) (.commit [2] [2] false),
       .call 2 [3] [3], .sec (some 2) (.evict [1] [2]),
       .call 3 [9] [9], .sec (some 3) (.commit [9] [9] false),
       .sec (some 2) (.onDelete [1] [2]),
       .sec (some 2) (.evict [2] [2]), .sec none (.get [9] (some [9])), .sec (some 2) (.onDelete [2] [2]),
       .sec (some 2) (.commit [3] [3] false)] := by
  refine ⟨_, _,
    .cons (.call _ [1] [2]) <|
    .cons (.commit _ 0 ⟨[1], [2], .start⟩ _ false rfl (Or.inl ⟨rfl, by decide⟩) (by decide) rfl) <|
    .cons (.call _ [2] [2]) <|
    .cons (.commit _ 1 ⟨[2], [2], .start⟩ _ false rfl (Or.inl ⟨rfl, by decide⟩) (by decide) rfl) <|
    .cons (.call _ [3] [3]) <|
    .cons (.evict _ 2 ⟨[3], [3], .start⟩ _ ⟨[1], [2], true⟩ rfl (Or.inl ⟨rfl, by decide⟩) (by decide) rfl) <|
    .cons (.call _ [9] [9]) <|
    .cons (.commit _ 3 ⟨[9], [9], .start⟩ _ false rfl (Or.inl ⟨rfl, by decide⟩) (by decide) rfl) <|
    .cons (.onDelete _ 2 ⟨[3], [3], .cb [1] [2]⟩ [1] [2] rfl rfl) <|
    .cons (.evict _ 2 ⟨[3], [3], .loop⟩ _ ⟨[2], [2], true⟩ rfl (Or.inr rfl) (by decide) rfl) <|
    .cons (.get _ _ [9] (some [9]) rfl) <|
    .cons (.onDelete _ 2 ⟨[3], [3], .cb [2] [2]⟩ [2] [2] rfl rfl) <|
    .cons (.commit _ 2 ⟨[3], [3], .loop⟩ _ false rfl (Or.inr rfl) (by decide) rfl) <|
    .nil _, rfl⟩
end GolibsVerif.C09
