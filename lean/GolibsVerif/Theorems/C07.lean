/-
C07 — property theorems: `(*Record).UnmarshalText` implements the hosts(5) field grammar
(`Spec/C07.lean`) for every byte line and every behaviour of `idna.ToASCII`; its rejections
are classified as the property says; the two cutting passes agree; `MarshalText` of an
accepted record re-parses to the same record (no contract: `netip.Addr.MarshalText` /
`String` are modelled in `Go/NetipFmt.lean` and proved to be inverted by the `ParseAddr`
model, `addr_roundtrip`); nothing panics.

`NameOK toASCII n` is `C03.DomainNameOK toASCII n`, i.e. by `C03.validateDomainName_iff`
"`netutil.ValidateDomainName(n) == nil`"; `parseAddr` is the Lean model of `netip.ParseAddr`.
-/
import GolibsVerif.Lemmas.C07
import GolibsVerif.Lemmas.C07Addr
import GolibsVerif.Lemmas.NetipFmt
import GolibsVerif.Lemmas.NetipFmtWF

namespace GolibsVerif.C07
open GolibsVerif GolibsVerif.Str GolibsVerif.Netutil GolibsVerif.Netip

/-- The cutset regenerated from `/repo/hostsfile/record.go` is the documented one (space and
tab); an edit breaks this obligation. -/
theorem consts_documented : spaces = [32, 9] := rfl

/-- `UnmarshalText` never panics and always returns (no index/slice expression of
`cutField`, `cutStringField` or the comment cut can fail; the validation loop terminates —
that is the well-founded recursion of the model). -/
theorem unmarshal_total (toASCII : Bytes → Option Bytes) (r : Record) (line : Bytes) :
    ∃ res, unmarshalText toASCII r line = .ok res :=
  ⟨_, unmarshalText_eq toASCII r line⟩

/-- `cutField` / `cutStringField` never panic and are the same function. -/
theorem cut_total (data : Bytes) :
    (∃ res, cutField data = .ok res) ∧ cutStringField data = cutField data :=
  ⟨⟨_, cut_eq data⟩, rfl⟩

/-! ### acceptance -/

/-- **Acceptance ⇔ grammar, with exactly the parsed data.**
(1) If the comment-stripped line consists of blank-separated fields `f :: names` with
`names` non-empty, `netip.ParseAddr f = a` and every name accepted by `ValidateDomainName`,
then `UnmarshalText` returns `nil` and sets `Addr = a`, `Names = names` (in order), leaving
`Source` alone.  (2) Conversely, whenever it returns `nil` the line is of that form for the
`Addr` and `Names` now stored in the record. -/
theorem unmarshal_iff (toASCII : Bytes → Option Bytes) (r : Record) (line : Bytes) :
    (∀ a names, WellFormed toASCII line a names →
        unmarshalText toASCII r line = .ok ({ r with addr := a, names := names }, none)) ∧
    (∀ r', unmarshalText toASCII r line = .ok (r', none) →
        WellFormed toASCII line r'.addr r'.names ∧ r'.source = r.source) := by
  rw [unmarshalText_eq]
  constructor
  · rintro a names ⟨f, hf, hne, hp, hv⟩
    rw [hf]
    cases names with
    | nil => exact absurd rfl hne
    | cons n1 rest =>
      have hall : ∀ n ∈ n1 :: rest, vdn toASCII n = none :=
        fun n hn => (vdn_none_iff toASCII n).2 (hv n hn)
      simp only [refUnmarshal, hp, goodPrefix_of_all toASCII _ hall, (firstBad_none_iff toASCII _).2 hall]
  · intro r' h
    injection h with h
    match hfs : fields line, h with
    | [], h => simp [refUnmarshal] at h
    | [_], h => simp [refUnmarshal] at h
    | f :: n1 :: rest, h =>
      unfold refUnmarshal at h
      cases hp : parseAddr f with
      | none => simp [hp] at h
      | some a =>
        simp only [hp, Prod.mk.injEq] at h
        obtain ⟨h1, h2⟩ := h
        have hall := (firstBad_none_iff toASCII _).1 h2
        rw [goodPrefix_of_all toASCII _ hall] at h1
        subst h1
        exact ⟨⟨f, hfs, by simp, hp, fun n hn => (vdn_none_iff toASCII n).1 (hall n hn)⟩, rfl⟩

/-- acceptance as an equivalence -/
theorem unmarshal_accepts_iff (toASCII : Bytes → Option Bytes) (r : Record) (line : Bytes) :
    (∃ r', unmarshalText toASCII r line = .ok (r', none)) ↔ ∃ a names, WellFormed toASCII line a names := by
  obtain ⟨h1, h2⟩ := unmarshal_iff toASCII r line
  constructor
  · rintro ⟨r', h⟩; exact ⟨_, _, (h2 r' h).1⟩
  · rintro ⟨a, names, h⟩; exact ⟨_, h1 a names h⟩

/-! ### rejection classes -/

/-- **Classification of rejected lines.**  No field → `ErrEmptyLine`, record untouched; one
field → `ErrNoHosts`, record untouched; ≥ 2 fields with an unparsable first one → the
address parse error (`Addr` reset to the zero value, `Names` untouched); otherwise the first
name rejected by `ValidateDomainName` — at index `|pre|` — yields
`name at index |pre|: *AddrError{Kind: "domain name", Addr: bad}` and `Names` holds exactly
the names before it. -/
theorem unmarshal_err_class (toASCII : Bytes → Option Bytes) (r : Record) (line : Bytes) :
    (fields line = [] → unmarshalText toASCII r line = .ok (r, some .emptyLine)) ∧
    (∀ f, fields line = [f] → unmarshalText toASCII r line = .ok (r, some .noHosts)) ∧
    (∀ f n1 rest, fields line = f :: n1 :: rest → parseAddr f = none →
        unmarshalText toASCII r line = .ok ({ r with addr := .invalid }, some .addrParse)) ∧
    (∀ f a pre bad post, fields line = f :: (pre ++ bad :: post) → parseAddr f = some a →
        (∀ n ∈ pre, NameOK toASCII n) → ¬ NameOK toASCII bad →
        ∃ inner, unmarshalText toASCII r line =
          .ok ({ r with addr := a, names := pre },
               some (.name pre.length (.addr .domainName bad (some inner))))) := by
  rw [unmarshalText_eq]
  refine ⟨?_, ?_, ?_, ?_⟩
  · intro h; rw [h]; rfl
  · intro f h; rw [h]; rfl
  · intro f n1 rest h hp; rw [h]; simp [refUnmarshal, hp]
  · intro f a pre bad post h hp hpre hbad
    rw [h]
    have hgp : goodPrefix toASCII (pre ++ bad :: post) = pre := by
      unfold goodPrefix
      have hb : vdn toASCII bad ≠ none := fun hn => hbad ((vdn_none_iff toASCII bad).1 hn)
      rw [List.takeWhile_append_of_pos (by
        intro n hn; simp [(vdn_none_iff toASCII n).2 (hpre n hn)])]
      cases hv : vdn toASCII bad with
      | none => exact absurd hv hb
      | some e => simp [List.takeWhile, hv]
    cases hv : vdn toASCII bad with
    | none => exact absurd ((vdn_none_iff toASCII bad).1 hv) hbad
    | some e =>
      have hve : validateDomainName toASCII bad = .ok (some e) := by rw [vdn_eq, hv]
      obtain ⟨inner, hinner⟩ := (C03.reject_is_addrError toASCII bad e).2.1 hve
      refine ⟨inner, ?_⟩
      rw [refUnmarshal_two toASCII r f _ (by simp)]
      simp only [hp, firstBad, hgp]
      simp [hv, hinner]

/-! ### the two passes -/

/-- **The two cutting passes agree.**  Whatever the first pass (cut, validate, count)
returns for a hosts string — the count `n`, the error, and the fields it validated — the
second pass (`make([]string, n)` filled by re-cutting the same string) yields exactly those
validated fields, and `n` is their number.  Holds for every string, with or without leading
blanks. -/
theorem two_pass_agree (toASCII : Bytes → Option Bytes) (hosts : Bytes)
    (n : Nat) (err : Option RecErr) (seen : List Bytes)
    (h : validateLoop toASCII hosts 0 [] = .ok (n, err, seen)) :
    n = seen.length ∧ fillNames n hosts = .ok seen := by
  by_cases hw : hosts.takeWhile nsp = []
  · rw [validateLoop_unfold] at h
    simp only [cutString_eq, hw, if_true, pure, Except.pure] at h
    injection h with h
    simp only [Prod.mk.injEq] at h
    obtain ⟨rfl, _, rfl⟩ := h
    simp [fillNames, pure, Except.pure]
  · have hl : NoLead hosts := by
      intro b hb
      cases hosts with
      | nil => simp at hb
      | cons c t =>
        simp at hb; subst hb
        by_cases hc : nsp c = true
        · exact hc
        · simp [List.takeWhile, hc] at hw
    rw [validateLoop_eq toASCII hosts.length hosts 0 [] (Nat.le_refl _) hl, scan_eq] at h
    injection h with h
    simp only [Prod.mk.injEq, Nat.zero_add, List.nil_append] at h
    obtain ⟨rfl, _, rfl⟩ := h
    refine ⟨rfl, ?_⟩
    rw [fillNames_eq _ _ hl (goodPrefix_length_le _ _), take_goodPrefix]

/-! ### round trip -/

/-- Every record obtained by a successful parse has at least one name, and every name is
non-empty and free of blanks and `'#'`. -/
theorem accepted_names_clean (toASCII : Bytes → Option Bytes) (r r' : Record) (line : Bytes)
    (h : unmarshalText toASCII r line = .ok (r', none)) :
    r'.names ≠ [] ∧ ∀ n ∈ r'.names, n ≠ [] ∧ ∀ b ∈ n, isSep b = false := by
  obtain ⟨⟨f, hf, hne, _, _⟩, _⟩ := (unmarshal_iff toASCII r line).2 r' h
  refine ⟨hne, fun n hn => mem_fields (line := line) ?_⟩
  rw [hf]; simp [hn]

/-- **`netip.ParseAddr` inverts `netip.Addr.String` / `MarshalText`** (formerly the trusted
contract ADDR-RT).  For every non-zero address — four bytes, or sixteen bytes with any zone
(`[]` = no zone; a zone may contain `'%'`, `':'`, `'.'`, anything: the parser cuts at the
*first* `'%'` and the address part never contains one) — the model of `ParseAddr` applied to
the model of `String()` (dotted decimal; `::ffff:a.b.c.d` for IPv4-mapped; lower-case hex
groups without leading zeros, the first longest run of ≥ 2 zero groups written `::`;
`%zone`) returns the address.  `MarshalText` gives the same text. -/
theorem addr_roundtrip (a : Addr) (h : WF a) :
    parseAddr (addrString a) = some a ∧ addrMarshalText a = addrString a :=
  ⟨parseAddr_addrString a h, (addrString_eq_marshalText a (by rintro rfl; exact h)).symm⟩

/-- Every address `ParseAddr` returns is well-formed: four resp. sixteen bytes below 256,
never the zero `Addr`. -/
theorem parsed_addr_wf (s : Bytes) (a : Addr) (h : parseAddr s = some a) : WF a :=
  parseAddr_wf s a h

/-- **Round trip.**  If `UnmarshalText` accepted a line and produced `r`, then parsing
`r.MarshalText()` succeeds and yields the same `Addr` and `Names` (`Source` is never touched
by `UnmarshalText`).  No hypothesis: `MarshalText` calls `netip.Addr.MarshalText`, modelled
statement by statement in `Go/NetipFmt.lean` (`addrMarshalText`), and the address of an
accepted record came out of `ParseAddr`, hence is well-formed and parses back from its own
text (`addr_roundtrip`).  That the text form of `a` contains no blank and no `'#'` follows
from the `netip` parser model (`addr_text_clean`: such a byte could only sit in the zone,
and the zone of `a` was cut out of a blank/`#`-free field). -/
theorem marshal_unmarshal (toASCII : Bytes → Option Bytes)
    (r0 r0' r : Record) (line : Bytes)
    (hacc : unmarshalText toASCII r0 line = .ok (r, none)) :
    unmarshalText toASCII r0' (marshalText addrMarshalText r) =
      .ok ({ r with source := r0'.source }, none) := by
  obtain ⟨⟨f, hf, hne, hp, hv⟩, _⟩ := (unmarshal_iff toASCII r0 line).2 r hacc
  have hrt : parseAddr (addrMarshalText r.addr) = some r.addr :=
    parseAddr_addrMarshalText r.addr (parseAddr_wf f r.addr hp)
  generalize addrMarshalText = formatAddr at hrt ⊢
  have hclean : ∀ b ∈ formatAddr r.addr, isSep b = false :=
    addr_text_clean f _ r.addr (mem_fields (line := line) (by rw [hf]; simp)).2 hp hrt
  obtain ⟨_, hnames⟩ := accepted_names_clean toASCII r0 r line hacc
  have hwne : formatAddr r.addr ≠ [] := by
    intro h; rw [h] at hrt; simp [parseAddr, parseAddrDispatch] at hrt
  have hfields : fields (marshalText formatAddr r) = formatAddr r.addr :: r.names := by
    unfold fields
    have hstrip : stripComment (marshalText formatAddr r) = marshalText formatAddr r := by
      unfold stripComment
      apply takeWhile_eq_self
      intro b hb
      rw [marshalText_eq, List.mem_append, List.mem_flatMap] at hb
      have hsep : isSep b = false ∨ b = 32 := by
        rcases hb with hb | ⟨n, hn, hb⟩
        · exact Or.inl (hclean b hb)
        · simp only [List.mem_cons] at hb
          rcases hb with rfl | hb
          · exact Or.inr rfl
          · exact Or.inl ((hnames n hn).2 b hb)
      rcases hsep with h | rfl
      · simp only [isSep, Bool.or_eq_false_iff] at h
        simpa using h.2
      · decide
    rw [hstrip, marshalText_eq]
    exact fieldsOf_join _ _ ⟨hwne, hclean⟩ hnames
  have := (unmarshal_iff toASCII r0' (marshalText formatAddr r)).1 r.addr r.names
    ⟨formatAddr r.addr, hfields, hne, hrt, hv⟩
  rw [this]

/-- the same with `Addr.String()` as the formatter (equal to `MarshalText` on every address an
accepted record can hold) -/
theorem marshal_unmarshal_string (toASCII : Bytes → Option Bytes)
    (r0 r0' r : Record) (line : Bytes)
    (hacc : unmarshalText toASCII r0 line = .ok (r, none)) :
    unmarshalText toASCII r0' (marshalText addrString r) =
      .ok ({ r with source := r0'.source }, none) := by
  obtain ⟨⟨f, _, _, hp, _⟩, _⟩ := (unmarshal_iff toASCII r0 line).2 r hacc
  have hwf := parseAddr_wf f r.addr hp
  have : marshalText addrString r = marshalText addrMarshalText r := by
    unfold marshalText
    rw [addrString_eq_marshalText r.addr (by intro h; rw [h] at hwf; exact hwf)]
  rw [this]
  exact marshal_unmarshal toASCII r0 r0' r line hacc

/-! ### the result depends on the fields only -/

/-- **The outcome is a function of the fields.**  Two lines with the same blank-separated
fields before their comments get the same result from `UnmarshalText` — the same record
*and* the same error: the amount and kind (space or tab) of blank between fields, leading and
trailing blanks, and the comment never matter. -/
theorem unmarshal_fields_only (toASCII : Bytes → Option Bytes) (r : Record) (line line' : Bytes)
    (h : fields line = fields line') :
    unmarshalText toASCII r line = unmarshalText toASCII r line' := by
  rw [unmarshalText_eq, unmarshalText_eq, h]

/-- **The comment is never read**: everything from the first `'#'` on is irrelevant to the
record and to the error (for every `pre`, with or without a `'#'` of its own). -/
theorem comment_irrelevant (toASCII : Bytes → Option Bytes) (r : Record) (pre c : Bytes) :
    unmarshalText toASCII r (pre ++ hash :: c) = unmarshalText toASCII r pre :=
  unmarshal_fields_only toASCII r _ _ (by unfold fields; rw [stripComment_append_hash])

/-! ### Non-vacuity -/

/-- premise of `unmarshal_fields_only` on two differently spaced and commented lines -/
example : fields (ascii " 1.2.3.4\ta.b  c \t# x y") = fields (ascii "1.2.3.4 a.b c") := by decide


def idAscii : Bytes → Option Bytes := some

def zeroRec : Record := { addr := .invalid, source := [], names := [] }

/-- a well-formed line with tabs, repeated blanks, leading/trailing blanks and a comment -/
example : WellFormed idAscii (ascii " 1.2.3.4\ta.b  c \t# x y") (.v4 [1, 2, 3, 4]) [ascii "a.b", ascii "c"] :=
  ⟨ascii "1.2.3.4", by decide, by decide, by decide, by
    intro n hn
    simp only [List.mem_cons, List.not_mem_nil, or_false] at hn
    rcases hn with rfl | rfl
    · exact (C03.validateDomainName_iff _ _).1 ((C03.accepted_iff _).1 (by decide))
    · exact (C03.validateDomainName_iff _ _).1 ((C03.accepted_iff _).1 (by decide))⟩

example : fields (ascii "# only a comment") = [] := by decide
example : fields (ascii "::1 # no names") = [ascii "::1"] := by decide
example : fields (ascii "fe80::1%eth0 a\tb\r") = [ascii "fe80::1%eth0", ascii "a", ascii "b\r"] := by decide
example : parseAddr (ascii "1.2.3.4.5") = none := by decide
example : parseAddr (ascii "0:0::1") = some (.v6 [0,0,0,0,0,0,0,0,0,0,0,0,0,0,0,1] []) ∧
    parseAddr (ascii "::1") = some (.v6 [0,0,0,0,0,0,0,0,0,0,0,0,0,0,0,1] []) := by decide
/-- the formatter model on the shapes of `Addr.String`'s documentation, a zone containing
`'%'`, the first-of-two-equal-runs rule and a single zero group (not compressed) -/
example : addrString (.v4 [192, 0, 2, 1]) = ascii "192.0.2.1" ∧
    addrString (.v6 [0x20,1,0xd,0xb8,0,0,0,0,0,0,0,0,0,0,0,1] []) = ascii "2001:db8::1" ∧
    addrString (.v6 [0,0,0,0,0,0,0,0,0,0,255,255,1,2,3,4] (ascii "z")) = ascii "::ffff:1.2.3.4%z" ∧
    addrString (.v6 [0xfe,0x80,0,0,0,0,0,0,0,0,0,0,0,0,0,1] (ascii "a%b")) = ascii "fe80::1%a%b" ∧
    addrString (.v6 [0,1,0,0,0,0,0,1,0,0,0,0,0,1,0,1] []) = ascii "1::1:0:0:1:1" ∧
    addrString (.v6 [0,1,0,0,0,1,0,1,0,1,0,1,0,1,0,1] []) = ascii "1:0:1:1:1:1:1:1" ∧
    addrString (.v6 (List.replicate 16 0) []) = ascii "::" ∧
    addrString .invalid = ascii "invalid IP" ∧ addrMarshalText .invalid = [] := by decide
/-- `WF` is satisfiable (and excludes the zero `Addr`) -/
example : WF (.v6 (List.replicate 16 0) (ascii "%")) ∧ WF (.v4 [0, 0, 0, 255]) ∧ ¬ WF .invalid :=
  ⟨⟨rfl, by decide⟩, ⟨rfl, by decide⟩, fun h => h⟩
/-- a name that `ValidateDomainName` rejects (over-long label) after a valid one -/
example : C03.accepted (validateDomainName idAscii (ascii "a.b")) = true ∧
    C03.accepted (validateDomainName idAscii (List.replicate 64 97)) = false := by decide

end GolibsVerif.C07
