/-
C12 — SORT-1, the contract of `slices.SortFunc`, as a theorem about the model of Go 1.24.2's
`pdqsortCmpFunc` (`Go/Sort.lean`, written statement by statement after
`$GOROOT/src/slices/zsortanyfunc.go` and `sort.go`; compared with the real `slices.SortFunc` on
every run by the `C12.std.sortfunc` cases, also for inconsistent comparators).

Only property theorems and non-vacuity examples live here; the proofs are in
`Lemmas/SortBasic.lean` (checked accesses, `Frame`), `SortInsertion`, `SortHeap`,
`SortPartition`, `SortMisc` (`reverseRange`, `breakPatterns`, `choosePivot`), `SortPartial`
(`partialInsertionSort`), `SortPdq` (the main induction) and `SortC12`.
-/
import GolibsVerif.Theorems.C12
import GolibsVerif.Lemmas.SortC12

namespace GolibsVerif.C12
open GolibsVerif.Slices (sortFunc sortFuncVal)

/-- For EVERY comparator — no hypothesis, inconsistent comparators included — and every slice
the model of `slices.SortFunc` returns: no index is ever out of range (Go: no panic) and no
loop runs out of its fuel (Go: the call terminates). -/
theorem sortFunc_total {α : Type} (cmp : α → α → Int) (l : List α) : ∃ r, sortFunc cmp l = .ok r := by
  obtain ⟨r, h, _⟩ := Slices.sortFunc_spec cmp l
  exact ⟨r, h⟩

/-- For EVERY comparator the slice after the call is a permutation of the slice before. -/
theorem sortFunc_perm {α : Type} (cmp : α → α → Int) (l r : List α) (h : sortFunc cmp l = .ok r) :
    r.Perm l := by
  obtain ⟨r', h', hp, _⟩ := Slices.sortFunc_spec cmp l
  rw [h'] at h; cases h
  exact hp

/-- If `cmp(a, b) < 0` is a strict weak order, the slice after the call is sorted: no element is
less than an earlier one (`slices.IsSortedFunc`; equivalent elements may be in any order). -/
theorem sortFunc_sorted {α : Type} (cmp : α → α → Int) (hw : StrictWeakOrder (fun a b => cmp a b < 0))
    (l r : List α) (h : sortFunc cmp l = .ok r) : Sorted cmp r := by
  obtain ⟨r', h', _, hs⟩ := Slices.sortFunc_spec cmp l
  rw [h'] at h; cases h
  exact hs (Slices.WeakCmp.of_strictWeakOrder hw)

/-- `sortFuncVal` is the value of the (always successful) call -/
theorem sortFunc_val {α : Type} (cmp : α → α → Int) (l : List α) : sortFunc cmp l = .ok (sortFuncVal cmp l) :=
  Slices.sortFunc_eq_val cmp l

/-- SORT-1 holds for the model of `slices.SortFunc`, for every element type. -/
theorem sort_contract_model {α : Type} : SortContract (α := α) sortFuncVal :=
  ⟨fun cmp l _ => sortFunc_perm cmp l _ (sortFunc_val cmp l),
   fun cmp l hw => sortFunc_sorted cmp hw l _ (sortFunc_val cmp l)⟩

/-- The ordering claim of C12 without the SORT-1 hypothesis: `slices.SortFunc(l, PreferIPv4)`
(`PreferIPv6`), as modelled, returns a permutation of `l` in which valid IPv4 (IPv6) addresses
come first in ascending `Addr.Compare` order, then the valid addresses of the other family in
ascending order, then the invalid ones. -/
theorem sortFunc_order_stdlib (l : List Addr) :
    ((sortFuncVal preferIPv4 l).Perm l ∧ StatedOrder Addr.is4 (sortFuncVal preferIPv4 l)) ∧
    ((sortFuncVal preferIPv6 l).Perm l ∧ StatedOrder Addr.is6 (sortFuncVal preferIPv6 l)) :=
  sortFunc_order sortFuncVal sort_contract_model l

/-! ### non-vacuity -/

-- the hypothesis of `sortFunc_sorted` is satisfiable: the numeric order, the order of the
-- residues mod 3 (large classes of equivalent elements), and golibs' own comparators
example : StrictWeakOrder (fun a b : Nat => (a : Int) - b < 0) :=
  ⟨by intro a; omega, by intro a b c; omega, by intro a b c; omega⟩

example : StrictWeakOrder (fun a b : Nat => ((a % 3 : Nat) : Int) - ((b % 3 : Nat) : Int) < 0) :=
  ⟨by intro a; omega, by intro a b c; omega, by intro a b c; omega⟩

example (l : List Addr) : Sorted preferIPv4 (sortFuncVal preferIPv4 l) :=
  sortFunc_sorted _ prefer_strict_weak.1 l _ (sortFunc_val _ l)

-- `sortFunc_total` / `sortFunc_perm` need no hypothesis: e.g. the comparator that always answers -1
example (l : List Nat) : ∃ r, sortFunc (fun _ _ => -1) l = .ok r ∧ r.Perm l :=
  ⟨_, sortFunc_val _ l, sortFunc_perm _ l _ (sortFunc_val _ l)⟩

end GolibsVerif.C12
