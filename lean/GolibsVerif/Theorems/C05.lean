import GolibsVerif.Model.NetReversed
namespace GolibsVerif.C05
theorem placeholder : True := trivial
end GolibsVerif.C05
