/-
C05 — property theorems: `PrefixFromReversedAddr` and `ExtractReversedAddr` (models in
`Model/NetReversed.lean`) return exactly the network the reference decoder `Spec/C05.lean`
reads off the labels; every accepted prefix has all host bits zero; and (C01 for these
functions) neither function panics, indexes out of range or runs out of loop fuel.

Contracts on `idna.ToASCII` (a parameter of the models) are explicit hypotheses:
* `hDot` — a name that starts with a dot is mapped to a name that starts with a dot
  (consequence of IDNA-2 "labels are mapped position-wise");
* `hT` (IDNA-1) — an all-ASCII name without `xn--` labels is returned unchanged.
The `example`s at the end show that each hypothesis is needed where it is used.
-/
import GolibsVerif.Lemmas.C05Idna

namespace GolibsVerif.C05
open GolibsVerif.Netutil GolibsVerif.Str GolibsVerif.Netip GolibsVerif GolibsVerif.Gen.Consts

/-! ### 1. Totality (C01) -/

/-- `PrefixFromReversedAddr` never panics: for EVERY behaviour of `idna.ToASCII` and every
input the model returns normally (no out-of-range index or slice, `ip[l]` never beyond the
array, no fuel exhaustion, `replaceKind` never hits its `panic`). -/
theorem prefixFromReversedAddr_total (toASCII : Bytes → Option Bytes) (s : Bytes) :
    ∃ r, prefixFromReversedAddr toASCII s = .ok r := by
  rw [prefix_unfold]
  rcases prologue_cases toASCII s with ⟨_, h⟩ | ⟨_, e, h⟩
  · rw [h]
    obtain ⟨r, hr, _⟩ := prefixCore_spec _ (noUpper_asciiLower (trimSuffix s [46]))
    simp only [hr]
    exact ⟨_, rfl⟩
  · rw [h]; exact ⟨_, rfl⟩

/-- `ExtractReversedAddr` never panics, provided `idna.ToASCII` keeps a leading dot (so that a
validated name has a non-empty first label). -/
theorem extractReversedAddr_total (toASCII : Bytes → Option Bytes)
    (hDot : ∀ s t, toASCII s = some t → s.head? = some 46 → t.head? = some 46) (d : Bytes) :
    ∃ r, extractReversedAddr toASCII d = .ok r := by
  rw [extract_unfold]
  rcases prologue_cases toASCII d with ⟨hv, h⟩ | ⟨_, e, h⟩
  · rw [h]
    have hhead := valid_no_leading_dot toASCII hDot _ hv
    rcases extractCore_spec _ (noUpper_asciiLower (trimSuffix d [46])) with ⟨r, hr, _⟩ | ⟨hd, _⟩
    · simp only [hr]; exact ⟨_, rfl⟩
    · exact absurd ((head_asciiLower _).1 hd) hhead
  · rw [h]; exact ⟨_, rfl⟩

/-- `subnetFromReversedV4` is total on every string that ends with `in-addr.arpa` (what both
callers pass), including strings that are not valid domain names. -/
theorem subnetFromReversedV4_total (arpa : Bytes) (h : hasSuffix arpa v4tail = true) :
    ∃ r, subnetFromReversedV4 arpa = .ok r := by
  obtain ⟨pre, rfl⟩ := (hasSuffix_iff _ _).1 h
  obtain ⟨r, hr, _⟩ := subnetV4_spec pre
  exact ⟨r, hr⟩

/-- `subnetFromReversedV6` is total on every string that ends with `ip6.arpa`. -/
theorem subnetFromReversedV6_total (arpa : Bytes) (h : hasSuffix arpa v6tail = true) :
    ∃ r, subnetFromReversedV6 arpa = .ok r := by
  obtain ⟨pre, rfl⟩ := (hasSuffix_iff _ _).1 h
  obtain ⟨r, hr, _⟩ := subnetV6_total pre
  exact ⟨r, hr⟩

/-- `ipv4NetFromReversed` is total on every string with at most three dots (its caller passes
at most two): `ip[l]` stays inside the `[4]byte`, the slices stay in range, the loop ends. -/
theorem ipv4NetFromReversed_total (arpa : Bytes) (h : countByte arpa 46 ≤ 3) :
    ∃ r, ipv4NetFromReversed arpa = .ok r := by
  obtain ⟨l, R, hl, hR, ha, _⟩ := exists_frontOf arpa
  have hc : countByte arpa 46 = R.length := by
    have h1 := count_dot_frontOf R hR
    have h2 := count_dot_dotfree l hl
    unfold countByte at *
    rw [ha, List.count_append, h1, h2]; rfl
  obtain ⟨r, hr, _⟩ := ipv4NetLoop_spec R l (arpa.length + 1) [] hl hR
    (by have := length_frontOf_ge R; rw [ha]; simp; omega) (by simp; omega)
  unfold ipv4NetFromReversed
  rw [ha] at hr ⊢
  simp only [bind, Except.bind, pure, Except.pure, hr]
  cases r <;> exact ⟨_, rfl⟩

/-- `ipv6FromReversed` is total on every string of at least 64 bytes (its callers pass 72). -/
theorem ipv6FromReversed_total (arpa : Bytes) (h : 64 ≤ arpa.length) :
    ∃ r, ipv6FromReversed arpa = .ok r := by
  obtain ⟨r, hr, _⟩ := ipv6FromReversedLoop_spec 16 [] arpa 0 [] (by simp) (by omega)
  unfold ipv6FromReversed
  simp only [List.nil_append] at hr
  simp only [bind, Except.bind, pure, Except.pure, hr]
  cases r <;> exact ⟨_, rfl⟩

/-- `ipv6NetFromReversed` is total on every string shorter than 72 bytes that ends with
`ip6.arpa` (what `subnetFromReversedV6` passes): `arpa[nibbleIdx+1]` and `ip[l/2]` stay in
range. -/
theorem ipv6NetFromReversed_total (arpa : Bytes) (h : hasSuffix arpa v6tail = true)
    (hlen : arpa.length < arpaV6MaxLen) : ∃ r, ipv6NetFromReversed arpa = .ok r := by
  obtain ⟨r, hr⟩ := subnetFromReversedV6_total arpa h
  refine ⟨r, ?_⟩
  rw [← hr]
  unfold subnetFromReversedV6
  have h1 : ¬ arpa.length = arpaV6MaxLen := by omega
  have h2 : ¬ arpa.length > arpaV6MaxLen := by omega
  simp [h1, h2]

/-- `indexFirstV4Label` is total on every name that ends with a label-aligned `in-addr.arpa`,
and "idx is never negative" (nor beyond the string). -/
theorem indexFirstV4Label_total (domain : Bytes) (h : hasSuffix domain v4tail = true)
    (hal : alignedAt domain arpaV4Suffix.length = .ok true) :
    ∃ i : Nat, indexFirstV4Label domain = .ok (i : Int) ∧ i ≤ domain.length := by
  obtain ⟨pre, rfl⟩ := (hasSuffix_iff _ _).1 h
  rw [alignedAt_eval pre v4tail _ (by decide)] at hal
  have hal' : pre = [] ∨ pre.getLast? = some 46 := by simpa using hal
  obtain ⟨F, hFd, rfl⟩ : ∃ F : List Bytes, (∀ x ∈ F, DotFree x) ∧ pre = frontOf F := by
    rcases hal' with h | h
    · exact ⟨[], by simp, by simp [h, frontOf]⟩
    · obtain ⟨f, rfl⟩ := List.getLast?_eq_some_iff.1 h
      obtain ⟨R, _, hR, hf⟩ := exists_frontOf_of_dot f
      exact ⟨R, hR, hf⟩
  obtain ⟨taken, hsplit, _⟩ := scanP_split octetOK 4 F
  refine ⟨(frontOf (scanP octetOK 4 F)).length, ?_, ?_⟩
  · unfold indexFirstV4Label
    have : ((frontOf F ++ v4tail).length : Int) - (arpaV4Suffix.length : Int) + 1 = ((frontOf F).length : Int) := by
      simp [v4tail, lblInAddr, lblArpa, arpaV4Suffix]; omega
    rw [this]
    exact indexV4_spec 4 F v4tail hFd
  · conv => rhs; rw [hsplit, frontOf_append]
    simp

/-- `indexFirstV6Label` is total on every name that ends with a label-aligned `ip6.arpa` and
does not start with a dot. -/
theorem indexFirstV6Label_total (domain : Bytes) (h : hasSuffix domain v6tail = true)
    (hal : alignedAt domain arpaV6Suffix.length = .ok true) (hd : domain.head? ≠ some 46) :
    ∃ i : Nat, indexFirstV6Label domain = .ok (i : Int) ∧ i ≤ domain.length := by
  obtain ⟨pre, rfl⟩ := (hasSuffix_iff _ _).1 h
  rw [alignedAt_eval pre v6tail _ (by decide)] at hal
  have hal' : pre = [] ∨ pre.getLast? = some 46 := by simpa using hal
  obtain ⟨F, hFd, rfl⟩ : ∃ F : List Bytes, (∀ x ∈ F, DotFree x) ∧ pre = frontOf F := by
    rcases hal' with h | h
    · exact ⟨[], by simp, by simp [h, frontOf]⟩
    · obtain ⟨f, rfl⟩ := List.getLast?_eq_some_iff.1 h
      obtain ⟨R, _, hR, hf⟩ := exists_frontOf_of_dot f
      exact ⟨R, hR, hf⟩
  obtain ⟨taken, hsplit, _⟩ := scanP_split isNib 32 F
  have hlenE : ((frontOf F ++ v6tail).length : Int) - (arpaV6Suffix.length : Int) + 1 = ((frontOf F).length : Int) := by
    simp [v6tail, lblIp6, lblArpa, arpaV6Suffix]; omega
  refine ⟨(frontOf (scanP isNib 32 F)).length, ?_, ?_⟩
  · unfold indexFirstV6Label
    rw [hlenE]
    rcases indexV6_spec 32 F v6tail hFd with hidx | ⟨hlast, _⟩
    · exact hidx
    · exfalso
      apply hd
      have := frontOf_head_dot F hlast
      cases hf : frontOf F with
      | nil => rw [hf] at this; simp at this
      | cons a t => rw [hf] at this; simpa using this
  · conv => rhs; rw [hsplit, frontOf_append]
    simp

/-! ### 2. Host bits -/

/-- Every prefix `PrefixFromReversedAddr` returns is a well-formed IPv4 (`bits ≤ 32`, multiple
of 8) or IPv6 (`bits ≤ 128`, multiple of 4) prefix all of whose host bits are zero — for
every behaviour of `idna.ToASCII`. -/
theorem prefix_masked (toASCII : Bytes → Option Bytes) (s : Bytes) (p : Prefix)
    (h : prefixFromReversedAddr toASCII s = .ok (.ok p)) : Masked p := by
  rw [prefix_unfold] at h
  rcases prologue_cases toASCII s with ⟨_, hp⟩ | ⟨_, e, hp⟩
  · rw [hp] at h
    obtain ⟨r, hr, _, hshape⟩ := prefixCore_spec _ (noUpper_asciiLower (trimSuffix s [46]))
    simp only [hr] at h
    have hr' : r = .ok p := (wrapARPA_ok _ _ _).1 (by injection h)
    rcases hshape p hr' with ⟨os, h1, h2, rfl⟩ | ⟨ns, h1, h2, rfl⟩
    · exact masked_v4Prefix os h1 h2
    · exact masked_v6Prefix ns h1 h2
  · rw [hp] at h; cases h

/-- The same for `ExtractReversedAddr`. -/
theorem extract_masked (toASCII : Bytes → Option Bytes) (d : Bytes) (p : Prefix)
    (h : extractReversedAddr toASCII d = .ok (.ok p)) : Masked p := by
  rw [extract_unfold] at h
  rcases prologue_cases toASCII d with ⟨_, hp⟩ | ⟨_, e, hp⟩
  · rw [hp] at h
    rcases extractCore_spec _ (noUpper_asciiLower (trimSuffix d [46])) with ⟨r, hr, _, hshape⟩ | ⟨_, e, he⟩
    · simp only [hr] at h
      have hr' : r = .ok p := (wrapARPA_ok _ _ _).1 (by injection h)
      rcases hshape p hr' with ⟨os, h1, h2, rfl⟩ | ⟨ns, h1, h2, rfl⟩
      · exact masked_v4Prefix os h1 h2
      · exact masked_v6Prefix ns h1 h2
    · simp only [he] at h; cases h
  · rw [hp] at h; cases h

/-! ### 3. Soundness of `PrefixFromReversedAddr` -/

/-- Soundness, with no hypothesis on `idna.ToASCII`, for inputs that do not start with a dot:
an accepted name decodes, by the reference decoder, to exactly the returned prefix. -/
theorem prefix_sound_of_no_leading_dot (toASCII : Bytes → Option Bytes) (s : Bytes) (p : Prefix)
    (hs : s.head? ≠ some 46)
    (h : prefixFromReversedAddr toASCII s = .ok (.ok p)) : arpaPrefixSpec (labelsOf s) = some p := by
  rw [prefix_unfold] at h
  rcases prologue_cases toASCII s with ⟨_, hp⟩ | ⟨_, e, hp⟩
  · rw [hp] at h
    obtain ⟨r, hr, hspec, _⟩ := prefixCore_spec _ (noUpper_asciiLower (trimSuffix s [46]))
    simp only [hr] at h
    have hr' : r = .ok p := (wrapARPA_ok _ _ _).1 (by injection h)
    have hhead : (asciiLower (trimSuffix s [46])).head? ≠ some 46 :=
      fun hd => hs (head_trimSuffix s ((head_asciiLower _).1 hd))
    have := hspec hhead
    rw [hr'] at this
    exact this.symm
  · rw [hp] at h; cases h

/-- Soundness of `PrefixFromReversedAddr` under the leading-dot contract. -/
theorem prefix_sound (toASCII : Bytes → Option Bytes)
    (hDot : ∀ s t, toASCII s = some t → s.head? = some 46 → t.head? = some 46)
    (s : Bytes) (p : Prefix)
    (h : prefixFromReversedAddr toASCII s = .ok (.ok p)) : arpaPrefixSpec (labelsOf s) = some p := by
  rw [prefix_unfold] at h
  rcases prologue_cases toASCII s with ⟨hv, hp⟩ | ⟨_, e, hp⟩
  · rw [hp] at h
    have hhead0 := valid_no_leading_dot toASCII hDot _ hv
    obtain ⟨r, hr, hspec, _⟩ := prefixCore_spec _ (noUpper_asciiLower (trimSuffix s [46]))
    simp only [hr] at h
    have hr' : r = .ok p := (wrapARPA_ok _ _ _).1 (by injection h)
    have := hspec (fun hd => hhead0 ((head_asciiLower _).1 hd))
    rw [hr'] at this
    exact this.symm
  · rw [hp] at h; cases h

/-! ### 4. Completeness of `PrefixFromReversedAddr` (IDNA-1) -/

/-- If the reference decoder reads a prefix off the labels, `PrefixFromReversedAddr` returns
it — given that `idna.ToASCII` returns all-ASCII names without `xn--` labels unchanged. -/
theorem prefix_complete (toASCII : Bytes → Option Bytes)
    (hT : ∀ s, (∀ b ∈ s, b < 128) → NoXnLabel s → toASCII s = some s)
    (s : Bytes) (p : Prefix)
    (h : arpaPrefixSpec (labelsOf s) = some p) : prefixFromReversedAddr toASCII s = .ok (.ok p) := by
  obtain ⟨hv, hhead⟩ := accepted_valid toASCII hT (trimSuffix s [46]) p h
  rw [prefix_unfold]
  rcases prologue_cases toASCII s with ⟨_, hp⟩ | ⟨hnv, _⟩
  · rw [hp]
    obtain ⟨r, hr, hspec, _⟩ := prefixCore_spec _ (noUpper_asciiLower (trimSuffix s [46]))
    simp only [hr]
    have := hspec hhead
    unfold labelsOf at h
    rw [h] at this
    cases r with
    | error e => simp [okVal] at this
    | ok q => simp [okVal] at this; subst this; rfl
  · exact absurd hv hnv

/-- `PrefixFromReversedAddr(s) = p` ⇔ the reference decoder reads `p` off the labels of `s`. -/
theorem prefix_iff (toASCII : Bytes → Option Bytes)
    (hDot : ∀ s t, toASCII s = some t → s.head? = some 46 → t.head? = some 46)
    (hT : ∀ s, (∀ b ∈ s, b < 128) → NoXnLabel s → toASCII s = some s)
    (s : Bytes) (p : Prefix) :
    prefixFromReversedAddr toASCII s = .ok (.ok p) ↔ arpaPrefixSpec (labelsOf s) = some p :=
  ⟨prefix_sound toASCII hDot s p, prefix_complete toASCII hT s p⟩

/-! ### 5. `ExtractReversedAddr` -/

/-- Soundness, with no hypothesis on `idna.ToASCII`: if `ExtractReversedAddr(d)` returns `p`
then `d` (minus one trailing dot) passes `ValidateDomainName` and `p` is what the reference
decoder reads off the longest label-aligned suffix on which it is defined. -/
theorem extract_sound (toASCII : Bytes → Option Bytes) (d : Bytes) (p : Prefix)
    (h : extractReversedAddr toASCII d = .ok (.ok p)) :
    validateDomainName toASCII (trimSuffix d [46]) = .ok none ∧
      longestArpaSuffix (labelsOf d) = some p := by
  rw [extract_unfold] at h
  rcases prologue_cases toASCII d with ⟨hv, hp⟩ | ⟨_, e, hp⟩
  · rw [hp] at h
    refine ⟨hv, ?_⟩
    rcases extractCore_spec _ (noUpper_asciiLower (trimSuffix d [46])) with ⟨r, hr, hspec, _⟩ | ⟨_, e, he⟩
    · simp only [hr] at h
      have hr' : r = .ok p := (wrapARPA_ok _ _ _).1 (by injection h)
      rw [hr'] at hspec
      exact hspec.symm
    · simp only [he] at h; cases h
  · rw [hp] at h; cases h

/-- Completeness under the leading-dot contract: a valid domain name with an ARPA name as a
label-aligned suffix is decoded to the prefix of the longest such suffix. -/
theorem extract_complete (toASCII : Bytes → Option Bytes)
    (hDot : ∀ s t, toASCII s = some t → s.head? = some 46 → t.head? = some 46)
    (d : Bytes) (p : Prefix)
    (hv : validateDomainName toASCII (trimSuffix d [46]) = .ok none)
    (h : longestArpaSuffix (labelsOf d) = some p) :
    extractReversedAddr toASCII d = .ok (.ok p) := by
  rw [extract_unfold]
  rcases prologue_cases toASCII d with ⟨_, hp⟩ | ⟨hnv, _⟩
  · rw [hp]
    have hhead := valid_no_leading_dot toASCII hDot _ hv
    rcases extractCore_spec _ (noUpper_asciiLower (trimSuffix d [46])) with ⟨r, hr, hspec, _⟩ | ⟨hd, _⟩
    · simp only [hr]
      unfold labelsOf at h
      rw [h] at hspec
      cases r with
      | error e => simp [okVal] at hspec
      | ok q => simp [okVal] at hspec; subst hspec; rfl
    · exact absurd ((head_asciiLower _).1 hd) hhead
  · exact absurd hv hnv

/-- `ExtractReversedAddr(d) = p` ⇔ `d` is a valid domain name and `p` is the prefix of its
longest label-aligned ARPA suffix. -/
theorem extract_iff (toASCII : Bytes → Option Bytes)
    (hDot : ∀ s t, toASCII s = some t → s.head? = some 46 → t.head? = some 46)
    (d : Bytes) (p : Prefix) :
    extractReversedAddr toASCII d = .ok (.ok p) ↔
      validateDomainName toASCII (trimSuffix d [46]) = .ok none ∧
        longestArpaSuffix (labelsOf d) = some p :=
  ⟨extract_sound toASCII d p, fun ⟨hv, h⟩ => extract_complete toASCII hDot d p hv h⟩


/-! ### 6. consequences: case/dot invariance, `Extract` extends `Prefix` -/

/-- **"Minus one optional trailing dot and ASCII-case-insensitively", made explicit**: two inputs
that are equal modulo ASCII letter case and one trailing dot are accepted by
`PrefixFromReversedAddr` together, with the same prefix. -/
theorem prefix_case_dot_invariant (toASCII : Bytes → Option Bytes)
    (hDot : ∀ s t, toASCII s = some t → s.head? = some 46 → t.head? = some 46)
    (hT : ∀ s, (∀ b ∈ s, b < 128) → NoXnLabel s → toASCII s = some s)
    (s s' : Bytes) (h : asciiLower (trimSuffix s [46]) = asciiLower (trimSuffix s' [46])) (p : Prefix) :
    prefixFromReversedAddr toASCII s = .ok (.ok p) ↔ prefixFromReversedAddr toASCII s' = .ok (.ok p) := by
  rw [prefix_iff toASCII hDot hT s p, prefix_iff toASCII hDot hT s' p]
  unfold labelsOf; rw [h]

/-- The prefix `PrefixFromReversedAddr` returns is a function of the name alone (two accepted
spellings of one name cannot yield two networks), and `ExtractReversedAddr` on a name that
`PrefixFromReversedAddr` accepts returns the same network: the whole name is its own longest
label-aligned ARPA suffix. -/
theorem extract_extends_prefix (toASCII : Bytes → Option Bytes)
    (hDot : ∀ s t, toASCII s = some t → s.head? = some 46 → t.head? = some 46)
    (s : Bytes) (p : Prefix)
    (h : prefixFromReversedAddr toASCII s = .ok (.ok p))
    (hv : validateDomainName toASCII (trimSuffix s [46]) = .ok none) :
    extractReversedAddr toASCII s = .ok (.ok p) := by
  have hs := prefix_sound toASCII hDot s p h
  refine (extract_iff toASCII hDot s p).2 ⟨hv, ?_⟩
  cases hl : labelsOf s with
  | nil => rw [hl] at hs; simp [arpaPrefixSpec] at hs
  | cons l ls => rw [hl] at hs; simp [longestArpaSuffix, hs]

/-! ### Non-vacuity: the hypotheses are satisfiable, and each is needed -/

/-- the returned prefix, if the call returned normally without an error -/
def result (r : GoM (Except Err Prefix)) : Option Prefix :=
  match r with
  | .ok (.ok p) => some p
  | _ => none

/-- the Go panic, if the call panicked -/
def panicOf (r : GoM (Except Err Prefix)) : Option GoPanic :=
  match r with
  | .error e => some e
  | .ok _ => none

/-- the identity satisfies both contracts -/
def idAscii : Bytes → Option Bytes := some

example : ∀ s t, idAscii s = some t → s.head? = some 46 → t.head? = some 46 := by
  intro s t h; cases h; exact id
example : ∀ s, (∀ b ∈ s, b < 128) → NoXnLabel s → idAscii s = some s := fun _ _ _ => rfl

-- accepted names (both families, mixed case, trailing dot, root zones, odd nibble count)
example : result (prefixFromReversedAddr idAscii (ascii "3.2.10.In-Addr.ARPA.")) =
    some ⟨.v4 [10, 2, 3, 0], 24⟩ := by decide
example : result (prefixFromReversedAddr idAscii (ascii "4.3.2.1.in-addr.arpa")) =
    some ⟨.v4 [1, 2, 3, 4], 32⟩ := by decide
example : result (prefixFromReversedAddr idAscii (ascii "in-addr.arpa")) =
    some ⟨.v4 [0, 0, 0, 0], 0⟩ := by decide
example : result (prefixFromReversedAddr idAscii (ascii "B.a.1.ip6.arpa")) =
    some ⟨.v6 [0x1a, 0xb0, 0, 0, 0, 0, 0, 0, 0, 0, 0, 0, 0, 0, 0, 0] [], 12⟩ := by decide
example : arpaPrefixSpec (labelsOf (ascii "B.a.1.ip6.arpa")) =
    some ⟨.v6 [0x1a, 0xb0, 0, 0, 0, 0, 0, 0, 0, 0, 0, 0, 0, 0, 0, 0] [], 12⟩ := by decide
example : Masked ⟨.v6 [0x1a, 0xb0, 0, 0, 0, 0, 0, 0, 0, 0, 0, 0, 0, 0, 0, 0] [], 12⟩ :=
  prefix_masked idAscii (ascii "B.a.1.ip6.arpa") _
    (prefix_complete idAscii (fun _ _ _ => rfl) _ _ (by decide))
-- rejected names (leading zero, the repaired defect; 5 octets; two-character nibble label)
example : arpaPrefixSpec (labelsOf (ascii "00.in-addr.arpa")) = none := by decide
example : result (prefixFromReversedAddr idAscii (ascii "00.in-addr.arpa")) = none := by decide
example : result (prefixFromReversedAddr idAscii (ascii "5.4.3.2.1.in-addr.arpa")) = none := by decide
example : result (prefixFromReversedAddr idAscii (ascii "aa.ip6.arpa")) = none := by decide
-- extraction takes the longest suffix and ignores what precedes it
example : result (extractReversedAddr idAscii (ascii "x.5.4.3.2.1.in-addr.arpa")) =
    some ⟨.v4 [1, 2, 3, 4], 32⟩ := by decide
example : longestArpaSuffix (labelsOf (ascii "x.5.4.3.2.1.in-addr.arpa")) =
    some ⟨.v4 [1, 2, 3, 4], 32⟩ := by decide
example : result (extractReversedAddr idAscii (ascii "aa.ip6.arpa")) =
    some ⟨.v6 [0, 0, 0, 0, 0, 0, 0, 0, 0, 0, 0, 0, 0, 0, 0, 0] [], 0⟩ := by decide
example : result (extractReversedAddr idAscii (ascii "xip6.arpa")) = none := by decide

/-- an `idna.ToASCII` that violates the leading-dot contract on two names -/
def dotDroppingAscii (s : Bytes) : Option Bytes :=
  if s = ascii ".ip6.arpa" ∨ s = ascii ".1.in-addr.arpa" then some (ascii "a.b") else some s

/-- Without `hDot` the model of `ExtractReversedAddr` DOES panic (`domain[-1]` in
`indexFirstV6Label`), so the hypothesis of `extractReversedAddr_total` is needed. -/
example : panicOf (extractReversedAddr dotDroppingAscii (ascii ".ip6.arpa")) =
    some (.indexOutOfRange (-1) 9) := by decide

/-- Without `hDot`, `PrefixFromReversedAddr` accepts a name the reference decoder rejects (the
loop of `ipv4NetFromReversed` ends silently on the empty first label), so the hypothesis of
`prefix_sound` is needed. -/
example : result (prefixFromReversedAddr dotDroppingAscii (ascii ".1.in-addr.arpa")) =
      some ⟨.v4 [1, 0, 0, 0], 8⟩ ∧
    arpaPrefixSpec (labelsOf (ascii ".1.in-addr.arpa")) = none := by decide

/-- Without IDNA-1 completeness fails (an `idna.ToASCII` that rejects everything). -/
example : result (prefixFromReversedAddr (fun _ => none) (ascii "in-addr.arpa")) = none ∧
    arpaPrefixSpec (labelsOf (ascii "in-addr.arpa")) = some ⟨.v4 [0, 0, 0, 0], 0⟩ := by decide

end GolibsVerif.C05
