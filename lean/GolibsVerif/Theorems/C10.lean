/-
C10 — property theorems: the cache is linearizable under concurrent use (Package H of the C10
plan; race freedom of the lock discipline is `Theorems/C10Lock.lean`).

Reading guide.  A *concurrent execution* is `CTrace c KSt.init log σ` (`Model/C10.lean`): from
the fresh cache, any sequence of invocations (`inv id op`: any call, any time, any number of
them — other goroutines and calls made from inside `OnDelete` callbacks alike), critical
sections (`sec id ev`: the next section of a call that is in flight, in the order the code of
that call prescribes, interleaved arbitrarily with the sections of all other calls in flight —
this is `FStep` of `Model/C09Frames.lean`) and responses (`ret id r`: a call whose last section
has run returns, any time later).  `historyOf log` keeps the invocations and responses.
`Linearizable` is Herlihy–Wing linearizability for the lossy-register specification
(`Spec/C10.lean`).  `c` ranges over EVERY configuration (not only normalised ones).

`linearizable`               every concurrent execution has a linearizable history
`history_wellformed`         … and the history is well formed (ids invoked once, in order;
                             one response per call, after its invocation)
`get_returns_own_key_value`  a `Get k` that returns `some v`: some call `Set k v` (this key, exactly
                             these bytes) was invoked before, its storing section precedes the
                             `Get`'s section, and no section in between stores, deletes, evicts
                             or clears `k`
`stats_snapshot_bounded`     every `Stats` response: `count ≤ MaxCount`, `size ≤ MaxSize`, and both
                             are exact for the entries present at its linearization point
`drop_only_by_needy_set`     an entry is lost (evicted) only by a `Set` in flight for which the
                             cache is full at that moment, with LRU on; it is the LRU entry
`call_progress`              no call in flight is ever stuck (normalised configuration)
`sched_is_ctrace`, `sched_total`, `sched_linearizable`
                             the scheduled-script interpreter tied to the Go code with real
                             goroutines runs concurrent executions, always to completion
`acceptHist_sound`           histories accepted by the executable acceptor are linearizable
-/
import GolibsVerif.Lemmas.C10Lin
import GolibsVerif.Lemmas.C10Obs
import GolibsVerif.Lemmas.C10Sched
import GolibsVerif.Lemmas.C10SchedTotal
import GolibsVerif.Lemmas.C10Progress
import GolibsVerif.Lemmas.C10WF
import GolibsVerif.Lemmas.C10Hist

namespace GolibsVerif.C10
open GolibsVerif.C09

/-! ### Linearizability -/

/-- **Every concurrent execution of the cache is linearizable**: any configuration, any number
of calls, any interleaving of their critical sections.  Linearization point of a `Set`: its
`commit` (or `refused`) section; of `Get`/`Del`/`Clear`/`Stats`: their only section; the
evictions made by `Set`s in flight are the losses of the lossy register. -/
theorem linearizable {c : Conf} {log : List KRec} {σ : KSt} (ht : CTrace c KSt.init log σ) :
    Linearizable c (historyOf log) := by
  obtain ⟨lin, hi⟩ := linInv_reachable ht
  refine ⟨lin, hi.nodup, ?_, ?_, hi.rt, _, hi.run⟩
  · intro x hx
    obtain ⟨cs, hcs, hop, hst⟩ := hi.done x hx
    refine ⟨hop ▸ hi.invd _ _ hcs, ?_⟩
    intro r hr
    obtain ⟨cs', hcs', hst'⟩ := hi.retd _ _ hr
    rw [hcs] at hcs'; injection hcs' with e; subst e
    rcases hst with h | h <;> rw [h] at hst'
    · cases hst'
    · injection hst' with h'; exact h'.symm
  · intro id r hr
    obtain ⟨cs, hcs, hst⟩ := hi.retd id r hr
    exact hi.all id cs hcs (by intro fr h; rw [hst] at h; cases h)

/-- … and that history is well formed: the i-th invocation carries call id `i` (so every id is
invoked exactly once), a call returns at most once, only if it was invoked, and its invocation
does not come after its response. -/
theorem history_wellformed {c : Conf} {log : List KRec} {σ : KSt} (ht : CTrace c KSt.init log σ) :
    WellFormed (historyOf log) := (wellFormed_reachable ht).2

/-! ### What a `Get` returns -/

/-- **A `Get` returns the value of a `Set` on the same key that is not superseded** — never
another key's value, never a torn one.  If the section of a `Get k` call returns `some v` then
the execution so far contains the invocation of a call `Set k v` (so it was invoked before the
`Get` returned), later that call's storing section `commit k v`, and between that section and
the `Get`'s section no section stores to, deletes, evicts or clears `k`. -/
theorem get_returns_own_key_value {c : Conf} {pre post : List KRec} {id : Nat} {k v : Bytes}
    {σ1 σ : KSt} (ht : CTrace c KSt.init (pre ++ ⟨.sec id (.get k (some v)), σ1⟩ :: post) σ) :
    ∃ ids p1 p2 p3 σa σb rep,
      pre = p1 ++ ⟨.inv ids (.set k v), σa⟩ :: p2 ++ ⟨.sec ids (.commit k v rep), σb⟩ :: p3 ∧
      ∀ r ∈ p3, ∀ id' e, r.ev = .sec id' e → ¬ Supersedes k e := by
  obtain ⟨σ0, hpre, hstep, _⟩ := ctrace_split ht
  -- the framed execution and what its `Get` theorem says
  have hf := ctrace_ftrace (ctrace_append hpre (ctrace_single hstep))
  rw [flogFrom_append _ _ _ _ hpre] at hf
  simp only [flogFrom, List.append_nil] at hf
  have hlast := get_latest_framed (post := []) hf
  rw [evsOf_projLog_flogFrom] at hlast
  obtain ⟨e1, e2, rep, hevs, hnone⟩ := lastSurviving_some hlast.symm
  obtain ⟨pa, p3, ids, σb, rfl, _, h3⟩ := secEvs_split hevs
  -- the storing section belongs to a `Set k v` call invoked earlier
  obtain ⟨σc, hpa, hcommit, _⟩ := ctrace_split hpre
  obtain ⟨op, fr, _, hop, p1, p2, σa, rfl⟩ := sec_call hpa hcommit
  have hopkv : op = .set k v := by
    cases op <;> simp [OpEv, IsSecOf] at hop
    obtain ⟨rfl, rfl⟩ := hop; rfl
  subst hopkv
  refine ⟨ids, p1, p2, p3, σa, σb, rep, by simp, ?_⟩
  intro r hr id' e he
  apply hnone e
  rw [← h3]
  unfold secEvs
  rw [List.mem_filterMap]
  exact ⟨r, hr, by simp [KRec.secEv, he]⟩

/-! ### `Stats` snapshots -/

/-- **Every `Stats` response is a bounded, exact snapshot.**  A `Stats` call that returns `st` in
any concurrent execution ran its section at some point of the execution (its linearization
point); `st.count ≤ MaxCount`, `st.size ≤ MaxSize`; and with `l` the entries of the cache at
that point — each key once, exactly the register the cache stands for there — `st.count` is
their number and `st.size` the sum of their key and value lengths. -/
theorem stats_snapshot_bounded {c : Conf} {log : List KRec} {σ : KSt}
    (ht : CTrace c KSt.init log σ) {id : Nat} {st : Stats}
    (hr : HEv.ret id (.stats st) ∈ historyOf log) :
    st.count ≤ c.maxCount ∧ st.size ≤ c.maxSize ∧
    ∃ pre post σ1, log = pre ++ ⟨.sec id (.stats st), σ1⟩ :: post ∧
      Lists (pairs σ1.f.cache.lru) (absReg σ1.f.cache) ∧
      st.count = (pairs σ1.f.cache.lru).length ∧ st.size = aSize (pairs σ1.f.cache.lru) := by
  obtain ⟨lin, hi⟩ := linInv_reachable ht
  obtain ⟨cs, hcs, hst⟩ := hi.retd id _ hr
  obtain ⟨pre, post, σ1, ev, rfl, hres, _⟩ := resInv_reachable ht id cs _ hcs (Or.inr hst)
  have hev : ev = .stats st := by
    cases ev <;> simp [resOf] at hres
    subst hres; rfl
  subst hev
  obtain ⟨σ0, hpre, hstep, _⟩ := ctrace_split ht
  obtain ⟨hinv, hok⟩ := ctrace_inv hpre
  have hcs' := ksec_cstep hok hstep
  generalize hs0 : σ0.f.cache = s0 at hcs' hinv
  generalize hs1 : σ1.f.cache = s1 at hcs'
  generalize hst' : Ev.stats st = e at hcs'
  cases hcs' with
  | stats =>
    injection hst' with hst'; subst hst'
    refine ⟨hinv.count_le, hinv.size_le, pre, post, σ1, rfl, ?_, ?_, ?_⟩
    · rw [hs1]; exact lists_absReg hinv
    · rw [hs1]; simp [stats, pairs]
    · rw [hs1, aSize_pairs]; exact hinv.size_eq
  | _ => cases hst'

/-! ### Entries are lost only to a `Set` that needs the room -/

/-- **An entry is dropped only while a `Set` is in flight for which the cache is full.**  Every
eviction in every concurrent execution is a section of a call `Set ks vs` that was invoked
earlier and has not finished (`running`); LRU is on; `|ks| + |vs| ≤ MaxElementSize`; the loop
condition `size + |ks| + |vs| > MaxSize || count == MaxCount` holds for THAT key and value in
the cache as it is at that moment (`σ0`, after whatever all the other calls did); and the
entry dropped is the least recently used one. -/
theorem drop_only_by_needy_set {c : Conf} {pre post : List KRec} {id : Nat} {k v : Bytes}
    {σ1 σ : KSt} (ht : CTrace c KSt.init (pre ++ ⟨.sec id (.evict k v), σ1⟩ :: post) σ) :
    ∃ σ0 ks vs i, CTrace c KSt.init pre σ0 ∧
      σ0.calls[id]? = some ⟨.set ks vs, .running (some i)⟩ ∧
      (∃ p1 p2 σa, pre = p1 ++ ⟨.inv id (.set ks vs), σa⟩ :: p2) ∧
      c.lru = true ∧ ks.length + vs.length ≤ c.maxElem ∧
      full c σ0.f.cache (ks.length + vs.length) = true ∧
      (pairs σ0.f.cache.lru).head? = some (k, v) := by
  obtain ⟨σ0, hpre, hstep, _⟩ := ctrace_split ht
  obtain ⟨lin, hi⟩ := linInv_reachable hpre
  obtain ⟨_, hok⟩ := ctrace_inv hpre
  generalize hev : KEv.sec id (.evict k v) = lab at hstep
  cases hstep with
  | invSet => cases hev
  | inv => cases hev
  | ret => cases hev
  | secOne id' op e f' hc hsecof hf =>
    injection hev with h1 h2; subst h1; subst h2
    cases op <;> simp [IsSecOf] at hsecof
  | secSet id' i ks vs e f' hc hf =>
    injection hev with h1 h2; subst h1; subst h2
    obtain ⟨f, hff, hk, hv⟩ := hi.frame _ ks vs i hc
    refine ⟨σ0, ks, vs, i, hpre, hc, inv_mem_history (hi.invd _ _ hc), ?_⟩
    generalize hev2 : FEv.sec (some i) (.evict k v) = lab2 at hf
    cases hf with
    | evict j g s' e hg hh hfull he =>
      injection hev2 with hw hev2
      injection hw with hw; subst hw
      injection hev2 with hk2 hv2
      rw [hff] at hg; injection hg with hg; subst hg
      obtain ⟨hadd, hor⟩ := atLoopHead_ok (hok i f hff) hh
      have hl : c.lru = true := by
        rcases hor with h1 | h1
        · exact h1
        · rw [hfull] at h1; cases h1
      simp only [Frame.add, hk, hv] at hadd hfull
      refine ⟨hl, hadd, hfull, ?_⟩
      rw [(evictOne_ok he).1, hk2, hv2]; simp [pairs]
    | _ => cases hev2

/-! ### No call is ever stuck -/

/-- **Progress**: in every state of every concurrent execution (normalised configuration) every
call in flight can take its next step — a running call can run its next critical section
(the guards of the concurrent system exclude nothing the code would do, the eviction loop never
reaches the list sentinel, no `listUnlink` touches an unlinked item: no modelled panic, no
deadlock among the model's calls), and a call whose last section has run can return. -/
theorem call_progress {c : Conf} (ok : ConfOk c) {log : List KRec} {σ : KSt}
    (ht : CTrace c KSt.init log σ) {id : Nat} {cs : CallSt} (hc : σ.calls[id]? = some cs) :
    (∀ fr, cs.st = .running fr → ∃ ev σ', KStep c σ (.sec id ev) σ') ∧
    (∀ r, cs.st = .finished r → ∃ σ', KStep c σ (.ret id r) σ') := by
  obtain ⟨op, st⟩ := cs
  constructor
  · intro fr hst
    simp only at hst; subst hst
    exact call_can_step ok ht hc
  · intro r hst
    simp only at hst; subst hst
    exact ⟨_, KStep.ret σ id op r hc⟩

/-! ### The scheduled-script interpreter runs concurrent executions -/

/-- **What the scheduled-script interpreter produces is a concurrent execution.**  `runSched` is
the interpreter the differential tie drives (`C10.sched` case lines: every `Set` in its own
goroutine, parked inside its `OnDelete` callback and resumed by the script; the other calls run
to completion in between): its log is a `CTrace` from the fresh cache made by `New(conf)`, so
every theorem above speaks about every tie case. -/
theorem sched_is_ctrace {r : RawConf} {steps : List SStep} {s : Sched}
    (h : runSched r steps = .ok s) : CTrace (newConf r) KSt.init s.log s.σ :=
  runSched_ok h

/-- **The interpreter never fails**: for every configuration `New` accepts and every script it
returns — no modelled panic, and the fuel of its loops always suffices (a `Set` evicts at most
as many entries as the cache holds).  So `sched_is_ctrace` is never vacuous, and a `PANIC` printed
by the Lean driver can only come from a malformed case line. -/
theorem sched_total (r : RawConf) (steps : List SStep) : ∃ s, runSched r steps = .ok s :=
  runSched_total r steps

/-- in particular the history of every scheduled script is linearizable -/
theorem sched_linearizable {r : RawConf} {steps : List SStep} {s : Sched}
    (h : runSched r steps = .ok s) : Linearizable (newConf r) (historyOf s.log) :=
  linearizable (sched_is_ctrace h)

/-! ### Recorded histories -/

/-- **The acceptor for recorded histories is sound**: a history it accepts is linearizable.
(The converse — it finds a certificate whenever one exists — is not proved; it searches all
orders compatible with the real-time order exhaustively, and a miss would show as a tie
mismatch, never as a false "green".) -/
theorem acceptHist_sound {c : Conf} {h : History} (ha : acceptHist c h = true) :
    Linearizable c h := by
  obtain ⟨cert, hc⟩ := acceptHist_checks ha
  exact checkCert_sound hc

/-! ### Non-vacuity -/

/-- MaxCount 1, LRU, callback.  `Set(a, x)` stores.  `Set(a, y)` (call 1) finds the cache full,
evicts `(a, x)` and is parked in `OnDelete(a, x)`.  While it is parked `Set(a, z)` (call 2) is
invoked, stores and returns, and a `Get(a)` sees `z`.  Call 1 is resumed: the cache is full again,
it evicts `(a, z)`, parks in `OnDelete(a, z)`, is resumed once more and stores `y`; the last
`Get(a)` sees `y`.  Calls 1 and 2 are two overlapping `Set`s of one key; the `Get` after both sees
the one that was linearized second although it was invoked first. -/
def exConf : RawConf := { maxSize := 0, maxElem := 0, maxCount := 1, lru := true, hasCb := true }

def exScript : List SStep :=
  [.set [97] [120], .set [97] [121], .set [97] [122], .get [97], .resume 1, .resume 1, .get [97]]

example : (runSched exConf exScript).toOption.map (fun s => historyOf s.log) =
    some [.inv 0 (.set [97] [120]), .ret 0 (.set false), .inv 1 (.set [97] [121]),
      .inv 2 (.set [97] [122]), .ret 2 (.set false), .inv 3 (.get [97]), .ret 3 (.get (some [122])),
      .ret 1 (.set false), .inv 4 (.get [97]), .ret 4 (.get (some [121]))] := by decide

example : ∃ s, runSched exConf exScript = .ok s ∧ CTrace (newConf exConf) KSt.init s.log s.σ ∧
    Linearizable (newConf exConf) (historyOf s.log) := by
  obtain ⟨s, h⟩ := sched_total exConf exScript
  exact ⟨s, h, sched_is_ctrace h, sched_linearizable h⟩

def c0 : Conf := newConf { maxSize := 0, maxElem := 0, maxCount := 0, lru := true, hasCb := false }

/-- two overlapping `Set`s on one key and a `Get` that sees the second -/
example : Linearizable c0
    [.inv 0 (.set [97] [120]), .inv 1 (.set [97] [121]), .ret 0 (.set false), .ret 1 (.set true),
     .inv 2 (.get [97]), .ret 2 (.get (some [121]))] := acceptHist_sound (by decide)

/-- a `Get` overlapping a `Set` may see either: the old state … -/
example : Linearizable c0
    [.inv 0 (.set [97] [120]), .inv 1 (.get [97]), .ret 1 (.get none), .ret 0 (.set false)] :=
  acceptHist_sound (by decide)

/-- … or the new value -/
example : Linearizable c0
    [.inv 0 (.set [97] [120]), .inv 1 (.get [97]), .ret 1 (.get (some [120])), .ret 0 (.set false)] :=
  acceptHist_sound (by decide)

/-- a pending `Set` (never returned) may already have taken effect -/
example : Linearizable c0 [.inv 0 (.set [97] [120]), .inv 1 (.get [97]), .ret 1 (.get (some [120]))] :=
  acceptHist_sound (by decide)

/-- the acceptor rejects a stale read: both `Set`s had returned before the `Get` was invoked -/
example : acceptHist c0
    [.inv 0 (.set [97] [120]), .ret 0 (.set false), .inv 1 (.set [97] [121]), .ret 1 (.set true),
     .inv 2 (.get [97]), .ret 2 (.get (some [120]))] = false := by decide

/-- and `Linearizable` is not trivially true: a `Get` cannot return a value nobody `Set` -/
example : ¬ Linearizable c0 [.inv 0 (.get [97]), .ret 0 (.get (some [120]))] := by
  rintro ⟨lin, hnd, hlin, hall, _, m, hrun⟩
  -- the linearization is exactly the one call
  have hmem : (0 : Nat) ∈ lin.map (·.id) := hall 0 (.get (some [120])) (by simp)
  obtain ⟨x, hx, hx0⟩ := List.mem_map.1 hmem
  obtain ⟨hinv, hres⟩ := hlin x hx
  have hop : x.op = .get [97] := by
    simp only [List.mem_cons, HEv.inv.injEq, List.not_mem_nil, or_false] at hinv
    rcases hinv with h | h
    · exact h.2
    · cases h
  have hr : x.res = .get (some [120]) := (hres _ (by rw [hx0]; simp)).symm
  -- from the empty register only the empty register is reachable before the first operation,
  -- and `Get` reads `none` there
  have key : ∀ {m0 m' : Reg} {l : List LinOp}, Run c0 m0 l m' → m0 = Reg.empty →
      ∀ y ∈ l, (∀ z ∈ l, z.id = y.id → z = y) → y.op = .get [97] → l.head? = some y →
      y.res = .get none := by
    intro m0 m' l hr0
    induction hr0 with
    | nil => intro _ y hy; cases hy
    | drop k _ ih =>
      intro h0 y hy hu hop hh
      apply ih _ y hy hu hop hh
      subst h0; funext q; simp [Reg.erase, Reg.empty]
    | @op m1 m2 m3 z l' hstep _ _ =>
      intro h0 y _ _ hop hh
      simp only [List.head?_cons, Option.some.injEq] at hh
      subst hh; subst h0
      rw [hop] at hstep
      generalize hres : z.res = zr at hstep
      cases hstep with
      | get => rfl
  -- `x` is the head of `lin`: every element of `lin` has id 0, and ids are distinct
  have hall0 : ∀ z ∈ lin, z.id = 0 := by
    intro z hz
    have := (hlin z hz).1
    simp only [List.mem_cons, HEv.inv.injEq, List.not_mem_nil, or_false] at this
    rcases this with h | h
    · exact h.1
    · cases h
  have huniq : ∀ z ∈ lin, z.id = x.id → z = x := by
    intro z hz _
    obtain ⟨l1, l2, rfl⟩ := List.append_of_mem hz
    by_cases hne : z = x
    · exact hne
    exfalso
    have hx' : x ∈ l1 ∨ x ∈ l2 := by
      rcases List.mem_append.1 hx with h | h
      · exact Or.inl h
      · rcases List.mem_cons.1 h with h | h
        · exact absurd h.symm hne
        · exact Or.inr h
    simp only [List.map_append, List.map_cons, List.nodup_append, List.nodup_cons] at hnd
    rcases hx' with h | h
    · exact hnd.2.2 x.id (List.mem_map.2 ⟨x, h, rfl⟩) z.id (by simp) (by rw [hall0 z hz, hx0])
    · exact hnd.2.1.1 (List.mem_map.2 ⟨x, h, by rw [hall0 z hz, hx0]⟩)
  have hhead : lin.head? = some x := by
    cases lin with
    | nil => cases hx
    | cons z rest => simp only [List.head?_cons, Option.some.injEq]; exact huniq z (by simp) (by rw [hall0 z (by simp), hx0])
  have := key hrun rfl x hx huniq hop hhead
  rw [hr] at this; cases this

end GolibsVerif.C10
