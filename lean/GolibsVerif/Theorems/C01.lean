/-
C01 — text-consuming APIs are total.

`Gen/C01Inventory.lean` is regenerated from /repo on every run: every exported function and
method of netutil, hostsfile, urlutil, stringutil, timeutil with its input kinds and the
hazard sites (index, slice, single-value type assertion, explicit panic, non-range loop,
division) reachable from it through golibs code.  This file
  * names, for every input-consuming entry that has a hazard, the kernel-checked totality
    theorem about its model (`covered`);
  * proves `inventory_covered` over the regenerated table, so that a new exported
    function, or a wrapper that acquires an index expression, breaks an obligation;
  * restates the totality theorems as corollaries (so their axioms are audited here).
-/
import GolibsVerif.Gen.C01Inventory
import GolibsVerif.Lemmas.C01
import GolibsVerif.Theorems.C02
import GolibsVerif.Theorems.C02IP
import GolibsVerif.Theorems.C03
import GolibsVerif.Theorems.C04
import GolibsVerif.Theorems.C05
import GolibsVerif.Theorems.C06
import GolibsVerif.Theorems.C07
import GolibsVerif.Theorems.C08
import GolibsVerif.Theorems.C12
import GolibsVerif.Theorems.C13
import GolibsVerif.Theorems.C14

namespace GolibsVerif.C01
open GolibsVerif GolibsVerif.Gen.C01Inventory

/-- the kinds of caller-supplied input the property quantifies over -/
def inputKinds : List String := ["text", "netip", "url", "reader"]

def consumesInput (e : Entry) : Bool := e.consumes.any (fun k => inputKinds.contains k)

/-- entries whose model has a totality theorem below -/
def covered : List String := [
  "netutil.ValidateDomainName", "netutil.ValidateHostname", "netutil.ValidateSRVDomainName",
  "netutil.ValidateHostnameLabel", "netutil.ValidateTLDLabel", "netutil.ValidateServiceNameLabel",
  "netutil.IsValidHostname", "netutil.IsValidHostnameLabel",
  "netutil.IsValidIPString", "netutil.IsValidIPPortString",
  "netutil.IsLocallyServed", "netutil.IsSpecialPurpose",
  "netutil.IPToAddr", "netutil.IPToAddrNoMapped",
  "netutil.IsSubdomain", "netutil.IsImmediateSubdomain", "netutil.Subdomains", "netutil.ParseIPv4",
  "netutil.CloneIPs",
  "stringutil.ContainsFold", "stringutil.SplitTrimmed",
  "urlutil.URL.UnmarshalJSON",
  "netutil.IPFromReversedAddr", "netutil.IPToReversedAddr",
  "netutil.ExtractReversedAddr", "netutil.PrefixFromReversedAddr",
  "hostsfile.Record.UnmarshalText", "hostsfile.Parse",
  "netutil.IPNetToPrefix", "netutil.IPNetToPrefixNoMapped"]

/-- modelled and tied by the correspondence check but without a totality theorem here: none -/
def pending : List String := []

def entryOK (e : Entry) : Bool :=
  !consumesInput e || e.hazards.isEmpty || covered.contains e.name || pending.contains e.name

theorem inventory_check : inventory.all entryOK = true := by decide +kernel

/-- Every exported, input-consuming function of the five packages either has no hazard site
at all (nothing in it or its golibs callees can panic or loop), or is in `covered`, i.e. has a
totality theorem below. -/
theorem inventory_covered (e : Entry) (he : e ∈ inventory) (hc : consumesInput e = true) :
    e.hazards = [] ∨ e.name ∈ covered := by
  have := List.all_eq_true.1 inventory_check e he
  simp only [entryOK, hc, Bool.not_true, Bool.false_or, Bool.or_eq_true, List.isEmpty_iff,
    List.contains_iff_mem] at this
  rcases this with (h | h) | h
  · exact Or.inl h
  · exact Or.inr h
  · exact absurd h (by simp [pending])

/-- the inventory really contains input-consuming, hazard-bearing entries -/
theorem inventory_nontrivial :
    (inventory.filter (fun e => consumesInput e && !e.hazards.isEmpty)).length ≥ 25 := by decide +kernel

/-! ### The totality theorems, restated -/

open GolibsVerif.Netutil in
/-- `ValidateDomainName`, `ValidateHostname`, `ValidateSRVDomainName` and the label validators
never panic (any input, any `idna.ToASCII`). -/
theorem validators_never_panic (toASCII : Bytes → Option Bytes) (s : Bytes) :
    (∃ r, validateHostname toASCII s = .ok r) ∧ (∃ r, validateDomainName toASCII s = .ok r) ∧
    (∃ r, validateSRVDomainName toASCII s = .ok r) ∧ (∃ r, validateHostnameLabel s = .ok r) ∧
    (∃ r, validateTLDLabel s = .ok r) ∧ (∃ r, validateServiceNameLabel s = .ok r) :=
  let ⟨a, b, c⟩ := C03.validators_total toASCII s
  let ⟨d, e, f⟩ := C03.label_validators_total s
  ⟨a, b, c, d, e, f⟩

open GolibsVerif.Netutil in
theorem isValid_never_panic (toASCII : Bytes → Option Bytes) (s : Bytes) :
    (∃ b, isValidHostname toASCII s = .ok b) ∧ (∃ b, isValidHostnameLabel s = .ok b) ∧
    (∃ b, isValidIPString s = .ok b) ∧ (∃ b, isValidIPPortString s = .ok b) :=
  ⟨(C02.isValidHostname_iff toASCII s).1, (C02.isValidHostnameLabel_iff s).1,
   C02.isValidIPString_total s, C02.isValidIPPortString_total s⟩

theorem subnet_predicates_never_panic (x : C06.Addr) :
    (∃ b, C06.isLocallyServed x = .ok b) ∧ (∃ b, C06.isSpecialPurpose x = .ok b) := by
  constructor
  · by_cases h : x.InDoc Gen.Subnets.locallyServedDoc
    · exact ⟨true, (C06.isLocallyServed_iff x).1.2 h⟩
    · exact ⟨false, (C06.isLocallyServed_iff x).2.2 h⟩
  · by_cases h : x.InDoc Gen.Subnets.specialPurposeDoc
    · exact ⟨true, (C06.isSpecialPurpose_iff x).1.2 h⟩
    · exact ⟨false, (C06.isSpecialPurpose_iff x).2.2 h⟩

open GolibsVerif.Netutil in
theorem small_netutil_never_panic (d t : Bytes) (netParseIP : Bytes → Option Bytes) (ips : Option (List Bytes)) :
    (∃ b, isSubdomain d t = .ok b) ∧ (∃ b, isImmediateSubdomain d t = .ok b) ∧
    (∃ r, subdomains d = .ok r) ∧ (∃ r, parseIPv4 netParseIP d = .ok r) ∧ (∃ r, cloneIPs ips = .ok r) :=
  ⟨isSubdomain_total d t, isImmediateSubdomain_total d t, subdomains_total d, parseIPv4_total netParseIP d,
   cloneIPs_total ips⟩

open GolibsVerif.Netutil in
/-- `IPFromReversedAddr` and `IPToReversedAddr` never panic (any input, any `idna.ToASCII`) -/
theorem arpa_codec_never_panics (toASCII : Bytes → Option Bytes) (s ip : Bytes) (hip : ∀ b ∈ ip, b < 256) :
    (∃ r, ipFromReversedAddr toASCII s = .ok r) ∧ (∃ r, ipToReversedAddr ip = .ok r) := by
  obtain ⟨r, hr, _⟩ := C04.ipFromReversedAddr_total toASCII s
  refine ⟨⟨r, hr⟩, ?_⟩
  have hne := (C04.encode_canon ip hip).2.2.2
  cases h : ipToReversedAddr ip with
  | ok v => exact ⟨v, rfl⟩
  | error e => exact absurd h (hne e)

open GolibsVerif.Netutil in
/-- `PrefixFromReversedAddr` never panics (any input, any `idna.ToASCII`); `ExtractReversedAddr`
never panics provided `idna.ToASCII` keeps a leading dot (contract `hDot`; without it the
model does reach an out-of-range index, see `Theorems/C05.lean`). -/
theorem arpa_prefix_never_panics (toASCII : Bytes → Option Bytes)
    (hDot : ∀ s t, toASCII s = some t → s.head? = some 46 → t.head? = some 46) (s : Bytes) :
    (∃ r, prefixFromReversedAddr toASCII s = .ok r) ∧ (∃ r, extractReversedAddr toASCII s = .ok r) :=
  ⟨C05.prefixFromReversedAddr_total toASCII s, C05.extractReversedAddr_total toASCII hDot s⟩

/-- `Record.UnmarshalText` never panics (any line, any `idna.ToASCII`), and `Parse` never panics
on any byte stream (the scanner is the SCAN-1 contract). -/
theorem hostsfile_never_panics (toASCII : Bytes → Option Bytes) (r : C07.Record) (line : Bytes)
    (isHandleSet : Bool) (srcName stream : Bytes) :
    (∃ res, C07.unmarshalText toASCII r line = .ok res) ∧
    (∃ res, C08.parse toASCII isHandleSet srcName false stream = .ok res) :=
  ⟨C07.unmarshal_total toASCII r line,
   let ⟨_, _, h⟩ := C08.parse_exact toASCII isHandleSet srcName stream; ⟨_, h⟩⟩

/-- `IPNetToPrefix` (for the two documented families) and `IPNetToPrefixNoMapped` never panic -/
theorem ipnet_conversions_never_panic (n : Option C12.IPNet) (fam : Nat)
    (hf : fam = C12.famV4 ∨ fam = C12.famV6) :
    (∃ r, C12.ipNetToPrefix n fam = .ok r) ∧ (∃ r, C12.ipNetToPrefixNoMapped n = .ok r) := by
  refine ⟨C12.ipNetToPrefix_total n fam hf, ?_⟩
  cases n with
  | none => exact ⟨_, rfl⟩
  | some n =>
    unfold C12.ipNetToPrefixNoMapped
    cases h : C12.to4 (C12.orNil n.ip) with
    | some ip4 => simp only [h]; exact C12.ipNetToPrefix_total _ _ (Or.inl rfl)
    | none => simp only [h]; exact C12.ipNetToPrefix_total _ _ (Or.inr rfl)

theorem stringutil_never_panics (fold : Nat → Nat) (s sub : Bytes) :
    (∃ b, C13.containsFold fold s sub = .ok b) ∧
    (∃ r, C13.splitTrimmed C13.trimSpace C13.split s sub = .ok r) :=
  ⟨C13.containsFold_never_panics fold s sub, let ⟨r, h, _⟩ := C13.splitTrimmed_spec_std s sub; ⟨r, h⟩⟩

/-- the repaired `URL.UnmarshalJSON` never panics (`b[0]`, `b[l-1]` are guarded by `l == 0`) -/
theorem url_unmarshalJSON_never_panics {U : Type} (S : C14.UrlStd U) (J : C14.JsonStd) (b : Bytes) :
    ∃ r, C14.urlUnmarshalJSON S J b = .ok r := by
  unfold C14.urlUnmarshalJSON
  by_cases h1 : b = [110, 117, 108, 108]
  · exact ⟨_, by simp only [h1, if_true]; rfl⟩
  · simp only [h1, if_false]
    by_cases h2 : (b.length : Int) = 0
    · exact ⟨_, by simp only [h2, if_true]; rfl⟩
    · simp only [h2, if_false]
      have hpos : 0 < b.length := by omega
      have e0 : GoM.idx b 0 = .ok b[0] := GoM.idx_ofNat_lt b 0 hpos
      have hl : ((b.length : Int) - 1) = ((b.length - 1 : Nat) : Int) := by omega
      have e1 : GoM.idx b ((b.length : Int) - 1) = .ok b[b.length - 1] := by
        rw [hl]; exact GoM.idx_ofNat_lt b _ (by omega)
      simp only [e0, e1, bind, Except.bind]
      split
      · exact ⟨_, rfl⟩
      · split <;> exact ⟨_, rfl⟩

end GolibsVerif.C01
