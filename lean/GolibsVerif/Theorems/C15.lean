/-
C15 — property theorems for `LimitReader` / `TruncatedWriter` (models in `Model/C15.lean`).
Only property theorems and non-vacuity examples live here.
-/
import GolibsVerif.Model.C15

namespace GolibsVerif.C15

def delivered (os : List ReadOut) : Bytes := os.flatMap (·.data)

/-- every call of the history obeys the `io.Reader` contract whatever length it is asked for -/
def WfCalls (calls : List (Nat × (Nat → Resp))) : Prop :=
  ∀ c ∈ calls, ∀ l, (c.2 l).wf l

/-! ### One step -/

theorem read_step (lr : LR) (plen : Nat) (r : Nat → Resp) (hw : ∀ l, (r l).wf l) :
    (lr.read plen r).1.limit = lr.limit ∧
    (lr.read plen r).1.n + (lr.read plen r).2.data.length = lr.n ∧
    (∀ l, (lr.read plen r).2.requested = some l → l ≤ lr.n ∧ l ≤ plen) := by
  unfold LR.read
  by_cases h0 : lr.n = 0
  · simp [h0]
  · simp only [h0, if_false]
    have hw' := hw (min plen lr.n)
    by_cases hneg : (r (min plen lr.n)).n < 0
    · simp only [hneg, if_true]
      refine ⟨by simp, by simp, ?_⟩
      intro l hl
      simp at hl
      omega
    · simp only [hneg, if_false]
      rcases hw' with hlt | ⟨hn, hle⟩
      · exact absurd hlt hneg
      · refine ⟨by simp, ?_, ?_⟩
        · simp only [hn]
          simp only [Int.toNat_natCast]
          omega
        · intro l hl
          simp at hl
          omega

/-- The error and count of the wrapped reader pass through unchanged whenever it was called
and reported a non-negative count; the delivered bytes are the bytes it stored. -/
theorem errors_pass_through (lr : LR) (plen : Nat) (r : Nat → Resp) (l : Nat)
    (hreq : (lr.read plen r).2.requested = some l) (hn : 0 ≤ (r l).n) :
    (lr.read plen r).2.err = underErr (r l).err ∧ (lr.read plen r).2.n = (r l).n ∧
    (lr.read plen r).2.data = (r l).data := by
  unfold LR.read at hreq ⊢
  by_cases h0 : lr.n = 0
  · simp [h0] at hreq
  · simp only [h0, if_false] at hreq ⊢
    by_cases hneg : (r (min plen lr.n)).n < 0
    · simp only [hneg, if_true] at hreq
      simp at hreq
      subst hreq
      omega
    · simp only [hneg, if_false] at hreq ⊢
      simp at hreq
      subst hreq
      exact ⟨rfl, rfl, rfl⟩

/-- A reader whose budget is used up answers `(0, *LimitError{limit})` without touching the
wrapped reader, and its state does not change. -/
theorem read_exhausted (lr : LR) (h : lr.n = 0) (plen : Nat) (r : Nat → Resp) :
    lr.read plen r = (lr, { requested := none, n := 0, data := [], err := .limit lr.limit }) := by
  simp [LR.read, h]

/-! ### Whole histories -/

theorem run_budget (lr : LR) (calls : List (Nat × (Nat → Resp))) (hw : WfCalls calls) :
    (lr.run calls).1.limit = lr.limit ∧
    (lr.run calls).1.n + (delivered (lr.run calls).2).length = lr.n := by
  induction calls generalizing lr with
  | nil => simp [LR.run, delivered]
  | cons c rest ih =>
    obtain ⟨plen, r⟩ := c
    have hwr : ∀ l, (r l).wf l := fun l => hw (plen, r) (List.mem_cons_self ..) l
    have hrest : WfCalls rest := fun c hc l => hw c (List.mem_cons_of_mem _ hc) l
    have hs := read_step lr plen r hwr
    have := ih (lr.read plen r).1 hrest
    have h1 := this.1
    have h2 := this.2
    have h3 := hs.2.1
    simp only [LR.run, delivered, List.flatMap_cons, List.length_append] at h2 ⊢
    refine ⟨by rw [h1, hs.1], ?_⟩
    omega

/-- `delivered_le_n`: a `LimitReader(r, n)` never delivers more than `n` bytes. -/
theorem delivered_le_n (n : Nat) (calls : List (Nat × (Nat → Resp))) (hw : WfCalls calls) :
    (delivered ((limitReader n).run calls).2).length ≤ n := by
  have := (run_budget (limitReader n) calls hw).2
  simp only [limitReader] at this ⊢
  omega

/-- `requested_le_n`: after any history, whatever the next `Read` requests from the wrapped
reader fits in what is left of the limit — in total never more than `n` is outstanding. -/
theorem requested_le_n (n : Nat) (pre : List (Nat × (Nat → Resp))) (hw : WfCalls pre)
    (plen : Nat) (r : Nat → Resp) (l : Nat)
    (hreq : (((limitReader n).run pre).1.read plen r).2.requested = some l) :
    (delivered ((limitReader n).run pre).2).length + l ≤ n := by
  have hb := (run_budget (limitReader n) pre hw).2
  -- the `requested` bound of one step does not need the contract
  have : l ≤ ((limitReader n).run pre).1.n := by
    generalize ((limitReader n).run pre).1 = lr at hreq ⊢
    unfold LR.read at hreq
    by_cases h0 : lr.n = 0
    · simp [h0] at hreq
    · simp only [h0, if_false] at hreq
      by_cases hneg : (r (min plen lr.n)).n < 0
      · simp only [hneg, if_true] at hreq; simp at hreq; omega
      · simp only [hneg, if_false] at hreq; simp at hreq; omega
  simp only [limitReader] at hb this ⊢
  omega

/-- `delivered_prefix`: what is delivered is, call by call, exactly what the wrapped reader
stored (nothing is dropped, duplicated or reordered), so the delivered bytes are a prefix of
the wrapped reader's stream. -/
theorem delivered_prefix (lr : LR) (plen : Nat) (r : Nat → Resp) :
    (lr.read plen r).2.data = [] ∨
    ∃ l, (lr.read plen r).2.requested = some l ∧ (lr.read plen r).2.data = (r l).data := by
  unfold LR.read
  by_cases h0 : lr.n = 0
  · simp [h0]
  · simp only [h0, if_false]
    by_cases hneg : (r (min plen lr.n)).n < 0
    · simp [hneg]
    · simp only [hneg, if_false]
      exact Or.inr ⟨_, rfl, rfl⟩

theorem run_exhausted (lr : LR) (h : lr.n = 0) (calls : List (Nat × (Nat → Resp))) :
    (lr.run calls).1 = lr ∧
    ∀ o ∈ (lr.run calls).2, o = { requested := none, n := 0, data := [], err := .limit lr.limit } := by
  induction calls with
  | nil => simp [LR.run]
  | cons c rest ih =>
    obtain ⟨plen, r⟩ := c
    simp only [LR.run, read_exhausted lr h]
    refine ⟨ih.1, ?_⟩
    intro o ho
    rcases List.mem_cons.1 ho with rfl | ho
    · rfl
    · exact ih.2 o ho

/-- `after_limit`: once `n` bytes have been delivered, every further `Read` — whatever the
buffer sizes and whatever the wrapped reader would do — returns 0 bytes and `*LimitError{n}`
and never calls the wrapped reader. -/
theorem after_limit (n : Nat) (pre post : List (Nat × (Nat → Resp))) (hw : WfCalls pre)
    (hfull : (delivered ((limitReader n).run pre).2).length = n) :
    ∀ o ∈ (((limitReader n).run pre).1.run post).2,
      o = { requested := none, n := 0, data := [], err := .limit n } := by
  have hb := run_budget (limitReader n) pre hw
  have h0 : ((limitReader n).run pre).1.n = 0 := by
    have := hb.2; simp only [limitReader] at this hfull ⊢; omega
  have hl : ((limitReader n).run pre).1.limit = n := by simpa [limitReader] using hb.1
  have := (run_exhausted _ h0 post).2
  rw [hl] at this
  exact this

/-! ### TruncatedWriter -/

theorem tw_run_spec (w : TW) (h : w.offset ≤ w.limit) (ws : List (Bytes × Nat)) :
    (w.run ws).1.limit = w.limit ∧ (w.run ws).1.offset ≤ w.limit ∧
    forwardedAll (w.run ws).2 = (ws.flatMap (·.1)).take (w.limit - w.offset) ∧
    (w.run ws).2.map (·.n) = ws.map (·.1.length) := by
  induction ws generalizing w with
  | nil => simp [TW.run, forwardedAll, h]
  | cons c rest ih =>
    obtain ⟨b, e⟩ := c
    simp only [TW.run, TW.write]
    by_cases hr : w.limit - w.offset = 0
    · simp only [hr, if_true]
      have := ih w h
      refine ⟨this.1, this.2.1, ?_, ?_⟩
      · simp only [forwardedAll, List.flatMap_cons, Option.getD_none, List.nil_append] at this ⊢
        rw [this.2.2.1, hr]; simp
      · simp [this.2.2.2]
    · simp only [hr, if_false]
      have hlt : w.offset + min b.length (w.limit - w.offset) ≤ w.limit := by omega
      have := ih { w with offset := w.offset + min b.length (w.limit - w.offset) } hlt
      refine ⟨this.1, this.2.1, ?_, ?_⟩
      · simp only [forwardedAll, List.flatMap_cons, Option.getD_some] at this ⊢
        rw [this.2.2.1]
        simp only [List.take_append]
        congr 1
        · rw [List.take_eq_take_iff]; omega
        · congr 1; omega
      · simp [this.2.2.2]

/-- `trunc_forwards`: the wrapped writer receives exactly the first `min(total, n)` bytes of
the concatenated writes, in order, whatever errors it returns. -/
theorem trunc_forwards (n : Nat) (ws : List (Bytes × Nat)) :
    forwardedAll ((newTruncatedWriter n).run ws).2 = (ws.flatMap (·.1)).take n :=
  (tw_run_spec (newTruncatedWriter n) (Nat.zero_le _) ws).2.2.1

/-- `trunc_reports_len`: every `Write(b)` reports `len(b)`. -/
theorem trunc_reports_len (n : Nat) (ws : List (Bytes × Nat)) :
    ((newTruncatedWriter n).run ws).2.map (·.n) = ws.map (·.1.length) :=
  (tw_run_spec (newTruncatedWriter n) (Nat.zero_le _) ws).2.2.2

/-- `offset ≤ limit` in every reachable state, so the unsigned `limit - offset` never wraps. -/
theorem trunc_offset_le_limit (n : Nat) (ws : List (Bytes × Nat)) :
    ((newTruncatedWriter n).run ws).1.offset ≤ n := by
  have := tw_run_spec (newTruncatedWriter n) (Nat.zero_le _) ws
  simpa [newTruncatedWriter] using this.2.1

/-! ### Non-vacuity: concrete histories meeting the hypotheses -/

def exResp (k : Nat) (e : Nat) : Nat → Resp := fun l =>
  { n := (min k l : Nat), data := List.replicate (min k l) 7, err := e }

theorem exResp_wf (k e l : Nat) : (exResp k e l).wf l := by
  right; simp [exResp]; omega

example : WfCalls [(4, exResp 3 0), (4, exResp 9 1)] := by
  intro c hc l
  simp at hc
  rcases hc with rfl | rfl <;> exact exResp_wf ..

-- limit 5: first read delivers 3, second is cut to 2 and reaches the limit; third is refused
example : ((limitReader 5).run [(4, exResp 3 0), (4, exResp 9 1), (4, exResp 9 0)]).2.map
    (fun o => (o.requested, o.n, o.err)) =
    [(some 4, 3, .nil), (some 2, 2, .under 1), (none, 0, .limit 5)] := by decide

example : forwardedAll ((newTruncatedWriter 3).run [([1, 2], 0), ([3, 4], 5), ([6], 0)]).2 = [1, 2, 3] := by
  decide

end GolibsVerif.C15
