/-
C15 — property theorems for `LimitReader` / `TruncatedWriter` (models in `Model/C15.lean`).
Only property theorems and non-vacuity examples live here.
-/
import GolibsVerif.Model.C15

namespace GolibsVerif.C15

def delivered (os : List ReadOut) : Bytes := os.flatMap (·.data)

/-- every call of the history obeys the `io.Reader` contract whatever length it is asked for -/
def WfCalls (calls : List (Nat × (Nat → Resp))) : Prop :=
  ∀ c ∈ calls, ∀ l, (c.2 l).wf l

/-! ### One step -/

theorem read_step (lr : LR) (plen : Nat) (r : Nat → Resp) (hw : ∀ l, (r l).wf l) :
    (lr.read plen r).1.limit = lr.limit ∧
    (lr.read plen r).1.n + (lr.read plen r).2.data.length = lr.n ∧
    (∀ l, (lr.read plen r).2.requested = some l → l ≤ lr.n ∧ l ≤ plen) := by
  unfold LR.read
  by_cases h0 : lr.n = 0
  · simp [h0]
  · simp only [h0, if_false]
    have hw' := hw (min plen lr.n)
    by_cases hneg : (r (min plen lr.n)).n < 0
    · simp only [hneg, if_true]
      refine ⟨by simp, by simp, ?_⟩
      intro l hl
      simp at hl
      omega
    · simp only [hneg, if_false]
      rcases hw' with hlt | ⟨hn, hle⟩
      · exact absurd hlt hneg
      · refine ⟨by simp, ?_, ?_⟩
        · simp only [hn]
          simp only [Int.toNat_natCast]
          omega
        · intro l hl
          simp at hl
          omega

/-- The error and count of the wrapped reader pass through unchanged whenever it was called
and reported a non-negative count; the delivered bytes are the bytes it stored. -/
theorem errors_pass_through (lr : LR) (plen : Nat) (r : Nat → Resp) (l : Nat)
    (hreq : (lr.read plen r).2.requested = some l) (hn : 0 ≤ (r l).n) :
    (lr.read plen r).2.err = underErr (r l).err ∧ (lr.read plen r).2.n = (r l).n ∧
    (lr.read plen r).2.data = (r l).data := by
  unfold LR.read at hreq ⊢
  by_cases h0 : lr.n = 0
  · simp [h0] at hreq
  · simp only [h0, if_false] at hreq ⊢
    by_cases hneg : (r (min plen lr.n)).n < 0
    · simp only [hneg, if_true] at hreq
      simp at hreq
      subst hreq
      omega
    · simp only [hneg, if_false] at hreq ⊢
      simp at hreq
      subst hreq
      exact ⟨rfl, rfl, rfl⟩

/-- A reader whose budget is used up answers `(0, *LimitError{limit})` without touching the
wrapped reader, and its state does not change. -/
theorem read_exhausted (lr : LR) (h : lr.n = 0) (plen : Nat) (r : Nat → Resp) :
    lr.read plen r = (lr, { requested := none, n := 0, data := [], err := .limit lr.limit }) := by
  simp [LR.read, h]

/-! ### Whole histories -/

theorem run_budget (lr : LR) (calls : List (Nat × (Nat → Resp))) (hw : WfCalls calls) :
    (lr.run calls).1.limit = lr.limit ∧
    (lr.run calls).1.n + (delivered (lr.run calls).2).length = lr.n := by
  induction calls generalizing lr with
  | nil => simp [LR.run, delivered]
  | cons c rest ih =>
    obtain ⟨plen, r⟩ := c
    have hwr : ∀ l, (r l).wf l := fun l => hw (plen, r) (List.mem_cons_self ..) l
    have hrest : WfCalls rest := fun c hc l => hw c (List.mem_cons_of_mem _ hc) l
    have hs := read_step lr plen r hwr
    have := ih (lr.read plen r).1 hrest
    have h1 := this.1
    have h2 := this.2
    have h3 := hs.2.1
    simp only [LR.run, delivered, List.flatMap_cons, List.length_append] at h2 ⊢
    refine ⟨by rw [h1, hs.1], ?_⟩
    omega

/-- `delivered_le_n`: a `LimitReader(r, n)` never delivers more than `n` bytes. -/
theorem delivered_le_n (n : Nat) (calls : List (Nat × (Nat → Resp))) (hw : WfCalls calls) :
    (delivered ((limitReader n).run calls).2).length ≤ n := by
  have := (run_budget (limitReader n) calls hw).2
  simp only [limitReader] at this ⊢
  omega

/-- `requested_le_n`: after any history, whatever the next `Read` requests from the wrapped
reader fits in what is left of the limit — in total never more than `n` is outstanding. -/
theorem requested_le_n (n : Nat) (pre : List (Nat × (Nat → Resp))) (hw : WfCalls pre)
    (plen : Nat) (r : Nat → Resp) (l : Nat)
    (hreq : (((limitReader n).run pre).1.read plen r).2.requested = some l) :
    (delivered ((limitReader n).run pre).2).length + l ≤ n := by
  have hb := (run_budget (limitReader n) pre hw).2
  -- the `requested` bound of one step does not need the contract
  have : l ≤ ((limitReader n).run pre).1.n := by
    generalize ((limitReader n).run pre).1 = lr at hreq ⊢
    unfold LR.read at hreq
    by_cases h0 : lr.n = 0
    · simp [h0] at hreq
    · simp only [h0, if_false] at hreq
      by_cases hneg : (r (min plen lr.n)).n < 0
      · simp only [hneg, if_true] at hreq; simp at hreq; omega
      · simp only [hneg, if_false] at hreq; simp at hreq; omega
  simp only [limitReader] at hb this ⊢
  omega

/-- `delivered_prefix`: what is delivered is, call by call, exactly what the wrapped reader
stored (nothing is dropped, duplicated or reordered), so the delivered bytes are a prefix of
the wrapped reader's stream. -/
theorem delivered_prefix (lr : LR) (plen : Nat) (r : Nat → Resp) :
    (lr.read plen r).2.data = [] ∨
    ∃ l, (lr.read plen r).2.requested = some l ∧ (lr.read plen r).2.data = (r l).data := by
  unfold LR.read
  by_cases h0 : lr.n = 0
  · simp [h0]
  · simp only [h0, if_false]
    by_cases hneg : (r (min plen lr.n)).n < 0
    · simp [hneg]
    · simp only [hneg, if_false]
      exact Or.inr ⟨_, rfl, rfl⟩

theorem run_exhausted (lr : LR) (h : lr.n = 0) (calls : List (Nat × (Nat → Resp))) :
    (lr.run calls).1 = lr ∧
    ∀ o ∈ (lr.run calls).2, o = { requested := none, n := 0, data := [], err := .limit lr.limit } := by
  induction calls with
  | nil => simp [LR.run]
  | cons c rest ih =>
    obtain ⟨plen, r⟩ := c
    simp only [LR.run, read_exhausted lr h]
    refine ⟨ih.1, ?_⟩
    intro o ho
    rcases List.mem_cons.1 ho with rfl | ho
    · rfl
    · exact ih.2 o ho

/-- `after_limit`: once `n` bytes have been delivered, every further `Read` — whatever the
buffer sizes and whatever the wrapped reader would do — returns 0 bytes and `*LimitError{n}`
and never calls the wrapped reader. -/
theorem after_limit (n : Nat) (pre post : List (Nat × (Nat → Resp))) (hw : WfCalls pre)
    (hfull : (delivered ((limitReader n).run pre).2).length = n) :
    ∀ o ∈ (((limitReader n).run pre).1.run post).2,
      o = { requested := none, n := 0, data := [], err := .limit n } := by
  have hb := run_budget (limitReader n) pre hw
  have h0 : ((limitReader n).run pre).1.n = 0 := by
    have := hb.2; simp only [limitReader] at this hfull ⊢; omega
  have hl : ((limitReader n).run pre).1.limit = n := by simpa [limitReader] using hb.1
  have := (run_exhausted _ h0 post).2
  rw [hl] at this
  exact this

/-! ### Limited readers stacked on a limited reader -/

/-- A `limitedReader` over a source that obeys the `io.Reader` contract obeys it itself
(and never reports a negative count), whatever its state. -/
theorem asReader_wf (inner : LR) (s : Nat → Resp) (hw : ∀ l, (s l).wf l) (l : Nat) :
    0 ≤ (inner.asReader s l).n ∧ (inner.asReader s l).wf l := by
  have hs := read_step inner l s hw
  have key : 0 ≤ (inner.read l s).2.n ∧ (inner.read l s).2.n = (inner.read l s).2.data.length ∧
      ((inner.read l s).2.data.length ≤ l) := by
    unfold LR.read
    by_cases h0 : inner.n = 0
    · simp [h0]
    · simp only [h0, if_false]
      by_cases hneg : (s (min l inner.n)).n < 0
      · simp [hneg]
      · simp only [hneg, if_false]
        rcases hw (min l inner.n) with h | ⟨hn, hle⟩
        · exact absurd h hneg
        · exact ⟨by omega, hn, by omega⟩
  exact ⟨key.1, Or.inr ⟨key.2.1, key.2.2⟩⟩

theorem stack_read_none (st : Stack) (plen : Nat) (s : Nat → Resp)
    (h : (st.outer.read plen (st.inner.asReader s)).2.requested = none) :
    st.read plen s =
      ({ outer := (st.outer.read plen (st.inner.asReader s)).1, inner := st.inner },
       { out := (st.outer.read plen (st.inner.asReader s)).2, inner := none }) := by
  simp only [Stack.read, h]

theorem stack_read_some (st : Stack) (plen : Nat) (s : Nat → Resp) (l : Nat)
    (h : (st.outer.read plen (st.inner.asReader s)).2.requested = some l) :
    st.read plen s =
      ({ outer := (st.outer.read plen (st.inner.asReader s)).1, inner := (st.inner.read l s).1 },
       { out := (st.outer.read plen (st.inner.asReader s)).2,
         inner := some (st.inner.read l s).2 }) := by
  simp only [Stack.read, h]

/-- the bytes of an inner `Read` that may not have happened -/
def optData (o : Option ReadOut) : Bytes := (o.map (·.data)).getD []

/-- One `Read` on the outer reader: both limits stay, both budgets go down by exactly what
was delivered at their level, and the outer delivers exactly the bytes the inner one
returned. -/
theorem stack_step (st : Stack) (plen : Nat) (s : Nat → Resp) (hw : ∀ l, (s l).wf l) :
    (st.read plen s).1.outer.limit = st.outer.limit ∧
    (st.read plen s).1.inner.limit = st.inner.limit ∧
    (st.read plen s).1.outer.n + (st.read plen s).2.out.data.length = st.outer.n ∧
    (st.read plen s).1.inner.n + (optData (st.read plen s).2.inner).length = st.inner.n ∧
    (st.read plen s).2.out.data = optData (st.read plen s).2.inner := by
  have hwo : ∀ l, (st.inner.asReader s l).wf l := fun l => (asReader_wf st.inner s hw l).2
  have ho := read_step st.outer plen (st.inner.asReader s) hwo
  cases hreq : (st.outer.read plen (st.inner.asReader s)).2.requested with
  | none =>
    rw [stack_read_none st plen s hreq]
    have hd : (st.outer.read plen (st.inner.asReader s)).2.data = [] := by
      rcases delivered_prefix st.outer plen (st.inner.asReader s) with h | ⟨l, hl, _⟩
      · exact h
      · rw [hreq] at hl; cases hl
    refine ⟨ho.1, rfl, ho.2.1, by simp [optData], ?_⟩
    simp [optData, hd]
  | some l =>
    rw [stack_read_some st plen s l hreq]
    have hp := errors_pass_through st.outer plen (st.inner.asReader s) l hreq
      (asReader_wf st.inner s hw l).1
    have hi := read_step st.inner l s hw
    refine ⟨ho.1, hi.1, ho.2.1, ?_, ?_⟩
    · simpa [optData] using hi.2.1
    · simpa [optData, LR.asReader, ReadOut.toResp] using hp.2.2

/-- What the inner reader requests from the source fits in the inner budget, in the outer
budget and in the caller's buffer — whatever the source does. -/
theorem stack_request_le (st : Stack) (plen : Nat) (s : Nat → Resp) (io : ReadOut) (l : Nat)
    (hi : (st.read plen s).2.inner = some io) (hreq : io.requested = some l) :
    l ≤ st.inner.n ∧ l ≤ st.outer.n ∧ l ≤ plen := by
  have one : ∀ (lr : LR) (p : Nat) (r : Nat → Resp) (k : Nat),
      (lr.read p r).2.requested = some k → k ≤ lr.n ∧ k ≤ p := by
    intro lr p r k hk
    unfold LR.read at hk
    by_cases h0 : lr.n = 0
    · simp [h0] at hk
    · simp only [h0, if_false] at hk
      by_cases hneg : (r (min p lr.n)).n < 0
      · simp only [hneg, if_true] at hk; simp at hk; omega
      · simp only [hneg, if_false] at hk; simp at hk; omega
  cases ho : (st.outer.read plen (st.inner.asReader s)).2.requested with
  | none => rw [stack_read_none st plen s ho] at hi; cases hi
  | some k =>
    rw [stack_read_some st plen s k ho] at hi
    have hio : (st.inner.read k s).2 = io := by simpa using hi
    have h1 := one st.outer plen _ k ho
    have h2 := one st.inner k s l (by rw [hio]; exact hreq)
    omega

theorem delivered_cons (o : ReadOut) (os : List ReadOut) :
    delivered (o :: os) = o.data ++ delivered os := by
  simp [delivered]

theorem delivered_append (xs ys : List ReadOut) :
    delivered (xs ++ ys) = delivered xs ++ delivered ys := by
  simp [delivered]

theorem delivered_innerOuts_cons (o : StackOut) (os : List StackOut) :
    delivered (innerOuts (o :: os)) = optData o.inner ++ delivered (innerOuts os) := by
  cases h : o.inner <;> simp [innerOuts, h, optData, delivered]

/-- Whole histories on the outer reader: both budget invariants hold — the inner one although
it is only driven through the outer one — and byte for byte the callers got exactly what the
inner reader returned. -/
theorem stack_run_budget (st : Stack) (calls : List (Nat × (Nat → Resp))) (hw : WfCalls calls) :
    (st.run calls).1.outer.limit = st.outer.limit ∧
    (st.run calls).1.inner.limit = st.inner.limit ∧
    (st.run calls).1.outer.n + (delivered (outerOuts (st.run calls).2)).length = st.outer.n ∧
    (st.run calls).1.inner.n + (delivered (innerOuts (st.run calls).2)).length = st.inner.n ∧
    delivered (outerOuts (st.run calls).2) = delivered (innerOuts (st.run calls).2) := by
  induction calls generalizing st with
  | nil => simp [Stack.run, delivered, outerOuts, innerOuts]
  | cons c rest ih =>
    obtain ⟨plen, s⟩ := c
    have hws : ∀ l, (s l).wf l := fun l => hw (plen, s) (List.mem_cons_self ..) l
    have hrest : WfCalls rest := fun c hc l => hw c (List.mem_cons_of_mem _ hc) l
    obtain ⟨s1, s2, s3, s4, s5⟩ := stack_step st plen s hws
    obtain ⟨i1, i2, i3, i4, i5⟩ := ih (st.read plen s).1 hrest
    simp only [Stack.run, outerOuts, List.map_cons, delivered_cons, delivered_innerOuts_cons,
      List.length_append] at i3 i4 i5 ⊢
    refine ⟨by rw [i1, s1], by rw [i2, s2], by omega, by omega, by rw [s5, i5]⟩

/-- (a) `stack_inner_budget`: in `LimitReader(LimitReader(src, n), m)` the inner reader's
budget invariant holds after every history of reads on the outer one: what is left of `n`
plus what the source has delivered is `n`; so the source never delivers more than `n`. -/
theorem stack_inner_budget (n m : Nat) (calls : List (Nat × (Nat → Resp))) (hw : WfCalls calls) :
    let r := ({ outer := limitReader m, inner := limitReader n } : Stack).run calls
    r.1.inner.limit = n ∧ r.1.inner.n + (delivered (innerOuts r.2)).length = n ∧
    (delivered (innerOuts r.2)).length ≤ n := by
  have h := stack_run_budget { outer := limitReader m, inner := limitReader n } calls hw
  simp only [limitReader] at h ⊢
  exact ⟨h.2.1, h.2.2.2.1, by omega⟩

/-- (a) `stack_requested_le`: after any history, whatever the next `Read` on the outer reader
makes the inner one request from the source fits in what is left of BOTH limits: delivered so
far plus the request is at most `n` and at most `m` (and the request fits the buffer). -/
theorem stack_requested_le (n m : Nat) (pre : List (Nat × (Nat → Resp))) (hw : WfCalls pre)
    (plen : Nat) (s : Nat → Resp) (io : ReadOut) (l : Nat)
    (hi : ((({ outer := limitReader m, inner := limitReader n } : Stack).run pre).1.read plen s).2.inner
      = some io)
    (hreq : io.requested = some l) :
    let r := ({ outer := limitReader m, inner := limitReader n } : Stack).run pre
    (delivered (innerOuts r.2)).length + l ≤ n ∧ (delivered (innerOuts r.2)).length + l ≤ m ∧
    l ≤ plen := by
  have h := stack_run_budget { outer := limitReader m, inner := limitReader n } pre hw
  have hl := stack_request_le _ plen s io l hi hreq
  simp only [limitReader] at h hl ⊢
  have h5 := congrArg List.length h.2.2.2.2
  refine ⟨by omega, by omega, hl.2.2⟩

/-- (b) `stack_delivered_le_min`: `LimitReader(LimitReader(src, n), m)` never delivers more
than `min n m` bytes, and what it delivers is byte for byte what the source handed to the
inner reader. -/
theorem stack_delivered_le_min (n m : Nat) (calls : List (Nat × (Nat → Resp)))
    (hw : WfCalls calls) :
    let r := ({ outer := limitReader m, inner := limitReader n } : Stack).run calls
    (delivered (outerOuts r.2)).length ≤ min n m ∧
    delivered (outerOuts r.2) = delivered (innerOuts r.2) := by
  have h := stack_run_budget { outer := limitReader m, inner := limitReader n } calls hw
  simp only [limitReader] at h ⊢
  have h5 := congrArg List.length h.2.2.2.2
  exact ⟨by omega, h.2.2.2.2⟩

/-- every history of every session obeys the `io.Reader` contract -/
def WfSessions (ss : List (Option Nat × List (Nat × (Nat → Resp)))) : Prop :=
  ∀ x ∈ ss, WfCalls x.2

/-- Any number of readers made one after the other over the same inner reader (and reads
from it directly in between): the inner budget invariant holds at the end, every session
through a `LimitReader(inner, m)` is counted in it, and the callers together got exactly
the bytes the inner reader returned. -/
theorem sessions_budget (inner : LR) (ss : List (Option Nat × List (Nat × (Nat → Resp))))
    (hw : WfSessions ss) :
    (sessions inner ss).1.limit = inner.limit ∧
    (sessions inner ss).1.n + (delivered (sessions inner ss).2.2).length = inner.n ∧
    delivered (sessions inner ss).2.1 = delivered (sessions inner ss).2.2 := by
  induction ss generalizing inner with
  | nil => simp [sessions, delivered]
  | cons x rest ih =>
    obtain ⟨om, calls⟩ := x
    have hc : WfCalls calls := hw (om, calls) (List.mem_cons_self ..)
    have hrest : WfSessions rest := fun x hx => hw x (List.mem_cons_of_mem _ hx)
    cases om with
    | none =>
      obtain ⟨b1, b2⟩ := run_budget inner calls hc
      obtain ⟨i1, i2, i3⟩ := ih (inner.run calls).1 hrest
      simp only [sessions, delivered_append, List.length_append] at i2 i3 ⊢
      refine ⟨by rw [i1, b1], by omega, by rw [i3]⟩
    | some m =>
      obtain ⟨_, b2, _, b4, b5⟩ :=
        stack_run_budget { outer := limitReader m, inner := inner } calls hc
      dsimp only at b2 b4
      obtain ⟨i1, i2, i3⟩ := ih (Stack.run { outer := limitReader m, inner := inner } calls).1.inner hrest
      simp only [sessions, delivered_append, List.length_append] at i2 i3 ⊢
      refine ⟨by rw [i1, b2], by omega, by rw [i3, b5]⟩

/-- (c) `sessions_delivered_le_n`: however many `LimitReader(total, m)` are made one after
the other over the same `total = LimitReader(src, n)`, whatever their limits, buffer sizes and
the source's behaviour, together they deliver at most `n` bytes — and the source delivers at
most `n`. -/
theorem sessions_delivered_le_n (n : Nat) (ss : List (Option Nat × List (Nat × (Nat → Resp))))
    (hw : WfSessions ss) :
    (delivered (sessions (limitReader n) ss).2.1).length ≤ n ∧
    (delivered (sessions (limitReader n) ss).2.2).length ≤ n := by
  obtain ⟨_, h2, h3⟩ := sessions_budget (limitReader n) ss hw
  have := congrArg List.length h3
  simp only [limitReader] at h2 this ⊢
  omega

/-- The harness's `C15.copy` stage 3: three `ReadAll(LimitReader(total, part))` and then
`ReadAll(total)` — whatever sequence of reads `ReadAll` makes. -/
theorem copy_nested_le_n (n part : Nat) (c1 c2 c3 c4 : List (Nat × (Nat → Resp)))
    (h1 : WfCalls c1) (h2 : WfCalls c2) (h3 : WfCalls c3) (h4 : WfCalls c4) :
    let r := sessions (limitReader n) [(some part, c1), (some part, c2), (some part, c3), (none, c4)]
    (delivered r.2.1).length ≤ n ∧ (delivered r.2.2).length ≤ n := by
  apply sessions_delivered_le_n
  intro x hx
  simp only [List.mem_cons, List.not_mem_nil, or_false] at hx
  rcases hx with rfl | rfl | rfl | rfl <;> assumption

/-! ### TruncatedWriter -/

theorem tw_run_spec (w : TW) (h : w.offset ≤ w.limit) (ws : List (Bytes × Nat)) :
    (w.run ws).1.limit = w.limit ∧ (w.run ws).1.offset ≤ w.limit ∧
    forwardedAll (w.run ws).2 = (ws.flatMap (·.1)).take (w.limit - w.offset) ∧
    (w.run ws).2.map (·.n) = ws.map (·.1.length) := by
  induction ws generalizing w with
  | nil => simp [TW.run, forwardedAll, h]
  | cons c rest ih =>
    obtain ⟨b, e⟩ := c
    simp only [TW.run, TW.write]
    by_cases hr : w.limit - w.offset = 0
    · simp only [hr, if_true]
      have := ih w h
      refine ⟨this.1, this.2.1, ?_, ?_⟩
      · simp only [forwardedAll, List.flatMap_cons, Option.getD_none, List.nil_append] at this ⊢
        rw [this.2.2.1, hr]; simp
      · simp [this.2.2.2]
    · simp only [hr, if_false]
      have hlt : w.offset + min b.length (w.limit - w.offset) ≤ w.limit := by omega
      have := ih { w with offset := w.offset + min b.length (w.limit - w.offset) } hlt
      refine ⟨this.1, this.2.1, ?_, ?_⟩
      · simp only [forwardedAll, List.flatMap_cons, Option.getD_some] at this ⊢
        rw [this.2.2.1]
        simp only [List.take_append]
        congr 1
        · rw [List.take_eq_take_iff]; omega
        · congr 1; omega
      · simp [this.2.2.2]

/-- `trunc_forwards`: the wrapped writer receives exactly the first `min(total, n)` bytes of
the concatenated writes, in order, whatever errors it returns. -/
theorem trunc_forwards (n : Nat) (ws : List (Bytes × Nat)) :
    forwardedAll ((newTruncatedWriter n).run ws).2 = (ws.flatMap (·.1)).take n :=
  (tw_run_spec (newTruncatedWriter n) (Nat.zero_le _) ws).2.2.1

/-- `trunc_reports_len`: every `Write(b)` reports `len(b)`. -/
theorem trunc_reports_len (n : Nat) (ws : List (Bytes × Nat)) :
    ((newTruncatedWriter n).run ws).2.map (·.n) = ws.map (·.1.length) :=
  (tw_run_spec (newTruncatedWriter n) (Nat.zero_le _) ws).2.2.2

/-- `offset ≤ limit` in every reachable state, so the unsigned `limit - offset` never wraps. -/
theorem trunc_offset_le_limit (n : Nat) (ws : List (Bytes × Nat)) :
    ((newTruncatedWriter n).run ws).1.offset ≤ n := by
  have := tw_run_spec (newTruncatedWriter n) (Nat.zero_le _) ws
  simpa [newTruncatedWriter] using this.2.1

/-! ### Non-vacuity: concrete histories meeting the hypotheses -/

def exResp (k : Nat) (e : Nat) : Nat → Resp := fun l =>
  { n := (min k l : Nat), data := List.replicate (min k l) 7, err := e }

theorem exResp_wf (k e l : Nat) : (exResp k e l).wf l := by
  right; simp [exResp]; omega

example : WfCalls [(4, exResp 3 0), (4, exResp 9 1)] := by
  intro c hc l
  simp at hc
  rcases hc with rfl | rfl <;> exact exResp_wf ..

-- limit 5: first read delivers 3, second is cut to 2 and reaches the limit; third is refused
example : ((limitReader 5).run [(4, exResp 3 0), (4, exResp 9 1), (4, exResp 9 0)]).2.map
    (fun o => (o.requested, o.n, o.err)) =
    [(some 4, 3, .nil), (some 2, 2, .under 1), (none, 0, .limit 5)] := by decide

-- LimitReader(LimitReader(src, 5), 3): the outer limit cuts the request to 3, the second read
-- is refused by the outer reader and the inner one is not called
example : (({ outer := limitReader 3, inner := limitReader 5 } : Stack).run
    [(4, exResp 9 0), (4, exResp 9 0)]).2.map
    (fun o => (o.out.requested, o.out.n, o.out.err, o.inner.map (·.requested))) =
    [(some 3, 3, .nil, some (some 3)), (none, 0, .limit 3, none)] := by decide

-- LimitReader(LimitReader(src, 2), 3): the inner limit cuts the request to 2; on the next read
-- the inner reader is called and answers with its own limit error, which passes through
example : (({ outer := limitReader 3, inner := limitReader 2 } : Stack).run
    [(4, exResp 9 0), (4, exResp 9 0)]).2.map
    (fun o => (o.out.requested, o.out.n, o.out.err, o.inner.map (·.requested))) =
    [(some 3, 2, .nil, some (some 2)), (some 1, 0, .under (RErr.limit 2).code, some none)] := by
  decide

-- three LimitReader(total, 3) over total = LimitReader(src, 5), then total itself: 3 + 2 + 0 + 0
example : (sessions (limitReader 5)
    [(some 3, [(4, exResp 9 0), (4, exResp 9 0)]), (some 3, [(4, exResp 9 0), (4, exResp 9 0)]),
     (some 3, [(4, exResp 9 0)]), (none, [(4, exResp 9 0)])]).2.1.map (·.n) =
    [3, 0, 2, 0, 0, 0] := by decide

example : WfSessions [(some 3, [(4, exResp 9 0), (4, exResp 9 0)]), (none, [(4, exResp 9 0)])] := by
  intro x hx c hc l
  simp only [List.mem_cons, List.not_mem_nil, or_false] at hx
  rcases hx with rfl | rfl <;> simp only [List.mem_cons, List.not_mem_nil, or_false] at hc <;>
    (try rcases hc with rfl | rfl) <;> (try subst hc) <;> exact exResp_wf ..

example : forwardedAll ((newTruncatedWriter 3).run [([1, 2], 0), ([3, 4], 5), ([6], 0)]).2 = [1, 2, 3] := by
  decide

end GolibsVerif.C15
