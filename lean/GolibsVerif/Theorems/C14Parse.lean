/-
C14 — property theorems about the model of `time.ParseDuration` (`Model/C14Parse.lean`, tied
to the real function by the op `C14.std.parsedur` on every run): the contract DUR-RT that
`duration_roundtrip_of_contract` (`Theorems/C14.lean`) assumes is proved here for that model,
so the Duration round trip holds without any hypothesis about `time.ParseDuration`.
Lemmas in `Lemmas/C14Parse*.lean`.  Only property theorems and non-vacuity examples live here.
-/
import GolibsVerif.Model.C14
import GolibsVerif.Model.C14Parse
import GolibsVerif.Spec.C14
import GolibsVerif.Lemmas.C14ParseGolibs
import GolibsVerif.Lemmas.C14ParseDrop
import GolibsVerif.Theorems.C14

namespace GolibsVerif.C14

/-- `parse_stdString`: `time.ParseDuration(time.Duration(d).String()) = d`, no error, for
every one of the 2^64 `int64` values (on the models of the two functions).  Proved from
print/parse inverse lemmas (`fmtInt`/`leadingInt`, `fmtFrac`/`leadingFraction`) and the
exactness of the `float64` arithmetic on fractions of at most 9 digits, not by enumeration. -/
theorem parse_stdString (d : Int) (hd : inInt64 d) : parseDuration (stdString d) = some d :=
  parse_stdString_all d hd

/-- `parse_golibs_string`: `timeutil.Duration.String` does not panic, and its text (a
redundant trailing `0s`, then `0m`, cut) parses back to `d`, for every `int64`. -/
theorem parse_golibs_string (d : Int) (hd : inInt64 d) :
    ∃ s, durationString d = .ok s ∧ parseDuration s = some d :=
  parse_durationString d hd

/-- `duration_roundtrip`: `UnmarshalText(MarshalText(d)) = d` for every `int64` duration —
no panic, no error — with `time.ParseDuration` modelled, not assumed. -/
theorem duration_roundtrip (d : Int) (hd : inInt64 d) :
    (durationMarshalText d).map (durationUnmarshalText parseDuration) = .ok (some d) := by
  obtain ⟨s, h1, h2⟩ := parse_durationString d hd
  unfold durationMarshalText durationUnmarshalText
  rw [h1]
  show Except.ok (parseDuration s) = Except.ok (some d)
  rw [h2]

/-- the reference text of `duration_string_spec` parses back, too -/
theorem parse_stripRedundant (d : Int) (hd : inInt64 d) :
    parseDuration (stripRedundant (stdString d)) = some d := by
  obtain ⟨s, h1, h2⟩ := parse_durationString d hd
  rw [durationString_eq d hd] at h1
  cases h1
  exact h2

/-- `parse_drop_zero_seconds`: for EVERY text `s` that ends in `m`, `s ++ "0s"` and `s` are
parsed alike (same value or both an error). -/
theorem parse_drop_zero_seconds (pre : Bytes) :
    parseDuration ((pre ++ [109]) ++ [48, 115]) = parseDuration (pre ++ [109]) :=
  parseDuration_append_zero 109 115 (by unfold IsUnitByte; omega) (by omega) (by decide) pre

/-- `parse_drop_zero_minutes`: for EVERY text `s` that ends in `h`, `s ++ "0m"` and `s` are
parsed alike. -/
theorem parse_drop_zero_minutes (pre : Bytes) :
    parseDuration ((pre ++ [104]) ++ [48, 109]) = parseDuration (pre ++ [104]) :=
  parseDuration_append_zero 104 109 (by unfold IsUnitByte; omega) (by omega) (by decide) pre

/-- `dur_rt_model`: the contract **DUR-RT** of `Spec/C14.lean`, verbatim, holds for the model of
`time.ParseDuration` — so `duration_roundtrip_of_contract` applies to it. -/
theorem dur_rt_model : DurRT parseDuration := durRT_parseDuration

/-- Model sanity: the fuel of the loop (`len(s)`) never runs out — with one more unit of fuel
the result is the same, i.e. the loop always ends by an error or with `s = ""`. -/
theorem parse_loop_fuel_suffices (s : Bytes) (d n : Nat) (hn : s.length ≤ n) :
    parseLoop n s d = parseLoop s.length s d :=
  parseLoop_fuel n s d hn

/-- Model sanity: every successful round of the loop consumes at least one byte. -/
theorem parse_group_consumes (s : Bytes) (v : Nat) (r : Bytes) (h : parseGroup s = some (v, r)) :
    r.length < s.length :=
  parseGroup_length s v r h

/-- For the record (go1.24 behaviour, reproduced by the op `C14.std.parsedur`): the `uint64`
sum `d += v` wraps unnoticed, `"9223372036854775808ns9223372036854775808ns"` parses to 0;
`-9223372036854775808ns` is accepted and `9223372036854775808ns` is not. -/
theorem parse_wrap_quirk :
    parseDuration (ascii "9223372036854775808ns9223372036854775808ns") = some 0 ∧
    parseDuration (ascii "-9223372036854775808ns") = some (-9223372036854775808) ∧
    parseDuration (ascii "9223372036854775808ns") = none := by
  refine ⟨?_, ?_, ?_⟩ <;> decide

/-! ## Non-vacuity -/

-- the old route: the contract-based theorem instantiated with the proved contract
example (d : Int) (hd : inInt64 d) :
    (durationMarshalText d).map (durationUnmarshalText parseDuration) = .ok (some d) :=
  duration_roundtrip_of_contract parseDuration dur_rt_model d hd

example : parseDuration (stdString 5400000000000) = some 5400000000000 := parse_stdString _ (by decide)
example : parseDuration (ascii "1h30m") = some 5400000000000 := by decide
example : parseDuration (ascii "1.5s") = some 1500000000 := by decide
example : parseDuration (ascii "1h1h") = some 7200000000000 := by decide
example : parseDuration (ascii "1") = none := by decide
example : parseDuration (ascii ".s") = none := by decide

end GolibsVerif.C14
