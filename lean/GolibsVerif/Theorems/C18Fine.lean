/-
C18 — property theorems about the statement-level transition system of `RefreshWorker`
(`Model/C18Fine.lean`; observation functions and per-step lemmas in `Lemmas/C18Fine.lean`).
Only property theorems and non-vacuity examples live here.

Every universally quantified theorem is over ALL action sequences `acts : List Act`, i.e. all
interleavings of the loop goroutine, the goroutine inside `Shutdown`, the timer and the
returns of the user-supplied callbacks, with all return values and all resolutions of
`select`'s random choice; the proofs are inductions over the action list with an inductive
invariant or a per-step balance (no sampling).

Route taken for the clauses already proved on the coarse system of `Model/C18.lean`
(`refresh_once_per_tick`, `error_handled_once`, `schedule_consulted_after_each`): they are
proved here DIRECTLY on the fine system (`…_fine`), for every interleaving including those
with `Shutdown` steps inside the window.  A refinement "every fine execution without a
`Shutdown` step in the window projects to a coarse execution" is NOT proved (it needs
commutation of independent steps of the two goroutines).  What is proved about the two
systems is the embedding `coarse_embeds_in_fine`: every coarse history (with at most one
`Shutdown` call) IS one execution of the fine system — the block-sequential one in which every
stimulus is followed by running both goroutines to quiescence — with exactly the coarse
outputs; so the coarse theorems are statements about that sub-class of fine executions, and
the window / overlap executions are precisely what lies outside it.
-/
import GolibsVerif.Lemmas.C18Fine
import GolibsVerif.Lemmas.C18FineCoarse
import GolibsVerif.Model.C18Skel
import GolibsVerif.Gen.SyncSkel

set_option linter.unusedSimpArgs false
set_option linter.unusedVariables false

namespace GolibsVerif.C18
open Fine

/-! ## The fine model's step order against the regenerated event graphs

`skel_start`, `skel_workerShutdown` (`Theorems/C18.lean`) pin the SOURCE to the expected event
graphs (`refreshInALoop` and `refresh` inlined).  They do not say that the fine model walks
through the statements in that order — that was by reading.  The obligations below compute the
order from the model's own step function (`ftrace` of canonical executions), translate every
event into the labels it stands for (`evLbls`), and check that the graph regenerated from
`/repo` on this run has a path from its entry with exactly these labels, in this order, and
nothing in between except labels the model has no event for (`silentLbl`: `Now`, `go`, defer
registrations, frame brackets, residual conditions, `return`): re-ordering `New`/`Refresh`,
moving or dropping the re-check, merging the two selects, moving `close(done)` after the final
refresh, dropping or adding a call — in the source or in the model — breaks them. -/

open GolibsVerif.Skel in
/-- One full iteration: `UntilNext`, `After`, outer select (timer), inner select (re-check,
`default`), then inside `w.refresh` first `New`, then `Refresh`; the error test; `Handle` iff the
error is not nil; `UntilNext` again — a path of `Start`'s graph from its entry, for a failing
and for a successful refresh. -/
theorem fine_loop_order_matches_skeleton :
    accepts Gen.SyncSkel.service_RefreshWorker_Start silentLbl 64 0
      ((ftrace true finit loopIterationActs).flatMap evLbls) = true ∧
    accepts Gen.SyncSkel.service_RefreshWorker_Start silentLbl 64 0
      ((ftrace true finit loopIterationOkActs).flatMap evLbls) = true := by
  decide

open GolibsVerif.Skel in
/-- The two `return`s of the loop: the `done` case of the outer select, taken directly after
`After` is evaluated, and the `done` case of the inner select, taken directly after the timer
case — each followed by nothing but the end of the goroutine and of `Start`. -/
theorem fine_exits_match_skeleton :
    acceptsEnd Gen.SyncSkel.service_RefreshWorker_Start silentLbl 64 0
      (((ftrace true finit loopExitOuterActs).filter isLoopEv).flatMap evLbls) = true ∧
    acceptsEnd Gen.SyncSkel.service_RefreshWorker_Start silentLbl 64 0
      (((ftrace true finit loopExitRecheckActs).filter isLoopEv).flatMap evLbls) = true := by
  decide

open GolibsVerif.Skel in
/-- `Shutdown`: `close(w.done)` first, then, iff `RefreshOnShutdown`, (inside `w.refresh`)
`New`, then `Refresh`; then it returns. -/
theorem fine_shutdown_order_matches_skeleton :
    acceptsEnd Gen.SyncSkel.service_RefreshWorker_Shutdown silentLbl 64 0
      ((ftrace true finit shutdownActs).flatMap evLbls) = true ∧
    acceptsEnd Gen.SyncSkel.service_RefreshWorker_Shutdown silentLbl 64 0
      ((ftrace false finit shutdownActs).flatMap evLbls) = true := by
  decide

/-- The regenerated graphs of `Start` and `Shutdown` contain no event outside the fine
model's alphabet: a call, channel operation or select case added to the source is not
silently ignored by the walks above. -/
theorem fine_alphabet_covers_skeleton :
    alphabetCovers Gen.SyncSkel.service_RefreshWorker_Start = true ∧
    alphabetCovers Gen.SyncSkel.service_RefreshWorker_Shutdown = true := by
  decide

/-! The walks are not vacuous: orders the source does not have are rejected. -/

open GolibsVerif.Skel in
/-- `Refresh` before `New` is not a path -/
example : accepts Gen.SyncSkel.service_RefreshWorker_Start silentLbl 64 0
    [.call "UntilNext", .call "After", .select, .caseRecv "After()", .select, .caseDefault,
     .call "Refresh", .call "New"] = false := by decide

open GolibsVerif.Skel in
/-- a refresh without the re-check of `done` is not a path -/
example : accepts Gen.SyncSkel.service_RefreshWorker_Start silentLbl 64 0
    [.call "UntilNext", .call "After", .select, .caseRecv "After()", .call "New"] = false := by decide

open GolibsVerif.Skel in
/-- `close(done)` after the final refresh is not a path; nor is a `Shutdown` that returns
between `New` and `Refresh` -/
example : acceptsEnd Gen.SyncSkel.service_RefreshWorker_Shutdown silentLbl 64 0
    [.call "New", .call "Refresh", .close "recv.<chan unit>"] = false ∧
    acceptsEnd Gen.SyncSkel.service_RefreshWorker_Shutdown silentLbl 64 0
    [.close "recv.<chan unit>", .call "New"] = false := by decide

/-! ## What does NOT hold: the finding -/

/-- `late_refresh_possible` (machine-checked form of the finding): for either setting of
`RefreshOnShutdown` there IS an execution in which a scheduled `Refresh` is entered after
`Shutdown` has returned: the timer fires, the loop passes its re-check of `done` and is inside
`contextCons.New`; `Shutdown` runs to completion; `New` returns; `Refresh` is called. -/
theorem late_refresh_possible (ros : Bool) :
    ∃ (acts : List Act) (e : Nat) (pre post : List FEv),
      ftrace ros finit acts = pre ++ FEv.shutRet e :: post ∧
      FEv.refreshCall .loop (.cons .start) ∈ post := by
  cases ros with
  | false =>
    exact ⟨[.loop false, .untilRet 1, .loop false, .tick, .loop false, .loop false, .loop false,
        .callShutdown, .shut, .shut, .newRet .loop, .loop false], 0,
      [.untilCall, .untilRet 1, .after 1 false, .fire, .selTimer, .recheckOpen, .newCall .loop, .shutCall, .closeDone],
      [.newRet .loop, .refreshCall .loop (.cons .start)], by decide, by decide⟩
  | true =>
    exact ⟨[.loop false, .untilRet 1, .loop false, .tick, .loop false, .loop false, .loop false,
        .callShutdown, .shut, .shut, .shut, .newRet .shutdown, .shut, .refreshRet .shutdown 4, .shut,
        .newRet .loop, .loop false], 4,
      [.untilCall, .untilRet 1, .after 1 false, .fire, .selTimer, .recheckOpen, .newCall .loop, .shutCall, .closeDone,
       .newCall .shutdown, .newRet .shutdown, .refreshCall .shutdown (.cons .shutdown), .refreshRet .shutdown 4],
      [.newRet .loop, .refreshCall .loop (.cons .start)], by decide, by decide⟩

/-- `overlap_possible` (the TODO in `Shutdown`): there is an execution in which a scheduled
`Refresh` is still running when the final `Refresh` is entered. -/
theorem overlap_possible :
    ∃ acts : List Act,
      (frun true finit acts).lpc = .inRefresh ∧ (frun true finit acts).spc = .inRefresh ∧
      ftrace true finit acts =
        [.untilCall, .untilRet 1, .after 1 false, .fire, .selTimer, .recheckOpen, .newCall .loop, .newRet .loop,
         .refreshCall .loop (.cons .start), .shutCall, .closeDone, .newCall .shutdown, .newRet .shutdown,
         .refreshCall .shutdown (.cons .shutdown)] :=
  ⟨[.loop false, .untilRet 1, .loop false, .tick, .loop false, .loop false, .loop false, .newRet .loop, .loop false,
    .callShutdown, .shut, .shut, .shut, .newRet .shutdown, .shut], by decide, by decide, by decide⟩

/-! ## What DOES hold after `close(done)` -/

/-- `at_most_one_late_refresh`.  Take ANY execution `pre`, then the step `a` that executes
`close(w.done)`, then ANY continuation `post`.  In everything after `close(done)`:
  * a scheduled `Refresh` is entered at most once, and only if at the moment of `close(done)` the
    loop goroutine was inside the window (`win s0 = 1`: past a re-check that saw `done` open,
    `Refresh` not entered yet) — so in particular at most one scheduled `Refresh` call follows
    `Shutdown`'s return;
  * no re-check sees `done` open;
  * the loop goroutine produces at most `rank ≤ 11` further events (that one iteration at most,
    then `return`): it terminates. -/
theorem at_most_one_late_refresh (ros : Bool) (pre post : List Act) (a : Act)
    (hclose : (fstep ros (frun ros finit pre) a).2 = some .closeDone) :
    let s0 := frun ros finit pre
    let tr := ftrace ros (fstep ros s0 a).1 post
    tr.countP isLoopRefreshCall ≤ win s0 ∧ win s0 ≤ 1 ∧
    tr.countP isRecheckOpen = 0 ∧
    tr.countP isLoopEv ≤ rank s0.lpc ∧ rank s0.lpc ≤ 11 := by
  dsimp only
  generalize hs0 : frun ros finit pre = s0 at hclose
  have hcl : FClosed (fstep ros s0 a).1 := closeDone_closes ros s0 a _ hclose rfl
  have hfr : (fstep ros s0 a).1.lpc = s0.lpc := closeDone_frame ros s0 a hclose
  have h1 := run_le ros isLoopRefreshCall win FClosed (fclosed_step ros) (closed_win_step ros) post _ hcl
  have h2 := run_le ros isRecheckOpen (fun _ => 0) FClosed (fclosed_step ros) (closed_recheck_step ros) post _ hcl
  have h3 := run_le ros isLoopEv (fun s => rank s.lpc) FClosed (fclosed_step ros) (closed_rank_step ros) post _ hcl
  have hw : win (fstep ros s0 a).1 = win s0 := by simp [win, hfr]
  simp only [hfr] at h3
  refine ⟨by omega, win_le_one s0, by omega, by omega, rank_le s0.lpc⟩

/-- The same on traces: in every execution, after the `close(done)` event — and hence after
the event "`Shutdown` returns" — at most ONE scheduled `Refresh` call occurs, no re-check sees
`done` open, and the loop goroutine produces at most 11 more events. -/
theorem at_most_one_refresh_after_shutdown (ros : Bool) (acts : List Act) :
    (afterFirst isCloseDone (ftrace ros finit acts)).countP isLoopRefreshCall ≤ 1 ∧
    (afterFirst isShutRet (ftrace ros finit acts)).countP isLoopRefreshCall ≤ 1 ∧
    (afterFirst isCloseDone (ftrace ros finit acts)).countP isRecheckOpen = 0 ∧
    (afterFirst isShutRet (ftrace ros finit acts)).countP isRecheckOpen = 0 ∧
    (afterFirst isCloseDone (ftrace ros finit acts)).countP isLoopEv ≤ 11 := by
  have key : ∀ p : FEv → Bool,
      (∀ s a e, FInv s → (fstep ros s a).2 = some e → p e = true → FClosed (fstep ros s a).1) →
      (afterFirst p (ftrace ros finit acts)).countP isLoopRefreshCall ≤ 1 ∧
      (afterFirst p (ftrace ros finit acts)).countP isRecheckOpen = 0 ∧
      (afterFirst p (ftrace ros finit acts)).countP isLoopEv ≤ 11 := by
    intro p hp
    rcases afterFirst_ftrace ros p FInv (finv_step ros) acts finit finv_init with h | ⟨s0, a, e, post, hi, hev, hpe, heq⟩
    · rw [h]; simp
    · rw [heq]
      have hcl := hp s0 a e hi hev hpe
      have h1 := run_le ros isLoopRefreshCall win FClosed (fclosed_step ros) (closed_win_step ros) post _ hcl
      have h2 := run_le ros isRecheckOpen (fun _ => 0) FClosed (fclosed_step ros) (closed_recheck_step ros) post _ hcl
      have h3 := run_le ros isLoopEv (fun s => rank s.lpc) FClosed (fclosed_step ros) (closed_rank_step ros) post _ hcl
      have := win_le_one (fstep ros s0 a).1
      have := rank_le (fstep ros s0 a).1.lpc
      exact ⟨by omega, by omega, by omega⟩
  obtain ⟨a1, a2, a3⟩ := key isCloseDone (fun s a e _ hev hpe => closeDone_closes ros s a e hev hpe)
  obtain ⟨b1, b2, _⟩ := key isShutRet (fun s a e hi hev hpe => shutRet_closed ros s a e hi hev hpe)
  exact ⟨a1, b1, a2, b2, a3⟩

/-- Every scheduled `Refresh` call has its own earlier re-check that saw `done` open: in every
execution the number of scheduled `Refresh` calls, plus one if the loop is inside the window,
is the number of re-checks that saw `done` open.  With `at_most_one_late_refresh` (no such
re-check after `close(done)`): the one late refresh belongs to an iteration whose re-check
preceded `close(done)`. -/
theorem late_refresh_has_earlier_recheck (ros : Bool) (acts : List Act) :
    (ftrace ros finit acts).countP isLoopRefreshCall + win (frun ros finit acts) =
      (ftrace ros finit acts).countP isRecheckOpen := by
  have h := run_balance ros isLoopRefreshCall isRecheckOpen win (fun _ => True) (fun _ _ _ => trivial)
    (fun s a _ => win_step ros s a) acts finit trivial
  simpa [win, winL, finit] using h

/-- `recheck_after_close_stops`: if the loop goroutine is NOT inside the window when `done` is
closed — i.e. its next re-check, if any, happens after `close(done)` — then no scheduled
`Refresh` starts at all, whatever happens afterwards. -/
theorem recheck_after_close_stops (ros : Bool) (pre post : List Act) (a : Act)
    (hclose : (fstep ros (frun ros finit pre) a).2 = some .closeDone)
    (hout : win (frun ros finit pre) = 0) :
    (ftrace ros (fstep ros (frun ros finit pre) a).1 post).countP isLoopRefreshCall = 0 := by
  have h := (at_most_one_late_refresh ros pre post a hclose).1
  omega

/-- A re-check that sees `done` closed is the loop's `return`: in every execution no event of
the loop goroutine follows it. -/
theorem recheck_closed_is_exit (ros : Bool) (acts : List Act) :
    (afterFirst isRecheckClosed (ftrace ros finit acts)).countP isLoopEv = 0 := by
  rcases afterFirst_ftrace ros isRecheckClosed (fun _ => True) (fun _ _ _ => trivial) acts finit trivial with
    h | ⟨s0, a, e, post, _, hev, hpe, heq⟩
  · rw [h]; simp
  · rw [heq]
    have hex := recheckClosed_exits ros s0 a e hev hpe
    have := run_le ros isLoopEv (fun _ => 0) FExited (fexited_step ros) (fexited_quiet_step ros) post _ hex
    omega

/-- After `close(done)` the loop goroutine is never stuck: in every reachable state with `done`
closed it has returned, or is inside one of the user's callbacks, or can make a step. -/
theorem loop_not_stuck_after_close (ros : Bool) (acts : List Act)
    (h : (frun ros finit acts).closed = true) :
    let s := frun ros finit acts
    s.lpc = .exited ∨ s.lpc = .inUntil ∨ s.lpc = .inNew ∨ s.lpc = .inRefresh ∨ s.lpc = .inHandle ∨
      loopRunnable s = true :=
  closed_loop_not_stuck _ h

/-! ## The final refresh -/

/-- `final_refresh_exact`: in every execution
  * the final `Refresh` (entered from `Shutdown`) never precedes `close(done)` (in every prefix:
    #final calls ≤ #close ≤ 1);
  * without `RefreshOnShutdown` there is none, with it at most one;
  * `Shutdown` returns at most once, and when it has returned `e`: with `RefreshOnShutdown`
    exactly one final `Refresh` was made and `e` is the error it returned (wrapped); without,
    none was made and `e` is nil. -/
theorem final_refresh_exact (ros : Bool) (acts : List Act) :
    let tr := ftrace ros finit acts
    tr.countP isFinalRefreshCall ≤ tr.countP isCloseDone ∧ tr.countP isCloseDone ≤ 1 ∧
    tr.countP isFinalRefreshCall ≤ (if ros then 1 else 0) ∧
    (shutRets tr).length ≤ 1 ∧
    ∀ e, e ∈ shutRets tr →
      shutRets tr = [e] ∧ tr.countP isCloseDone = 1 ∧
      (if ros then tr.countP isFinalRefreshCall = 1 ∧ finalRets tr = [e]
       else tr.countP isFinalRefreshCall = 0 ∧ e = 0) := by
  intro tr
  have h := run_hist ros (FinalInv ros) (finalInv_step ros) acts finit [] (finalInv_init ros)
  simp only [List.nil_append] at h
  obtain ⟨c1, c2, c3, c4, h2⟩ := h
  simp only [tr]
  rw [c1, c2, c3, c4]
  cases ros <;> cases hs : (frun _ finit acts).spc <;> simp [finalObs, finalOk, hs] at h2 ⊢ <;> simp_all

/-- every `Refresh` gets the context the context constructor made: from `Start`'s context on
the loop goroutine, from `Shutdown`'s context for the final refresh -/
theorem refresh_ctx_fine (ros : Bool) (acts : List Act) (c : Caller) (ctx : Ctx)
    (h : FEv.refreshCall c ctx ∈ ftrace ros finit acts) : ctx = .cons (callerCtx c) :=
  run_all ros (fun e => ∀ c ctx, e = FEv.refreshCall c ctx → ctx = .cons (callerCtx c))
    (refreshCall_ctx_step ros) acts finit _ h c ctx rfl

/-! ## The remaining clauses, directly on the fine system (all interleavings) -/

/-- `refresh_once_per_tick_fine`: in every execution
  * scheduled `Refresh` calls correspond one-to-one to the armed timers (`After` calls), except
    for the last timer while it is pending / being processed / abandoned by the loop's return
    (`pendT ≤ 1`);
  * every fired timer is used up by exactly one scheduled `Refresh` or by the re-check that saw
    `done` closed, except those still in flight (`pendR`); in particular no refresh without an
    elapsed interval: #scheduled refreshes ≤ #fired timers. -/
theorem refresh_once_per_tick_fine (ros : Bool) (acts : List Act) :
    let tr := ftrace ros finit acts
    let s := frun ros finit acts
    tr.countP isLoopRefreshCall + pendT s = tr.countP isAfterEv ∧ pendT s ≤ 1 ∧
    tr.countP isRefreshOrStop + pendR s = tr.countP isFired ∧
    tr.countP isLoopRefreshCall ≤ tr.countP isFired := by
  intro tr s
  have h1 := run_balance ros isLoopRefreshCall isAfterEv pendT (fun _ => True) (fun _ _ _ => trivial)
    (fun s a _ => pendT_step ros s a) acts finit trivial
  have h2 := run_balance ros isRefreshOrStop isFired pendR FInv (finv_step ros) (pendR_step ros) acts finit finv_init
  have h3 : tr.countP isLoopRefreshCall ≤ tr.countP isRefreshOrStop :=
    List.countP_mono_left (fun e _ he => by cases e <;> simp_all [isLoopRefreshCall, isRefreshOrStop] <;> split at he <;> simp_all)
  have h4 := pendT_le_one s
  have e1 : pendT finit = 0 := rfl
  have e2 : pendR finit = 0 := rfl
  rw [e1] at h1
  rw [e2] at h2
  simp only [tr, s] at *
  refine ⟨by omega, h4, by omega, by omega⟩

/-- `error_handled_once_fine`: in every execution the errors handed to the `ErrorHandler` are
exactly the non-nil errors returned by scheduled refreshes — each once, in order, nothing else
(not the final refresh's error) — except for at most one that is about to be handed over. -/
theorem error_handled_once_fine (ros : Bool) (acts : List Act) :
    handledErrs (ftrace ros finit acts) ++ pendE (frun ros finit acts) = loopErrs (ftrace ros finit acts) ∧
    (pendE (frun ros finit acts)).length ≤ 1 := by
  have h := run_balance_list ros handledOf loopErrOf pendE (pendE_step ros) acts finit
  refine ⟨by simpa [pendE, pendEL, finit, handledErrs, loopErrs] using h.symm, pendE_len _⟩

/-- `schedule_consulted_after_each_fine`: in every execution `UntilNext` is called once at the
start and exactly once after each completed scheduled refresh (`pendU = 1` while that call is
due), and the durations handed to `clock.After` are, call by call, the schedule's answers (the
last answer may not have been handed over yet). -/
theorem schedule_consulted_after_each_fine (ros : Bool) (acts : List Act) :
    (ftrace ros finit acts).countP isUntilCall + pendU (frun ros finit acts) =
      1 + (ftrace ros finit acts).countP isLoopRefreshRet ∧
    afterVals (ftrace ros finit acts) ++ pendD (frun ros finit acts) = untilVals (ftrace ros finit acts) := by
  have h1 := run_balance ros isUntilCall isLoopRefreshRet pendU (fun _ => True) (fun _ _ _ => trivial)
    (fun s a _ => pendU_step ros s a) acts finit trivial
  have h2 := run_balance_list ros afterValOf untilValOf pendD (pendD_step ros) acts finit
  refine ⟨by simp [pendU, pendUL, finit] at h1 ⊢; omega, by simpa [pendD, pendDL, finit, afterVals, untilVals] using h2.symm⟩

/-! ## The coarse system inside the fine one -/

/-- `coarse_embeds_in_fine`: for every environment, every `RefreshOnShutdown` and every coarse
history `evs` with at most one `Shutdown` call (the fine system models the first call only),
`coarseAsFineActs env ros evs` — `Start`, then for every coarse event its block of script
commands (`expandEv`: e.g. `tick ↦ tick, newL`; `refreshReturns loop e ↦ refL e, hdlL,
untL (dur k) (imm k), newL`; `shutdown ↦ shut, newF`), each followed by running both goroutines
until they are blocked or gone — is an execution of the fine system whose observable events
(`UntilNext`, `After d`, `Refresh ctx`, `Handle e`, `Shutdown returns e`) are exactly, in order,
the outputs of the coarse run.  Hence every theorem of `Theorems/C18.lean` about `run` speaks
about these fine executions. -/
theorem coarse_embeds_in_fine (env : Env) (ros : Bool) (evs : List Ev) (h : evs.count .shutdown ≤ 1) :
    (ftrace ros finit (coarseAsFineActs env ros evs)).filterMap outOf = flat (run env ros evs).2 := by
  obtain ⟨hR, hout⟩ := embed_init env ros
  have hopen : (init env).1.closed = false := by
    unfold init initG
    rcases loopTop_cases env { loop := .waiting, closed := false, fin := .idle, k := 0 } with h | h | h <;> rw [h.1]
  have hrest := embed_runFrom env ros evs (init env).1 _ (inv_init env) hR (fun hc => by rw [hopen] at hc; cases hc) h
  simp only [coarseAsFineActs, coarseScript, cmdsActs_append, ← List.append_assoc]
  rw [ftrace_append, List.filterMap_append, hout, frun_append]
  rw [frun_append] at hrest
  rw [hrest]
  simp [run, runG, flat_cons, runFrom, init]

/-- the script `coarse_embeds_in_fine` builds for the non-vacuity history of `Theorems/C18.lean`
(two ticks, an error, `Shutdown` during the second refresh, a failing final refresh) -/
example :
    coarseScript { dur := fun k => 5 + k, imm := fun _ => false, pick := fun _ => false } true
      [.tick, .refreshReturns .loop 7, .tick, .shutdown, .refreshReturns .loop 0, .refreshReturns .shutdown 9] =
    [.untL 5 false, .newL, .tick, .newL, .refL 7, .hdlL, .untL 6 false, .newL, .tick, .newL, .shut, .newF,
     .refL 0, .hdlL, .untL 7 false, .newL, .refF 9] := by decide

/-! ## Non-vacuity and the scripted executor -/

/-- the hypothesis of `at_most_one_late_refresh` is satisfiable both inside the window (the
bound `1` is attained, see `late_refresh_possible`) and outside it -/
example :
    (fstep false (frun false finit [.loop false, .untilRet 1, .loop false, .tick, .loop false, .loop false, .loop false,
      .callShutdown]) .shut).2 = some .closeDone ∧
    win (frun false finit [.loop false, .untilRet 1, .loop false, .tick, .loop false, .loop false, .loop false,
      .callShutdown]) = 1 ∧
    (fstep false (frun false finit [.loop false, .untilRet 1, .loop false, .callShutdown]) .shut).2 = some .closeDone ∧
    win (frun false finit [.loop false, .untilRet 1, .loop false, .callShutdown]) = 0 := by decide

/-- the window script as the line protocol runs it (`C18.fine 0 untL1,tick,shut,newL 1`):
`Refresh` is entered in the group after the one in which `Shutdown` returned; the drain then
completes the iteration and the loop returns at the outer select -/
example :
    runScript false [.untL 1 false, .tick, .shut, .newL] =
      [[.untilCall], [.untilRet 1, .after 1 false], [.fire, .selTimer, .recheckOpen, .newCall .loop],
       [.shutCall, .closeDone, .shutRet 0], [.newRet .loop, .refreshCall .loop (.cons .start)],
       [.refreshRet .loop 0, .untilCall, .untilRet 1, .after 1 false, .selDone]] := by decide

/-- an ordinary run: two intervals, an error handled once, `Shutdown` with a failing final
refresh while the loop waits for the timer -/
example :
    runScript true [.untL 5 false, .tick, .newL, .refL 7, .hdlL, .untL 6 true, .newL, .refL 0, .untL 7 false, .shut,
      .newF, .refF 9] =
      [[.untilCall], [.untilRet 5, .after 5 false], [.fire, .selTimer, .recheckOpen, .newCall .loop],
       [.newRet .loop, .refreshCall .loop (.cons .start)], [.refreshRet .loop 7, .handleCall 7],
       [.handleRet, .untilCall], [.untilRet 6, .after 6 true, .selTimer, .recheckOpen, .newCall .loop],
       [.newRet .loop, .refreshCall .loop (.cons .start)], [.refreshRet .loop 0, .untilCall],
       [.untilRet 7, .after 7 false], [.shutCall, .closeDone, .newCall .shutdown, .selDone],
       [.newRet .shutdown, .refreshCall .shutdown (.cons .shutdown)], [.refreshRet .shutdown 9, .shutRet 9], []] := by
  decide

/-- `done` and the timer both ready at the outer select: whichever case `select` picks, no
refresh starts -/
example :
    ftrace false finit [.loop false, .untilRet 1, .callShutdown, .shut, .shut, .loop true, .loop true, .loop false] =
      [.untilCall, .untilRet 1, .shutCall, .closeDone, .shutRet 0, .after 1 true, .selTimer, .recheckClosed] ∧
    ftrace false finit [.loop false, .untilRet 1, .callShutdown, .shut, .shut, .loop true, .loop false] =
      [.untilCall, .untilRet 1, .shutCall, .closeDone, .shutRet 0, .after 1 true, .selDone] := by decide

end GolibsVerif.C18
