/-
C04 — `decode_encode` without an `idna.ToASCII` hypothesis: the parameter `toASCII` of the
model of `IPFromReversedAddr` is instantiated with the model `Idna.toASCII enc dec` of
`golang.org/x/net/idna.ToASCII` (`Go/Idna.lean`, tied to the real function by the op
`std.idna`), whose contract IDNA-1 is the theorem `Idna.idna1_model`.  What stays a parameter
is only the pair of punycode functions `enc` / `dec`, about which nothing is assumed (on the
names concerned they are never called).
-/
import GolibsVerif.Theorems.C04
import GolibsVerif.Theorems.Idna

namespace GolibsVerif.C04
open GolibsVerif.Netutil GolibsVerif.Str GolibsVerif.Netip GolibsVerif.Gen.Consts GolibsVerif

/-- The model of `idna.ToASCII` satisfies IDNA-1 in the form `decode_encode` assumes it. -/
theorem idna1_holds (enc dec : Bytes → Option Bytes) :
    ∀ s, (∀ b ∈ s, b < 128) → NoXnLabel s → Idna.toASCII enc dec s = some s :=
  fun s h1 h2 => Idna.idna1_model enc dec s h1 h2

/-- `decode_encode` for the modelled `idna.ToASCII`, with no remaining idna hypothesis: every
ASCII case variant `v` of the canonical PTR name of a well-formed address `a` (IPv4, or
zone-less IPv6 that is not IPv4-mapped), with or without one trailing dot, decodes to `a` —
whatever the punycode functions do. -/
theorem decode_encode_idna (enc dec : Bytes → Option Bytes)
    (a : Addr) (hwf : WF a) (hm : ∀ b z, a = .v6 b z → z = [] ∧ ¬ is4in6 b)
    (v : Bytes) (hv : asciiLower v = canonPTR a) (dot : Bytes) (hd : dot = [] ∨ dot = [46]) :
    ipFromReversedAddr (Idna.toASCII enc dec) (v ++ dot) = .ok (.ok a) :=
  decode_encode (Idna.toASCII enc dec) (idna1_holds enc dec) a hwf hm v hv dot hd

/-- instance: a mixed-case name with a trailing dot, through the modelled `idna.ToASCII` with
punycode functions that fail on everything -/
example : ipFromReversedAddr (Idna.toASCII (fun _ => none) (fun _ => none))
    (ascii "4.3.2.1.In-Addr.ARPA.") = .ok (.ok (.v4 [1, 2, 3, 4])) :=
  decode_encode_idna _ _ (.v4 [1, 2, 3, 4]) ⟨rfl, by decide⟩
    (fun _ _ he => by cases he) (ascii "4.3.2.1.In-Addr.ARPA")
    (by simp [canonPTR, ptr4, joinDot, dec, lblInAddr, lblArpa]; decide) [46] (Or.inr rfl)

end GolibsVerif.C04
