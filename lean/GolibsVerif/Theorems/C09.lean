/-
C09 — property theorems for the cache (`Model/C09.lean`, reference in `Spec/C09.lean`).

Reading guide.  A *history* is `Trace c St.init log s`: any chronological sequence of
critical sections of the cache starting from the empty cache, `log` listing each event
with the state right after it.  Pending `Set` calls appear only through the guards of
their sections, so a history is ANY interleaving of `Set` frames with other calls — in
particular every call made from inside an `OnDelete` callback, to any nesting depth.
`c` ranges over every normalised configuration (the trace theorems do not even need it
to be normalised); `no_panic` / `run_is_history` show that the nested interpreter
`runScript` — every configuration `New` accepts, every script of calls, every behaviour of
the callback given as "the i-th `OnDelete` of this `Set` performs these calls" — returns
and is such a history.  Only property theorems and non-vacuity examples live here.
-/
import GolibsVerif.Lemmas.C09

namespace GolibsVerif.C09

/-! ### The invariant, for every configuration and every history -/

theorem inv_init (c : Conf) : Inv c St.init := Inv.init c

theorem inv_step {c : Conf} {s s' : St} {ev : Ev} (h : Inv c s) (hs : CStep c s ev s') :
    Inv c s' := (step_ok hs h (Agree.self s)).1

/-- Keys unique, `size = Σ(|k|+|v|)`, `size ≤ MaxSize`, `count ≤ MaxCount` (and the usage
list holds exactly the map's items, all linked iff LRU is on) in the final state and in the
state after every single critical section of every history. -/
theorem inv_reachable {c : Conf} {log : List Rec} {s : St} (ht : Trace c St.init log s) :
    Inv c s ∧ ∀ r ∈ log, Inv c r.after := by
  obtain ⟨h, _, hall⟩ := trace_ok ht (Inv.init c) Agree.init
  exact ⟨h, hall⟩

/-- The cache state is a function of the events: it equals the reference "map + recency
list" run over them.  Since the reference drops an entry only on `evict`, `del`, `clear`
and on the `commit` of the same key, entries disappear in no other way. -/
theorem refines_reference {c : Conf} {log : List Rec} {s : St} (ht : Trace c St.init log s) :
    pairs s.lru = (absOf c.lru (evsOf log)).live ∧
    s.hit = hitsSinceClear (evsOf log) ∧ s.miss = missesSinceClear (evsOf log) := by
  obtain ⟨_, ha⟩ := trace_from_init ht
  obtain ⟨hh, hm⟩ := hit_absOf c.lru (evsOf log)
  exact ⟨ha.live, ha.hit.trans hh, ha.miss.trans hm⟩

/-- What any `Stats()` call observes, wherever it happens in a history (also inside a
callback, between two iterations of somebody's eviction loop): `Count` is the number of
live entries and at most `MaxCount`; `Size` is the summed key+value lengths of the live
entries and at most `MaxSize`. -/
theorem stats_bounded {c : Conf} {pre post : List Rec} {st : Stats} {s1 s : St}
    (ht : Trace c St.init (pre ++ ⟨.stats st, s1⟩ :: post) s) :
    st.count = (absOf c.lru (evsOf pre)).live.length ∧ st.count ≤ c.maxCount ∧
    st.size = aSize (absOf c.lru (evsOf pre)).live ∧ st.size ≤ c.maxSize := by
  obtain ⟨s0, hpre, hstep, _⟩ := trace_split ht
  obtain ⟨h0, ha0⟩ := trace_from_init hpre
  cases hstep
  rw [← ha0.live, aSize_pairs]
  exact ⟨by simp [stats, pairs], h0.count_le, h0.size_eq, h0.size_le⟩

/-! ### Observations -/

/-- `Get` returns the value of the latest surviving `Set` of that key, or nil. -/
theorem get_latest {c : Conf} {pre post : List Rec} {k : Bytes} {r : Option Bytes} {s1 s : St}
    (ht : Trace c St.init (pre ++ ⟨.get k r, s1⟩ :: post) s) :
    r = lastSurviving (evsOf pre) k := by
  obtain ⟨s0, hpre, hstep, _⟩ := trace_split ht
  obtain ⟨h0, ha0⟩ := trace_from_init hpre
  cases hstep with
  | get _ _ _ hg => rw [(get_agree h0 ha0 hg).2, aLookup_absOf]

/-- `Set` that stores reports whether it replaced a live entry; a refused `Set` (the other
way `Set` returns) reports false by construction of the interpreter (`runOp`). -/
theorem set_reports_replace {c : Conf} {pre post : List Rec} {k v : Bytes} {rep : Bool} {s1 s : St}
    (ht : Trace c St.init (pre ++ ⟨.commit k v rep, s1⟩ :: post) s) :
    rep = (lastSurviving (evsOf pre) k).isSome := by
  obtain ⟨s0, hpre, hstep, _⟩ := trace_split ht
  obtain ⟨h0, ha0⟩ := trace_from_init hpre
  cases hstep with
  | commit _ _ _ _ _ _ hc => rw [(setCommit_agree h0 ha0 hc).2, aLookup_absOf]

/-- An eviction happens only with LRU enabled, only when some pending `Set` of a legal
element size needs room, and removes the least recently used live entry with exactly its
current value: it is the head of the reference recency list, and its last-use stamp (the
position in the history of the latest storing `Set` or hitting `Get` of that key) is minimal
among all live entries. -/
theorem evict_is_lru {c : Conf} {pre post : List Rec} {k v : Bytes} {s1 s : St}
    (ht : Trace c St.init (pre ++ ⟨.evict k v, s1⟩ :: post) s) :
    c.lru = true ∧ (absOf c.lru (evsOf pre)).live.head? = some (k, v) ∧
    (∀ p ∈ (absOf c.lru (evsOf pre)).live,
      lastUse c.lru (evsOf pre) k ≤ lastUse c.lru (evsOf pre) p.1) ∧
    ∃ add, add ≤ c.maxElem ∧
      (aSize (absOf c.lru (evsOf pre)).live + add > c.maxSize ∨
       (absOf c.lru (evsOf pre)).live.length = c.maxCount) := by
  obtain ⟨s0, hpre, hstep, _⟩ := trace_split ht
  obtain ⟨h0, ha0⟩ := trace_from_init hpre
  generalize hev : Ev.evict k v = ev at hstep
  cases hstep with
  | evict _ add e hl hadd hf he =>
    injection hev with hk hv
    subst hk; subst hv
    obtain ⟨hlru, _⟩ := evictOne_ok he
    have hhead : (absOf c.lru (evsOf pre)).live.head? = some (e.key, e.val) := by
      rw [← ha0.live, hlru]; simp [pairs]
    refine ⟨hl, hhead, head_min_stamp _ _ _ _ hhead, add, hadd, ?_⟩
    rw [← ha0.live, aSize_pairs, ← h0.size_eq]
    simpa [full, pairs] using hf
  | _ => cases hev

/-- Without LRU nothing is ever evicted and `OnDelete` is never called … -/
theorem nolru_never_evicts {c : Conf} (hl : c.lru = false) {log : List Rec} {s0 s : St}
    (ht : Trace c s0 log s) : ∀ r ∈ log, ∀ k v, r.ev ≠ .evict k v := by
  induction ht with
  | nil => simp
  | cons hstep _ ih =>
    intro r hr k v
    rcases List.mem_cons.1 hr with rfl | hr
    · cases hstep <;> simp_all
    · exact ih r hr k v

/-- … and a `Set` that does not fit (too large an element, or `size + |k| + |v| > MaxSize`,
or `count = MaxCount`) is refused: it returns false and changes nothing. -/
theorem nolru_refuse_noop {c : Conf} (hl : c.lru = false) (s : St) (k v : Bytes)
    (cbs : List (List Op))
    (hfull : k.length + v.length > c.maxElem ∨ full c s (k.length + v.length) = true) :
    runOp c (.set k v cbs) s = .ok (s, [⟨.refused k v, s⟩]) := by
  have : setCheck c s k v ≠ .proceed := by
    intro hp
    obtain ⟨h1, h2⟩ := setCheck_proceed hp
    rcases hfull with h | h
    · omega
    · simp [hl, h] at h2
  unfold runOp
  cases hc : setCheck c s k v <;> simp_all

/-- With or without LRU, a `Set` whose element is larger than `MaxElementSize` (after
normalisation: at most `MaxSize`) is refused the same way. -/
theorem too_large_refuse_noop (c : Conf) (s : St) (k v : Bytes) (cbs : List (List Op))
    (h : k.length + v.length > c.maxElem) :
    runOp c (.set k v cbs) s = .ok (s, [⟨.refused k v, s⟩]) := by
  have : setCheck c s k v = .tooLarge := by simp [setCheck, h]
  simp [runOp, this]

/-- `Hit` / `Miss` as seen by any `Stats()` call count exactly the `Get`s that returned a
value / nil since the last `Clear` (`Clear` resets the statistics).  The Go counters are
`int32`; the model counts in `Nat` (assumption: fewer than 2^31 `Get`s between `Clear`s). -/
theorem hit_miss_exact {c : Conf} {pre post : List Rec} {st : Stats} {s1 s : St}
    (ht : Trace c St.init (pre ++ ⟨.stats st, s1⟩ :: post) s) :
    st.hit = hitsSinceClear (evsOf pre) ∧ st.miss = missesSinceClear (evsOf pre) := by
  obtain ⟨s0, hpre, hstep, _⟩ := trace_split ht
  obtain ⟨hl, hh, hm⟩ := refines_reference hpre
  cases hstep
  exact ⟨hh, hm⟩

/-! ### No panic -/

/-- Every critical section is total from every state satisfying the invariant: the
eviction loop never reaches the list sentinel (normalised configuration, legal element
size) and no `listUnlink` touches an item that is not linked. -/
theorem sections_total {c : Conf} (ok : ConfOk c) {s : St} (h : Inv c s) (k v : Bytes) :
    (∀ add, c.lru = true → add ≤ c.maxElem → full c s add = true →
      ∃ s' e, evictOne s = .ok (s', e)) ∧
    (∃ s' r, setCommit c s k v = .ok (s', r)) ∧
    (∃ s' r, get c s k = .ok (s', r)) ∧
    (∃ s', del c s k = .ok s') := by
  refine ⟨?_, ⟨_, _, setCommit_char h k v⟩, ?_, ⟨_, del_char h k⟩⟩
  · intro add hl hadd hf
    obtain ⟨s1, e, he, _⟩ := evictStep ok hadd h hl hf
    exact ⟨s1, e, he⟩
  · obtain ⟨⟨s', r⟩, hg⟩ : ∃ res, get c s k = .ok res := ⟨_, get_char h k⟩
    exact ⟨s', r, hg⟩

/-- Every script — any calls, any callback behaviour, re-entrant to any depth — against a
cache made by `New(conf)` for any `conf` runs to completion without a (modelled) panic, and
what it does is a history, so all the theorems above speak about it. -/
theorem run_is_history (r : RawConf) (ops : List Op) :
    ∃ s log, runScript r ops = .ok (s, log) ∧ Trace (newConf r) St.init log s := by
  obtain ⟨s, log, hr, ht, _⟩ := (run_ok (newConf r) (newConf_ok r)).2.2 ops St.init (Inv.init _)
  exact ⟨s, log, hr, ht⟩

theorem no_panic (r : RawConf) (ops : List Op) : ∀ p, runScript r ops ≠ .error p := by
  obtain ⟨s, log, hr, _⟩ := run_is_history r ops
  intro p hp
  rw [hr] at hp
  cases hp

/-- The same from any reachable state and for a single call (this is the form C10 uses: a
call started in any state some other goroutine left behind). -/
theorem no_panic_from {c : Conf} (ok : ConfOk c) {s : St} (h : Inv c s) (op : Op) :
    ∃ s' log, runOp c op s = .ok (s', log) ∧ Trace c s log s' := by
  obtain ⟨s', log, hr, ht, _⟩ := (run_ok c ok).1 op s h
  exact ⟨s', log, hr, ht⟩

/-- `OnDelete` is called exactly once per evicted entry, immediately after the eviction
(before any other cache event), with that entry's key and value, and never otherwise. -/
theorem onDelete_once (r : RawConf) (ops : List Op) {s : St} {log : List Rec}
    (hr : runScript r ops = .ok (s, log)) : cbOK r.hasCb (evsOf log) = true := by
  obtain ⟨s', log', hr', _, hcb⟩ := (run_ok (newConf r) (newConf_ok r)).2.2 ops St.init (Inv.init _)
  unfold runScript at hr
  rw [hr'] at hr
  cases hr
  exact hcb

/-! ### The property read off a script, in one statement -/

/-- For every configuration and every script: it returns, and in its log every `Stats`,
`Get`, storing `Set` and eviction is as the property demands. -/
theorem script_correct (r : RawConf) (ops : List Op) :
    ∃ s log, runScript r ops = .ok (s, log) ∧
      (∀ rec ∈ log, rec.after.lru.length ≤ (newConf r).maxCount ∧
        rec.after.size = sumSz rec.after.lru ∧ rec.after.size ≤ (newConf r).maxSize) ∧
      (∀ pre post k v s1, log = pre ++ ⟨.get k v, s1⟩ :: post → v = lastSurviving (evsOf pre) k) ∧
      (∀ pre post k v rep s1, log = pre ++ ⟨.commit k v rep, s1⟩ :: post →
        rep = (lastSurviving (evsOf pre) k).isSome) ∧
      (∀ pre post k v s1, log = pre ++ ⟨.evict k v, s1⟩ :: post →
        (absOf r.lru (evsOf pre)).live.head? = some (k, v)) ∧
      cbOK r.hasCb (evsOf log) = true := by
  obtain ⟨s, log, hr, ht⟩ := run_is_history r ops
  refine ⟨s, log, hr, ?_, ?_, ?_, ?_, onDelete_once r ops hr⟩
  · intro rec hrec
    have := (inv_reachable ht).2 rec hrec
    exact ⟨this.count_le, this.size_eq, this.size_le⟩
  · intro pre post k v s1 hlog; subst hlog; exact get_latest ht
  · intro pre post k v rep s1 hlog; subst hlog; exact set_reports_replace ht
  · intro pre post k v s1 hlog; subst hlog; exact (evict_is_lru ht).2.1

/-! ### Non-vacuity and the pre-fix code -/

/-- MaxSize 4, MaxCount 2, LRU, callback: the third `Set` evicts `01`; its callback reads `02`
and stores `09`, which fills the cache again, so the outer `Set` evicts once more — now `02`,
the least recently used entry in spite of the read, because `09` was stored after it. -/
example :
    (runScript { maxSize := 4, maxElem := 0, maxCount := 2, lru := true, hasCb := true }
      [.set [1] [2] [], .set [2] [2] [], .set [3] [3] [[.get [2], .set [9] [9] []]], .get [1],
       .stats]).toOption.map (fun p => evsOf p.2) =
    some [.commit [1] [2] false, .commit [2] [2] false,
          .evict [1] [2], .onDelete [1] [2], .get [2] (some [2]), .commit [9] [9] false,
          .evict [2] [2], .onDelete [2] [2], .commit [3] [3] false, .get [1] none,
          .stats { count := 2, size := 4, hit := 1, miss := 1 }] := by decide

/-- replacement is reported, without LRU too (the repaired code) -/
example :
    (runScript { maxSize := 0, maxElem := 0, maxCount := 0, lru := false, hasCb := false }
      [.set [1] [2] [], .set [1] [3] [], .del [1], .get [1]]).toOption.map (fun p => evsOf p.2) =
    some [.commit [1] [2] false, .commit [1] [3] true, .del [1], .get [1] none] := by decide

/-- Defect 7 of DESIGN.md §9: the code as it stood (`listUnlink` not guarded by `EnableLRU`)
panics on the second `Set` of a key and on `Del` of a present key when LRU is off. -/
example :
    let c := newConf { maxSize := 0, maxElem := 0, maxCount := 0, lru := false, hasCb := false }
    let s : St := { lru := [⟨[1], [2], false⟩], size := 2, hit := 0, miss := 0 }
    (setCommitWith false c s [1] [3]).toOption = none ∧ (delWith false c s [1]).toOption = none ∧
    (setCommitWith true c s [1] [3]).toOption.isSome ∧ (delWith true c s [1]).toOption.isSome := by
  decide

end GolibsVerif.C09
