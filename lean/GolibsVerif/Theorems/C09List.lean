/-
C09 — the intrusive usage list at pointer level refines the list of `Model/C09.lean`.

`Model/C09.lean` represents `cache.usage` (`/repo/cache/list.go`: a sentinel `listItem`, one
`listItem` embedded in every `item` as `item.used`, `structPtr` to get from the field back to
the item) as a Lean `List Entry`, oldest first.  `Model/C09List.lean` is the code as written:
a heap of `{next, prev : Option Ptr}` objects, the six functions of `list.go` as heap
transformers in `GoM` that fail with `nilDeref` exactly where Go dereferences nil, and
`structPtr` as wrapping `uintptr` subtraction.  The theorems below say that the heap
*represents* (`Repr`, `Spec/C09List.lean`) the list the model keeps, for every sequence of
list instructions the cache executes — so the abstraction "usage list = Lean list" is a
proved refinement, and the nil dereference of defect 7 is a theorem about the pointer code.

Reading guide.
  `Repr h s l`     from the sentinel `s`, `next` visits exactly `l` in order and comes back to
                   `s`; `prev` is the inverse; `s :: l` has no repetition
  `LOp`            the list instructions of `data.go`: `alloc x` (`it := item{}`), `append x`
                   (`listAppend(&it.used, listLast(&c.usage))`), `unlink x`, `moveBack x` (`Get`),
                   `popFront` (eviction), `clear` (`listInit`)
  `absStep`        their meaning on a Lean list (`++ [x]`, `erase x`, `erase x ++ [x]`, `tail`, `[]`)
  `Legal`          the side condition under which the cache executes each of them

Only property theorems and non-vacuity examples live here; proofs are in `Lemmas/C09List.lean`
and `Lemmas/C09ListTie.lean`.
-/
import GolibsVerif.Lemmas.C09List
import GolibsVerif.Lemmas.C09ListTie
import GolibsVerif.Theorems.C09

namespace GolibsVerif.C09
open LL

/-! ### The six functions against the representation invariant -/

/-- `listInit(&c.usage)` (in `newCache` and `Clear`) on a live sentinel never fails and leaves
a heap representing the empty list; no other object is written.  Whatever the old list was,
its nodes are simply abandoned (they keep pointing at each other and at the sentinel, the
sentinel no longer points at them). -/
theorem listInit_repr {h : Heap} {s : Ptr} (hs : h.live s) :
    ∃ h', listInit (some s) h = .ok h' ∧ LL.Repr h' s [] ∧ ∀ a, a ≠ s → h' a = h a := by
  obtain ⟨h', e, r, f, _⟩ := listInit_repr' hs
  exact ⟨h', e, r, f⟩

/-- `newCache`: a fresh `cache` object whose `usage` field is then initialised. -/
theorem newList_repr (s : Ptr) : ∃ h, newList s = .ok h ∧ LL.Repr h s [] := by
  obtain ⟨h, e, r⟩ := newList_sim s
  exact ⟨h, e, r.repr⟩

/-- `listAppend(&it.used, listLast(&c.usage))` for an existing node `x` that is not in the
structure — fresh from `it := item{}` (both fields nil) or unlinked earlier (both fields
dangling): it succeeds, and the heap represents `l ++ [x]`.  Only `x`, the sentinel and the
old last node are written; no object appears or disappears. -/
theorem append_last_repr {h : Heap} {s x : Ptr} {l : List Ptr} (hr : LL.Repr h s l)
    (hx : x ∉ s :: l) (lx : h.live x) :
    ∃ last h', listLast (some s) h = .ok last ∧ listAppend (some x) last h = .ok h' ∧
      LL.Repr h' s (l ++ [x]) ∧ (∀ a, h'.live a ↔ h.live a) ∧ (∀ a, a ∉ x :: s :: l → h' a = h a) := by
  obtain ⟨h', e, r, lv, f⟩ := append_last_repr' hr hx lx
  refine ⟨(s :: l).getLast?, h', last_repr' hr, ?_, r, lv, f⟩
  simpa [pushBack, last_repr' hr, bind, Except.bind] using e

/-- `listUnlink(x)` for a node of the list: it succeeds, and the heap represents
`l.erase x`.  Faithfully to the Go code, `x.next` / `x.prev` are NOT reset: `x` keeps
pointing into the structure (`h' x = h x`), while nothing in the structure points to `x`
any more (`Repr.closed`).  Only nodes of `s :: l` are written. -/
theorem unlink_repr {h : Heap} {s x : Ptr} {l : List Ptr} (hr : LL.Repr h s l) (hx : x ∈ l) :
    ∃ h', listUnlink (some x) h = .ok h' ∧ LL.Repr h' s (l.erase x) ∧ h' x = h x ∧
      (∀ a, h'.live a ↔ h.live a) ∧ (∀ a, a ∉ s :: l → h' a = h a) := by
  obtain ⟨h', e, r, lv, d, f⟩ := unlink_repr' hr hx
  exact ⟨h', e, r, d, lv, f⟩

/-- `listFirst(&c.usage)` is the head of the list — and the SENTINEL ITSELF when the list is
empty.  `listLast` symmetrically. -/
theorem first_repr {h : Heap} {s : Ptr} {l : List Ptr} (hr : LL.Repr h s l) :
    listFirst (some s) h = .ok (some (l.head?.getD s)) ∧
    listLast (some s) h = .ok (some (l.getLast?.getD s)) := by
  refine ⟨?_, ?_⟩
  · rw [first_repr' hr]; cases l <;> simp
  · rw [last_repr' hr]
    cases l with
    | nil => simp
    | cons x xs => simp [List.getLast?_cons]

/-- The eviction loop body at pointer level, on a non-empty list: `first` is the head node
— a node of the list, NOT the sentinel, so `structPtr(first, Offsetof(item.used))` is the
address of the item that embeds it — and after `listUnlink(first)` the heap represents the
tail. -/
theorem popFront_repr {h : Heap} {s x : Ptr} {l : List Ptr} (hr : LL.Repr h s (x :: l)) :
    ∃ h', popFront s h = .ok (some x, h') ∧ LL.Repr h' s l ∧ x ≠ s := by
  obtain ⟨h', e, r, _⟩ := popFront_repr' hr
  exact ⟨h', e, r, fun e => hr.s_notin (by simp [e])⟩

/-- The case the eviction loop must never reach: on the empty list the list functions do
not fail — `listFirst` hands back the sentinel, `listUnlink(sentinel)` is a no-op — and
`structPtr` then turns `&c.usage` into an address 40 bytes before the `cache` object
(`itemOf_sentinel_outside`).  `Model/C09.lean` records this as the explicit panic
"list sentinel treated as an item" of `evictOne`. -/
theorem popFront_empty_returns_sentinel {h : Heap} {s : Ptr} (hr : LL.Repr h s []) :
    ∃ h', popFront s h = .ok (some s, h') ∧ LL.Repr h' s [] := popFront_empty hr

/-- … and it is never reached: in every state of the cache model satisfying the invariant,
whenever the loop condition `full` holds for a legal element size (normalised
configuration), the model's list is non-empty (`evict_nonempty`, the lemma behind
`sections_total`); so for any heap representing a list of that length, `listFirst` returns
a genuine item node and the pointer-level loop body succeeds. -/
theorem evict_first_is_item {c : Conf} (ok : ConfOk c) {st : St} (hinv : Inv c st) {add : Nat}
    (hadd : add ≤ c.maxElem) (hf : full c st add = true)
    {h : Heap} {s : Ptr} {l : List Ptr} (hr : LL.Repr h s l) (hlen : l.length = st.lru.length) :
    ∃ x h', popFront s h = .ok (some x, h') ∧ l.head? = some x ∧ x ≠ s ∧ LL.Repr h' s l.tail := by
  have hne := evict_nonempty ok hinv hadd hf
  cases l with
  | nil => exact absurd (List.length_eq_zero_iff.1 hlen.symm) hne
  | cons x xs =>
    obtain ⟨h', e, r, hx⟩ := popFront_repr hr
    exact ⟨x, h', e, rfl, hx, r⟩

/-- **Defect 7 at pointer level.**  `listUnlink` on a node that was never linked — both
fields still nil, as `it := item{}` leaves them when `EnableLRU` is false — is a nil
dereference: `listLink2(nil, nil)` panics on `l.next = r`.  (This is `unlink e` with
`e.linked = false` in `Model/C09.lean`; the pre-fix `Set`/`Del` reached it without LRU.) -/
theorem unlink_unlinked_fails {h : Heap} {x : Ptr} (hx : h x = some Node.zero) :
    listUnlink (some x) h = .error .nilDeref := listUnlink_zero hx

/-- More generally `listUnlink` panics iff it follows a nil pointer: when the node's `prev`
is nil, or its `prev` is a live node and its `next` is nil. -/
theorem unlink_nil_field_fails {h : Heap} {x : Ptr} {n : Node} (hx : h x = some n) :
    (n.prev = none → listUnlink (some x) h = .error .nilDeref) ∧
    (∀ p, n.prev = some p → h.live p → n.next = none → listUnlink (some x) h = .error .nilDeref) := by
  refine ⟨fun hp => ?_, fun p hp lp hn => ?_⟩
  · simp [listUnlink, deref, hx, bind, Except.bind, listLink2, storeNext, hp]
  · obtain ⟨m, hm⟩ := Heap.live_iff.1 lp
    simp [listUnlink, deref, hx, bind, Except.bind, listLink2, storeNext, storePrev, hp, hn, hm,
      pure, Except.pure]

/-! ### Consequences of the invariant: memory safety of the structure -/

/-- Every pointer stored in the structure is non-nil and points to a node of the structure
(hence to a live object): the list functions, which only follow `next`/`prev` of nodes of
`s :: l` and of the node they are given, never dereference nil or a dropped item.  In
particular nothing reachable from the sentinel points to an unlinked node, so the garbage
collector may reclaim (and `alloc` may re-use) it. -/
theorem repr_closed {h : Heap} {s : Ptr} {l : List Ptr} (hr : LL.Repr h s l) {a : Ptr}
    (ha : a ∈ s :: l) : ∃ n p, h a = some ⟨some n, some p⟩ ∧ n ∈ s :: l ∧ p ∈ s :: l :=
  hr.closed ha

/-- The heap determines the list it represents, and the two traversals read it off: what
`VerifSnapshot` (the hook of the differential tie) does — follow `next` from
`listFirst(&c.usage)` until the sentinel — yields exactly `l`; following `prev` yields
`l.reverse`. -/
theorem repr_unique_walk {h : Heap} {s : Ptr} {l : List Ptr} (hr : LL.Repr h s l) :
    (∀ l', LL.Repr h s l' → l' = l) ∧
    (∀ fuel, l.length < fuel →
      walkNext h s fuel (h.nx s) = (l, .sentinel) ∧
      walkPrev h s fuel (h.pv s) = (l.reverse, .sentinel)) :=
  ⟨fun _ hr' => hr'.unique hr, fun _ hf => hr.walk hf⟩

/-- Only the objects at `s :: l` matter: allocating, re-using or scribbling over any other
`listItem` (an item not in the list) keeps the representation. -/
theorem repr_frame {h h' : Heap} {s : Ptr} {l : List Ptr} (hr : LL.Repr h s l)
    (hf : ∀ a ∈ s :: l, h' a = h a) : LL.Repr h' s l := hr.frame hf

/-! ### `structPtr` -/

/-- `structPtr(&it.used, Offsetof(item{}.used)) = &it`, `&(structPtr(p, off)).used = p`, and
`itemOf` is injective: "the item of a node" is well defined, different nodes belong to
different items. -/
theorem structPtr_bijection :
    (∀ it, it + usedOff < addrMod → itemOf (usedOf it) = it) ∧
    (∀ p, usedOff ≤ p → p < addrMod → usedOf (itemOf p) = p) ∧
    (∀ p q, p < addrMod → q < addrMod → itemOf p = itemOf q → p = q) :=
  ⟨fun _ h => itemOf_usedOf h, fun _ h1 h2 => fieldPtr_structPtr h1 h2,
   fun _ _ hp hq h => itemOf_inj hp hq h⟩

/-- Applied to the sentinel `&c.usage` of a `cache` object at address `c`, `structPtr`
yields `c - 40`: an address before (outside) the object. -/
theorem itemOf_sentinel_outside {c : Ptr} (h1 : 40 ≤ c) (h2 : c + usageOff < addrMod) :
    itemOf (fieldPtr c usageOff) + 40 = c := itemOf_sentinel h1 h2

/-! ### Simulation: every run of list instructions of the cache -/

/-- **The list refinement.**  Start from `newCache` (`listInit` on the fresh sentinel) and
run any sequence of list instructions, each under the side condition under which `data.go`
executes it (`Legal`, see `list_ops_of_cstep` for where each comes from).  Then the
pointer-level execution never fails — no nil dereference, no pointer to a non-object — and
the final heap represents exactly the Lean list obtained by running the same instructions
on a `List` (`++ [x]`, `erase`, `tail`, `[]`). -/
theorem list_simulation (s : Ptr) (ops : List LOp) (hl : LegalRun s ops LAbs.init) :
    ∃ h0 h, newList s = .ok h0 ∧ execOps s ops h0 = .ok h ∧
      LL.Repr h s (absRun ops LAbs.init).list := by
  obtain ⟨h0, e0, s0⟩ := newList_sim s
  obtain ⟨h, e, s1⟩ := sim_run ops s0 hl
  exact ⟨h0, h, e0, e, s1.repr⟩

/-- The same from any heap that represents some list (the inductive step made explicit:
one instruction keeps the simulation relation). -/
theorem list_simulation_step {h : Heap} {s : Ptr} {a : LAbs} (hs : Sim h s a) (op : LOp)
    (hl : Legal s op a) : ∃ h', execOp s op h = .ok h' ∧ Sim h' s (LL.absStep op a) :=
  sim_step hs op hl

theorem list_simulation_from {h : Heap} {s : Ptr} {a : LAbs} (hs : Sim h s a) (ops : List LOp)
    (hl : LegalRun s ops a) : ∃ h', execOps s ops h = .ok h' ∧ Sim h' s (absRun ops a) :=
  sim_run ops hs hl

/-! ### The tie to `Model/C09.lean`: where the side conditions come from

`Ann` pairs every entry of the model's `St.lru` with the address of the `used` field of the
Go `item` holding it; `opsOf z x ev` is the list code `data.go` runs in the critical section
with event `ev` (`Spec/C09List.lean`), `annNext` the annotated list after it.

Side conditions and their origin in `Model/C09.lean` (all under `Inv c st`, `c.lru = true`):
  `alloc x`, `x ∉ s :: l`       `Set`'s `it := item{}`; `e` of `setCommitWith` is a new entry — the
                                Go allocator returns an address that is not reachable
  `append x`, `x` unlinked      `setCommitWith`: `linked := c.lru` for the NEW entry only, and the
                                append precedes the lookup of the old one; `get`: right after
                                `unlink e` of the same entry
  `unlink o`, `o ∈ l`           `setCommitWith`/`delWith`/`get`: `unlink old` runs only for
                                `lookup s.lru k = some old`, i.e. an entry of `s.lru`, and
                                `Inv.linked` says every entry of `s.lru` is linked (that `unlink`
                                is total is `old.linked = true`); `Inv.nodup` (keys unique) makes
                                "the entry with key k" one node
  `popFront`, `l ≠ []`          `evictOne` runs under `full`, and then `s.lru ≠ []`
                                (`evict_nonempty`, normalised configuration)
  `clear`                       `clear`, `St.init`
With `c.lru = false` no list instruction other than `listInit` is ever executed
(`EnableLRU` guards; the eviction loop is not entered, `nolru_never_evicts`), every entry has
`linked = false` and the heap represents `[]` throughout (`listed_entries`). -/

/-- **One critical section of the model = legal list instructions with the model's effect.**
From a model state with the invariant, LRU on, its list annotated by distinct node addresses
and a fresh address `x` for the item a `Set` creates: the section's list instructions satisfy
their side conditions, and the abstract list machine yields the annotation of the model's
next list. -/
theorem list_ops_of_cstep {c : Conf} (hl : c.lru = true) {st st' : St} {ev : Ev} (hinv : Inv c st)
    (hstep : CStep c st ev st') {s x : Ptr} {z : Ann} (objs : List Ptr)
    (hz : z.map Prod.fst = st.lru) (hnd : (s :: z.map Prod.snd).Nodup)
    (hx : x ∉ s :: z.map Prod.snd) :
    (annNext z x ev).map Prod.fst = st'.lru ∧
    LegalRun s (opsOf z x ev) ⟨z.map Prod.snd, objs⟩ ∧
    (absRun (opsOf z x ev) ⟨z.map Prod.snd, objs⟩).list = (annNext z x ev).map Prod.snd :=
  ann_step hl hinv hstep objs hz hnd hx

/-- … hence at pointer level: if the heap represents the model's list before the section,
the section's list code runs without failing and the heap represents the model's list after
it. -/
theorem cstep_list_refines {c : Conf} (hl : c.lru = true) {st st' : St} {ev : Ev} (hinv : Inv c st)
    (hstep : CStep c st ev st') {s x : Ptr} {z : Ann} {objs : List Ptr} {h : Heap}
    (hz : z.map Prod.fst = st.lru) (hs : Sim h s ⟨z.map Prod.snd, objs⟩)
    (hx : x ∉ s :: z.map Prod.snd) :
    ∃ h' objs', execOps s (opsOf z x ev) h = .ok h' ∧ (annNext z x ev).map Prod.fst = st'.lru ∧
      Sim h' s ⟨(annNext z x ev).map Prod.snd, objs'⟩ := by
  obtain ⟨h1, h2, h3⟩ := ann_step hl hinv hstep objs hz hs.repr.nodup hx
  obtain ⟨h', e1, s1⟩ := sim_run _ hs h2
  exact ⟨h', _, e1, h1, by rw [← h3]; exact s1⟩

/-- **Every history of the cache model is a pointer-level execution.**  For every history
from `New` with LRU on (any interleaving of critical sections, so any re-entrant `OnDelete`
behaviour), every sentinel address and every allocator `ν` that returns addresses not live
in the structure: the list code of all sections, run on the heap made by `newCache`, never
fails, and in the end the heap represents the model's list — there is an annotation of
`st.lru` by node addresses such that following `next` from the sentinel visits exactly these
nodes in the order of `st.lru`. -/
theorem history_list_refines {c : Conf} (hl : c.lru = true) (s : Ptr) (ν : Nat → List Ptr → Ptr)
    (hν : ∀ i l, ν i l ∉ s :: l) {log : List Rec} {st : St} (ht : Trace c St.init log st) :
    ∃ h0 h, newList s = .ok h0 ∧ execOps s (runAnn ν 0 [] log).2 h0 = .ok h ∧
      (runAnn ν 0 [] log).1.map Prod.fst = st.lru ∧
      LL.Repr h s ((runAnn ν 0 [] log).1.map Prod.snd) := by
  obtain ⟨h0, e0, s0⟩ := newList_sim s
  obtain ⟨h, _, e, hz, hs⟩ := ann_trace hl ν hν ht (Inv.init c) 0 [] [] h0 rfl s0
  exact ⟨h0, h, e0, e, hz, hs.repr⟩

/-- The same for the nested interpreter that the differential tie drives: any configuration
with `EnableLRU`, any script, any callback behaviour. -/
theorem script_list_refines (r : RawConf) (hl : r.lru = true) (ops : List Op) (s : Ptr)
    (ν : Nat → List Ptr → Ptr) (hν : ∀ i l, ν i l ∉ s :: l) :
    ∃ st log h0 h, runScript r ops = .ok (st, log) ∧ newList s = .ok h0 ∧
      execOps s (runAnn ν 0 [] log).2 h0 = .ok h ∧
      (runAnn ν 0 [] log).1.map Prod.fst = st.lru ∧
      LL.Repr h s ((runAnn ν 0 [] log).1.map Prod.snd) := by
  obtain ⟨st, log, hr, ht⟩ := run_is_history r ops
  obtain ⟨h0, h, e0, e, hz, hrep⟩ := history_list_refines (c := newConf r) hl s ν hν ht
  exact ⟨st, log, h0, h, hr, e0, e, hz, hrep⟩

/-- With `EnableLRU = false` the only list code that ever runs is `listInit` (`newCache`,
`Clear`); `Set` creates items whose `used` stays zero.  For every log of events and every
allocator the heap represents the empty list throughout — which is what the model's
`listed_entries` says about its side (no entry is `linked`). -/
theorem nolru_list_refines (s : Ptr) (ν : Nat → Ptr) (hν : ∀ i, ν i ≠ s) (log : List Rec) :
    ∃ h0 h, newList s = .ok h0 ∧ execOps s (runOff ν 0 log) h0 = .ok h ∧ LL.Repr h s [] := by
  obtain ⟨h0, e0, s0⟩ := newList_sim s
  obtain ⟨h, _, e, hs⟩ := off_run ν hν log 0 [] h0 s0
  exact ⟨h0, h, e0, e, hs.repr⟩

/-- What the existing tie observes as the usage list (`L…` of `Driver/C09.lean`: the entries
with `linked = true`) is all of `st.lru` with LRU on and nothing with LRU off. -/
theorem listed_entries {c : Conf} {st : St} (hinv : Inv c st) :
    st.lru.filter (·.linked) = if c.lru then st.lru else [] := by
  cases hl : c.lru
  · simp only [Bool.false_eq_true, if_false, List.filter_eq_nil_iff]
    intro e he; simp [hinv.linked e he, hl]
  · simp only [if_true, List.filter_eq_self]
    intro e he; simp [hinv.linked e he, hl]

/-! ### Non-vacuity -/

/-- a legal run: two `Set`s, a `Get` of the first key, one eviction -/
example : LegalRun 0 [.alloc 1, .append 1, .alloc 2, .append 2, .moveBack 1, .popFront] LAbs.init := by
  simp [LegalRun, Legal, LL.absStep, LAbs.init]

/-- … executed on pointers: sentinel at 0, the list ends up as `[1]`, read in both
directions -/
example :
    (do let h ← newList 0
        let h ← execOps 0 [.alloc 1, .append 1, .alloc 2, .append 2, .moveBack 1, .popFront] h
        pure ((walkNext h 0 8 (h.nx 0)).1, (walkPrev h 0 8 (h.pv 0)).1, h.nx 2)) =
      (.ok ([1], [1], some 1) : GoM _) := by decide

/-- Why `unlink x` needs `x ∈ l` and not merely "`x` was linked once": a second
`listUnlink` of a node whose fields dangle does not panic — it silently re-links the
neighbours it remembers; here it resurrects the dropped node 2. -/
example :
    (do let h ← newList 0
        let h ← execOps 0 [.alloc 1, .append 1, .alloc 2, .append 2, .unlink 1, .unlink 2] h
        let h' ← execOps 0 [.unlink 1] h
        pure ((walkNext h 0 8 (h.nx 0)).1, (walkNext h' 0 8 (h'.nx 0)).1)) =
      (.ok ([], [2]) : GoM _) := by decide

/-- defect 7 on pointers: `Set` without LRU creates the item but never links it; the
unguarded `listUnlink(&it2.used)` of the next `Set` of that key panics -/
example :
    (do let h ← newList 0
        execOps 0 [.alloc 1, .unlink 1] h).toOption.isNone = true ∧
    ∀ h : Heap, listUnlink (some 1) (h.alloc 1) = .error .nilDeref :=
  ⟨by decide, fun _ => unlink_unlinked_fails (by simp [Heap.alloc, Heap.set])⟩

end GolibsVerif.C09
