/-
C18 — property theorems for the service lifecycle: `SignalHandler.Handle / shutdown` and the
`RefreshWorker` loop (models in `Model/C18.lean`, observation functions and helper lemmas in
`Lemmas/C18.lean`, expected event graphs in `Model/C18Skel.lean`).
Only property theorems and non-vacuity examples live here.

Every theorem quantifies over ALL outcome vectors / signal sequences / environments (schedule
answers, immediately-ready timers, resolutions of `select`'s random choice) / event histories.
-/
import GolibsVerif.Lemmas.C18
import GolibsVerif.Model.C18Skel
import GolibsVerif.Gen.SyncSkel

set_option linter.unusedSimpArgs false

namespace GolibsVerif.C18
open GolibsVerif.Gen.Consts (ExitCodeSuccess ExitCodeFailure)

/-! ## The regenerated tie: the code still has the synchronisation structure the models were
written against

The objects compared are event graphs in normal form (`Go/Skel.lean`, `gen/syncskel.go`) of
the four ENTRY POINTS, with every function of their own package inlined: `skel_handle` covers
`Handle`, `shutdown`, `shutdownService`; `skel_start` covers `Start`, `refreshInALoop`,
`refresh`; `skel_workerShutdown` covers `Shutdown`, `refresh`; `skel_isShutdownSignal` covers
`IsShutdownSignal`, `isShutdownSignal`. -/

theorem skel_handle :
    Gen.SyncSkel.service_SignalHandler_Handle = Expected.service_SignalHandler_Handle := by decide

theorem skel_isShutdownSignal :
    Gen.SyncSkel.osutil_IsShutdownSignal = Expected.osutil_IsShutdownSignal := by decide

theorem skel_start :
    Gen.SyncSkel.service_RefreshWorker_Start = Expected.service_RefreshWorker_Start := by decide

theorem skel_workerShutdown :
    Gen.SyncSkel.service_RefreshWorker_Shutdown = Expected.service_RefreshWorker_Shutdown := by decide

/-- the two exit codes the status aggregation distinguishes are different (regenerated) -/
theorem exit_codes_distinct : ExitCodeSuccess ≠ ExitCodeFailure := by decide

/-! ## Part 1 — SignalHandler -/

/-- `shutdown_reverse_once`: for EVERY outcome vector — errors and panics included — `shutdown`
enters `Shutdown` of every registered service exactly once, in reverse registration order
(`n-1, …, 1, 0`), and returns a status (no panic leaves the function, no index is out of
range). -/
theorem shutdown_reverse_once (svcs : List Outcome) :
    (shutdown svcs).calls = (List.range svcs.length).reverse ∧
    ∃ status, (shutdown svcs).result = .ok status := by
  have h := shutdownLoop_spec svcs svcs.length ExitCodeSuccess [] (Nat.le_refl _)
  simp only [shutdown, shutdownG]
  rw [h]
  exact ⟨by simp, _, rfl⟩

/-- `status_success_only_if_all_nil`: for every outcome vector, including those with panics,
the status is `ExitCodeSuccess` exactly when every service returned nil; otherwise it is
`ExitCodeFailure`. -/
theorem status_success_only_if_all_nil (svcs : List Outcome) :
    ((shutdown svcs).result = .ok ExitCodeSuccess ↔ ∀ o ∈ svcs, o = Outcome.nil) ∧
    ((shutdown svcs).result = .ok ExitCodeSuccess ∨ (shutdown svcs).result = .ok ExitCodeFailure) := by
  have h := shutdownLoop_spec svcs svcs.length ExitCodeSuccess [] (Nat.le_refl _)
  simp only [shutdown, shutdownG]
  rw [h, List.take_length]
  by_cases hall : svcs.all (· == Outcome.nil) = true
  · have := (all_nil_iff svcs).1 hall
    refine ⟨⟨fun _ => this, fun _ => ?_⟩, Or.inl ?_⟩ <;> simp [hall]
  · have hne : ¬ ∀ o ∈ svcs, o = Outcome.nil := fun hh => hall ((all_nil_iff svcs).2 hh)
    simp only [hall]
    refine ⟨⟨fun hh => ?_, fun hh => absurd hh hne⟩, Or.inr rfl⟩
    simp only [Bool.false_eq_true, if_false] at hh
    exact absurd (Except.ok.inj hh).symm exit_codes_distinct

/-- A non-shutdown signal is skipped: it has no effect on what `Handle` does. -/
theorem nonshutdown_ignored (pre rest : List Signal) (svcs : List Outcome)
    (hpre : ∀ s ∈ pre, isShutdownSignal s = false) :
    handle (pre ++ rest) svcs = handle rest svcs := by
  induction pre with
  | nil => rfl
  | cons s pre ih =>
    have hs : isShutdownSignal s = false := hpre s (List.mem_cons_self ..)
    simp only [List.cons_append, handle, handleG, hs]
    exact ih (fun x hx => hpre x (List.mem_cons_of_mem _ hx))

/-- As long as only non-shutdown signals arrive, `Handle` keeps blocking and no service is
touched. -/
theorem nonshutdown_blocks (sigs : List Signal) (svcs : List Outcome)
    (h : ∀ s ∈ sigs, isShutdownSignal s = false) : handle sigs svcs = .blocked := by
  have := nonshutdown_ignored sigs [] svcs h
  simpa [handle, handleG] using this

/-- On the FIRST shutdown signal — whatever came before and whatever comes after — `Handle`
shuts every service down exactly once in reverse order and returns the aggregated status,
which is `ExitCodeSuccess` only if (indeed iff) every service's `Shutdown` returned nil. -/
theorem handle_first_shutdown_signal (pre post : List Signal) (sig : Signal) (svcs : List Outcome)
    (hpre : ∀ s ∈ pre, isShutdownSignal s = false) (hsig : isShutdownSignal sig = true) :
    ∃ status, handle (pre ++ sig :: post) svcs = .returned status (List.range svcs.length).reverse ∧
      (status = ExitCodeSuccess ↔ ∀ o ∈ svcs, o = Outcome.nil) ∧
      (status = ExitCodeSuccess ∨ status = ExitCodeFailure) := by
  rw [nonshutdown_ignored pre _ svcs hpre]
  obtain ⟨hcalls, st, hst⟩ := shutdown_reverse_once svcs
  have hs := status_success_only_if_all_nil svcs
  refine ⟨st, ?_, ?_, ?_⟩
  · simp only [handle, handleG, hsig, if_true]
    simp only [shutdown] at hst hcalls
    rw [hst, hcalls]
  · rw [hst] at hs
    constructor
    · intro h; exact hs.1.1 (by rw [h])
    · intro h; exact Except.ok.inj (hs.1.2 h)
  · rw [hst] at hs
    rcases hs.2 with h | h
    · exact Or.inl (Except.ok.inj h)
    · exact Or.inr (Except.ok.inj h)

/-- Whatever `Handle` returns, a success status means that every registered service was shut
down (exactly once, in reverse order) and returned nil. -/
theorem handle_success_only_if_all_shut_down (sigs : List Signal) (svcs : List Outcome)
    (calls : List Nat) (h : handle sigs svcs = .returned ExitCodeSuccess calls) :
    calls = (List.range svcs.length).reverse ∧ ∀ o ∈ svcs, o = Outcome.nil := by
  induction sigs with
  | nil => simp [handle, handleG] at h
  | cons s rest ih =>
    by_cases hs : isShutdownSignal s = true
    · obtain ⟨st, hh, hiff, _⟩ := handle_first_shutdown_signal [] rest s svcs (by simp) hs
      simp only [List.nil_append] at hh
      rw [hh] at h
      injection h with h1 h2
      exact ⟨h2.symm, hiff.1 h1⟩
    · have hs' : isShutdownSignal s = false := by simpa using hs
      have : handle (s :: rest) svcs = handle rest svcs := nonshutdown_ignored [s] rest svcs (by simpa using hs')
      rw [this] at h
      exact ih h

/-- The code before the repair (no per-service recovery), on the witness of DESIGN.md §9 #14:
services `[nil, panic, nil]`, one SIGTERM.  Service 0 is never shut down and `Handle` returns
`0 = ExitCodeSuccess`. -/
example : handleG false [.sys SIGTERM] [.nil, .panic, .nil] = .returned ExitCodeSuccess [2, 1] := by decide

/-- the repaired code on the same witness -/
example : handle [.sys SIGTERM] [.nil, .panic, .nil] = .returned ExitCodeFailure [2, 1, 0] := by decide

/-- hypotheses of the signal theorems are satisfiable: SIGHUP (1), SIGUSR1 (10) and a foreign
`os.Signal` value are not shutdown signals; SIGINT, SIGQUIT, SIGTERM are -/
example : (∀ s ∈ [Signal.sys 1, .sys 10, .other SIGINT], isShutdownSignal s = false) ∧
    isShutdownSignal (.sys SIGINT) = true ∧ isShutdownSignal (.sys SIGQUIT) = true ∧
    isShutdownSignal (.sys SIGTERM) = true := by decide

/-! ## Part 2 — RefreshWorker -/

/-- Go's random choice between two ready `select` cases cannot be observed in the repaired
code: two environments that agree on the schedule and on which timers are ready at once yield
the same run, whatever `pick` says. -/
theorem select_choice_irrelevant (env env' : Env) (hd : env.dur = env'.dur) (hi : env.imm = env'.imm)
    (ros : Bool) (evs : List Ev) : run env ros evs = run env' ros evs := by
  have hlt : ∀ s, loopTop true env s = loopTop true env' s := by
    intro s
    unfold loopTop selectDoneTimer timerCase
    rw [hd, hi]
    cases s.closed <;> cases env'.imm s.k <;> cases env.pick s.k <;> cases env'.pick s.k <;> simp
  have hstep : ∀ s ev, stepG true env ros s ev = stepG true env' ros s ev := by
    intro s ev
    cases ev with
    | tick => rfl
    | refreshReturns c e => cases c <;> simp only [stepG, hlt]
    | shutdown => rfl
  have hrun : ∀ s, runFromG true env ros s evs = runFromG true env' ros s evs := by
    induction evs with
    | nil => intro s; rfl
    | cons e es ih => intro s; simp only [runFromG]; rw [hstep, ih]
  simp only [run, runG]
  rw [show initG true env = initG true env' from hlt _, hrun]

/-- every reachable state satisfies the invariant -/
theorem reachable_inv (env : Env) (ros : Bool) (evs : List Ev) : Inv (run env ros evs).1 :=
  inv_runFrom env ros evs _ (inv_init env)

/-- `refresh_once_per_tick`, responsiveness: in every reachable state in which the loop waits on
an armed timer, a tick starts exactly one `Refresh`, with the context the constructor made from
`Start`'s context, and nothing else; a tick without an armed timer does nothing. -/
theorem tick_starts_one_refresh (env : Env) (ros : Bool) (pre : List Ev) :
    let s := (run env ros pre).1
    (s.loop = .waiting → step env ros s .tick = ({ s with loop := .refreshing }, [.refresh (.cons .start)])) ∧
    (s.loop ≠ .waiting → step env ros s .tick = (s, [])) := by
  intro s
  have hinv : Inv s := reachable_inv env ros pre
  constructor
  · intro hl
    have hc : s.closed = false := hinv.1 hl
    simp [step, stepG, hl, timerCase, hc, refreshStart]
  · intro hl
    cases h : s.loop <;> simp_all [step, stepG]

/-- `refresh_once_per_tick`, exactly once: in the trace of every history, the loop's `Refresh`
calls correspond one-to-one to the armed timers (`After` calls) — except for the last timer
when it is still pending or was cancelled by `Shutdown`.  So no interval is refreshed twice,
none is skipped, and no refresh happens without an interval. -/
theorem refresh_once_per_tick (env : Env) (ros : Bool) (evs : List Ev) :
    (flat (run env ros evs).2).countP isLoopRefresh + pend (run env ros evs).1 =
      (flat (run env ros evs).2).countP isAfter := by
  have h0 : (init env).2.countP isLoopRefresh + pend (init env).1 = (init env).2.countP isAfter := by
    unfold init initG
    rcases loopTop_cases env { loop := .waiting, closed := false, fin := .idle, k := 0 } with h | h | h <;>
      (rw [h.1, h.2.1]; simp [pend, List.countP_cons])
  have h1 := cnt_runFrom env ros evs _ (inv_init env)
  simp only [run, runG, flat_cons, List.countP_append]
  simp only [runFrom, init] at h0 h1
  omega

/-- every `Refresh` gets a context made by the context constructor (from `Start`'s context in
the loop, from `Shutdown`'s context for the final refresh) -/
theorem refresh_ctx_from_constructor (env : Env) (ros : Bool) (evs : List Ev) :
    ∀ o ∈ flat (run env ros evs).2, isRefresh o = true →
      o = .refresh (.cons .start) ∨ o = .refresh (.cons .shutdown) := by
  intro o ho hr
  simp only [run, runG, flat_cons, List.mem_append] at ho
  rcases ho with ho | ho
  · unfold initG at ho
    rcases loopTop_cases env { loop := .waiting, closed := false, fin := .idle, k := 0 } with h | h | h <;>
      (rw [h.2.1] at ho; simp at ho; rcases ho with rfl | rfl | rfl <;> simp_all)
  · exact refresh_ctx_runFrom env ros evs _ o ho hr

/-- `error_handled_once`: for every history, the errors handed to the `ErrorHandler` are exactly
the non-nil errors returned by the loop's refreshes — each once, in order, and nothing else
(in particular not the error of the final refresh, which `Shutdown` returns). -/
theorem error_handled_once (env : Env) (ros : Bool) (evs : List Ev) :
    handled (flat (run env ros evs).2) = ((accepted env ros evs).filterMap loopErr).filter (· ≠ 0) := by
  have h0 : handled (init env).2 = [] := by
    unfold init initG
    rcases loopTop_cases env { loop := .waiting, closed := false, fin := .idle, k := 0 } with h | h | h <;>
      (rw [h.2.1]; simp [handled])
  have h1 := handled_runFrom env ros evs (init env).1
  simp only [run, runG, flat_cons, accepted]
  simp only [handled, List.filterMap_append] at h0 h1 ⊢
  simp only [runFrom, init] at h0 h1
  rw [h0, h1]
  simp

/-- `schedule_consulted_after_each`: for every history, `UntilNext` is consulted once at the
start and exactly once after each completed loop refresh, and the durations requested from the
clock are, call by call, the schedule's answers: the `i`-th `After` gets the `i`-th answer. -/
theorem schedule_consulted_after_each (env : Env) (ros : Bool) (evs : List Ev) :
    (flat (run env ros evs).2).countP isUntilNext = 1 + ((accepted env ros evs).filterMap loopErr).length ∧
    afters (flat (run env ros evs).2) =
      (List.range ((flat (run env ros evs).2).countP isUntilNext)).map env.dur := by
  have hk0 : (init env).1.k = 1 ∧ (init env).2.countP isUntilNext = 1 ∧ afters (init env).2 = [env.dur 0] := by
    unfold init initG
    rcases loopTop_cases env { loop := .waiting, closed := false, fin := .idle, k := 0 } with h | h | h <;>
      (rw [h.1, h.2.1]; simp [afters, List.countP_cons])
  obtain ⟨b1, b2, b3⟩ := sched_runFrom env ros evs (init env).1
  obtain ⟨k0, u0, f0⟩ := hk0
  simp only [runFrom, init] at b1 b2 b3 k0 u0 f0
  simp only [run, runG, flat_cons, List.countP_append, accepted, init]
  simp only [afters, List.filterMap_append] at b3 f0 ⊢
  rw [k0] at b3
  refine ⟨by omega, ?_⟩
  rw [f0, b3, u0, List.range_eq_range', Nat.add_comm 1, List.range'_succ]
  simp

/-- `no_refresh_after_shutdown`: take any history `pre` without a `Shutdown` call, then the
`Shutdown` call, then any further events `post`.  From the call of `Shutdown` on
  * the loop starts no refresh any more (whatever timers are ready, whatever `select` picks);
  * exactly one more `Refresh` is started iff `RefreshOnShutdown` is set — the final one, with the
    context made from `Shutdown`'s context — and none otherwise;
  * `Shutdown` returns exactly once: nil without the final refresh, otherwise the error of that
    final refresh (the first completion of it in `post`). -/
theorem no_refresh_after_shutdown (env : Env) (ros : Bool) (pre post : List Ev)
    (hpre : Ev.shutdown ∉ pre) :
    let s := (run env ros pre).1
    let tr := flat (runFrom env ros s (.shutdown :: post)).2
    tr.countP isLoopRefresh = 0 ∧
    tr.countP isFinalRefresh = (if ros then 1 else 0) ∧
    tr.countP isRefresh = (if ros then 1 else 0) ∧
    shutdownRets tr = (if ros then (post.filterMap finalErr).take 1 else [0]) := by
  intro s tr
  have hinv : Inv s := reachable_inv env ros pre
  -- no Shutdown so far: `done` is open
  have hopen : ∀ (evs : List Ev) (s0 : St), Ev.shutdown ∉ evs → s0.closed = false →
      (runFrom env ros s0 evs).1.closed = false := by
    intro evs
    induction evs with
    | nil => intro s0 _ h; simpa [runFrom, runFromG] using h
    | cons e es ih =>
      intro s0 hne h0
      simp only [runFrom, runFromG]
      apply ih _ (fun hh => hne (List.mem_cons_of_mem _ hh))
      cases e with
      | tick => cases hl : s0.loop <;> simp [stepG, hl, timerCase, h0]
      | refreshReturns c e =>
        cases c with
        | loop =>
          cases hl : s0.loop <;> simp only [stepG, hl] <;> try exact h0
          rcases loopTop_cases env s0 with h | h | h <;> (rw [h.1]; simp_all)
        | shutdown => cases hf : s0.fin <;> simp [stepG, hf, h0]
      | shutdown => exact absurd (List.mem_cons_self ..) hne
  have hc : s.closed = false := by
    have h0 : (init env).1.closed = false := by
      unfold init initG
      rcases loopTop_cases env { loop := .waiting, closed := false, fin := .idle, k := 0 } with h | h | h <;>
        (rw [h.1])
    exact hopen pre _ hpre h0
  -- the Shutdown step itself
  have hcl : Closed (step env ros s .shutdown).1 := by
    cases ros <;> cases hl : s.loop <;> simp [step, stepG, hc, hl, Closed]
  obtain ⟨c1, c2⟩ := closed_runFrom env ros post _ hcl
  have hsub : ∀ os : List Out, os.countP isRefresh = 0 → os.countP isLoopRefresh = 0 ∧ os.countP isFinalRefresh = 0 := by
    intro os h
    rw [List.countP_eq_zero] at h
    constructor <;>
      (rw [List.countP_eq_zero]; intro o ho
       cases o with
       | refresh c => exact absurd (h _ ho) (by simp)
       | _ => simp)
  obtain ⟨d1, d2⟩ := hsub _ c1
  simp only [tr, runFrom, runFromG, flat_cons, List.countP_append, shutdownRets, List.filterMap_append]
  simp only [step, runFrom, shutdownRets] at c1 c2 d1 d2
  rw [c1, c2, d1, d2]
  cases ros <;> simp [stepG, hc, refreshStart]

/-- The code before the repair (no re-check of `done`), on the witness of DESIGN.md §9 #15: a
refresh is running when `Shutdown` is called and returns; the refresh completes, the next
timer is ready at once, `select` picks the timer: a refresh starts after `Shutdown` returned. -/
example :
    (runG false { dur := fun _ => 1, imm := fun k => decide (k ≥ 1), pick := fun _ => true } false
      [.tick, .shutdown, .refreshReturns .loop 0]).2 =
    [[.untilNext, .after 1], [.refresh (.cons .start)], [.shutdownReturns 0],
     [.untilNext, .after 1, .refresh (.cons .start)]] := by decide

/-- the repaired code on the same witness: the loop exits -/
example :
    (run { dur := fun _ => 1, imm := fun k => decide (k ≥ 1), pick := fun _ => true } false
      [.tick, .shutdown, .refreshReturns .loop 0]).2 =
    [[.untilNext, .after 1], [.refresh (.cons .start)], [.shutdownReturns 0], [.untilNext, .after 1]] := by
  decide

/-- non-vacuity: a history with two ticks, an error, a shutdown during the second refresh with
`RefreshOnShutdown`, whose final refresh fails with error 9 -/
example :
    (run { dur := fun k => 5 + k, imm := fun _ => false, pick := fun _ => false } true
      [.tick, .refreshReturns .loop 7, .tick, .shutdown, .refreshReturns .loop 0, .refreshReturns .shutdown 9]).2 =
    [[.untilNext, .after 5], [.refresh (.cons .start)], [.handle .start 7, .untilNext, .after 6],
     [.refresh (.cons .start)], [.refresh (.cons .shutdown)], [.untilNext, .after 7], [.shutdownReturns 9]] := by
  decide

end GolibsVerif.C18
