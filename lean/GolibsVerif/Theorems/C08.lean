/-
C08 — property theorems.

Parse: for every byte stream, every `idna.ToASCII`, both kinds of destination and every
source name, `Parse` delivers exactly the records of the well-formed lines, in source order
and tagged with the source name, and reports every other line exactly once with its 1-based
number — to `HandleInvalid` or joined in the returned error.  Independence of the read
fragmentation is contract SCAN-1 (`parse_fragmentation` makes the dependence explicit).

DefaultStorage: after any sequence of `Add`s on a new storage, `ByAddr` / `ByName` are the
first-seen-order de-duplications (by `strings.ToLower`, an arbitrary function here) of what
was added; the two indexes agree; no duplicates; a record without names changes nothing.
-/
import GolibsVerif.Lemmas.C08

namespace GolibsVerif.C08
open GolibsVerif GolibsVerif.Netip GolibsVerif.C07

/-! ### Parse -/

/-- **Exactness of `Parse`.**  There is exactly one outcome per line of the stream
(`Outcomes`, by position): a well-formed line (C07 grammar) is delivered as its record with
`Source = srcName`, any other line is reported with its own text and index + 1.  The calls
on `dst` and the returned error are exactly what these outcomes prescribe: every delivered
record one `Add`, in order; every reported line one `HandleInvalid` call (interleaved in
source order) when `dst` is a `HandleSet`, and otherwise one `*LineError` of the joined
returned error, which is nil iff nothing was reported.  In particular `Parse` does not
panic. -/
theorem parse_exact (toASCII : Bytes → Option Bytes) (isHandleSet : Bool) (srcName stream : Bytes) :
    ∃ evs, Outcomes toASCII srcName 0 (scanLines stream) evs ∧
      parse toASCII isHandleSet srcName false stream =
        .ok (callsOf isHandleSet srcName evs, retOf isHandleSet evs) := by
  refine ⟨eventsFrom toASCII srcName (scanLines stream) 1, eventsFrom_outcomes toASCII srcName _ 0, ?_⟩
  unfold parse
  simp only [bind, Except.bind, parseLoop_eq, foldl_applyEvent, List.nil_append, Bool.false_eq_true,
    if_false, pure, Except.pure, retOf]
  cases isHandleSet <;> simp
  split <;> simp_all

/-- When the reader ends with an error other than `io.EOF`, the same calls are made for the
lines scanned, and the scanning error is returned instead of the collected line errors. -/
theorem parse_read_error (toASCII : Bytes → Option Bytes) (isHandleSet : Bool) (srcName stream : Bytes) :
    ∃ evs, Outcomes toASCII srcName 0 (scanLines stream) evs ∧
      parse toASCII isHandleSet srcName true stream = .ok (callsOf isHandleSet srcName evs, .scanning) := by
  refine ⟨eventsFrom toASCII srcName (scanLines stream) 1, eventsFrom_outcomes toASCII srcName _ 0, ?_⟩
  unfold parse
  simp [bind, Except.bind, parseLoop_eq, foldl_applyEvent, pure, Except.pure]

/-- **Independence of the read fragmentation, under contract SCAN-1.**  `scanner` stands for
`bufio.Scanner` + `bufio.ScanLines` fed with the chunks the reader returns; SCAN-1 says its
tokens are `scanLines` of the concatenated stream.  Then two fragmentations of the same
stream give the same outcome of `Parse`. -/
theorem parse_fragmentation (toASCII : Bytes → Option Bytes) (isHandleSet : Bool) (srcName : Bytes)
    (scanner : List Bytes → List Bytes)
    (scan1 : ∀ chunks, scanner chunks = scanLines chunks.flatten)
    (chunks₁ chunks₂ : List Bytes) (h : chunks₁.flatten = chunks₂.flatten) (st : PState) :
    parseLoop toASCII isHandleSet srcName (scanner chunks₁) 1 st =
      parseLoop toASCII isHandleSet srcName (scanner chunks₂) 1 st := by
  rw [scan1, scan1, h]

/-- **What the lines of a stream are** (the model of `bufio.ScanLines`, stated as the property
reads it): LF-terminated lines, each without its terminator and without one CR before it; a
last line without LF counts when it is not empty. -/
theorem scanLines_lines (ls : List Bytes) (hls : ∀ l ∈ ls, ∀ b ∈ l, b ≠ 10)
    (last : Bytes) (hlast : ∀ b ∈ last, b ≠ 10) :
    scanLines ((ls.flatMap fun l => l ++ [10]) ++ last) =
      ls.map dropCR ++ (if last = [] then [] else [dropCR last]) := by
  unfold scanLines
  induction ls with
  | nil =>
    simp only [List.flatMap_nil, List.nil_append, List.map_nil]
    have : ∀ cur : Bytes, scanLinesAux last cur =
        if cur.reverse ++ last = [] then [] else [dropCR (cur.reverse ++ last)] := by
      induction last with
      | nil => intro cur; simp [scanLinesAux]
      | cons b t ih =>
        intro cur
        have hb : b ≠ 10 := hlast b (by simp)
        simp only [scanLinesAux, hb, if_false]
        rw [ih (fun x hx => hlast x (by simp [hx]))]
        simp
    have h := this []
    simp only [List.reverse_nil, List.nil_append] at h
    rw [h]
    by_cases hl : last = [] <;> simp [hl]
  | cons l ls ih =>
    simp only [List.flatMap_cons, List.append_assoc, List.map_cons, List.cons_append]
    rw [scanLinesAux_line l (hls l (by simp))]
    simp only [List.reverse_nil, List.nil_append, List.cons.injEq, true_and]
    exact ih (fun l' hl' => hls l' (by simp [hl']))

/-! ### DefaultStorage -/

/-- `Add` never panics (the pointer `s.names[rec.Addr]` it dereferences in the loop was
created before the loop), for any sequence of records and any starting storage. -/
theorem adds_total (lower : Bytes → Bytes) (s : Storage) (rs : List Record) :
    ∃ s', adds lower s rs = .ok s' :=
  let ⟨s', h, _⟩ := adds_spec lower rs s
  ⟨s', h⟩

/-- **Refinement.**  After any sequence of `Add`s on a new storage, `ByAddr(a)` is the list
of names added with `a`, in first-seen order without `lower`-duplicates, and `ByName(n)` is
the list of addresses added with a name that lower-cases like `n`, in first-seen order
without duplicates. -/
theorem storage_refines (lower : Bytes → Bytes) (rs : List Record) (s : Storage)
    (h : adds lower Storage.empty rs = .ok s) :
    (∀ a, byAddr s a = firstSeenBy lower (namesFor rs a)) ∧
    (∀ n, byName lower s n = firstSeenBy id (addrsFor lower rs n)) := by
  obtain ⟨s', h', hn, ha⟩ := adds_spec lower rs Storage.empty
  rw [h] at h'
  injection h' with h'
  subst h'
  constructor
  · intro a
    rw [byAddr_eq, hn a, foldl_stepN, foldl_add_eq]
    simp [namesAt, Storage.empty, Map.get, OSet.empty, firstSeenBy, namesFor]
  · intro n
    rw [byName_eq, ha (lower n), foldl_stepA, foldl_add_eq]
    simp [addrsAt, Storage.empty, Map.get, OSet.empty, firstSeenBy, addrsFor]

/-- **The two indexes agree.**  `a` is listed under `ByName(n)` iff some name listed under
`ByAddr(a)` lower-cases like `n`. -/
theorem indexes_agree (lower : Bytes → Bytes) (rs : List Record) (s : Storage)
    (h : adds lower Storage.empty rs = .ok s) (a : Addr) (n : Bytes) :
    a ∈ byName lower s n ↔ ∃ m ∈ byAddr s a, lower m = lower n := by
  obtain ⟨h1, h2⟩ := storage_refines lower rs s h
  rw [h1 a, h2 n, mem_firstSeenBy_id]
  unfold addrsFor namesFor
  constructor
  · intro hm
    rw [List.mem_map] at hm
    obtain ⟨p, hp, rfl⟩ := hm
    rw [List.mem_filter] at hp
    have hmem : p.2 ∈ ((pairs rs).filter fun q => q.1 = p.1).map (·.2) := by
      rw [List.mem_map]; exact ⟨p, by simp [List.mem_filter, hp.1], rfl⟩
    obtain ⟨y, hy, hk⟩ := firstSeenAux_cover lower _ [] p.2 hmem (by simp)
    exact ⟨y, hy, by rw [hk]; simpa using hp.2⟩
  · rintro ⟨m, hm, hk⟩
    have := (firstSeenAux_sub lower _ [] m hm).1
    rw [List.mem_map] at this
    obtain ⟨p, hp, rfl⟩ := this
    rw [List.mem_filter] at hp
    rw [List.mem_map]
    refine ⟨p, ?_, by simpa using hp.2⟩
    rw [List.mem_filter]
    exact ⟨hp.1, by simpa using hk⟩

/-- **No duplicates.**  `ByAddr(a)` never holds two names with the same lower-cased form,
`ByName(n)` never holds an address twice. -/
theorem no_dups (lower : Bytes → Bytes) (rs : List Record) (s : Storage)
    (h : adds lower Storage.empty rs = .ok s) :
    (∀ a, ((byAddr s a).map lower).Nodup) ∧ (∀ n, (byName lower s n).Nodup) := by
  obtain ⟨h1, h2⟩ := storage_refines lower rs s h
  constructor
  · intro a; rw [h1 a]; exact firstSeenAux_nodup lower _ []
  · intro n
    rw [h2 n]
    have := firstSeenAux_nodup id (addrsFor lower rs n) []
    simpa [firstSeenBy] using this

/-- **A record without names changes nothing**: `Add` returns the storage it was given, so
every observation — `ByAddr`, `ByName`, both `Range` functions, `Equal` in both directions
against any other storage (or nil) — is the same before and after. -/
theorem nameless_noop (lower : Bytes → Bytes) (s : Storage) (r : Record) (h : r.names = []) :
    ∃ s', add lower s r = .ok s' ∧ observe lower s' = observe lower s := by
  refine ⟨s, ?_, rfl⟩
  simp [add, h, pure, Except.pure]

/-! ### Non-vacuity, and the defect of the unchanged tree -/

def rec1 : Record := { addr := .v4 [1, 2, 3, 4], source := [], names := [[65], [97], [98]] }
def rec2 : Record := { addr := .v4 [1, 2, 3, 5], source := [], names := [[97]] }
def nameless : Record := { addr := .v4 [9, 9, 9, 9], source := [], names := [] }

/-- `"A"`, `"a"`, `"b"` added with 1.2.3.4 (ASCII lower-casing): `"a"` is a duplicate of `"A"` -/
example : firstSeenBy Str.asciiLower (namesFor [rec1, nameless, rec2] (.v4 [1, 2, 3, 4])) = [[65], [98]] := by decide
example : firstSeenBy id (addrsFor Str.asciiLower [rec1, nameless, rec2] [65]) = [.v4 [1, 2, 3, 4], .v4 [1, 2, 3, 5]] := by
  decide

/-- On the unchanged tree (`addUnfixed`: no early return) a nameless record is observable:
`RangeNames` yields `(9.9.9.9, nil)` and the storage stops being `Equal` to a new one. -/
def unfixedObservable : Bool :=
  match addUnfixed Str.asciiLower Storage.empty nameless with
  | .ok s' => decide (rangeNames s' = [(.v4 [9, 9, 9, 9], [])]) && !equal (some s') (some Storage.empty)
  | .error _ => false

example : unfixedObservable = true := by decide

/-- a two-line file with CRLF and a missing final newline -/
example : scanLines (ascii "1.2.3.4 a\r\n# c\n::1 b") = [ascii "1.2.3.4 a", ascii "# c", ascii "::1 b"] := by decide

end GolibsVerif.C08
