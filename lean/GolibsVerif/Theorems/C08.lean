/-
C08 — property theorems.

Parse: for every byte stream, every `idna.ToASCII`, both kinds of destination and every
source name, `Parse` delivers exactly the records of the well-formed lines, in source order
and tagged with the source name, and reports every other line exactly once with its 1-based
number — to `HandleInvalid` or joined in the returned error.  Independence of the read
fragmentation is proved over the model of `bufio.Scanner` (`Go/Scanner.lean`, theorems in
`Theorems/C08Scan.lean`): `parse_scan_eq`, `parse_fragmentation`, `parse_scan_read_error`
quantify over arbitrary fragmentation scripts and buffers.

DefaultStorage: after any sequence of `Add`s on a new storage, `ByAddr` / `ByName` are the
first-seen-order de-duplications (by `strings.ToLower`, an arbitrary function here) of what
was added; the two indexes agree; no duplicates; a record without names changes nothing.
`RangeNames` / `RangeAddrs` visit every address that was added with a name / every lowered
name exactly once, with the `ByAddr` / `ByName` answer, in whatever order the map is
iterated, and stop at the first callback that returns false.  `Equal` decides equality of the
`ByAddr` answers (`equal_iff_byAddr`); it does NOT decide equality of the `ByName` answers,
only equality up to order (`equal_byName_perm`, `equal_not_byName`).
-/
import GolibsVerif.Lemmas.C08
import GolibsVerif.Theorems.C08Scan
import GolibsVerif.Lemmas.C08Range

namespace GolibsVerif.C08
open GolibsVerif GolibsVerif.Netip GolibsVerif.C07 GolibsVerif.Bufio

/-! ### Parse -/

/-- **Exactness of `Parse`.**  There is exactly one outcome per line of the stream
(`Outcomes`, by position): a well-formed line (C07 grammar) is delivered as its record with
`Source = srcName`, any other line is reported with its own text and index + 1.  The calls
on `dst` and the returned error are exactly what these outcomes prescribe: every delivered
record one `Add`, in order; every reported line one `HandleInvalid` call (interleaved in
source order) when `dst` is a `HandleSet`, and otherwise one `*LineError` of the joined
returned error, which is nil iff nothing was reported.  In particular `Parse` does not
panic. -/
theorem parse_exact (toASCII : Bytes → Option Bytes) (isHandleSet : Bool) (srcName stream : Bytes) :
    ∃ evs, Outcomes toASCII srcName 0 (scanLines stream) evs ∧
      parse toASCII isHandleSet srcName false stream =
        .ok (callsOf isHandleSet srcName evs, retOf isHandleSet evs) := by
  refine ⟨eventsFrom toASCII srcName (scanLines stream) 1, eventsFrom_outcomes toASCII srcName _ 0, ?_⟩
  unfold parse
  simp only [bind, Except.bind, parseLoop_eq, foldl_applyEvent, List.nil_append, Bool.false_eq_true,
    if_false, pure, Except.pure, retOf]
  cases isHandleSet <;> simp
  split <;> simp_all

/-- When the reader ends with an error other than `io.EOF`, the same calls are made for the
lines scanned, and the scanning error is returned instead of the collected line errors. -/
theorem parse_read_error (toASCII : Bytes → Option Bytes) (isHandleSet : Bool) (srcName stream : Bytes) :
    ∃ evs, Outcomes toASCII srcName 0 (scanLines stream) evs ∧
      parse toASCII isHandleSet srcName true stream = .ok (callsOf isHandleSet srcName evs, .scanning) := by
  refine ⟨eventsFrom toASCII srcName (scanLines stream) 1, eventsFrom_outcomes toASCII srcName _ 0, ?_⟩
  unfold parse
  simp [bind, Except.bind, parseLoop_eq, foldl_applyEvent, pure, Except.pure]

/-- **`Parse` over the real scanner loop is `Parse` over the lines of the stream.**
`parseScan` runs `Parse` as the code does: `bufio.NewScanner(src)`,
`s.Buffer(buf, bufio.MaxScanTokenSize)`, `for s.Scan()`, `s.Err()`, over the model of
`bufio.Scanner` reading from a scripted reader.  For every stream whose lines are shorter than
`bufio.MaxScanTokenSize`, every buffer `buf`, and every fragmentation script that delivers the
whole stream and then `io.EOF` without more than 100 consecutive empty reads, the outcome is
that of `parse` on the whole stream (to which `parse_exact` applies). -/
theorem parse_scan_eq (toASCII : Bytes → Option Bytes) (isHandleSet : Bool) (srcName stream : Bytes)
    (bufCap : Nat) (script : Script) (hshort : LinesShort stream maxScanTokenSize)
    (hdel : delivered script = stream.length) (hend : ending script = .eof) (hstall : NoStall 0 script) :
    parseScan toASCII isHandleSet srcName bufCap stream script =
      parse toASCII isHandleSet srcName false stream := by
  unfold parseScan parse
  rw [scan_fragmentation_independent stream script bufCap maxScanTokenSize (by decide) hshort hdel hend hstall]
  rfl

/-- **Independence of the read fragmentation** (no contract left).  Two readers that deliver
the same stream — by any two fragmentation scripts (1-byte reads, `(0, nil)` reads, data
together with `io.EOF`, …) and into any two buffers — give the same outcome of `Parse`: the
same calls on `dst` in the same order and the same returned error. -/
theorem parse_fragmentation (toASCII : Bytes → Option Bytes) (isHandleSet : Bool) (srcName stream : Bytes)
    (hshort : LinesShort stream maxScanTokenSize)
    (bufCap₁ bufCap₂ : Nat) (script₁ script₂ : Script)
    (hdel₁ : delivered script₁ = stream.length) (hend₁ : ending script₁ = .eof) (hstall₁ : NoStall 0 script₁)
    (hdel₂ : delivered script₂ = stream.length) (hend₂ : ending script₂ = .eof) (hstall₂ : NoStall 0 script₂) :
    parseScan toASCII isHandleSet srcName bufCap₁ stream script₁ =
      parseScan toASCII isHandleSet srcName bufCap₂ stream script₂ := by
  rw [parse_scan_eq toASCII isHandleSet srcName stream bufCap₁ script₁ hshort hdel₁ hend₁ hstall₁,
    parse_scan_eq toASCII isHandleSet srcName stream bufCap₂ script₂ hshort hdel₂ hend₂ hstall₂]

/-- **A failing reader, whatever its fragmentation.**  When the script ends with an error other
than `io.EOF` after delivering a prefix of the stream, the outcome is that of `parse` with
`readErr = true` on that prefix (to which `parse_read_error` applies): the calls for its
lines, its unterminated tail included, and the scanning error. -/
theorem parse_scan_read_error (toASCII : Bytes → Option Bytes) (isHandleSet : Bool) (srcName stream : Bytes)
    (bufCap : Nat) (script : Script) (e : Err)
    (hdel : delivered script ≤ stream.length) (hend : ending script = e) (hne : e ≠ .eof)
    (hstall : NoStall 0 script) (hshort : LinesShort (stream.take (delivered script)) maxScanTokenSize) :
    parseScan toASCII isHandleSet srcName bufCap stream script =
      parse toASCII isHandleSet srcName true (stream.take (delivered script)) := by
  unfold parseScan parse
  rw [scan_read_error stream script bufCap maxScanTokenSize e (by decide) hdel hend hne hstall hshort]
  rfl

/-- **What the lines of a stream are** (the model of `bufio.ScanLines`, stated as the property
reads it): LF-terminated lines, each without its terminator and without one CR before it; a
last line without LF counts when it is not empty. -/
theorem scanLines_lines (ls : List Bytes) (hls : ∀ l ∈ ls, ∀ b ∈ l, b ≠ 10)
    (last : Bytes) (hlast : ∀ b ∈ last, b ≠ 10) :
    scanLines ((ls.flatMap fun l => l ++ [10]) ++ last) =
      ls.map dropCR ++ (if last = [] then [] else [dropCR last]) := by
  unfold scanLines
  induction ls with
  | nil =>
    simp only [List.flatMap_nil, List.nil_append, List.map_nil]
    have : ∀ cur : Bytes, scanLinesAux last cur =
        if cur.reverse ++ last = [] then [] else [dropCR (cur.reverse ++ last)] := by
      induction last with
      | nil => intro cur; simp [scanLinesAux]
      | cons b t ih =>
        intro cur
        have hb : b ≠ 10 := hlast b (by simp)
        simp only [scanLinesAux, hb, if_false]
        rw [ih (fun x hx => hlast x (by simp [hx]))]
        simp
    have h := this []
    simp only [List.reverse_nil, List.nil_append] at h
    rw [h]
    by_cases hl : last = [] <;> simp [hl]
  | cons l ls ih =>
    simp only [List.flatMap_cons, List.append_assoc, List.map_cons, List.cons_append]
    rw [scanLinesAux_line l (hls l (by simp))]
    simp only [List.reverse_nil, List.nil_append, List.cons.injEq, true_and]
    exact ih (fun l' hl' => hls l' (by simp [hl']))

/-! ### DefaultStorage -/

/-- `Add` never panics (the pointer `s.names[rec.Addr]` it dereferences in the loop was
created before the loop), for any sequence of records and any starting storage. -/
theorem adds_total (lower : Bytes → Bytes) (s : Storage) (rs : List Record) :
    ∃ s', adds lower s rs = .ok s' :=
  let ⟨s', h, _⟩ := adds_spec lower rs s
  ⟨s', h⟩

/-- **Refinement.**  After any sequence of `Add`s on a new storage, `ByAddr(a)` is the list
of names added with `a`, in first-seen order without `lower`-duplicates, and `ByName(n)` is
the list of addresses added with a name that lower-cases like `n`, in first-seen order
without duplicates. -/
theorem storage_refines (lower : Bytes → Bytes) (rs : List Record) (s : Storage)
    (h : adds lower Storage.empty rs = .ok s) :
    (∀ a, byAddr s a = firstSeenBy lower (namesFor rs a)) ∧
    (∀ n, byName lower s n = firstSeenBy id (addrsFor lower rs n)) := by
  obtain ⟨s', h', hn, ha⟩ := adds_spec lower rs Storage.empty
  rw [h] at h'
  injection h' with h'
  subst h'
  constructor
  · intro a
    rw [byAddr_eq, hn a, foldl_stepN, foldl_add_eq]
    simp [namesAt, Storage.empty, Map.get, OSet.empty, firstSeenBy, namesFor]
  · intro n
    rw [byName_eq, ha (lower n), foldl_stepA, foldl_add_eq]
    simp [addrsAt, Storage.empty, Map.get, OSet.empty, firstSeenBy, addrsFor]

/-- **The two indexes agree.**  `a` is listed under `ByName(n)` iff some name listed under
`ByAddr(a)` lower-cases like `n`. -/
theorem indexes_agree (lower : Bytes → Bytes) (rs : List Record) (s : Storage)
    (h : adds lower Storage.empty rs = .ok s) (a : Addr) (n : Bytes) :
    a ∈ byName lower s n ↔ ∃ m ∈ byAddr s a, lower m = lower n := by
  obtain ⟨h1, h2⟩ := storage_refines lower rs s h
  rw [h1 a, h2 n, mem_firstSeenBy_id]
  unfold addrsFor namesFor
  constructor
  · intro hm
    rw [List.mem_map] at hm
    obtain ⟨p, hp, rfl⟩ := hm
    rw [List.mem_filter] at hp
    have hmem : p.2 ∈ ((pairs rs).filter fun q => q.1 = p.1).map (·.2) := by
      rw [List.mem_map]; exact ⟨p, by simp [List.mem_filter, hp.1], rfl⟩
    obtain ⟨y, hy, hk⟩ := firstSeenAux_cover lower _ [] p.2 hmem (by simp)
    exact ⟨y, hy, by rw [hk]; simpa using hp.2⟩
  · rintro ⟨m, hm, hk⟩
    have := (firstSeenAux_sub lower _ [] m hm).1
    rw [List.mem_map] at this
    obtain ⟨p, hp, rfl⟩ := this
    rw [List.mem_filter] at hp
    rw [List.mem_map]
    refine ⟨p, ?_, by simpa using hp.2⟩
    rw [List.mem_filter]
    exact ⟨hp.1, by simpa using hk⟩

/-- **No duplicates.**  `ByAddr(a)` never holds two names with the same lower-cased form,
`ByName(n)` never holds an address twice. -/
theorem no_dups (lower : Bytes → Bytes) (rs : List Record) (s : Storage)
    (h : adds lower Storage.empty rs = .ok s) :
    (∀ a, ((byAddr s a).map lower).Nodup) ∧ (∀ n, (byName lower s n).Nodup) := by
  obtain ⟨h1, h2⟩ := storage_refines lower rs s h
  constructor
  · intro a; rw [h1 a]; exact firstSeenAux_nodup lower _ []
  · intro n
    rw [h2 n]
    have := firstSeenAux_nodup id (addrsFor lower rs n) []
    simpa [firstSeenBy] using this

/-- **A record without names changes nothing**: `Add` returns the storage it was given, so
every observation — `ByAddr`, `ByName`, both `Range` functions, `Equal` in both directions
against any other storage (or nil) — is the same before and after. -/
theorem nameless_noop (lower : Bytes → Bytes) (s : Storage) (r : Record) (h : r.names = []) :
    ∃ s', add lower s r = .ok s' ∧ observe lower s' = observe lower s := by
  refine ⟨s, ?_, rfl⟩
  simp [add, h, pure, Except.pure]

/-! ### `RangeNames`, `RangeAddrs` -/

/-- **What `RangeNames` visits** (callback always continuing), after any sequence of `Add`s on
a new storage.  No address is visited twice; the pair `(a, names)` is visited iff some added
record with `Addr = a` had at least one name, and then `names` is `ByAddr(a)`; such an
address is visited exactly once; no visited slice is empty.  Nothing is said about the order
(Go leaves it unspecified; `rangeNames_perm` gives the multiset in closed form). -/
theorem rangeNames_spec (lower : Bytes → Bytes) (rs : List Record) (s : Storage)
    (h : adds lower Storage.empty rs = .ok s) :
    ((rangeNames s).map (·.1)).Nodup ∧
    (∀ a ns, (a, ns) ∈ rangeNames s ↔ (∃ r ∈ rs, r.addr = a ∧ r.names ≠ []) ∧ ns = byAddr s a) ∧
    (∀ a, (∃ r ∈ rs, r.addr = a ∧ r.names ≠ []) → (rangeNames s).count (a, byAddr s a) = 1) ∧
    (∀ e ∈ rangeNames s, e.2 ≠ []) := by
  obtain ⟨hn, _, hk, _⟩ := reach_keys h
  have hnd : ((rangeNames s).map (·.1)).Nodup := by rw [rangeNames_keys]; exact hn
  have hmem : ∀ a ns, (a, ns) ∈ rangeNames s ↔
      (∃ r ∈ rs, r.addr = a ∧ r.names ≠ []) ∧ ns = byAddr s a := by
    intro a ns; rw [mem_rangeNames hn, hk]
  refine ⟨hnd, hmem, ?_, ?_⟩
  · intro a ha
    rw [(nodup_of_nodup_fst hnd).count, if_pos ((hmem a _).2 ⟨ha, rfl⟩)]
  · rintro ⟨a, ns⟩ he
    obtain ⟨ha, rfl⟩ := (mem_rangeNames hn a ns).1 he
    exact (mem_keys_names_iff h a).1 ha

/-- the same as a multiset, in closed form: the addresses of the added `(address, name)`
pairs, each once, each with the first-seen-order de-duplication of its names -/
theorem rangeNames_perm (lower : Bytes → Bytes) (rs : List Record) (s : Storage)
    (h : adds lower Storage.empty rs = .ok s) :
    (rangeNames s).Perm
      ((firstSeenBy id ((pairs rs).map (·.1))).map fun a => (a, firstSeenBy lower (namesFor rs a))) := by
  obtain ⟨hnd, hmem, _, _⟩ := rangeNames_spec lower rs s h
  have hnd2 : (((firstSeenBy id ((pairs rs).map (·.1))).map
      fun a => (a, firstSeenBy lower (namesFor rs a))).map (·.1)).Nodup := by
    rw [List.map_map]
    have := firstSeenAux_nodup id ((pairs rs).map (·.1)) []
    simpa [firstSeenBy, Function.comp_def] using this
  rw [List.perm_ext_iff_of_nodup (nodup_of_nodup_fst hnd) (nodup_of_nodup_fst hnd2)]
  rintro ⟨a, ns⟩
  rw [hmem, List.mem_map, byAddr_of_adds h, ← namesFor_ne_nil]
  constructor
  · rintro ⟨hne, rfl⟩
    refine ⟨a, ?_, rfl⟩
    rw [mem_firstSeenBy_id, List.mem_map]
    obtain ⟨r, hr, ha, hnn⟩ := namesFor_ne_nil.1 hne
    obtain ⟨n, hn⟩ := List.exists_mem_of_ne_nil _ hnn
    exact ⟨(a, n), mem_pairs.2 ⟨r, hr, ha, hn⟩, rfl⟩
  · rintro ⟨a', ha', heq⟩
    simp only [Prod.mk.injEq] at heq
    obtain ⟨rfl, rfl⟩ := heq
    refine ⟨?_, rfl⟩
    rw [mem_firstSeenBy_id, List.mem_map] at ha'
    obtain ⟨p, hp, rfl⟩ := ha'
    obtain ⟨r, hr, ha, hn⟩ := mem_pairs.1 hp
    exact namesFor_ne_nil.2 ⟨r, hr, ha, List.ne_nil_of_mem hn⟩

/-- **What `RangeAddrs` visits.**  No host is visited twice; the pair `(host, addrs)` is
visited iff `host` is the lower-cased form of some name `n` of some added record, and then
`addrs` is `ByName(n)`; the lower-cased form of every added name is visited exactly once; no
visited slice is empty. -/
theorem rangeAddrs_spec (lower : Bytes → Bytes) (rs : List Record) (s : Storage)
    (h : adds lower Storage.empty rs = .ok s) :
    ((rangeAddrs s).map (·.1)).Nodup ∧
    (∀ k as, (k, as) ∈ rangeAddrs s ↔
      ∃ r ∈ rs, ∃ n ∈ r.names, k = lower n ∧ as = byName lower s n) ∧
    (∀ r ∈ rs, ∀ n ∈ r.names, (rangeAddrs s).count (lower n, byName lower s n) = 1) ∧
    (∀ e ∈ rangeAddrs s, e.2 ≠ []) := by
  obtain ⟨_, hn, _, hk⟩ := reach_keys h
  have hnd : ((rangeAddrs s).map (·.1)).Nodup := by rw [rangeAddrs_keys]; exact hn
  have hmem : ∀ k as, (k, as) ∈ rangeAddrs s ↔
      ∃ r ∈ rs, ∃ n ∈ r.names, k = lower n ∧ as = byName lower s n := by
    intro k as
    rw [mem_rangeAddrs hn, hk]
    constructor
    · rintro ⟨⟨r, hr, n, hnm, rfl⟩, rfl⟩
      exact ⟨r, hr, n, hnm, rfl, (byName_eq lower s n).symm⟩
    · rintro ⟨r, hr, n, hnm, rfl, rfl⟩
      exact ⟨⟨r, hr, n, hnm, rfl⟩, byName_eq lower s n⟩
  refine ⟨hnd, hmem, ?_, ?_⟩
  · intro r hr n hnm
    rw [(nodup_of_nodup_fst hnd).count, if_pos ((hmem _ _).2 ⟨r, hr, n, hnm, rfl, rfl⟩)]
  · rintro ⟨k, as⟩ he
    obtain ⟨r, hr, n, hnm, rfl, rfl⟩ := (hmem k as).1 he
    simp only [byName_eq, addrsAt_of_adds h, ne_eq, firstSeenBy_eq_nil, List.map_eq_nil_iff,
      List.filter_eq_nil_iff]
    intro hall
    have := hall (r.addr, n) (mem_pairs.2 ⟨r, hr, rfl, hnm⟩)
    simp at this

/-- **A callback returning false stops `RangeNames`.**  `ord` is the order in which the Go
runtime happens to iterate `s.names` (any permutation of the map's entries), `f` the callback
with whatever state `σ` it closes over, `rangeLoop` the loop
`for addr, names := range s.names { if !f(addr, names.vals) { return } }`.  The pairs the
callback is called with are a prefix of `ord`; every call but the last answered true; if the
loop did not reach the end of the map the last call answered false (so nothing is called
after a false); if no call answered false the whole map was visited.  And whatever prefix is
visited, no address occurs in it twice and every visited pair is `(a, ByAddr(a))`. -/
theorem range_early_stop {σ : Type} (lower : Bytes → Bytes) (rs : List Record) (s : Storage)
    (h : adds lower Storage.empty rs = .ok s)
    (f : σ → Addr × List Bytes → Bool × σ) (st : σ)
    (ord : List (Addr × List Bytes)) (hord : ord.Perm (rangeNames s)) :
    let log := (rangeLoop f st ord).1
    log.map (·.1) <+: ord ∧
    (∀ e ∈ log.dropLast, e.2 = true) ∧
    (log.map (·.1) ≠ ord → ∃ e, log.getLast? = some e ∧ e.2 = false) ∧
    ((∀ e ∈ log, e.2 = true) → log.map (·.1) = ord) ∧
    ((log.map (·.1)).map (·.1)).Nodup ∧
    (∀ e ∈ log, e.1.2 = byAddr s e.1.1 ∧ ∃ r ∈ rs, r.addr = e.1.1 ∧ r.names ≠ []) := by
  intro log
  obtain ⟨p1, p2, p3, p4⟩ := rangeLoop_spec f ord st
  obtain ⟨hnd, hmem, _, _⟩ := rangeNames_spec lower rs s h
  refine ⟨p1, p2, p3, p4, ?_, ?_⟩
  · have : (ord.map (·.1)).Nodup := ((hord.map (·.1)).nodup_iff).2 hnd
    exact (p1.sublist.map (·.1)).nodup this
  · intro e he
    have : e.1 ∈ ord := p1.subset (List.mem_map.2 ⟨e, he, rfl⟩)
    have := (hmem e.1.1 e.1.2).1 (hord.mem_iff.1 this)
    exact ⟨this.2, this.1⟩

/-- the same for `RangeAddrs` -/
theorem rangeAddrs_early_stop {σ : Type} (lower : Bytes → Bytes) (rs : List Record) (s : Storage)
    (h : adds lower Storage.empty rs = .ok s)
    (f : σ → Bytes × List Addr → Bool × σ) (st : σ)
    (ord : List (Bytes × List Addr)) (hord : ord.Perm (rangeAddrs s)) :
    let log := (rangeLoop f st ord).1
    log.map (·.1) <+: ord ∧
    (∀ e ∈ log.dropLast, e.2 = true) ∧
    (log.map (·.1) ≠ ord → ∃ e, log.getLast? = some e ∧ e.2 = false) ∧
    ((∀ e ∈ log, e.2 = true) → log.map (·.1) = ord) ∧
    ((log.map (·.1)).map (·.1)).Nodup ∧
    (∀ e ∈ log, ∃ r ∈ rs, ∃ n ∈ r.names, e.1.1 = lower n ∧ e.1.2 = byName lower s n) := by
  intro log
  obtain ⟨p1, p2, p3, p4⟩ := rangeLoop_spec f ord st
  obtain ⟨hnd, hmem, _, _⟩ := rangeAddrs_spec lower rs s h
  refine ⟨p1, p2, p3, p4, ?_, ?_⟩
  · have : (ord.map (·.1)).Nodup := ((hord.map (·.1)).nodup_iff).2 hnd
    exact (p1.sublist.map (·.1)).nodup this
  · intro e he
    have : e.1 ∈ ord := p1.subset (List.mem_map.2 ⟨e, he, rfl⟩)
    exact (hmem e.1.1 e.1.2).1 (hord.mem_iff.1 this)

/-- a callback that never returns false is called on every entry (this is the `rangeNames` /
`rangeAddrs` of the model, for any iteration order) -/
theorem range_no_stop {α σ : Type} (g : σ → α → σ) (st : σ) (ord : List α) :
    (rangeLoop (fun st x => (true, g st x)) st ord).1.map (·.1) = ord := rangeLoop_all g ord st

/-! ### `Equal` -/

/-- nil receivers and arguments: nil equals nil and nothing else — in particular an empty
storage and a nil one are not equal, either way round (as documented) -/
theorem equal_nil :
    equal none none = true ∧
    (∀ s, equal none (some s) = false ∧ equal (some s) none = false) ∧
    equal (some Storage.empty) none = false ∧ equal none (some Storage.empty) = false :=
  ⟨rfl, fun _ => ⟨rfl, rfl⟩, rfl, rfl⟩

/-- **What `Equal` compares**, for any two non-nil storages (reachable or not): `len(names)`,
`len(addrs)`, and for every entry of the receiver's `names` map the presence of the key in
the other `names` map with an equal names slice.  The `addrs` map is consulted for its length
only. -/
theorem equal_decides (s o : Storage) :
    equal (some s) (some o) = true ↔
      s.names.length = o.names.length ∧ s.addrs.length = o.addrs.length ∧
      ∀ e ∈ s.names, ∃ on, o.names.get e.1 = some on ∧ e.2.vals = on.vals :=
  equal_some_iff s o

/-- **What `Equal` decides** for two storages each reached by `Add`s from a new one (with the
same `strings.ToLower`): exactly "the `ByAddr` answers are the same for every address".
The two length comparisons are implied by it (see `equal_iff`). -/
theorem equal_iff_byAddr (lower : Bytes → Bytes) (rs₁ rs₂ : List Record) (s t : Storage)
    (hs : adds lower Storage.empty rs₁ = .ok s) (ht : adds lower Storage.empty rs₂ = .ok t) :
    equal (some s) (some t) = true ↔ ∀ a, byAddr s a = byAddr t a := by
  obtain ⟨sn, sa, _, _⟩ := reach_keys hs
  obtain ⟨tn, ta, _, _⟩ := reach_keys ht
  constructor
  · intro h; exact (equal_byAddr sn h).2
  · intro hb
    have hkn : ∀ a, a ∈ keys s.names ↔ a ∈ keys t.names := by
      intro a; rw [mem_keys_names_iff hs, mem_keys_names_iff ht, hb]
    have hka : ∀ k, k ∈ keys s.addrs ↔ k ∈ keys t.addrs := by
      intro k; rw [mem_keys_addrs_iff hs, mem_keys_addrs_iff ht]; simp only [hb]
    rw [equal_some_iff]
    refine ⟨?_, ?_, ?_⟩
    · rw [← keys_length, ← keys_length]; exact length_eq_of_nodup_same sn tn hkn
    · rw [← keys_length, ← keys_length]; exact length_eq_of_nodup_same sa ta hka
    · rintro ⟨a, os⟩ he
      have hg := get_of_mem sn he
      obtain ⟨on, hg'⟩ := get_of_mem_keys ((hkn a).1 (mem_keys_of_get hg))
      refine ⟨on, hg', ?_⟩
      have := hb a
      simpa [byAddr, hg, hg'] using this

/-- the three-part reading: `Equal` holds iff the `ByAddr` answers agree, the same addresses
were added with names, and the numbers of distinct lowered names agree — the last two parts
being consequences of the first for storages built by `Add`s. -/
theorem equal_iff (lower : Bytes → Bytes) (rs₁ rs₂ : List Record) (s t : Storage)
    (hs : adds lower Storage.empty rs₁ = .ok s) (ht : adds lower Storage.empty rs₂ = .ok t) :
    (equal (some s) (some t) = true ↔
      (∀ a, byAddr s a = byAddr t a) ∧
      (∀ a, (∃ r ∈ rs₁, r.addr = a ∧ r.names ≠ []) ↔ (∃ r ∈ rs₂, r.addr = a ∧ r.names ≠ [])) ∧
      (rangeAddrs s).length = (rangeAddrs t).length) ∧
    ((∀ a, byAddr s a = byAddr t a) →
      (∀ a, (∃ r ∈ rs₁, r.addr = a ∧ r.names ≠ []) ↔ (∃ r ∈ rs₂, r.addr = a ∧ r.names ≠ [])) ∧
      (rangeAddrs s).length = (rangeAddrs t).length) := by
  have himp : (∀ a, byAddr s a = byAddr t a) →
      (∀ a, (∃ r ∈ rs₁, r.addr = a ∧ r.names ≠ []) ↔ (∃ r ∈ rs₂, r.addr = a ∧ r.names ≠ [])) ∧
      (rangeAddrs s).length = (rangeAddrs t).length := by
    intro hb
    obtain ⟨_, sa, sk, _⟩ := reach_keys hs
    obtain ⟨_, ta, tk, _⟩ := reach_keys ht
    constructor
    · intro a
      rw [← sk, ← tk, mem_keys_names_iff hs, mem_keys_names_iff ht, hb]
    · have hka : ∀ k, k ∈ keys s.addrs ↔ k ∈ keys t.addrs := by
        intro k; rw [mem_keys_addrs_iff hs, mem_keys_addrs_iff ht]; simp only [hb]
      have := length_eq_of_nodup_same sa ta hka
      simpa [rangeAddrs, keys] using this
  refine ⟨?_, himp⟩
  rw [equal_iff_byAddr lower rs₁ rs₂ s t hs ht]
  exact ⟨fun hb => ⟨hb, himp hb⟩, fun h => h.1⟩

/-- on storages built by `Add`s, `Equal` is reflexive, symmetric and transitive -/
theorem equal_equiv (lower : Bytes → Bytes) (rs₁ rs₂ rs₃ : List Record) (s t u : Storage)
    (hs : adds lower Storage.empty rs₁ = .ok s) (ht : adds lower Storage.empty rs₂ = .ok t)
    (hu : adds lower Storage.empty rs₃ = .ok u) :
    equal (some s) (some s) = true ∧
    (equal (some s) (some t) = true → equal (some t) (some s) = true) ∧
    (equal (some s) (some t) = true → equal (some t) (some u) = true →
      equal (some s) (some u) = true) := by
  rw [equal_iff_byAddr lower _ _ _ _ hs hs, equal_iff_byAddr lower _ _ _ _ hs ht,
    equal_iff_byAddr lower _ _ _ _ ht hs, equal_iff_byAddr lower _ _ _ _ ht hu,
    equal_iff_byAddr lower _ _ _ _ hs hu]
  exact ⟨fun _ => rfl, fun h a => (h a).symm, fun h1 h2 a => (h1 a).trans (h2 a)⟩

/-- **`Equal` and `ByName`.**  Two `Equal` storages built by `Add`s give, for every host, the
same addresses — as a set: `ByName` answers are permutations of each other, and `RangeAddrs`
visits the same hosts. -/
theorem equal_byName_perm (lower : Bytes → Bytes) (rs₁ rs₂ : List Record) (s t : Storage)
    (hs : adds lower Storage.empty rs₁ = .ok s) (ht : adds lower Storage.empty rs₂ = .ok t)
    (h : equal (some s) (some t) = true) :
    (∀ n, (byName lower s n).Perm (byName lower t n)) ∧
    (∀ k, k ∈ (rangeAddrs s).map (·.1) ↔ k ∈ (rangeAddrs t).map (·.1)) := by
  have hb := (equal_iff_byAddr lower rs₁ rs₂ s t hs ht).1 h
  constructor
  · intro n
    rw [List.perm_ext_iff_of_nodup ((no_dups lower rs₁ s hs).2 n) ((no_dups lower rs₂ t ht).2 n)]
    intro a
    rw [indexes_agree lower rs₁ s hs, indexes_agree lower rs₂ t ht, hb]
  · intro k
    rw [rangeAddrs_keys, rangeAddrs_keys, mem_keys_addrs_iff hs, mem_keys_addrs_iff ht]
    simp only [hb]

/-- two `Add` histories of the same two records in opposite orders -/
def recX1 : Record := { addr := .v4 [1, 1, 1, 1], source := [], names := [[120]] }
def recX2 : Record := { addr := .v4 [2, 2, 2, 2], source := [], names := [[120]] }
def stX12 : Storage :=
  { names := [(.v4 [1, 1, 1, 1], ⟨[[120]], [[120]]⟩), (.v4 [2, 2, 2, 2], ⟨[[120]], [[120]]⟩)],
    addrs := [([120], ⟨[.v4 [1, 1, 1, 1], .v4 [2, 2, 2, 2]], [.v4 [1, 1, 1, 1], .v4 [2, 2, 2, 2]]⟩)] }
def stX21 : Storage :=
  { names := [(.v4 [2, 2, 2, 2], ⟨[[120]], [[120]]⟩), (.v4 [1, 1, 1, 1], ⟨[[120]], [[120]]⟩)],
    addrs := [([120], ⟨[.v4 [2, 2, 2, 2], .v4 [1, 1, 1, 1]], [.v4 [2, 2, 2, 2], .v4 [1, 1, 1, 1]]⟩)] }

/-- **`Equal` does not imply equal `ByName` answers** (nor equal `RangeAddrs` pairs).
`1.1.1.1 x` then `2.2.2.2 x`, against the same two records in the other order: the `names`
indexes and both counts agree, so `Equal` is true in both directions, but `ByName("x")` is
`[1.1.1.1, 2.2.2.2]` for the one and `[2.2.2.2, 1.1.1.1]` for the other.  (The `addrs` index
is determined by the `names` index and the counts only up to the order inside each slice.) -/
theorem equal_not_byName :
    adds Str.asciiLower Storage.empty [recX1, recX2] = .ok stX12 ∧
    adds Str.asciiLower Storage.empty [recX2, recX1] = .ok stX21 ∧
    equal (some stX12) (some stX21) = true ∧ equal (some stX21) (some stX12) = true ∧
    byName Str.asciiLower stX12 [120] = [.v4 [1, 1, 1, 1], .v4 [2, 2, 2, 2]] ∧
    byName Str.asciiLower stX21 [120] = [.v4 [2, 2, 2, 2], .v4 [1, 1, 1, 1]] ∧
    byName Str.asciiLower stX12 [120] ≠ byName Str.asciiLower stX21 [120] ∧
    (∀ e ∈ rangeAddrs stX12, e ∉ rangeAddrs stX21) := by
  refine ⟨rfl, rfl, by decide, by decide, by decide, by decide, by decide, by decide⟩

/-! ### Non-vacuity, and the defect of the unchanged tree -/

def rec1 : Record := { addr := .v4 [1, 2, 3, 4], source := [], names := [[65], [97], [98]] }
def rec2 : Record := { addr := .v4 [1, 2, 3, 5], source := [], names := [[97]] }
def nameless : Record := { addr := .v4 [9, 9, 9, 9], source := [], names := [] }

/-- `"A"`, `"a"`, `"b"` added with 1.2.3.4 (ASCII lower-casing): `"a"` is a duplicate of `"A"` -/
example : firstSeenBy Str.asciiLower (namesFor [rec1, nameless, rec2] (.v4 [1, 2, 3, 4])) = [[65], [98]] := by decide
example : firstSeenBy id (addrsFor Str.asciiLower [rec1, nameless, rec2] [65]) = [.v4 [1, 2, 3, 4], .v4 [1, 2, 3, 5]] := by
  decide

/-- On the unchanged tree (`addUnfixed`: no early return) a nameless record is observable:
`RangeNames` yields `(9.9.9.9, nil)` and the storage stops being `Equal` to a new one. -/
def unfixedObservable : Bool :=
  match addUnfixed Str.asciiLower Storage.empty nameless with
  | .ok s' => decide (rangeNames s' = [(.v4 [9, 9, 9, 9], [])]) && !equal (some s') (some Storage.empty)
  | .error _ => false

example : unfixedObservable = true := by decide

/-- a two-line file with CRLF and a missing final newline -/
example : scanLines (ascii "1.2.3.4 a\r\n# c\n::1 b") = [ascii "1.2.3.4 a", ascii "# c", ascii "::1 b"] := by decide

end GolibsVerif.C08
