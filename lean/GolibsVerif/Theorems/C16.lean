/-
C16 — property theorems for `RedactUserinfo` / `RedactUserinfoInURLError`
(model in `Model/C16.lean`).  Only property theorems and non-vacuity examples live here.

Every theorem quantifies over every `render` (= `(*url.URL).String`), every heap, every
pointer and every URL value; none looks at the value of the mask.
-/
import GolibsVerif.Lemmas.C16

namespace GolibsVerif.C16

/-! ### `RedactUserinfo` -/

/-- `RedactUserinfo` does not panic on a non-nil pointer, and what it returns points to
`redactVal` of the input value. -/
theorem redact_refines (h : Heap) (p : Ptr) (u : URL) (hp : h.get p = .ok u) :
    ∃ h' q, redact h p = .ok (h', q) ∧ h'.get q = .ok (redactVal u) := by
  unfold redact redactVal
  rw [hp]
  cases hu : u.user with
  | none =>
    refine ⟨h, p, ?_, ?_⟩
    · simp [hu, bind, Except.bind, pure, Except.pure]
    · simpa [hu] using hp
  | some ui =>
    refine ⟨(h.alloc { u with user := some redactedUserinfo }).1,
            (h.alloc { u with user := some redactedUserinfo }).2, ?_, ?_⟩
    · simp [hu, bind, Except.bind, pure, Except.pure]
    · simp [Heap.alloc, Heap.get]

/-- Two-run non-interference: two URLs that differ only in their (non-nil) userinfo are
redacted to the same value, hence to the same `String()` for every `String` function. -/
theorem redact_noninterference (render : Option Userinfo → Rest → Bytes) (u₁ u₂ : URL)
    (hrest : u₁.rest = u₂.rest) (h₁ : u₁.user ≠ none) (h₂ : u₂.user ≠ none) :
    redactVal u₁ = redactVal u₂ ∧
    render (redactVal u₁).user (redactVal u₁).rest = render (redactVal u₂).user (redactVal u₂).rest := by
  have : redactVal u₁ = redactVal u₂ := by
    unfold redactVal
    cases hu₁ : u₁.user with
    | none => exact absurd hu₁ h₁
    | some a =>
      cases hu₂ : u₂.user with
      | none => exact absurd hu₂ h₂
      | some b => simp [hrest]
  exact ⟨this, by rw [this]⟩

/-- The same on the pointer-level model: any two calls (in any two heaps) on URLs that
differ only in their non-nil userinfo return pointers to equal values. -/
theorem redact_noninterference_heap (render : Option Userinfo → Rest → Bytes)
    (h₁ h₂ h₁' h₂' : Heap) (p₁ p₂ q₁ q₂ : Ptr) (u₁ u₂ : URL)
    (hp₁ : h₁.get p₁ = .ok u₁) (hp₂ : h₂.get p₂ = .ok u₂)
    (hrest : u₁.rest = u₂.rest) (hu₁ : u₁.user ≠ none) (hu₂ : u₂.user ≠ none)
    (hr₁ : redact h₁ p₁ = .ok (h₁', q₁)) (hr₂ : redact h₂ p₂ = .ok (h₂', q₂)) :
    ∃ r₁ r₂, h₁'.get q₁ = .ok r₁ ∧ h₂'.get q₂ = .ok r₂ ∧ r₁ = r₂ ∧
      render r₁.user r₁.rest = render r₂.user r₂.rest := by
  obtain ⟨a, b, hab, hget₁⟩ := redact_refines h₁ p₁ u₁ hp₁
  obtain ⟨c, d, hcd, hget₂⟩ := redact_refines h₂ p₂ u₂ hp₂
  rw [hr₁] at hab
  rw [hr₂] at hcd
  cases hab
  cases hcd
  have hni := redact_noninterference render u₁ u₂ hrest hu₁ hu₂
  exact ⟨_, _, hget₁, hget₂, hni.1, hni.2⟩

/-- The redacted rendering is a function of the non-userinfo components alone. -/
theorem redact_depends_only_on_rest (render : Option Userinfo → Rest → Bytes) :
    ∃ f : Rest → Bytes, ∀ u : URL, u.user ≠ none →
      render (redactVal u).user (redactVal u).rest = f u.rest := by
  refine ⟨fun r => render (some redactedUserinfo) r, ?_⟩
  intro u hu
  unfold redactVal
  cases h : u.user with
  | none => exact absurd h hu
  | some a => simp

/-- Frame: the result's userinfo is the mask and every other component equals the input's;
a URL without userinfo is returned as is (same pointer, heap untouched); with userinfo the
returned pointer is a new one; no existing URL (in particular the input) is modified. -/
theorem redact_frame (h h' : Heap) (p q : Ptr) (u : URL)
    (hp : h.get p = .ok u) (hr : redact h p = .ok (h', q)) :
    ∃ r, h'.get q = .ok r ∧
      r.rest = u.rest ∧
      (u.user = none → q = p ∧ h' = h ∧ r = u) ∧
      (u.user ≠ none → r.user = some redactedUserinfo ∧ q ≠ p ∧ (∀ v, h.get q ≠ .ok v)) ∧
      h.Preserves h' ∧ h'.get p = .ok u := by
  unfold redact at hr
  rw [hp] at hr
  cases hu : u.user with
  | none =>
    simp [hu, bind, Except.bind, pure, Except.pure] at hr
    obtain ⟨rfl, rfl⟩ := hr
    exact ⟨u, hp, rfl, fun _ => ⟨rfl, rfl, rfl⟩, fun hne => absurd rfl hne,
      fun _ _ hv => hv, hp⟩
  | some ui =>
    simp [hu, bind, Except.bind, pure, Except.pure] at hr
    obtain ⟨rfl, rfl⟩ := hr
    refine ⟨{ u with user := some redactedUserinfo }, ?_, rfl, ?_, ?_, alloc_preserves h _,
      alloc_preserves h _ p u hp⟩
    · simp [Heap.get]
    · intro hn; simp at hn
    · intro _
      refine ⟨rfl, ?_, ?_⟩
      · intro heq
        rw [← heq] at hp
        simp [Heap.get] at hp
      · intro v hv
        simp [Heap.get] at hv

/-- **redact_fresh.**  For a URL with userinfo the returned pointer is fresh: it is the next
address of the allocator, it is none of the pointers allocated before the call (in particular
not the input and not the result of an earlier call), and it is allocated afterwards. -/
theorem redact_fresh (h h' : Heap) (p q : Ptr) (u : URL)
    (hp : h.get p = .ok u) (hu : u.user ≠ none) (hr : redact h p = .ok (h', q)) :
    q = some h.cells.length ∧ ¬ h.Allocated q ∧ (∀ p', h.Allocated p' → q ≠ p') ∧
    h'.Allocated q ∧ h'.cells.length = h.cells.length + 1 := by
  cases hus : u.user with
  | none => exact absurd hus hu
  | some ui =>
    rw [redact_some h p u ui hp hus] at hr
    simp only [Heap.alloc, Except.ok.injEq, Prod.mk.injEq] at hr
    obtain ⟨rfl, rfl⟩ := hr
    have hna : ¬ h.Allocated (some h.cells.length) := by
      rw [allocated_iff]
      rintro ⟨a, ha, hlt⟩
      cases ha
      exact Nat.lt_irrefl _ hlt
    refine ⟨rfl, hna, ?_, ?_, by simp⟩
    · intro p' hp' heq
      exact hna (heq ▸ hp')
    · rw [allocated_iff]
      exact ⟨_, rfl, by simp⟩

/-- **redact_again.**  The result belongs to the caller.  Redact a URL with userinfo; then
let the callers do anything to the heap — any stores through the returned pointer or any
other pointer but the input, any new URLs; then redact the same input again.  The second
call does not panic, its result is a pointer that was not allocated before it (so it is
neither the first result nor anything the callers hold), it points to the very value the
first result pointed to when it was returned — hence the same `String()`, for every
`String` function — and the input is as it was after each of the three steps. -/
theorem redact_again (render : Option Userinfo → Rest → Bytes) (h h₁ h₂ : Heap) (p q₁ : Ptr)
    (u : URL) (ms : List Mut)
    (hp : h.get p = .ok u) (hu : u.user ≠ none) (hr₁ : redact h p = .ok (h₁, q₁))
    (hno : NoStoreTo p ms) (hm : h₁.apply ms = .ok h₂) :
    ∃ h₃ q₂ r, redact h₂ p = .ok (h₃, q₂) ∧
      h₁.get q₁ = .ok r ∧ h₃.get q₂ = .ok r ∧
      render r.user r.rest = render (some redactedUserinfo) u.rest ∧
      q₂ ≠ q₁ ∧ q₂ ≠ p ∧ ¬ h₂.Allocated q₂ ∧
      h₁.get p = .ok u ∧ h₂.get p = .ok u ∧ h₃.get p = .ok u := by
  cases hus : u.user with
  | none => exact absurd hus hu
  | some ui =>
    obtain ⟨hq₁, -, -, -, hlen₁⟩ := redact_fresh h h₁ p q₁ u hp hu hr₁
    rw [redact_some h p u ui hp hus] at hr₁
    simp only [Except.ok.injEq] at hr₁
    have hh₁ : h₁ = (h.alloc { u with user := some redactedUserinfo }).1 := by rw [hr₁]
    have hq₁' : (h.alloc { u with user := some redactedUserinfo }).2 = q₁ := by rw [hr₁]
    subst hh₁
    have hp₁ : (h.alloc { u with user := some redactedUserinfo }).1.get p = .ok u :=
      alloc_preserves h _ p u hp
    obtain ⟨hp₂, hle⟩ := apply_get_other _ h₂ ms p u hm hno hp₁
    have hr₂ := redact_some h₂ p u ui hp₂ hus
    obtain ⟨hq₂, hna₂, hfresh₂, -, -⟩ :=
      redact_fresh h₂ _ p _ u hp₂ hu hr₂
    refine ⟨_, _, { u with user := some redactedUserinfo }, hr₂, ?_, alloc_get h₂ _, rfl, ?_, ?_,
      hna₂, hp₁, hp₂, alloc_preserves h₂ _ p u hp₂⟩
    · rw [← hq₁']; exact alloc_get h _
    · rw [hq₂, hq₁]
      intro heq
      simp only [Option.some.injEq] at heq
      omega
    · exact hfresh₂ p ⟨u, hp₂⟩

/-- `redact_again` for the case the harness exercises: every field of the first result is
overwritten, any number of times (`ws` are the values the object goes through). -/
theorem redact_again_after_writes (render : Option Userinfo → Rest → Bytes) (h h₁ : Heap)
    (p q₁ : Ptr) (u : URL) (ws : List URL)
    (hp : h.get p = .ok u) (hu : u.user ≠ none) (hr₁ : redact h p = .ok (h₁, q₁)) :
    ∃ h₂ h₃ q₂ r, h₁.apply (ws.map (Mut.store q₁)) = .ok h₂ ∧ redact h₂ p = .ok (h₃, q₂) ∧
      h₁.get q₁ = .ok r ∧ h₃.get q₂ = .ok r ∧ q₂ ≠ q₁ ∧
      h₂.get q₁ = .ok (ws.getLast?.getD r) ∧ h₃.get q₁ = .ok (ws.getLast?.getD r) ∧
      h₃.get p = .ok u := by
  obtain ⟨hq₁, -, hne, ⟨r, hr⟩, hlen⟩ := redact_fresh h h₁ p q₁ u hp hu hr₁
  -- the stores through `q₁` all succeed and leave the last value there
  have hstores : ∀ (ws : List URL) (g : Heap) (v : URL), g.get q₁ = .ok v →
      ∃ g', g.apply (ws.map (Mut.store q₁)) = .ok g' ∧ g'.get q₁ = .ok (ws.getLast?.getD v) := by
    intro ws
    induction ws with
    | nil => intro g v hv; exact ⟨g, rfl, by simpa using hv⟩
    | cons w rest ih =>
      intro g v hv
      have hlt : h.cells.length < g.cells.length := by
        have := (allocated_iff g q₁).1 ⟨v, hv⟩
        obtain ⟨a, ha, hlt⟩ := this
        rw [hq₁] at ha; cases ha; exact hlt
      have hs : g.set q₁ w = .ok { cells := g.cells.set h.cells.length w } := by
        rw [hq₁]; simp [Heap.set, hlt]
      have hg : ({ cells := g.cells.set h.cells.length w } : Heap).get q₁ = .ok w := by
        rw [hq₁]; simp [Heap.get, hlt]
      obtain ⟨g', hg', hv'⟩ := ih _ w hg
      refine ⟨g', ?_, ?_⟩
      · simp only [List.map_cons, Heap.apply, hs]; exact hg'
      · rw [hv']
        cases rest with
        | nil => simp
        | cons x xs =>
          cases hl : (x :: xs).getLast? with
          | none => simp at hl
          | some y => simp [List.getLast?_cons_cons, hl]
  obtain ⟨h₂, hm, hv₂⟩ := hstores ws h₁ r hr
  have hno : NoStoreTo p (ws.map (Mut.store q₁)) := by
    intro q v hmem
    simp only [List.mem_map] at hmem
    obtain ⟨w, -, hw⟩ := hmem
    cases hw
    exact hne p ⟨u, hp⟩
  obtain ⟨h₃, q₂, r', hr₂, hr', hget₂, -, hne₂, -, -, -, hp₂, hp₃⟩ :=
    redact_again render h h₁ h₂ p q₁ u _ hp hu hr₁ hno hm
  rw [hr] at hr'
  cases hr'
  obtain ⟨-, -, -, -, -, hpres, -⟩ := redact_frame h₂ h₃ p q₂ u hp₂ hr₂
  exact ⟨h₂, h₃, q₂, r, hm, hr₂, hr, hget₂, hne₂, hv₂, hpres q₁ _ hv₂, hp₃⟩

/-! ### `RedactUserinfoInURLError` -/

/-- A top-level (non-nil) `*url.Error` gets its URL text replaced by `String()` of the
redacted `u` — i.e. the rendering of the mask with `u`'s other components — whatever the
old text was; `Op` and `Err` stay; no existing URL is modified. -/
theorem urlError_redacted (render : Option Userinfo → Rest → Bytes) (h : Heap) (p : Ptr) (u : URL)
    (ue : URLError) (hp : h.get p = .ok u) (hu : u.user ≠ none) :
    ∃ h', redactInURLError render h p (.urlError ue) =
        .ok (h', .urlError { op := ue.op, url := render (redactVal u).user (redactVal u).rest, err := ue.err }) ∧
      render (redactVal u).user (redactVal u).rest = render (some redactedUserinfo) u.rest ∧
      h.Preserves h' ∧ h'.get p = .ok u := by
  cases hus : u.user with
  | none => exact absurd hus hu
  | some ui =>
    refine ⟨(h.alloc { u with user := some redactedUserinfo }).1, ?_, ?_, alloc_preserves h _,
      alloc_preserves h _ p u hp⟩
    · have hr := redact_some h p u ui hp hus
      have hg := alloc_get h { u with user := some redactedUserinfo }
      simp [redactInURLError, redactVal, hp, hus, hr, hg, bind, Except.bind, pure, Except.pure]
    · simp [redactVal, hus]

/-- Two-run form for errors: for URLs that differ only in their non-nil userinfo, the error
texts after the call are identical, whatever the texts were before. -/
theorem urlError_noninterference (render : Option Userinfo → Rest → Bytes)
    (h₁ h₂ h₁' h₂' : Heap) (p₁ p₂ : Ptr) (u₁ u₂ : URL) (e₁ e₂ : URLError) (r₁ r₂ : Err)
    (hp₁ : h₁.get p₁ = .ok u₁) (hp₂ : h₂.get p₂ = .ok u₂)
    (hrest : u₁.rest = u₂.rest) (hu₁ : u₁.user ≠ none) (hu₂ : u₂.user ≠ none)
    (hop : e₁.op = e₂.op) (herr : e₁.err = e₂.err)
    (hr₁ : redactInURLError render h₁ p₁ (.urlError e₁) = .ok (h₁', r₁))
    (hr₂ : redactInURLError render h₂ p₂ (.urlError e₂) = .ok (h₂', r₂)) :
    r₁ = r₂ := by
  obtain ⟨a, ha, -, -, -⟩ := urlError_redacted render h₁ p₁ u₁ e₁ hp₁ hu₁
  obtain ⟨b, hb, -, -, -⟩ := urlError_redacted render h₂ p₂ u₂ e₂ hp₂ hu₂
  rw [hr₁] at ha
  rw [hr₂] at hb
  cases ha
  cases hb
  rw [(redact_noninterference render u₁ u₂ hrest hu₁ hu₂).2, hop, herr]

/-- The Go function never parses or inspects the text it replaces: when `u` has userinfo the
result does not depend on the old `URL` text of the error (it may be unparsable, lack
userinfo, or carry other credentials); when `u` has none the text is kept whatever it
contains (`urlError_without_userinfo_untouched`). -/
theorem urlError_old_text_irrelevant (render : Option Userinfo → Rest → Bytes) (h : Heap) (p : Ptr)
    (u : URL) (op t t' : Bytes) (err : Nat) (hp : h.get p = .ok u) (hu : u.user ≠ none) :
    redactInURLError render h p (.urlError ⟨op, t, err⟩) =
      redactInURLError render h p (.urlError ⟨op, t', err⟩) := by
  cases hus : u.user with
  | none => exact absurd hus hu
  | some ui =>
    have hr := redact_some h p u ui hp hus
    have hg := alloc_get h { u with user := some redactedUserinfo }
    simp [redactInURLError, hp, hus, hr, hg, bind, Except.bind, pure, Except.pure]

/-- When `u` has no userinfo a top-level `*url.Error` is left as it is (its text is not
inspected at all). -/
theorem urlError_without_userinfo_untouched (render : Option Userinfo → Rest → Bytes) (h : Heap)
    (p : Ptr) (u : URL) (ue : URLError) (hp : h.get p = .ok u) (hu : u.user = none) :
    redactInURLError render h p (.urlError ue) = .ok (h, .urlError ue) := by
  simp [redactInURLError, hp, hu, bind, Except.bind, pure, Except.pure]

/-- Every error that is not a top-level `*url.Error` — nil, any wrapper around a
`*url.Error`, any other error — is left untouched, and so is the heap; `u` is not even
dereferenced. -/
theorem other_errors_untouched (render : Option Userinfo → Rest → Bytes) (h : Heap) (p : Ptr)
    (e : Err) (hne : ∀ ue, e ≠ .urlError ue) (hnil : e ≠ .urlErrorNilPtr) :
    redactInURLError render h p e = .ok (h, e) := by
  cases e with
  | nil => rfl
  | urlError ue => exact absurd rfl (hne ue)
  | urlErrorNilPtr => exact absurd rfl hnil
  | wrapped w ue => rfl
  | other c => rfl

/-- Whatever the error, `RedactUserinfoInURLError` modifies no existing URL. -/
theorem urlError_input_unchanged (render : Option Userinfo → Rest → Bytes) (h h' : Heap) (p : Ptr)
    (e e' : Err) (hr : redactInURLError render h p e = .ok (h', e')) : h.Preserves h' := by
  have key : ∀ u, h.get p = .ok u → ∀ ui, u.user = some ui →
      h.Preserves (h.alloc { u with user := some redactedUserinfo }).1 :=
    fun u _ _ _ => alloc_preserves h _
  cases e with
  | nil => simp [redactInURLError, pure, Except.pure] at hr; rw [← hr.1]; exact fun _ _ hv => hv
  | wrapped w ue => simp [redactInURLError, pure, Except.pure] at hr; rw [← hr.1]; exact fun _ _ hv => hv
  | other c => simp [redactInURLError, pure, Except.pure] at hr; rw [← hr.1]; exact fun _ _ hv => hv
  | urlError ue =>
    cases hg : h.get p with
    | error err => simp [redactInURLError, hg, bind, Except.bind] at hr
    | ok u =>
      cases hus : u.user with
      | none =>
        simp [redactInURLError, hg, hus, bind, Except.bind, pure, Except.pure] at hr
        rw [← hr.1]; exact fun _ _ hv => hv
      | some ui =>
        have hrd := redact_some h p u ui hg hus
        have hag := alloc_get h { u with user := some redactedUserinfo }
        simp [redactInURLError, hg, hus, hrd, hag, bind, Except.bind, pure, Except.pure] at hr
        rw [← hr.1]
        exact alloc_preserves h { u with user := some redactedUserinfo }
  | urlErrorNilPtr =>
    cases hg : h.get p with
    | error err => simp [redactInURLError, hg, bind, Except.bind] at hr
    | ok u =>
      cases hus : u.user with
      | none =>
        simp [redactInURLError, hg, hus, bind, Except.bind, pure, Except.pure] at hr
        rw [← hr.1]; exact fun _ _ hv => hv
      | some ui =>
        have hrd := redact_some h p u ui hg hus
        have hag := alloc_get h { u with user := some redactedUserinfo }
        simp [redactInURLError, hg, hus, hrd, hag, bind, Except.bind] at hr

/-! ### Non-vacuity: the hypotheses are satisfiable and the conclusions are not trivial -/

private def r0 : Rest :=
  { scheme := ascii "http", opaqueStr := [], host := ascii "h", path := [], rawPath := [],
    omitHost := false, forceQuery := false, rawQuery := [], fragment := [], rawFragment := [] }
private def ua : URL := { user := some ⟨ascii "alice", ascii "s3cret", true⟩, rest := r0 }
private def ub : URL := { user := some ⟨ascii "bob", [], false⟩, rest := r0 }

-- two different URLs satisfying the hypotheses of `redact_noninterference`
example : ua ≠ ub ∧ ua.rest = ub.rest ∧ ua.user ≠ none ∧ ub.user ≠ none := by decide
-- a render function that exposes the whole userinfo still cannot tell the results apart,
-- although it tells the inputs apart
example :
    let render : Option Userinfo → Rest → Bytes :=
      fun o _ => match o with | none => [] | some i => i.username ++ [58] ++ i.password
    render ua.user ua.rest ≠ render ub.user ub.rest ∧
    render (redactVal ua).user (redactVal ua).rest = render (redactVal ub).user (redactVal ub).rest := by
  decide
-- the pointer-level hypotheses are satisfiable: a heap with both URLs, both calls succeed
example : ∃ h' q, redact ⟨[ua, ub]⟩ (some 0) = .ok (h', q) ∧ q = some 2 ∧ h'.get (some 0) = .ok ua := by
  exact ⟨_, _, rfl, rfl, rfl⟩
example : redact ⟨[{ ua with user := none }]⟩ (some 0) = .ok (⟨[{ ua with user := none }]⟩, some 0) := rfl
-- `redact_fresh` / `redact_again`: redact, scribble over the result (twice) and allocate, then
-- redact the same input again: a new pointer to the same redacted value; the scribbled-over first
-- result and the input stay as they are
example : NoStoreTo (some 0) [.store (some 1) ub, .new ub, .store (some 1) { ub with user := none }] := by
  intro q v hm
  simp only [List.mem_cons, List.not_mem_nil, or_false] at hm
  rcases hm with hm | hm | hm <;> cases hm <;> decide
example :
    ∃ h₁ h₂ h₃, redact ⟨[ua]⟩ (some 0) = .ok (h₁, some 1) ∧ h₁.get (some 1) = .ok (redactVal ua) ∧
      h₁.apply [.store (some 1) ub, .new ub, .store (some 1) { ub with user := none }] = .ok h₂ ∧
      redact h₂ (some 0) = .ok (h₃, some 3) ∧ h₃.get (some 3) = .ok (redactVal ua) ∧
      h₃.get (some 1) = .ok { ub with user := none } ∧ h₃.get (some 0) = .ok ua ∧
      ¬ h₂.Allocated (some 3) := by
  refine ⟨_, _, _, rfl, rfl, rfl, rfl, rfl, rfl, rfl, ?_⟩
  rw [allocated_iff]
  rintro ⟨a, ha, hlt⟩
  cases ha
  exact absurd hlt (by decide)
-- a store through nil panics
example : (⟨[ua]⟩ : Heap).apply [.store none ub] = .error .nilDeref := rfl
-- `urlError_redacted` fires on a concrete error and changes its text
example :
    (redactInURLError (fun _ _ => ascii "R") ⟨[ua]⟩ (some 0) (.urlError ⟨ascii "Get", ascii "old", 7⟩)).toOption.map (·.2)
      = some (.urlError ⟨ascii "Get", ascii "R", 7⟩) := by decide
-- the precondition "u must not be nil" matters only on the `*url.Error` path
example : redact ⟨[]⟩ none = .error .nilDeref := rfl
example : redactInURLError (fun _ _ => []) ⟨[]⟩ none (.other 3) = .ok (⟨[]⟩, .other 3) := rfl
-- a typed-nil `*url.Error` with a URL that has userinfo makes the Go code panic
example : redactInURLError (fun _ _ => []) ⟨[ua]⟩ (some 0) .urlErrorNilPtr = .error .nilDeref := rfl

end GolibsVerif.C16
