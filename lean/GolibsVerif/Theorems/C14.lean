/-
C14 — property theorems: the text and JSON encodings of Duration, HostPort, Prefix and URL
are lossless (models in `Model/C14.lean`, reference definitions and contracts in
`Spec/C14.lean`, lemmas in `Lemmas/C14*.lean`).  Only property theorems and non-vacuity
examples live here.
-/
import GolibsVerif.Model.C14
import GolibsVerif.Spec.C14
import GolibsVerif.Lemmas.C14Duration
import GolibsVerif.Lemmas.C14HostPort

namespace GolibsVerif.C14

/-! ## Duration -/

/-- `duration_string_spec`: for every `int64` duration, `Duration.String` returns (without
panicking) exactly `time.Duration`'s text with a trailing `0s` after the minutes and then a
trailing `0m` after the hours removed. -/
theorem duration_string_spec (d : Int) (hd : inInt64 d) :
    durationString d = .ok (stripRedundant (stdString d)) :=
  durationString_eq d hd

/-- `duration_slice_safe`: the slicings `str[:len(str)-2]`, `str[:len(str)-4]` never panic. -/
theorem duration_slice_safe (d : Int) (hd : inInt64 d) : ∃ s, durationString d = .ok s :=
  ⟨_, durationString_eq d hd⟩

/-- the `int64` product `rounded * time.Second` in `Duration.String` never wraps -/
theorem duration_no_wrap (d : Int) (hd : inInt64 d) :
    wrap64 (d.tdiv 1000000000 * 1000000000) = d.tdiv 1000000000 * 1000000000 := by
  unfold inInt64 at hd
  unfold wrap64
  rcases Int.eq_nat_or_neg d with ⟨u, rfl | rfl⟩
  · have t1 : (u : Int).tdiv 1000000000 = ((u / 1000000000 : Nat) : Int) := tdiv_nat u 1000000000
    rw [t1]; omega
  · have t1 : (-(u : Int)).tdiv 1000000000 = -((u / 1000000000 : Nat) : Int) := by
      rw [Int.neg_tdiv]; exact congrArg _ (tdiv_nat u 1000000000)
    rw [t1]; omega

/-- `duration_roundtrip_of_contract`: `UnmarshalText(MarshalText(d)) = d` for every `int64`
duration and *any* parser satisfying DUR-RT.  The contract is proved for the Lean model of
`time.ParseDuration` in `Theorems/C14Parse.lean` (`parse_stdString`, `parse_golibs_string`),
where `duration_roundtrip` is stated without it. -/
theorem duration_roundtrip_of_contract (parseDuration : Bytes → Option Int) (C : DurRT parseDuration)
    (d : Int) (hd : inInt64 d) :
    (durationMarshalText d).map (durationUnmarshalText parseDuration) = .ok (some d) := by
  unfold durationMarshalText durationUnmarshalText
  rw [durationString_eq d hd]
  show Except.ok (parseDuration (stripRedundant (stdString d))) = Except.ok (some d)
  congr 1
  have h0 := C.rt d hd
  unfold stripRedundant
  -- after the first cut the text still parses to `d`
  have h1 : parseDuration (cut2If [109, 48, 115] (stdString d)) = some d := by
    rcases cut2If_cases 109 48 115 (stdString d) with h | ⟨s', e, hl, hc⟩
    · rw [h]; exact h0
    · rw [hc]; exact C.drop0s s' d hl (by rw [← e]; exact h0)
  rcases cut2If_cases 104 48 109 (cut2If [109, 48, 115] (stdString d)) with h | ⟨s', e, hl, hc⟩
  · rw [h]; exact h1
  · rw [hc]; exact C.drop0m s' d hl (by rw [← e]; exact h1)

/-! ## HostPort -/

/-- **U16-RT**, proved on the models of `strconv.FormatUint` / `strconv.ParseUint`:
decimal formatting and parsing of a `uint16` round-trips. -/
theorem u16_roundtrip (p : Nat) (hp : p < 65536) : parseUint16 (formatUint p) = .ok p :=
  parseUint16_formatUint p hp

/-- `net.SplitHostPort(net.JoinHostPort(host, port)) = (host, port)` for every host without
square brackets and every port text without `:`, `[`, `]` (on the Lean models of the two
functions, including the bracketed form and all bounds checks). -/
theorem net_split_join (h p : Bytes) (hl : 91 ∉ h) (hr : 93 ∉ h) (pc : 58 ∉ p) (pl : 91 ∉ p) (pr : 93 ∉ p) :
    netSplitHostPort (netJoinHostPort h p) = .ok (.ok (h, p)) :=
  netSplit_join h p hl hr pc pl pr

/-- `hostport_roundtrip`: for every host without square brackets (any bytes, colons, `%`,
empty) and every `uint16` port, `ParseHostPort(hp.String())` returns `hp`, without panic. -/
theorem hostport_roundtrip (h : Bytes) (p : Nat) (hl : 91 ∉ h) (hr : 93 ∉ h) (hp : p < 65536) :
    parseHostPort (HostPort.string ⟨h, p⟩) = .ok (.ok ⟨h, p⟩) := by
  have htrim : trimBrackets h = h := by
    apply trimBrackets_id
    intro b hb
    have h1 : b ≠ 91 := fun e => hl (e ▸ hb)
    have h2 : b ≠ 93 := fun e => hr (e ▸ hb)
    simp [isBracket, h1, h2]
  have hd := formatUint_range p
  have pc : 58 ∉ formatUint p := fun hm => by have := hd 58 hm; omega
  have pl : 91 ∉ formatUint p := fun hm => by have := hd 91 hm; omega
  have pr : 93 ∉ formatUint p := fun hm => by have := hd 93 hm; omega
  unfold parseHostPort splitHostPort HostPort.string joinHostPort
  simp only [htrim, netSplit_join h (formatUint p) hl hr pc pl pr, bind, Except.bind,
    parseUint16_formatUint p hp]
  rfl

/-! ## Prefix -/

/-- `prefix_unmarshal_spec`: on text containing `/`, `Prefix.UnmarshalText` is exactly
`netip.ParsePrefix` (value or error); on non-empty text without `/` it fails exactly when
`netip.ParseAddr` fails and otherwise yields `PrefixFrom(addr, addr.BitLen())`. -/
theorem prefix_unmarshal_spec (S : NetipStd) (b : Bytes) :
    (47 ∈ b → prefixUnmarshalText S b = S.parsePrefix b) ∧
    (47 ∉ b → b ≠ [] → S.parseAddr b = none → prefixUnmarshalText S b = none) ∧
    (47 ∉ b → b ≠ [] → ∀ a, S.parseAddr b = some a →
      prefixUnmarshalText S b = some (prefixFrom a a.bitLen)) := by
  unfold prefixUnmarshalText containsSlash
  refine ⟨?_, ?_, ?_⟩
  · intro hm
    have hne : b ≠ [] := by intro e; rw [e] at hm; simp at hm
    have : indexByte b 47 ≥ 0 := indexByte_nonneg_iff.2 hm
    simp [this, NetipStd.prefixUnmarshalText, hne]
  · intro hm hne ha
    have : ¬ (indexByte b 47 ≥ 0) := fun h => hm (indexByte_nonneg_iff.1 h)
    simp [this, NetipStd.addrUnmarshalText, hne, ha]
  · intro hm hne a ha
    have : ¬ (indexByte b 47 ≥ 0) := fun h => hm (indexByte_nonneg_iff.1 h)
    simp [this, NetipStd.addrUnmarshalText, hne, ha]

/-- the prefix built from a bare IPv4 / IPv6 address is the full-length single-address
prefix of that address (zone dropped, as a `netip.Prefix` cannot carry one) -/
theorem prefix_bare_single_address (a : Addr) (hk : a.kind = 4 ∨ a.kind = 6) :
    prefixFrom a a.bitLen = ⟨a.withoutZone, a.bitLen⟩ ∧ (a.bitLen = 32 ∨ a.bitLen = 128) := by
  unfold prefixFrom Addr.bitLen
  rcases hk with h | h <;> simp [h]

/-! ## URL -/

section URL
variable {U : Type}

/-- a URL accepted by `urlutil.Parse` comes from `url.Parse` and has a non-empty text -/
theorem url_parse_accepts (S : UrlStd U) (raw : Bytes) (u : U) (h : urlParse S raw = .ok u) :
    raw ≠ [] ∧ S.parse raw = some u ∧ S.str u ≠ [] := by
  unfold urlParse at h
  by_cases h0 : raw = []
  · simp [h0] at h
  · simp only [h0, if_false] at h
    cases hp : S.parse raw with
    | none => simp [hp] at h
    | some v =>
      simp only [hp] at h
      by_cases he : S.str v = []
      · simp [he] at h
      · simp only [he, if_false, Except.ok.injEq] at h
        subst h
        exact ⟨h0, rfl, he⟩

/-- `url_text_roundtrip` (under URL-ID at `u`): for every URL `u` accepted by
`urlutil.Parse`, `UnmarshalText(MarshalText(u))` succeeds with a URL whose `String()` equals
`u`'s. -/
theorem url_text_roundtrip (S : UrlStd U) (raw : Bytes) (u : U) (hp : urlParse S raw = .ok u)
    (hid : UrlIdAt S u) :
    ∃ u', urlUnmarshalText S (urlMarshalText S u) = .ok u' ∧ S.str u' = S.str u := by
  obtain ⟨-, -, hne⟩ := url_parse_accepts S raw u hp
  obtain ⟨u', h1, h2⟩ := hid
  refine ⟨u', ?_, h2⟩
  unfold urlUnmarshalText urlMarshalText
  have : ¬ ((S.str u).length = 0) := by
    intro h; exact hne (List.length_eq_zero_iff.1 h)
  simp [this, h1]

/-- URL-ID at `u` is also necessary: `urlutil` adds nothing to and removes nothing from what
`net/url` does with the text. -/
theorem url_text_roundtrip_iff (S : UrlStd U) (raw : Bytes) (u : U) (hp : urlParse S raw = .ok u) :
    (∃ u', urlUnmarshalText S (urlMarshalText S u) = .ok u' ∧ S.str u' = S.str u) ↔ UrlIdAt S u := by
  constructor
  · rintro ⟨u', h1, h2⟩
    unfold urlUnmarshalText urlMarshalText at h1
    by_cases h0 : (S.str u).length = 0
    · simp [h0] at h1
    · simp only [h0, if_false] at h1
      cases hq : S.parse (S.str u) with
      | none => simp [hq] at h1
      | some v =>
        simp only [hq, Except.ok.injEq] at h1
        subst h1
        exact ⟨v, hq, h2⟩
  · exact url_text_roundtrip S raw u hp

/-- `url_json_roundtrip` (under URL-ID at `u` and JSON-RT at `u.String()`): for every URL
accepted by `urlutil.Parse`, `json.Unmarshal(json.Marshal(u))` succeeds — no panic, no error,
not the `null` branch — with a URL whose `String()` equals `u`'s. -/
theorem url_json_roundtrip (S : UrlStd U) (J : JsonStd) (raw : Bytes) (u : U)
    (hp : urlParse S raw = .ok u) (hid : UrlIdAt S u) (hj : JsonRtAt J (S.str u)) :
    ∃ u', urlUnmarshalJSON S J (urlMarshalJSON S J u) = .ok (.ok (some u')) ∧ S.str u' = S.str u := by
  obtain ⟨u', ht, hs⟩ := url_text_roundtrip S raw u hp hid
  obtain ⟨mid, hq⟩ := hj.shape
  refine ⟨u', ?_, hs⟩
  unfold urlMarshalJSON urlUnmarshalJSON
  unfold urlMarshalText at ht ⊢
  have hnull : J.quote (S.str u) ≠ [110, 117, 108, 108] := by rw [hq]; simp
  have hlen : ¬ (((J.quote (S.str u)).length : Int) = 0) := by rw [hq]; simp; omega
  have hfirst : GoM.idx (J.quote (S.str u)) 0 = .ok 34 := by rw [hq]; exact idx_zero_cons _ _
  have hlast : GoM.idx (J.quote (S.str u)) (((J.quote (S.str u)).length : Int) - 1) = .ok 34 := by
    have : J.quote (S.str u) = (34 :: mid) ++ [34] := by rw [hq]; simp
    rw [this]; exact idx_last _ _
  rw [if_neg hnull]
  simp only [hlen, if_false, hfirst, hlast, bind, Except.bind, hj.rt, ht]
  simp [Except.map, pure, Except.pure]

end URL

/-! ## The behaviour of the unchanged tree, for the record -/

/-- toy `net/url`: every text is a URL and renders as itself -/
def toyUrl : UrlStd Bytes := { parse := some, str := id }

/-- toy `encoding/json`: `&` is written as `&` (as `encoding/json` does), everything else
verbatim; decoding is the inverse -/
def toyQuoteBody : Bytes → Bytes
  | [] => []
  | 38 :: r => [92, 117, 48, 48, 50, 54] ++ toyQuoteBody r
  | b :: r => b :: toyQuoteBody r

def toyUnquoteBody : Bytes → Bytes
  | 92 :: 117 :: 48 :: 48 :: 50 :: 54 :: r => 38 :: toyUnquoteBody r
  | b :: r => b :: toyUnquoteBody r
  | [] => []

def toyJson : JsonStd :=
  { quote := fun s => 34 :: (toyQuoteBody s ++ [34]),
    unquote := fun t => match t with
      | 34 :: r => (if r.getLast? = some 34 then some (toyUnquoteBody r.dropLast) else none)
      | _ => none }

/-- `a&b` : the pre-fix `UnmarshalJSON` (quotes stripped, no unescaping) returns the URL
`a&b`, not `a&b` — defect #13 of DESIGN.md §9 — while the repaired one returns `a&b`. -/
theorem url_json_unfixed_corrupts :
    urlUnmarshalJSONUnfixed toyUrl (urlMarshalJSON toyUrl toyJson [97, 38, 98])
      = .ok (.ok (some [97, 92, 117, 48, 48, 50, 54, 98])) ∧
    urlUnmarshalJSON toyUrl toyJson (urlMarshalJSON toyUrl toyJson [97, 38, 98])
      = .ok (.ok (some [97, 38, 98])) := by
  constructor <;> rfl

/-- the pre-fix `UnmarshalJSON` panics on the one-byte input `"` (`b[1:0]`) -/
theorem url_json_unfixed_panics :
    urlUnmarshalJSONUnfixed toyUrl [34] = .error (.sliceOutOfRange 1 0 1) := by rfl

/-! ## Non-vacuity: the hypotheses are satisfiable -/

example : inInt64 3600000000000 := by decide
example : inInt64 (-9223372036854775808) := by decide

-- URL-ID and JSON-RT hold at every text for the toy instances, and `urlParse` accepts
example : ∀ u : Bytes, UrlIdAt toyUrl u := fun u => ⟨u, rfl, rfl⟩
example : urlParse toyUrl [97, 38, 98] = .ok [97, 38, 98] := by rfl
example : JsonRtAt toyJson [97, 38, 98] := ⟨⟨_, rfl⟩, by rfl⟩

example : parseHostPort (HostPort.string ⟨[58, 58, 49], 80⟩) = .ok (.ok ⟨[58, 58, 49], 80⟩) :=
  hostport_roundtrip _ _ (by decide) (by decide) (by decide)

end GolibsVerif.C14
