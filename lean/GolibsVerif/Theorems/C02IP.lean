/-
C02, IP half — the allocation-free IP validators of `netutil/ip.go` accept exactly what the
`net/netip` parsers accept, for EVERY byte string, and never panic.

Proved here (models: `Model/NetIP.lean` for golibs, `Go/Netip.lean` for go1.24 `net/netip`):
  * `isIPv4Label`            = "decimal octet 0..255 without leading zeros" (`octetOK`)
  * `isValidIPv4String s`    ⇔ `netip.parseIPv4Fields s` succeeds ⇔ `v4Spec s`
                               (exactly four `.`-separated `octetOK` pieces)
  * `isValidIPv6String s`    ⇔ `netip.parseIPv6 s` succeeds, for zone-free `s`
                               (simulation of the two scanners, `Lemmas/C02IPv6.lean: sim`)
  * `IsValidIPString s`      ⇔ `netip.ParseAddr s` succeeds (dispatch on the first of
                               `.`/`:`/`%`, the `maxSignificant` cut-off, zones)
  * `IsValidIPPortString s`  ⇔ `netip.ParseAddrPort s` succeeds
  * none of the modelled functions returns a Go panic on any input.
Nothing is left open.  The zone-freeness hypothesis of `isValidIPv6String_iff` is necessary
(`"1::%a"`: netip accepts, the zone-unaware golibs helper does not) and is discharged by the
caller `IsValidIPString`, which cuts the zone off first.
-/
import GolibsVerif.Lemmas.C02IPPort

namespace GolibsVerif.C02
open GolibsVerif.Netutil GolibsVerif.Str GolibsVerif.Netip GolibsVerif

/-! ### 1. `isIPv4Label` -/

/-- closed form: `isIPv4Label` decides "non-empty, digits only, no leading zero unless a
single digit, value ≤ 255" -/
theorem isIPv4Label_closed (l : Bytes) :
    isIPv4Label l =
      .ok (!l.isEmpty && l.all isDigit && (l.length == 1 || l.head? != some 48) &&
        decide (l.foldl (fun a c => a * 10 + (c - 48)) 0 ≤ 255)) :=
  isIPv4Label_eq l

/-- `isIPv4Label` never panics -/
theorem isIPv4Label_total (l : Bytes) : ∃ b, isIPv4Label l = .ok b :=
  ⟨_, isIPv4Label_eq l⟩

/-- an accepted label has at most three bytes (digits, no leading zero, length ≥ 4 ⇒ value
≥ 1000) -/
theorem isIPv4Label_len (l : Bytes) (h : isIPv4Label l = .ok true) : 1 ≤ l.length ∧ l.length ≤ 3 := by
  rw [isIPv4Label_eq] at h
  injection h with h
  refine ⟨?_, octetOK_len l h⟩
  cases l with
  | nil => simp [octetOK] at h
  | cons => simp

/-! ### 2. IPv4 -/

/-- golibs side against the reference splitting: exactly four `.`-separated octets -/
theorem isValidIPv4String_spec (s : Bytes) :
    isValidIPv4String s = .ok (match splitOn 46 s with
      | [a, b, c, d] => octetOK a && octetOK b && octetOK c && octetOK d
      | _ => false) := by
  rw [isValidIPv4String_eq_spec]
  unfold v4Spec
  rcases splitOn 46 s with _ | ⟨a, _ | ⟨b, _ | ⟨c, _ | ⟨d, _ | ⟨e, t⟩⟩⟩⟩⟩ <;> simp [Bool.and_assoc]

/-- netip side against the same specification -/
theorem parseIPv4Fields_spec (s : Bytes) :
    (parseIPv4Fields s).isSome = (match splitOn 46 s with
      | [a, b, c, d] => octetOK a && octetOK b && octetOK c && octetOK d
      | _ => false) := by
  rw [parseIPv4Fields_eq_spec]
  unfold v4Spec
  rcases splitOn 46 s with _ | ⟨a, _ | ⟨b, _ | ⟨c, _ | ⟨d, _ | ⟨e, t⟩⟩⟩⟩⟩ <;> simp [Bool.and_assoc]

/-- `isValidIPv4String` accepts exactly what `netip.parseIPv4Fields` accepts (all inputs),
and never panics -/
theorem isValidIPv4String_iff (s : Bytes) :
    isValidIPv4String s = .ok ((parseIPv4Fields s).isSome) :=
  isValidIPv4String_eq s

/-! ### 3. IPv6 -/

/-- `isValidIPv6String` accepts exactly what `netip.parseIPv6` accepts, on every zone-free
input, and does not panic -/
theorem isValidIPv6String_iff (s : Bytes) (h : 37 ∉ s) :
    isValidIPv6String s = .ok ((parseIPv6 s).isSome) :=
  isValidIPv6String_eq s h

/-- with a zone: netip splits at the first `%`, requires a non-empty zone and parses the part
before it exactly as golibs `isValidIPv6String` does -/
theorem parseIPv6_zone_iff (b zone : Bytes) (h : 37 ∉ b) :
    .ok ((parseIPv6 (b ++ 37 :: zone)).isSome) =
      (isValidIPv6String b).map (fun ok => !zone.isEmpty && ok) := by
  rw [parseIPv6_zone b zone h, isValidIPv6String_eq_core]
  rfl

/-! ### 4. `IsValidIPString`, `IsValidIPPortString` -/

/-- `IsValidIPString s` is `true` iff `netip.ParseAddr s` succeeds; no panic -/
theorem isValidIPString_iff (s : Bytes) : isValidIPString s = .ok ((parseAddr s).isSome) :=
  isValidIPString_eq s

/-- `isUint16` agrees with `strconv.ParseUint(port, 10, 16)` on non-empty input -/
theorem isUint16_iff (port : Bytes) (h : port ≠ []) :
    isUint16 port = (parseUintDec port 65535).isSome :=
  isUint16_eq port h

/-- `IsValidIPPortString s` is `true` iff `netip.ParseAddrPort s` succeeds; no panic -/
theorem isValidIPPortString_iff (s : Bytes) :
    isValidIPPortString s = .ok ((parseAddrPort s).isSome) :=
  isValidIPPortString_eq s

/-! ### 5. totality: no Go panic on any input -/

theorem isValidIPv4String_total (s : Bytes) : ∃ b, isValidIPv4String s = .ok b :=
  ⟨_, isValidIPv4String_eq s⟩

theorem trimValidIPv6Field_total (s : Bytes) (n : Nat) (e : Bool) :
    ∃ r, trimValidIPv6Field s n e = .ok r := by
  rcases field_cases s with hbad | ⟨d, r, rfl, h⟩
  · exact ⟨_, trim_bad s n e hbad⟩
  · match r, h with
    | [], h => simp only [List.append_nil]; exact ⟨_, trim_whole h n e⟩
    | c :: r', h =>
      by_cases h46 : c = 46
      · subst h46; exact ⟨_, trim_dot h n e⟩
      · exact ⟨_, trim_other h n e h46⟩

/-- `countIPv6SepRunes` indexes `s[0]`: it is total on non-empty input (its only caller
passes a non-empty string) -/
theorem countIPv6SepRunes_total (s : Bytes) (hs : s ≠ []) (e : Bool) :
    ∃ r, countIPv6SepRunes s e = .ok r := by
  match s, hs with
  | [c], _ => by_cases h : c = 58 <;> simp [countIPv6SepRunes, h, bind, Except.bind, pure, Except.pure]
  | c :: c2 :: t, _ =>
    by_cases h : c = 58 <;> by_cases h2 : c2 = 58 <;> cases e <;>
      simp [countIPv6SepRunes, h, h2, idx_one, bind, Except.bind, pure, Except.pure]

/-- the field loop never panics, from any state -/
theorem v6FieldsLoop_total (f : Nat) : ∀ (s : Bytes) (n : Nat) (e : Bool),
    ∃ b, v6FieldsLoop f s n e = .ok b := by
  induction f with
  | zero => intro s n e; exact ⟨_, by simp [v6FieldsLoop, pure, Except.pure]; rfl⟩
  | succ f ih =>
    intro s n e
    by_cases hs : s = []
    · subst hs; exact ⟨_, G_nil _ n e⟩
    · rcases field_cases s with hbad | ⟨d, r, rfl, h⟩
      · exact ⟨_, G_bad0 f n e s hs hbad⟩
      · match r, h with
        | [], h => simp only [List.append_nil]; exact ⟨_, G_whole f n e h⟩
        | c :: r', h =>
          by_cases h46 : c = 46
          · subst h46; exact ⟨_, G_dot f n e h⟩
          · by_cases h58 : c = 58
            · subst h58
              match r', h with
              | [], h => exact ⟨_, G_colonEnd f n e h⟩
              | c2 :: r2, h =>
                by_cases hc2 : c2 = 58
                · subst hc2
                  rw [G_dcolon f n e h]
                  cases e with
                  | true => exact ⟨_, rfl⟩
                  | false => exact ih r2 (n + 1) true
                · rw [G_colon f n e h hc2]; exact ih _ _ _
            · exact ⟨_, G_other f n e h h46 h58⟩

/-- `isValidIPv6String` never panics, zone or not -/
theorem isValidIPv6String_total (s : Bytes) : ∃ b, isValidIPv6String s = .ok b :=
  ⟨_, isValidIPv6String_eq_core s⟩

theorem isValidIPString_total (s : Bytes) : ∃ b, isValidIPString s = .ok b :=
  ⟨_, isValidIPString_eq s⟩

theorem splitAddrPort_total (s : Bytes) : ∃ r, splitAddrPort s = .ok r := by
  rcases last_cases 58 s with hs | ⟨a, b, rfl, hb⟩
  · exact ⟨_, splitAddrPort_nocolon s hs⟩
  · rw [splitAddrPort_split a b hb]
    unfold splitTail
    by_cases hab : a = [] ∨ b = []
    · exact ⟨none, by simp [hab, pure, Except.pure]⟩
    · simp only [hab, if_false, bind, Except.bind, pure, Except.pure]
      by_cases hc : containsByte a 58 = true
      · simp only [hc, if_true]
        by_cases hg : (!hasPrefix a [91] || !hasSuffix a [93]) = true
        · exact ⟨none, by simp only [hg, if_true]⟩
        · simp only [hg]
          have hp : hasPrefix a [91] = true := by
            cases h : hasPrefix a [91] <;> simp [h] at hg ⊢
          have hsf : hasSuffix a [93] = true := by
            cases h : hasSuffix a [93] <;> simp [h] at hg ⊢
          obtain ⟨mid, rfl⟩ := bracket_form a ((hasPrefix_one _ _).1 hp) ((hasSuffix_one _ _).1 hsf)
          exact ⟨some (mid, b), by rw [GoM.slice_mid_snoc]; simp⟩
      · exact ⟨some (a, b), by simp [hc]⟩

theorem isValidIPPortString_total (s : Bytes) : ∃ b, isValidIPPortString s = .ok b :=
  ⟨_, isValidIPPortString_eq s⟩

/-! ### Non-vacuity: both sides of each boundary -/

example : isIPv4Label (ascii "255") = .ok true := by decide
example : isIPv4Label (ascii "256") = .ok false := by decide
example : isIPv4Label (ascii "01") = .ok false := by decide
example : isValidIPv4String (ascii "1.2.3.4") = .ok true ∧ (parseIPv4Fields (ascii "1.2.3.4")).isSome = true := by decide
example : isValidIPv4String (ascii "1.2.3.04") = .ok false ∧ (parseIPv4Fields (ascii "1.2.3.04")).isSome = false := by decide
example : isValidIPv4String (ascii "1.2.3") = .ok false ∧ isValidIPv4String (ascii "1.2.3.4.5") = .ok false := by decide
example : 37 ∉ ascii "1::2" ∧ isValidIPv6String (ascii "1::2") = .ok true := by decide
example : 37 ∉ ascii "1:2:3:4:5:6:7:8" ∧ (parseIPv6 (ascii "1:2:3:4:5:6:7:8")).isSome = true := by decide
example : 37 ∉ ascii "::ffff:1.2.3.4" ∧ isValidIPv6String (ascii "::ffff:1.2.3.4") = .ok true := by decide
/-- the former defect (seven fields then an embedded IPv4) is rejected by both -/
example : isValidIPv6String (ascii "1:2:3:4:5:6:7:1.2.3.4") = .ok false ∧
    (parseIPv6 (ascii "1:2:3:4:5:6:7:1.2.3.4")).isSome = false := by decide
example : isValidIPv6String (ascii "1::2::3") = .ok false := by decide
/-- zone-freeness is necessary in `isValidIPv6String_iff` -/
example : isValidIPv6String (ascii "1::%a") = .ok false ∧ (parseIPv6 (ascii "1::%a")).isSome = true := by decide
example : isValidIPString (ascii "fe80::1%eth0") = .ok true := by decide
example : isValidIPString (ascii "fe80::1%") = .ok false := by decide
example : isValidIPString (ascii "12345.1.1.1") = .ok false := by decide
example : isValidIPPortString (ascii "[::1]:80") = .ok true ∧ (parseAddrPort (ascii "[::1]:80")).isSome = true := by decide
example : isValidIPPortString (ascii "1.2.3.4:65535") = .ok true := by decide
example : isValidIPPortString (ascii "1.2.3.4:65536") = .ok false := by decide
example : isValidIPPortString (ascii "[1.2.3.4]:80") = .ok false ∧ (parseAddrPort (ascii "[1.2.3.4]:80")).isSome = false := by decide
example : isValidIPPortString (ascii "::1:80") = .ok false := by decide

end GolibsVerif.C02
