/-
C17 — property theorems for `syncutil.OnceConstructor` and `syncutil.ChanSemaphore`
(transition systems in `Model/C17.lean`, inductive invariant in `Lemmas/C17.lean`).
Every theorem quantifies over all reachable states, i.e. over every interleaving of any
number of invocations with any key assignment and any values returned by the constructor.
-/
import GolibsVerif.Model.C17
import GolibsVerif.Spec.C17
import GolibsVerif.Lemmas.C17
import GolibsVerif.Lemmas.C17Monitor
import GolibsVerif.Gen.SyncC17

namespace GolibsVerif.C17

variable {K V : Type} [DecidableEq K]

/-! ## The code is still the code the model was written after

The right-hand sides are regenerated from the Go source on every check. -/

theorem skel_newOnceConstructor : Gen.SyncC17.newOnceConstructor = Expected.newOnceConstructor := by decide
theorem skel_onceGet : Gen.SyncC17.onceGet = Expected.onceGet := by decide +kernel
theorem skel_newChanSemaphore : Gen.SyncC17.newChanSemaphore = Expected.newChanSemaphore := by decide
theorem skel_semaAcquire : Gen.SyncC17.semaAcquire = Expected.semaAcquire := by decide
theorem skel_semaRelease : Gen.SyncC17.semaRelease = Expected.semaRelease := by decide

/-! ## OnceConstructor -/

/-- In every reachable state: the constructor has been invoked at most once per key; the token
of every `done` channel has been received (`ok = true`) at most once; every value returned by
`Get(k)` is the `cached` variable of the one loader stored for `k`, and it has been assigned
(it is not the zero value); no invocation has panicked (no send on / close of a closed channel). -/
theorem once_inv {s : OState K V} (h : Reachable s) :
    (∀ k, s.ctorCalls k ≤ 1) ∧
    (∀ l, s.taken l ≤ 1) ∧
    (∀ t k r, s.pc t = .done k r → ∃ l v, s.stored k = some l ∧ s.cached l = some v ∧ r = some v) ∧
    (∀ t k, s.pc t ≠ .panicked k) := by
  have inv := reachable_inv h
  refine ⟨?_, ?_, ?_, inv.noPanic⟩
  · intro k
    cases hst : s.stored k with
    | none => have := inv.unstored k hst; omega
    | some l =>
      have htok := inv.token k l hst
      by_cases hb : (s.chan l).buf = 1
      · have := (inv.full k l hst hb).2.1; omega
      · have hb0 : (s.chan l).buf = 0 := by omega
        cases hc : (s.chan l).closed with
        | true => have := (inv.closed k l hst hc).1; omega
        | false =>
          obtain ⟨w, hw⟩ := inv.holder k l hst hb0 hc
          cases hp : s.pc w with
          | construct k' l' =>
            simp [hp, PC.holds] at hw; obtain ⟨rfl, rfl⟩ := hw
            have := (inv.atConstruct w _ _ hp).1; omega
          | inCtor k' l' =>
            simp [hp, PC.holds] at hw; obtain ⟨rfl, rfl⟩ := hw
            have := (inv.atInCtor w _ _ hp).1; omega
          | close k' l' =>
            simp [hp, PC.holds] at hw; obtain ⟨rfl, rfl⟩ := hw
            have := (inv.atClose w _ _ hp).1; omega
          | _ => simp [hp, PC.holds] at hw
  · intro l
    by_cases hs : ∃ k, s.stored k = some l
    · obtain ⟨k, hk⟩ := hs
      have := inv.token k l hk; omega
    · have := inv.takenStored l (fun k hk => hs ⟨k, hk⟩); omega
  · intro t k r hp
    obtain ⟨l, hst, hc, hr⟩ := inv.atDone t k r hp
    have hsome := (inv.closed k l hst hc).2
    cases hv : s.cached l with
    | none => simp [hv] at hsome
    | some v => exact ⟨l, v, hst, hv, by rw [hr, hv]⟩

/-- Every caller receives the single result: two invocations of `Get(k)` that have returned
have returned the same value. -/
theorem once_same_result {s : OState K V} (h : Reachable s) {t₁ t₂ : Nat} {k : K} {r₁ r₂ : Option V}
    (h₁ : s.pc t₁ = .done k r₁) (h₂ : s.pc t₂ = .done k r₂) : r₁ = r₂ := by
  obtain ⟨_, _, hd, _⟩ := once_inv h
  obtain ⟨l₁, v₁, hs₁, hc₁, rfl⟩ := hd t₁ k r₁ h₁
  obtain ⟨l₂, v₂, hs₂, hc₂, rfl⟩ := hd t₂ k r₂ h₂
  rw [hs₁] at hs₂
  cases hs₂
  rw [hc₁] at hc₂
  exact hc₂

/-- If some `Get(k)` has returned, the constructor has been invoked exactly once for `k`. -/
theorem once_exactly_once {s : OState K V} (h : Reachable s) {t : Nat} {k : K} {r : Option V}
    (hd : s.pc t = .done k r) : s.ctorCalls k = 1 := by
  have inv := reachable_inv h
  obtain ⟨l, hst, hc, _⟩ := inv.atDone t k r hd
  exact (inv.closed k l hst hc).1

/-- `cached` is read (`return cached`) only after the `done` channel has been closed, and it is
written only by the unique holder of the token while the channel is still open: with MEM-1
(close happens-before a receive that observes it) the accesses to `cached` do not race. -/
theorem once_read_after_close {s : OState K V} (h : Reachable s) {t : Nat} {k : K} {l : Nat} :
    (s.pc t = .readCached k l → (s.chan l).closed = true ∧ (s.cached l).isSome = true) ∧
    (s.pc t = .inCtor k l → (s.chan l).closed = false ∧
      ∀ t', (s.pc t').holds = some (k, l) → t' = t) := by
  have inv := reachable_inv h
  constructor
  · intro hp
    have hc := inv.atRead t k l hp
    have hst := inv.usesStored t k l (by simp [hp, PC.uses])
    exact ⟨hc, (inv.closed k l hst hc).2⟩
  · intro hp
    have hh : (s.pc t).holds = some (k, l) := by simp [hp, PC.holds]
    exact ⟨(inv.holds t k l hh).2, fun t' ht' => inv.holdsUnique t' t k l ht' hh⟩

/-! ### No cross-key blocking -/

/-- No transition of an invocation working on key `k` is disabled by the state of another key:
whether `t` can step is a function of its own program counter and of the `k`-part of the state
alone.  (`s₂` is arbitrary: everything that belongs to other keys — map entries, channels,
cached values, constructions in progress, other invocations — may differ in any way.) -/
theorem once_no_cross_block [Inhabited K] [Inhabited V] {s₁ s₂ : OState K V} (h₁ : Reachable s₁)
    {t : Nat} {k : K} (hk : (s₁.pc t).key = some k) (hpc : s₁.pc t = s₂.pc t)
    (hag : AgreeOn k s₁ s₂) : Enabled s₁ t ↔ Enabled s₂ t := by
  have inv := reachable_inv h₁
  rw [enabled_iff_canStep, enabled_iff_canStep]
  unfold canStep
  rw [← hpc]
  cases hp : s₁.pc t with
  | send k' =>
    have : s₁.chan t = s₂.chan t := hag.2 t hk
    simp only [this]
  | recv k' l =>
    have hst := inv.usesStored t k' l (by simp [hp, PC.uses])
    have hkl := (inv.storedWf k' l hst).1
    have : k' = k := by simpa [hp, PC.key] using hk
    subst this
    have : s₁.chan l = s₂.chan l := hag.2 l hkl
    simp only [this]
  | _ => simp

/-- The only way an invocation of `Get(k)` that has not returned can be blocked is the receive
on the `done` channel of `k`'s own loader while another invocation *of the same key* holds the
token (it is between the successful receive and `close(done)`, i.e. constructing `k`), and
that holder is itself able to step.  A slow construction of `k' ≠ k` therefore never blocks
`Get(k)`. -/
theorem once_blocked_only_by_own_key [Inhabited K] [Inhabited V] {s : OState K V} (h : Reachable s)
    {t : Nat} {k : K} (hk : (s.pc t).key = some k) (hnd : ∀ r, s.pc t ≠ .done k r)
    (hbl : ¬ Enabled s t) :
    ∃ l h', s.pc t = .recv k l ∧ (s.pc h').holds = some (k, l) ∧ (s.pc h').key = some k ∧
      Enabled s h' := by
  have inv := reachable_inv h
  rw [enabled_iff_canStep] at hbl
  unfold canStep at hbl
  cases hp : s.pc t with
  | send k' =>
    have := (inv.atSend t k' hp).1
    simp [hp, this] at hbl
  | recv k' l =>
    have : k' = k := by simpa [hp, PC.key] using hk
    subst this
    simp only [hp, not_or, Nat.not_lt, Nat.le_zero_eq, Bool.not_eq_true] at hbl
    have hst := inv.usesStored t k' l (by simp [hp, PC.uses])
    obtain ⟨w, hw⟩ := inv.holder k' l hst hbl.1 hbl.2
    refine ⟨l, w, rfl, hw, ?_, ?_⟩
    · cases hpw : s.pc w <;> simp_all [PC.holds, PC.key]
    · rw [enabled_iff_canStep]; unfold canStep
      cases hpw : s.pc w <;> simp_all [PC.holds]
  | done k' r =>
    have : k' = k := by simpa [hp, PC.key] using hk
    subst this
    exact absurd hp (hnd r)
  | panicked k' => exact absurd hp (inv.noPanic t k')
  | _ => simp [hp] at hbl

/-! ### The acceptor for observed `Get` histories -/

/-- Soundness of a rejection: every observable trace of the transition system (any number of
invocations, any interleaving, any constructor results) is accepted by the monitor.  So a
history recorded from the real code that `acceptsOnce` rejects is a behaviour the model cannot
exhibit. -/
theorem once_trace_accepted [DecidableEq V] {es : List (Ev K V)} {s : OState K V}
    (ht : Trace (OState.init : OState K V) es s) : acceptsOnce es = true := by
  obtain ⟨m, hm, _⟩ := trace_sim ht
  simp [acceptsOnce, hm]

/-- What an accepted history satisfies (the property read on the observed events): the
constructor started at most once per key, and all values returned for one key are equal and
are a value the constructor produced. -/
theorem once_accepted_sat [DecidableEq V] {es : List (Ev K V)} (h : acceptsOnce es = true) :
    (∀ k, es.countP (Ev.isStart k) ≤ 1) ∧
    (∀ t₁ t₂ k r₁ r₂, Ev.ret t₁ k r₁ ∈ es → Ev.ret t₂ k r₂ ∈ es → r₁ = r₂ ∧ r₁.isSome = true) := by
  unfold acceptsOnce at h
  rw [Option.isSome_iff_exists] at h
  obtain ⟨m, hm⟩ := h
  constructor
  · intro k
    have := mrun_starts hm k
    have h0 : ((MState.init : MState K V).ph k).started = 0 := rfl
    have h1 : (m.ph k).started ≤ 1 := by cases m.ph k <;> simp [MPh.started]
    omega
  · intro t₁ t₂ k r₁ r₂ h₁ h₂
    obtain ⟨v₁, rfl, hb₁⟩ := mrun_rets hm h₁
    obtain ⟨v₂, rfl, hb₂⟩ := mrun_rets hm h₂
    rw [hb₁] at hb₂
    cases hb₂
    simp

/-! ### Non-vacuity (OnceConstructor) -/

/-- two invocations of `Get(7)`; the second arrives while the first is inside the constructor -/
example : acceptsOnce (K := Nat) (V := Nat)
    [.call 0 7, .ctorStart 7, .call 1 7, .ctorEnd 7 42, .ret 1 7 (some 42), .ret 0 7 (some 42)] = true := by
  decide

/-- a second construction of the same key is rejected -/
example : acceptsOnce (K := Nat) (V := Nat)
    [.call 0 7, .call 1 7, .ctorStart 7, .ctorStart 7] = false := by decide

/-- a `done` state is reachable: the hypotheses of `once_exactly_once` are satisfiable -/
example : ∃ s : OState Nat Nat, Reachable s ∧ s.pc 0 = .done 7 (some 42) := by
  refine ⟨_, runSteps_reachable .init
    [(0, .call 7), (0, .tau), (0, .tau), (0, .tau), (0, .tau), (0, .tau), (0, .tau), (0, .ctorRet 42),
     (0, .tau), (0, .tau)] rfl, ?_⟩
  rfl

/-- a blocked state is reachable: invocation 1 waits on the channel while 0 is in the constructor
(the hypotheses of `once_blocked_only_by_own_key` are satisfiable) -/
example : ∃ s : OState Nat Nat, Reachable s ∧ s.pc 1 = .recv 7 0 ∧ s.pc 0 = .inCtor 7 0 ∧
    next s 1 .tau = none := by
  refine ⟨_, runSteps_reachable .init
    [(0, .call 7), (1, .call 7), (0, .tau), (0, .tau), (0, .tau), (0, .tau), (0, .tau), (0, .tau),
     (1, .tau)] rfl, ?_, ?_, ?_⟩ <;> rfl

/-! ## ChanSemaphore -/

/-- In every reachable state of a semaphore made by `NewChanSemaphore(cap)` — disciplined use or
not — the channel occupancy is at most `cap`, and it equals the number of successful `Acquire`s
minus the number of `Release`s that actually removed an element. -/
theorem sema_bound {cap : Nat} {disc : Bool} {s : SState} (h : SReach cap disc s) :
    s.cap = cap ∧ s.c ≤ cap ∧ s.c + s.rel = s.acq + s.relNoop ∧ s.relNoop ≤ s.rel := by
  induction h with
  | init => simp [SState.init]
  | @step s s' l _ _ hn ih =>
    obtain ⟨h1, h2, h3, h4⟩ := ih
    cases l with
    | acquire t ctx =>
      simp only [snext] at hn
      split at hn <;> simp at hn
      subst hn; exact ⟨h1, h2, h3, h4⟩
    | acqOk t =>
      simp only [snext] at hn
      split at hn
      · split at hn <;> simp at hn
        subst hn; simp only; omega
      · simp at hn
    | acqErr t =>
      simp only [snext] at hn
      split at hn
      · split at hn <;> simp at hn
        subst hn; exact ⟨h1, h2, h3, h4⟩
      · simp at hn
    | release t =>
      simp only [snext] at hn
      split at hn
      · split at hn <;> simp at hn <;> subst hn <;> simp only <;> omega
      · simp at hn
    | handoff tr ta =>
      simp only [snext] at hn
      split at hn
      · split at hn <;> simp at hn
        subst hn; simp only; omega
      · simp at hn
    | cancel ctx =>
      simp only [snext, Option.some.injEq] at hn
      subst hn; exact ⟨h1, h2, h3, h4⟩

/-- Under disciplined use (every `Release` call pairs with an earlier successful `Acquire`) no
`Release` ever takes the `default` branch, and the number of successful `Acquire`s outstanding
(`acq - rel`) is exactly the channel occupancy, hence never more than `cap`. -/
theorem sema_bound_outstanding {cap : Nat} {s : SState} (h : SReach cap true s) :
    s.relNoop = 0 ∧ s.rel ≤ s.acq ∧ s.acq - s.rel = s.c ∧ s.acq - s.rel ≤ cap := by
  have hb := sema_bound h
  suffices hz : s.relNoop = 0 by omega
  induction h with
  | init => simp [SState.init]
  | @step s s' l hr hd hn ih =>
    have ih := ih (sema_bound hr)
    have hbs := sema_bound hr
    cases l with
    | acquire t ctx =>
      simp only [snext] at hn
      split at hn <;> simp at hn
      subst hn; exact ih
    | acqOk t =>
      simp only [snext] at hn
      split at hn
      · split at hn <;> simp at hn
        subst hn; exact ih
      · simp at hn
    | acqErr t =>
      simp only [snext] at hn
      split at hn
      · split at hn <;> simp at hn
        subst hn; exact ih
      · simp at hn
    | release t =>
      have hlt := hd rfl rfl
      simp only [snext] at hn
      split at hn
      · split at hn
        · simp at hn; subst hn; exact ih
        · omega
      · simp at hn
    | handoff tr ta =>
      simp only [snext] at hn
      split at hn
      · split at hn <;> simp at hn
        subst hn; exact ih
      · simp at hn
    | cancel ctx =>
      simp only [snext, Option.some.injEq] at hn
      subst hn; exact ih

/-- `Acquire` returns an error only through the `<-ctx.Done()` case: at the very step at which it
returns the error, the context is done.  (Holds in every state, reachable or not.) -/
theorem acquire_err_only_if_done {s s' : SState} {t : Nat} (hn : snext s (.acqErr t) = some s') :
    ∃ ctx, s.pc t = .acquiring ctx ∧ s.done ctx = true := by
  simp only [snext] at hn
  split at hn
  · rename_i ctx hpc
    split at hn
    · rename_i hd; exact ⟨ctx, hpc, hd⟩
    · simp at hn
  · simp at hn

/-- "…returns the context's error once the context is done while no slot is free": when the
context is done and the buffer is full, returning nil is *not* enabled and returning the error
*is* enabled — the error is the only way `Acquire` can return by itself. -/
theorem acquire_done_full_errs {s : SState} {t ctx : Nat} (hpc : s.pc t = .acquiring ctx)
    (hd : s.done ctx = true) (hfull : s.c = s.cap) :
    snext s (.acqOk t) = none ∧ (snext s (.acqErr t)).isSome = true := by
  simp [snext, hpc, hd, hfull]

/-- A parked `Acquire` returns on the cancellation of ITS OWN context, whoever else is parked: from
any state in which `t` waits with context `ctx` on a full semaphore, "cancel `ctx`" followed by "`t`
returns the error" is a run of the system, it leaves `t` idle, and it moves no other thread and
no other context — no hypothesis about the other waiters (their number, their contexts, the order
in which they arrived) is needed.  (Seeded change C17-P queued the waiters behind a mutex: only the
head of the queue could return.) -/
theorem acquire_own_cancel_returns {s : SState} {t ctx : Nat} (hpc : s.pc t = .acquiring ctx) :
    ∃ s₁ s₂, snext s (.cancel ctx) = some s₁ ∧ snext s₁ (.acqErr t) = some s₂ ∧ s₂.pc t = .idle ∧
      (∀ t', t' ≠ t → s₂.pc t' = s.pc t') ∧ (∀ c', c' ≠ ctx → s₂.done c' = s.done c') ∧ s₂.c = s.c := by
  refine ⟨{ s with done := upd s.done ctx true },
    { s with done := upd s.done ctx true, pc := upd s.pc t .idle }, ?_, ?_, ?_, ?_, ?_, ?_⟩
  · simp [snext]
  · simp [snext, hpc, upd]
  · simp [upd]
  · intro t' ht'; simp [upd, ht']
  · intro c' hc'; simp [upd, hc']
  · rfl

example : ∃ s : SState, s.pc 1 = .acquiring 3 ∧ s.pc 0 = .acquiring 2 ∧ s.c = s.cap :=
  ⟨{ SState.init 0 with pc := fun t => if t = 0 then .acquiring 2 else if t = 1 then .acquiring 3 else .idle },
    by simp, by simp, by simp [SState.init]⟩

/-- When the context is done *and* a slot is free both `select` cases are ready and Go picks
one pseudo-randomly: the model allows both outcomes, so nothing more than
`acquire_err_only_if_done` can be promised in that situation. -/
theorem acquire_done_free_either {s : SState} {t ctx : Nat} (hpc : s.pc t = .acquiring ctx)
    (hd : s.done ctx = true) (hfree : s.c < s.cap) :
    (snext s (.acqOk t)).isSome = true ∧ (snext s (.acqErr t)).isSome = true := by
  simp [snext, hpc, hd, hfree]

/-- `Acquire` is blocked (neither case of its `select` is ready) exactly when the buffer is full
and the context is not done. -/
theorem acquire_blocked_iff {s : SState} {t ctx : Nat} (hpc : s.pc t = .acquiring ctx) :
    (snext s (.acqOk t) = none ∧ snext s (.acqErr t) = none) ↔ (¬ s.c < s.cap ∧ s.done ctx = false) := by
  simp [snext, hpc]

/-- a context that is done stays done -/
theorem done_monotone {s s' : SState} {l : SLabel} (hn : snext s l = some s') {ctx : Nat}
    (hd : s.done ctx = true) : s'.done ctx = true := by
  cases l with
  | acquire t c =>
    simp only [snext] at hn
    split at hn <;> simp at hn
    subst hn; exact hd
  | acqOk t =>
    simp only [snext] at hn
    split at hn
    · split at hn <;> simp at hn
      subst hn; exact hd
    · simp at hn
  | acqErr t =>
    simp only [snext] at hn
    split at hn
    · split at hn <;> simp at hn
      subst hn; exact hd
    · simp at hn
  | release t =>
    simp only [snext] at hn
    split at hn
    · split at hn <;> simp at hn <;> subst hn <;> exact hd
    · simp at hn
  | handoff tr ta =>
    simp only [snext] at hn
    split at hn
    · split at hn <;> simp at hn
      subst hn; exact hd
    · simp at hn
  | cancel c =>
    simp only [snext, Option.some.injEq] at hn
    subst hn
    simp only [upd_apply]
    split <;> simp [hd]

/-- `Release` never blocks: a goroutine that is not inside `Acquire` always has the `release`
step enabled, whatever the state (nothing held, full, empty, capacity 0).  When the buffer is
empty the `default` branch runs and the call is a no-op: occupancy, program counters and
contexts are unchanged. -/
theorem release_enabled {s : SState} {t : Nat} (hpc : s.pc t = .idle) :
    ∃ s', snext s (.release t) = some s' ∧ s'.c = s.c - 1 ∧ s'.cap = s.cap ∧ s'.pc = s.pc ∧
      s'.done = s.done := by
  by_cases h : 0 < s.c
  · exact ⟨{ s with c := s.c - 1, rel := s.rel + 1 }, by simp only [snext, hpc, h, if_true],
      rfl, rfl, rfl, rfl⟩
  · refine ⟨{ s with rel := s.rel + 1, relNoop := s.relNoop + 1 },
      by simp only [snext, hpc, h, if_false], ?_, rfl, rfl, rfl⟩
    show s.c = s.c - 1
    omega

/-! ### Acceptors -/

/-- The semaphore acceptor accepts exactly the label sequences that are runs of the transition
system from the initial state. -/
theorem sema_accepts_iff_trace (cap : Nat) (ls : List SLabel) :
    acceptsSema cap ls = true ↔ ∃ s, STrace (SState.init cap) ls s := by
  unfold acceptsSema
  rw [Option.isSome_iff_exists]
  exact exists_congr fun s => srun_iff_trace _ ls s

/-- Every state reached by a history the disciplined acceptor accepts is a disciplined-reachable
state, so `sema_bound_outstanding` applies to every accepted observed history. -/
theorem semaD_accepted_reach {cap : Nat} {s s' : SState} (h : SReach cap true s) (ls : List SLabel)
    (hr : srunD s ls = some s') : SReach cap true s' := by
  induction ls generalizing s with
  | nil => simp only [srunD, Option.some.injEq] at hr; subst hr; exact h
  | cons l ls ih =>
    simp only [srunD] at hr
    split at hr
    · simp at hr
    · rename_i hdisc
      split at hr
      · rename_i s₁ hs₁
        refine ih (SReach.step h ?_ hs₁) hr
        intro _ hl
        by_cases hlt : s.rel < s.acq
        · exact hlt
        · exact absurd ⟨hl, hlt⟩ hdisc
      · simp at hr

/-! ### Non-vacuity -/

/-- the bound is tight: a full semaphore is reachable (capacity 2, two acquires) -/
example : ∃ s, SReach 2 true s ∧ s.c = 2 :=
  ⟨_, .step (l := .acqOk 1) (.step (l := .acquire 1 0) (.step (l := .acqOk 0)
      (.step (l := .acquire 0 0) .init (by simp [SLabel.isRelease]) rfl) (by simp [SLabel.isRelease]) rfl)
      (by simp [SLabel.isRelease]) rfl) (by simp [SLabel.isRelease]) rfl, rfl⟩

/-- an undisciplined `Release` on an empty semaphore is accepted as a no-op -/
example : acceptsSema 1 [.release 0, .acquire 0 0, .acqOk 0] = true := by decide

/-- a second holder on a semaphore of capacity 1 is rejected by the acceptor -/
example : acceptsSema 1 [.acquire 0 0, .acqOk 0, .acquire 1 0, .acqOk 1] = false := by decide

/-- capacity 0: a parked `Acquire` completes only by hand-off from a concurrent `Release` -/
example : acceptsSema 0 [.acquire 0 0, .handoff 1 0] = true ∧
    acceptsSema 0 [.acquire 0 0, .acqOk 0] = false := by decide

end GolibsVerif.C17
