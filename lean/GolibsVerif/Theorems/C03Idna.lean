/-
C03 — the validators with the parameter `toASCII` instantiated by the model
`Idna.toASCII enc dec` of `golang.org/x/net/idna.ToASCII` (`Go/Idna.lean`; the op `std.idna`
of this property's harness ties that model to the real function on every run).

For an all-ASCII name none of whose labels starts with the lower-case ACE prefix `xn--`
(`strings.HasPrefix(label, "xn--")` is what `idna.ToASCII` tests; `XN--…` is an ordinary label),
`idna.ToASCII` is the identity (`Idna.idna1_model_strong`), so the three validators decide the
documented grammar on the name itself — no idna hypothesis, and nothing is assumed about the
punycode functions `enc` / `dec`.
-/
import GolibsVerif.Theorems.C03
import GolibsVerif.Theorems.Idna

namespace GolibsVerif.C03
open GolibsVerif.Netutil GolibsVerif.Str GolibsVerif.Gen.Consts GolibsVerif

/-- The model of `idna.ToASCII` returns normally on every input — no out-of-range index or
slice in the label iterator, loops within their fuel — and computes the label-wise
description `Idna.spec` (`Spec/Idna.lean`). -/
theorem idna_model_spec (enc dec : Bytes → Option Bytes) (s : Bytes) :
    Idna.process enc dec s = .ok (Idna.spec enc dec s) := Idna.process_eq_spec enc dec s

/-- the grammar of a whole name, on the name itself -/
def PlainNameOK (P : Bytes → Prop) (s : Bytes) : Prop :=
  1 ≤ s.length ∧ s.length ≤ 253 ∧ LabelsOK P (splitOn 46 s)

theorem nameOK_plain_idna (P : Bytes → Prop) (enc dec : Bytes → Option Bytes) (s : Bytes)
    (hascii : ∀ b ∈ s, b < 128) (hxn : ∀ l ∈ splitOn 46 s, ¬ Idna.acePrefix <+: l) :
    NameOK P (Idna.toASCII enc dec) s ↔ PlainNameOK P s := by
  unfold NameOK PlainNameOK
  rw [Idna.idna1_model_strong enc dec s hascii hxn]
  constructor
  · rintro ⟨t, ht, h⟩; cases ht; exact h
  · intro h; exact ⟨s, rfl, h⟩

/-- `ValidateHostname` / `ValidateDomainName` / `ValidateSRVDomainName` accept an all-ASCII
name without A-labels iff the name itself is in the documented grammar. -/
theorem validators_plain_idna (enc dec : Bytes → Option Bytes) (s : Bytes)
    (hascii : ∀ b ∈ s, b < 128) (hxn : ∀ l ∈ splitOn 46 s, ¬ Idna.acePrefix <+: l) :
    (validateHostname (Idna.toASCII enc dec) s = .ok none ↔ PlainNameOK HostLabel s) ∧
    (validateDomainName (Idna.toASCII enc dec) s = .ok none ↔ PlainNameOK DomainLabel s) ∧
    (validateSRVDomainName (Idna.toASCII enc dec) s = .ok none ↔
      PlainNameOK (fun l => HostLabel l ∨ SRVLabel l) s) :=
  ⟨(validateHostname_iff _ s).trans (nameOK_plain_idna _ enc dec s hascii hxn),
   (validateDomainName_iff _ s).trans (nameOK_plain_idna _ enc dec s hascii hxn),
   (validateSRVDomainName_iff _ s).trans (nameOK_plain_idna _ enc dec s hascii hxn)⟩

/-- A name that starts with a dot is rejected by all three validators, whatever the punycode
functions do (`Idna.hDot_model`: the empty first label survives `idna.ToASCII`). -/
theorem leading_dot_rejected_idna (enc dec : Bytes → Option Bytes) (s : Bytes)
    (hd : s.head? = some 46) :
    validateDomainName (Idna.toASCII enc dec) s ≠ .ok none := by
  intro h
  obtain ⟨t, ht, _, _, hl⟩ := (validateDomainName_iff _ s).1 h
  have := Idna.hDot_model enc dec s t ht hd
  cases t with
  | nil => simp at this
  | cons c t =>
    simp at this; subst this
    have hsp : splitOn 46 (46 :: t) = [] :: splitOn 46 t := by simp [splitOn]
    rw [hsp] at hl
    cases hr : splitOn 46 t with
    | nil => exact absurd hr (splitOn_ne_nil 46 t)
    | cons p ps =>
      rw [hr] at hl
      have : DomainLabel [] := hl.1
      simp [DomainLabel] at this

/-- an upper-case `XN--` label is an ordinary label for `idna.ToASCII`, and a valid hostname
label -/
example : validateHostname (Idna.toASCII (fun _ => none) (fun _ => none)) (ascii "XN--a.example") = .ok none :=
  (accepted_iff _).1 (by decide)

end GolibsVerif.C03
