/-
C06 — `IsSpecialPurpose` / `IsLocallyServed` equal their documented network lists.

Everything named `Gen.Subnets.*` below is regenerated from `/repo/netutil/subnetset.go` on
every `./check` run (function bodies reified into `F`/`D`, doc comments into `List Pfx`), so
these theorems are re-checked against what the source says now.  The `…_check` obligations
are kernel evaluations of the reflective checker (`F.check_sound`); they cover all 2^32 and
all 2^128 addresses.
-/
import GolibsVerif.Lemmas.C06

namespace GolibsVerif.C06
open Gen.Subnets

/-! ### Generic facts (independent of the generated terms) -/

/-- Soundness of the reflective checker, restated: an accepted pair of formulas agrees on
every byte vector. -/
theorem check_sound (n k : Nat) (f g : F) (h : F.check n k f g = true)
    (ip : Nat → Nat) (hip : ∀ i, ip i < 256) : F.eval ip f = F.eval ip g :=
  F.check_sound n k f g h ip hip

/-- The byte formula of a prefix is bit-level containment of the big-endian number, for all
prefixes of a `w`-byte family and all `8w`-bit addresses. -/
theorem prefixF_spec (w : Nat) (p : Pfx) (n : Nat) (hp : p.wf w = true) (hn : n < 2 ^ (8 * w)) :
    F.eval (ipOf (toBytes w n)) (prefixF p) = true ↔
      n / 2 ^ (8 * w - p.bits) = beNat p.bytes / 2 ^ (8 * w - p.bits) := by
  rw [prefixF_correct w p n hp hn, containsB_iff]; rfl

/-- the counterexample finder only returns vectors on which the formulas really differ -/
theorem cex_sound (w : Nat) (f g : F) (v : List Nat) (h : F.cexVec w f g = some v) :
    F.eval (ipOf v) f ≠ F.eval (ipOf v) g := F.cexVec_sound w f g v h

/-! ### Obligations on the regenerated source -/

/-- the reified functions read only bytes inside their arrays -/
theorem gen_inScope :
    isLocallyServedV4.inScope 4 = true ∧ isSpecialPurposeV4.inScope 4 = true ∧
    isLocallyServedV6.inScope 16 = true ∧ isSpecialPurposeV6.inScope 16 = true := by
  decide +kernel

/-- every documented network is a well-formed IPv4 or IPv6 prefix -/
theorem doc_wf :
    (locallyServedDoc ++ specialPurposeDoc).all (fun p => p.wf 4 || p.wf 16) = true := by
  decide +kernel

theorem isLocallyServedV4_check :
    F.check 4 0 isLocallyServedV4 (docF 4 locallyServedDoc) = true := by decide +kernel

theorem isLocallyServedV6_check :
    F.check 16 0 isLocallyServedV6 (docF 16 locallyServedDoc) = true := by decide +kernel

theorem isSpecialPurposeV4_check :
    F.check 4 0 isSpecialPurposeV4 (docF 4 specialPurposeDoc) = true := by decide +kernel

theorem isSpecialPurposeV6_check :
    F.check 16 0 isSpecialPurposeV6 (docF 16 specialPurposeDoc) = true := by decide +kernel

/-- `IsLocallyServed`: zero value ↦ `false`; `Is4` ↦ `isLocallyServedV4(As4)`; every other
valid address (IPv6, zoned, 4in6) ↦ `isLocallyServedV6(As16)`; byte predicates = doc list -/
theorem isLocallyServed_obligations :
    Obligations IsLocallyServed isLocallyServedV4 isLocallyServedV6 locallyServedDoc where
  invalid := by decide +kernel
  v4 := by decide +kernel
  v4in6 := by decide +kernel
  v6 := by decide +kernel
  check4 := isLocallyServedV4_check
  check6 := isLocallyServedV6_check
  wf4 := by decide +kernel
  wf6 := by decide +kernel

theorem isSpecialPurpose_obligations :
    Obligations IsSpecialPurpose isSpecialPurposeV4 isSpecialPurposeV6 specialPurposeDoc where
  invalid := by decide +kernel
  v4 := by decide +kernel
  v4in6 := by decide +kernel
  v6 := by decide +kernel
  check4 := isSpecialPurposeV4_check
  check6 := isSpecialPurposeV6_check
  wf4 := by decide +kernel
  wf6 := by decide +kernel

/-! ### The property -/

/-- For every IPv4 address `n < 2^32`: `isLocallyServedV4` on its bytes is true exactly when
`n` lies in one of the documented IPv4 networks. -/
theorem isLocallyServedV4_iff (n : Nat) (hn : n < 2 ^ 32) :
    isLocallyServedV4.eval (ipOf (toBytes 4 n)) = true ↔
      ∃ p ∈ locallyServedDoc, p.bytes.length = 4 ∧ p.contains 4 n :=
  eval_iff_of_check 4 _ _ isLocallyServedV4_check isLocallyServed_obligations.wf4 n hn

theorem isLocallyServedV6_iff (n : Nat) (hn : n < 2 ^ 128) :
    isLocallyServedV6.eval (ipOf (toBytes 16 n)) = true ↔
      ∃ p ∈ locallyServedDoc, p.bytes.length = 16 ∧ p.contains 16 n :=
  eval_iff_of_check 16 _ _ isLocallyServedV6_check isLocallyServed_obligations.wf6 n hn

theorem isSpecialPurposeV4_iff (n : Nat) (hn : n < 2 ^ 32) :
    isSpecialPurposeV4.eval (ipOf (toBytes 4 n)) = true ↔
      ∃ p ∈ specialPurposeDoc, p.bytes.length = 4 ∧ p.contains 4 n :=
  eval_iff_of_check 4 _ _ isSpecialPurposeV4_check isSpecialPurpose_obligations.wf4 n hn

theorem isSpecialPurposeV6_iff (n : Nat) (hn : n < 2 ^ 128) :
    isSpecialPurposeV6.eval (ipOf (toBytes 16 n)) = true ↔
      ∃ p ∈ specialPurposeDoc, p.bytes.length = 16 ∧ p.contains 16 n :=
  eval_iff_of_check 16 _ _ isSpecialPurposeV6_check isSpecialPurpose_obligations.wf6 n hn

/-- **`IsLocallyServed`**: for every `netip.Addr` (zero value, IPv4, IPv6 with any zone, 4in6)
the function returns without panicking; it returns `true` exactly when the address lies in
one of the RFC 6303 networks enumerated in its documentation (of the address's own family),
and `false` exactly when it lies in none. -/
theorem isLocallyServed_iff (x : Addr) :
    (isLocallyServed x = .ok true ↔ x.InDoc locallyServedDoc) ∧
    (isLocallyServed x = .ok false ↔ ¬ x.InDoc locallyServedDoc) :=
  isLocallyServed_obligations.iff x

/-- **`IsSpecialPurpose`**: the same for the IANA special-purpose registry networks
enumerated in its documentation. -/
theorem isSpecialPurpose_iff (x : Addr) :
    (isSpecialPurpose x = .ok true ↔ x.InDoc specialPurposeDoc) ∧
    (isSpecialPurpose x = .ok false ↔ ¬ x.InDoc specialPurposeDoc) :=
  isSpecialPurpose_obligations.iff x

/-- the invalid (zero) address is in neither set -/
theorem invalid_in_neither :
    isLocallyServed .invalid = .ok false ∧ isSpecialPurpose .invalid = .ok false :=
  ⟨(isLocallyServed_iff .invalid).2.2 (by simp [Addr.InDoc]),
   (isSpecialPurpose_iff .invalid).2.2 (by simp [Addr.InDoc])⟩

/-- the zone of an IPv6 address does not influence either result -/
theorem zone_irrelevant (a : BitVec 128) (z z' : String) :
    isLocallyServed (.v6 a z) = isLocallyServed (.v6 a z') ∧
    isSpecialPurpose (.v6 a z) = isSpecialPurpose (.v6 a z') := by
  constructor
  · obtain ⟨b, h1, hb⟩ := isLocallyServed_obligations.eval_eq (.v6 a z)
    obtain ⟨b', h2, hb'⟩ := isLocallyServed_obligations.eval_eq (.v6 a z')
    have : b = b' := by
      have : (b = true) ↔ (b' = true) := hb.trans hb'.symm
      cases b <;> cases b' <;> simp_all
    subst this
    exact h1.trans h2.symm
  · obtain ⟨b, h1, hb⟩ := isSpecialPurpose_obligations.eval_eq (.v6 a z)
    obtain ⟨b', h2, hb'⟩ := isSpecialPurpose_obligations.eval_eq (.v6 a z')
    have : b = b' := by
      have : (b = true) ↔ (b' = true) := hb.trans hb'.symm
      cases b <;> cases b' <;> simp_all
    subst this
    exact h1.trans h2.symm

/-! ### Sanity of the specification (fixed literals, independent of the generated lists) -/

-- `100::/64` contains `100::1` and not `100:0:0:1::`; `100::/48` would contain both
example : (⟨[1,0,0,0,0,0,0,0,0,0,0,0,0,0,0,0], 64⟩ : Pfx).contains 16 0x01000000000000000000000000000001 := by decide
example : ¬ (⟨[1,0,0,0,0,0,0,0,0,0,0,0,0,0,0,0], 64⟩ : Pfx).contains 16 0x01000000000000010000000000000000 := by decide
example : (⟨[1,0,0,0,0,0,0,0,0,0,0,0,0,0,0,0], 48⟩ : Pfx).contains 16 0x01000000000000010000000000000000 := by decide
-- 172.16.0.0/12: 172.31.255.255 in, 172.32.0.0 out; /0 contains everything; /32 only itself
example : (⟨[172,16,0,0], 12⟩ : Pfx).contains 4 0xAC1FFFFF ∧ ¬ (⟨[172,16,0,0], 12⟩ : Pfx).contains 4 0xAC200000 := by decide
example : (⟨[0,0,0,0], 0⟩ : Pfx).contains 4 0xFFFFFFFF := by decide
example : (⟨[255,255,255,255], 32⟩ : Pfx).contains 4 0xFFFFFFFF ∧ ¬ (⟨[255,255,255,255], 32⟩ : Pfx).contains 4 0xFFFFFFFE := by decide
-- the hypotheses of `prefixF_spec` are satisfiable, and the formula is what one expects
example : (⟨[172,16,0,0], 12⟩ : Pfx).wf 4 = true ∧
    prefixF ⟨[172,16,0,0], 12⟩ = .and (.atom 0 255 172) (.atom 1 240 16) := by decide
-- the checker rejects a wrong mask width and `cexVec` produces the witness
example : F.check 16 0 (prefixF ⟨[1,0,0,0,0,0,0,0,0,0,0,0,0,0,0,0], 48⟩)
    (prefixF ⟨[1,0,0,0,0,0,0,0,0,0,0,0,0,0,0,0], 64⟩) = false := by decide +kernel
example : F.cexVec 16 (prefixF ⟨[1,0,0,0,0,0,0,0,0,0,0,0,0,0,0,0], 48⟩)
    (prefixF ⟨[1,0,0,0,0,0,0,0,0,0,0,0,0,0,0,0], 64⟩) = some [1,0,0,0,0,0,0,1,0,0,0,0,0,0,0,0] := by decide +kernel

-- `ip = ip.Unmap()` before the `Is4` test (the translator emits `D.unmap`): a 4in6 address
-- reaches the IPv4 predicate, evaluated on the unmapped address, so the `v4in6` obligation
-- (`= .on16 f6`) cannot hold; the other three kinds are not affected
example (f4 f6 : F) :
    (D.unmap (.ite .is4 (.on4 f4) (.on16 f6))).reach .v4in6 = .unmap (.on4 f4) ∧
    (D.unmap (.ite .is4 (.on4 f4) (.on16 f6))).reach .v4 = .on4 f4 ∧
    (D.unmap (.ite .is4 (.on4 f4) (.on16 f6))).reach .v6 = .on16 f6 := by
  simp [D.reach, Cond.holds]
example : (D.unmap (.ite .is4 (.on4 .ff) (.on16 .ff))).reach .v4in6 ≠ .on16 .ff := by decide
-- … and the model then really runs the IPv4 predicate on `10.0.0.1` for `::ffff:10.0.0.1`
example : (D.unmap (.ite .is4 (.on4 (prefixF ⟨[10,0,0,0], 8⟩)) (.on16 .ff))).eval
    (.v6 0x00000000000000000000ffff0a000001#128 "") = .ok true := by decide +kernel
-- an `Unmap` that only IPv4 addresses reach is the identity and changes nothing
example (f4 f6 : F) (k : Kind) :
    (D.ite .is4 (.unmap (.on4 f4)) (.on16 f6)).reach k = (D.ite .is4 (.on4 f4) (.on16 f6)).reach k := by
  cases k <;> simp [D.reach, Cond.holds]
-- the tagless `switch { case Is4: …; case Is6: …; default: false }` meets the four dispatch
-- obligations just like `if !IsValid {false}; if Is4 {…}; …`
example (f4 f6 : F) (k : Kind) :
    (D.ite .is4 (.on4 f4) (.ite .is6 (.on16 f6) (.ret false))).reach k =
    (D.ite .isValid (.ite .is4 (.on4 f4) (.on16 f6)) (.ret false)).reach k := by
  cases k <;> simp [D.reach, Cond.holds]

end GolibsVerif.C06
