/-
C12 — property theorems for `netutil/addrconv.go` and `netutil/sort.go`
(models in `Model/C12.lean`, reference notions in `Spec/C12.lean`).
Only property theorems and non-vacuity examples live here.
-/
import GolibsVerif.Lemmas.C12

set_option linter.unusedSimpArgs false

namespace GolibsVerif.C12

/-! ### IPToAddr / IPToAddrNoMapped -/

/-- `IPToAddr` for the two families: it succeeds exactly when the normal form of the
requested family (`To4` resp. `To16`) is non-nil; then the result has that family, exactly
the normalised bytes and no zone; otherwise it returns an error.  It never panics. -/
theorem ipToAddr_spec (ip : Option Bytes) (fam : Nat) (hf : fam = famV4 ∨ fam = famV6) :
    match normalised fam ip with
    | some nb => ∃ a, ipToAddr ip fam = .ok (.ok a) ∧ a.bytes = nb ∧ a.zoneOf = [] ∧
        a.is4 = decide (fam = famV4) ∧ a.is6 = decide (fam = famV6)
    | none => ∃ e, ipToAddr ip fam = .ok (.error e) := by
  cases ip with
  | none => exact ⟨.nilIP, rfl⟩
  | some b =>
    rcases hf with rfl | rfl
    · -- IPv4
      simp only [normalised, if_true]
      cases h : to4 b with
      | none => exact ⟨.bad4, by simp [ipToAddr, h, pure, Except.pure]⟩
      | some b4 =>
        have hl := to4_some_length h
        refine ⟨.v4 b4, ?_, rfl, rfl, by simp [Addr.is4], by simp [Addr.is6, famV4, famV6]⟩
        simp [ipToAddr, h, fromSlice, orNil, addrFromSlice, hl, pure, Except.pure]
    · -- IPv6
      have hne : ¬ famV6 = famV4 := by decide
      simp only [normalised, hne, if_false]
      cases h : to16 b with
      | none =>
        rcases to16_cases b with ⟨_, e⟩ | ⟨_, e⟩ | ⟨h4, h16, _⟩
        · rw [e] at h; simp at h
        · rw [e] at h; simp at h
        · exact ⟨.badIP, by simp [ipToAddr, hne, h, fromSlice, orNil, addrFromSlice, pure, Except.pure]⟩
      | some b16 =>
        have hl := to16_some_length h
        refine ⟨.v6 b16 [], ?_, rfl, rfl, by simp [Addr.is4, famV4, famV6], by simp [Addr.is6]⟩
        simp [ipToAddr, hne, h, fromSlice, orNil, addrFromSlice, hl, pure, Except.pure]

/-- `IPToAddrNoMapped`: a 4-byte or IPv4-mapped value becomes the IPv4 address with the
`To4` bytes; any other 16-byte value becomes the IPv6 address with the same bytes, which is
then not IPv4-mapped; everything else (nil included) is an error.  Never panics. -/
theorem noMapped_unmaps (ip : Option Bytes) :
    match to4 (orNil ip), to16 (orNil ip) with
    | some b4, _ => ipToAddrNoMapped ip = .ok (.ok (.v4 b4))
    | none, some b16 => ipToAddrNoMapped ip = .ok (.ok (.v6 b16 [])) ∧ (Addr.v6 b16 []).is4In6 = false
    | none, none => ∃ e, ipToAddrNoMapped ip = .ok (.error e) := by
  cases h4 : to4 (orNil ip) with
  | some b4 =>
    have hl := to4_some_length h4
    unfold ipToAddrNoMapped
    rw [h4]
    simp [ipToAddr, to4_of_length4 hl, fromSlice, orNil, addrFromSlice, hl, pure, Except.pure]
  | none =>
    have hne : ¬ famV6 = famV4 := by decide
    cases ip with
    | none => exact ⟨.nilIP, by simp [ipToAddrNoMapped, orNil, to4, ipToAddr, pure, Except.pure]⟩
    | some b =>
      simp only [orNil, Option.getD_some] at h4 ⊢
      cases h16 : to16 b with
      | none =>
        exact ⟨.badIP, by simp [ipToAddrNoMapped, orNil, h4, ipToAddr, hne, h16, fromSlice,
          addrFromSlice, pure, Except.pure]⟩
      | some b16 =>
        have hl := to16_some_length h16
        refine ⟨by simp [ipToAddrNoMapped, orNil, h4, ipToAddr, hne, h16, fromSlice,
          addrFromSlice, hl, pure, Except.pure], ?_⟩
        rcases to16_cases b with ⟨l4, _⟩ | ⟨l16, e⟩ | ⟨_, _, e⟩
        · rw [to4_of_length4 l4] at h4; simp at h4
        · rw [e] at h16; simp at h16; subst h16
          rcases to4_cases b with ⟨_, e4⟩ | ⟨_, _, e4⟩ | ⟨⟨_, hnm⟩, _⟩
          · rw [e4] at h4; simp at h4
          · rw [e4] at h4; simp at h4
          · cases hm : (Addr.v6 b []).is4In6 with
            | false => rfl
            | true => exact absurd ⟨l16, (is4In6_v6 b []).mp hm⟩ hnm
        · rw [e] at h16; simp at h16

/-- the result of `IPToAddrNoMapped` is never an IPv4-mapped IPv6 address -/
theorem noMapped_not_4in6 (ip : Option Bytes) (a : Addr) (h : ipToAddrNoMapped ip = .ok (.ok a)) :
    a.is4In6 = false := by
  have := noMapped_unmaps ip
  cases h4 : to4 (orNil ip) with
  | some b4 =>
    simp only [h4] at this
    rw [this] at h; simp at h; subst h; rfl
  | none =>
    cases h16 : to16 (orNil ip) with
    | some b16 =>
      simp only [h4, h16] at this
      rw [this.1] at h; simp at h; subst h; exact this.2
    | none =>
      simp only [h4, h16] at this
      obtain ⟨e, he⟩ := this
      rw [he] at h; simp at h

/-! ### NetAddrToAddrPort -/

/-- `NetAddrToAddrPort` on a `*net.TCPAddr` / `*net.UDPAddr`: the port is kept (ports are
0..65535); a 4-byte IP gives that IPv4 address, an IPv4-mapped IP gives the IPv4 address of
its last four bytes (an IPv4 `netip.Addr` has no zone), any other 16-byte IP gives the IPv6
address with the same bytes and the same zone; any other length gives the invalid Addr. -/
theorem netAddr_preserves (ip : Bytes) (port : Int) (zone : Bytes) (hp : 0 ≤ port ∧ port < 65536) :
    netAddrToAddrPort (.udp ip port zone) = netAddrToAddrPort (.tcp ip port zone) ∧
    (netAddrToAddrPort (.tcp ip port zone)).port = port.toNat ∧
    (netAddrToAddrPort (.tcp ip port zone)).addr.is4In6 = false ∧
    (netAddrToAddrPort (.tcp ip port zone)).addr =
      match to4 ip with
      | some b4 => .v4 b4
      | none => if ip.length = 16 then .v6 ip zone else .zero := by
  have hport : (port % 65536).toNat = port.toNat := by
    rw [Int.emod_eq_of_lt hp.1 hp.2]
  refine ⟨rfl, ?_⟩
  rcases to4_cases ip with ⟨l4, e⟩ | ⟨l16, hm, e⟩ | ⟨⟨n4, nm⟩, e⟩
  · simp [netAddrToAddrPort, sockAddrPort, addrFromSlice, l4, e, Addr.withZone, Addr.is4In6, hport]
  · have h4 : ¬ ip.length = 4 := by omega
    have hm' : (Addr.v6 ip zone).is4In6 = true := (is4In6_v6 ip zone).mpr hm
    simp [netAddrToAddrPort, sockAddrPort, addrFromSlice, h4, l16, e, Addr.withZone, hm',
      Addr.unmap, hport, Addr.is4In6, hm]
  · by_cases l16 : ip.length = 16
    · have hm' : (Addr.v6 ip zone).is4In6 = false := by
        cases hm : (Addr.v6 ip zone).is4In6 with
        | false => rfl
        | true => exact absurd ⟨l16, (is4In6_v6 ip zone).mp hm⟩ nm
      simp [netAddrToAddrPort, sockAddrPort, addrFromSlice, n4, l16, e, Addr.withZone, hm', hport]
    · simp [netAddrToAddrPort, sockAddrPort, addrFromSlice, n4, l16, e, Addr.withZone,
        Addr.is4In6, hport]

/-- the other `net.Addr` kinds: values without an `AddrPort` method, the nil interface and
nil `*TCPAddr`/`*UDPAddr` give the zero `AddrPort`; any other implementation's answer is
passed through with only an IPv4-mapped address unmapped (port kept) -/
theorem netAddr_other_kinds :
    netAddrToAddrPort .nil = ⟨.zero, 0⟩ ∧ netAddrToAddrPort .other = ⟨.zero, 0⟩ ∧
    netAddrToAddrPort .tcpNil = ⟨.zero, 0⟩ ∧ netAddrToAddrPort .udpNil = ⟨.zero, 0⟩ ∧
    ∀ ap : AddrPort, netAddrToAddrPort (.custom ap) = ⟨ap.addr.unmap, ap.port⟩ := by
  refine ⟨rfl, rfl, rfl, rfl, ?_⟩
  intro ap
  cases hm : ap.addr.is4In6 with
  | true => simp [netAddrToAddrPort, hm]
  | false =>
    have : ap.addr.unmap = ap.addr := by
      cases h : ap.addr with
      | zero => rfl
      | v4 b => rfl
      | v6 b z => rw [h] at hm; simp [Addr.unmap, hm]
    simp [netAddrToAddrPort, hm, this]


/-! ### IPNetToPrefix / IPNetToPrefixNoMapped -/

/-
Full statement of the membership claim as the property has it (DESIGN.md §5):

    ipNetToPrefix (some n) fam = ok p → maskLen n = addrLen p →
      ∀ x of p's family (IPv6: not 4in6, no zone), p.contains x = ipNetContains n x.bytes

This statement is FALSE, for the model and for the real code alike: see
`prefix_membership_mapped_gap` below (an IPv4 / IPv4-mapped network number converted under
`AddrFamilyIPv6` with a 16-byte mask of fewer than 96 ones).  What is proved is the statement
with exactly that case excluded (`hmap`), hence the name `…_partial`; for
`IPNetToPrefixNoMapped` the claim holds without the exclusion (`prefix_membership_noMapped`).
-/

/-- Membership is preserved.  If `IPNetToPrefix` (repaired) returns `p` for subnet `n`, the
mask is as long as the converted address, and — the one extra hypothesis, shown necessary
by `prefix_membership_mapped_gap` — the converted address is not IPv4-mapped or the prefix
has at least 96 bits, then for every zone-less address `x` of `p`'s family (IPv6: not
IPv4-mapped) `p.Contains(x)` equals `n.Contains(x.AsSlice())`. -/
theorem prefix_membership_partial (n : IPNet) (fam : Nat) (p : Prefix)
    (hip : IsByte (orNil n.ip)) (hmask : IsByte (orNil n.mask))
    (h : ipNetToPrefix (some n) fam = .ok (.ok p))
    (hlen : (orNil n.mask).length = p.addr.bytes.length)
    (hmap : p.addr.is4In6 = false ∨ 96 ≤ p.bits)
    (x : Addr) (hxwf : x.WF) (hfam : x.bitLen = p.addr.bitLen)
    (hx46 : x.is4In6 = false) (hxz : x.zoneOf = []) :
    p.contains x = ipNetContains n x.bytes := by
  obtain ⟨addr, ones, hc, hs, hne, hle, hv, rfl⟩ := ipNetToPrefix_ok h
  obtain ⟨_, hmeq⟩ := simpleMaskLength_some _ hmask ones hs
  cases hnip : n.ip with
  | none => rw [hnip] at hc; simp [ipToAddr, pure, Except.pure] at hc
  | some b =>
    rw [hnip] at hc hip
    simp only [orNil, Option.getD_some] at hip
    by_cases hf4 : fam = famV4
    · -- IPv4
      subst hf4
      cases h4 : to4 b with
      | none => simp [ipToAddr, h4, pure, Except.pure] at hc
      | some b4 =>
        have hl4 := to4_some_length h4
        simp [ipToAddr, h4, fromSlice, orNil, addrFromSlice, hl4, pure, Except.pure] at hc
        subst hc
        simp only [Addr.withoutZone, Addr.bytes, Addr.bitLen] at hlen hfam hle ⊢
        rw [hl4] at hlen
        -- x is an IPv4 address
        cases x with
        | zero => simp [Addr.bitLen] at hfam
        | v6 xb z => simp [Addr.bitLen] at hfam
        | v4 xb =>
          obtain ⟨hxl, hxb⟩ := hxwf
          have hto4 : to4 (orNil n.ip) = some b4 := by simp [hnip, orNil, h4]
          rw [Bool.eq_iff_iff, contains_iff _ _ _ (by rfl) (by simp [Addr.bitLen]) hxz]
          simp only [ipNetContains, nnm_to4 hto4, hlen, if_true, Addr.bytes, to4_of_length4 hxl,
            hxl, hl4, ne_eq, not_true_eq_false, if_false, Addr.bitLen]
          have hb4 : IsByte b4 := by
            rcases to4_cases b with ⟨_, e⟩ | ⟨_, _, e⟩ | ⟨_, e⟩
            · rw [e] at h4; simp at h4; subst h4; exact hip
            · rw [e] at h4; simp at h4; subst h4; exact hip.drop 12
            · rw [e] at h4; simp at h4
          have hk : ones ≤ 8 * b4.length := by rw [hl4]; omega
          have hB := maskedEq_cidr b4 xb ones (by rw [hl4, hxl]) hb4 hxb hk
          rw [hl4] at hB
          rw [hlen] at hmeq
          rw [hmeq, hB]
          exact eq_comm
    · by_cases hf6 : fam = famV6
      · subst hf6
        have hne : ¬ famV6 = famV4 := by decide
        cases h16 : to16 b with
        | none =>
          simp [ipToAddr, hne, h16, fromSlice, orNil, addrFromSlice, pure, Except.pure] at hc
        | some b16 =>
          have hl16 := to16_some_length h16
          simp [ipToAddr, hne, h16, fromSlice, orNil, addrFromSlice, hl16, pure, Except.pure] at hc
          subst hc
          simp only [Addr.withoutZone, Addr.bytes, Addr.bitLen] at hlen hfam hle hmap ⊢
          rw [hl16] at hlen
          have hb16 : IsByte b16 := by
            rcases to16_cases b with ⟨_, e⟩ | ⟨_, e⟩ | ⟨_, _, e⟩
            · rw [e] at h16; simp at h16; subst h16; exact isByte_v4InV6Prefix.append hip
            · rw [e] at h16; simp at h16; subst h16; exact hip
            · rw [e] at h16; simp at h16
          cases x with
          | zero => simp [Addr.bitLen] at hfam
          | v4 xb => simp [Addr.bitLen] at hfam
          | v6 xb z =>
            obtain ⟨hxl, hxb⟩ := hxwf
            have hz : z = [] := hxz
            subst hz
            have hxnm : ¬ xb.take 12 = v4InV6Prefix := by
              intro hm
              have := (is4In6_v6 xb []).mpr hm
              rw [this] at hx46; simp at hx46
            have hxto4 : to4 xb = none := by
              rcases to4_cases xb with ⟨l4, _⟩ | ⟨_, hm, _⟩ | ⟨_, e⟩
              · omega
              · exact absurd hm hxnm
              · exact e
            have hk : ones ≤ 8 * b16.length := by rw [hl16]; omega
            have hB := maskedEq_cidr b16 xb ones (by rw [hl16, hxl]) hb16 hxb hk
            rw [hl16] at hB
            rw [hlen] at hmeq
            rw [Bool.eq_iff_iff, contains_iff _ _ _ (by rfl) (by simp [Addr.bitLen]) hxz]
            simp only [Addr.bytes, Addr.bitLen]
            cases h4 : to4 b with
            | none =>
              -- a genuine 16-byte IPv6 network number
              have hbl : b.length = 16 ∧ b16 = b := by
                rcases to16_cases b with ⟨l4, _⟩ | ⟨l16, e⟩ | ⟨_, _, e⟩
                · rw [to4_of_length4 l4] at h4; simp at h4
                · rw [e] at h16; simp at h16; exact ⟨l16, h16.symm⟩
                · rw [e] at h16; simp at h16
              obtain ⟨hbl, rfl⟩ := hbl
              have hto4 : to4 (orNil n.ip) = none := by simp [hnip, orNil, h4]
              have hnl : (orNil n.ip).length = 16 := by simp [hnip, orNil, hbl]
              have hnipb : orNil n.ip = b16 := by simp [hnip, orNil]
              simp only [ipNetContains, nnm_16 hto4 hnl, hlen, if_true, hxto4, hxl, hnipb,
                hbl, ne_eq, not_true_eq_false, if_false]
              rw [hmeq, hB]
              exact eq_comm
            | some b4 =>
              -- an IPv4 / IPv4-mapped network number converted under the IPv6 family
              have hl4 := to4_some_length h4
              have hto4 : to4 (orNil n.ip) = some b4 := by simp [hnip, orNil, h4]
              have hmapped : (Addr.v6 b16 []).is4In6 = true := by
                rw [is4In6_v6]
                rcases to4_cases b with ⟨l4, _⟩ | ⟨l16, hm, _⟩ | ⟨_, e⟩
                · rcases to16_cases b with ⟨_, e⟩ | ⟨l16, _⟩ | ⟨n4, _, _⟩
                  · rw [e] at h16; simp at h16; subst h16; simp [v4InV6Prefix]
                  · omega
                  · omega
                · rcases to16_cases b with ⟨l4, _⟩ | ⟨_, e⟩ | ⟨_, n16, _⟩
                  · omega
                  · rw [e] at h16; simp at h16; subst h16; exact hm
                  · omega
                · rw [e] at h4; simp at h4
              have h96 : 96 ≤ ones := by
                rcases hmap with hm | hm
                · rw [hmapped] at hm; simp at hm
                · simp [Prefix.bits] at hm; omega
              have hl4' : ¬ ((orNil n.mask).length = 4) := by omega
              simp only [ipNetContains, nnm_to4 hto4, hl4', hlen, if_true, if_false, hxto4, hxl, hl4]
              simp only [ne_eq, Nat.reduceEqDiff, not_false_eq_true, if_true]
              constructor
              · intro hdiv
                exfalso
                have hme := hB.mpr hdiv.symm
                have ht := maskedEq_cidr_take b16 xb ones 12 (by rw [hl16, hxl]) hb16 hxb
                  (by omega) (by rw [hl16]; exact hme)
                apply hxnm
                rw [← ht]
                exact (is4In6_v6 b16 []).mp hmapped
              · intro hf; simp at hf; omega
      · simp [ipToAddr, hf4, hf6] at hc


/-- A nil, empty or non-contiguous mask is rejected, never widened: neither function returns
a prefix, and for the two families `IPNetToPrefix` returns an error (it does not panic). -/
theorem bad_mask_rejected (n : IPNet) (fam : Nat) (hmask : IsByte (orNil n.mask))
    (hbad : n.mask = none ∨ orNil n.mask = [] ∨ ¬ Contiguous (orNil n.mask)) :
    (∀ p, ipNetToPrefix (some n) fam ≠ .ok (.ok p)) ∧
    (∀ p, ipNetToPrefixNoMapped (some n) ≠ .ok (.ok p)) ∧
    ((fam = famV4 ∨ fam = famV6) → ∃ e, ipNetToPrefix (some n) fam = .ok (.error e)) := by
  have key : ∀ (n' : IPNet) (fam' : Nat), n'.mask = n.mask → ∀ p, ipNetToPrefix (some n') fam' ≠ .ok (.ok p) := by
    intro n' fam' hm p h
    obtain ⟨addr, ones, _, hs, hne, _, _, _⟩ := ipNetToPrefix_ok h
    rw [hm] at hs hne
    rcases hbad with hnone | hnil | hnc
    · apply hne; simp [hnone, orNil]
    · exact hne hnil
    · exact hnc ⟨ones, simpleMaskLength_some _ hmask ones hs⟩
  refine ⟨key n fam rfl, ?_, ?_⟩
  · intro p
    cases h4 : to4 (orNil n.ip) with
    | some ip4 =>
      simp only [ipNetToPrefixNoMapped, h4]
      exact key { ip := some ip4, mask := n.mask } famV4 rfl p
    | none =>
      simp only [ipNetToPrefixNoMapped, h4]
      exact key _ _ rfl p
  · intro hf
    obtain ⟨r, hr⟩ := ipNetToPrefix_total (some n) fam hf
    cases r with
    | error e => exact ⟨e, hr⟩
    | ok p => exact absurd hr (key n fam rfl p)


/-- For `AddrFamilyIPv4` the membership claim holds at full strength (the converted address
is an IPv4 address, so the exclusion of `prefix_membership_partial` is vacuous). -/
theorem prefix_membership_v4 (n : IPNet) (p : Prefix)
    (hip : IsByte (orNil n.ip)) (hmask : IsByte (orNil n.mask))
    (h : ipNetToPrefix (some n) famV4 = .ok (.ok p))
    (hlen : (orNil n.mask).length = p.addr.bytes.length)
    (x : Addr) (hxwf : x.WF) (hfam : x.bitLen = p.addr.bitLen)
    (hx46 : x.is4In6 = false) (hxz : x.zoneOf = []) :
    p.contains x = ipNetContains n x.bytes := by
  obtain ⟨addr, ones, hc, _, _, _, _, hp⟩ := ipNetToPrefix_ok h
  obtain ⟨b, hb, hsh⟩ := ipToAddr_ok_shape hc
  have hnot : p.addr.is4In6 = false := by
    rcases hsh with ⟨_, b4, _, ha⟩ | ⟨hf, _⟩
    · subst ha; subst hp; rfl
    · exact absurd hf (by decide)
  exact prefix_membership_partial n famV4 p hip hmask h hlen (Or.inl hnot) x hxwf hfam hx46 hxz

/-- `IPNetToPrefixNoMapped`: membership is preserved whenever the mask is as long as the
converted address — no further hypothesis, because the converted address is never
IPv4-mapped here. -/
theorem prefix_membership_noMapped (n : IPNet) (p : Prefix)
    (hip : IsByte (orNil n.ip)) (hmask : IsByte (orNil n.mask))
    (h : ipNetToPrefixNoMapped (some n) = .ok (.ok p))
    (hlen : (orNil n.mask).length = p.addr.bytes.length)
    (x : Addr) (hxwf : x.WF) (hfam : x.bitLen = p.addr.bitLen)
    (hx46 : x.is4In6 = false) (hxz : x.zoneOf = []) :
    p.contains x = ipNetContains n x.bytes := by
  cases h4 : to4 (orNil n.ip) with
  | some ip4 =>
    simp only [ipNetToPrefixNoMapped, h4] at h
    have hl4 := to4_some_length h4
    have hip4 : IsByte ip4 := by
      rcases to4_cases (orNil n.ip) with ⟨_, e⟩ | ⟨_, _, e⟩ | ⟨_, e⟩
      · rw [e] at h4; simp at h4; subst h4; exact hip
      · rw [e] at h4; simp at h4; subst h4; exact hip.drop 12
      · rw [e] at h4; simp at h4
    obtain ⟨addr, ones, hc, _, _, _, _, hp⟩ := ipNetToPrefix_ok h
    obtain ⟨b, hb, hsh⟩ := ipToAddr_ok_shape hc
    have hnot : p.addr.is4In6 = false := by
      rcases hsh with ⟨_, b4, _, ha⟩ | ⟨hf, _⟩
      · subst ha; subst hp; rfl
      · exact absurd hf (by decide)
    have := prefix_membership_partial { ip := some ip4, mask := n.mask } famV4 p (by simpa [orNil] using hip4)
      hmask h hlen (Or.inl hnot) x hxwf hfam hx46 hxz
    rw [this]
    have e1 : networkNumberAndMask { ip := some ip4, mask := n.mask } = networkNumberAndMask n := by
      rw [nnm_to4 (n := { ip := some ip4, mask := n.mask }) (b4 := ip4)
        (by simpa [orNil] using to4_of_length4 hl4), nnm_to4 h4]
    simp only [ipNetContains, e1]
  | none =>
    simp only [ipNetToPrefixNoMapped, h4] at h
    obtain ⟨addr, ones, hc, _, _, _, _, hp⟩ := ipNetToPrefix_ok h
    obtain ⟨b, hb, hsh⟩ := ipToAddr_ok_shape hc
    have hnot : p.addr.is4In6 = false := by
      rcases hsh with ⟨hf, _⟩ | ⟨_, b16, h16, ha⟩
      · exact absurd hf (by decide)
      · subst ha; subst hp
        rw [hb] at h4
        simp only [orNil, Option.getD_some] at h4
        obtain ⟨rfl, _, hnm⟩ := to16_of_to4_none h4 h16
        cases hm : (Addr.v6 b16 []).withoutZone.is4In6 with
        | false => rfl
        | true => exact absurd ((is4In6_v6 b16 []).mp hm) hnm
    exact prefix_membership_partial n famV6 p hip hmask h hlen (Or.inl hnot) x hxwf hfam hx46 hxz

/-- The extra hypothesis of `prefix_membership_partial` cannot be dropped: for the IPv4-mapped
network number `::ffff:1.2.3.4` with the 16-byte mask `/0`, `IPNetToPrefix(…, IPv6)` returns
`::ffff:1.2.3.4/0`, which contains `2001:db8::1`, while `net.IPNet` (which treats the
network number as IPv4 and slices the mask) does not.  The real code behaves the same
(`KNOWN_FINDINGS.json`, `C12-mapped6`). -/
theorem prefix_membership_mapped_gap :
    ∃ (n : IPNet) (p : Prefix) (x : Addr),
      IsByte (orNil n.ip) ∧ IsByte (orNil n.mask) ∧
      ipNetToPrefix (some n) famV6 = .ok (.ok p) ∧
      (orNil n.mask).length = p.addr.bytes.length ∧
      x.WF ∧ x.bitLen = p.addr.bitLen ∧ x.is4In6 = false ∧ x.zoneOf = [] ∧
      p.contains x = true ∧ ipNetContains n x.bytes = false := by
  refine ⟨⟨some [0, 0, 0, 0, 0, 0, 0, 0, 0, 0, 255, 255, 1, 2, 3, 4], some (List.replicate 16 0)⟩,
    ⟨.v6 [0, 0, 0, 0, 0, 0, 0, 0, 0, 0, 255, 255, 1, 2, 3, 4] [], 1⟩,
    .v6 [0x20, 0x01, 0x0d, 0xb8, 0, 0, 0, 0, 0, 0, 0, 0, 0, 0, 0, 1] [], ?_, ?_, ?_, ?_, ?_, ?_, ?_, ?_, ?_, ?_⟩
  · intro x hx; simp [orNil] at hx; omega
  · intro x hx; simp [orNil] at hx; omega
  · rfl
  · decide
  · refine ⟨by decide, ?_⟩
    intro x hx; simp at hx; omega
  · decide
  · decide
  · decide
  · decide
  · decide

/-- Canonical masks are accepted (the repaired code does not reject more than it must):
if the address converts, the mask is `CIDRMask(k, 8*len)` with `len ≠ 0` and `k` does not
exceed the address's bit length, the result is the prefix with exactly `k` bits. -/
theorem canonical_mask_accepted (n : IPNet) (fam : Nat) (addr : Addr) (k len : Nat)
    (hc : ipToAddr n.ip fam = .ok (.ok addr)) (hm : orNil n.mask = cidrMask k len)
    (hlen : len ≠ 0) (hk : k ≤ 8 * len) (hkb : k ≤ addr.bitLen) :
    ipNetToPrefix (some n) fam = .ok (.ok ⟨addr.withoutZone, k + 1⟩) := by
  have hvalid : addr.isValid = true := by
    obtain ⟨b, _, hsh⟩ := ipToAddr_ok_shape hc
    rcases hsh with ⟨_, b4, _, ha⟩ | ⟨_, b16, _, ha⟩ <;> subst ha <;> rfl
  have hl : (cidrMask k len).length * 8 ≠ 0 := by rw [cidrMask_length]; omega
  simp [ipNetToPrefix, hc, bind, Except.bind, pure, Except.pure, hm, maskSize,
    simpleMaskLength_cidrMask k len hk, hl, prefixFrom, Prefix.isValid, hvalid, hkb]


/-! ### PreferIPv4 / PreferIPv6 -/

/-- `PreferIPv4(a, b) < 0` exactly when `key a < key b`, with `key = (class, address)`:
class 0 = valid IPv4, 1 = valid IPv6, 2 = invalid; the address is its numeric value, then
(IPv6) its zone.  The same for `PreferIPv6` with the classes of the families swapped. -/
theorem prefer_key (a b : Addr) :
    (preferIPv4 a b < 0 ↔ keyLt (key Addr.is4 a) (key Addr.is4 b)) ∧
    (preferIPv6 a b < 0 ↔ keyLt (key Addr.is6 a) (key Addr.is6 b)) :=
  ⟨prefer_key_gen _ famSeparates_is4 a b, prefer_key_gen _ famSeparates_is6 a b⟩

/-- hence both comparators are strict weak orders, which is what `slices.SortFunc` requires -/
theorem prefer_strict_weak :
    StrictWeakOrder (fun a b => preferIPv4 a b < 0) ∧ StrictWeakOrder (fun a b => preferIPv6 a b < 0) :=
  ⟨prefer_strict_weak_gen _ famSeparates_is4, prefer_strict_weak_gen _ famSeparates_is6⟩

/-- The ordering claim, for every function `sort` that meets SORT-1 (in particular
`slices.SortFunc`) and every slice: the result is a permutation of the input in which valid
IPv4 (IPv6) addresses come first in ascending `Addr.Compare` order, then the valid
addresses of the other family in ascending order, then the invalid ones. -/
theorem sortFunc_order (sort : (Addr → Addr → Int) → List Addr → List Addr) (hs : SortContract sort)
    (l : List Addr) :
    ((sort preferIPv4 l).Perm l ∧ StatedOrder Addr.is4 (sort preferIPv4 l)) ∧
    ((sort preferIPv6 l).Perm l ∧ StatedOrder Addr.is6 (sort preferIPv6 l)) :=
  ⟨⟨hs.perm _ l prefer_strict_weak.1,
     sorted_stated_gen _ famSeparates_is4 _ (hs.sorted preferIPv4 l prefer_strict_weak.1)⟩,
   ⟨hs.perm _ l prefer_strict_weak.2,
     sorted_stated_gen _ famSeparates_is6 _ (hs.sorted preferIPv6 l prefer_strict_weak.2)⟩⟩

/-- `StatedOrder` read as three consecutive segments: the list is its class-0 part, followed
by its class-1 part, followed by its class-2 part. -/
theorem statedOrder_segments (f : Addr → Bool) (l : List Addr) (h : StatedOrder f l) :
    l = l.filter (fun a => cls f a == 0) ++ l.filter (fun a => cls f a == 1) ++
        l.filter (fun a => cls f a == 2) := by
  have hcls : ∀ a, cls f a = 0 ∨ cls f a = 1 ∨ cls f a = 2 := by
    intro a; unfold cls; split
    · simp
    · split <;> simp
  induction l with
  | nil => rfl
  | cons a t ih =>
    unfold StatedOrder at h
    rw [List.pairwise_cons] at h
    have iht := ih h.2
    have hall : ∀ b ∈ t, cls f a ≤ cls f b := by
      intro b hb
      rcases h.1 b hb with h1 | ⟨h1, _⟩ <;> omega
    rcases hcls a with h0 | h1 | h2
    · simp only [List.filter_cons, h0]
      simp
      simpa using iht
    · have e0 : t.filter (fun a => cls f a == 0) = [] := by
        rw [List.filter_eq_nil_iff]; intro b hb; have := hall b hb; simp; omega
      simp only [List.filter_cons, h1]
      simp
      rw [e0] at iht ⊢
      simpa using iht
    · have e0 : t.filter (fun a => cls f a == 0) = [] := by
        rw [List.filter_eq_nil_iff]; intro b hb; have := hall b hb; simp; omega
      have e1 : t.filter (fun a => cls f a == 1) = [] := by
        rw [List.filter_eq_nil_iff]; intro b hb; have := hall b hb; simp; omega
      simp only [List.filter_cons, h2]
      simp
      rw [e0, e1] at iht ⊢
      simpa using iht

/-! ### SORT-1 is satisfiable: insertion sort meets it -/

/-- insertion sort (the driver's stand-in for `slices.SortFunc`) meets SORT-1, so the
hypothesis of `sortFunc_order` is satisfiable -/
theorem sortBy_contract : SortContract sortBy := by
  refine ⟨?_, ?_⟩
  · intro cmp l _
    induction l with
    | nil => exact List.Perm.refl _
    | cons a t ih =>
      simp only [sortBy, List.foldr_cons] at ih ⊢
      exact (insertBy_perm cmp a _).trans (List.Perm.cons a ih)
  · intro cmp l hw
    induction l with
    | nil => simp [sortBy, Sorted]
    | cons a t ih =>
      simp only [sortBy, List.foldr_cons] at ih ⊢
      exact insertBy_sorted cmp hw a _ ih


/-! ### The unrepaired code, and non-vacuity -/

/-- Defect #11 on the model of the unchanged code: the non-contiguous mask `ff:00:ff:00` and
the nil mask are both accepted and become `/0` (run on the real tree by `corpus/C12.txt`). -/
theorem unfixed_accepts_bad_mask :
    ipNetToPrefixUnfixed (some ⟨some [1, 2, 3, 4], some [255, 0, 255, 0]⟩) famV4 =
      .ok (.ok ⟨.v4 [1, 2, 3, 4], 1⟩) ∧
    ipNetToPrefixUnfixed (some ⟨some [1, 2, 3, 4], none⟩) famV4 = .ok (.ok ⟨.v4 [1, 2, 3, 4], 1⟩) ∧
    ¬ Contiguous [255, 0, 255, 0] := by
  refine ⟨rfl, rfl, ?_⟩
  rintro ⟨ones, hle, h⟩
  simp only [List.length_cons, List.length_nil] at h hle
  have hs := simpleMaskLength_cidrMask ones 4 (by omega)
  rw [← h] at hs
  have hn : simpleMaskLength [255, 0, 255, 0] = none := by decide
  rw [hn] at hs
  simp at hs

-- the repaired model rejects both
example : ipNetToPrefix (some ⟨some [1, 2, 3, 4], some [255, 0, 255, 0]⟩) famV4 = .ok (.error .badMask) := rfl
example : ipNetToPrefix (some ⟨some [1, 2, 3, 4], none⟩) famV4 = .ok (.error .badMask) := rfl

-- the hypotheses of `prefix_membership_partial` are satisfiable: 1.2.3.0/24, x = 1.2.3.77 and 1.2.4.0
example : ipNetToPrefix (some ⟨some [1, 2, 3, 0], some [255, 255, 255, 0]⟩) famV4 =
    .ok (.ok ⟨.v4 [1, 2, 3, 0], 25⟩) := rfl
example : (Prefix.mk (.v4 [1, 2, 3, 0]) 25).contains (.v4 [1, 2, 3, 77]) = true ∧
    ipNetContains ⟨some [1, 2, 3, 0], some [255, 255, 255, 0]⟩ [1, 2, 3, 77] = true ∧
    (Prefix.mk (.v4 [1, 2, 3, 0]) 25).contains (.v4 [1, 2, 4, 0]) = false ∧
    ipNetContains ⟨some [1, 2, 3, 0], some [255, 255, 255, 0]⟩ [1, 2, 4, 0] = false := by decide

-- conversions on concrete values
example : ipToAddr (some [0, 0, 0, 0, 0, 0, 0, 0, 0, 0, 255, 255, 1, 2, 3, 4]) famV4 = .ok (.ok (.v4 [1, 2, 3, 4])) := rfl
example : ipToAddr (some [1, 2, 3, 4]) famV6 =
    .ok (.ok (.v6 [0, 0, 0, 0, 0, 0, 0, 0, 0, 0, 255, 255, 1, 2, 3, 4] [])) := rfl
example : ipToAddr (some [1, 2, 3, 4, 5]) famV6 = .ok (.error .badIP) := rfl

-- the stated order on a concrete slice
example : sortBy preferIPv4 [.zero, .v6 [0, 0, 0, 0, 0, 0, 0, 0, 0, 0, 0, 0, 0, 0, 0, 1] [], .v4 [9, 9, 9, 9],
      .v4 [1, 2, 3, 4]] =
    [.v4 [1, 2, 3, 4], .v4 [9, 9, 9, 9], .v6 [0, 0, 0, 0, 0, 0, 0, 0, 0, 0, 0, 0, 0, 0, 0, 1] [], .zero] := by decide
example : sortBy preferIPv6 [.zero, .v4 [1, 2, 3, 4], .v6 [0, 0, 0, 0, 0, 0, 0, 0, 0, 0, 0, 0, 0, 0, 0, 1] [98],
      .v6 [0, 0, 0, 0, 0, 0, 0, 0, 0, 0, 0, 0, 0, 0, 0, 1] []] =
    [.v6 [0, 0, 0, 0, 0, 0, 0, 0, 0, 0, 0, 0, 0, 0, 0, 1] [], .v6 [0, 0, 0, 0, 0, 0, 0, 0, 0, 0, 0, 0, 0, 0, 0, 1] [98],
     .v4 [1, 2, 3, 4], .zero] := by decide

end GolibsVerif.C12
