/-
C02 — allocation-free validators accept exactly what their reference parsers accept.

Proved here for every input (and every behaviour of `idna.ToASCII`):
  * `IsValidHostnameLabel(s)` ⇔ `ValidateHostnameLabel(s) == nil`
  * `IsValidHostname(s)`      ⇔ `ValidateHostname(s) == nil`
  and neither panics.
The IP halves (`IsValidIPString` ⇔ `netip.ParseAddr`, `IsValidIPPortString` ⇔
`netip.ParseAddrPort`) are proved in `Theorems/C02IP.lean`.
-/
import GolibsVerif.Lemmas.C02Host

namespace GolibsVerif.C02
open GolibsVerif.Netutil GolibsVerif.Str GolibsVerif

/-- `IsValidHostnameLabel(l)` is `true` iff `ValidateHostnameLabel(l)` returns nil; it
never panics. -/
theorem isValidHostnameLabel_iff (l : Bytes) :
    (∃ b, isValidHostnameLabel l = .ok b) ∧
    (isValidHostnameLabel l = .ok true ↔ validateHostnameLabel l = .ok none) := by
  rw [ivhl_eq]
  refine ⟨⟨_, rfl⟩, ?_⟩
  rw [← isNil_iff]
  constructor
  · intro h; injection h with h
  · intro h; rw [h]

/-- `IsValidHostname(s)` is `true` iff `ValidateHostname(s)` returns nil, for every `s` and
every `idna.ToASCII`; it never panics. -/
theorem isValidHostname_iff (toASCII : Bytes → Option Bytes) (s : Bytes) :
    (∃ b, isValidHostname toASCII s = .ok b) ∧
    (isValidHostname toASCII s = .ok true ↔ validateHostname toASCII s = .ok none) := by
  rw [isValidHostname_eq]
  refine ⟨⟨_, rfl⟩, ?_⟩
  rw [← isNil_iff]
  constructor
  · intro h; injection h with h
  · intro h; rw [h]

/-! ### Non-vacuity -/
example : isValidHostname some (ascii "a-1.example.org") = .ok true := by decide
example : isValidHostname some (ascii "a_1.example.org") = .ok false := by decide
example : isValidHostnameLabel (ascii "-a") = .ok false := by decide

end GolibsVerif.C02
