/-
C19 — property theorems for `slogutil.JSONHybridHandler`
(model: `Model/C19.lean`, `Model/C19Lts.lean`; reference: `Spec/C19.lean`).

Only property theorems and non-vacuity examples live here.  Parameters everywhere:
`pol` — the growth policy of `append` (arbitrary), `text` — `slog.TextHandler` (TEXT-1),
`encode` — `encoding/json` (either arbitrary under JSON-RT, or the executable model
`goJsonEncode`, for which JSON-RT is proved).
-/
import GolibsVerif.Lemmas.C19World
import GolibsVerif.Lemmas.C19Json
import GolibsVerif.Lemmas.C19Lts
import GolibsVerif.Gen.C19Skel

namespace GolibsVerif.C19

/-! ## Attribute accumulation: every derivation tree, every growth policy -/

/-- `attrs_path`.  Run any script of `WithAttrs` derivations (from any existing node), `Handle`
and `Enabled` calls and `Set` calls on the `*slog.LevelVar` from the root handler made by
`NewJSONHybridHandler`, with the records stored anywhere in an arbitrary initial heap, under
an arbitrary growth policy of `append`.  Then

* the outputs are those of the heap-free reference semantics, in which a node's attributes
  are the concatenation of the `WithAttrs` arguments along its path from the root (and the
  level is the constant the options' leveler reported at construction), and
* at the end every handler ever created still *reads* exactly its path concatenation
  (no later derivation or `Handle` has written into an array it can see). -/
theorem attrs_path (pol : Policy) (text : Int → Nat → List Attr → Bytes)
    (encode : Bytes → Bytes → Bytes) (lvl0 : Leveler) (lv0 : Int) (recs : List Record) (hp0 : Heap)
    (hrecs : ∀ r ∈ recs, r.wf hp0) (ops : List Op) (w' : World) (outs : List Out)
    (h : World.run pol text encode recs (rootWorld hp0 lvl0 lv0) ops = some (w', outs)) :
    ∃ s', specRun text encode (.const (lvl0.get lv0)) (recs.map (Record.info hp0)) (rootSpec lv0) ops =
        some (s', outs) ∧
      w'.handlers.map (fun hd => view w'.heap hd.attrs) = s'.paths ∧ w'.lvar = s'.lvar := by
  rw [rootWorld_eq] at h
  obtain ⟨s', hspec, hinv⟩ := run_root pol text encode _ lv0 recs hp0 hrecs ops w' outs h
  refine ⟨s', hspec, ?_, hinv.lvar⟩
  apply List.ext_getElem?
  intro i
  rw [List.getElem?_map]
  cases hh : w'.handlers[i]? with
  | none => simp [(hinv.none_iff i).mp hh]
  | some hd => simp [(hinv.node i hd hh).2.2]

/-- The model never gets stuck where the reference semantics is defined, and vice versa:
the two agree on the whole list of outputs (or both reject an ill-formed script) — for a root
that stores any leveler `lvl0` (asked on every `Enabled` call) … -/
theorem tree_refines_spec_dyn (pol : Policy) (text : Int → Nat → List Attr → Bytes)
    (encode : Bytes → Bytes → Bytes) (lvl0 : Leveler) (lv0 : Int) (recs : List Record) (hp0 : Heap)
    (hrecs : ∀ r ∈ recs, r.wf hp0) (ops : List Op) :
    (World.run pol text encode recs (rootWorldDyn hp0 lvl0 lv0) ops).map Prod.snd =
      (specRun text encode lvl0 (recs.map (Record.info hp0)) (rootSpec lv0) ops).map Prod.snd := by
  have hs := run_sim pol text encode lvl0 recs hp0 hrecs ops (rootWorldDyn hp0 lvl0 lv0) (rootSpec lv0)
    (rootWorldDyn_inv hp0 lvl0 lv0) ⟨[], by simp [rootWorldDyn]⟩
  cases h1 : World.run pol text encode recs (rootWorldDyn hp0 lvl0 lv0) ops with
  | none =>
    cases h2 : specRun text encode lvl0 (recs.map (Record.info hp0)) (rootSpec lv0) ops with
    | none => rfl
    | some q => rw [h1, h2] at hs; exact hs.elim
  | some pr =>
    cases h2 : specRun text encode lvl0 (recs.map (Record.info hp0)) (rootSpec lv0) ops with
    | none => rw [h1, h2] at hs; exact hs.elim
    | some q =>
      rw [h1, h2] at hs
      obtain ⟨w1, o1⟩ := pr
      obtain ⟨p2, o2⟩ := q
      simp only [Option.map_some, Option.some.injEq]
      exact hs.1

/-- … and for the root the code makes: the reference run with the constant level the options'
leveler reported at construction. -/
theorem tree_refines_spec (pol : Policy) (text : Int → Nat → List Attr → Bytes)
    (encode : Bytes → Bytes → Bytes) (lvl0 : Leveler) (lv0 : Int) (recs : List Record) (hp0 : Heap)
    (hrecs : ∀ r ∈ recs, r.wf hp0) (ops : List Op) :
    (World.run pol text encode recs (rootWorld hp0 lvl0 lv0) ops).map Prod.snd =
      (specRun text encode (.const (lvl0.get lv0)) (recs.map (Record.info hp0)) (rootSpec lv0) ops).map
        Prod.snd :=
  tree_refines_spec_dyn pol text encode _ lv0 recs hp0 hrecs ops

/-- The capacity choices of `append` are unobservable. -/
theorem policy_independent (pol₁ pol₂ : Policy) (text : Int → Nat → List Attr → Bytes)
    (encode : Bytes → Bytes → Bytes) (lvl0 : Leveler) (lv0 : Int) (recs : List Record) (hp0 : Heap)
    (hrecs : ∀ r ∈ recs, r.wf hp0) (ops : List Op) :
    (World.run pol₁ text encode recs (rootWorld hp0 lvl0 lv0) ops).map Prod.snd =
      (World.run pol₂ text encode recs (rootWorld hp0 lvl0 lv0) ops).map Prod.snd := by
  rw [tree_refines_spec pol₁ text encode lvl0 lv0 recs hp0 hrecs,
    tree_refines_spec pol₂ text encode lvl0 lv0 recs hp0 hrecs]

/-- `sibling_isolation`: derive two children from one handler, the second when the first
already exists (so whatever spare capacity the first derivation left is there); afterwards,
in the final heap, each child reads the parent's attributes followed by exactly its own, and
the parent reads what it read before — for every policy. -/
theorem sibling_isolation (pol : Policy) (hp : Heap) (h : Handler) (as₁ as₂ : List Attr)
    (hw : h.attrs.wf hp) :
    let d₁ := h.withAttrs pol hp as₁
    let d₂ := h.withAttrs pol d₁.1 as₂
    view d₂.1 d₁.2.attrs = view hp h.attrs ++ as₁ ∧
    view d₂.1 d₂.2.attrs = view hp h.attrs ++ as₂ ∧
    view d₂.1 h.attrs = view hp h.attrs := by
  intro d₁ d₂
  obtain ⟨e1, a1, a2, a3⟩ := append_clip pol hp h.attrs as₁ hw
  have hw1 : h.attrs.wf d₁.1 := by
    show h.attrs.wf (append pol hp (clip h.attrs) as₁).1
    rw [a1]; exact Slice.wf_ext hw e1
  obtain ⟨e2, b1, b2, b3⟩ := append_clip pol d₁.1 h.attrs as₂ hw1
  have hd1 : d₁.1 = hp ++ e1 := a1
  have hd2 : d₂.1 = d₁.1 ++ e2 := b1
  refine ⟨?_, ?_, ?_⟩
  · rw [hd2, hd1]
    have : d₁.2.attrs.wf (hp ++ e1) := a2
    rw [view_ext this]; exact a3
  · rw [hd2]
    have : view (d₁.1 ++ e2) d₂.2.attrs = view d₁.1 h.attrs ++ as₂ := b3
    rw [this, hd1, view_ext hw]
  · rw [hd2, view_ext hw1, hd1, view_ext hw]

/-- Without `slices.Clip` the property fails as soon as `append` leaves spare capacity: the
second child's attribute overwrites the first child's (witness: one spare slot). -/
theorem noClip_breaks_isolation :
    ∃ (pol : Policy) (hp : Heap) (h : Handler) (as₁ as₂ : List Attr),
      h.attrs.wf hp ∧
      let d₁ := h.withAttrsNoClip pol hp as₁
      let d₂ := h.withAttrsNoClip pol d₁.1 as₂
      view d₂.1 d₁.2.attrs ≠ view hp h.attrs ++ as₁ := by
  refine ⟨fun _ _ _ _ => 1, [[.user 0 false, .zero]], { level := .const 0, attrs := { arr := 0, len := 1, cap := 2 } },
    [.user 1 false], [.user 2 false], by decide, by decide⟩

/-! ## One `Handle` call -/

/-- `Handle` (as repaired): for a well-formed record and handler, in any heap and under any
policy, the heap is only extended and the emitted bytes are the reference line of the
record's own attributes followed by the handler's kept attributes. -/
theorem handle_spec (pol : Policy) (text : Int → Nat → List Attr → Bytes)
    (encode : Bytes → Bytes → Bytes) (hp : Heap) (h : Handler) (r : Record) (hr : r.wf hp) :
    ∃ ext, h.handle pol text encode hp r =
      (specLine text encode r.level r.rid (r.attrs hp ++ keep (view hp h.attrs))).map
        fun out => (hp ++ ext, out) :=
  handle_spec' pol text encode hp h r hr

/-- Handling the same `slog.Record` value again — after anything that only extended the heap,
in particular after a first `Handle` of it on any handler — gives the same bytes. -/
theorem same_record_twice (pol : Policy) (text : Int → Nat → List Attr → Bytes)
    (encode : Bytes → Bytes → Bytes) (hp ext : Heap) (h : Handler) (r : Record)
    (hr : r.wf hp) (hh : h.attrs.wf hp) :
    (h.handle pol text encode (hp ++ ext) r).map Prod.snd =
      (h.handle pol text encode hp r).map Prod.snd := by
  obtain ⟨e1, h1⟩ := handle_spec' pol text encode hp h r hr
  obtain ⟨e2, h2⟩ := handle_spec' pol text encode (hp ++ ext) h r (Record.wf_ext hr ext)
  rw [h1, h2]
  have ha : r.attrs (hp ++ ext) = r.attrs hp := by
    simp [Record.attrs, view_ext hr.back]
  rw [ha, view_ext hh]
  cases specLine text encode r.level r.rid (r.attrs hp ++ keep (view hp h.attrs)) <;> rfl

/-- the witness of `noClone_violates`: doubling-like policy (one spare slot), a text handler
that prints `.` per attribute and `!` for the `!BUG` attribute -/
def witnessText : Int → Nat → List Attr → Bytes :=
  fun _ _ as => (as.map fun a => if a = .bug then 33 else 46) ++ [10]

/-- The unchanged tree (`r.AddAttrs` on the by-value copy, no `Clone`) violates the property:
a record with 8 attributes (5 inline, a shared `back` of length 3 and capacity 4) handled
twice by a handler with one attribute prints 9 attributes the first time and a tenth, the
`!BUG` attribute, the second time — while the repaired `Handle` prints the same line twice. -/
theorem noClone_violates :
    let pol : Policy := fun _ _ _ _ => 1
    let hp : Heap := [[.user 5 false, .user 6 false, .user 7 false, .zero], [.user 9 false]]
    let h : Handler := { level := .const 0, attrs := { arr := 1, len := 1, cap := 1 } }
    let r : Record := { level := 0, rid := 0, back := { arr := 0, len := 3, cap := 4 }
                        front := [.user 0 false, .user 1 false, .user 2 false, .user 3 false, .user 4 false] }
    let enc : Bytes → Bytes → Bytes := fun _ m => m
    r.wf hp ∧ h.attrs.wf hp ∧
    ((h.handleNoClone pol witnessText enc hp r).toOption.map Prod.snd = some (ascii ".........") ∧
     ((h.handleNoClone pol witnessText enc hp r).toOption.bind fun p =>
        (h.handleNoClone pol witnessText enc p.1 r).toOption.map Prod.snd) = some (ascii "........!.")) ∧
    ((h.handle pol witnessText enc hp r).toOption.map Prod.snd = some (ascii ".........") ∧
     ((h.handle pol witnessText enc hp r).toOption.bind fun p =>
        (h.handle pol witnessText enc p.1 r).toOption.map Prod.snd) = some (ascii ".........")) := by
  refine ⟨⟨by decide, by decide⟩, by decide, ⟨by decide, by decide⟩, ⟨by decide, by decide⟩⟩

/-! ## The emitted line -/

theorem severity_valid (l : Int) : validUtf8 (severity l) = true := by
  unfold severity
  split
  · have : ascii "ERROR" = [69, 82, 82, 79, 82] := by decide
    rw [this]; simp [validUtf8]
  · have : ascii "NORMAL" = [78, 79, 82, 77, 65, 76] := by decide
    rw [this]; simp [validUtf8]

/-- `severity_spec`: "ERROR" iff the record's level is at least `slog.LevelError`, otherwise
"NORMAL". -/
theorem severity_spec (l : Int) :
    (severity l = ascii "ERROR" ↔ l ≥ levelError) ∧ (severity l = ascii "NORMAL" ↔ l < levelError) := by
  unfold severity
  by_cases h : l ≥ levelError
  · simp only [h, if_true]
    refine ⟨trivial, ?_⟩
    constructor
    · intro h'; exact absurd h' (by decide)
    · intro h'; omega
  · simp only [h, if_false, iff_false, true_iff]
    refine ⟨by decide, by omega⟩

/-- `one_line_two_fields` + `message_is_text_line`, under the contracts, for any encoder:
`Handle` does not panic; it hands the writer exactly one newline-terminated line without an
inner newline; a reader of that line finds exactly the members `severity` and `message`, the
severity as specified and the message equal to the line `slog.TextHandler` prints for the
record with the handler's accumulated attributes appended (minus its newline). -/
theorem one_line_two_fields (pol : Policy) (text : Int → Nat → List Attr → Bytes)
    (encode : Bytes → Bytes → Bytes) (ht : TextContract text) (hj : JsonContract encode)
    (hp : Heap) (h : Handler) (r : Record) (hr : r.wf hp) :
    ∃ hp' out body msg,
      h.handle pol text encode hp r = .ok (hp', out) ∧
      out = body ++ [10] ∧ 10 ∉ body ∧
      text r.level r.rid (r.attrs hp ++ keep (view hp h.attrs)) = msg ++ [10] ∧
      parseLine out = some (severity r.level, msg) := by
  obtain ⟨ext, hs⟩ := handle_spec' pol text encode hp h r hr
  obtain ⟨msg, hm1, hm2, hm3⟩ := ht.line r.level r.rid (r.attrs hp ++ keep (view hp h.attrs))
  obtain ⟨body, hb1, hb2⟩ := hj.oneLine (severity r.level) msg
  have hstrip : specLine text encode r.level r.rid (r.attrs hp ++ keep (view hp h.attrs)) =
      .ok (encode (severity r.level) msg) := by
    unfold specLine
    simp only [hm1, GoM.sliceTo, GoM.slice, List.length_append, List.length_cons, List.length_nil]
    have hc : (0 : Int) ≤ 0 ∧ (0 : Int) ≤ ((msg.length + (0 + 1) : Nat) : Int) - 1 ∧
        ((msg.length + (0 + 1) : Nat) : Int) - 1 ≤ ((msg.length + (0 + 1) : Nat) : Int) := by omega
    rw [if_pos hc]
    have : (((msg.length + (0 + 1) : Nat) : Int) - 1).toNat - (0 : Int).toNat = msg.length := by omega
    simp only [Int.toNat_zero, List.drop_zero] at this ⊢
    rw [this]
    simp [bind, Except.bind, pure, Except.pure]
  refine ⟨hp ++ ext, encode (severity r.level) msg, body, msg, ?_, hb1, hb2, hm1, ?_⟩
  · rw [hs, hstrip]; rfl
  · exact hj.roundTrip _ _ (severity_valid r.level) hm3

/-- The same for the executable model of `encoding/json` that the driver runs (and the
harness compares with the real encoder): JSON-RT is a theorem there, so only TEXT-1 is
assumed. -/
theorem one_line_two_fields_goJson (pol : Policy) (text : Int → Nat → List Attr → Bytes)
    (ht : TextContract text) (hp : Heap) (h : Handler) (r : Record) (hr : r.wf hp) :
    ∃ hp' out body msg,
      h.handle pol text goJsonEncode hp r = .ok (hp', out) ∧
      out = body ++ [10] ∧ 10 ∉ body ∧
      text r.level r.rid (r.attrs hp ++ keep (view hp h.attrs)) = msg ++ [10] ∧
      parseLine out = some (severity r.level, msg) :=
  one_line_two_fields pol text goJsonEncode ht goJson_contract hp h r hr

/-- `message_is_text_line`: whatever bytes `Handle` emits, a reader finds in `message`
exactly the line `slog.TextHandler` prints for that record with the handler's accumulated
attributes appended — the text of `text(record attrs ++ kept handler attrs)` without its
final newline — and nothing of any other handler. -/
theorem message_is_text_line (pol : Policy) (text : Int → Nat → List Attr → Bytes)
    (encode : Bytes → Bytes → Bytes) (ht : TextContract text) (hj : JsonContract encode)
    (hp hp' : Heap) (h : Handler) (r : Record) (hr : r.wf hp) (out : Bytes)
    (hout : h.handle pol text encode hp r = .ok (hp', out)) :
    ∃ sev msg, parseLine out = some (sev, msg) ∧
      msg ++ [10] = text r.level r.rid (r.attrs hp ++ keep (view hp h.attrs)) := by
  obtain ⟨hp'', out', body, msg, h1, _, _, h4, h5⟩ :=
    one_line_two_fields pol text encode ht hj hp h r hr
  rw [h1] at hout
  injection hout with hout
  injection hout with _ hout
  subst hout
  exact ⟨_, msg, h5, h4.symm⟩

/-- Well-formedness of the line survives *every* byte string the text layer could emit
(quotes, control bytes, newlines, ill-formed UTF-8): the model of the encoder always
produces one line that reads back as two members — the message with each ill-formed byte
replaced by U+FFFD. -/
theorem encoded_line_wellformed (sev msg : Bytes) :
    (∃ body, goJsonEncode sev msg = body ++ [10] ∧ 10 ∉ body) ∧
    parseLine (goJsonEncode sev msg) = some (sanitize sev, sanitize msg) :=
  ⟨goJsonEncode_oneLine sev msg, parseLine_goJsonEncode sev msg⟩

/-! ## `Enabled`: the configured level, under both readings of a `*slog.LevelVar` -/

/-- `enabled_iff`: `Enabled(l)` holds iff `l` is at least the level the handler's `slog.Leveler`
field reports (`lvar` = what the `*slog.LevelVar` currently holds). -/
theorem enabled_iff (h : Handler) (lvar : Int) (l : Int) :
    h.enabled lvar l = true ↔ l ≥ h.level.get lvar := by
  simp [Handler.enabled]

/-- `enabled_derived` (the code: `NewJSONHybridHandler` asks the options' leveler once).  Run any
script of derivations, `Handle`, `Enabled` and `Set` calls on the `*slog.LevelVar`; every
handler ever created — root, children, grandchildren, derived before or after any `Set` — is
enabled for `l` iff `l` is at least the level the leveler reported *at construction*, whatever
the variable holds now or later (`lvar` is arbitrary): `Set` never changes an answer. -/
theorem enabled_derived (pol : Policy) (text : Int → Nat → List Attr → Bytes)
    (encode : Bytes → Bytes → Bytes) (lvl0 : Leveler) (lv0 : Int) (recs : List Record) (hp0 : Heap)
    (hrecs : ∀ r ∈ recs, r.wf hp0) (ops : List Op) (w' : World) (outs : List Out)
    (h : World.run pol text encode recs (rootWorld hp0 lvl0 lv0) ops = some (w', outs))
    (hd : Handler) (hmem : hd ∈ w'.handlers) (lvar l : Int) :
    hd.enabled lvar l = true ↔ l ≥ lvl0.get lv0 := by
  rw [rootWorld_eq] at h
  obtain ⟨s', _, hinv⟩ := run_root pol text encode _ lv0 recs hp0 hrecs ops w' outs h
  obtain ⟨i, hi⟩ := List.getElem?_of_mem hmem
  rw [enabled_iff, (hinv.node i hd hi).1]
  rfl

/-- `enabled_derived_dyn` (the other reading: the root stores the leveler, `newHandlerDyn`).
After any script every handler of the tree is enabled for `l` iff `l` is at least what the
root's leveler reports in the final world — the *current* value of the `*slog.LevelVar`. -/
theorem enabled_derived_dyn (pol : Policy) (text : Int → Nat → List Attr → Bytes)
    (encode : Bytes → Bytes → Bytes) (lvl0 : Leveler) (lv0 : Int) (recs : List Record) (hp0 : Heap)
    (hrecs : ∀ r ∈ recs, r.wf hp0) (ops : List Op) (w' : World) (outs : List Out)
    (h : World.run pol text encode recs (rootWorldDyn hp0 lvl0 lv0) ops = some (w', outs))
    (hd : Handler) (hmem : hd ∈ w'.handlers) (l : Int) :
    hd.enabled w'.lvar l = true ↔ l ≥ lvl0.get w'.lvar := by
  obtain ⟨s', _, hinv⟩ := run_root pol text encode lvl0 lv0 recs hp0 hrecs ops w' outs h
  obtain ⟨i, hi⟩ := List.getElem?_of_mem hmem
  rw [enabled_iff, (hinv.node i hd hi).1]

/-- … spelled out for a root that stores a `*slog.LevelVar`: every handler of the tree —
whenever it was derived — is enabled for `l` iff `l` is at least the value last stored into
the variable (its initial value if the script never calls `Set`). -/
theorem enabled_follows_levelVar_dyn (pol : Policy) (text : Int → Nat → List Attr → Bytes)
    (encode : Bytes → Bytes → Bytes) (lv0 : Int) (recs : List Record) (hp0 : Heap)
    (hrecs : ∀ r ∈ recs, r.wf hp0) (ops : List Op) (w' : World) (outs : List Out)
    (h : World.run pol text encode recs (rootWorldDyn hp0 .var lv0) ops = some (w', outs))
    (hd : Handler) (hmem : hd ∈ w'.handlers) (l : Int) :
    hd.enabled w'.lvar l = true ↔ l ≥ lastLevel lv0 ops := by
  rw [enabled_derived_dyn pol text encode .var lv0 recs hp0 hrecs ops w' outs h hd hmem l,
    run_lvar pol text encode recs ops _ w' outs h]
  rfl

/-- `tree_consistent` (holds under both readings; stated for a root storing any leveler, of
which the code's root is the instance `rootWorld_eq`): at any point of any script, all
handlers of the tree give the same answer to `Enabled(l)`. -/
theorem tree_consistent_dyn (pol : Policy) (text : Int → Nat → List Attr → Bytes)
    (encode : Bytes → Bytes → Bytes) (lvl0 : Leveler) (lv0 : Int) (recs : List Record) (hp0 : Heap)
    (hrecs : ∀ r ∈ recs, r.wf hp0) (ops : List Op) (w' : World) (outs : List Out)
    (h : World.run pol text encode recs (rootWorldDyn hp0 lvl0 lv0) ops = some (w', outs))
    (hd₁ hd₂ : Handler) (hm₁ : hd₁ ∈ w'.handlers) (hm₂ : hd₂ ∈ w'.handlers) (lvar l : Int) :
    hd₁.enabled lvar l = hd₂.enabled lvar l := by
  obtain ⟨s', _, hinv⟩ := run_root pol text encode lvl0 lv0 recs hp0 hrecs ops w' outs h
  obtain ⟨i, hi⟩ := List.getElem?_of_mem hm₁
  obtain ⟨j, hj⟩ := List.getElem?_of_mem hm₂
  unfold Handler.enabled
  rw [(hinv.node i hd₁ hi).1, (hinv.node j hd₂ hj).1]

/-- `tree_consistent` for the root `NewJSONHybridHandler` makes -/
theorem tree_consistent (pol : Policy) (text : Int → Nat → List Attr → Bytes)
    (encode : Bytes → Bytes → Bytes) (lvl0 : Leveler) (lv0 : Int) (recs : List Record) (hp0 : Heap)
    (hrecs : ∀ r ∈ recs, r.wf hp0) (ops : List Op) (w' : World) (outs : List Out)
    (h : World.run pol text encode recs (rootWorld hp0 lvl0 lv0) ops = some (w', outs))
    (hd₁ hd₂ : Handler) (hm₁ : hd₁ ∈ w'.handlers) (hm₂ : hd₂ ∈ w'.handlers) (lvar l : Int) :
    hd₁.enabled lvar l = hd₂.enabled lvar l :=
  tree_consistent_dyn pol text encode _ lv0 recs hp0 hrecs ops w' outs (rootWorld_eq hp0 lvl0 lv0 ▸ h)
    hd₁ hd₂ hm₁ hm₂ lvar l

/-- The answers of the `Enabled` calls *inside* a script are those of the reference semantics
(`tree_refines_spec`, `tree_refines_spec_dyn`); spelled out for one call after an arbitrary
prefix, on a root that stores `lvl0`: the answer is `l ≥` the leveler's value at that moment. -/
theorem enabled_after_dyn (pol : Policy) (text : Int → Nat → List Attr → Bytes)
    (encode : Bytes → Bytes → Bytes) (lvl0 : Leveler) (lv0 : Int) (recs : List Record) (hp0 : Heap)
    (hrecs : ∀ r ∈ recs, r.wf hp0) (ops : List Op) (w' : World) (outs : List Out)
    (h : World.run pol text encode recs (rootWorldDyn hp0 lvl0 lv0) ops = some (w', outs))
    (n : Nat) (hn : n < w'.handlers.length) (l : Int) :
    World.run pol text encode recs (rootWorldDyn hp0 lvl0 lv0) (ops ++ [.enabled n l]) =
      some (w', outs ++ [.en (decide (l ≥ lvl0.get (lastLevel lv0 ops)))]) := by
  have hl : w'.lvar = lastLevel lv0 ops := run_lvar pol text encode recs ops _ w' outs h
  rw [run_snoc pol text encode recs (.enabled n l) ops _ w' outs h]
  obtain ⟨hd, hhd⟩ : ∃ hd, w'.handlers[n]? = some hd := ⟨w'.handlers[n], List.getElem?_eq_getElem hn⟩
  have hmem : hd ∈ w'.handlers := List.mem_of_getElem? hhd
  have hen := enabled_derived_dyn pol text encode lvl0 lv0 recs hp0 hrecs ops w' outs h hd hmem l
  have hb : hd.enabled w'.lvar l = decide (l ≥ lvl0.get (lastLevel lv0 ops)) := by
    rw [← hl]
    cases hv : hd.enabled w'.lvar l with
    | true => exact (decide_eq_true (hen.mp hv)).symm
    | false =>
      have : ¬ (l ≥ lvl0.get w'.lvar) := fun hc => by rw [hen.mpr hc] at hv; cases hv
      exact (decide_eq_false this).symm
  simp only [World.step, hhd, Option.bind_eq_bind, Option.bind_some, Option.pure_def, Option.map_some, hb]

/-- … and on the root the code makes: after any prefix, with any `Set` calls in it, `Enabled(l)`
on any existing node answers `l ≥` the level at construction. -/
theorem enabled_after (pol : Policy) (text : Int → Nat → List Attr → Bytes)
    (encode : Bytes → Bytes → Bytes) (lvl0 : Leveler) (lv0 : Int) (recs : List Record) (hp0 : Heap)
    (hrecs : ∀ r ∈ recs, r.wf hp0) (ops : List Op) (w' : World) (outs : List Out)
    (h : World.run pol text encode recs (rootWorld hp0 lvl0 lv0) ops = some (w', outs))
    (n : Nat) (hn : n < w'.handlers.length) (l : Int) :
    World.run pol text encode recs (rootWorld hp0 lvl0 lv0) (ops ++ [.enabled n l]) =
      some (w', outs ++ [.en (decide (l ≥ lvl0.get lv0))]) :=
  enabled_after_dyn pol text encode _ lv0 recs hp0 hrecs ops w' outs (rootWorld_eq hp0 lvl0 lv0 ▸ h) n hn l

/-- `frozenChildren_inconsistent`: a handler that follows its `*slog.LevelVar` while the
children it derives keep the level seen at derivation (`withAttrsFrozen`) violates
`tree_consistent` under either reading: LevelVar at 0, derive a child, `Set(8)` — `Enabled(4)`
is now false on the root (as under the reading "current value") and still true on the child (as
under the reading "value at construction"). -/
theorem frozenChildren_inconsistent :
    let root := newHandlerDyn .var
    let child := (root.withAttrsFrozen (fun _ _ _ _ => 1) [] 0 [.user 0 false]).2
    -- before the `Set` they agree
    root.enabled 0 4 = true ∧ child.enabled 0 4 = true ∧
    -- after `Set(8)`
    root.enabled 8 4 = false ∧ child.enabled 8 4 = true := by
  refine ⟨by decide, by decide, by decide, by decide⟩

/-! ## Concurrency: all interleavings of `Handle` calls sharing one writer (MEM-1) -/

open Lts in
/-- `encoder_locked`: in every reachable state of every schedule, a step that makes the shared
writer receive a byte is taken by the call that holds `mu`. -/
theorem encoder_locked (P : Prog) (s s' : State) (i : Nat) (hr : Reachable P s)
    (hstep : next P s (.adv i) = some s') (hout : s'.out ≠ s.out) : s.mu = some i := by
  have hinv := inv_reachable P s hr
  apply (hinv.mutex i).mpr
  unfold next at hstep
  simp only at hstep
  split at hstep
  · cases hstep
  · cases hstep
  · simp only [Option.some.injEq] at hstep; subst hstep; exact absurd rfl hout
  · simp only [Option.some.injEq] at hstep; subst hstep; exact absurd rfl hout
  · split at hstep
    · simp only [Option.some.injEq] at hstep; subst hstep; exact absurd rfl hout
    · cases hstep
  · simp only [Option.some.injEq] at hstep; subst hstep; exact absurd rfl hout
  · rename_i hpc; simp [inLock, hpc]
  · simp only [Option.some.injEq] at hstep; subst hstep; exact absurd rfl hout
  · simp only [Option.some.injEq] at hstep; subst hstep; exact absurd rfl hout

open Lts in
/-- Only `adv` steps of calls write: `Get` and pool GC never touch the writer. -/
theorem only_calls_write (P : Prog) (s s' : State) (l : Label) (hstep : next P s l = some s')
    (hout : s'.out ≠ s.out) : ∃ i, l = .adv i := by
  cases l with
  | adv i => exact ⟨i, rfl⟩
  | get i reuse =>
    unfold next at hstep
    simp only at hstep
    split at hstep
    · split at hstep
      · split at hstep
        · simp only [Option.some.injEq] at hstep; subst hstep; exact absurd rfl hout
        · cases hstep
      · simp only [Option.some.injEq] at hstep; subst hstep; exact absurd rfl hout
    · cases hstep
  | gc o =>
    unfold next at hstep
    simp only at hstep
    split at hstep
    · simp only [Option.some.injEq] at hstep; subst hstep; exact absurd rfl hout
    · cases hstep

open Lts in
/-- `pool_exclusive` (from MEM-1's pool clause as modelled): no pooled buffer is held by two
calls, and `Encode` reads the line its own call rendered. -/
theorem pool_exclusive (P : Prog) (s : State) (hr : Reachable P s) :
    (∀ i j, i ≠ j → holds (s.th i).pc → holds (s.th j).pc → (s.th i).obj ≠ (s.th j).obj) ∧
    (∀ i, (s.th i).pc = .locked → s.bufs (s.th i).obj = P.line i) := by
  have hinv := inv_reachable P s hr
  exact ⟨hinv.excl, fun i hi => hinv.buf i (Or.inr hi)⟩

open Lts in
/-- `no_interleave`: in every reachable state the writer has received the complete lines of
the calls whose `Encode` returned, in that order, followed by a prefix of the line of the
one call that is inside `Encode` (if any). -/
theorem no_interleave (P : Prog) (s : State) (hr : Reachable P s) :
    ∃ pre, s.out = linesOf P s.completed ++ pre ∧
      (pre = [] ∨ ∃ i k, (s.th i).pc = .writing ∧ s.mu = some i ∧ pre = (lineOf P i).take k) := by
  have hinv := inv_reachable P s hr
  by_cases hw : ∃ i, (s.th i).pc = .writing
  · obtain ⟨i, hi⟩ := hw
    obtain ⟨k, _, hk⟩ := hinv.wr i hi
    exact ⟨_, hk, Or.inr ⟨i, k, hi, (hinv.mutex i).mpr (by simp [inLock, hi]), rfl⟩⟩
  · refine ⟨[], ?_, Or.inl rfl⟩
    rw [List.append_nil]
    apply hinv.idle
    intro i hi
    exact hw ⟨i, hi⟩

open Lts in
/-- When `n` calls have all returned, the writer holds exactly their `n` lines, each whole,
each once, in the order in which the calls held the mutex. -/
theorem all_lines_once (P : Prog) (s : State) (n : Nat) (hr : Reachable P s)
    (hdone : ∀ i, i < n → (s.th i).pc = .done) (hrest : ∀ i, n ≤ i → (s.th i).pc = .start) :
    s.out = linesOf P s.completed ∧ s.completed.Nodup ∧ ∀ i, i ∈ s.completed ↔ i < n := by
  have hinv := inv_reachable P s hr
  refine ⟨?_, hinv.nodup, ?_⟩
  · apply hinv.idle
    intro i
    by_cases h : i < n
    · rw [hdone i h]; decide
    · rw [hrest i (Nat.le_of_not_lt h)]; decide
  · intro i
    rw [hinv.comp i]
    by_cases h : i < n
    · simp [finished, hdone i h, h]
    · simp [finished, hrest i (Nat.le_of_not_lt h), h]

/-! ## The source still has the structure the models were written against (T-gen) -/

/-- `skel_handle`: the two paths of `Handle` (all helpers inlined), as re-extracted from the
current source: the success path and the error exit of the text handler. -/
theorem skel_handle : Gen.C19Skel.handle =
    [[("call", Lts.evGet), ("defer", "syncutil.Pool.Put"), ("call", Lts.evReset), ("call", Lts.evAddAttrs),
      ("call", Lts.evTextHandle), ("assume", "isnil(slog.TextHandler.Handle#1)"), ("call", Lts.evBytes),
      ("call", Lts.evLock), ("defer", "sync.Mutex.Unlock"), ("call", Lts.evEncode), ("run", Lts.evUnlock),
      ("run", Lts.evPut), ("return", "")],
     [("call", Lts.evGet), ("defer", "syncutil.Pool.Put"), ("call", Lts.evReset), ("call", Lts.evAddAttrs),
      ("call", Lts.evTextHandle), ("assume-not", "isnil(slog.TextHandler.Handle#1)"), ("run", Lts.evPut),
      ("return", "")]] := by decide +kernel

/-- … and on every path the operations are executed in the order of the steps of the transition
system: `Encode` only between `Lock` and `Unlock`, the pooled buffer used only between `Get`
and `Put`, which comes after `Unlock`; `Unlock` and `Put` are deferred calls. -/
theorem skel_handle_order :
    Gen.C19Skel.handle.map Lts.pathOps = [Lts.programOrder, Lts.errorOrder] ∧
    Gen.C19Skel.handle.map Lts.pathDeferred = [[Lts.evUnlock, Lts.evPut], [Lts.evPut]] := by decide +kernel

/-- `skel_withAttrs`: `WithAttrs` has one path and no operation on a shared object; in the
handler it returns, encoder, pool and mutex are the receiver's own objects, the level is the
receiver's, and the attribute slice satisfies the contract `IsolatingConcat` below
(`append(slices.Clip(h.textAttrs), attrs...)` does, so does an exact-size `make` + `copy`;
`append` after `slices.Grow` does not). -/
theorem skel_withAttrs : Gen.C19Skel.withAttrs =
    [[("return", "[]slog.Attr: contents=parent++added; writes=fresh-only; spare=unshared; aliases-argument=no, " ++
        "json.Encoder: shared, slog.Level: =h.<slog.Level>, sync.Mutex: shared, " ++
        "syncutil.Pool[{bytes.Buffer,slog.TextHandler}]: shared")]] := by decide +kernel

/-- `Enabled` is `level >= h.level`, the severity is `ERROR` from `slog.LevelError` (8) on, and no
function of the package writes a field of an existing handler. -/
theorem skel_enabled_severity :
    Gen.C19Skel.enabled = [[("return", "(arg2 >= h.<slog.Level>)")]] ∧
    Gen.C19Skel.severity = "ite((arg2.Level >= 8), \"ERROR\", \"NORMAL\")" ∧
    Gen.C19Skel.fieldWrites = [] := by decide +kernel

/-! ### The contract recorded for the derived attribute slice

`skel_withAttrs` no longer pins the expression `append(slices.Clip(h.textAttrs), attrs...)` but
what the translator's slice summary establishes for whatever computes the slice: the result
reads parent ++ added, and nothing is written into an array that existed before.  That is
all the attribute theorems use (`append_clip` is their only lemma about `WithAttrs`). -/

/-- "contents=parent++added; writes=fresh-only" on the backing-array heap -/
def IsolatingConcat (f : Heap → Slice → List Attr → Heap × Slice) : Prop :=
  ∀ hp s xs, s.wf hp → ∃ ext, (f hp s xs).1 = hp ++ ext ∧ (f hp s xs).2.wf (hp ++ ext) ∧
    view (hp ++ ext) (f hp s xs).2 = view hp s ++ xs

/-- the model's `append(slices.Clip(s), xs...)` satisfies it, for every growth policy -/
theorem clipAppend_isolating (pol : Policy) :
    IsolatingConcat (fun hp s xs => append pol hp (clip s) xs) :=
  fun hp s xs h => append_clip pol hp s xs h

/-- `make([]T, len(s)+len(xs))` + `copy` + `copy`, `nil` when both are empty -/
def concatFresh (hp : Heap) (s : Slice) (xs : List Attr) : Heap × Slice :=
  if s.len + xs.length = 0 then (hp, Slice.nil)
  else (hp ++ [view hp s ++ xs], { arr := hp.length, len := s.len + xs.length, cap := s.len + xs.length })

theorem concatFresh_isolating : IsolatingConcat concatFresh := by
  intro hp s xs h
  have hl : (view hp s).length = s.len := view_length h
  unfold concatFresh
  by_cases h0 : s.len + xs.length = 0
  · have hs : s.len = 0 := by omega
    have hx : xs = [] := List.eq_nil_of_length_eq_zero (by omega)
    refine ⟨[], ?_, ?_, ?_⟩
    · simp [h0]
    · simp only [h0, if_true, List.append_nil]; exact Slice.wf_nil hp
    · simp [hx, view, Slice.nil, hs]
  · refine ⟨[view hp s ++ xs], ?_, ?_, ?_⟩
    · rw [if_neg h0]
    · simp only [h0, if_false]
      refine ⟨Nat.le_refl _, ?_⟩
      simp only [arrayOf_length, List.length_append, hl]
      exact Nat.le_refl _
    · simp only [h0, if_false, view, arrayOf_length]
      have : (view hp s ++ xs).length = s.len + xs.length := by simp [hl]
      rw [← this]; exact List.take_length

/-- `sibling_isolation` for ANY computation of the derived slice that satisfies the contract. -/
theorem sibling_isolation_of_contract (f : Heap → Slice → List Attr → Heap × Slice)
    (hf : IsolatingConcat f) (hp : Heap) (s : Slice) (as₁ as₂ : List Attr) (hw : s.wf hp) :
    let d₁ := f hp s as₁
    let d₂ := f d₁.1 s as₂
    view d₂.1 d₁.2 = view hp s ++ as₁ ∧ view d₂.1 d₂.2 = view hp s ++ as₂ ∧ view d₂.1 s = view hp s := by
  intro d₁ d₂
  obtain ⟨e1, a1, a2, a3⟩ := hf hp s as₁ hw
  have hw1 : s.wf d₁.1 := by show s.wf (f hp s as₁).1; rw [a1]; exact Slice.wf_ext hw e1
  obtain ⟨e2, b1, _, b3⟩ := hf d₁.1 s as₂ hw1
  have hd1 : d₁.1 = hp ++ e1 := a1
  have hd2 : d₂.1 = d₁.1 ++ e2 := b1
  refine ⟨?_, ?_, ?_⟩
  · rw [hd2, hd1]
    have : d₁.2.wf (hp ++ e1) := a2
    rw [view_ext this]; exact a3
  · rw [hd2]
    have : view (d₁.1 ++ e2) d₂.2 = view d₁.1 s ++ as₂ := b3
    rw [this, hd1, view_ext hw]
  · rw [hd2, view_ext hw1, hd1, view_ext hw]

/-! ## The hypotheses are satisfiable -/

/-- a text handler satisfying TEXT-1 -/
example : TextContract (fun _ _ as => as.map (fun _ => 46) ++ [10]) where
  line := by
    intro l rid as
    refine ⟨as.map (fun _ => 46), rfl, by simp, ?_⟩
    induction as with
    | nil => simp [validUtf8]
    | cons a as ih => simp [validUtf8, ih]

/-- JSON-RT is satisfiable: the encoder model satisfies it -/
example : JsonContract goJsonEncode := goJson_contract

/-- well-formed records exist, with a shared `back` that has spare capacity -/
example : Record.wf [[.user 5 false, .zero]]
    { level := 0, rid := 0, front := [.user 0 false, .user 1 false, .user 2 false, .user 3 false, .user 4 false],
      back := { arr := 0, len := 1, cap := 2 } } := ⟨by decide, by decide⟩

/-- a concrete script — LevelVar at 0 (INFO): derive a child and a grandchild, ask both
`Enabled(4)`, `Set(8)`, ask root, child and grandchild again, derive another child after the
`Set`, `Set(-4)`, ask again — on the root `NewJSONHybridHandler` makes from the variable (the
answers never change: the level is the 0 read at construction), on a root that stores the
variable (every node follows it, also the one derived after the `Set`), and on a root with the
constant level 0 (as the first) -/
example :
    let script : List Op :=
      [.withAttrs 0 [.user 0 false], .withAttrs 1 [.user 1 false], .enabled 1 4, .enabled 2 4,
       .setLevel 8, .enabled 0 4, .enabled 1 4, .enabled 2 4, .enabled 2 8,
       .withAttrs 0 [.user 2 false], .enabled 3 4,
       .setLevel (-4), .enabled 1 0, .enabled 3 (-4), .enabled 3 (-5)]
    let run := fun w => (World.run (fun _ _ _ _ => 1) (fun _ _ _ => [10]) (fun _ m => m) [] w script).map
      Prod.snd
    let frozen : List Out := [.derived, .derived, .en true, .en true,
       .set, .en true, .en true, .en true, .en true,
       .derived, .en true,
       .set, .en true, .en false, .en false]
    run (rootWorld [] .var 0) = some frozen ∧
    run (rootWorld [] (.const 0) 5) = some frozen ∧
    run (rootWorldDyn [] .var 0) = some [.derived, .derived, .en true, .en true,
       .set, .en false, .en false, .en false, .en true,
       .derived, .en false,
       .set, .en true, .en true, .en false] := by
  refine ⟨by decide, by decide, by decide⟩

open Lts in
/-- reachable states in which two overlapping calls have both returned exist (so
`all_lines_once` is not vacuous) -/
example : ∃ s, Reachable ⟨fun _ => [65, 10], fun _ b => b⟩ s ∧
    (∀ i, i < 2 → (s.th i).pc = .done) ∧ (∀ i, 2 ≤ i → (s.th i).pc = .start) := by
  refine ⟨_, ⟨[.get 0 none, .get 1 none, .adv 0, .adv 1, .adv 0, .adv 1,
    .adv 0, .adv 0, .adv 0, .adv 0, .adv 0, .adv 0, .adv 0,
    .adv 1, .adv 1, .adv 1, .adv 1, .adv 1, .adv 1, .adv 1], rfl⟩, ?_, ?_⟩
  · intro i hi
    have : i = 0 ∨ i = 1 := by omega
    rcases this with rfl | rfl <;> rfl
  · intro i hi
    have h0 : i ≠ 0 := by omega
    have h1 : i ≠ 1 := by omega
    simp [upd, h0, h1, init]

end GolibsVerif.C19
