/-
C05 — the theorems of `Theorems/C05.lean` that carried contracts on `idna.ToASCII`, with
the parameter `toASCII` instantiated by the model `Idna.toASCII enc dec` of
`golang.org/x/net/idna.ToASCII` (`Go/Idna.lean`, tied to the real function by the op
`std.idna`).  Both contracts are now theorems (`Idna.hDot_model`, `Idna.idna1_model`), so no
idna hypothesis remains; the punycode functions `enc` / `dec` stay parameters about which
nothing is assumed.
-/
import GolibsVerif.Theorems.C05
import GolibsVerif.Theorems.Idna

namespace GolibsVerif.C05
open GolibsVerif.Netutil GolibsVerif.Str GolibsVerif.Netip GolibsVerif GolibsVerif.Gen.Consts

/-- The model of `idna.ToASCII` keeps a leading dot (`IdnaKeepsLeadingDot`, the `hDot` of
`prefix_sound` / `extract_*`). -/
theorem hDot_holds (enc dec : Bytes → Option Bytes) : IdnaKeepsLeadingDot (Idna.toASCII enc dec) :=
  fun s t h hd => Idna.hDot_model enc dec s t h hd

/-- The model of `idna.ToASCII` satisfies IDNA-1 (`IdnaAsciiId`, the `hT` of `prefix_complete`). -/
theorem idna1_holds (enc dec : Bytes → Option Bytes) : IdnaAsciiId (Idna.toASCII enc dec) :=
  fun s h1 h2 => Idna.idna1_model enc dec s h1 h2

/-- `ExtractReversedAddr` never panics (with the modelled `idna.ToASCII`; no hypothesis). -/
theorem extractReversedAddr_total_idna (enc dec : Bytes → Option Bytes) (d : Bytes) :
    ∃ r, extractReversedAddr (Idna.toASCII enc dec) d = .ok r :=
  extractReversedAddr_total _ (hDot_holds enc dec) d

/-- `PrefixFromReversedAddr(s) = p` ⇔ the reference decoder reads `p` off the labels of `s`
(with the modelled `idna.ToASCII`; no hypothesis). -/
theorem prefix_iff_idna (enc dec : Bytes → Option Bytes) (s : Bytes) (p : Prefix) :
    prefixFromReversedAddr (Idna.toASCII enc dec) s = .ok (.ok p) ↔
      arpaPrefixSpec (labelsOf s) = some p :=
  prefix_iff _ (hDot_holds enc dec) (idna1_holds enc dec) s p

/-- `ExtractReversedAddr(d) = p` ⇔ `d` is a valid domain name and `p` is the prefix of its
longest label-aligned ARPA suffix (with the modelled `idna.ToASCII`; no hypothesis). -/
theorem extract_iff_idna (enc dec : Bytes → Option Bytes) (d : Bytes) (p : Prefix) :
    extractReversedAddr (Idna.toASCII enc dec) d = .ok (.ok p) ↔
      validateDomainName (Idna.toASCII enc dec) (trimSuffix d [46]) = .ok none ∧
        longestArpaSuffix (labelsOf d) = some p :=
  extract_iff _ (hDot_holds enc dec) d p

/-- instances, through the modelled `idna.ToASCII` with punycode functions that fail on
everything -/
example : prefixFromReversedAddr (Idna.toASCII (fun _ => none) (fun _ => none))
    (ascii "3.2.10.In-Addr.ARPA.") = .ok (.ok ⟨.v4 [10, 2, 3, 0], 24⟩) :=
  (prefix_iff_idna _ _ _ _).2 (by decide)

example : ∃ r, extractReversedAddr (Idna.toASCII (fun _ => none) (fun _ => none))
    (ascii ".ip6.arpa") = .ok r := extractReversedAddr_total_idna _ _ _

end GolibsVerif.C05
