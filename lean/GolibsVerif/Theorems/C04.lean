import GolibsVerif.Model.NetReversed
namespace GolibsVerif.C04
theorem placeholder : True := trivial
end GolibsVerif.C04
