/-
C04 — property theorems: the ARPA address codec of `netutil/reversed.go`.

* `encode_canon`: `IPToReversedAddr` writes the canonical PTR name (`Spec/C04.lean`, from RFC
  1035 §3.5 / RFC 3596 §2.5) of the address its argument denotes, rejects every other slice
  length, never panics.
* `accepts_spelling`, `accepts_only_canon_partial`: whatever `IPFromReversedAddr` accepts is,
  after trimming one dot and ASCII lower-casing, the dotted-decimal / nibble name of the
  address it returns — for every behaviour of `idna.ToASCII`.  The unconditional statement
  `accepts_only_canon` of the property is FALSE for the code as it is (theorem
  `accepts_only_canon_refuted`): the 72-byte `ip6.arpa` name of an IPv4-mapped address is
  accepted and decoded to the IPv4-mapped IPv6 address, whose canonical name is the
  `in-addr.arpa` one.
* `decode_encode`: under the contract IDNA-1, every ASCII case variant of the canonical name
  of every address, with or without one trailing dot, decodes to that address.
* `decode_canon`, `canonPTR_injective`: the decoder inverts the encoder on the canonical name
  itself, so distinct canonical addresses have distinct names (the bijection of the title).
* `accepted_names_unique`, `accepted_name_determines_addr`, `decode_nibbles`: an address has at
  most one accepted name modulo ASCII case and one trailing dot, and such a name determines
  the address — both unconditional (IPv4-mapped results included, every `idna.ToASCII`).
* `ipFromReversedAddr_total`: no input and no `idna.ToASCII` make the decoder panic; every
  rejection is an ARPA `*AddrError` carrying the trimmed input.
-/
import GolibsVerif.Lemmas.C04Main

namespace GolibsVerif.C04
open GolibsVerif.Netutil GolibsVerif.Str GolibsVerif.Netip GolibsVerif.Gen.Consts GolibsVerif

/-- The constants regenerated from `/repo/netutil` are the documented roots and the length
of a full IPv6 name. -/
theorem consts_documented :
    arpaV4Suffix = 46 :: (lblInAddr ++ 46 :: lblArpa) ∧
    arpaV6Suffix = 46 :: (lblIp6 ++ 46 :: lblArpa) ∧ arpaV6MaxLen = 72 := ⟨rfl, rfl, rfl⟩

/-! ### 1. the encoder -/

/-- `IPToReversedAddr(ip)` is the canonical PTR name of the address `ip` denotes (an
IPv4-mapped 16-byte slice denotes the IPv4 address); slices of any other length are
rejected (`none` = the `*AddrError`); no panic.  Since `canonPTR` encodes an IPv4-mapped
address as IPv4, the result is also `canonPTR (.v6 ip [])` for every 16-byte slice. -/
theorem encode_canon (ip : Bytes) (hb : ∀ b ∈ ip, b < 256) :
    (∀ a, denotes ip a → ipToReversedAddr ip = .ok (some (canonPTR a))) ∧
    (ip.length = 16 → ipToReversedAddr ip = .ok (some (canonPTR (.v6 ip [])))) ∧
    (ip.length ≠ 4 → ip.length ≠ 16 → ipToReversedAddr ip = .ok none) ∧
    (∀ e, ipToReversedAddr ip ≠ .error e) := by
  have h4 : ip.length = 4 → ipToReversedAddr ip = .ok (some (ptr4 ip)) := by
    intro hl
    simp only [ipToReversedAddr, ipTo4, hl, if_true, sliceFrom_v4suffix, bind, Except.bind, pure,
      Except.pure, enc_v4 ip hb]
  have h46 : is4in6 ip → ipToReversedAddr ip = .ok (some (ptr4 (ip.drop 12))) := by
    intro hm
    have hne : ¬ (ip.length = 4) := by rw [hm.1]; omega
    simp only [ipToReversedAddr, ipTo4_of_len16 ip hm.1, hm, if_true, sliceFrom_v4suffix, bind,
      Except.bind, pure, Except.pure, enc_v4 (ip.drop 12) (fun x hx => hb x (List.mem_of_mem_drop hx))]
  have h6 : ip.length = 16 → ¬ is4in6 ip → ipToReversedAddr ip = .ok (some (ptr6 ip)) := by
    intro hl hm
    have hne : ¬ (ip.length = 4) := by rw [hl]; omega
    have h164 : ¬ ((16 : Nat) = 4) := by decide
    simp only [ipToReversedAddr, ipTo4_of_len16 ip hl, hm, if_false, ipTo16, hl, h164, if_true,
      sliceFrom_v6suffix, bind, Except.bind, pure, Except.pure, enc_v6 ip hb]
  have h16 : ip.length = 16 → ipToReversedAddr ip = .ok (some (canonPTR (.v6 ip []))) := by
    intro hl
    unfold canonPTR
    by_cases hm : is4in6 ip
    · simp only [hm, if_true]; exact h46 hm
    · simp only [hm, if_false]; exact h6 hl hm
  have hnone : ip.length ≠ 4 → ip.length ≠ 16 → ipToReversedAddr ip = .ok none := by
    intro h1 h2
    simp [ipToReversedAddr, ipTo4, ipTo16, h1, h2, pure, Except.pure]
  refine ⟨?_, h16, hnone, ?_⟩
  · rintro a (⟨hl, rfl⟩ | ⟨hm, rfl⟩ | ⟨hl, hm, rfl⟩)
    · exact h4 hl
    · exact h46 hm
    · rw [h16 hl]
  · intro e he
    by_cases hl4 : ip.length = 4
    · rw [h4 hl4] at he; cases he
    · by_cases hl16 : ip.length = 16
      · rw [h16 hl16] at he; cases he
      · rw [hnone hl4 hl16] at he; cases he

/-! ### 2. the decoder accepts only canonical spellings -/

/-- Whatever `IPFromReversedAddr` accepts, for any behaviour of `idna.ToASCII`: the input,
with one trailing dot trimmed and ASCII-lower-cased, is exactly `d.c.b.a.in-addr.arpa`
(decimal, no leading zeros) of the IPv4 address returned, or exactly the 32-nibble
`ip6.arpa` name of the zone-less IPv6 address returned. -/
theorem accepts_spelling (toASCII : Bytes → Option Bytes) (s : Bytes) (a : Addr)
    (h : ipFromReversedAddr toASCII s = .ok (.ok a)) :
    (∃ b, a = .v4 b ∧ b.length = 4 ∧ (∀ x ∈ b, x < 256) ∧
      asciiLower (trimSuffix s [46]) = ptr4 b) ∨
    (∃ b, a = .v6 b [] ∧ b.length = 16 ∧ (∀ x ∈ b, x < 256) ∧
      asciiLower (trimSuffix s [46]) = ptr6 b) := by
  rcases prologue_cases toASCII s with ⟨hv, _⟩ | ⟨inner, hp⟩
  · rw [fromRev_of_valid toASCII s hv] at h
    exact body_accept _ a h
  · rw [fromRev_of_invalid toASCII s _ hp] at h
    cases h

/-
The property's statement, FALSE for the code as it is (see `accepts_only_canon_refuted`):

  theorem accepts_only_canon (toASCII) (s) (a) (h : ipFromReversedAddr toASCII s = .ok (.ok a)) :
      asciiLower (trimSuffix s [46]) = canonPTR a

What holds is the same conclusion for every accepted input whose result is not an
IPv4-mapped IPv6 address: -/

/-- `accepts_only_canon`, restricted to results that are not IPv4-mapped IPv6 addresses:
the accepted input is, ASCII-case-insensitively and modulo one trailing dot, the canonical
PTR name of the address returned; the address is well-formed and has no zone. -/
theorem accepts_only_canon_partial (toASCII : Bytes → Option Bytes) (s : Bytes) (a : Addr)
    (h : ipFromReversedAddr toASCII s = .ok (.ok a)) (hm : ∀ b z, a = .v6 b z → ¬ is4in6 b) :
    asciiLower (trimSuffix s [46]) = canonPTR a ∧ WF a ∧ (∀ b z, a = .v6 b z → z = []) := by
  rcases accepts_spelling toASCII s a h with ⟨b, rfl, hl, hb, hs⟩ | ⟨b, rfl, hl, hb, hs⟩
  · exact ⟨hs, ⟨hl, hb⟩, fun _ _ he => by cases he⟩
  · refine ⟨?_, ⟨hl, hb⟩, fun _ _ he => by cases he; rfl⟩
    unfold canonPTR
    simp only [hm b [] rfl, if_false]
    exact hs

/-- IPv4 results are never affected by the restriction. -/
theorem accepts_only_canon_v4 (toASCII : Bytes → Option Bytes) (s : Bytes) (b : List Nat)
    (h : ipFromReversedAddr toASCII s = .ok (.ok (.v4 b))) :
    asciiLower (trimSuffix s [46]) = canonPTR (.v4 b) :=
  (accepts_only_canon_partial toASCII s _ h (fun _ _ he => by cases he)).1

/-- the `ip6.arpa` name of `::ffff:1.2.3.4` -/
def mappedWitness : Bytes := ptr6 [0, 0, 0, 0, 0, 0, 0, 0, 0, 0, 255, 255, 1, 2, 3, 4]

/-- The unconditional `accepts_only_canon` does not hold: with `idna.ToASCII` the identity,
`4.0.3.0.2.0.1.0.f.f.f.f.0.….0.ip6.arpa` is accepted and decoded to `::ffff:1.2.3.4`, whose
canonical PTR name is `4.3.2.1.in-addr.arpa`. -/
theorem accepts_only_canon_refuted :
    ¬ ∀ (toASCII : Bytes → Option Bytes) (s : Bytes) (a : Addr),
      ipFromReversedAddr toASCII s = .ok (.ok a) → asciiLower (trimSuffix s [46]) = canonPTR a := by
  intro hall
  have hb : ∀ x ∈ [0, 0, 0, 0, 0, 0, 0, 0, 0, 0, 255, 255, 1, 2, 3, 4], x < 256 := by decide
  have hlow : asciiLower mappedWitness = mappedWitness := by decide
  have hv : validateDomainName some (trimSuffix mappedWitness [46]) = .ok none := by
    have ht : trimSuffix mappedWitness [46] = mappedWitness := by decide
    rw [ht]
    refine domain_ok_of_labels some (fun s _ _ => rfl) mappedWitness _ (hlow.trans (ptr6_labels _)) ?_ ?_
    · intro l hl
      exact good_labels6 _ hb l hl
    · rw [← ptr6_labels, ptr6_length]; decide
  have hacc : ipFromReversedAddr some mappedWitness =
      .ok (.ok (.v6 [0, 0, 0, 0, 0, 0, 0, 0, 0, 0, 255, 255, 1, 2, 3, 4] [])) := by
    rw [fromRev_of_valid some mappedWitness hv]
    have ht : trimSuffix mappedWitness [46] = mappedWitness := by decide
    rw [ht]
    exact body_ptr6 mappedWitness _ rfl hb hlow
  have hne := hall some mappedWitness _ hacc
  have hlen : (asciiLower (trimSuffix mappedWitness [46])).length = 72 := by decide
  rw [hne] at hlen
  simp [canonPTR, is4in6, ptr4, joinDot, dec, lblInAddr, lblArpa] at hlen

/-! ### 3. the decoder inverts the encoder -/

/-- Under IDNA-1 (`idna.ToASCII` returns an ASCII name without A-labels unchanged): every
ASCII case variant `v` of the canonical PTR name of a well-formed address `a` (IPv4, or
zone-less IPv6 that is not IPv4-mapped), with or without one trailing dot, decodes to `a`. -/
theorem decode_encode (toASCII : Bytes → Option Bytes)
    (hT : ∀ s, (∀ b ∈ s, b < 128) → NoXnLabel s → toASCII s = some s)
    (a : Addr) (hwf : WF a) (hm : ∀ b z, a = .v6 b z → z = [] ∧ ¬ is4in6 b)
    (v : Bytes) (hv : asciiLower v = canonPTR a) (dot : Bytes) (hd : dot = [] ∨ dot = [46]) :
    ipFromReversedAddr toASCII (v ++ dot) = .ok (.ok a) := by
  cases a with
  | invalid => exact absurd hwf (by simp [WF])
  | v4 b =>
    obtain ⟨hl, hb⟩ := hwf
    match b, hl with
    | [x0, x1, x2, x3], _ =>
      have h0 := hb x0 (by simp)
      have h1 := hb x1 (by simp)
      have h2 := hb x2 (by simp)
      have h3 := hb x3 (by simp)
      have hv' : asciiLower v = ptr4 [x0, x1, x2, x3] := hv
      have hlab := ptr4_labels x0 x1 x2 x3
      have htrim : trimSuffix (v ++ dot) [46] = v :=
        trim_variant v _ dot (hv'.trans (hlab.trans (joinDot_arpa _ (by simp [labels4])))) hd
      have hvalid : validateDomainName toASCII (trimSuffix (v ++ dot) [46]) = .ok none := by
        rw [htrim]
        exact domain_ok_of_labels toASCII hT v _ (hv'.trans hlab)
          (good_labels4 x0 x1 x2 x3 h0 h1 h2 h3) (hlab ▸ ptr4_length_le x0 x1 x2 x3 h0 h1 h2 h3)
      rw [fromRev_of_valid toASCII _ hvalid, htrim]
      exact body_ptr4 v x0 x1 x2 x3 h0 h1 h2 h3 hv'
  | v6 b z =>
    obtain ⟨hl, hb⟩ := hwf
    obtain ⟨hz, hnm⟩ := hm b z rfl
    subst hz
    have hv' : asciiLower v = ptr6 b := by
      rw [hv]; unfold canonPTR; simp only [hnm, if_false]
    have hlab := ptr6_labels b
    have htrim : trimSuffix (v ++ dot) [46] = v :=
      trim_variant v _ dot (hv'.trans (hlab.trans (joinDot_arpa _ (by simp [labels6])))) hd
    have hvalid : validateDomainName toASCII (trimSuffix (v ++ dot) [46]) = .ok none := by
      rw [htrim]
      refine domain_ok_of_labels toASCII hT v _ (hv'.trans hlab) (good_labels6 b hb) ?_
      rw [← hlab, ptr6_length, hl]; decide
    rw [fromRev_of_valid toASCII _ hvalid, htrim]
    exact body_ptr6 v b hl hb hv'

/-- Under IDNA-1 the decoder inverts the encoder on the canonical name itself (the instance
`v = canonPTR a`, no dot, of `decode_encode`; needs `canonPTR_lower`: a canonical name
contains no upper-case letter). -/
theorem decode_canon (toASCII : Bytes → Option Bytes)
    (hT : ∀ s, (∀ b ∈ s, b < 128) → NoXnLabel s → toASCII s = some s)
    (a : Addr) (hwf : WF a) (hm : ∀ b z, a = .v6 b z → z = [] ∧ ¬ is4in6 b) :
    ipFromReversedAddr toASCII (canonPTR a) = .ok (.ok a) := by
  have := decode_encode toASCII hT a hwf hm (canonPTR a) (canonPTR_lower a) [] (Or.inl rfl)
  simpa using this

/-- Injectivity of the encoder on canonical addresses: two well-formed addresses (IPv4, or
zone-less IPv6 that is not IPv4-mapped) with the same canonical PTR name are equal — with
`decode_canon` and `accepts_only_canon_partial`, the codec is a bijection between those
addresses and the names `IPFromReversedAddr` maps back to them. -/
theorem canonPTR_injective (a a' : Addr) (hwf : WF a) (hwf' : WF a')
    (hm : ∀ b z, a = .v6 b z → z = [] ∧ ¬ is4in6 b)
    (hm' : ∀ b z, a' = .v6 b z → z = [] ∧ ¬ is4in6 b)
    (h : canonPTR a = canonPTR a') : a = a' := by
  have h1 := decode_canon some (fun _ _ _ => rfl) a hwf hm
  have h2 := decode_canon some (fun _ _ _ => rfl) a' hwf' hm'
  rw [h] at h1
  rw [h1] at h2
  injection h2 with h2; injection h2

/-- "Accepts nothing else", unconditionally (IPv4-mapped results included) and for every
`idna.ToASCII`: all inputs that `IPFromReversedAddr` maps to one address are equal modulo
ASCII case and one trailing dot — an address has at most one accepted name. -/
theorem accepted_names_unique (toASCII : Bytes → Option Bytes) (s s' : Bytes) (a : Addr)
    (h : ipFromReversedAddr toASCII s = .ok (.ok a))
    (h' : ipFromReversedAddr toASCII s' = .ok (.ok a)) :
    asciiLower (trimSuffix s [46]) = asciiLower (trimSuffix s' [46]) := by
  rcases accepts_spelling toASCII s a h with ⟨b, rfl, _, _, hs⟩ | ⟨b, rfl, _, _, hs⟩ <;>
  rcases accepts_spelling toASCII s' _ h' with ⟨b', he, _, _, hs'⟩ | ⟨b', he, _, _, hs'⟩ <;>
  cases he <;> rw [hs, hs']

/-- Under IDNA-1 every ASCII case variant of the 32-nibble `ip6.arpa` spelling of sixteen
bytes decodes to exactly those sixteen bytes — IPv4-mapped ones included (this is the
behaviour behind the known finding: no unmapping on the way in). -/
theorem decode_nibbles (toASCII : Bytes → Option Bytes)
    (hT : ∀ s, (∀ b ∈ s, b < 128) → NoXnLabel s → toASCII s = some s)
    (b : List Nat) (hl : b.length = 16) (hb : ∀ x ∈ b, x < 256)
    (v : Bytes) (hv' : asciiLower v = ptr6 b) (dot : Bytes) (hd : dot = [] ∨ dot = [46]) :
    ipFromReversedAddr toASCII (v ++ dot) = .ok (.ok (.v6 b [])) := by
  have hlab := ptr6_labels b
  have htrim : trimSuffix (v ++ dot) [46] = v :=
    trim_variant v _ dot (hv'.trans (hlab.trans (joinDot_arpa _ (by simp [labels6])))) hd
  have hvalid : validateDomainName toASCII (trimSuffix (v ++ dot) [46]) = .ok none := by
    rw [htrim]
    refine domain_ok_of_labels toASCII hT v _ (hv'.trans hlab) (good_labels6 b hb) ?_
    rw [← hlab, ptr6_length, hl]; decide
  rw [fromRev_of_valid toASCII _ hvalid, htrim]
  exact body_ptr6 v b hl hb hv'

/-- **The accepted name determines the address — unconditionally** (IPv4-mapped results
included, every `idna.ToASCII`): two accepted inputs that are equal modulo ASCII case and one
trailing dot decode to the same address.  With `accepted_names_unique` the decoder is, on
what it accepts, a bijection between names modulo case/dot and addresses. -/
theorem accepted_name_determines_addr (toASCII : Bytes → Option Bytes) (s s' : Bytes)
    (a a' : Addr)
    (h : ipFromReversedAddr toASCII s = .ok (.ok a))
    (h' : ipFromReversedAddr toASCII s' = .ok (.ok a'))
    (hs : asciiLower (trimSuffix s [46]) = asciiLower (trimSuffix s' [46])) : a = a' := by
  have hT : ∀ s : Bytes, (∀ b ∈ s, b < 128) → NoXnLabel s → (some : Bytes → Option Bytes) s = some s :=
    fun _ _ _ => rfl
  have d4 : ∀ b : List Nat, b.length = 4 → (∀ x ∈ b, x < 256) →
      ipFromReversedAddr some (ptr4 b) = .ok (.ok (.v4 b)) := fun b hl hb => by
    simpa using decode_encode some hT (.v4 b) ⟨hl, hb⟩ (fun _ _ he => by cases he) (ptr4 b)
      (canonPTR_lower (.v4 b)) [] (Or.inl rfl)
  have d6 : ∀ b : List Nat, b.length = 16 → (∀ x ∈ b, x < 256) →
      ipFromReversedAddr some (ptr6 b) = .ok (.ok (.v6 b [])) := fun b hl hb => by
    simpa using decode_nibbles some hT b hl hb (ptr6 b)
      (asciiLower_of_no_upper _ (ptr6_not_upper b)) [] (Or.inl rfl)
  rcases accepts_spelling toASCII s a h with ⟨b, rfl, hl, hb, e⟩ | ⟨b, rfl, hl, hb, e⟩ <;>
  rcases accepts_spelling toASCII s' a' h' with ⟨b', rfl, hl', hb', e'⟩ | ⟨b', rfl, hl', hb', e'⟩
  · have := d4 b hl hb; rw [← e, hs, e', d4 b' hl' hb'] at this
    injection this with this; injection this with this; exact this.symm
  · have := d4 b hl hb; rw [← e, hs, e', d6 b' hl' hb'] at this
    injection this with this; injection this with this; cases this
  · have := d6 b hl hb; rw [← e, hs, e', d4 b' hl' hb'] at this
    injection this with this; injection this with this; cases this
  · have := d6 b hl hb; rw [← e, hs, e', d6 b' hl' hb'] at this
    injection this with this; injection this with this; exact this.symm

/-! ### 4. totality and the shape of rejections -/

/-- For every `idna.ToASCII` and every input, `IPFromReversedAddr` returns (no Go panic: no
index of `ipv6FromReversed` is out of range, the slice before `.in-addr.arpa` is in range,
`replaceKind`'s `panic` branch is not reached), and every rejection is an `*AddrError` of
kind "arpa domain name" whose `Addr` is the input without its one trailing dot. -/
theorem ipFromReversedAddr_total (toASCII : Bytes → Option Bytes) (s : Bytes) :
    ∃ r, ipFromReversedAddr toASCII s = .ok r ∧
      ∀ e, r = .error e → ∃ inner, e = .addr .arpa (trimSuffix s [46]) inner := by
  rcases prologue_cases toASCII s with ⟨hv, _⟩ | ⟨inner, hp⟩
  · rw [fromRev_of_valid toASCII s hv]
    exact body_total _
  · exact ⟨_, fromRev_of_invalid toASCII s _ hp, fun e he => by cases he; exact ⟨_, rfl⟩⟩

/-- the helper alone: on a string of at least 64 bytes no index is out of range (the caller
checks `len(arpa) == 72`) -/
theorem ipv6FromReversed_no_panic (arpa : Bytes) (h : 64 ≤ arpa.length) :
    ∃ r, ipv6FromReversed arpa = .ok r := ipv6FromReversed_total arpa h

/-! ### Non-vacuity -/

/-- `idna.ToASCII` as the identity satisfies IDNA-1 -/
example : ∀ s : Bytes, (∀ b ∈ s, b < 128) → NoXnLabel s → (some : Bytes → Option Bytes) s = some s :=
  fun _ _ _ => rfl

example : canonPTR (.v4 [192, 0, 2, 255]) = ascii "255.2.0.192.in-addr.arpa" := by
  simp [canonPTR, ptr4, joinDot, dec, lblInAddr, lblArpa]; decide
example : canonPTR (.v6 [0x20, 0x01, 0x0d, 0xb8, 0, 0, 0, 0, 0, 0, 0, 0, 0, 0, 0, 0x1f] []) =
    ascii "f.1.0.0.0.0.0.0.0.0.0.0.0.0.0.0.0.0.0.0.0.0.0.0.8.b.d.0.1.0.0.2.ip6.arpa" := by decide
example : canonPTR (.v6 [0, 0, 0, 0, 0, 0, 0, 0, 0, 0, 255, 255, 1, 2, 3, 4] []) =
    canonPTR (.v4 [1, 2, 3, 4]) := by simp [canonPTR, is4in6]
example : denotes [1, 2, 3, 4] (.v4 [1, 2, 3, 4]) := Or.inl ⟨rfl, rfl⟩
example : denotes [0, 0, 0, 0, 0, 0, 0, 0, 0, 0, 255, 255, 1, 2, 3, 4] (.v4 [1, 2, 3, 4]) :=
  Or.inr (Or.inl ⟨by decide, rfl⟩)
example : ipToReversedAddr [1, 2, 3, 4] = .ok (some (ascii "4.3.2.1.in-addr.arpa")) := by decide
example : ipToReversedAddr [1, 2, 3] = .ok none := by decide
/-- a mixed-case variant with a trailing dot is decoded (instance of `decode_encode`) -/
example : ipFromReversedAddr some (ascii "4.3.2.1.In-Addr.ARPA.") = .ok (.ok (.v4 [1, 2, 3, 4])) :=
  decode_encode some (fun _ _ _ => rfl) (.v4 [1, 2, 3, 4]) ⟨rfl, by decide⟩
    (fun _ _ he => by cases he) (ascii "4.3.2.1.In-Addr.ARPA")
    (by simp [canonPTR, ptr4, joinDot, dec, lblInAddr, lblArpa]; decide) [46] (Or.inr rfl)
/-- model evaluation: accepted / rejected, as a Boolean (`Err` has no decidable equality) -/
def acceptedAs (r : GoM (Except Err Addr)) (a : Addr) : Bool :=
  match r with
  | .ok (.ok a') => a' == a
  | _ => false
def rejected (r : GoM (Except Err Addr)) : Bool :=
  match r with
  | .ok (.error _) => true
  | _ => false
example : acceptedAs (ipFromReversedAddr some (ascii "4.3.2.1.IN-addr.arpa.")) (.v4 [1, 2, 3, 4]) = true := by
  decide
/-- premises of `accepted_names_unique` are met by two different spellings of one name -/
example : acceptedAs (ipFromReversedAddr some (ascii "4.3.2.1.in-addr.ARPA")) (.v4 [1, 2, 3, 4]) = true := by
  decide
/-- leading zero, `+`, five labels, 31 nibbles, the repaired non-ASCII look-alike root -/
example : rejected (ipFromReversedAddr some (ascii "04.3.2.1.in-addr.arpa")) = true := by decide
example : rejected (ipFromReversedAddr some (ascii "+4.3.2.1.in-addr.arpa")) = true := by decide
example : rejected (ipFromReversedAddr some (ascii "5.4.3.2.1.in-addr.arpa")) = true := by decide
example : rejected (ipFromReversedAddr some
    (ascii "1.0.0.0.0.0.0.0.0.0.0.0.0.0.0.0.0.0.0.0.0.0.0.0.8.b.d.0.1.0.0.ip6.arpa")) = true := by decide
example : rejected (ipFromReversedAddr some
    ([52, 46, 51, 46, 50, 46, 49, 46, 0xc4, 0xb0] ++ ascii "n-addr.arpa")) = true := by decide

end GolibsVerif.C04
