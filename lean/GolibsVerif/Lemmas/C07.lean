/-
C07 — helper lemmas: the field cutting of `record.go` against the reference splitting
`fieldsOf`, and the closed form `refUnmarshal` of `UnmarshalText` over the field list.
-/
import GolibsVerif.Spec.C07
import GolibsVerif.Theorems.C03

namespace GolibsVerif.C07
open GolibsVerif GolibsVerif.Str GolibsVerif.Netutil GolibsVerif.Netip

/-! ### blanks -/

theorem nsp_iff (b : Nat) : nsp b = true ↔ isSpace b = false := by
  unfold nsp; cases isSpace b <;> simp

theorem trimLeft_spaces (s : Bytes) : trimLeft s spaces = s.dropWhile isSpace := rfl

theorem isSpace_iff (b : Nat) : isSpace b = true ↔ b = 32 ∨ b = 9 := by
  simp [isSpace, inSet, spaces, GolibsVerif.Gen.C07.spaces]

theorem hash_not_space : isSpace hash = false := by decide

/-! ### `splitBlank` / `fieldsOf` -/

theorem mem_takeWhile_imp {p : Nat → Bool} {l : Bytes} {b : Nat} (h : b ∈ l.takeWhile p) : p b = true :=
  List.all_eq_true.1 List.all_takeWhile b h

theorem takeWhile_eq_self {p : Nat → Bool} {l : Bytes} (h : ∀ b ∈ l, p b = true) : l.takeWhile p = l := by
  induction l with
  | nil => rfl
  | cons b r ih =>
    simp [List.takeWhile, h b (by simp)]
    exact ih (fun x hx => h x (by simp [hx]))

theorem splitBlank_cons_space {b : Nat} (h : isSpace b = true) (r : Bytes) :
    splitBlank (b :: r) = [] :: splitBlank r := by
  rw [splitBlank]; simp [h]

theorem splitBlank_cons_nsp {b : Nat} (h : ¬ isSpace b = true) (r : Bytes) :
    splitBlank (b :: r) = match splitBlank r with | [] => [[b]] | p :: ps => (b :: p) :: ps := by
  rw [splitBlank, if_neg h]; cases splitBlank r <;> rfl

theorem splitBlank_ne_nil (s : Bytes) : splitBlank s ≠ [] := by
  induction s with
  | nil => simp [splitBlank]
  | cons b r ih =>
    unfold splitBlank
    split
    · simp
    · split <;> simp

theorem fieldsOf_nil : fieldsOf [] = [] := by simp [fieldsOf, splitBlank]

theorem fieldsOf_cons_space {b : Nat} (h : isSpace b = true) (s : Bytes) :
    fieldsOf (b :: s) = fieldsOf s := by
  simp [fieldsOf, splitBlank, h]

theorem fieldsOf_dropWhile (s : Bytes) : fieldsOf (s.dropWhile isSpace) = fieldsOf s := by
  induction s with
  | nil => rfl
  | cons b r ih =>
    by_cases h : isSpace b = true
    · simp [List.dropWhile, h, ih, fieldsOf_cons_space h]
    · simp [List.dropWhile, h]

theorem head_dropWhile_nsp {s : Bytes} {c : Nat} {u : Bytes} (h : s.dropWhile nsp = c :: u) :
    isSpace c = true := by
  induction s with
  | nil => simp at h
  | cons b r ih =>
    by_cases hb : nsp b = true
    · simp [List.dropWhile, hb] at h; exact ih h
    · simp [List.dropWhile, hb] at h
      obtain ⟨rfl, _⟩ := h
      unfold nsp at hb; simpa using hb

/-- the first piece of `splitBlank` is the longest blank-free prefix; the rest is the
splitting of what follows the first blank -/
theorem splitBlank_head (s : Bytes) :
    splitBlank s = s.takeWhile nsp ::
      (match s.dropWhile nsp with | [] => [] | _ :: u => splitBlank u) := by
  induction s with
  | nil => simp [splitBlank]
  | cons b r ih =>
    by_cases h : isSpace b = true
    · have hn : nsp b = false := by simp [nsp, h]
      rw [splitBlank_cons_space h]
      simp [hn, List.takeWhile, List.dropWhile]
    · have hn : nsp b = true := by simp [nsp, h]
      rw [splitBlank_cons_nsp h, ih]
      simp [hn, List.takeWhile, List.dropWhile]

/-- one cut against the reference: the fields of `s` are its first blank-free run (if not
empty) followed by the fields of the trimmed rest -/
theorem fieldsOf_cut (s : Bytes) :
    fieldsOf s = (if s.takeWhile nsp = [] then [] else [s.takeWhile nsp]) ++
      fieldsOf (trimLeft (s.dropWhile nsp) spaces) := by
  rw [trimLeft_spaces, fieldsOf_dropWhile]
  conv => lhs; unfold fieldsOf; rw [splitBlank_head]
  have hrest : List.filter (fun p => p != [])
      (match s.dropWhile nsp with | [] => [] | _ :: u => splitBlank u) = fieldsOf (s.dropWhile nsp) := by
    cases hd : s.dropWhile nsp with
    | nil => simp [fieldsOf_nil]
    | cons c u =>
      have hc := head_dropWhile_nsp hd
      rw [fieldsOf_cons_space hc]; rfl
  by_cases hw : s.takeWhile nsp = []
  · simp [hw, hrest]
  · simp [hw, hrest]

/-- no leading blank -/
def NoLead (s : Bytes) : Prop := ∀ b, s.head? = some b → nsp b = true

theorem noLead_nil : NoLead [] := by intro b h; simp at h

theorem noLead_dropWhile (s : Bytes) : NoLead (s.dropWhile isSpace) := by
  induction s with
  | nil => exact noLead_nil
  | cons b r ih =>
    by_cases h : isSpace b = true
    · simpa [List.dropWhile, h] using ih
    · intro c hc
      simp [List.dropWhile, h] at hc
      subst hc; simp [nsp, h]

theorem noLead_trimLeft (s : Bytes) : NoLead (trimLeft s spaces) := noLead_dropWhile s

theorem takeWhile_ne_nil_of_noLead {s : Bytes} (hl : NoLead s) (hne : s ≠ []) :
    s.takeWhile nsp ≠ [] := by
  cases s with
  | nil => exact absurd rfl hne
  | cons b r =>
    have := hl b rfl
    simp [List.takeWhile, this]

theorem fieldsOf_ne_nil_of_noLead {s : Bytes} (hl : NoLead s) (hne : s ≠ []) : fieldsOf s ≠ [] := by
  rw [fieldsOf_cut]
  simp [takeWhile_ne_nil_of_noLead hl hne]

/-- for a text without leading blank: one cut peels exactly the first field -/
theorem fieldsOf_cut_noLead {s : Bytes} (hl : NoLead s) (hne : s ≠ []) :
    fieldsOf s = s.takeWhile nsp :: fieldsOf (trimLeft (s.dropWhile nsp) spaces) := by
  rw [fieldsOf_cut]
  simp [takeWhile_ne_nil_of_noLead hl hne]

theorem splitBlank_append_space {c : Nat} (hc : isSpace c = true) (t u : Bytes) :
    splitBlank (t ++ c :: u) = splitBlank t ++ splitBlank u := by
  induction t with
  | nil => simp [splitBlank, hc]
  | cons b r ih =>
    by_cases h : isSpace b = true
    · simp [splitBlank, h, ih]
    · simp only [List.cons_append, splitBlank, h]
      rw [ih]
      cases hs : splitBlank r with
      | nil => exact absurd hs (splitBlank_ne_nil r)
      | cons p ps => simp

theorem fieldsOf_append_space {c : Nat} (hc : isSpace c = true) (t u : Bytes) :
    fieldsOf (t ++ c :: u) = fieldsOf t ++ fieldsOf u := by
  simp [fieldsOf, splitBlank_append_space hc]

theorem fieldsOf_all_space {sp : Bytes} (h : ∀ b ∈ sp, isSpace b = true) : fieldsOf sp = [] := by
  induction sp with
  | nil => exact fieldsOf_nil
  | cons b r ih =>
    rw [fieldsOf_cons_space (h b (by simp))]
    exact ih (fun x hx => h x (by simp [hx]))

theorem fieldsOf_append_spaces {sp : Bytes} (h : ∀ b ∈ sp, isSpace b = true) (t : Bytes) :
    fieldsOf (t ++ sp) = fieldsOf t := by
  cases sp with
  | nil => simp
  | cons c u =>
    have hu : fieldsOf u = [] := fieldsOf_all_space (fun x hx => h x (by simp [hx]))
    rw [fieldsOf_append_space (h c (by simp)), hu]
    simp

theorem trimRight_prefix (s : Bytes) :
    ∃ sp, s = trimRight s spaces ++ sp ∧ ∀ b ∈ sp, isSpace b = true := by
  refine ⟨(s.reverse.takeWhile isSpace).reverse, ?_, ?_⟩
  · unfold trimRight
    have : inSet spaces = isSpace := rfl
    rw [this, ← List.reverse_append, List.takeWhile_append_dropWhile, List.reverse_reverse]
  · intro b hb
    rw [List.mem_reverse] at hb
    exact mem_takeWhile_imp hb

theorem fieldsOf_trim (s : Bytes) : fieldsOf (trim s spaces) = fieldsOf s := by
  unfold trim
  obtain ⟨sp, h1, h2⟩ := trimRight_prefix (trimLeft s spaces)
  have := fieldsOf_append_spaces h2 (trimRight (trimLeft s spaces) spaces)
  rw [← h1, trimLeft_spaces, fieldsOf_dropWhile] at this
  exact this.symm

theorem noLead_trim (s : Bytes) : NoLead (trim s spaces) := by
  unfold trim
  obtain ⟨sp, h1, _⟩ := trimRight_prefix (trimLeft s spaces)
  have hl := noLead_trimLeft s
  intro b hb
  apply hl b
  rw [h1]
  cases ht : trimRight (trimLeft s spaces) spaces with
  | nil => rw [ht] at hb; simp at hb
  | cons x xs => rw [ht] at hb; simpa using hb

/-- every piece is blank-free and made of bytes of the text -/
theorem mem_splitBlank {s : Bytes} : ∀ p ∈ splitBlank s, ∀ b ∈ p, isSpace b = false ∧ b ∈ s := by
  induction s with
  | nil => intro p hp b hb; simp [splitBlank] at hp; subst hp; simp at hb
  | cons c r ih =>
    intro p hp b hb
    by_cases h : isSpace c = true
    · rw [splitBlank_cons_space h] at hp
      simp only [List.mem_cons] at hp
      rcases hp with rfl | hp
      · simp at hb
      · have := ih p hp b hb; exact ⟨this.1, by simp [this.2]⟩
    · rw [splitBlank_cons_nsp h] at hp
      cases hs : splitBlank r with
      | nil => exact absurd hs (splitBlank_ne_nil r)
      | cons q qs =>
        rw [hs] at ih hp
        simp only [List.mem_cons] at hp
        rcases hp with rfl | hp
        · simp only [List.mem_cons] at hb
          rcases hb with rfl | hb
          · exact ⟨by simpa using h, by simp⟩
          · have := ih q (by simp) b hb; exact ⟨this.1, by simp [this.2]⟩
        · have := ih p (by simp [hp]) b hb; exact ⟨this.1, by simp [this.2]⟩

theorem mem_fieldsOf {s f : Bytes} (hf : f ∈ fieldsOf s) :
    f ≠ [] ∧ ∀ b ∈ f, isSpace b = false ∧ b ∈ s := by
  unfold fieldsOf at hf
  rw [List.mem_filter] at hf
  exact ⟨by simpa using hf.2, mem_splitBlank f hf.1⟩

/-- a field of a line is non-empty and contains neither a blank nor `'#'` -/
theorem mem_fields {line f : Bytes} (hf : f ∈ fields line) :
    f ≠ [] ∧ ∀ b ∈ f, isSep b = false := by
  obtain ⟨h1, h2⟩ := mem_fieldsOf hf
  refine ⟨h1, fun b hb => ?_⟩
  obtain ⟨h3, h4⟩ := h2 b hb
  have := mem_takeWhile_imp h4
  simp only [isSep, h3, Bool.false_or]
  simpa using this

/-- a blank-free, non-empty word is its own single field -/
theorem fieldsOf_word {w : Bytes} (hne : w ≠ []) (hw : ∀ b ∈ w, isSpace b = false) :
    fieldsOf w = [w] := by
  have htw : w.takeWhile nsp = w := by
    apply takeWhile_eq_self
    intro b hb; simp [nsp, hw b hb]
  have hdw : w.dropWhile nsp = [] := by
    have := List.takeWhile_append_dropWhile (p := nsp) (l := w)
    rw [htw] at this; simpa using this
  rw [fieldsOf_cut, htw, hdw]
  simp [hne, trimLeft, fieldsOf_nil]

/-! ### the comment cut -/

theorem indexByteFrom_spec (c : Nat) (s : Bytes) (i : Nat) :
    (indexByteFrom c s i = -1 ∧ s.takeWhile (fun b => b != c) = s) ∨
    (indexByteFrom c s i = ((i + (s.takeWhile (fun b => b != c)).length : Nat) : Int)) := by
  induction s generalizing i with
  | nil => left; simp [indexByteFrom]
  | cons b r ih =>
    unfold indexByteFrom
    by_cases h : b = c
    · right; simp [h, List.takeWhile]
    · simp only [h, if_false]
      have hb : (b != c) = true := by simpa using h
      rcases ih (i + 1) with ⟨h1, h2⟩ | h1
      · left; exact ⟨h1, by simp [List.takeWhile, hb, h2]⟩
      · right; rw [h1]; simp [List.takeWhile, hb]; omega

theorem comment_cut (data : Bytes) : cutComment data = .ok (stripComment data) := by
  unfold cutComment indexByte stripComment
  simp only []
  rcases indexByteFrom_spec hash data 0 with ⟨h1, h2⟩ | h1
  · rw [h1, h2]; simp [pure, Except.pure]
  · rw [h1]
    have hle := length_takeWhile_le (fun b => b != hash) data
    have hnn : (((0 + (data.takeWhile (fun b => b != hash)).length : Nat) : Int) ≥ 0) := by omega
    simp only [hnn, if_true]
    unfold GoM.sliceTo
    have := GoM.slice_ofNat data 0 (0 + (data.takeWhile (fun b => b != hash)).length) (by omega) (by omega)
    rw [show ((0 : Nat) : Int) = 0 from rfl] at this
    rw [this]; simp [take_length_takeWhile]

/-! ### the two passes against the field list -/

/-- `ValidateDomainName` as a total function (it never panics: `C03.validators_total`) -/
def vdn (toASCII : Bytes → Option Bytes) (f : Bytes) : Option Err :=
  match validateDomainName toASCII f with
  | .ok r => r
  | .error _ => none

theorem vdn_eq (toASCII : Bytes → Option Bytes) (f : Bytes) :
    validateDomainName toASCII f = .ok (vdn toASCII f) := by
  obtain ⟨r, hr⟩ := (C03.validators_total toASCII f).2.1
  simp [vdn, hr]

theorem vdn_none_iff (toASCII : Bytes → Option Bytes) (f : Bytes) :
    vdn toASCII f = none ↔ NameOK toASCII f := by
  unfold NameOK
  rw [← C03.validateDomainName_iff, vdn_eq]
  constructor
  · intro h; rw [h]
  · intro h; injection h

/-- the first pass over a field list -/
def scan (toASCII : Bytes → Option Bytes) : List Bytes → Nat → List Bytes → Nat × Option RecErr × List Bytes
  | [], n, seen => (n, none, seen)
  | f :: fs, n, seen =>
    match vdn toASCII f with
    | some e => (n, some (.name n e), seen)
    | none => scan toASCII fs (n + 1) (seen ++ [f])

/-- one unfolding of the loop, with a plain (non-dependent) match -/
theorem validateLoop_unfold (toASCII : Bytes → Option Bytes) (t : Bytes) (n : Nat) (seen : List Bytes) :
    validateLoop toASCII t n seen =
      match cutStringField t with
      | .error p => .error p
      | .ok (f, t') =>
        if f = [] then pure (n, none, seen)
        else
          match validateDomainName toASCII f with
          | .error p => .error p
          | .ok (some e) => pure (n, some (.name n e), seen)
          | .ok none => validateLoop toASCII t' (n + 1) (seen ++ [f]) := by
  rw [validateLoop]
  split
  · next p h => rw [h]
  · next f t' h => rw [h]; rfl

theorem validateLoop_eq (toASCII : Bytes → Option Bytes) :
    ∀ (k : Nat) (t : Bytes) (n : Nat) (seen : List Bytes), t.length ≤ k → NoLead t →
      validateLoop toASCII t n seen = .ok (scan toASCII (fieldsOf t) n seen) := by
  intro k
  induction k with
  | zero =>
    intro t n seen hk _
    have : t = [] := List.eq_nil_of_length_eq_zero (by omega)
    subst this
    rw [validateLoop_unfold]
    simp [cutString_eq, fieldsOf_nil, scan, pure, Except.pure]
  | succ k ih =>
    intro t n seen hk hl
    by_cases hne : t = []
    · subst hne
      rw [validateLoop_unfold]
      simp [cutString_eq, fieldsOf_nil, scan, pure, Except.pure]
    · have hw := takeWhile_ne_nil_of_noLead hl hne
      have hlt : (trimLeft (t.dropWhile nsp) spaces).length < t.length :=
        cut_tail_lt (cutString_eq t) hw
      rw [validateLoop_unfold, fieldsOf_cut_noLead hl hne]
      simp only [cutString_eq, hw, vdn_eq, scan]
      cases hv : vdn toASCII (t.takeWhile nsp) with
      | some e => simp [pure, Except.pure]
      | none =>
        simp only []
        exact ih _ _ _ (by omega) (noLead_trimLeft _)

theorem fillNames_eq :
    ∀ (k : Nat) (t : Bytes), NoLead t → k ≤ (fieldsOf t).length →
      fillNames k t = .ok ((fieldsOf t).take k) := by
  intro k
  induction k with
  | zero => intro t _ _; simp [fillNames, pure, Except.pure]
  | succ k ih =>
    intro t hl hk
    have hne : t ≠ [] := by
      intro h; subst h; rw [fieldsOf_nil] at hk; simp at hk
    have hcut := fieldsOf_cut_noLead hl hne
    rw [hcut] at hk ⊢
    simp only [List.length_cons] at hk
    simp only [fillNames, cutString_eq, bind, Except.bind]
    rw [ih _ (noLead_trimLeft _) (by omega)]
    simp [pure, Except.pure]

/-- the names that pass validation before the first bad one -/
def goodPrefix (toASCII : Bytes → Option Bytes) (names : List Bytes) : List Bytes :=
  names.takeWhile (fun f => (vdn toASCII f).isNone)

/-- the error of the first bad name, if any -/
def firstBad (toASCII : Bytes → Option Bytes) (names : List Bytes) : Option RecErr :=
  match names.drop (goodPrefix toASCII names).length with
  | [] => none
  | bad :: _ => (vdn toASCII bad).map (RecErr.name (goodPrefix toASCII names).length)

theorem scan_eq (toASCII : Bytes → Option Bytes) (fs : List Bytes) (n : Nat) (seen : List Bytes) :
    scan toASCII fs n seen =
      (n + (goodPrefix toASCII fs).length,
       (match fs.drop (goodPrefix toASCII fs).length with
        | [] => none
        | bad :: _ => (vdn toASCII bad).map (RecErr.name (n + (goodPrefix toASCII fs).length))),
       seen ++ goodPrefix toASCII fs) := by
  induction fs generalizing n seen with
  | nil => simp [scan, goodPrefix]
  | cons f fs ih =>
    unfold scan goodPrefix
    cases hv : vdn toASCII f with
    | some e => simp [List.takeWhile, hv]
    | none =>
      simp only [List.takeWhile, hv, Option.isNone_none, List.length_cons, List.drop_succ_cons]
      rw [ih]
      simp only [goodPrefix]
      refine Prod.ext (by simp; omega) (Prod.ext ?_ (by simp))
      simp only
      have : n + 1 + (List.takeWhile (fun f => (vdn toASCII f).isNone) fs).length =
          n + ((List.takeWhile (fun f => (vdn toASCII f).isNone) fs).length + 1) := by omega
      rw [this]

theorem goodPrefix_length_le (toASCII : Bytes → Option Bytes) (names : List Bytes) :
    (goodPrefix toASCII names).length ≤ names.length := by
  unfold goodPrefix
  have := congrArg List.length (List.takeWhile_append_dropWhile (p := fun f => (vdn toASCII f).isNone) (l := names))
  simp only [List.length_append] at this
  omega

theorem take_goodPrefix (toASCII : Bytes → Option Bytes) (names : List Bytes) :
    names.take (goodPrefix toASCII names).length = goodPrefix toASCII names := by
  unfold goodPrefix
  induction names with
  | nil => rfl
  | cons b r ih => by_cases h : (vdn toASCII b).isNone <;> simp [List.takeWhile, h, ih]

/-! ### closed form of `UnmarshalText` -/

/-- what `UnmarshalText` does, as a function of the field list of the line -/
def refUnmarshal (toASCII : Bytes → Option Bytes) (r : Record) : List Bytes → Record × Option RecErr
  | [] => (r, some .emptyLine)
  | [_] => (r, some .noHosts)
  | f :: names =>
    match parseAddr f with
    | none => ({ r with addr := .invalid }, some .addrParse)
    | some a => ({ r with addr := a, names := goodPrefix toASCII names }, firstBad toASCII names)

theorem unmarshalText_eq (toASCII : Bytes → Option Bytes) (r : Record) (line : Bytes) :
    unmarshalText toASCII r line = .ok (refUnmarshal toASCII r (fields line)) := by
  unfold unmarshalText
  simp only [bind, Except.bind, comment_cut, cut_eq]
  have hl := noLead_trim (stripComment line)
  have hf : fields line = fieldsOf (trim (stripComment line) spaces) := by
    rw [fieldsOf_trim]; rfl
  rw [hf]
  generalize trim (stripComment line) spaces = x at hl
  by_cases hx : x = []
  · subst hx; simp [fieldsOf_nil, refUnmarshal, pure, Except.pure]
  · have hw := takeWhile_ne_nil_of_noLead hl hx
    have hwl : (x.takeWhile nsp).length ≠ 0 := by
      intro h; exact hw (List.eq_nil_of_length_eq_zero h)
    rw [fieldsOf_cut_noLead hl hx]
    simp only [hwl, if_false]
    have hlt := noLead_trimLeft (x.dropWhile nsp)
    generalize trimLeft (x.dropWhile nsp) spaces = tail at hlt
    by_cases ht : tail = []
    · subst ht; simp [fieldsOf_nil, refUnmarshal, pure, Except.pure]
    · have htl : tail.length ≠ 0 := by
        intro h; exact ht (List.eq_nil_of_length_eq_zero h)
      simp only [htl, if_false]
      have hfn := fieldsOf_ne_nil_of_noLead hlt ht
      cases hfs : fieldsOf tail with
      | nil => exact absurd hfs hfn
      | cons n1 rest =>
        unfold refUnmarshal addrUnmarshalText
        simp only [hwl, if_false]
        cases hp : parseAddr (x.takeWhile nsp) with
        | none => simp [pure, Except.pure]
        | some a =>
          simp only [Bool.false_eq_true, if_false]
          rw [validateLoop_eq toASCII tail.length tail 0 [] (Nat.le_refl _) hlt, hfs, scan_eq]
          simp only [Nat.zero_add]
          rw [← hfs, fillNames_eq _ _ hlt (goodPrefix_length_le _ _), take_goodPrefix]
          simp [pure, Except.pure, firstBad]

/-! ### splitting of a name list at its first invalid name -/

theorem names_split (toASCII : Bytes → Option Bytes) (names : List Bytes) :
    names = goodPrefix toASCII names ++ names.drop (goodPrefix toASCII names).length ∧
    (∀ g ∈ goodPrefix toASCII names, vdn toASCII g = none) ∧
    (∀ bad tl, names.drop (goodPrefix toASCII names).length = bad :: tl → ∃ e, vdn toASCII bad = some e) := by
  unfold goodPrefix
  induction names with
  | nil => simp
  | cons b r ih =>
    cases hv : vdn toASCII b with
    | some e =>
      simp only [List.takeWhile, hv, Option.isNone_some]
      refine ⟨by simp, by simp, ?_⟩
      intro bad tl h
      simp at h
      obtain ⟨rfl, _⟩ := h
      exact ⟨e, hv⟩
    | none =>
      simp only [List.takeWhile, hv, Option.isNone_none, List.length_cons, List.drop_succ_cons]
      obtain ⟨h1, h2, h3⟩ := ih
      refine ⟨by simp [← h1], ?_, h3⟩
      intro g hg
      simp only [List.mem_cons] at hg
      rcases hg with rfl | hg
      · exact hv
      · exact h2 g hg

theorem goodPrefix_of_all (toASCII : Bytes → Option Bytes) (names : List Bytes)
    (h : ∀ n ∈ names, vdn toASCII n = none) : goodPrefix toASCII names = names := by
  unfold goodPrefix
  induction names with
  | nil => rfl
  | cons b t ih =>
    simp only [List.takeWhile, h b (by simp), Option.isNone_none]
    rw [ih (fun n hn => h n (by simp [hn]))]

theorem firstBad_none_iff (toASCII : Bytes → Option Bytes) (names : List Bytes) :
    firstBad toASCII names = none ↔ ∀ n ∈ names, vdn toASCII n = none := by
  obtain ⟨h1, h2, h3⟩ := names_split toASCII names
  constructor
  · intro h
    unfold firstBad at h
    cases hd : names.drop (goodPrefix toASCII names).length with
    | nil =>
      rw [hd] at h1; simp at h1
      intro n hn; rw [h1] at hn; exact h2 n hn
    | cons bad tl =>
      obtain ⟨e, he⟩ := h3 bad tl hd
      rw [hd] at h; simp [he] at h
  · intro h
    have := goodPrefix_of_all toASCII names h
    unfold firstBad
    rw [this]; simp

theorem refUnmarshal_two (toASCII : Bytes → Option Bytes) (r : Record) (f : Bytes) (names : List Bytes)
    (hne : names ≠ []) :
    refUnmarshal toASCII r (f :: names) =
      match parseAddr f with
      | none => ({ r with addr := .invalid }, some .addrParse)
      | some a => ({ r with addr := a, names := goodPrefix toASCII names }, firstBad toASCII names) := by
  cases names with
  | nil => exact absurd rfl hne
  | cons n1 rest => rfl


theorem marshalText_eq (formatAddr : Addr → Bytes) (r : Record) :
    marshalText formatAddr r = formatAddr r.addr ++ r.names.flatMap (fun n => 32 :: n) := by
  unfold marshalText
  generalize formatAddr r.addr = w
  induction r.names generalizing w with
  | nil => simp
  | cons n ns ih =>
    rw [List.foldl_cons, ih]
    simp only [List.flatMap_cons, List.append_assoc, List.cons_append, List.nil_append]

theorem fieldsOf_join (w : Bytes) (names : List Bytes)
    (hw : w ≠ [] ∧ ∀ b ∈ w, isSep b = false)
    (hn : ∀ n ∈ names, n ≠ [] ∧ ∀ b ∈ n, isSep b = false) :
    fieldsOf (w ++ names.flatMap (fun n => 32 :: n)) = w :: names := by
  have sp_of_sep : ∀ {x : Bytes}, (∀ b ∈ x, isSep b = false) → ∀ b ∈ x, isSpace b = false := by
    intro x hx b hb
    have := hx b hb
    simp only [isSep, Bool.or_eq_false_iff] at this
    exact this.1
  induction names generalizing w with
  | nil => simpa using fieldsOf_word hw.1 (sp_of_sep hw.2)
  | cons n ns ih =>
    simp only [List.flatMap_cons, List.cons_append]
    rw [fieldsOf_append_space (by decide), fieldsOf_word hw.1 (sp_of_sep hw.2),
      ih n (hn n (by simp)) (fun m hm => hn m (by simp [hm]))]
    rfl


theorem stripComment_append_hash (pre c : Bytes) :
    stripComment (pre ++ hash :: c) = stripComment pre := by
  unfold stripComment
  induction pre with
  | nil => simp [hash]
  | cons b t ih =>
    simp only [List.cons_append, List.takeWhile_cons]
    split
    · rw [ih]
    · rfl

end GolibsVerif.C07
