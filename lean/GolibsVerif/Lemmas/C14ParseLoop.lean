/-
C14 — the loop of `time.ParseDuration`: every round consumes at least one byte, so the fuel
`len(s)` of `parseLoop` never runs out (`parseLoop_fuel`); stepping lemmas for the round
trip; the sign.
-/
import GolibsVerif.Model.C14Parse
import GolibsVerif.Lemmas.C14ParseGroup

namespace GolibsVerif.C14

/-! ### every round consumes at least one byte -/

theorem leadingInt_length : ∀ (s : Bytes) (x v : Nat) (r : Bytes),
    leadingInt s x = some (v, r) → r.length ≤ s.length := by
  intro s
  induction s with
  | nil => intro x v r h; simp [leadingInt] at h; simp [h.2.symm]
  | cons c t ih =>
    intro x v r h
    unfold leadingInt at h
    by_cases h1 : c < 48 ∨ c > 57
    · simp only [h1, if_true, Option.some.injEq, Prod.mk.injEq] at h
      rw [← h.2]; exact Nat.le_refl _
    · simp only [h1, if_false] at h
      by_cases h2 : x > two63 / 10
      · simp [h2] at h
      · simp only [h2, if_false] at h
        by_cases h3 : x * 10 + c - 48 > two63
        · simp [h3] at h
        · simp only [h3, if_false] at h
          have := ih _ _ _ h
          simp only [List.length_cons]; omega

theorem leadingFraction_length : ∀ (s : Bytes) (x : Nat) (sc : F64) (ov : Bool),
    (leadingFraction s x sc ov).2.2.length ≤ s.length := by
  intro s
  induction s with
  | nil => intro x sc ov; simp [leadingFraction]
  | cons c t ih =>
    intro x sc ov
    unfold leadingFraction
    have step : ∀ x' sc' ov', (leadingFraction t x' sc' ov').2.2.length ≤ (c :: t).length := by
      intro x' sc' ov'
      have := ih x' sc' ov'
      simp only [List.length_cons]; omega
    by_cases h1 : c < 48 ∨ c > 57
    · simp [h1]
    · simp only [h1, if_false]
      split
      · exact step _ _ _
      · split
        · exact step _ _ _
        · split
          · exact step _ _ _
          · exact step _ _ _

theorem parseFrac_length (s : Bytes) : (parseFrac s).2.2.2.length ≤ s.length := by
  cases s with
  | nil => simp [parseFrac]
  | cons c t =>
    unfold parseFrac
    by_cases h : c = 46
    · simp only [h, if_true]
      have := leadingFraction_length t 0 F64.one false
      simp only [List.length_cons]; omega
    · simp [h]

theorem unitSpan_length (s : Bytes) : (unitSpan s).1.length + (unitSpan s).2.length = s.length := by
  induction s with
  | nil => rfl
  | cons c t ih =>
    unfold unitSpan
    by_cases h : c = 46 ∨ (48 ≤ c ∧ c ≤ 57)
    · simp [h]
    · simp only [h, if_false, List.length_cons]; omega

theorem parseUnit_length (v f : Nat) (sc : F64) (s : Bytes) (v' : Nat) (r : Bytes)
    (h : parseUnit v f sc s = some (v', r)) : r.length < s.length := by
  unfold parseUnit at h
  by_cases h1 : (unitSpan s).1 = []
  · simp [h1] at h
  · simp only [h1, if_false] at h
    have hl := unitSpan_length s
    have hpos : 0 < (unitSpan s).1.length := List.length_pos_iff.2 h1
    have key : r = (unitSpan s).2 := by
      cases hu : unitOf (unitSpan s).1 with
      | none => simp [hu] at h
      | some unit =>
        simp only [hu] at h
        split at h
        · cases h
        · split at h
          · split at h
            · cases h
            · simp only [Option.some.injEq, Prod.mk.injEq] at h; exact h.2.symm
          · simp only [Option.some.injEq, Prod.mk.injEq] at h; exact h.2.symm
    rw [key]; omega

theorem parseGroup_length (s : Bytes) (v : Nat) (r : Bytes) (h : parseGroup s = some (v, r)) :
    r.length < s.length := by
  cases s with
  | nil => simp [parseGroup] at h
  | cons c t =>
    unfold parseGroup at h
    by_cases h0 : ¬ (c = 46 ∨ (48 ≤ c ∧ c ≤ 57))
    · simp [h0] at h
    · simp only [h0, if_false] at h
      cases hL : leadingInt (c :: t) 0 with
      | none => simp [hL] at h
      | some p =>
        obtain ⟨v1, s1⟩ := p
        simp only [hL] at h
        split at h
        · cases h
        · have l1 := leadingInt_length _ _ _ _ hL
          have l2 := parseFrac_length s1
          have l3 := parseUnit_length _ _ _ _ _ _ h
          omega

/-- more fuel than `len(s)` changes nothing -/
theorem parseLoop_fuel : ∀ (n : Nat) (s : Bytes) (d : Nat), s.length ≤ n →
    parseLoop n s d = parseLoop s.length s d := by
  intro n
  induction n using Nat.strongRecOn with
  | _ n ih =>
    intro s d hn
    cases s with
    | nil => cases n <;> rfl
    | cons c t =>
      cases n with
      | zero => simp at hn
      | succ n =>
        simp only [List.length_cons, parseLoop]
        cases hg : parseGroup (c :: t) with
        | none => rfl
        | some p =>
          obtain ⟨v, r⟩ := p
          have hr := parseGroup_length _ _ _ hg
          simp only [List.length_cons] at hr hn
          simp only []
          split
          · rfl
          · rw [ih n (by omega) r _ (by omega), ih t.length (by omega) r _ (by omega)]

/-- the fuel `len(s)` never runs out: the loop ends by an error or with `s = ""` -/
theorem parseLoop_none_or_done (s : Bytes) (d : Nat) :
    parseLoop s.length s d = parseLoop (s.length + 1) s d :=
  (parseLoop_fuel (s.length + 1) s d (by omega)).symm

/-! ### stepping -/

theorem parseLoop_nil (d : Nat) : parseLoop ([] : Bytes).length [] d = some d := rfl

/-- one round: the group parses to `v`, `d + v` passes the test `d > 1<<63` -/
theorem parseLoop_step (s rest : Bytes) (d v : Nat) (hg : parseGroup s = some (v, rest))
    (hsum : d + v ≤ two63) :
    parseLoop s.length s d = parseLoop rest.length rest (d + v) := by
  have hr := parseGroup_length _ _ _ hg
  cases s with
  | nil => simp [parseGroup] at hg
  | cons c t =>
    simp only [List.length_cons] at hr
    have hm : (d + v) % 18446744073709551616 = d + v :=
      Nat.mod_eq_of_lt (by unfold two63 at hsum; omega)
    have hc : ¬ (d + v > two63) := by omega
    simp only [List.length_cons, parseLoop, hg, hm, hc, if_false]
    exact parseLoop_fuel _ _ _ (by omega)

/-! ### the sign and the final test -/

/-- a text `[-]<int>…` (at least one more byte after the integer) whose loop ends with
`|d|` parses to `d` -/
theorem parseDuration_of_loop (d : Int) (hd : inInt64 d) (V : Nat) (tl : Bytes) (htl : tl ≠ [])
    (hl : parseLoop (intText V ++ tl).length (intText V ++ tl) 0 = some d.natAbs) :
    parseDuration (signBytes d ++ (intText V ++ tl)) = some d := by
  obtain ⟨c, t, e, hc⟩ := intText_head V
  have hs : intText V ++ tl = c :: (t ++ tl) := by rw [e]; rfl
  rw [hs] at hl ⊢
  have hne48 : c :: (t ++ tl) ≠ [48] := by
    intro h
    have := congrArg List.length h
    have h2 : 0 < tl.length := List.length_pos_iff.2 htl
    simp only [List.length_cons, List.length_append, List.length_nil] at this
    omega
  unfold inInt64 at hd
  unfold signBytes
  by_cases hneg : d < 0
  · simp only [hneg, if_true]
    show parseDuration (45 :: (c :: (t ++ tl))) = some d
    unfold parseDuration
    simp only [true_or, if_true, beq_self_eq_true]
    unfold parseAfterSign
    simp only [hne48, if_false, hl, reduceCtorEq, if_true, Option.some.injEq]
    unfold wrap64; omega
  · simp only [hneg, if_false, List.nil_append]
    have h45 : ¬ (c = 45 ∨ c = 43) := by omega
    have hle : ¬ (d.natAbs > two63 - 1) := by unfold two63; omega
    unfold parseDuration
    simp only [h45, if_false]
    unfold parseAfterSign
    simp only [hne48, if_false, hl, reduceCtorEq, Bool.false_eq_true, hle, Option.some.injEq]
    omega

end GolibsVerif.C14
