/-
C09 — the critical sections of `Model/C09.lean` execute *legal* list instructions, and the
abstract list machine of `Spec/C09List.lean` then computes exactly the model's `St.lru`
(through the annotation "entry ↦ address of its `item.used`").  Together with
`Lemmas/C09List.lean` (`sim_run`) this makes every history of the cache model a pointer-level
execution that never fails and whose heap represents the model's list.
-/
import GolibsVerif.Lemmas.C09
import GolibsVerif.Lemmas.C09List

namespace GolibsVerif.C09.LL

theorem ann_lookup (z : Ann) (k : Bytes) :
    lookup (z.map Prod.fst) k = (annFind z k).map Prod.fst := by
  simp only [lookup, annFind, List.find?_map]; rfl

theorem ann_remove_fst (z : Ann) (k : Bytes) :
    (annRemove z k).map Prod.fst = remove (z.map Prod.fst) k := by
  simp only [remove, annRemove, List.filter_map]; rfl

theorem annFind_mem {z : Ann} {k : Bytes} {p : Entry × Ptr} (h : annFind z k = some p) :
    p ∈ z ∧ p.1.key = k := by
  unfold annFind at h
  exact ⟨List.mem_of_find?_eq_some h, by simpa using List.find?_some h⟩

theorem annRemove_of_none {z : Ann} {k : Bytes} (h : annFind z k = none) : annRemove z k = z := by
  unfold annFind at h; unfold annRemove
  rw [List.filter_eq_self]
  intro p hp
  have := List.find?_eq_none.1 h p hp
  simpa using this

theorem annRemove_of_notin {z : Ann} {k : Bytes} (h : k ∉ z.map (fun p => p.1.key)) :
    annRemove z k = z := by
  unfold annRemove
  rw [List.filter_eq_self]
  intro p hp
  simp only [ne_eq, decide_not, Bool.not_eq_eq_eq_not, Bool.not_true, decide_eq_false_iff_not]
  intro e
  exact h (List.mem_map.2 ⟨p, hp, e⟩)

/-- removing key `k` from the annotated list erases the address of the entry with key `k` -/
theorem ann_remove_snd : ∀ {z : Ann} {k : Bytes} {e : Entry} {o : Ptr},
    (z.map (fun p => p.1.key)).Nodup → (z.map Prod.snd).Nodup → annFind z k = some (e, o) →
    (annRemove z k).map Prod.snd = (z.map Prod.snd).erase o
  | (e', o') :: z', k, e, o, hk, ha, hf => by
    simp only [List.map_cons, List.nodup_cons] at hk ha
    by_cases hek : e'.key = k
    · have : (e, o) = (e', o') := by
        simp only [annFind, List.find?_cons, hek, decide_true] at hf
        exact (Option.some.inj hf).symm
      cases this
      have hrest : annRemove z' k = z' := annRemove_of_notin (hek ▸ hk.1)
      simp only [annRemove, List.filter_cons, hek, ne_eq, not_true_eq_false, decide_false,
        Bool.false_eq_true, if_false, List.map_cons, List.erase_cons_head]
      exact congrArg _ hrest
    · have hf' : annFind z' k = some (e, o) := by
        simpa only [annFind, List.find?_cons, hek, decide_false] using hf
      have ho : o ∈ z'.map Prod.snd := List.mem_map.2 ⟨(e, o), (annFind_mem hf').1, rfl⟩
      have hoo : o' ≠ o := fun e => ha.1 (e ▸ ho)
      have ih := ann_remove_snd hk.2 ha.2 hf'
      simp only [annRemove, List.filter_cons, hek, ne_eq, not_false_eq_true, decide_true, if_true,
        List.map_cons]
      rw [List.erase_cons_tail (by simpa using hoo)]
      exact congrArg _ ih

theorem execOps_append (s : Ptr) : ∀ (a b : List LOp) (h : Heap),
    execOps s (a ++ b) h = (execOps s a h >>= execOps s b)
  | [], b, h => by simp [execOps, bind, Except.bind, pure, Except.pure]
  | op :: a, b, h => by
    simp only [List.cons_append, execOps, bind, Except.bind]
    cases execOp s op h with
    | error e => rfl
    | ok h1 => simpa [bind, Except.bind] using execOps_append s a b h1

theorem legalRun_append (s : Ptr) : ∀ (a b : List LOp) (st : LAbs),
    LegalRun s (a ++ b) st ↔ LegalRun s a st ∧ LegalRun s b (absRun a st)
  | [], b, st => by simp [LegalRun, absRun]
  | op :: a, b, st => by simp [LegalRun, absRun, legalRun_append s a b, and_assoc]

theorem absRun_append : ∀ (a b : List LOp) (st : LAbs), absRun (a ++ b) st = absRun b (absRun a st)
  | [], _, _ => rfl
  | op :: a, b, st => by simp [absRun, absRun_append a b]

/-- **One critical section.**  With LRU on, from a model state satisfying the invariant and an
annotation of its list by pairwise distinct node addresses (none the sentinel), the list
instructions of the section are legal, and running them on the Lean list of addresses gives
the annotation of the model's next list. -/
theorem ann_step {c : Conf} (hl : c.lru = true) {st st' : St} {ev : Ev} (hinv : Inv c st)
    (hstep : CStep c st ev st') {s x : Ptr} {z : Ann} (objs : List Ptr)
    (hz : z.map Prod.fst = st.lru) (hnd : (s :: z.map Prod.snd).Nodup)
    (hx : x ∉ s :: z.map Prod.snd) :
    (annNext z x ev).map Prod.fst = st'.lru ∧
    LegalRun s (opsOf z x ev) ⟨z.map Prod.snd, objs⟩ ∧
    (absRun (opsOf z x ev) ⟨z.map Prod.snd, objs⟩).list = (annNext z x ev).map Prod.snd := by
  have hkeys : (z.map (fun p => p.1.key)).Nodup := by
    have := hinv.nodup; rw [← hz, List.map_map] at this; exact this
  have hadr : (z.map Prod.snd).Nodup := (List.nodup_cons.1 hnd).2
  have hlook : ∀ k, lookup st.lru k = (annFind z k).map Prod.fst := fun k => by rw [← hz, ann_lookup]
  have hrem : ∀ k, (annRemove z k).map Prod.fst = remove st.lru k := fun k => by
    rw [← hz, ann_remove_fst]
  cases hstep with
  | refuse => exact ⟨hz, trivial, rfl⟩
  | onDelete => exact ⟨hz, trivial, rfl⟩
  | stats => exact ⟨hz, trivial, rfl⟩
  | clear => exact ⟨rfl, ⟨trivial, trivial⟩, rfl⟩
  | evict _ add e _ _ _ he =>
    have hlru := (evictOne_ok he).1
    cases z with
    | nil => rw [← hz] at hlru; cases hlru
    | cons p z' =>
      refine ⟨?_, ⟨by simp [Legal], trivial⟩, by simp [opsOf, absRun, absStep, annNext]⟩
      have : (p :: z').map Prod.fst = e :: st'.lru := hz.trans hlru
      simpa [annNext] using (List.cons.inj this).2
  | commit _ k v r _ _ hc =>
    rw [setCommit_char hinv k v] at hc
    injection hc with hc; injection hc with hs' _
    subst hs'
    refine ⟨by simp [annNext, hrem, hl], ?_⟩
    cases hf : annFind z k with
    | none =>
      simp only [opsOf, hf, annNext, annRemove_of_none hf, List.append_nil]
      exact ⟨⟨hx, ⟨by simp [absStep], hx⟩, trivial⟩, by simp [absRun, absStep]⟩
    | some p =>
      obtain ⟨e, o⟩ := p
      have ho : o ∈ z.map Prod.snd := List.mem_map.2 ⟨(e, o), (annFind_mem hf).1, rfl⟩
      simp only [opsOf, hf, annNext]
      refine ⟨⟨hx, ⟨by simp [absStep], hx⟩, by simp [absStep, Legal, ho], trivial⟩, ?_⟩
      simp only [List.cons_append, List.nil_append, absRun, absStep, List.map_append, List.map_cons,
        List.map_nil]
      rw [List.erase_append_left _ ho, ann_remove_snd hkeys hadr hf]
  | get _ k r hg =>
    rw [get_char hinv k, hlook k] at hg
    cases hf : annFind z k with
    | none =>
      simp only [hf, Option.map_none] at hg
      injection hg with hg; injection hg with hs' hr
      subst hs'; subst hr
      exact ⟨hz, trivial, rfl⟩
    | some p =>
      obtain ⟨e, o⟩ := p
      have ho : o ∈ z.map Prod.snd := List.mem_map.2 ⟨(e, o), (annFind_mem hf).1, rfl⟩
      simp only [hf, Option.map_some, hl, if_true] at hg
      injection hg with hg; injection hg with hs' hr
      subst hs'; subst hr
      simp only [opsOf, annNext, hf]
      refine ⟨by simp [hrem], ⟨ho, trivial⟩, ?_⟩
      simp only [absRun, absStep, List.map_append, List.map_cons, List.map_nil]
      rw [ann_remove_snd hkeys hadr hf]
  | del _ k hd =>
    rw [del_char hinv k] at hd
    injection hd with hs'
    subst hs'
    refine ⟨by simp [annNext, hrem], ?_⟩
    cases hf : annFind z k with
    | none => simp only [opsOf, hf, annNext, annRemove_of_none hf]; exact ⟨trivial, rfl⟩
    | some p =>
      obtain ⟨e, o⟩ := p
      have ho : o ∈ z.map Prod.snd := List.mem_map.2 ⟨(e, o), (annFind_mem hf).1, rfl⟩
      simp only [opsOf, hf, annNext]
      exact ⟨⟨ho, trivial⟩, by simp only [absRun, absStep]; rw [ann_remove_snd hkeys hadr hf]⟩

/-- **Every history.**  Along any trace of the cache model (LRU on), whatever addresses the
allocator hands out, the list instructions of the successive critical sections run at
pointer level without failing and keep the heap representing the model's list. -/
theorem ann_trace {c : Conf} (hl : c.lru = true) {s : Ptr} (ν : Nat → List Ptr → Ptr)
    (hν : ∀ i l, ν i l ∉ s :: l) {st st' : St} {log : List Rec} (ht : Trace c st log st') :
    Inv c st → ∀ (i : Nat) (z : Ann) (objs : List Ptr) (h : Heap), z.map Prod.fst = st.lru →
      Sim h s ⟨z.map Prod.snd, objs⟩ →
      ∃ h' objs', execOps s (runAnn ν i z log).2 h = .ok h' ∧
        (runAnn ν i z log).1.map Prod.fst = st'.lru ∧
        Sim h' s ⟨(runAnn ν i z log).1.map Prod.snd, objs'⟩ := by
  induction ht with
  | nil st => intro _ i z objs h hz hs; exact ⟨h, objs, rfl, hz, hs⟩
  | @cons st st1 st2 ev rest hstep _ ih =>
    intro hinv i z objs h hz hs
    have hinv1 : Inv c st1 := (step_ok hstep hinv (Agree.self st)).1
    obtain ⟨h1, h2, h3⟩ := ann_step hl hinv hstep objs hz hs.repr.nodup (hν i (z.map Prod.snd))
    obtain ⟨h', e1, s1⟩ := sim_run _ hs h2
    have hs1 : Sim h' s ⟨(annNext z (ν i (z.map Prod.snd)) ev).map Prod.snd,
        (absRun (opsOf z (ν i (z.map Prod.snd)) ev) ⟨z.map Prod.snd, objs⟩).objs⟩ := by
      rw [← h3]; exact s1
    obtain ⟨h'', objs'', e2, hz2, s2⟩ := ih hinv1 (i + 1) _ _ h' h1 hs1
    refine ⟨h'', objs'', ?_, hz2, s2⟩
    simp only [runAnn]
    rw [execOps_append, e1]
    exact e2

/-- LRU off: whatever the events, the heap keeps representing the empty list. -/
theorem off_run {s : Ptr} (ν : Nat → Ptr) (hν : ∀ i, ν i ≠ s) : ∀ (log : List Rec) (i : Nat)
    (objs : List Ptr) (h : Heap), Sim h s ⟨[], objs⟩ →
    ∃ h' objs', execOps s (runOff ν i log) h = .ok h' ∧ Sim h' s ⟨[], objs'⟩
  | [], _, objs, h, hs => ⟨h, objs, rfl, hs⟩
  | r :: rest, i, objs, h, hs => by
    have hstep : ∃ h1 objs1, execOps s (opsOfOff (ν i) r.ev) h = .ok h1 ∧ Sim h1 s ⟨[], objs1⟩ := by
      cases hev : r.ev with
      | commit k v b =>
        obtain ⟨h1, e1, s1⟩ := sim_run [.alloc (ν i)] hs ⟨by simpa [Legal] using hν i, trivial⟩
        exact ⟨h1, _, e1, s1⟩
      | clear =>
        obtain ⟨h1, e1, s1⟩ := sim_run [.clear] hs ⟨trivial, trivial⟩
        exact ⟨h1, _, e1, s1⟩
      | _ => exact ⟨h, objs, rfl, hs⟩
    obtain ⟨h1, objs1, e1, s1⟩ := hstep
    obtain ⟨h2, objs2, e2, s2⟩ := off_run ν hν rest (i + 1) objs1 h1 s1
    refine ⟨h2, objs2, ?_, s2⟩
    simp only [runOff]
    rw [execOps_append, e1]; exact e2

end GolibsVerif.C09.LL
