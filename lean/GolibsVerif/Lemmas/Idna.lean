/-
Lemmas about the model of `idna.ToASCII` (`Go/Idna.lean`): the label iterator visits the
pieces of `strings.Split(s, ".")` in order, in both of its modes, never indexes out of range
and needs at most one step per piece; a loop over it therefore maps a per-label function over
the pieces.
-/
import GolibsVerif.Spec.Idna
import GolibsVerif.Lemmas.Strings

namespace GolibsVerif.Idna
open GolibsVerif GolibsVerif.Str

/-! ### `strings.IndexByte` and `strings.Split` -/

theorem indexByteFrom_splitOn (t : Bytes) : ∀ i : Nat,
    (indexByteFrom 46 t i = -1 ∧ splitOn 46 t = [t]) ∨
    (∃ n : Nat, indexByteFrom 46 t i = ((i + n : Nat) : Int) ∧ n < t.length ∧
      splitOn 46 t = t.take n :: splitOn 46 (t.drop (n + 1))) := by
  induction t with
  | nil => intro i; left; simp [indexByteFrom, splitOn]
  | cons b rest ih =>
    intro i
    by_cases hb : b = 46
    · right
      exact ⟨0, by simp [indexByteFrom, hb], by simp, by simp [splitOn, hb]⟩
    · rcases ih (i + 1) with ⟨h1, h2⟩ | ⟨n, h1, h2, h3⟩
      · left
        refine ⟨by simp [indexByteFrom, hb, h1], ?_⟩
        rw [splitOn]; simp [hb, h2]
      · right
        refine ⟨n + 1, ?_, by simp; omega, ?_⟩
        · simp only [indexByteFrom, hb, if_false, h1]; congr 1; omega
        · rw [splitOn]; simp only [hb, if_false]; rw [h3]; simp

theorem indexByte_splitOn (t : Bytes) :
    (indexByte t 46 = -1 ∧ splitOn 46 t = [t]) ∨
    (∃ n : Nat, indexByte t 46 = (n : Int) ∧ n < t.length ∧
      splitOn 46 t = t.take n :: splitOn 46 (t.drop (n + 1))) := by
  have := indexByteFrom_splitOn t 0
  simpa [indexByte] using this

theorem length_splitOn_le (c : Nat) (s : Bytes) : (splitOn c s).length ≤ s.length + 1 := by
  induction s with
  | nil => simp [splitOn]
  | cons b rest ih =>
    rw [splitOn]
    by_cases h : b = c
    · simp [h]; omega
    · simp only [h, if_false]
      cases hs : splitOn c rest with
      | nil => simp
      | cons p ps => rw [hs] at ih; simp at ih ⊢; omega

/-! ### the label iterator -/

/-- the labels the iterator currently stands for: `l.slice`, or the pieces of `l.orig` while
`l.slice == nil` -/
def cur (l : LabelIter) : List Bytes :=
  match l.slice with
  | some sl => sl
  | none => splitOn 46 l.orig

/-- the iterator at the head of a loop over `s`, about to visit piece number `k` -/
def WF (s : Bytes) (l : LabelIter) (k : Nat) : Prop :=
  l.orig = s ∧ l.i = (k : Int) ∧ (cur l).length = (splitOn 46 s).length ∧
  ((l.done = true ∧ ∀ x ∈ (cur l).drop k, x = []) ∨
   (l.done = false ∧ k < (splitOn 46 s).length ∧
      (l.slice = none → ∃ c : Nat, l.curStart = (c : Int) ∧
        splitOn 46 (s.drop c) = (splitOn 46 s).drop k)))

/-- the iterator inside the loop body (after `label()`), standing on piece number `k` -/
def WFmid (s : Bytes) (l : LabelIter) (k : Nat) : Prop :=
  l.orig = s ∧ l.i = (k : Int) ∧ (cur l).length = (splitOn 46 s).length ∧
  k < (splitOn 46 s).length ∧ l.curStart < (s.length : Int) ∧
  (l.slice = none → ∃ e : Nat, l.curEnd = (e : Int) ∧
      ((e = s.length ∧ k + 1 = (splitOn 46 s).length) ∨
       (e < s.length ∧ splitOn 46 (s.drop (e + 1)) = (splitOn 46 s).drop (k + 1))))

theorem idxL_eq (xs : List Bytes) (k : Nat) (h : k < xs.length) : idxL xs (k : Int) = .ok xs[k] := by
  unfold idxL
  have : ¬ ((k : Int) < 0) := by omega
  simp [this, h]

theorem slice_nat (s : Bytes) (a b : Nat) (h1 : a ≤ b) (h2 : b ≤ s.length) :
    GoM.slice s (a : Int) (b : Int) = .ok ((s.drop a).take (b - a)) := by
  have : (0 : Int) ≤ (a : Int) ∧ (a : Int) ≤ (b : Int) ∧ (b : Int) ≤ (s.length : Int) := by omega
  simp [GoM.slice, this]

theorem label_spec (s : Bytes) (l : LabelIter) (k : Nat) (h : WF s l k) (hd : l.done = false) :
    ∃ x l', l.label = .ok (x, l') ∧ (cur l)[k]? = some x ∧ WFmid s l' k ∧ cur l' = cur l := by
  obtain ⟨ho, hi, hlen, hcase⟩ := h
  rcases hcase with ⟨hd', _⟩ | ⟨_, hk, hnone⟩
  · rw [hd] at hd'; cases hd'
  have hcs : l.curStart < (s.length : Int) := by
    simpa [LabelIter.done, ho] using hd
  cases hsl : l.slice with
  | some sl =>
    have hcur : cur l = sl := by simp [cur, hsl]
    have hk' : k < sl.length := by rw [← hcur, hlen]; exact hk
    refine ⟨sl[k], l, ?_, ?_, ?_, rfl⟩
    · simp [LabelIter.label, hsl, hi, idxL_eq sl k hk', bind, Except.bind, pure, Except.pure]
    · rw [hcur]; simp [hk']
    · exact ⟨ho, hi, hlen, hk, hcs, fun hn => by rw [hsl] at hn; cases hn⟩
  | none =>
    obtain ⟨c, hc, hsplit⟩ := hnone hsl
    have hcur : cur l = splitOn 46 s := by simp [cur, hsl, ho]
    have hclt : c < s.length := by rw [hc] at hcs; omega
    have htail : GoM.sliceFrom s (c : Int) = .ok (s.drop c) := by
      rw [GoM.sliceFrom, slice_nat s c s.length (by omega) (by omega)]
      rw [List.take_of_length_le (by simp)]
    rcases indexByte_splitOn (s.drop c) with ⟨hp, hsp⟩ | ⟨n, hp, hn, hsp⟩
    · -- no further dot: the label is the rest of the string
      refine ⟨s.drop c, { l with curEnd := (s.length : Int) }, ?_, ?_, ?_, ?_⟩
      · have hx : GoM.slice s (c : Int) (s.length : Int) = .ok (s.drop c) := by
          rw [slice_nat s c s.length (by omega) (by omega)]
          rw [List.take_of_length_le (by simp)]
        simp only [LabelIter.label, hsl, htail, bind, Except.bind, hp, ho, hc, if_true, hx, pure, Except.pure]
      · rw [hcur]
        have : (splitOn 46 s).drop k = [s.drop c] := by rw [← hsplit, hsp]
        have h2 : ((splitOn 46 s).drop k)[0]? = some (s.drop c) := by rw [this]; rfl
        simpa using h2
      · refine ⟨ho, hi, by simpa [cur, hsl] using hlen, hk, hcs, fun _ => ⟨s.length, rfl, Or.inl ⟨rfl, ?_⟩⟩⟩
        have : ((splitOn 46 s).drop k).length = 1 := by rw [← hsplit, hsp]; rfl
        simp at this; omega
      · simp [cur, hsl]
    · -- a dot at offset `n` of the tail
      have hne : ¬ ((n : Int) = -1) := by omega
      refine ⟨(s.drop c).take n, { l with curEnd := ((c + n : Nat) : Int) }, ?_, ?_, ?_, ?_⟩
      · simp at hn
        have hcn : (c : Int) + (n : Int) = ((c + n : Nat) : Int) := by omega
        have hx : GoM.slice s (c : Int) ((c + n : Nat) : Int) = .ok ((s.drop c).take n) := by
          rw [slice_nat s c (c + n) (by omega) (by omega)]
          congr 2; omega
        simp only [LabelIter.label, hsl, htail, bind, Except.bind, hp, hne, if_false, ho, hc, hcn, hx,
          pure, Except.pure]
      · rw [hcur]
        have : (splitOn 46 s).drop k = (s.drop c).take n :: splitOn 46 ((s.drop c).drop (n + 1)) := by
          rw [← hsplit, hsp]
        have h2 : ((splitOn 46 s).drop k)[0]? = some ((s.drop c).take n) := by rw [this]; rfl
        simpa using h2
      · refine ⟨ho, hi, by simpa [cur, hsl] using hlen, hk, hcs,
          fun _ => ⟨c + n, rfl, Or.inr ⟨by simp at hn; omega, ?_⟩⟩⟩
        have h1 : (splitOn 46 s).drop k = (s.drop c).take n :: splitOn 46 ((s.drop c).drop (n + 1)) := by
          rw [← hsplit, hsp]
        have h2 : (splitOn 46 s).drop (k + 1) = ((splitOn 46 s).drop k).drop 1 := by
          rw [List.drop_drop]
        rw [h2, h1, List.drop_drop]
        simp [Nat.add_assoc]
      · simp [cur, hsl]

theorem set_spec (s : Bytes) (l : LabelIter) (k : Nat) (u : Bytes) (h : WFmid s l k) :
    ∃ l', l.set u = .ok l' ∧ WFmid s l' k ∧ cur l' = (cur l).set k u := by
  obtain ⟨ho, hi, hlen, hk, hcs, _⟩ := h
  have hk' : k < (cur l).length := by rw [hlen]; exact hk
  have hb : (0 : Int) ≤ (k : Int) ∧ (k : Int) < ((cur l).length : Int) := by omega
  refine ⟨{ l with slice := some ((cur l).set k u) }, ?_, ?_, ?_⟩
  · cases hsl : l.slice with
    | some sl =>
      have : cur l = sl := by simp [cur, hsl]
      rw [this] at hb
      simp [LabelIter.set, hsl, hi, hb, this, pure, Except.pure]
    | none =>
      have : cur l = splitOn 46 l.orig := by simp [cur, hsl]
      rw [this] at hb
      simp [LabelIter.set, hsl, hi, hb, this, pure, Except.pure]
  · refine ⟨ho, hi, ?_, hk, hcs, fun hn => by cases hn⟩
    show ((cur l).set k u).length = _
    rw [List.length_set]; exact hlen
  · rfl

theorem next_spec (s : Bytes) (l : LabelIter) (k : Nat) (h : WFmid s l k) :
    ∃ l', l.next = .ok l' ∧ WF s l' (k + 1) ∧ cur l' = cur l := by
  obtain ⟨o, slice, cs, ce, i⟩ := l
  obtain ⟨ho, hi, hlen, hk, hcs, hnone⟩ := h
  simp only at ho hi hcs hnone
  subst ho hi
  have hi1 : (k : Int) + 1 = ((k + 1 : Nat) : Int) := by omega
  cases slice with
  | some sl =>
    have hlen : sl.length = (splitOn 46 o).length := hlen
    by_cases h1 : (sl.length : Int) ≤ ((k + 1 : Nat) : Int)
    · refine ⟨⟨o, some sl, (o.length : Int), ce, ((k + 1 : Nat) : Int)⟩, ?_, ?_, rfl⟩
      · simp only [LabelIter.next, hi1, ge_iff_le, h1, if_true, pure, Except.pure]
      · refine ⟨rfl, rfl, hlen, Or.inl ⟨by simp [LabelIter.done], ?_⟩⟩
        intro x hx
        have : (sl.drop (k + 1)) = [] := List.drop_eq_nil_of_le (by omega)
        simp [cur, this] at hx
    · by_cases h2 : ((k + 1 : Nat) : Int) = (sl.length : Int) - 1
      · have hk1 : k + 1 < sl.length := by omega
        by_cases h3 : sl[k + 1] = []
        · refine ⟨⟨o, some sl, (o.length : Int), ce, ((k + 1 : Nat) : Int)⟩, ?_, ?_, rfl⟩
          · simp only [LabelIter.next, hi1, ge_iff_le, h2, if_true, bind, Except.bind]
            rw [← h2, idxL_eq sl (k + 1) hk1]
            simp only [h3, h1, if_false, if_true, pure, Except.pure]
          · refine ⟨rfl, rfl, hlen, Or.inl ⟨by simp [LabelIter.done], ?_⟩⟩
            intro x hx
            have : sl.drop (k + 1) = [sl[k + 1]] := by
              rw [List.drop_eq_getElem_cons hk1, List.drop_eq_nil_of_le (by omega)]
            simp [cur, this, h3] at hx
            exact hx
        · refine ⟨⟨o, some sl, cs, ce, ((k + 1 : Nat) : Int)⟩, ?_, ?_, rfl⟩
          · simp only [LabelIter.next, hi1, ge_iff_le, h2, if_true, bind, Except.bind]
            rw [← h2, idxL_eq sl (k + 1) hk1]
            simp only [h3, h1, if_false, pure, Except.pure]
          · refine ⟨rfl, rfl, hlen, Or.inr ⟨?_, by omega, fun hn => by cases hn⟩⟩
            simp [LabelIter.done]; omega
      · refine ⟨⟨o, some sl, cs, ce, ((k + 1 : Nat) : Int)⟩, ?_, ?_, rfl⟩
        · simp only [LabelIter.next, hi1, ge_iff_le, h1, if_false, h2, pure, Except.pure]
        · refine ⟨rfl, rfl, hlen, Or.inr ⟨?_, by omega, fun hn => by cases hn⟩⟩
          simp [LabelIter.done]; omega
  | none =>
    obtain ⟨e, he, hcase⟩ := hnone rfl
    subst he
    have he1 : (e : Int) + 1 = ((e + 1 : Nat) : Int) := by omega
    rcases hcase with ⟨hel, hkN⟩ | ⟨hel, hsplit⟩
    · -- the label ran to the end of the string
      refine ⟨⟨o, none, ((e + 1 : Nat) : Int), (e : Int), ((k + 1 : Nat) : Int)⟩, ?_, ?_, rfl⟩
      · have hne : ¬ (((e + 1 : Nat) : Int) = (o.length : Int) - 1) := by omega
        simp only [LabelIter.next, hi1, he1, hne, if_false, pure, Except.pure]
      · refine ⟨rfl, rfl, rfl, Or.inl ⟨?_, ?_⟩⟩
        · simp [LabelIter.done]; omega
        · intro x hx
          have : (splitOn 46 o).drop (k + 1) = [] := List.drop_eq_nil_of_le (by omega)
          simp [cur, this] at hx
    · have hkN : k + 1 < (splitOn 46 o).length := by
        have : ((splitOn 46 o).drop (k + 1)).length ≠ 0 := by
          rw [← hsplit]; intro h0
          exact splitOn_ne_nil 46 _ (List.length_eq_zero_iff.1 h0)
        simp at this; omega
      by_cases h1 : ((e + 1 : Nat) : Int) = (o.length : Int) - 1
      · have hlt : e + 1 < o.length := by omega
        have hidx : GoM.idx o ((e + 1 : Nat) : Int) = .ok o[e + 1] := by
          simp [GoM.idx, hlt]; omega
        by_cases h2 : o[e + 1] = 46
        · refine ⟨⟨o, none, (o.length : Int), (e : Int), ((k + 1 : Nat) : Int)⟩, ?_, ?_, rfl⟩
          · simp only [LabelIter.next, hi1, he1, h1, if_true, bind, Except.bind]
            rw [← h1, hidx]
            simp only [h2, if_true, pure, Except.pure]
          · refine ⟨rfl, rfl, rfl, Or.inl ⟨by simp [LabelIter.done], ?_⟩⟩
            intro x hx
            have hd : o.drop (e + 1) = [46] := by
              rw [List.drop_eq_getElem_cons hlt, h2, List.drop_eq_nil_of_le (by omega)]
            have : (splitOn 46 o).drop (k + 1) = [[], []] := by
              rw [← hsplit, hd]; simp [splitOn]
            simp [cur, this] at hx
            rcases hx with rfl | rfl <;> rfl
        · refine ⟨⟨o, none, ((e + 1 : Nat) : Int), (e : Int), ((k + 1 : Nat) : Int)⟩, ?_, ?_, rfl⟩
          · simp only [LabelIter.next, hi1, he1, h1, if_true, bind, Except.bind]
            rw [← h1, hidx]
            simp only [h2, if_false, pure, Except.pure]
          · refine ⟨rfl, rfl, rfl, Or.inr ⟨?_, hkN, fun _ => ⟨e + 1, rfl, hsplit⟩⟩⟩
            simp [LabelIter.done]; omega
      · refine ⟨⟨o, none, ((e + 1 : Nat) : Int), (e : Int), ((k + 1 : Nat) : Int)⟩, ?_, ?_, rfl⟩
        · simp only [LabelIter.next, hi1, he1, h1, if_false, pure, Except.pure]
        · by_cases h3 : e + 1 = o.length
          · refine ⟨rfl, rfl, rfl, Or.inl ⟨?_, ?_⟩⟩
            · simp [LabelIter.done]; omega
            · intro x hx
              have : (splitOn 46 o).drop (k + 1) = [[]] := by
                rw [← hsplit, List.drop_eq_nil_of_le (by omega)]; simp [splitOn]
              simp [cur, this] at hx
              exact hx
          · refine ⟨rfl, rfl, rfl, Or.inr ⟨?_, hkN, fun _ => ⟨e + 1, rfl, hsplit⟩⟩⟩
            simp [LabelIter.done]; omega

/-! ### the loops -/

theorem take_succ_set {α} (L : List α) (k : Nat) (y : α) (h : k < L.length) :
    (L.set k y).take (k + 1) = L.take k ++ [y] := by
  induction L generalizing k with
  | nil => simp at h
  | cons a t ih =>
    cases k with
    | zero => simp
    | succ k => simp at h; simp [ih k h]

theorem drop_succ_set {α} (L : List α) (k : Nat) (y : α) :
    (L.set k y).drop (k + 1) = L.drop (k + 1) := by
  induction L generalizing k with
  | nil => simp
  | cons a t ih =>
    cases k with
    | zero => simp
    | succ k => simp [ih k]

/-- A loop `for ; !labels.done(); labels.next() { body }` whose body acts on the current label
as the per-label function `g` (with `g "" = ""`, no error) maps `g` over the labels from the
current one on, and terminates within the fuel. -/
theorem forLabels_spec (s : Bytes) (body : LabelIter → Bool → GoM (LabelIter × Bool))
    (g : Bytes → Bytes × Bool) (hg : g [] = ([], false))
    (hbody : ∀ l e k x, WF s l k → l.done = false → (cur l)[k]? = some x →
       ∃ l', body l e = .ok (l', e || (g x).2) ∧ WFmid s l' k ∧ cur l' = (cur l).set k (g x).1) :
    ∀ fuel l e k, WF s l k → (splitOn 46 s).length - k < fuel →
      ∃ l', forLabels body fuel l e = .ok (l', e || ((cur l).drop k).any (fun x => (g x).2)) ∧
        cur l' = (cur l).take k ++ ((cur l).drop k).map (fun x => (g x).1) ∧ l'.orig = s ∧
        (cur l').length = (splitOn 46 s).length := by
  intro fuel
  induction fuel with
  | zero => intro l e k _ h; omega
  | succ fuel ih =>
    intro l e k hwf hfuel
    obtain ⟨ho, hi, hlen, hcase⟩ := hwf
    rcases hcase with ⟨hd, hempty⟩ | ⟨hd, hk, hnone⟩
    · refine ⟨l, ?_, ?_, ho, hlen⟩
      · have : ((cur l).drop k).any (fun x => (g x).2) = false := by
          rw [List.any_eq_false]
          intro x hx
          rw [hempty x hx, hg]; simp
        simp [forLabels, hd, this]
      · have : ((cur l).drop k).map (fun x => (g x).1) = (cur l).drop k := by
          conv => rhs; rw [← List.map_id ((cur l).drop k)]
          apply List.map_congr_left
          intro x hx
          rw [hempty x hx, hg]; rfl
        rw [this, List.take_append_drop]
    · have hk' : k < (cur l).length := by rw [hlen]; exact hk
      have hx : (cur l)[k]? = some (cur l)[k] := by simp [hk']
      obtain ⟨l1, hb, hmid, hcur1⟩ := hbody l e k _ ⟨ho, hi, hlen, Or.inr ⟨hd, hk, hnone⟩⟩ hd hx
      obtain ⟨l2, hn, hwf2, hcur2⟩ := next_spec s l1 k hmid
      obtain ⟨l', hl', hcur', ho', hlen'⟩ := ih l2 (e || (g (cur l)[k]).2) (k + 1) hwf2 (by omega)
      refine ⟨l', ?_, ?_, ho', hlen'⟩
      · have hdrop : (cur l).drop k = (cur l)[k] :: (cur l).drop (k + 1) := List.drop_eq_getElem_cons hk'
        have hany : ((cur l).drop k).any (fun x => (g x).2) =
            ((g (cur l)[k]).2 || ((cur l).drop (k + 1)).any (fun x => (g x).2)) := by
          rw [hdrop, List.any_cons]
        simp only [forLabels, hd, hb, hn, bind, Except.bind, Bool.false_eq_true, if_false]
        rw [hl', hcur2, hcur1, drop_succ_set, hany, Bool.or_assoc]
      · rw [hcur', hcur2, hcur1, drop_succ_set, take_succ_set _ _ _ hk']
        have : (cur l).drop k = (cur l)[k] :: (cur l).drop (k + 1) := List.drop_eq_getElem_cons hk'
        rw [this]
        simp only [List.map_cons, List.append_assoc, List.cons_append, List.nil_append]

/-! ### the two loop bodies -/

theorem set_self_of_getElem? {α} (L : List α) (k : Nat) (x : α) (h : L[k]? = some x) : L.set k x = L := by
  obtain ⟨hk, rfl⟩ := List.getElem?_eq_some_iff.1 h
  exact List.set_getElem_self hk

theorem step1_nil (dec : Bytes → Option Bytes) : step1 dec [] = ([], false) := by
  simp [step1, hasPrefix, acePrefix]

theorem step2_nil (enc : Bytes → Option Bytes) : step2 enc [] = ([], false) := by
  simp [step2, isAscii]

theorem body1_spec (dec : Bytes → Option Bytes) (s : Bytes) (l : LabelIter) (e : Bool) (k : Nat)
    (x : Bytes) (h : WF s l k) (hd : l.done = false) (hx : (cur l)[k]? = some x) :
    ∃ l', body1 dec l e = .ok (l', e || (step1 dec x).2) ∧ WFmid s l' k ∧
      cur l' = (cur l).set k (step1 dec x).1 := by
  obtain ⟨x', l1, hlab, hx', hmid, hcur⟩ := label_spec s l k h hd
  have hxx : x' = x := by rw [hx] at hx'; exact (Option.some.inj hx').symm
  subst hxx
  have hself : (cur l).set k x' = cur l := set_self_of_getElem? _ _ _ hx
  have hee : (if e = true then e else validateLabel x') = e := by cases e <;> rfl
  by_cases hnil : x' = []
  · refine ⟨l1, ?_, hmid, ?_⟩
    · simp [body1, hlab, hnil, step1_nil, bind, Except.bind, pure, Except.pure]
    · rw [hnil, step1_nil, hcur, ← hnil, hself]
  · by_cases hp : hasPrefix x' acePrefix = true
    · have hlen4 : 4 ≤ x'.length := by
        have := List.IsPrefix.length_le (List.isPrefixOf_iff_prefix.1 hp)
        simpa [acePrefix] using this
      have hsf : GoM.sliceFrom x' (acePrefix.length : Int) = .ok (x'.drop 4) := by
        show GoM.slice x' ((4 : Nat) : Int) (x'.length : Int) = _
        rw [slice_nat x' 4 x'.length hlen4 (Nat.le_refl _), List.take_of_length_le (by simp)]
      cases hdec : dec (x'.drop 4) with
      | none =>
        refine ⟨l1, ?_, hmid, ?_⟩
        · simp [body1, hlab, hnil, hp, hsf, hdec, step1, bind, Except.bind, pure, Except.pure]
        · simp [step1, hp, hdec, hcur, hself]
      | some u =>
        obtain ⟨l2, hset, hmid2, hcur2⟩ := set_spec s l1 k u hmid
        have heu : (if e = true then e else validateLabel u) = e := by cases e <;> rfl
        refine ⟨l2, ?_, hmid2, ?_⟩
        · simp [body1, hlab, hnil, hp, hsf, hdec, hset, step1, heu, bind, Except.bind, pure, Except.pure]
        · simp [step1, hp, hdec, hcur2, hcur]
    · refine ⟨l1, ?_, hmid, ?_⟩
      · simp [body1, hlab, hnil, hp, step1, hee, bind, Except.bind, pure, Except.pure]
      · simp [step1, hp, hcur, hself]

theorem body2_spec (enc : Bytes → Option Bytes) (s : Bytes) (l : LabelIter) (e : Bool) (k : Nat)
    (x : Bytes) (h : WF s l k) (hd : l.done = false) (hx : (cur l)[k]? = some x) :
    ∃ l', body2 enc l e = .ok (l', e || (step2 enc x).2) ∧ WFmid s l' k ∧
      cur l' = (cur l).set k (step2 enc x).1 := by
  obtain ⟨x', l1, hlab, hx', hmid, hcur⟩ := label_spec s l k h hd
  have hxx : x' = x := by rw [hx] at hx'; exact (Option.some.inj hx').symm
  subst hxx
  have hself : (cur l).set k x' = cur l := set_self_of_getElem? _ _ _ hx
  by_cases ha : isAscii x' = true
  · refine ⟨l1, ?_, hmid, ?_⟩
    · simp [body2, hlab, ha, step2, bind, Except.bind, pure, Except.pure]
    · simp [step2, ha, hcur, hself]
  · cases henc : enc x' with
    | some a =>
      obtain ⟨l2, hset, hmid2, hcur2⟩ := set_spec s l1 k a hmid
      refine ⟨l2, ?_, hmid2, ?_⟩
      · simp [body2, hlab, ha, henc, hset, step2, bind, Except.bind, pure, Except.pure]
      · simp [step2, ha, henc, hcur2, hcur]
    | none =>
      obtain ⟨l2, hset, hmid2, hcur2⟩ := set_spec s l1 k [] hmid
      refine ⟨l2, ?_, hmid2, ?_⟩
      · simp [body2, hlab, ha, henc, hset, step2, bind, Except.bind, pure, Except.pure]
      · simp [step2, ha, henc, hcur2, hcur]

end GolibsVerif.Idna
