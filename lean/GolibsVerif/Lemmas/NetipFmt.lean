/-
`net/netip` formatter model, part 4: the round trip
`parseAddr (addrString a) = some a` for every well-formed `a` (IPv4, IPv6 with every layout
of zero groups, IPv4-mapped IPv6, any zone).
-/
import GolibsVerif.Lemmas.NetipFmtRT

namespace GolibsVerif.Netip
open GolibsVerif GolibsVerif.Str GolibsVerif.C04 GolibsVerif.Netutil

/-! ### IPv4 -/

theorem rt_v4 (b : List Nat) (hl : b.length = 4) (hb : ∀ x ∈ b, x < 256) :
    parseAddr (appendTo4 [] (v4At b)) = some (.v4 b) := by
  match b, hl, hb with
  | [x0, x1, x2, x3], _, hb =>
    simp only [List.mem_cons, List.not_mem_nil, or_false, forall_eq_or_imp, forall_eq] at hb
    obtain ⟨h0, h1, h2, h3⟩ := hb
    rw [appendTo4_eq _ _ (by
      intro i hi
      match i, hi with
      | 0, _ => exact h0
      | 1, _ => exact h1
      | 2, _ => exact h2
      | 3, _ => exact h3)]
    simp only [v4At, List.getD_cons_zero, List.getD_cons_succ, List.nil_append]
    exact parseAddr_roundtrip x0 x1 x2 x3 h0 h1 h2 h3

/-! ### IPv6, `appendTo6` -/

theorem range_split (zs ze : Nat) (h1 : zs ≤ ze) (h2 : ze ≤ 8) :
    List.range' 0 8 = List.range' 0 zs ++ List.range' zs (ze - zs) ++ List.range' ze (8 - ze) := by
  have a := List.range'_append_1 (s := 0) (m := zs) (n := ze - zs)
  have c := List.range'_append_1 (s := 0) (m := ze) (n := 8 - ze)
  rw [Nat.zero_add] at a c
  rw [a, show zs + (ze - zs) = ze by omega, c, show ze + (8 - ze) = 8 by omega]

theorem map_zero (g : Nat → Nat) (zs n : Nat) (h : ∀ k, zs ≤ k → k < zs + n → g k = 0) :
    (List.range' zs n).map g = List.replicate n 0 := by
  induction n generalizing zs with
  | zero => rfl
  | succ n ih =>
    rw [List.range'_succ, List.map_cons, h zs (Nat.le_refl _) (by omega), List.replicate_succ,
      ih (zs + 1) (fun k h1 h2 => h k (by omega) (by omega))]

theorem rt_v6 (b : List Nat) (zone : Bytes) (hl : b.length = 16) (hb : ∀ x ∈ b, x < 256) :
    parseAddr (appendTo6 [] b zone) = some (.v6 b zone) := by
  have hg : ∀ i, v6u16 b i < 65536 := v6u16_lt b hb
  have hmap : ∀ l : List Nat, ∀ y ∈ l.map (v6u16 b), y < 65536 := by
    intro l y hy
    obtain ⟨i, _, rfl⟩ := List.mem_map.1 hy
    exact hg i
  have hz := findZeroRun_top (v6u16 b)
  unfold appendTo6
  simp only []
  generalize findZeroRun (v6u16 b) 8 0 (255, 255) = z at hz
  rw [emit6_eq _ z [] hz, appendZone_eq]
  by_cases h8 : 8 ≤ z.1
  · -- eight groups
    simp only [h8, if_true, List.nil_append]
    have e : (List.range' 0 8).map (v6u16 b) = v6u16 b 0 :: (List.range' 1 7).map (v6u16 b) := rfl
    obtain ⟨r, hr⟩ := colonJoin_colon (v6u16 b 0) ((List.range' 1 7).map (v6u16 b)) (zoneSuffix zone)
      (Or.inl (by simp))
    rw [← e] at hr
    rw [hr, parseAddr_colon _ _ (hexStr_spec _ (hg 0)).1, ← hr,
      parseIPv6_zone _ _ (colonJoin_no37 _ (hmap _)), e,
      split_full _ _ zone (by simp) (by rw [← e]; exact hmap _), ← e, bytes_groups b hl hb]
  · -- a `::`
    simp only [h8, if_false, List.nil_append]
    rcases hz with hz | ⟨h1, h2, h3⟩
    · exact absurd hz h8
    · obtain ⟨zs, ze⟩ := z
      simp only at h1 h2 h3 h8 ⊢
      have hlen : ((List.range' 0 zs).map (v6u16 b)).length + ((List.range' ze (8 - ze)).map (v6u16 b)).length < 8 := by
        simp; omega
      have hno : ∀ c ∈ colonJoin ((List.range' 0 zs).map (v6u16 b)) ++ 58 :: 58 ::
          colonJoin ((List.range' ze (8 - ze)).map (v6u16 b)), c ≠ 37 := by
        intro c hc
        simp only [List.mem_append, List.mem_cons] at hc
        rcases hc with hc | rfl | rfl | hc
        · exact colonJoin_no37 _ (hmap _) c hc
        · decide
        · decide
        · exact colonJoin_no37 _ (hmap _) c hc
      have hparse : parseIPv6 (colonJoin ((List.range' 0 zs).map (v6u16 b)) ++ 58 :: 58 ::
          colonJoin ((List.range' ze (8 - ze)).map (v6u16 b)) ++ zoneSuffix zone) = some (.v6 b zone) := by
        rw [parseIPv6_zone _ _ hno, split_ell _ _ zone hlen (hmap _) (hmap _)]
        congr 2
        have hb' := bytes_groups b hl hb
        rw [range_split zs ze (by omega) h2, List.map_append, List.map_append, bytesOf_append,
          bytesOf_append, map_zero _ zs (ze - zs) (fun k hk1 hk2 => h3 k hk1 (by omega)),
          bytesOf_replicate_zero] at hb'
        refine Eq.trans ?_ hb'
        simp only [List.length_map, List.length_range']
        rw [show 16 - 2 * (zs + (8 - ze)) = 2 * (ze - zs) by omega]
      rw [show colonJoin ((List.range' 0 zs).map (v6u16 b)) ++ [58, 58] ++
          colonJoin ((List.range' ze (8 - ze)).map (v6u16 b)) ++ zoneSuffix zone =
          colonJoin ((List.range' 0 zs).map (v6u16 b)) ++ 58 :: 58 ::
          colonJoin ((List.range' ze (8 - ze)).map (v6u16 b)) ++ zoneSuffix zone by simp]
      rw [← hparse]
      by_cases h0 : zs = 0
      · subst h0
        simp only [List.range'_zero, List.map_nil, colonJoin_nil, List.nil_append, List.cons_append]
        exact parseAddr_colon [] _ (by simp)
      · have e : (List.range' 0 zs).map (v6u16 b) = v6u16 b 0 :: (List.range' 1 (zs - 1)).map (v6u16 b) := by
          rw [show List.range' 0 zs = 0 :: List.range' 1 (zs - 1) by
            rw [show zs = (zs - 1) + 1 by omega, List.range'_succ]; simp]
          rfl
        obtain ⟨r, hr⟩ := colonJoin_colon (v6u16 b 0) ((List.range' 1 (zs - 1)).map (v6u16 b))
          (58 :: 58 :: colonJoin ((List.range' ze (8 - ze)).map (v6u16 b)) ++ zoneSuffix zone)
          (Or.inr ⟨_, rfl⟩)
        rw [e, List.append_assoc, hr]
        exact parseAddr_colon _ _ (hexStr_spec _ (hg 0)).1

/-! ### IPv4-mapped IPv6, `appendTo4In6` -/

theorem hexStr_ffff : hexStr 65535 = [102, 102, 102, 102] := by decide

theorem digit_hex {c : Nat} (h : 48 ≤ c ∧ c ≤ 57) : (hexVal c).isSome = true := by
  unfold hexVal; simp [h.1, h.2]

theorem dec_fieldOK (x : Nat) (hx : x < 256) (rest : Bytes) : C02.FieldOK (dec x) (46 :: rest) :=
  ⟨fun c hc => digit_hex (dec_digits x c hc), dec_length_pos x,
    Nat.le_trans (dec_length_le x hx) (by omega),
    by intro c h; simp at h; subst h; exact hexVal_46⟩

theorem rt_4in6 (b : List Nat) (zone : Bytes) (hl : b.length = 16) (hb : ∀ x ∈ b, x < 256)
    (h4 : is4In6 b = true) : parseAddr (appendTo4In6 [] b zone) = some (.v6 b zone) := by
  match b, hl, hb, h4 with
  | [b0, b1, b2, b3, b4, b5, b6, b7, b8, b9, b10, b11, x0, x1, x2, x3], _, hb, h4 =>
    simp only [List.mem_cons, List.not_mem_nil, or_false, forall_eq_or_imp, forall_eq] at hb
    obtain ⟨_, _, _, _, _, _, _, _, _, _, _, _, h0, h1, h2, h3⟩ := hb
    simp [is4In6] at h4
    obtain ⟨⟨⟨rfl, rfl, rfl, rfl, rfl, rfl, rfl, rfl, rfl, rfl⟩, rfl⟩, rfl⟩ := h4
    unfold appendTo4In6
    simp only [List.nil_append]
    rw [appendTo4_eq _ _ (by
      intro i hi
      match i, hi with
      | 0, _ => exact h0
      | 1, _ => exact h1
      | 2, _ => exact h2
      | 3, _ => exact h3), appendZone_eq]
    simp only [List.getD_cons_zero, List.getD_cons_succ, Nat.reduceAdd, List.cons_append, List.nil_append]
    -- the dotted quad
    have hf := fields_roundtrip x0 x1 x2 x3 h0 h1 h2 h3
    have hq : joinDot ([x0, x1, x2, x3].map dec) = dec x0 ++ 46 :: (dec x1 ++ 46 :: (dec x2 ++ 46 :: dec x3)) := by
      simp only [List.map_cons, List.map_nil, joinDot_cons_cons, joinDot]
    generalize hQ : joinDot ([x0, x1, x2, x3].map dec) = quad at hf hq
    have hquad : ∀ c ∈ quad, c ≠ 37 := by
      intro c hc
      rcases C02.parseIPv4Fields_chars quad (by rw [hf]; rfl) c hc with h | h
      · have := (C02.isDigit_iff c).1 h; omega
      · omega
    have hd := parseAddr_colon [] (58 :: 102 :: 102 :: 102 :: 102 :: 58 :: (quad ++ zoneSuffix zone)) (by simp)
    rw [List.nil_append] at hd
    rw [hd,
      show 58 :: 58 :: 102 :: 102 :: 102 :: 102 :: 58 :: (quad ++ zoneSuffix zone) =
        (58 :: 58 :: 102 :: 102 :: 102 :: 102 :: 58 :: quad) ++ zoneSuffix zone by simp,
      parseIPv6_zone _ _ (by
        intro c hc
        simp only [List.mem_cons] at hc
        rcases hc with rfl | rfl | rfl | rfl | rfl | rfl | rfl | hc
        all_goals first | decide | exact hquad c hc),
      split_lead]
    simp only [List.cons_ne_nil, if_false]
    -- first step: the group `ffff`
    obtain ⟨c0, r0, hd0⟩ : ∃ c0 r0, dec x0 = c0 :: r0 := by
      cases h : dec x0 with
      | nil => exact absurd h (dec_ne_nil x0)
      | cons c r => exact ⟨c, r, rfl⟩
    have hc0 : (hexVal c0).isSome = true := digit_hex (dec_digits x0 c0 (by rw [hd0]; simp))
    have hq' : quad = c0 :: (r0 ++ 46 :: (dec x1 ++ 46 :: (dec x2 ++ 46 :: dec x3))) := by
      rw [hq, hd0]; rfl
    rw [v6Loop_succ 8 _ (by simp)]
    have s1 := step_colon 65535 (by omega) c0 (r0 ++ 46 :: (dec x1 ++ 46 :: (dec x2 ++ 46 :: dec x3))) hc0 [] (some 0)
    rw [hexStr_ffff, ← hq'] at s1
    simp only [List.cons_append, List.nil_append] at s1
    rw [s1]
    simp only
    -- second step: the trailing dotted quad
    rw [v6Loop_succ 7 _ (by simp)]
    have s2 := C02.v6Step_field (dec_fieldOK x0 h0 (dec x1 ++ 46 :: (dec x2 ++ 46 :: dec x3)))
      [65535 / 256, 65535 % 256] (some 0)
    rw [← hq, hf] at s2
    rw [s2]
    simp [finish6]

/-! ### the round trip -/

/-- `MarshalText` and `String` differ on the zero `Addr` only -/
theorem addrString_eq_marshalText (a : Addr) (h : a ≠ .invalid) : addrString a = addrMarshalText a := by
  cases a with
  | invalid => exact absurd rfl h
  | v4 b => rfl
  | v6 b z => rfl

/-- **`ParseAddr(a.MarshalText()) = a`** for every non-zero `netip.Addr` -/
theorem parseAddr_addrMarshalText (a : Addr) (h : WF a) : parseAddr (addrMarshalText a) = some a := by
  cases a with
  | invalid => exact absurd h (by simp [WF])
  | v4 b => exact rt_v4 b h.1 h.2
  | v6 b z =>
    unfold addrMarshalText addrAppendTo
    by_cases h4 : is4In6 b = true
    · simp only [h4, if_true]; exact rt_4in6 b z h.1 h.2 h4
    · simp only [h4]; exact rt_v6 b z h.1 h.2

/-- **`ParseAddr(a.String()) = a`** for every non-zero `netip.Addr` -/
theorem parseAddr_addrString (a : Addr) (h : WF a) : parseAddr (addrString a) = some a := by
  rw [addrString_eq_marshalText a (by rintro rfl; exact h)]
  exact parseAddr_addrMarshalText a h

end GolibsVerif.Netip
