/-
C13 — concrete fold functions used for the non-vacuity examples and for the model-level
witness of the defect: ASCII case swapping (`swapFold`), and `kFold`, which adds the two
three-member orbits k/K/U+212A and s/S/U+017F.  Both satisfy contract FOLD-1.
-/
import GolibsVerif.Lemmas.C13

namespace GolibsVerif.C13

/-- ASCII-only case swapping satisfies FOLD-1 (so the contract is not vacuous). -/
def swapFold (r : Nat) : Nat :=
  if 0x41 ≤ r ∧ r ≤ 0x5A then r + 32 else if 0x61 ≤ r ∧ r ≤ 0x7A then r - 32 else r

theorem swapFold_invol (r : Nat) : swapFold (swapFold r) = r := by
  unfold swapFold
  repeat' split
  all_goals omega

theorem lower_swapFold (r : Nat) : lowerASCII (swapFold r) = lowerASCII r := by
  unfold swapFold lowerASCII
  repeat' split
  all_goals omega

theorem lower_iter_swapFold (n r : Nat) : lowerASCII (iter swapFold n r) = lowerASCII r := by
  induction n generalizing r with
  | zero => rfl
  | succ n ih => simp only [iter]; rw [ih, lower_swapFold]

theorem swapFold_fold1 : Fold1 swapFold where
  period := fun a => ⟨2, by decide, by decide, swapFold_invol a⟩
  fffd := by decide
  ascii := by
    intro a b _ _
    constructor
    · rintro ⟨n, rfl⟩; exact (lower_iter_swapFold n a).symm
    · intro h
      by_cases hab : a = b
      · exact ⟨0, hab⟩
      · refine ⟨1, ?_⟩
        simp only [iter]
        unfold lowerASCII at h; unfold swapFold
        repeat' split at h
        all_goals (repeat' split) <;> omega

/-! ### A fold function with three-member orbits: the contract is satisfiable there too, and
the shipped predicate fails on it -/

/-- `K → k → U+212A (Kelvin sign) → K`, `S → s → U+017F (long s) → S`; the other ASCII
letters swap case (the restriction of `unicode.SimpleFold` to these runes). -/
def kFold (r : Nat) : Nat :=
  if r = 0x4B then 0x6B else if r = 0x6B then 0x212A else if r = 0x212A then 0x4B
  else if r = 0x53 then 0x73 else if r = 0x73 then 0x17F else if r = 0x17F then 0x53
  else if 0x41 ≤ r ∧ r ≤ 0x5A then r + 32 else if 0x61 ≤ r ∧ r ≤ 0x7A then r - 32 else r

/-- the fold class of a rune under `kFold`, as a representative -/
def kKey (r : Nat) : Nat := if r = 0x212A then 0x6B else if r = 0x17F then 0x73 else lowerASCII r

/-- outside the two special orbits `kFold` is ASCII case swapping -/
theorem kFold_eq_swap {r : Nat} (h1 : r ≠ 0x4B) (h2 : r ≠ 0x6B) (h3 : r ≠ 0x212A) (h4 : r ≠ 0x53)
    (h5 : r ≠ 0x73) (h6 : r ≠ 0x17F) : kFold r = swapFold r := by
  simp only [kFold, swapFold, h1, h2, h3, h4, h5, h6, ↓reduceIte]

theorem swapFold_not_special {r : Nat} (h3 : r ≠ 0x212A) (h6 : r ≠ 0x17F) :
    swapFold r ≠ 0x212A ∧ swapFold r ≠ 0x17F := by
  unfold swapFold
  repeat' split
  all_goals omega

theorem kKey_kFold (r : Nat) : kKey (kFold r) = kKey r := by
  by_cases h1 : r = 0x4B
  · subst h1; decide
  by_cases h2 : r = 0x6B
  · subst h2; decide
  by_cases h3 : r = 0x212A
  · subst h3; decide
  by_cases h4 : r = 0x53
  · subst h4; decide
  by_cases h5 : r = 0x73
  · subst h5; decide
  by_cases h6 : r = 0x17F
  · subst h6; decide
  rw [kFold_eq_swap h1 h2 h3 h4 h5 h6]
  have hs := swapFold_not_special h3 h6
  simp only [kKey, hs.1, hs.2, h3, h6, ↓reduceIte]
  exact lower_swapFold r

theorem kKey_iter (n r : Nat) : kKey (iter kFold n r) = kKey r := by
  induction n generalizing r with
  | zero => rfl
  | succ n ih => simp only [iter]; rw [ih, kKey_kFold]

theorem kFold_fold1 : Fold1 kFold where
  period := by
    intro a
    by_cases h1 : a = 0x4B
    · subst h1; exact ⟨3, by decide, by decide, by decide⟩
    by_cases h2 : a = 0x6B
    · subst h2; exact ⟨3, by decide, by decide, by decide⟩
    by_cases h3 : a = 0x212A
    · subst h3; exact ⟨3, by decide, by decide, by decide⟩
    by_cases h4 : a = 0x53
    · subst h4; exact ⟨3, by decide, by decide, by decide⟩
    by_cases h5 : a = 0x73
    · subst h5; exact ⟨3, by decide, by decide, by decide⟩
    by_cases h6 : a = 0x17F
    · subst h6; exact ⟨3, by decide, by decide, by decide⟩
    refine ⟨2, by decide, by decide, ?_⟩
    simp only [iter]
    have hsw : swapFold a ≠ 0x4B ∧ swapFold a ≠ 0x6B ∧ swapFold a ≠ 0x53 ∧ swapFold a ≠ 0x73 := by
      unfold swapFold
      repeat' split
      all_goals omega
    have hs := swapFold_not_special h3 h6
    rw [kFold_eq_swap h1 h2 h3 h4 h5 h6, kFold_eq_swap hsw.1 hsw.2.1 hs.1 hsw.2.2.1 hsw.2.2.2 hs.2,
      swapFold_invol]
  fffd := by decide
  ascii := by
    intro a b ha hb
    constructor
    · rintro ⟨n, rfl⟩
      have h := kKey_iter n a
      unfold kKey at h
      rw [if_neg (by omega), if_neg (by omega), if_neg (by omega), if_neg (by omega)] at h
      exact h.symm
    · intro h
      by_cases hab : a = b
      · exact ⟨0, hab⟩
      by_cases hk : a = 0x6B
      · refine ⟨2, ?_⟩
        subst hk
        have : b = 0x4B := by
          unfold lowerASCII at h
          repeat' split at h
          all_goals omega
        subst this; decide
      by_cases hs : a = 0x73
      · refine ⟨2, ?_⟩
        subst hs
        have : b = 0x53 := by
          unfold lowerASCII at h
          repeat' split at h
          all_goals omega
        subst this; decide
      · refine ⟨1, ?_⟩
        simp only [iter]
        by_cases hK : a = 0x4B
        · subst hK
          have : b = 0x6B := by
            unfold lowerASCII at h
            repeat' split at h
            all_goals omega
          subst this; decide
        by_cases hS : a = 0x53
        · subst hS
          have : b = 0x73 := by
            unfold lowerASCII at h
            repeat' split at h
            all_goals omega
          subst this; decide
        rw [kFold_eq_swap hK hk (by omega) hS hs (by omega)]
        unfold lowerASCII at h; unfold swapFold
        repeat' split at h
        all_goals (repeat' split) <;> omega

/-- `.ok b`-test that the kernel can evaluate -/
def isOkB (b : Bool) : GoM Bool → Bool
  | .ok x => x == b
  | .error _ => false

end GolibsVerif.C13
