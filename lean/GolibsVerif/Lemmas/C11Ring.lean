/-
C11 — helper lemmas for the ring buffer refinement.
-/
import GolibsVerif.Spec.C11

namespace GolibsVerif.C11

variable {σ T : Type}

/-! ### loops -/

theorem forRange_fst (f : Callback σ T) (s : σ) (xs : List T) :
    (forRange f s xs).1 = callUntil f s xs := by
  induction xs generalizing s with
  | nil => rfl
  | cons e rest ih =>
    simp only [forRange, callUntil]
    cases h : (f s e).2 <;> simp [ih]

theorem forRange_append (f : Callback σ T) (s : σ) (xs ys : List T) :
    forRange f s (xs ++ ys) =
      if (forRange f s xs).2 then forRange f (forRange f s xs).1 ys else forRange f s xs := by
  induction xs generalizing s with
  | nil => simp [forRange]
  | cons e rest ih =>
    simp only [List.cons_append, forRange]
    by_cases h : (f s e).2 = true <;> simp [h, ih]

theorem callUntil_append (f : Callback σ T) (s : σ) (xs ys : List T) :
    callUntil f s (xs ++ ys) =
      if (forRange f s xs).2 then callUntil f (forRange f s xs).1 ys else (forRange f s xs).1 := by
  rw [← forRange_fst, forRange_append]
  split <;> simp [forRange_fst]

theorem idx_ok {xs : List T} {i : Nat} (h : i < xs.length) : idx xs (i : Int) = .ok xs[i] := by
  have : ¬ ((i : Int) < 0) := by omega
  simp [idx, this, h]

theorem forDown_eq (f : Callback σ T) (xs : List T) (i : Nat) (h : i ≤ xs.length) (s : σ) :
    forDown f xs i s = .ok (forRange f s (xs.take i).reverse) := by
  induction i generalizing s with
  | zero => simp [forDown, forRange]
  | succ i ih =>
    have hi : i < xs.length := by omega
    have htake : (xs.take (i + 1)).reverse = xs[i] :: (xs.take i).reverse := by
      rw [List.take_succ_eq_append_getElem hi]; simp
    simp only [forDown, idx_ok hi, htake, forRange, bind, Except.bind]
    cases hc : (f s xs[i]).2
    · simp
    · simp [ih (by omega)]

theorem forDown_full (f : Callback σ T) (xs : List T) (s : σ) :
    forDown f xs xs.length s = .ok (forRange f s xs.reverse) := by
  rw [forDown_eq f xs xs.length (Nat.le_refl _)]; simp

/-! ### slices -/

theorem slice_prefix (s : List T) (k : Nat) (h : k ≤ s.length) :
    slice s 0 (k : Nat) = .ok (s.take k) := by
  have : (0 : Int) ≤ (k : Int) ∧ (k : Int) ≤ (s.length : Int) := by omega
  simp [slice, this]

theorem slice_suffix (s : List T) (k : Nat) (h : k ≤ s.length) :
    slice s (k : Nat) (s.length : Nat) = .ok (s.drop k) := by
  have : (0 : Int) ≤ (k : Int) ∧ (k : Int) ≤ (s.length : Int) := by omega
  simp only [slice, this, Int.toNat_natCast]
  rw [List.take_of_length_le (by simp)]
  simp

theorem setIdx_ok (s : List T) (k : Nat) (e : T) (h : k < s.length) :
    setIdx s (k : Nat) e = .ok (s.set k e) := by
  have : ¬ ((k : Int) < 0) := by omega
  simp [setIdx, this, h]

/-! ### lastN -/

theorem lastN_length (n : Nat) (l : List T) : (lastN n l).length = min l.length n := by
  simp [lastN]; omega

theorem lastN_of_le (n : Nat) (l : List T) (h : l.length ≤ n) : lastN n l = l := by
  have : l.length - n = 0 := by omega
  simp [lastN, this]

theorem lastN_zero (l : List T) : lastN 0 l = [] := by simp [lastN]

theorem lastN_snoc (n : Nat) (l : List T) (e : T) (hn : 0 < n) (h : n ≤ l.length) :
    lastN n (l ++ [e]) = (lastN n l).drop 1 ++ [e] := by
  simp only [lastN, List.length_append, List.length_cons, List.length_nil, List.drop_drop]
  rw [List.drop_append_of_le_length (by omega)]
  congr 2
  omega

/-- what is retained after one more push depends only on what was retained before -/
theorem lastN_lastN_snoc (n : Nat) (l : List T) (e : T) :
    lastN n (lastN n l ++ [e]) = lastN n (l ++ [e]) := by
  by_cases h : l.length ≤ n
  · rw [lastN_of_le n l h]
  · by_cases hn : n = 0
    · subst hn; simp [lastN_zero]
    · have hlen : (lastN n l).length = n := by rw [lastN_length]; omega
      rw [lastN_snoc n l e (by omega) (by omega), lastN_snoc n (lastN n l) e (by omega) (by omega),
        lastN_of_le n (lastN n l) (by omega)]

/-! ### the methods on states whose cursor is in range -/

theorem push_eq (rb : Ring T) (e : T) (hne : rb.buf.length ≠ 0) (hlt : rb.cur < rb.buf.length) :
    rb.push e = .ok ⟨rb.buf.set rb.cur e, (rb.cur + 1) % rb.buf.length,
      if (rb.cur + 1) % rb.buf.length = 0 then true else rb.full⟩ := by
  unfold Ring.push
  rw [if_neg hne, setIdx_ok _ _ e hlt]
  rfl

theorem splitCur_notFull (rb : Ring T) (hne : rb.buf.length ≠ 0) (hf : rb.full = false)
    (hle : rb.cur ≤ rb.buf.length) : rb.splitCur = .ok (rb.buf.take rb.cur, []) := by
  unfold Ring.splitCur
  rw [if_neg hne, hf, slice_prefix _ _ hle]
  rfl

theorem splitCur_full (rb : Ring T) (hne : rb.buf.length ≠ 0) (hf : rb.full = true)
    (hle : rb.cur ≤ rb.buf.length) : rb.splitCur = .ok (rb.buf.drop rb.cur, rb.buf.take rb.cur) := by
  unfold Ring.splitCur
  rw [if_neg hne, hf, slice_prefix _ _ hle, slice_suffix _ _ hle]
  rfl

theorem current_eq (zero : T) (rb : Ring T) (hlt : rb.cur < rb.buf.length) :
    rb.current zero = .ok rb.buf[rb.cur] := by
  unfold Ring.current
  rw [if_neg (by omega), idx_ok hlt]

/-! ### the representation invariant -/

/-- `Inv zero n rb l`: the concrete ring `rb` of capacity `n` represents the abstract state
"`l` was pushed since creation / the last clear". -/
inductive Inv (zero : T) (n : Nat) : Ring T → List T → Prop
  /-- capacity 0: pushes are ignored -/
  | empty (l : List T) : n = 0 → Inv zero n ⟨[], 0, false⟩ l
  /-- fewer than `n` pushes: they sit at the front, the rest of the storage is zero -/
  | filling (l : List T) : l.length < n →
      Inv zero n ⟨l ++ List.replicate (n - l.length) zero, l.length, false⟩ l
  /-- at least `n` pushes: the storage is a rotation of the last `n` -/
  | full (l a : List T) (x : T) (b : List T) : (a ++ x :: b).length = n →
      (x :: b) ++ a = lastN n l → n ≤ l.length → Inv zero n ⟨a ++ x :: b, a.length, true⟩ l

theorem Inv.buf_length {zero : T} {n : Nat} {rb : Ring T} {l : List T} (h : Inv zero n rb l) :
    rb.buf.length = n := by
  cases h with
  | empty l h0 => simp [h0]
  | filling l hl => simp; omega
  | full l a x b hlen _ _ => exact hlen

theorem inv_new (zero : T) (n : Nat) : Inv zero n (Ring.new zero n) [] := by
  by_cases h : n = 0
  · subst h; exact Inv.empty [] rfl
  · have := Inv.filling (zero := zero) (n := n) [] (by simp; omega)
    simpa [Ring.new] using this

theorem inv_clear {zero : T} {n : Nat} {rb : Ring T} {l : List T} (h : Inv zero n rb l) :
    Inv zero n (rb.clear zero) [] := by
  have := inv_new zero n
  simpa [Ring.clear, Ring.new, h.buf_length] using this

theorem inv_push {zero : T} {n : Nat} {rb : Ring T} {l : List T} (h : Inv zero n rb l) (e : T) :
    ∃ rb', rb.push e = .ok rb' ∧ Inv zero n rb' (l ++ [e]) := by
  cases h with
  | empty l h0 => exact ⟨_, by simp [Ring.push], Inv.empty _ h0⟩
  | filling l hl =>
    have hlen : (l ++ List.replicate (n - l.length) zero).length = n := by simp; omega
    obtain ⟨k, hk⟩ : ∃ k, n - l.length = k + 1 := ⟨n - l.length - 1, by omega⟩
    have hk' : n - (l ++ [e]).length = k := by simp; omega
    have hset : (l ++ List.replicate (n - l.length) zero).set l.length e
        = (l ++ [e]) ++ List.replicate (n - (l ++ [e]).length) zero := by
      rw [hk', hk, List.replicate_succ]
      simp
    refine ⟨_, push_eq _ e (by show (l ++ List.replicate (n - l.length) zero).length ≠ 0; omega)
      (by show l.length < (l ++ List.replicate (n - l.length) zero).length; omega), ?_⟩
    show Inv zero n ⟨(l ++ List.replicate (n - l.length) zero).set l.length e,
      (l.length + 1) % (l ++ List.replicate (n - l.length) zero).length,
      if (l.length + 1) % (l ++ List.replicate (n - l.length) zero).length = 0 then true else false⟩
      (l ++ [e])
    rw [hlen, hset]
    by_cases hw : l.length + 1 = n
    · -- the buffer becomes full; the cursor wraps to 0
      have hmod : (l.length + 1) % n = 0 := by rw [hw]; exact Nat.mod_self n
      have hk0 : k = 0 := by omega
      rw [hmod, hk', hk0, if_pos rfl, List.replicate_zero, List.append_nil]
      cases l with
      | nil =>
        exact Inv.full (zero := zero) (n := n) [e] [] e [] (by simp at hw ⊢; omega)
          (by rw [lastN_of_le _ _ (by simp at hw ⊢; omega)]; simp) (by simp at hw ⊢; omega)
      | cons y l' =>
        exact Inv.full (zero := zero) (n := n) (y :: l' ++ [e]) [] y (l' ++ [e])
          (by simp at hw ⊢; omega) (by rw [lastN_of_le]; simp; simp at hw ⊢; omega)
          (by simp at hw ⊢; omega)
    · have hmod : (l.length + 1) % n = l.length + 1 := Nat.mod_eq_of_lt (by omega)
      rw [hmod, if_neg (by omega)]
      have := Inv.filling (zero := zero) (n := n) (l ++ [e]) (by simp; omega)
      simpa using this
  | full l a x b hlen hrot hn =>
    have hn0 : 0 < n := by rw [← hlen]; simp; omega
    have hset : (a ++ x :: b).set a.length e = a ++ e :: b := by simp
    have hlast : lastN n (l ++ [e]) = b ++ a ++ [e] := by
      rw [lastN_snoc n l e hn0 hn, ← hrot]; simp
    refine ⟨_, push_eq _ e (by show (a ++ x :: b).length ≠ 0; simp)
      (by show a.length < (a ++ x :: b).length; simp), ?_⟩
    show Inv zero n ⟨(a ++ x :: b).set a.length e, (a.length + 1) % (a ++ x :: b).length,
      if (a.length + 1) % (a ++ x :: b).length = 0 then true else true⟩ (l ++ [e])
    rw [hset, hlen]
    have hif : (if (a.length + 1) % n = 0 then true else true) = true := by split <;> rfl
    rw [hif]
    cases b with
    | nil =>
      -- the cursor was on the last slot: it wraps to 0
      have hmod : (a.length + 1) % n = 0 := by
        have : a.length + 1 = n := by simpa using hlen
        rw [this]; exact Nat.mod_self n
      rw [hmod]
      cases a with
      | nil =>
        exact Inv.full (zero := zero) (n := n) (l ++ [e]) [] e [] (by simpa using hlen)
          (by rw [hlast]; simp) (by simp; omega)
      | cons y a' =>
        exact Inv.full (zero := zero) (n := n) (l ++ [e]) [] y (a' ++ [e]) (by simpa using hlen)
          (by rw [hlast]; simp) (by simp; omega)
    | cons y b' =>
      have hmod : (a.length + 1) % n = a.length + 1 :=
        Nat.mod_eq_of_lt (by rw [← hlen]; simp)
      rw [hmod]
      have := Inv.full (zero := zero) (n := n) (l ++ [e]) (a ++ [e]) y b' (by simpa using hlen)
        (by rw [hlast]; simp) (by simp; omega)
      simpa using this

/-- the two halves `splitCur` returns, concatenated, are what the abstract ring retains -/
theorem inv_splitCur {zero : T} {n : Nat} {rb : Ring T} {l : List T} (h : Inv zero n rb l) :
    ∃ before after, rb.splitCur = .ok (before, after) ∧ before ++ after = lastN n l := by
  cases h with
  | empty l h0 => exact ⟨[], [], by simp [Ring.splitCur], by subst h0; simp [lastN_zero]⟩
  | filling l hl =>
    refine ⟨_, _, splitCur_notFull _ (by show (l ++ List.replicate (n - l.length) zero).length ≠ 0; simp; omega)
      rfl (by show l.length ≤ (l ++ List.replicate (n - l.length) zero).length; simp), ?_⟩
    show (l ++ List.replicate (n - l.length) zero).take l.length ++ [] = lastN n l
    rw [lastN_of_le n l (by omega)]; simp
  | full l a x b hlen hrot hn =>
    refine ⟨_, _, splitCur_full _ (by show (a ++ x :: b).length ≠ 0; simp) rfl
      (by show a.length ≤ (a ++ x :: b).length; simp), ?_⟩
    show (a ++ x :: b).drop a.length ++ (a ++ x :: b).take a.length = lastN n l
    rw [← hrot]; simp

theorem inv_range {zero : T} {n : Nat} {rb : Ring T} {l : List T} (h : Inv zero n rb l)
    (f : Callback σ T) (s : σ) : rb.range f s = .ok (callUntil f s (lastN n l)) := by
  obtain ⟨before, after, hs, hcat⟩ := inv_splitCur h
  simp only [Ring.range, hs, bind, Except.bind, ← hcat, callUntil_append]
  cases hc : (forRange f s before).2 <;> simp [forRange_fst]

theorem inv_reverseRange {zero : T} {n : Nat} {rb : Ring T} {l : List T} (h : Inv zero n rb l)
    (f : Callback σ T) (s : σ) : rb.reverseRange f s = .ok (callUntil f s (lastN n l).reverse) := by
  obtain ⟨before, after, hs, hcat⟩ := inv_splitCur h
  simp only [Ring.reverseRange, hs, bind, Except.bind, ← hcat, List.reverse_append, callUntil_append,
    forDown_full]
  cases hc : (forRange f s after.reverse).2 <;> simp [forRange_fst]

theorem inv_len {zero : T} {n : Nat} {rb : Ring T} {l : List T} (h : Inv zero n rb l) :
    rb.len = min l.length n := by
  cases h with
  | empty l h0 => simp [Ring.len, h0]
  | filling l hl => simp [Ring.len]; omega
  | full l a x b hlen hrot hn => simp only [Ring.len]; simp; simp at hlen; omega

theorem inv_current {zero : T} {n : Nat} {rb : Ring T} {l : List T} (h : Inv zero n rb l) :
    rb.current zero = .ok (oldest zero n l) := by
  cases h with
  | empty l h0 => subst h0; simp [Ring.current, oldest, lastN_zero]
  | filling l hl =>
    have hlt : l.length < (l ++ List.replicate (n - l.length) zero).length := by simp; omega
    have hno : ¬ n ≤ l.length := by omega
    rw [current_eq zero _ hlt]
    show Except.ok (l ++ List.replicate (n - l.length) zero)[l.length] = _
    simp [oldest, hno, List.getElem_append_right]
  | full l a x b hlen hrot hn =>
    have hlt : a.length < (a ++ x :: b).length := by simp
    rw [current_eq zero _ hlt]
    show Except.ok (a ++ x :: b)[a.length] = _
    simp [oldest, hn, ← hrot]

/-- one call: the concrete ring answers what the abstract ring answers, without panicking,
and the invariant is kept -/
theorem step_refines {zero : T} {n : Nat} {rb : Ring T} {l : List T} (h : Inv zero n rb l)
    (op : ROp σ T) :
    ∃ rb', Ring.step zero (some rb) op = (some rb', .ok (specStep zero n l op).2) ∧
      Inv zero n rb' (specStep zero n l op).1 := by
  cases op with
  | push e =>
    obtain ⟨rb', hp, hi⟩ := inv_push h e
    exact ⟨rb', by simp [Ring.step, hp, specStep], hi⟩
  | clear => exact ⟨_, by simp [Ring.step, specStep], inv_clear h⟩
  | current => exact ⟨rb, by simp [Ring.step, specStep, inv_current h, Except.map], h⟩
  | len => exact ⟨rb, by simp [Ring.step, specStep, inv_len h], h⟩
  | range f s => exact ⟨rb, by simp [Ring.step, specStep, inv_range h, Except.map], h⟩
  | reverseRange f s => exact ⟨rb, by simp [Ring.step, specStep, inv_reverseRange h, Except.map], h⟩

theorem run_refines {zero : T} {n : Nat} {rb : Ring T} {l : List T} (h : Inv zero n rb l)
    (ops : List (ROp σ T)) :
    (Ring.run zero (some rb) ops).2 = (specRun zero n l ops).map .ok ∧
    ∃ rb', (Ring.run zero (some rb) ops).1 = some rb' ∧
      Inv zero n rb' (ops.foldl (fun l op => (specStep zero n l op).1) l) := by
  induction ops generalizing rb l with
  | nil => exact ⟨rfl, rb, rfl, h⟩
  | cons op rest ih =>
    obtain ⟨rb', hstep, hinv⟩ := step_refines h op
    obtain ⟨ih1, ih2⟩ := ih hinv
    simp only [Ring.run, hstep, specRun, List.map_cons, List.foldl_cons]
    exact ⟨by rw [ih1], ih2⟩

/-- the abstract state after a script is `pushesSinceClear` of the script -/
theorem spec_state_eq (zero : T) (n : Nat) (ops : List (ROp σ T)) :
    ops.foldl (fun l op => (specStep zero n l op).1) [] = pushesSinceClear ops := by
  have : (fun l (op : ROp σ T) => (specStep zero n l op).1) = absStep := by
    funext l op; cases op <;> rfl
  rw [this]; rfl

end GolibsVerif.C11
