import GolibsVerif.Lemmas.C03
import GolibsVerif.Lemmas.Strings

/-! C02, hostname half: the allocation-free `IsValidHostnameLabel` / `IsValidHostname`
compute exactly "the error-returning validator returns nil". -/
namespace GolibsVerif.C02
open GolibsVerif.Netutil GolibsVerif.Str GolibsVerif.Gen.Consts GolibsVerif GolibsVerif.C03

/-- `err == nil` as a Boolean -/
def isNil : GoM (Option Err) → Bool
  | .ok none => true
  | _ => false

theorem isNil_iff (r : GoM (Option Err)) : isNil r = true ↔ r = .ok none := by
  unfold isNil; split <;> simp_all

theorem ivhl_eq (l : Bytes) : isValidHostnameLabel l = .ok (isNil (validateHostnameLabel l)) := by
  match l with
  | [] => rw [vhl_nil]; simp [isValidHostnameLabel, isNil, pure, Except.pure]
  | [a] =>
    rw [vhl_single]
    by_cases ha : isValidHostOuterRune a = true <;>
      simp [isValidHostnameLabel, isNil, MaxDomainLabelLen, bind, Except.bind, pure, Except.pure, ha]
  | a :: b :: t =>
    obtain ⟨mid, z, h⟩ := GoM.exists_cons_snoc a b t
    rw [h, vhl_cons_snoc]
    unfold isValidHostnameLabel
    simp only [List.cons_ne_nil, if_false]
    by_cases hlen : (a :: (mid ++ [z])).length > MaxDomainLabelLen
    · simp only [hlen, if_true]
      simp [isNil, bind, Except.bind, pure, Except.pure]
    · simp only [hlen, if_false]
      have hne1 : ((a :: (mid ++ [z])).length : Int) ≠ 1 := by simp; omega
      simp only [bind, Except.bind, pure, Except.pure, GoM.idx_zero_cons, GoM.slice_mid_snoc,
        GoM.idx_last_snoc, hne1, if_false]
      by_cases ha : isValidHostOuterRune a = true
      · simp only [ha]
        cases hf : mid.find? (fun r => !isValidHostInnerRune r) with
        | some r =>
          have hany : mid.any (fun r => !isValidHostInnerRune r) = true := by
            have := List.find?_some hf
            have hm := List.mem_of_find?_eq_some hf
            exact List.any_eq_true.2 ⟨r, hm, this⟩
          simp [hany, isNil]
        | none =>
          have hany : mid.any (fun r => !isValidHostInnerRune r) = false := by
            rw [List.any_eq_false]
            intro x hx
            have := List.find?_eq_none.1 hf x hx
            simpa using this
          by_cases hz : isValidHostOuterRune z = true <;> simp [hany, hz, isNil]
      · simp [ha, isNil]

theorem ivtld_eq (l : Bytes) : isValidTLDLabel l = .ok (isNil (validateTLDLabel l)) := by
  unfold isValidTLDLabel
  rw [ivhl_eq]
  obtain ⟨r, hr⟩ := vhl_total l
  cases r with
  | none =>
    rw [vtld_of_none l hr, hr]
    by_cases hc : hasValidTLDChars l = true <;> simp [isNil, hc, bind, Except.bind, pure, Except.pure]
  | some e =>
    obtain ⟨i, rfl, hi⟩ := vhl_err_shape l e hr
    rw [vtld_of_some l i hi hr, hr]
    simp [isNil, bind, Except.bind, pure, Except.pure]

theorem isValidLabels_eq (ls : List Bytes) (hne : ls ≠ []) :
    isValidLabels ls = .ok (isNil (validateLabels validateHostnameLabel ls)) := by
  induction ls with
  | nil => exact absurd rfl hne
  | cons l rest ih =>
    cases rest with
    | nil => simp only [isValidLabels, validateLabels]; exact ivtld_eq l
    | cons l' rest' =>
      obtain ⟨r, hr⟩ := vhl_total l
      have h1 := ivhl_eq l
      rw [hr] at h1
      cases r with
      | some e =>
        simp [isValidLabels, validateLabels, hr, h1, isNil, bind, Except.bind, pure, Except.pure]
      | none =>
        have := ih (by simp)
        simp only [isValidLabels, validateLabels, hr, h1, bind, Except.bind, pure, Except.pure]
        simpa [isNil] using this

theorem isValidHostname_eq (toASCII : Bytes → Option Bytes) (s : Bytes) :
    isValidHostname toASCII s = .ok (isNil (validateHostname toASCII s)) := by
  unfold isValidHostname validateHostname validateName
  cases ht : toASCII s with
  | none => simp [isNil, bind, Except.bind, pure, Except.pure]
  | some n =>
    simp only [bind, Except.bind, pure, Except.pure]
    by_cases h0 : n = []
    · simp [h0, isNil]
    · simp only [h0, if_false]
      by_cases hlen : n.length > MaxDomainNameLen
      · simp [hlen, isNil]
      · simp only [hlen, if_false]
        rw [isValidLabels_eq _ (splitOn_ne_nil 46 n)]
        obtain ⟨r, hr⟩ := validateLabels_total hostValidator (splitOn 46 n)
        rw [hr]
        cases r <;> simp [isNil]

end GolibsVerif.C02
