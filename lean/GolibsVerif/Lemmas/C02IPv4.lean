import GolibsVerif.Model.NetIP
import GolibsVerif.Lemmas.GoM
import GolibsVerif.Lemmas.Strings

/-! C02, IPv4 part: `isIPv4Label`, `isValidIPv4String` and `netip.parseIPv4Fields` all decide
"exactly four `.`-separated decimal octets 0..255 without leading zeros". -/
namespace GolibsVerif.C02
open GolibsVerif.Netutil GolibsVerif.Str GolibsVerif.Netip GolibsVerif

/-- decimal value of a digit string (the accumulator both implementations compute) -/
def decVal (l : Bytes) : Nat := l.foldl (fun a c => a * 10 + (c - 48)) 0

/-- the specification of one IPv4 octet: non-empty, digits only, no leading zero unless the
octet is the single digit, value at most 255 -/
def octetOK (l : Bytes) : Bool :=
  !l.isEmpty && l.all isDigit && (l.length == 1 || l.head? != some 48) && decide (decVal l ≤ 255)

/-- the specification of a dotted quad, on the reference splitting -/
def v4Spec (s : Bytes) : Bool :=
  match splitOn 46 s with
  | [] => false
  | p :: ps => octetOK p && ps.all octetOK && ps.length == 3

theorem foldl_dec_ge (t : Bytes) (acc : Nat) :
    acc ≤ t.foldl (fun a c => a * 10 + (c - 48)) acc := by
  induction t generalizing acc with
  | nil => simp
  | cons c t ih =>
    simp only [List.foldl_cons]
    exact Nat.le_trans (by omega) (ih _)

theorem decVal_snoc (l : Bytes) (c : Nat) : decVal (l ++ [c]) = decVal l * 10 + (c - 48) := by
  simp [decVal, List.foldl_append]

theorem decVal_append_ge (l t : Bytes) : decVal l ≤ decVal (l ++ t) := by
  simp only [decVal, List.foldl_append]
  exact foldl_dec_ge _ _

/-- digits, no leading zero, length ≥ 4 ⇒ value ≥ 1000 -/
theorem decVal_ge_1000 (a b c d : Nat) (t : Bytes) (ha : 49 ≤ a) :
    1000 ≤ decVal (a :: b :: c :: d :: t) := by
  simp only [decVal, List.foldl_cons]
  exact Nat.le_trans (by omega) (foldl_dec_ge _ _)

theorem isDigit_iff (c : Nat) : isDigit c = true ↔ 48 ≤ c ∧ c ≤ 57 := by
  simp [isDigit]

/-- closed form of `isIPv4Label` -/
theorem isIPv4Label_eq (l : Bytes) : isIPv4Label l = .ok (octetOK l) := by
  match l with
  | [] => simp [isIPv4Label, octetOK, pure, Except.pure]
  | [a] =>
    by_cases ha : isDigit a = true
    · have := (isDigit_iff a).1 ha
      simp [isIPv4Label, octetOK, decVal, bind, Except.bind, pure, Except.pure, ha]; omega
    · simp [isIPv4Label, octetOK, decVal, bind, Except.bind, pure, Except.pure, ha]
  | [a, b] =>
    by_cases h0 : a = 48
    · simp [isIPv4Label, octetOK, bind, Except.bind, pure, Except.pure, h0]
    · by_cases hd : (isDigit a && isDigit b) = true
      · simp at hd
        simp [isIPv4Label, octetOK, decVal, bind, Except.bind, pure, Except.pure, h0, hd]
      · simp at hd
        by_cases ha : isDigit a = true
        · simp [isIPv4Label, octetOK, decVal, bind, Except.bind, pure, Except.pure, h0, hd, ha]
        · simp [isIPv4Label, octetOK, decVal, bind, Except.bind, pure, Except.pure, h0, ha]
  | [a, b, c] =>
    by_cases h0 : a = 48
    · simp [isIPv4Label, octetOK, bind, Except.bind, pure, Except.pure, h0]
    · by_cases hd : [a, b, c].all isDigit = true
      · simp [isIPv4Label, octetOK, decVal, bind, Except.bind, pure, Except.pure, h0, hd]
      · simp [isIPv4Label, octetOK, decVal, bind, Except.bind, pure, Except.pure, h0, hd]
  | a :: b :: c :: d :: t =>
    have hlen : ¬ ((a :: b :: c :: d :: t).length < 1 ∨ (a :: b :: c :: d :: t).length > 3) → False := by
      intro h; apply h; simp
    have : octetOK (a :: b :: c :: d :: t) = false := by
      by_cases ha : isDigit a = true
      · by_cases h0 : a = 48
        · simp [octetOK, h0]
        · have := (isDigit_iff a).1 ha
          have h1000 := decVal_ge_1000 a b c d t (by omega)
          have : ¬ decVal (a :: b :: c :: d :: t) ≤ 255 := by omega
          simp [octetOK, this]
      · simp [octetOK, ha]
    rw [this]
    simp [isIPv4Label, pure, Except.pure]

/-! ### golibs side -/

/-- the pieces still to be visited by the `strings.Cut` loop -/
def restPieces (s : Bytes) (ok : Bool) : List Bytes := if ok then splitOn 46 s else []

theorem v4Loop_eq (n : Nat) (label s : Bytes) (ok : Bool) :
    v4Loop n label s ok =
      .ok (octetOK label && (restPieces s ok).all octetOK && (restPieces s ok).length == n) := by
  induction n generalizing label s ok with
  | zero =>
    cases ok with
    | true =>
      have := splitOn_ne_nil 46 s
      simp [v4Loop, restPieces, isIPv4Label_eq, bind, Except.bind, pure, Except.pure, this]
    | false => simp [v4Loop, restPieces, isIPv4Label_eq, bind, Except.bind, pure, Except.pure]
  | succ n ih =>
    cases ok with
    | false => simp [v4Loop, restPieces, pure, Except.pure]
    | true =>
      unfold v4Loop
      simp only [isIPv4Label_eq, bind, Except.bind, pure, Except.pure, if_true]
      by_cases hl : octetOK label = true
      · simp only [hl, Bool.not_true, Bool.false_eq_true, if_false, Bool.true_and]
        have hs := splitOn_cut 46 s
        rcases hc : cut 46 s with ⟨l', s', ok'⟩
        rw [hc] at hs
        simp only [ih]
        cases ok' with
        | true => simp at hs; simp [restPieces, hs, Bool.and_assoc]
        | false => simp at hs; simp [restPieces, hs]; cases n <;> simp
      · simp [hl]

theorem isValidIPv4String_eq_spec (s : Bytes) : isValidIPv4String s = .ok (v4Spec s) := by
  unfold isValidIPv4String v4Spec
  have hs := splitOn_cut 46 s
  rcases hc : cut 46 s with ⟨l', s', ok'⟩
  rw [hc] at hs
  simp only [v4Loop_eq]
  cases ok' with
  | true => simp at hs; simp [restPieces, hs]
  | false => simp at hs; simp [restPieces, hs]

/-! ### netip side: invariant of the `parseIPv4Fields` automaton -/

theorem octetOK_iff (l : Bytes) : octetOK l = true ↔
    l ≠ [] ∧ l.all isDigit = true ∧ (l.length = 1 ∨ l.head? ≠ some 48) ∧ decVal l ≤ 255 := by
  simp [octetOK, and_assoc]

theorem octetOK_single (c : Nat) (h : isDigit c = true) : octetOK [c] = true := by
  have := (isDigit_iff c).1 h
  rw [octetOK_iff]; simp [h, decVal]; omega

theorem octetOK_snoc (cur : Bytes) (c : Nat) (h : octetOK cur = true) (hc : isDigit c = true)
    (hz : ¬ (cur.length = 1 ∧ decVal cur = 0)) (hv : decVal cur * 10 + (c - 48) ≤ 255) :
    octetOK (cur ++ [c]) = true := by
  rw [octetOK_iff] at h ⊢
  obtain ⟨h1, h2, h3, h4⟩ := h
  refine ⟨by simp, by simp [h2, hc], ?_, by rw [decVal_snoc]; exact hv⟩
  right
  match cur, h1 with
  | [a], _ =>
    have ha : isDigit a = true := by simpa using h2
    have := (isDigit_iff a).1 ha
    simp [decVal] at hz
    simp; omega
  | a :: b :: t, _ =>
    simp at h3 ⊢; exact h3

theorem octetOK_lead0 (cur : Bytes) (c : Nat) (p : Bytes) (h : octetOK cur = true)
    (hz : cur.length = 1 ∧ decVal cur = 0) : octetOK (cur ++ c :: p) = false := by
  rw [octetOK_iff] at h
  obtain ⟨h1, h2, h3, h4⟩ := h
  match cur, h1 with
  | [a], _ =>
    have ha : isDigit a = true := by simpa using h2
    have := (isDigit_iff a).1 ha
    simp [decVal] at hz
    have : a = 48 := by omega
    subst this
    simp [octetOK]
  | a :: b :: t, _ => simp at hz

theorem octetOK_big (cur : Bytes) (c : Nat) (p : Bytes)
    (hv : decVal cur * 10 + (c - 48) > 255) : octetOK (cur ++ c :: p) = false := by
  have h1 := decVal_append_ge (cur ++ [c]) p
  rw [decVal_snoc] at h1
  have : cur ++ [c] ++ p = cur ++ c :: p := by simp
  rw [this] at h1
  have : ¬ decVal (cur ++ c :: p) ≤ 255 := by omega
  simp [octetOK, this]

theorem octetOK_nondigit (cur : Bytes) (c : Nat) (p : Bytes) (hc : ¬ isDigit c = true) :
    octetOK (cur ++ c :: p) = false := by
  simp [octetOK, hc]

/-- what remains to be checked: the current partial octet `cur` continued by the first
piece, then the other pieces, `pos` dots having been seen -/
def v4Tail (cur : Bytes) (pos : Nat) (pieces : List Bytes) : Bool :=
  match pieces with
  | [] => false
  | p :: ps => octetOK (cur ++ p) && ps.all octetOK && pos + ps.length == 3

theorem splitOn_dot (r : Bytes) : splitOn 46 (46 :: r) = [] :: splitOn 46 r := by
  simp [splitOn]

theorem splitOn_nondot (c : Nat) (r : Bytes) (h : c ≠ 46) :
    ∃ p ps, splitOn 46 r = p :: ps ∧ splitOn 46 (c :: r) = (c :: p) :: ps := by
  have hne := splitOn_ne_nil 46 r
  cases hs : splitOn 46 r with
  | nil => exact absurd hs hne
  | cons p ps => exact ⟨p, ps, rfl, by simp [splitOn, h, hs]⟩

theorem digit_ne_dot (c : Nat) (h : isDigit c = true) : c ≠ 46 := by
  have := (isDigit_iff c).1 h; omega

theorem v4aux_inv (rest : Bytes) :
    (∀ cur pos fields, octetOK cur = true → pos ≤ 3 →
      (parseIPv4FieldsAux rest false false (decVal cur) pos cur.length fields).isSome =
        v4Tail cur pos (splitOn 46 rest)) ∧
    (∀ first prevDot pos fields, (first = true ∨ prevDot = true) → (rest ≠ [] ∨ pos < 3) →
      pos ≤ 3 →
      (parseIPv4FieldsAux rest first prevDot 0 pos 0 fields).isSome =
        v4Tail [] pos (splitOn 46 rest)) := by
  induction rest with
  | nil =>
    constructor
    · intro cur pos fields hcur hpos
      by_cases h : pos < 3
      · have : ¬ pos = 3 := by omega
        simp [parseIPv4FieldsAux, v4Tail, splitOn, h, this]
      · have : pos = 3 := by omega
        simp [parseIPv4FieldsAux, v4Tail, splitOn, this, hcur]
    · intro first prevDot pos fields _ h _
      have h : pos < 3 := by simpa using h
      simp [parseIPv4FieldsAux, v4Tail, splitOn, h, octetOK]
  | cons c r ih =>
    obtain ⟨ihA, ihB⟩ := ih
    constructor
    · intro cur pos fields hcur hpos
      unfold parseIPv4FieldsAux
      by_cases hd : isDigit c = true
      · obtain ⟨p, ps, hs1, hs2⟩ := splitOn_nondot c r (digit_ne_dot c hd)
        simp only [hd, if_true, hs2, v4Tail]
        by_cases hz : cur.length = 1 ∧ decVal cur = 0
        · simp [hz, octetOK_lead0 cur c p hcur hz]
        · simp only [hz, if_false]
          by_cases hv : decVal cur * 10 + (c - 48) > 255
          · simp [hv, octetOK_big cur c p hv]
          · simp only [hv, if_false]
            have hok := octetOK_snoc cur c hcur hd hz (by omega)
            have := ihA (cur ++ [c]) pos fields hok hpos
            rw [decVal_snoc] at this
            simp only [List.length_append, List.length_cons, List.length_nil] at this
            rw [this, hs1]
            simp [v4Tail]
      · simp only [hd]
        by_cases hdot : c = 46
        · subst hdot
          simp only [if_true, splitOn_dot, v4Tail, List.append_nil, hcur, Bool.true_and]
          by_cases hr : r = []
          · subst hr; simp [splitOn, octetOK]
          · by_cases hp : pos = 3
            · subst hp
              have hne := splitOn_ne_nil 46 r
              simp [hr]
              intro _; cases hl : splitOn 46 r with
              | nil => exact absurd hl hne
              | cons => simp
            · simp only [Bool.false_eq_true, false_or, hr, hp, if_false]
              rw [ihB false true (pos + 1) _ (Or.inr rfl) (Or.inl hr) (by omega)]
              have hne := splitOn_ne_nil 46 r
              cases hl : splitOn 46 r with
              | nil => exact absurd hl hne
              | cons q qs => simp [v4Tail, Nat.add_assoc, Nat.add_comm 1]
        · obtain ⟨p, ps, hs1, hs2⟩ := splitOn_nondot c r hdot
          simp [hdot, hs2, v4Tail, octetOK_nondigit cur c p hd]
    · intro first prevDot pos fields hfp hne hpos
      unfold parseIPv4FieldsAux
      by_cases hd : isDigit c = true
      · obtain ⟨p, ps, hs1, hs2⟩ := splitOn_nondot c r (digit_ne_dot c hd)
        have hc := (isDigit_iff c).1 hd
        have hv : ¬ (0 * 10 + (c - 48) > 255) := by omega
        simp only [hd, if_true, hs2, v4Tail, hv, if_false]
        have := ihA [c] pos fields (octetOK_single c hd) hpos
        simp only [decVal, List.foldl_cons, List.foldl_nil, List.length_cons, List.length_nil] at this
        simp only [Nat.zero_ne_one, false_and, if_false]
        rw [this, hs1]
        simp [v4Tail]
      · simp only [hd]
        by_cases hdot : c = 46
        · subst hdot
          have : (first = true ∨ r = [] ∨ prevDot = true) := by
            rcases hfp with h | h
            · exact Or.inl h
            · exact Or.inr (Or.inr h)
          simp [this, splitOn_dot, v4Tail, octetOK]
        · obtain ⟨p, ps, hs1, hs2⟩ := splitOn_nondot c r hdot
          have := octetOK_nondigit [] c p hd
          simp at this
          simp [hdot, hs2, v4Tail, this]

theorem parseIPv4Fields_eq_spec (s : Bytes) : (parseIPv4Fields s).isSome = v4Spec s := by
  unfold parseIPv4Fields v4Spec
  rw [(v4aux_inv s).2 true false 0 [] (Or.inl rfl) (Or.inr (by omega)) (by omega)]
  cases splitOn 46 s <;> simp [v4Tail]

/-- golibs `isValidIPv4String` accepts exactly what `netip.parseIPv4Fields` accepts -/
theorem isValidIPv4String_eq (s : Bytes) :
    isValidIPv4String s = .ok ((parseIPv4Fields s).isSome) := by
  rw [isValidIPv4String_eq_spec, parseIPv4Fields_eq_spec]

/-- a successful `parseIPv4Fields` writes exactly four bytes -/
theorem v4aux_len (rest : Bytes) (first prevDot : Bool) (val pos digLen : Nat) (fields f : List Nat)
    (h : parseIPv4FieldsAux rest first prevDot val pos digLen fields = some f) (hpos : pos ≤ 3) :
    f.length + pos = fields.length + 4 := by
  induction rest generalizing first prevDot val pos digLen fields with
  | nil =>
    unfold parseIPv4FieldsAux at h
    by_cases hp : pos < 3
    · simp [hp] at h
    · simp [hp] at h; subst h; simp; omega
  | cons c r ih =>
    unfold parseIPv4FieldsAux at h
    by_cases hd : isDigit c = true
    · simp only [hd, if_true] at h
      by_cases hz : digLen = 1 ∧ val = 0
      · simp [hz] at h
      · simp only [hz, if_false] at h
        by_cases hv : val * 10 + (c - 48) > 255
        · simp [hv] at h
        · simp only [hv, if_false] at h
          exact ih _ _ _ _ _ _ h hpos
    · simp only [hd] at h
      by_cases hdot : c = 46
      · simp only [hdot, if_true] at h
        by_cases h1 : first = true ∨ r = [] ∨ prevDot = true
        · simp [h1] at h
        · simp only [h1, if_false] at h
          by_cases h3 : pos = 3
          · simp [h3] at h
          · simp only [h3, if_false] at h
            have := ih _ _ _ _ _ _ h (by omega)
            simp at this; omega
      · simp [hdot] at h

theorem parseIPv4Fields_len (s : Bytes) (f : List Nat) (h : parseIPv4Fields s = some f) :
    f.length = 4 := by
  have := v4aux_len s true false 0 0 0 [] f h (by omega)
  simpa using this

/-- `parseIPv4Fields` accepts only digits and dots -/
theorem v4aux_chars (rest : Bytes) (first prevDot : Bool) (val pos digLen : Nat) (fields : List Nat)
    (h : (parseIPv4FieldsAux rest first prevDot val pos digLen fields).isSome = true) :
    ∀ c ∈ rest, isDigit c = true ∨ c = 46 := by
  induction rest generalizing first prevDot val pos digLen fields with
  | nil => simp
  | cons c r ih =>
    unfold parseIPv4FieldsAux at h
    by_cases hd : isDigit c = true
    · simp only [hd, if_true] at h
      by_cases hz : digLen = 1 ∧ val = 0
      · simp [hz] at h
      · simp only [hz, if_false] at h
        by_cases hv : val * 10 + (c - 48) > 255
        · simp [hv] at h
        · simp only [hv, if_false] at h
          intro x hx
          rcases List.mem_cons.1 hx with rfl | hx
          · exact Or.inl hd
          · exact ih _ _ _ _ _ _ h x hx
    · simp only [hd] at h
      by_cases hdot : c = 46
      · simp only [hdot, if_true] at h
        by_cases h1 : first = true ∨ r = [] ∨ prevDot = true
        · simp [h1] at h
        · simp only [h1, if_false] at h
          by_cases h3 : pos = 3
          · simp [h3] at h
          · simp only [h3, if_false] at h
            intro x hx
            rcases List.mem_cons.1 hx with rfl | hx
            · exact Or.inr hdot
            · exact ih _ _ _ _ _ _ h x hx
      · simp [hdot] at h

theorem parseIPv4Fields_chars (s : Bytes) (h : (parseIPv4Fields s).isSome = true) :
    ∀ c ∈ s, isDigit c = true ∨ c = 46 :=
  v4aux_chars s true false 0 0 0 [] h

end GolibsVerif.C02
