/-
C05 helper lemmas, part 5: every prefix the reference decoder can produce has all host bits
zero (`Masked`).
-/
import GolibsVerif.Lemmas.C05Top

namespace GolibsVerif.C05
open GolibsVerif.Netutil GolibsVerif.Str GolibsVerif.Netip GolibsVerif

theorem getD_range_map (n : Nat) (f : Nat → Nat) (i : Nat) :
    ((List.range n).map f).getD i 0 = if i < n then f i else 0 := by
  by_cases h : i < n
  · simp [List.getD_eq_getElem?_getD, h]
  · simp [List.getD_eq_getElem?_getD, h]

theorem getD_le_of_all (l : List Nat) (k i : Nat) (h : ∀ v ∈ l, v ≤ k) : l.getD i 0 ≤ k := by
  rw [List.getD_eq_getElem?_getD]
  cases hi : l[i]? with
  | none => simp
  | some v => simpa using h v (List.mem_of_getElem? hi)

theorem getD_zero_of_ge (l : List Nat) (i : Nat) (h : l.length ≤ i) : l.getD i 0 = 0 := by
  simp [List.getD_eq_getElem?_getD, List.getElem?_eq_none h]

theorem masked_v4Prefix (os : List Nat) (hl : os.length ≤ 4) (hv : ∀ v ∈ os, v ≤ 255) :
    Masked (v4Prefix os) := by
  refine ⟨Or.inl ⟨_, rfl, by simp, by simp [v4Prefix]; omega, by simp [v4Prefix]⟩, ?_, ?_⟩
  · intro x hx
    simp only [v4Prefix, addrBytes, List.mem_map] at hx
    obtain ⟨i, _, rfl⟩ := hx
    have := getD_le_of_all os 255 i hv
    omega
  · intro j hj
    simp only [v4Prefix, addrBytes, bitAt, getD_range_map] at hj ⊢
    split
    · rw [getD_zero_of_ge os (j / 8) (by omega)]; simp
    · simp

theorem masked_v6Prefix (ns : List Nat) (hl : ns.length ≤ 32) (hv : ∀ v ∈ ns, v < 16) :
    Masked (v6Prefix ns) := by
  refine ⟨Or.inr ⟨_, rfl, by simp, by simp [v6Prefix]; omega, by simp [v6Prefix]⟩, ?_, ?_⟩
  · intro x hx
    simp only [v6Prefix, addrBytes, List.mem_map] at hx
    obtain ⟨i, _, rfl⟩ := hx
    have h1 := getD_le_of_all ns 15 (2 * i) (fun v h => by have := hv v h; omega)
    have h2 := getD_le_of_all ns 15 (2 * i + 1) (fun v h => by have := hv v h; omega)
    omega
  · intro j hj
    simp only [v6Prefix, addrBytes, bitAt, getD_range_map] at hj ⊢
    split
    · by_cases hge : ns.length ≤ 2 * (j / 8)
      · rw [getD_zero_of_ge ns _ hge, getD_zero_of_ge ns _ (by omega)]; simp
      · -- odd number of nibbles, the bit is in the low nibble of the last byte
        rw [getD_zero_of_ge ns (2 * (j / 8) + 1) (by omega)]
        have hhi := getD_le_of_all ns 15 (2 * (j / 8)) (fun v h => by have := hv v h; omega)
        have hm : 4 ≤ j % 8 := by omega
        generalize ns.getD (2 * (j / 8)) 0 = hi at hhi
        have hk : 7 - j % 8 = 0 ∨ 7 - j % 8 = 1 ∨ 7 - j % 8 = 2 ∨ 7 - j % 8 = 3 := by omega
        rcases hk with hk | hk | hk | hk <;> rw [hk] <;> simp <;> omega
    · simp

end GolibsVerif.C05
