/-
C20 — helper lemmas: the pool discipline (`PoolInv`) and how it is kept by `Get`, `Put`,
drop, and by steps that do not touch the pool.
-/
import GolibsVerif.Model.C20

namespace GolibsVerif.C20

@[simp] theorem upd_same {α : Type} (f : Nat → α) (i : Nat) (v : α) : upd f i v i = v := by
  simp [upd]

theorem upd_other {α : Type} (f : Nat → α) {i j : Nat} (v : α) (h : j ≠ i) : upd f i v j = f j := by
  simp [upd, h]

theorem upd_self_eq {α : Type} (f : Nat → α) (i : Nat) (v : α) (h : f i = v) : upd f i v = f := by
  funext j
  unfold upd
  split
  · next hj => rw [hj, h]
  · rfl

/-- The discipline of one pool with respect to the derived ownership map. -/
structure PoolInv (p : Pool) (own : Rid → Option Obj) : Prop where
  nodup : p.free.Nodup
  free_lt : ∀ o ∈ p.free, o < p.fresh
  own_lt : ∀ i o, own i = some o → o < p.fresh
  own_nfree : ∀ i o, own i = some o → o ∉ p.free
  excl : ∀ i j o, own i = some o → own j = some o → i = j

theorem PoolInv.same {p : Pool} {own : Rid → Option Obj} (h : PoolInv p own) {i : Rid}
    {x : Option Obj} (hx : own i = x) : PoolInv p (upd own i x) := by
  rw [upd_self_eq own i x hx]; exact h

theorem PoolInv.get {p p' : Pool} {own : Rid → Option Obj} (h : PoolInv p own) {i : Rid} {o : Obj}
    {b : Bool} (hi : own i = none) (hg : p.get o = some (p', b)) :
    PoolInv p' (upd own i (some o)) := by
  unfold Pool.get at hg
  by_cases hmem : o ∈ p.free
  · simp [hmem] at hg
    obtain ⟨hp, -⟩ := hg
    subst hp
    refine ⟨h.nodup.erase o, ?_, ?_, ?_, ?_⟩
    · intro o' ho'
      exact h.free_lt o' (List.mem_of_mem_erase ho')
    · intro j o' hj
      by_cases hji : j = i
      · subst hji; simp at hj; subst hj; exact h.free_lt _ hmem
      · rw [upd_other _ _ hji] at hj; exact h.own_lt j o' hj
    · intro j o' hj
      by_cases hji : j = i
      · subst hji; simp at hj; subst hj
        simp only
        exact fun hc => (List.Nodup.mem_erase_iff h.nodup).1 hc |>.1 rfl
      · rw [upd_other _ _ hji] at hj
        simp only
        exact fun hc => h.own_nfree j o' hj (List.mem_of_mem_erase hc)
    · intro j k o' hj hk
      by_cases hji : j = i <;> by_cases hki : k = i
      · rw [hji, hki]
      · subst hji; simp at hj; subst hj
        rw [upd_other _ _ hki] at hk
        exact absurd hmem (h.own_nfree k _ hk)
      · subst hki; simp at hk; subst hk
        rw [upd_other _ _ hji] at hj
        exact absurd hmem (h.own_nfree j _ hj)
      · rw [upd_other _ _ hji] at hj; rw [upd_other _ _ hki] at hk
        exact h.excl j k o' hj hk
  · simp [hmem] at hg
    obtain ⟨ho, hp, -⟩ := hg
    subst hp
    subst ho
    refine ⟨h.nodup, ?_, ?_, ?_, ?_⟩
    · intro o' ho'
      exact Nat.lt_succ_of_lt (h.free_lt o' ho')
    · intro j o' hj
      by_cases hji : j = i
      · subst hji; simp at hj; subst hj; simp
      · rw [upd_other _ _ hji] at hj
        exact Nat.lt_succ_of_lt (h.own_lt j o' hj)
    · intro j o' hj
      by_cases hji : j = i
      · subst hji; simp at hj; subst hj; exact hmem
      · rw [upd_other _ _ hji] at hj; exact h.own_nfree j o' hj
    · intro j k o' hj hk
      by_cases hji : j = i <;> by_cases hki : k = i
      · rw [hji, hki]
      · subst hji; simp at hj; subst hj
        rw [upd_other _ _ hki] at hk
        exact absurd (h.own_lt k _ hk) (Nat.lt_irrefl _)
      · subst hki; simp at hk; subst hk
        rw [upd_other _ _ hji] at hj
        exact absurd (h.own_lt j _ hj) (Nat.lt_irrefl _)
      · rw [upd_other _ _ hji] at hj; rw [upd_other _ _ hki] at hk
        exact h.excl j k o' hj hk

theorem PoolInv.put {p : Pool} {own : Rid → Option Obj} (h : PoolInv p own) {i : Rid} {o : Obj}
    (hi : own i = some o) : PoolInv (p.put o) (upd own i none) := by
  unfold Pool.put
  refine ⟨?_, ?_, ?_, ?_, ?_⟩
  · exact List.nodup_cons.2 ⟨h.own_nfree i o hi, h.nodup⟩
  · intro o' ho'
    simp only [List.mem_cons] at ho'
    rcases ho' with rfl | ho'
    · exact h.own_lt i _ hi
    · exact h.free_lt o' ho'
  · intro j o' hj
    by_cases hji : j = i
    · subst hji; simp at hj
    · rw [upd_other _ _ hji] at hj; exact h.own_lt j o' hj
  · intro j o' hj
    by_cases hji : j = i
    · subst hji; simp at hj
    · rw [upd_other _ _ hji] at hj
      simp only [List.mem_cons, not_or]
      refine ⟨?_, h.own_nfree j o' hj⟩
      intro heq
      subst heq
      exact hji (h.excl j i _ hj hi)
  · intro j k o' hj hk
    by_cases hji : j = i
    · subst hji; simp at hj
    · by_cases hki : k = i
      · subst hki; simp at hk
      · rw [upd_other _ _ hji] at hj; rw [upd_other _ _ hki] at hk
        exact h.excl j k o' hj hk

theorem PoolInv.leak {p : Pool} {own : Rid → Option Obj} (h : PoolInv p own) (i : Rid) :
    PoolInv p (upd own i none) := by
  refine ⟨h.nodup, h.free_lt, ?_, ?_, ?_⟩
  · intro j o' hj
    by_cases hji : j = i
    · subst hji; simp at hj
    · rw [upd_other _ _ hji] at hj; exact h.own_lt j o' hj
  · intro j o' hj
    by_cases hji : j = i
    · subst hji; simp at hj
    · rw [upd_other _ _ hji] at hj; exact h.own_nfree j o' hj
  · intro j k o' hj hk
    by_cases hji : j = i
    · subst hji; simp at hj
    · by_cases hki : k = i
      · subst hki; simp at hk
      · rw [upd_other _ _ hji] at hj; rw [upd_other _ _ hki] at hk
        exact h.excl j k o' hj hk

theorem PoolInv.drop {p p' : Pool} {own : Rid → Option Obj} (h : PoolInv p own) {o : Obj}
    (hd : p.drop o = some p') : PoolInv p' own := by
  unfold Pool.drop at hd
  by_cases hmem : o ∈ p.free
  · simp [hmem] at hd
    subst hd
    exact ⟨h.nodup.erase o, fun o' ho' => h.free_lt o' (List.mem_of_mem_erase ho'), h.own_lt,
      fun j o' hj hc => h.own_nfree j o' hj (List.mem_of_mem_erase hc), h.excl⟩
  · simp [hmem] at hd

theorem ownedA_upd (th : Rid → Thread) (i : Rid) (t : Thread) :
    ownedA (upd th i t) = upd (ownedA th) i (if holdsA t.pc then some t.a else none) := by
  funext j; unfold ownedA upd; split <;> rfl

theorem ownedQ_upd (th : Rid → Thread) (i : Rid) (t : Thread) :
    ownedQ (upd th i t) = upd (ownedQ th) i (if holdsQ t.pc then some t.q else none) := by
  funext j; unfold ownedQ upd; split <;> rfl

theorem ownedW_upd (th : Rid → Thread) (i : Rid) (t : Thread) :
    ownedW (upd th i t) = upd (ownedW th) i (if holdsW t.pc then some t.w else none) := by
  funext j; unfold ownedW upd; split <;> rfl

end GolibsVerif.C20
