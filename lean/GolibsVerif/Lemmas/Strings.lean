/- Lemmas about the `strings` models. -/
import GolibsVerif.Go.Strings

namespace GolibsVerif.Str

theorem splitOn_ne_nil (c : Nat) (s : Bytes) : splitOn c s ≠ [] := by
  induction s with
  | nil => simp [splitOn]
  | cons b rest ih =>
    unfold splitOn
    split
    · simp
    · split
      · simp
      · simp

/-- The Go loop `label, tail, found := strings.Cut(s, "."); for ; found; label, tail, found =
strings.Cut(tail, ".")` visits exactly the pieces of `splitOn`: one `Cut` peels the first
piece off, and the loop ends with the last piece when the separator is not found. -/
theorem splitOn_cut (c : Nat) (s : Bytes) :
    splitOn c s =
      match cut c s with
      | (before, after, true) => before :: splitOn c after
      | (before, _, false) => [before] := by
  induction s with
  | nil => simp [splitOn, cut]
  | cons b rest ih =>
    rw [splitOn, cut]
    by_cases h : b = c
    · simp [h]
    · simp only [h, if_false]
      rw [ih]
      rcases hc : cut c rest with ⟨before, after, found⟩
      cases found <;> simp

/-- joining the pieces back with the separator gives the string -/
theorem join_splitOn (c : Nat) (s : Bytes) : [c].intercalate (splitOn c s) = s := by
  induction s with
  | nil => simp [splitOn]
  | cons b rest ih =>
    unfold splitOn
    by_cases h : b = c
    · subst h
      simp only [if_true]
      have hne := splitOn_ne_nil b rest
      cases hs : splitOn b rest with
      | nil => exact absurd hs hne
      | cons p ps => rw [hs] at ih; simp [List.intercalate_cons_cons, ih]
    · simp only [h, if_false]
      have hne := splitOn_ne_nil c rest
      cases hs : splitOn c rest with
      | nil => exact absurd hs hne
      | cons p ps =>
        rw [hs] at ih
        cases ps with
        | nil => simp at ih ⊢; exact ih
        | cons q qs => simp [List.intercalate_cons_cons] at ih ⊢; exact ih

end GolibsVerif.Str
