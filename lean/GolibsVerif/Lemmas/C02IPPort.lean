import GolibsVerif.Lemmas.C02IPAddr

/-! C02: `IsValidIPPortString` vs `netip.ParseAddrPort`. -/
namespace GolibsVerif.C02
open GolibsVerif.Netutil GolibsVerif.Str GolibsVerif.Netip GolibsVerif

/-- the part of `ParseAddrPort` after the split at the last colon (copy of the model text,
tied by `rfl`) -/
def portTail (ip port : Bytes) : Option (Addr × Nat) :=
  if ip = [] ∨ port = [] then none
  else
    let r : Option (Bytes × Bool) :=
      if ip.head? = some 91 then
        if ip.length < 2 ∨ ip.getLast? ≠ some 93 then none
        else some ((ip.drop 1).dropLast, true)
      else some (ip, false)
    match r with
    | none => none
    | some (ip, v6) =>
      match parseUintDec port 65535 with
      | none => none
      | some p =>
        match parseAddr ip with
        | none => none
        | some a =>
          if v6 ∧ a.is4 then none
          else if ¬ v6 ∧ a.is6 then none
          else some (a, p)

theorem parseAddrPort_eq_tail (s : Bytes) :
    parseAddrPort s =
      if lastIndexByte s 58 = -1 then none
      else portTail (s.take (lastIndexByte s 58).toNat) (s.drop ((lastIndexByte s 58).toNat + 1)) := rfl

theorem parseAddrPort_split (a b : Bytes) (hb : 58 ∉ b) :
    parseAddrPort (a ++ 58 :: b) = portTail a b := by
  rw [parseAddrPort_eq_tail, lastIndexByte_append_sep 58 a b hb]
  have h1 : ¬ ((a.length : Int) = -1) := by omega
  have h2 : (a ++ 58 :: b).drop ((a.length : Int).toNat + 1) = b := by
    simp only [Int.toNat_natCast]
    rw [show a ++ 58 :: b = (a ++ [58]) ++ b by simp]
    rw [show a.length + 1 = (a ++ [58]).length by simp]
    exact List.drop_left
  have h3 : (a ++ 58 :: b).take ((a.length : Int).toNat) = a := by simp
  simp only [h1, if_false, h2, h3]

/-- `splitAddrPort` after the split at the last colon -/
def splitTail (ip port : Bytes) : GoM (Option (Bytes × Bytes)) := do
  if ip = [] ∨ port = [] then return none
  if containsByte ip 58 then
    if !hasPrefix ip [91] || !hasSuffix ip [93] then return none
    let ip' ← GoM.slice ip 1 ((ip.length : Int) - 1)
    return some (ip', port)
  return some (ip, port)

theorem sliceTo_append_len (a b : Bytes) : GoM.sliceTo (a ++ b) (a.length : Int) = .ok a := by
  unfold GoM.sliceTo
  have := GoM.slice_ofNat (a ++ b) 0 a.length (by omega) (by simp)
  simp only [Int.natCast_zero] at this
  rw [this]; simp

theorem splitAddrPort_split (a b : Bytes) (hb : 58 ∉ b) :
    splitAddrPort (a ++ 58 :: b) = splitTail a b := by
  unfold splitAddrPort splitTail
  rw [lastIndexByte_append_sep 58 a b hb]
  have h1 : ¬ ((a.length : Int) = -1) := by omega
  have h2 : GoM.sliceFrom (a ++ 58 :: b) ((a.length : Int) + 1) = .ok b := by
    have := sliceFrom_append_len (a ++ [58]) b
    simpa using this
  simp only [h1, if_false, sliceTo_append_len, h2, bind, Except.bind, pure, Except.pure]

theorem splitAddrPort_nocolon (s : Bytes) (h : 58 ∉ s) : splitAddrPort s = .ok none := by
  simp [splitAddrPort, lastIndexByte_not_mem 58 s h, pure, Except.pure]

theorem hasPrefix_one (a : Bytes) (x : Nat) : hasPrefix a [x] = true ↔ a.head? = some x := by
  cases a with
  | nil => simp [hasPrefix]
  | cons y t => simp [hasPrefix, List.isPrefixOf]; exact eq_comm

theorem hasSuffix_one (a : Bytes) (z : Nat) : hasSuffix a [z] = true ↔ a.getLast? = some z := by
  unfold hasSuffix List.isSuffixOf
  rw [List.getLast?_eq_head?_reverse]
  cases a.reverse with
  | nil => simp
  | cons y t => simp [List.isPrefixOf]; exact eq_comm

theorem bracket_form (a : Bytes) (h1 : a.head? = some 91) (h2 : a.getLast? = some 93) :
    ∃ mid, a = 91 :: (mid ++ [93]) := by
  match a with
  | [] => simp at h1
  | [x] => simp at h1 h2; omega
  | x :: y :: t =>
    obtain ⟨mid, z, h⟩ := GoM.exists_cons_snoc x y t
    rw [h] at h1 h2 ⊢
    simp at h1
    have : (x :: (mid ++ [z])).getLast? = some z := by
      rw [show x :: (mid ++ [z]) = (x :: mid) ++ [z] from rfl, List.getLast?_append]; simp
    rw [this] at h2
    simp at h2
    exact ⟨mid, by rw [h1, h2]⟩

theorem bracket_facts (mid : Bytes) :
    (91 :: (mid ++ [93])).head? = some 91 ∧ (91 :: (mid ++ [93])).getLast? = some 93 ∧
    ((91 :: (mid ++ [93])).drop 1).dropLast = mid ∧ ¬ (91 :: (mid ++ [93])).length < 2 := by
  refine ⟨rfl, ?_, by simp, by simp⟩
  rw [show 91 :: (mid ++ [93]) = (91 :: mid) ++ [93] from rfl, List.getLast?_append]; simp

/-- C02 (4b): `IsValidIPPortString` accepts exactly what `netip.ParseAddrPort` accepts -/
theorem isValidIPPortString_eq (s : Bytes) :
    isValidIPPortString s = .ok ((parseAddrPort s).isSome) := by
  unfold isValidIPPortString
  rcases last_cases 58 s with hs | ⟨a, b, rfl, hb⟩
  · rw [splitAddrPort_nocolon s hs]
    simp [parseAddrPort, lastIndexByte_not_mem 58 s hs, bind, Except.bind, pure, Except.pure]
  · rw [splitAddrPort_split a b hb, parseAddrPort_split a b hb]
    unfold splitTail portTail
    by_cases hab : a = [] ∨ b = []
    · simp [hab, bind, Except.bind, pure, Except.pure]
    · simp only [hab, if_false, bind, Except.bind, pure, Except.pure]
      have hbne : b ≠ [] := fun h => hab (Or.inr h)
      have hport := isUint16_eq b hbne
      by_cases h58 : 58 ∈ a
      · have hc : containsByte a 58 = true := by simp [containsByte, h58]
        simp only [hc, if_true]
        by_cases hbr : a.head? = some 91 ∧ a.getLast? = some 93
        · obtain ⟨mid, rfl⟩ := bracket_form a hbr.1 hbr.2
          obtain ⟨f1, f2, f3, f4⟩ := bracket_facts mid
          have hp : hasPrefix (91 :: (mid ++ [93])) [91] = true := (hasPrefix_one _ _).2 f1
          have hsf : hasSuffix (91 :: (mid ++ [93])) [93] = true := (hasSuffix_one _ _).2 f2
          have h58m : 58 ∈ mid := by
            simp at h58; exact h58
          simp only [hp, hsf, Bool.not_true, Bool.or_false, Bool.false_eq_true, if_false,
            GoM.slice_mid_snoc, f1, if_true, f2, f3, f4, ne_eq, not_true_eq_false, or_false]
          rw [hport, isValidIPString_eq]
          cases hpu : parseUintDec b 65535 with
          | none => simp
          | some p =>
            cases hpa : parseAddr mid with
            | none => simp
            | some addr =>
              have := parseAddr_colon mid addr hpa h58m
              simp [this]
        · have hg : (!hasPrefix a [91] || !hasSuffix a [93]) = true := by
            cases hp : hasPrefix a [91] with
            | false => simp
            | true =>
              cases hsf : hasSuffix a [93] with
              | false => simp
              | true => exact absurd ⟨(hasPrefix_one _ _).1 hp, (hasSuffix_one _ _).1 hsf⟩ hbr
          simp only [hg, if_true]
          by_cases hh : a.head? = some 91
          · have : a.getLast? ≠ some 93 := fun h => hbr ⟨hh, h⟩
            simp [hh, this]
          · simp only [hh, if_false]
            cases hpu : parseUintDec b 65535 with
            | none => simp
            | some p =>
              cases hpa : parseAddr a with
              | none => simp
              | some addr =>
                have := parseAddr_colon a addr hpa h58
                simp [this]
      · have hc : containsByte a 58 = false := by simp [containsByte, h58]
        simp only [hc, Bool.false_eq_true, if_false]
        rw [hport, isValidIPString_eq]
        by_cases hh : a.head? = some 91
        · rw [parseAddr_bracket a h58 hh]
          simp only [hh, if_true]
          by_cases hbad : a.length < 2 ∨ a.getLast? ≠ some 93
          · cases hpu : parseUintDec b 65535 <;> simp [hbad]
          · simp only [hbad, if_false]
            cases hpu : parseUintDec b 65535 with
            | none => simp
            | some p =>
              cases hpa : parseAddr (a.drop 1).dropLast with
              | none => simp
              | some addr =>
                have hin : 58 ∉ (a.drop 1).dropLast := by
                  intro hm
                  exact h58 (List.mem_of_mem_drop (List.dropLast_subset _ hm))
                have := parseAddr_nocolon _ addr hpa hin
                simp [this]
        · simp only [hh, if_false]
          cases hpu : parseUintDec b 65535 with
          | none => simp
          | some p =>
            cases hpa : parseAddr a with
            | none => simp
            | some addr =>
              have := parseAddr_nocolon a addr hpa h58
              simp [this]

end GolibsVerif.C02
