/-
Lemmas about the checked slice accesses of `Go/Sort.lean` (`at?`, `get`, `swap`) and the
notion every mutation of the sort preserves: `Frame d d' a b` — same length, the same multiset
of elements, nothing changed outside the index range `[a, b)`.
-/
import GolibsVerif.Go.Sort

namespace GolibsVerif.Slices

variable {α : Type}

/-! ### `at?`, `get` -/

theorem at?_eq_some {d : Array α} {i : Int} (h0 : 0 ≤ i) (h1 : i < d.size) :
    ∃ x, at? d i = some x := by
  have : i.toNat < d.size := by omega
  exact ⟨d[i.toNat], by simp [at?, Int.not_lt.mpr h0, this]⟩

theorem at?_bounds {d : Array α} {i : Int} {x : α} (h : at? d i = some x) : 0 ≤ i ∧ i < d.size := by
  unfold at? at h
  split at h
  · cases h
  · have := Array.getElem?_eq_some_iff.mp h
    obtain ⟨hlt, _⟩ := this
    omega

theorem at?_none_of_neg {d : Array α} {i : Int} (h : i < 0) : at? d i = none := by
  simp [at?, h]

theorem at?_none_of_ge {d : Array α} {i : Int} (h : (d.size : Int) ≤ i) : at? d i = none := by
  unfold at?
  split
  · rfl
  · apply Array.getElem?_eq_none; omega

theorem at?_ofNat (d : Array α) (k : Nat) : at? d (k : Int) = d[k]? := by
  have : ¬ ((k : Int) < 0) := by omega
  simp [at?, this]

theorem get_ok {d : Array α} {i : Int} {x : α} (h : at? d i = some x) : get d i = .ok x := by
  simp [get, h]

theorem get_ok_iff {d : Array α} {i : Int} {x : α} : get d i = .ok x ↔ at? d i = some x := by
  unfold get
  cases h : at? d i with
  | none => simp
  | some y => simp

/-! ### `Frame` -/

/-- `d'` is `d` with the elements at the indices `[a, b)` permuted -/
structure Frame (d d' : Array α) (a b : Int) : Prop where
  size : d'.size = d.size
  perm : d'.toList.Perm d.toList
  out : ∀ k : Int, (k < a ∨ b ≤ k) → at? d' k = at? d k

theorem Frame.refl (d : Array α) (a b : Int) : Frame d d a b :=
  ⟨rfl, List.Perm.refl _, fun _ _ => rfl⟩

theorem Frame.trans {d d' d'' : Array α} {a b : Int} (h1 : Frame d d' a b) (h2 : Frame d' d'' a b) :
    Frame d d'' a b :=
  ⟨h2.size.trans h1.size, h2.perm.trans h1.perm, fun k hk => (h2.out k hk).trans (h1.out k hk)⟩

theorem Frame.mono {d d' : Array α} {a b a' b' : Int} (h : Frame d d' a b) (ha : a' ≤ a) (hb : b ≤ b') :
    Frame d d' a' b' :=
  ⟨h.size, h.perm, fun k hk => h.out k (by omega)⟩

/-- a successful `swap` -/
theorem swap_ok {d : Array α} {i j : Int} (hi0 : 0 ≤ i) (hi1 : i < d.size) (hj0 : 0 ≤ j) (hj1 : j < d.size) :
    ∃ d', swap d i j = .ok d' ∧ d'.size = d.size ∧ d'.toList.Perm d.toList ∧
      ∀ k, at? d' k = if k = i then at? d j else if k = j then at? d i else at? d k := by
  have h : 0 ≤ i ∧ i < d.size ∧ 0 ≤ j ∧ j < d.size := ⟨hi0, hi1, hj0, hj1⟩
  have hin : i.toNat < d.size := by omega
  have hjn : j.toNat < d.size := by omega
  refine ⟨d.swap i.toNat j.toNat hin hjn, by simp [swap, h], Array.size_swap, ?_, ?_⟩
  · exact (Array.swap_perm hin hjn).toList
  · intro k
    by_cases hk : k < 0
    · have hki : k ≠ i := by omega
      have hkj : k ≠ j := by omega
      simp [at?, hk, hki, hkj]
    · have hi' : ¬ i < 0 := by omega
      have hj' : ¬ j < 0 := by omega
      simp only [at?, hk, hi', hj', if_false]
      rw [Array.getElem?_swap]
      by_cases h1 : k = i
      · subst h1
        by_cases h2 : j.toNat = k.toNat
        · have : j = k := by omega
          subst this
          simp
        · simp [h2]
      · by_cases h2 : k = j
        · subst h2
          simp [h1]
        · have e1 : ¬ j.toNat = k.toNat := by omega
          have e2 : ¬ i.toNat = k.toNat := by omega
          simp [h1, h2, e1, e2]

/-- a swap inside `[a, b)` -/
theorem swap_frame {d : Array α} {i j a b : Int} (ha : 0 ≤ a) (hb : b ≤ d.size)
    (hi : a ≤ i ∧ i < b) (hj : a ≤ j ∧ j < b) :
    ∃ d', swap d i j = .ok d' ∧ Frame d d' a b ∧
      ∀ k, at? d' k = if k = i then at? d j else if k = j then at? d i else at? d k := by
  obtain ⟨d', h1, h2, h3, h4⟩ := swap_ok (d := d) (i := i) (j := j) (by omega) (by omega) (by omega) (by omega)
  refine ⟨d', h1, ⟨h2, h3, ?_⟩, h4⟩
  intro k hk
  rw [h4]
  have : k ≠ i := by omega
  have : k ≠ j := by omega
  simp [*]

/-! ### the elements of a range are permuted -/

theorem List.mid_perm {l l' : List α} {A B : Nat} (hAB : A ≤ B)
    (hp : l'.Perm l) (hout : ∀ k, (k < A ∨ B ≤ k) → l'[k]? = l[k]?) :
    ((l'.drop A).take (B - A)).Perm ((l.drop A).take (B - A)) := by
  have hlen : l'.length = l.length := hp.length_eq
  have dec : ∀ m : List α, m = m.take A ++ ((m.drop A).take (B - A) ++ m.drop B) := by
    intro m
    have : m.drop B = (m.drop A).drop (B - A) := by
      rw [List.drop_drop]; congr 1; omega
    rw [this, List.take_append_drop, List.take_append_drop]
  have e1 : l'.take A = l.take A := by
    apply List.ext_getElem?
    intro k
    by_cases hk : k < A
    · simp [hk, hout k (Or.inl hk)]
    · simp [List.getElem?_take, hk]
  have e2 : l'.drop B = l.drop B := by
    apply List.ext_getElem?
    intro k
    simp only [List.getElem?_drop]
    exact hout _ (Or.inr (by omega))
  have hp' := hp
  rw [dec l', dec l, e1, e2] at hp'
  exact (List.perm_append_right_iff _).mp ((List.perm_append_left_iff _).mp hp')

/-- a property of all elements in `[a, b)` survives a `Frame … a b` -/
theorem Frame.all {d d' : Array α} {a b : Int} (h : Frame d d' a b) (ha : 0 ≤ a) (P : α → Prop)
    (hP : ∀ k x, a ≤ k → k < b → at? d k = some x → P x) :
    ∀ k x, a ≤ k → k < b → at? d' k = some x → P x := by
  intro k x hak hkb hx
  have hk0 : 0 ≤ k := by omega
  have hmid := List.mid_perm (l := d.toList) (l' := d'.toList) (A := a.toNat) (B := b.toNat) (by omega) h.perm
    (by
      intro n hn
      have := h.out (n : Int) (by omega)
      simpa [at?_ofNat] using this)
  have hkn : at? d' k = d'.toList[k.toNat]? := by
    have : k = (k.toNat : Int) := by omega
    rw [this, at?_ofNat]; simp [← this]
  have hmem : x ∈ (d'.toList.drop a.toNat).take (b.toNat - a.toNat) := by
    rw [List.mem_iff_getElem?]
    refine ⟨k.toNat - a.toNat, ?_⟩
    rw [List.getElem?_take]
    have : k.toNat - a.toNat < b.toNat - a.toNat := by omega
    simp only [this, if_true, List.getElem?_drop]
    have e : a.toNat + (k.toNat - a.toNat) = k.toNat := by omega
    rw [e, ← hkn, hx]
  have hmem2 := hmid.mem_iff.mp hmem
  rw [List.mem_iff_getElem?] at hmem2
  obtain ⟨n, hn⟩ := hmem2
  rw [List.getElem?_take] at hn
  split at hn
  · rename_i hlt
    rw [List.getElem?_drop] at hn
    apply hP ((a.toNat + n : Nat) : Int) x (by omega) (by omega)
    rw [at?_ofNat]
    simpa using hn
  · cases hn

/-! ### order vocabulary -/

/-- `fun a b => cmp a b < 0` is a strict weak order (β-reduced form of `C12.StrictWeakOrder`;
`le_trans` is its negative transitivity) -/
structure WeakCmp (cmp : α → α → Int) : Prop where
  irrefl : ∀ a, ¬ cmp a a < 0
  trans : ∀ a b c, cmp a b < 0 → cmp b c < 0 → cmp a c < 0
  le_trans : ∀ a b c, ¬ cmp b a < 0 → ¬ cmp c b < 0 → ¬ cmp c a < 0

theorem WeakCmp.asymm {cmp : α → α → Int} (hw : WeakCmp cmp) {a b : α} (h : cmp a b < 0) : ¬ cmp b a < 0 :=
  fun h' => hw.irrefl a (hw.trans a b a h h')

/-- `a < b ≤ c → a < c` -/
theorem WeakCmp.lt_of_lt_of_le {cmp : α → α → Int} (hw : WeakCmp cmp) {a b c : α}
    (h1 : cmp a b < 0) (h2 : ¬ cmp c b < 0) : cmp a c < 0 :=
  Classical.byContradiction fun h => hw.le_trans b c a h2 h h1

/-- `a ≤ b < c → a < c` -/
theorem WeakCmp.lt_of_le_of_lt {cmp : α → α → Int} (hw : WeakCmp cmp) {a b c : α}
    (h1 : ¬ cmp b a < 0) (h2 : cmp b c < 0) : cmp a c < 0 :=
  Classical.byContradiction fun h => hw.le_trans c a b h h1 h2

/-- the elements at `[a, b)` are in non-descending order: no later one is less than an earlier one -/
def SortedOn (cmp : α → α → Int) (d : Array α) (a b : Int) : Prop :=
  ∀ p q x y, a ≤ p → p < q → q < b → at? d p = some x → at? d q = some y → ¬ cmp y x < 0

/-- every element at `[a, b)` has the property -/
def AllOn (P : α → Prop) (d : Array α) (a b : Int) : Prop :=
  ∀ k x, a ≤ k → k < b → at? d k = some x → P x

theorem Frame.allOn {d d' : Array α} {a b : Int} (h : Frame d d' a b) (ha : 0 ≤ a) {P : α → Prop}
    (hP : AllOn P d a b) : AllOn P d' a b :=
  h.all ha P hP

theorem Frame.symm {d d' : Array α} {a b : Int} (h : Frame d d' a b) : Frame d' d a b :=
  ⟨h.size.symm, h.perm.symm, fun k hk => (h.out k hk).symm⟩

end GolibsVerif.Slices
