/- C04 helper lemmas, part 3: `netip.ParseAddr` accepts an IPv4 address only in its
canonical dotted-decimal spelling, and parses that spelling back. -/
import GolibsVerif.Lemmas.C04Basic

namespace GolibsVerif.C04
open GolibsVerif.Netutil GolibsVerif.Str GolibsVerif.Netip GolibsVerif.Gen.Consts GolibsVerif

/-! ### `parseAddr` yields an IPv4 address only through `parseIPv4Fields` -/

theorem parseIPv6_is_v6 (s : Bytes) (a : Addr) (h : parseIPv6 s = some a) : ∃ b z, a = .v6 b z := by
  unfold parseIPv6 at h
  simp only at h
  repeat' split at h
  all_goals first
    | (cases h; exact ⟨_, _, rfl⟩)
    | (cases h)

theorem dispatch_v4 (whole : Bytes) (b : List Nat) : ∀ rest : Bytes,
    parseAddrDispatch rest whole = some (.v4 b) → parseIPv4Fields whole = some b := by
  intro rest
  induction rest with
  | nil => intro h; simp [parseAddrDispatch] at h
  | cons c rest ih =>
    intro h
    rw [parseAddrDispatch] at h
    split at h
    · unfold parseIPv4 at h
      cases hf : parseIPv4Fields whole with
      | none => simp [hf] at h
      | some f => simp [hf] at h; rw [h]
    · split at h
      · obtain ⟨b', z, hb⟩ := parseIPv6_is_v6 whole _ h
        cases hb
      · split at h
        · cases h
        · exact ih h

/-- an IPv4 result of `netip.ParseAddr` was produced by `parseIPv4Fields` on the whole
string (a string with a `':'` before any `'.'` can only give IPv6) -/
theorem parseAddr_v4 (s : Bytes) (b : List Nat) (h : parseAddr s = some (.v4 b)) :
    parseIPv4Fields s = some b := dispatch_v4 s b s h

/-! ### `parseIPv4Fields` accepts only the canonical spelling -/

theorem isDigit_iff (c : Nat) : isDigit c = true ↔ 48 ≤ c ∧ c ≤ 57 := by
  simp [isDigit]

/-- invariant of the field scanner: `cur` is the part of the current field already
consumed; either nothing of it has been read (we are at the start or just after a dot, and
something must follow), or it is the canonical numeral of `val` -/
theorem aux_canon : ∀ (s : Bytes) (first prevDot : Bool) (val pos digLen : Nat)
    (fields out : List Nat) (cur : Bytes), pos ≤ 3 →
    ((cur = [] ∧ digLen = 0 ∧ val = 0 ∧ (first = true ∨ prevDot = true) ∧ (s ≠ [] ∨ pos < 3)) ∨
     (cur = dec val ∧ digLen = cur.length ∧ val ≤ 255 ∧ first = false ∧ prevDot = false)) →
    parseIPv4FieldsAux s first prevDot val pos digLen fields = some out →
    ∃ more, out = fields ++ more ∧ more.length = 4 - pos ∧ (∀ x ∈ more, x < 256) ∧
      cur ++ s = joinDot (more.map dec) := by
  intro s
  induction s with
  | nil =>
    intro first prevDot val pos digLen fields out cur hpos hinv h
    rw [parseIPv4FieldsAux] at h
    split at h
    · cases h
    · rename_i hp
      cases h
      rcases hinv with ⟨_, _, _, _, hs⟩ | ⟨hcur, _, hval, _, _⟩
      · rcases hs with hs | hs
        · exact absurd rfl hs
        · exact absurd hs hp
      · refine ⟨[val], rfl, by simp; omega, by simp; omega, by simp [joinDot, hcur]⟩
  | cons c rest ih =>
    intro first prevDot val pos digLen fields out cur hpos hinv h
    rw [parseIPv4FieldsAux] at h
    split at h
    · -- a digit
      rename_i hdig
      have hd := (isDigit_iff c).1 hdig
      split at h
      · cases h
      · rename_i hlz
        simp only at h
        split at h
        · cases h
        · rename_i hle
          rcases hinv with ⟨hcur, hdl, hval, _, _⟩ | ⟨hcur, hdl, hval, _, _⟩
          · subst hcur hdl hval
            obtain ⟨more, h1, h2, h3, h4⟩ := ih false false _ pos _ fields out [c] hpos
              (Or.inr ⟨by rw [dec_lt10 _ (by omega)]; congr 1; omega, rfl, by omega, rfl, rfl⟩) h
            exact ⟨more, h1, h2, h3, by simpa using h4⟩
          · have hv1 : 1 ≤ val := by
              rcases Nat.eq_zero_or_pos val with h0 | h0
              · subst h0
                exfalso; apply hlz
                rw [hdl, hcur, dec_lt10 0 (by omega)]; simp
              · exact h0
            obtain ⟨more, h1, h2, h3, h4⟩ := ih false false _ pos _ fields out (cur ++ [c]) hpos
              (Or.inr ⟨by
                  rw [dec_push val (c - 48) hv1 (by omega), hcur]
                  congr 2; omega,
                by simp [hdl], by omega, rfl, rfl⟩) h
            exact ⟨more, h1, h2, h3, by simpa using h4⟩
    · split at h
      · -- a dot
        rename_i hc
        subst hc
        split at h
        · cases h
        · rename_i hcond
          split at h
          · cases h
          · rename_i hp3
            have hfirst : first = false := by
              cases first
              · rfl
              · exact absurd (Or.inl rfl) hcond
            have hprev : prevDot = false := by
              cases prevDot
              · rfl
              · exact absurd (Or.inr (Or.inr rfl)) hcond
            have hrest : rest ≠ [] := fun hr => hcond (Or.inr (Or.inl hr))
            rcases hinv with ⟨_, _, _, hfp, _⟩ | ⟨hcur, hdl, hval, _, _⟩
            · rcases hfp with hfp | hfp
              · rw [hfirst] at hfp; cases hfp
              · rw [hprev] at hfp; cases hfp
            · obtain ⟨more, h1, h2, h3, h4⟩ := ih false true 0 (pos + 1) 0 (fields ++ [val]) out []
                (by omega) (Or.inl ⟨rfl, rfl, rfl, Or.inr rfl, Or.inl hrest⟩) h
              refine ⟨val :: more, by rw [h1]; simp, by simp [h2]; omega, ?_, ?_⟩
              · intro x hx
                simp only [List.mem_cons] at hx
                rcases hx with rfl | hx
                · omega
                · exact h3 x hx
              · cases more with
                | nil => simp at h2; omega
                | cons m ms =>
                  simp only [List.nil_append] at h4
                  simp only [List.map_cons, joinDot_cons_cons, hcur] at h4 ⊢
                  rw [h4]
      · cases h

/-- `parseIPv4Fields` accepts nothing but the canonical dotted-decimal spelling of the four
octets it returns -/
theorem fields_canon (t : Bytes) (fs : List Nat) (h : parseIPv4Fields t = some fs) :
    fs.length = 4 ∧ (∀ x ∈ fs, x < 256) ∧ t = joinDot (fs.map dec) := by
  obtain ⟨more, h1, h2, h3, h4⟩ := aux_canon t true false 0 0 0 [] fs [] (by omega)
    (Or.inl ⟨rfl, rfl, rfl, Or.inl rfl, Or.inr (by omega)⟩) h
  simp only [List.nil_append] at h1 h4
  subst h1
  exact ⟨h2, h3, h4⟩

/-! ### … and parses it back -/

theorem aux_digit (d : Nat) (hd : d < 10) (rest : Bytes) (first prevDot : Bool)
    (val pos digLen : Nat) (fields : List Nat)
    (h1 : ¬ (digLen = 1 ∧ val = 0)) (h2 : val * 10 + d ≤ 255) :
    parseIPv4FieldsAux ((48 + d) :: rest) first prevDot val pos digLen fields =
      parseIPv4FieldsAux rest false false (val * 10 + d) pos (digLen + 1) fields := by
  rw [parseIPv4FieldsAux]
  have hdig : isDigit (48 + d) = true := (isDigit_iff _).2 ⟨by omega, by omega⟩
  have e : 48 + d - 48 = d := by omega
  have h2' : ¬ (val * 10 + d > 255) := by omega
  simp only [hdig, if_true, h1, if_false, e, h2']

/-- scanning one canonical numeral from a fresh field state -/
theorem aux_field (x : Nat) (hx : x < 256) (rest : Bytes) (first prevDot : Bool) (pos : Nat)
    (fields : List Nat) :
    ∃ dl, parseIPv4FieldsAux (dec x ++ rest) first prevDot 0 pos 0 fields =
      parseIPv4FieldsAux rest false false x pos dl fields := by
  rw [← itoa_eq_dec x (by omega)]
  unfold itoa
  by_cases h1 : x < 10
  · simp only [h1, if_true, List.cons_append, List.nil_append]
    refine ⟨1, ?_⟩
    rw [aux_digit x h1 _ _ _ _ _ _ _ (by omega) (by omega)]
    simp
  · by_cases h2 : x < 100
    · simp only [h1, h2, if_true, if_false, List.cons_append, List.nil_append]
      refine ⟨2, ?_⟩
      rw [aux_digit (x / 10) (by omega) _ _ _ _ _ _ _ (by omega) (by omega)]
      rw [aux_digit (x % 10) (by omega) _ _ _ _ _ _ _ (by omega) (by omega)]
      have : (0 * 10 + x / 10) * 10 + x % 10 = x := by omega
      rw [this]
    · simp only [h1, h2, if_false, List.cons_append, List.nil_append]
      refine ⟨3, ?_⟩
      rw [aux_digit (x / 100) (by omega) _ _ _ _ _ _ _ (by omega) (by omega)]
      rw [aux_digit (x / 10 % 10) (by omega) _ _ _ _ _ _ _ (by omega) (by omega)]
      rw [aux_digit (x % 10) (by omega) _ _ _ _ _ _ _ (by omega) (by omega)]
      have : ((0 * 10 + x / 100) * 10 + x / 10 % 10) * 10 + x % 10 = x := by omega
      rw [this]

theorem aux_dot (rest : Bytes) (hrest : rest ≠ []) (v pos dl : Nat) (hpos : pos ≠ 3)
    (fields : List Nat) :
    parseIPv4FieldsAux (46 :: rest) false false v pos dl fields =
      parseIPv4FieldsAux rest false true 0 (pos + 1) 0 (fields ++ [v]) := by
  rw [parseIPv4FieldsAux]
  have hnd : isDigit 46 = false := by decide
  simp [hnd, hrest, hpos]

theorem dec_append_ne_nil (x : Nat) (r : Bytes) : dec x ++ r ≠ [] := by
  intro h
  exact dec_ne_nil x (List.append_eq_nil_iff.1 h).1

/-- the canonical dotted-decimal spelling parses to its four octets -/
theorem fields_roundtrip (x0 x1 x2 x3 : Nat) (h0 : x0 < 256) (h1 : x1 < 256) (h2 : x2 < 256)
    (h3 : x3 < 256) :
    parseIPv4Fields (joinDot ([x0, x1, x2, x3].map dec)) = some [x0, x1, x2, x3] := by
  simp only [List.map_cons, List.map_nil, joinDot_cons_cons, joinDot]
  unfold parseIPv4Fields
  obtain ⟨d0, e0⟩ := aux_field x0 h0 (46 :: (dec x1 ++ 46 :: (dec x2 ++ 46 :: dec x3))) true false 0 []
  rw [e0, aux_dot _ (dec_append_ne_nil _ _) _ _ _ (by omega)]
  obtain ⟨d1, e1⟩ := aux_field x1 h1 (46 :: (dec x2 ++ 46 :: dec x3)) false true 1 ([] ++ [x0])
  rw [e1, aux_dot _ (dec_append_ne_nil _ _) _ _ _ (by omega)]
  obtain ⟨d2, e2⟩ := aux_field x2 h2 (46 :: dec x3) false true 2 ([] ++ [x0] ++ [x1])
  rw [e2, aux_dot _ (dec_ne_nil _) _ _ _ (by omega)]
  obtain ⟨d3, e3⟩ := aux_field x3 h3 [] false true 3 ([] ++ [x0] ++ [x1] ++ [x2])
  rw [List.append_nil] at e3
  rw [e3, parseIPv4FieldsAux]
  simp

theorem dispatch_digits (whole r : Bytes) : ∀ l : Bytes, (∀ c ∈ l, 48 ≤ c ∧ c ≤ 57) →
    parseAddrDispatch (l ++ 46 :: r) whole = parseIPv4 whole := by
  intro l
  induction l with
  | nil => intro _; simp [parseAddrDispatch]
  | cons c l ih =>
    intro hl
    have hc := hl c (by simp)
    have h1 : c ≠ 46 := by omega
    have h2 : c ≠ 58 := by omega
    have h3 : c ≠ 37 := by omega
    simp only [List.cons_append]
    rw [parseAddrDispatch]
    simp only [h1, h2, h3, if_false]
    exact ih (fun x hx => hl x (by simp [hx]))

theorem parseAddr_roundtrip (x0 x1 x2 x3 : Nat) (h0 : x0 < 256) (h1 : x1 < 256) (h2 : x2 < 256)
    (h3 : x3 < 256) :
    parseAddr (joinDot ([x0, x1, x2, x3].map dec)) = some (.v4 [x0, x1, x2, x3]) := by
  have hf := fields_roundtrip x0 x1 x2 x3 h0 h1 h2 h3
  unfold parseAddr
  have : joinDot ([x0, x1, x2, x3].map dec) = dec x0 ++ 46 :: (dec x1 ++ 46 :: (dec x2 ++ 46 :: dec x3)) := by
    simp only [List.map_cons, List.map_nil, joinDot_cons_cons, joinDot]
  rw [this] at hf ⊢
  rw [dispatch_digits _ _ (dec x0) (dec_digits x0)]
  unfold parseIPv4
  rw [hf]; rfl

end GolibsVerif.C04
