/-
C05 helper lemmas, part 4: the common prologue, `PrefixFromReversedAddr` after the prologue,
the two right-to-left label scans of `ExtractReversedAddr`, and `ExtractReversedAddr` after
the prologue, against the reference decoder.
-/
import GolibsVerif.Lemmas.C05V6
import GolibsVerif.Theorems.C03

namespace GolibsVerif.C05
open GolibsVerif.Netutil GolibsVerif.Str GolibsVerif.Netip GolibsVerif GolibsVerif.Gen.Consts

/-! ### prologue -/

theorem prologue_cases (toASCII : Bytes → Option Bytes) (s : Bytes) :
    (validateDomainName toASCII (trimSuffix s [46]) = .ok none ∧
      arpaPrologue toASCII s = .ok (.ok (trimSuffix s [46]))) ∨
    (validateDomainName toASCII (trimSuffix s [46]) ≠ .ok none ∧
      ∃ e, arpaPrologue toASCII s = .ok (.error e)) := by
  obtain ⟨r, hr⟩ := (C03.validators_total toASCII (trimSuffix s [46])).2.1
  unfold arpaPrologue
  simp only [bind, Except.bind, pure, Except.pure, hr]
  cases r with
  | none => exact Or.inl ⟨rfl, rfl⟩
  | some e =>
    obtain ⟨inner, rfl⟩ := (C03.reject_is_addrError toASCII (trimSuffix s [46]) e).2.1 hr
    exact Or.inr ⟨by simp, _, rfl⟩

theorem okVal_wrapARPA {α : Type} (a : Bytes) (r : Except Err α) : okVal (wrapARPA a r) = okVal r := by
  cases r <;> rfl

theorem wrapARPA_ok {α : Type} (a : Bytes) (r : Except Err α) (p : α) :
    wrapARPA a r = .ok p ↔ r = .ok p := by
  cases r <;> simp [wrapARPA]

/-! ### `toLowerASCII` -/

theorem noUpper_asciiLower (s : Bytes) : NoUpper (asciiLower s) := by
  intro b hb
  simp only [asciiLower, List.mem_map] at hb
  obtain ⟨a, _, rfl⟩ := hb
  unfold lowerByte
  split <;> omega

theorem head_asciiLower (s : Bytes) : (asciiLower s).head? = some 46 ↔ s.head? = some 46 := by
  cases s with
  | nil => simp [asciiLower]
  | cons a s =>
    simp only [asciiLower, List.map_cons, List.head?_cons, Option.some.injEq]
    unfold lowerByte
    split <;> omega

theorem noUpper_append_left (a b : Bytes) (h : NoUpper (a ++ b)) : NoUpper a :=
  fun x hx => h x (by simp [hx])

/-! ### `PrefixFromReversedAddr` after the prologue -/

/-- the code of `PrefixFromReversedAddr` after the prologue, on the lower-cased name -/
def prefixCore (arpa : Bytes) : GoM (Except Err Prefix) :=
  if hasSuffix arpa v4tail then subnetFromReversedV4 arpa
  else if hasSuffix arpa v6tail then subnetFromReversedV6 arpa
  else pure (.error (.const .notAReversedSubnet))

theorem prefix_unfold (toASCII : Bytes → Option Bytes) (s : Bytes) :
    prefixFromReversedAddr toASCII s =
      match arpaPrologue toASCII s with
      | .error e => .error e
      | .ok (.error e) => .ok (.error e)
      | .ok (.ok arpa0) =>
        match prefixCore (asciiLower arpa0) with
        | .error e => .error e
        | .ok r => .ok (wrapARPA arpa0 r) := by
  unfold prefixFromReversedAddr prefixCore
  simp only [bind, Except.bind, pure, Except.pure, v4tail_eq, v6tail_eq]
  cases arpaPrologue toASCII s with
  | error e => rfl
  | ok r =>
    cases r with
    | error e => rfl
    | ok arpa0 =>
      simp only
      split
      · cases subnetFromReversedV4 (asciiLower arpa0) <;> rfl
      · split
        · cases subnetFromReversedV6 (asciiLower arpa0) <;> rfl
        · rfl

/-- a name whose labels end with a root has the corresponding string suffix -/
theorem string_of_root (s fam : Bytes) (R : List Bytes)
    (h : (splitOn 46 s).reverse = lblArpa :: fam :: R) : s = frontOf R ++ fam ++ 46 :: lblArpa := by
  have := frontOf_splitOn s
  rw [h] at this
  simp only [frontOf, List.append_assoc] at this
  have h2 : frontOf R ++ (fam ++ ([46] ++ (lblArpa ++ [46]))) = (frontOf R ++ fam ++ 46 :: lblArpa) ++ [46] := by
    simp
  rw [h2] at this
  exact (List.append_cancel_right this).symm

theorem spec_some_root (ls : List Bytes) (p : Prefix) (h : arpaPrefixSpec ls = some p) :
    ∃ R, ls.reverse = lblArpa :: lblInAddr :: R ∨ ls.reverse = lblArpa :: lblIp6 :: R := by
  unfold arpaPrefixSpec at h
  split at h
  · rename_i root fam digits hrev
    split at h
    · rename_i hroot
      split at h
      · rename_i hfam; exact ⟨digits, Or.inl (by rw [hrev, hroot, hfam])⟩
      · split at h
        · rename_i hfam; exact ⟨digits, Or.inr (by rw [hrev, hroot, hfam])⟩
        · cases h
    · cases h
  · cases h

theorem v4Shape_or (p : Prefix) (h : V4Shape p) : V4Shape p ∨ V6Shape p := Or.inl h

theorem prefixCore_spec (arpa : Bytes) (hu : NoUpper arpa) :
    ∃ r, prefixCore arpa = .ok r ∧
      (arpa.head? ≠ some 46 → okVal r = arpaPrefixSpec (splitOn 46 arpa)) ∧
      (∀ p, r = .ok p → V4Shape p ∨ V6Shape p) := by
  unfold prefixCore
  by_cases h4 : hasSuffix arpa v4tail = true
  · obtain ⟨pre, rfl⟩ := (hasSuffix_iff _ _).1 h4
    simp only [h4, if_true]
    obtain ⟨r, h1, h2, h3⟩ := subnetV4_spec pre
    refine ⟨r, h1, ?_, fun p hp => Or.inl (h3 p hp)⟩
    intro hd
    apply h2
    intro hp
    apply hd
    cases pre with
    | nil => simp at hp
    | cons a pre => simpa using hp
  · simp only [h4]
    by_cases h6 : hasSuffix arpa v6tail = true
    · obtain ⟨pre, rfl⟩ := (hasSuffix_iff _ _).1 h6
      simp only [h6, if_true]
      obtain ⟨r, h1, h2⟩ := subnetV6_spec pre (noUpper_append_left _ _ hu)
      obtain ⟨r', h1', h3⟩ := subnetV6_total pre
      rw [h1] at h1'; cases h1'
      exact ⟨r, h1, fun _ => h2, fun p hp => Or.inr (h3 p hp)⟩
    · simp only [h6]
      refine ⟨_, rfl, ?_, by intro p hp; cases hp⟩
      intro _
      cases hs : arpaPrefixSpec (splitOn 46 arpa) with
      | none => rfl
      | some p =>
        exfalso
        obtain ⟨R, hR | hR⟩ := spec_some_root _ _ hs
        · have := string_of_root arpa _ R hR
          apply h4
          exact (hasSuffix_iff _ _).2 ⟨frontOf R, by rw [this]; simp [v4tail]⟩
        · have := string_of_root arpa _ R hR
          apply h6
          exact (hasSuffix_iff _ _).2 ⟨frontOf R, by rw [this]; simp [v6tail]⟩

/-! ### the right-to-left label scans -/

/-- drop up to `n` leading labels that satisfy `P` -/
def scanP (P : Bytes → Bool) : Nat → List Bytes → List Bytes
  | 0, F => F
  | _ + 1, [] => []
  | n + 1, l :: F => if P l then scanP P n F else l :: F

theorem scanP_split (P : Bytes → Bool) (n : Nat) : ∀ (F : List Bytes),
    ∃ taken, F = taken ++ scanP P n F ∧ (∀ x ∈ taken, P x = true) ∧ taken.length ≤ n ∧
      (scanP P n F = [] ∨ taken.length = n ∨ ∃ x rest, scanP P n F = x :: rest ∧ P x = false) := by
  induction n with
  | zero => intro F; exact ⟨[], by simp [scanP], by simp, by simp, Or.inr (Or.inl rfl)⟩
  | succ n ih =>
    intro F
    cases F with
    | nil => exact ⟨[], by simp [scanP], by simp, by simp, Or.inl (by simp [scanP])⟩
    | cons l F =>
      by_cases hl : P l = true
      · obtain ⟨taken, h1, h2, h3, h4⟩ := ih F
        refine ⟨l :: taken, ?_, ?_, by simp; omega, ?_⟩
        · simp only [scanP, hl, if_true, List.cons_append]; rw [← h1]
        · intro x hx
          simp only [List.mem_cons] at hx
          rcases hx with rfl | hx
          · exact hl
          · exact h2 x hx
        · simp only [scanP, hl, if_true]
          rcases h4 with h4 | h4 | h4
          · exact Or.inl h4
          · exact Or.inr (Or.inl (by simp [h4]))
          · exact Or.inr (Or.inr h4)
      · have hl' : P l = false := by simpa using hl
        exact ⟨[], by simp [scanP, hl'], by simp, by simp, Or.inr (Or.inr ⟨l, F, by simp [scanP, hl'], hl'⟩)⟩

theorem indexV4_spec (n : Nat) : ∀ (F : List Bytes) (tail : Bytes), (∀ x ∈ F, DotFree x) →
    indexFirstV4Loop (frontOf F ++ tail) n ((frontOf F).length : Int) =
      .ok (((frontOf (scanP octetOK n F)).length : Nat) : Int) := by
  induction n with
  | zero => intro F tail _; simp [indexFirstV4Loop, scanP, pure, Except.pure]
  | succ n ih =>
    intro F tail hF
    cases F with
    | nil => simp [indexFirstV4Loop, scanP, frontOf, pure, Except.pure]
    | cons l F =>
      have hl : DotFree l := hF l (by simp)
      have hF' : ∀ x ∈ F, DotFree x := fun x hx => hF x (by simp [hx])
      have hpos : ((frontOf (l :: F)).length : Int) > 0 := by simp [frontOf]; omega
      unfold indexFirstV4Loop
      simp only [hpos, if_true, bind, Except.bind, pure, Except.pure]
      have e1 : frontOf (l :: F) ++ tail = (frontOf F ++ l) ++ (46 :: tail) := by simp [frontOf]
      rw [e1, sliceTo_app _ _ _ (by simp [frontOf]; omega)]
      simp only [lastIndexByte_frontOf F l hl]
      have e2 : (frontOf F ++ l) ++ (46 :: tail) = frontOf F ++ l ++ (46 :: tail) := rfl
      rw [slice_app (frontOf F) l (46 :: tail) _ _ rfl (by simp [frontOf]; omega)]
      simp only [isIPv4Label_eq]
      by_cases hok : octetOK l = true
      · simp only [hok, Bool.not_true, Bool.false_eq_true, if_false, scanP, if_true]
        have e3 : frontOf F ++ l ++ (46 :: tail) = frontOf F ++ (l ++ 46 :: tail) := by simp
        rw [e3]
        exact ih F _ hF'
      · have hok' : octetOK l = false := by simpa using hok
        simp [hok', scanP]

/-- a label that is one hexadecimal digit -/
def isNib : Bytes → Bool
  | [c] => fromHexByte c != 255
  | _ => false

/-- `curIdx > 0 && domain[curIdx-1] != '.'` -/
def notDotAt (dom : Bytes) (curIdx : Int) : GoM Bool :=
  if curIdx > 0 then (do let c ← GoM.idx dom (curIdx - 1); pure (decide (c ≠ 46))) else pure false

theorem indexFirstV6Loop_succ (dom : Bytes) (n : Nat) (idx : Int) (h : idx > 0) :
    indexFirstV6Loop dom (n + 1) idx =
      match notDotAt dom (idx - 2) with
      | .error e => .error e
      | .ok true => .ok idx
      | .ok false =>
        match GoM.idx dom (idx - 2) with
        | .error e => .error e
        | .ok c => if fromHexByte c = 255 then .ok idx else indexFirstV6Loop dom n (idx - 2) := by
  conv => lhs; unfold indexFirstV6Loop
  simp only [h, if_true, notDotAt, bind, Except.bind, pure, Except.pure]
  split
  · cases GoM.idx dom (idx - 2 - 1) with
    | error e => rfl
    | ok c =>
      by_cases hc : c = 46
      · simp only [hc, ne_eq, not_true_eq_false, decide_false, Bool.false_eq_true, if_false]
        cases GoM.idx dom (idx - 2) <;> rfl
      · simp [hc]
  · simp only [Bool.false_eq_true, if_false]
    cases GoM.idx dom (idx - 2) <;> rfl

theorem notDotAt_ok (dom : Bytes) (i : Nat) (h : i ≤ dom.length) :
    ∃ b, notDotAt dom (i : Int) = .ok b := by
  unfold notDotAt
  by_cases hp : (i : Int) > 0
  · simp only [hp, if_true, bind, Except.bind, pure, Except.pure]
    have : (i : Int) - 1 = ((i - 1 : Nat) : Int) := by omega
    rw [this, GoM.idx_ofNat_lt _ _ (by omega)]
    exact ⟨_, rfl⟩
  · simp only [hp, if_false, pure, Except.pure]; exact ⟨_, rfl⟩

theorem notDotAt_nonpos (dom : Bytes) (i : Int) (h : ¬ i > 0) : notDotAt dom i = .ok false := by
  simp [notDotAt, h, pure, Except.pure]

theorem notDotAt_at (a b : Bytes) (c : Nat) (i : Int) (h : i = a.length + 1) :
    notDotAt (a ++ c :: b) i = .ok (decide (c ≠ 46)) := by
  have hpos : i > 0 := by omega
  simp only [notDotAt, hpos, if_true, bind, Except.bind, pure, Except.pure]
  rw [idx_app a b c _ (by omega)]

theorem indexV6_spec (n : Nat) : ∀ (F : List Bytes) (tail : Bytes), (∀ x ∈ F, DotFree x) →
    indexFirstV6Loop (frontOf F ++ tail) n ((frontOf F).length : Int) =
        .ok (((frontOf (scanP isNib n F)).length : Nat) : Int) ∨
      (F.getLast? = some [] ∧ ∃ e, indexFirstV6Loop (frontOf F ++ tail) n ((frontOf F).length : Int) = .error e) := by
  induction n with
  | zero => intro F tail _; left; simp [indexFirstV6Loop, scanP, pure, Except.pure]
  | succ n ih =>
    intro F tail hF
    cases F with
    | nil => left; simp [indexFirstV6Loop, scanP, frontOf, pure, Except.pure]
    | cons l F =>
      have hl : DotFree l := hF l (by simp)
      have hF' : ∀ x ∈ F, DotFree x := fun x hx => hF x (by simp [hx])
      have hpos : ((frontOf (l :: F)).length : Int) > 0 := by simp [frontOf]; omega
      rw [indexFirstV6Loop_succ _ _ _ hpos]
      match l, hl with
      | [], _ =>
        cases F with
        | nil =>
          right
          refine ⟨rfl, ?_⟩
          rw [notDotAt_nonpos _ _ (by simp [frontOf])]
          simp [frontOf, GoM.idx]
        | cons x F' =>
          left
          have hcur : ((frontOf ([] :: x :: F')).length : Int) - 2 = ((frontOf F' ++ x).length : Nat) := by
            simp [frontOf]; omega
          rw [hcur]
          have e1 : frontOf ([] :: x :: F') ++ tail = (frontOf F' ++ x) ++ 46 :: (46 :: tail) := by
            simp [frontOf]
          rw [e1, idx_app _ _ _ _ rfl]
          have h255 : fromHexByte 46 = 255 := by decide
          obtain ⟨b, hb⟩ := notDotAt_ok (frontOf F' ++ x ++ 46 :: 46 :: tail) (frontOf F' ++ x).length
            (by simp)
          rw [hb]
          cases b <;> simp [h255, scanP, isNib]
      | [c], _ =>
        have hcur : ((frontOf ([c] :: F)).length : Int) - 2 = ((frontOf F).length : Nat) := by
          simp [frontOf]
        rw [hcur]
        have e1 : frontOf ([c] :: F) ++ tail = frontOf F ++ c :: (46 :: tail) := by simp [frontOf]
        rw [e1, idx_app _ _ _ _ rfl]
        have hnd : notDotAt (frontOf F ++ c :: 46 :: tail) ((frontOf F).length : Nat) = .ok false := by
          rcases frontOf_dot_or_nil F with hF0 | ⟨y, hy⟩
          · subst hF0; exact notDotAt_nonpos _ _ (by simp [frontOf])
          · have e2 : frontOf F ++ c :: (46 :: tail) = y ++ 46 :: (c :: 46 :: tail) := by rw [hy]; simp
            rw [e2, notDotAt_at y _ 46 _ (by rw [hy]; simp)]
            simp
        rw [hnd]
        simp only
        by_cases hx : fromHexByte c = 255
        · left; simp [hx, scanP, isNib, frontOf]
        · simp only [hx, if_false]
          have hnib : isNib [c] = true := by simp [isNib, hx]
          simp only [scanP, hnib, if_true]
          rcases ih F (c :: 46 :: tail) hF' with h | ⟨h1, h2⟩
          · left; exact h
          · right
            refine ⟨?_, h2⟩
            cases F with
            | nil => simp at h1
            | cons y F' => simpa [List.getLast?_cons_cons] using h1
      | c1 :: c2 :: l', hl =>
        left
        obtain ⟨m, z, hmz⟩ : ∃ m z, c1 :: c2 :: l' = m ++ [z] := by
          obtain ⟨mid, z, h⟩ := GoM.exists_cons_snoc c1 c2 l'
          exact ⟨c1 :: mid, z, h⟩
        have hm : m ≠ [] := by
          intro e; subst e
          have := congrArg List.length hmz; simp at this
        obtain ⟨m', y, hy⟩ : ∃ m' y, m = m' ++ [y] :=
          ⟨m.dropLast, m.getLast hm, (List.dropLast_concat_getLast hm).symm⟩
        have hyd : y ≠ 46 := by
          intro e
          apply hl
          rw [hmz, hy, e]; simp
        rw [hmz, hy]
        have hcur : ((frontOf ((m' ++ [y] ++ [z]) :: F)).length : Int) - 2 =
            ((frontOf F ++ m' ++ [y]).length : Nat) := by
          simp [frontOf]; omega
        rw [hcur]
        have e1 : frontOf ((m' ++ [y] ++ [z]) :: F) ++ tail = (frontOf F ++ m') ++ y :: (z :: 46 :: tail) := by
          simp [frontOf]
        rw [e1, notDotAt_at (frontOf F ++ m') _ y _ (by simp; omega)]
        have hnib : isNib (m' ++ [y, z]) = false := by
          cases m' <;> simp [isNib]
        simp [hyd, scanP, hnib]


/-! ### `longestArpaSuffix` -/

theorem longest_eq (al : List Bytes) (p : Prefix) (hal : arpaPrefixSpec al = some p) :
    ∀ fl : List Bytes, (∀ g, g ≠ [] → g <:+ fl → arpaPrefixSpec (g ++ al) = none) →
      longestArpaSuffix (fl ++ al) = some p := by
  intro fl
  induction fl with
  | nil =>
    intro _
    cases al with
    | nil => simp [arpaPrefixSpec] at hal
    | cons a al => simp [longestArpaSuffix, hal]
  | cons x fl ih =>
    intro h
    have h1 := h (x :: fl) (by simp) (List.suffix_refl _)
    simp only [List.cons_append] at h1 ⊢
    rw [longestArpaSuffix, h1]
    exact ih (fun g hg hs => h g hg (List.IsSuffix.trans hs (List.suffix_cons x fl)))

theorem longest_none (ls : List Bytes) (h : ∀ g, g <:+ ls → arpaPrefixSpec g = none) :
    longestArpaSuffix ls = none := by
  induction ls with
  | nil => rfl
  | cons x ls ih =>
    rw [longestArpaSuffix, h _ (List.suffix_refl _)]
    exact ih (fun g hg => h g (List.IsSuffix.trans hg (List.suffix_cons x ls)))

theorem longest_none_of (s : Bytes)
    (h : ∀ R fam, (fam = lblInAddr ∨ fam = lblIp6) → s ≠ frontOf R ++ fam ++ 46 :: lblArpa) :
    longestArpaSuffix (splitOn 46 s) = none := by
  apply longest_none
  intro g hg
  cases hs : arpaPrefixSpec g with
  | none => rfl
  | some p =>
    exfalso
    obtain ⟨hd, hhd⟩ := hg
    obtain ⟨R, hR | hR⟩ := spec_some_root g p hs
    · have : (splitOn 46 s).reverse = lblArpa :: lblInAddr :: (R ++ hd.reverse) := by
        rw [← hhd, List.reverse_append, hR]; simp
      exact h _ _ (Or.inl rfl) (string_of_root s _ _ this)
    · have : (splitOn 46 s).reverse = lblArpa :: lblIp6 :: (R ++ hd.reverse) := by
        rw [← hhd, List.reverse_append, hR]; simp
      exact h _ _ (Or.inr rfl) (string_of_root s _ _ this)

theorem traverse_append_none (f : Bytes → Option Nat) (a : List Bytes) (x : Bytes) (more : List Bytes)
    (h : f x = none) : traverse f (a ++ x :: more) = none := by
  induction a with
  | nil => exact traverse_cons_none _ _ _ h
  | cons y a ih =>
    cases hy : f y with
    | none => exact traverse_cons_none _ _ _ hy
    | some v => simp only [List.cons_append]; rw [traverse_cons_some _ _ _ _ hy, ih]; rfl

/-- the scan result gives the longest suffix on which the reference decoder is defined -/
theorem longest_of_scan (fam : Bytes) (hfam : DotFree fam) (F' taken : List Bytes)
    (hF' : ∀ x ∈ F', DotFree x) (ht : ∀ x ∈ taken, DotFree x) (p : Prefix)
    (hsome : arpaPrefixSpec (splitOn 46 (frontOf taken ++ (fam ++ 46 :: lblArpa))) = some p)
    (hmax : ∀ x rest more ls, F' = x :: rest → ls.reverse = lblArpa :: fam :: (taken ++ x :: more) →
      arpaPrefixSpec ls = none) :
    longestArpaSuffix (splitOn 46 (frontOf (taken ++ F') ++ (fam ++ 46 :: lblArpa))) = some p := by
  have hT : splitOn 46 (fam ++ 46 :: lblArpa) = [fam, lblArpa] := by
    rw [splitOn_dotfree_append _ _ hfam, splitOn_dotfree _ dotfree_arpa]
  have hal : splitOn 46 (frontOf taken ++ (fam ++ 46 :: lblArpa)) = taken.reverse ++ [fam, lblArpa] := by
    rw [splitOn_frontOf _ _ ht, hT]
  have hall : splitOn 46 (frontOf (taken ++ F') ++ (fam ++ 46 :: lblArpa)) =
      F'.reverse ++ (taken.reverse ++ [fam, lblArpa]) := by
    rw [splitOn_frontOf _ _ (by
      intro x hx
      simp only [List.mem_append] at hx
      rcases hx with hx | hx
      · exact ht x hx
      · exact hF' x hx), hT]
    simp
  rw [hall]
  rw [hal] at hsome
  apply longest_eq _ p hsome
  intro g hg hsuf
  obtain ⟨hd, hhd⟩ := hsuf
  have hrev : g.reverse ++ hd.reverse = F' := by
    have := congrArg List.reverse hhd; simpa using this
  cases hgr : g.reverse with
  | nil => simp at hgr; exact absurd hgr hg
  | cons x more =>
    rw [hgr] at hrev
    apply hmax x (more ++ hd.reverse) more (g ++ (taken.reverse ++ [fam, lblArpa])) (by rw [← hrev]; simp)
    simp [hgr]


/-! ### `ExtractReversedAddr` after the prologue -/

/-- `domLen < sufLen || domain[domLen-sufLen] == '.'` -/
def alignedAt (domain : Bytes) (sufLen : Nat) : GoM Bool :=
  if (domain.length : Int) < (sufLen : Int) then pure true
  else (do let c ← GoM.idx domain ((domain.length : Int) - (sufLen : Int)); pure (decide (c = 46)))

/-- the code of `ExtractReversedAddr` after the prologue, on the lower-cased name -/
def extractCore (domain : Bytes) : GoM (Except Err Prefix) :=
  if hasSuffix domain v4tail then do
    if ← alignedAt domain arpaV4Suffix.length then
      let i ← indexFirstV4Label domain
      let arpa ← GoM.sliceFrom domain i
      subnetFromReversedV4 arpa
    else pure (.error (.const .notAReversedSubnet))
  else if hasSuffix domain v6tail then do
    if ← alignedAt domain arpaV6Suffix.length then
      let i ← indexFirstV6Label domain
      let arpa ← GoM.sliceFrom domain i
      subnetFromReversedV6 arpa
    else pure (.error (.const .notAReversedSubnet))
  else pure (.error (.const .notAReversedSubnet))

theorem extract_unfold (toASCII : Bytes → Option Bytes) (s : Bytes) :
    extractReversedAddr toASCII s =
      match arpaPrologue toASCII s with
      | .error e => .error e
      | .ok (.error e) => .ok (.error e)
      | .ok (.ok d0) =>
        match extractCore (asciiLower d0) with
        | .error e => .error e
        | .ok r => .ok (wrapARPA d0 r) := by
  unfold extractReversedAddr extractCore alignedAt
  simp only [bind, Except.bind, pure, Except.pure, v4tail_eq, v6tail_eq]
  cases arpaPrologue toASCII s with
  | error e => rfl
  | ok r =>
    cases r with
    | error e => rfl
    | ok d0 =>
      simp only
      repeat' split
      all_goals first | rfl | simp_all


theorem alignedAt_eval (pre tail : Bytes) (sufLen : Nat) (h : tail.length + 1 = sufLen) :
    alignedAt (pre ++ tail) sufLen = .ok (decide (pre = [] ∨ pre.getLast? = some 46)) := by
  unfold alignedAt
  cases hgl : pre.getLast? with
  | none =>
    have : pre = [] := List.getLast?_eq_none_iff.1 hgl
    subst this
    simp only [List.nil_append]
    have : (tail.length : Int) < (sufLen : Int) := by omega
    simp [this, pure, Except.pure]
  | some z =>
    obtain ⟨f, rfl⟩ := List.getLast?_eq_some_iff.1 hgl
    have hlt : ¬ (((f ++ [z] ++ tail).length : Int) < (sufLen : Int)) := by simp; omega
    simp only [hlt, if_false, bind, Except.bind, pure, Except.pure]
    have e1 : f ++ [z] ++ tail = f ++ z :: tail := by simp
    rw [e1, idx_app f tail z _ (by simp; omega)]
    simp

theorem head_frontOf_ne_dot (R : List Bytes) (hne : ∀ x ∈ R, x ≠ []) (hd : ∀ x ∈ R, DotFree x) :
    (frontOf R).head? ≠ some 46 := by
  cases hgl : R.getLast? with
  | none =>
    have : R = [] := List.getLast?_eq_none_iff.1 hgl
    subst this; simp [frontOf]
  | some x =>
    obtain ⟨ys, rfl⟩ := List.getLast?_eq_some_iff.1 hgl
    have hx := hne x (by simp)
    have hxd := hd x (by simp)
    cases x with
    | nil => exact absurd rfl hx
    | cons c x' =>
      simp only [frontOf_append, frontOf, List.nil_append, List.cons_append, List.head?_cons]
      intro h
      apply hxd
      simp at h; simp [h]

theorem isNib_shape (taken : List Bytes) (h : ∀ x ∈ taken, isNib x = true) :
    ∃ gs : List Nat, taken = gs.map (fun c => [c]) ∧ ∀ c ∈ gs, fromHexByte c ≠ 255 := by
  induction taken with
  | nil => exact ⟨[], rfl, by simp⟩
  | cons x taken ih =>
    obtain ⟨gs, h1, h2⟩ := ih (fun y hy => h y (by simp [hy]))
    have hx := h x (by simp)
    match x, hx with
    | [c], hx =>
      refine ⟨c :: gs, by simp [h1], ?_⟩
      intro d hd
      simp only [List.mem_cons] at hd
      rcases hd with rfl | hd
      · simpa [isNib] using hx
      · exact h2 d hd

theorem nibbleVal_none_of_not_isNib (x : Bytes) (h : isNib x = false) : nibbleVal x = none := by
  cases hv : nibbleVal x with
  | none => rfl
  | some v =>
    obtain ⟨c, rfl, _, hc⟩ := hex_of_nibbleVal x v hv
    simp [isNib, hc] at h

theorem noUpper_mono (a b : Bytes) (h : NoUpper b) (hs : ∀ x ∈ a, x ∈ b) : NoUpper a :=
  fun x hx => h x (hs x hx)

theorem extractCore_spec (domain : Bytes) (hu : NoUpper domain) :
    (∃ r, extractCore domain = .ok r ∧ okVal r = longestArpaSuffix (splitOn 46 domain) ∧
        (∀ p, r = .ok p → V4Shape p ∨ V6Shape p)) ∨
      (domain.head? = some 46 ∧ ∃ e, extractCore domain = .error e) := by
  unfold extractCore
  by_cases h4 : hasSuffix domain v4tail = true
  · -- IPv4 family
    left
    obtain ⟨pre, rfl⟩ := (hasSuffix_iff _ _).1 h4
    simp only [h4, if_true, bind, Except.bind, pure, Except.pure]
    rw [alignedAt_eval pre v4tail _ (by decide)]
    by_cases hal : pre = [] ∨ pre.getLast? = some 46
    · simp only [hal, decide_true, if_true]
      obtain ⟨F, hFd, hpre⟩ : ∃ F : List Bytes, (∀ x ∈ F, DotFree x) ∧ pre = frontOf F := by
        rcases hal with h | h
        · exact ⟨[], by simp, by simp [h, frontOf]⟩
        · obtain ⟨f, rfl⟩ := List.getLast?_eq_some_iff.1 h
          obtain ⟨R, _, hR, hf⟩ := exists_frontOf_of_dot f
          exact ⟨R, hR, hf⟩
      subst hpre
      obtain ⟨taken, hsplit, htok, htlen, htmax⟩ := scanP_split octetOK 4 F
      have hidx : indexFirstV4Label (frontOf F ++ v4tail) =
          .ok (((frontOf (scanP octetOK 4 F)).length : Nat) : Int) := by
        unfold indexFirstV4Label
        have : ((frontOf F ++ v4tail).length : Int) - (arpaV4Suffix.length : Int) + 1 = ((frontOf F).length : Int) := by
          simp [v4tail, lblInAddr, lblArpa, arpaV4Suffix]; omega
        rw [this]
        exact indexV4_spec 4 F v4tail hFd
      rw [hidx]
      simp only
      have hdom : frontOf F ++ v4tail = frontOf (scanP octetOK 4 F) ++ (frontOf taken ++ v4tail) := by
        conv => lhs; rw [hsplit, frontOf_append]
        simp
      rw [hdom, sliceFrom_app _ _ _ rfl]
      simp only
      have htd : ∀ x ∈ taken, DotFree x := fun x hx => octetOK_dotfree x (htok x hx)
      have hF'd : ∀ x ∈ scanP octetOK 4 F, DotFree x := fun x hx => hFd x (by rw [hsplit]; simp [hx])
      obtain ⟨r, hr1, hr2, hr3⟩ := subnetV4_spec (frontOf taken)
      have hhead := head_frontOf_ne_dot taken (fun x hx => octetOK_ne_nil x (htok x hx)) htd
      have hr2' := hr2 hhead
      refine ⟨r, hr1, ?_, fun p hp => Or.inl (hr3 p hp)⟩
      -- the reference decoder is defined on the suffix found
      have hrev := labels_tail taken [] lblInAddr htd (by simp [DotFree]) dotfree_inaddr
      simp only [List.append_nil, List.nil_append] at hrev
      have hspec := spec_of_rev _ _ _ hrev
      rw [if_pos rfl, traverse_octet, if_pos (List.all_eq_true.2 htok)] at hspec
      simp only [List.length_map, htlen, if_true] at hspec
      change arpaPrefixSpec (splitOn 46 (frontOf taken ++ v4tail)) = _ at hspec
      rw [hr2', hspec, ← hdom]
      conv => rhs; rw [hsplit]
      symm
      apply longest_of_scan lblInAddr dotfree_inaddr _ taken hF'd htd _ hspec
      intro x rest more ls hF' hls
      rw [spec_of_rev _ _ _ hls, if_pos rfl]
      rcases htmax with h | h | ⟨y, rest', hy1, hy2⟩
      · rw [h] at hF'; cases hF'
      · cases htr : traverse octetVal (taken ++ x :: more) with
        | none => rfl
        | some os =>
          have := traverse_length _ _ _ htr
          have : ¬ os.length ≤ 4 := by simp at this; omega
          simp [this]
      · rw [hy1] at hF'; cases hF'
        rw [traverse_append_none _ _ _ _ ((octetVal_eq_none _).2 hy2)]
    · simp only [hal, decide_false, Bool.false_eq_true, if_false]
      refine ⟨_, rfl, ?_, by intro p hp; cases hp⟩
      simp only [okVal]
      symm
      apply longest_none_of
      intro R fam hfam heq
      have hne : pre ≠ [] := fun e => hal (Or.inl e)
      rcases hfam with rfl | rfl
      · have : pre = frontOf R := by
          have h2 : pre ++ v4tail = frontOf R ++ v4tail := by rw [heq]; simp [v4tail]
          exact List.append_cancel_right h2
        rcases frontOf_dot_or_nil R with h | ⟨y, hy⟩
        · subst h; exact hne (by simpa [frontOf] using this)
        · exact hal (Or.inr (by rw [this, hy]; simp))
      · have h2 : (pre ++ lblInAddr) ++ 46 :: lblArpa = (frontOf R ++ lblIp6) ++ 46 :: lblArpa := by
          rw [← heq]; simp [v4tail]
        have h3 := congrArg List.getLast? (List.append_cancel_right h2)
        simp [lblInAddr, lblIp6] at h3
  · simp only [h4, Bool.false_eq_true, if_false]
    by_cases h6 : hasSuffix domain v6tail = true
    · -- IPv6 family
      obtain ⟨pre, rfl⟩ := (hasSuffix_iff _ _).1 h6
      simp only [h6, if_true, bind, Except.bind, pure, Except.pure]
      rw [alignedAt_eval pre v6tail _ (by decide)]
      by_cases hal : pre = [] ∨ pre.getLast? = some 46
      · simp only [hal, decide_true, if_true]
        obtain ⟨F, hFd, hpre⟩ : ∃ F : List Bytes, (∀ x ∈ F, DotFree x) ∧ pre = frontOf F := by
          rcases hal with h | h
          · exact ⟨[], by simp, by simp [h, frontOf]⟩
          · obtain ⟨f, rfl⟩ := List.getLast?_eq_some_iff.1 h
            obtain ⟨R, _, hR, hf⟩ := exists_frontOf_of_dot f
            exact ⟨R, hR, hf⟩
        subst hpre
        obtain ⟨taken, hsplit, htok, htlen, htmax⟩ := scanP_split isNib 32 F
        have hlenE : ((frontOf F ++ v6tail).length : Int) - (arpaV6Suffix.length : Int) + 1 = ((frontOf F).length : Int) := by
          simp [v6tail, lblIp6, lblArpa, arpaV6Suffix]; omega
        rcases indexV6_spec 32 F v6tail hFd with hidx | ⟨hlast, e, hidx⟩
        · left
          have hidx' : indexFirstV6Label (frontOf F ++ v6tail) =
              .ok (((frontOf (scanP isNib 32 F)).length : Nat) : Int) := by
            unfold indexFirstV6Label; rw [hlenE]; exact hidx
          rw [hidx']
          simp only
          have hdom : frontOf F ++ v6tail = frontOf (scanP isNib 32 F) ++ (frontOf taken ++ v6tail) := by
            conv => lhs; rw [hsplit, frontOf_append]
            simp
          rw [hdom, sliceFrom_app _ _ _ rfl]
          simp only
          obtain ⟨gs, hgs1, hgs2⟩ := isNib_shape taken htok
          have htd : ∀ x ∈ taken, DotFree x := by rw [hgs1]; exact dotfree_singles gs hgs2
          have hF'd : ∀ x ∈ scanP isNib 32 F, DotFree x := fun x hx => hFd x (by rw [hsplit]; simp [hx])
          have hut : NoUpper (frontOf taken) := by
            apply noUpper_mono _ _ hu
            intro x hx
            rw [hdom]; simp [hx]
          obtain ⟨r, hr1, hr2⟩ := subnetV6_spec (frontOf taken) hut
          obtain ⟨r', hr1', hr3⟩ := subnetV6_total (frontOf taken)
          rw [hr1] at hr1'; cases hr1'
          refine ⟨r, hr1, ?_, fun p hp => Or.inr (hr3 p hp)⟩
          have hfd : frontOf taken = dotted gs.reverse := by
            rw [hgs1, ← frontOf_singles gs.reverse]; simp
          have hspec := (spec_v6_iff (frontOf taken) hut (v6Prefix (gs.reverse.reverse.map fromHexByte))).2
            ⟨gs.reverse, hfd, by
              have : gs.length = taken.length := by rw [hgs1]; simp
              simp; omega, by simpa using hgs2, rfl⟩
          rw [hr2, hspec, ← hdom]
          conv => rhs; rw [hsplit]
          symm
          apply longest_of_scan lblIp6 dotfree_ip6 _ taken hF'd htd _ hspec
          intro x rest more ls hF' hls
          rw [spec_of_rev _ _ _ hls, if_neg (by decide), if_pos rfl]
          rcases htmax with h | h | ⟨y, rest', hy1, hy2⟩
          · rw [h] at hF'; cases hF'
          · cases htr : traverse nibbleVal (taken ++ x :: more) with
            | none => rfl
            | some os =>
              have := traverse_length _ _ _ htr
              have : ¬ os.length ≤ 32 := by simp at this; omega
              simp [this]
          · rw [hy1] at hF'; cases hF'
            rw [traverse_append_none _ _ _ _ (nibbleVal_none_of_not_isNib _ hy2)]
        · right
          constructor
          · have := frontOf_head_dot F hlast
            cases hf : frontOf F with
            | nil => rw [hf] at this; simp at this
            | cons a t => rw [hf] at this; simpa using this
          · have hidx' : indexFirstV6Label (frontOf F ++ v6tail) = .error e := by
              unfold indexFirstV6Label; rw [hlenE]; exact hidx
            rw [hidx']
            exact ⟨e, rfl⟩
      · left
        simp only [hal, decide_false, Bool.false_eq_true, if_false]
        refine ⟨_, rfl, ?_, by intro p hp; cases hp⟩
        simp only [okVal]
        symm
        apply longest_none_of
        intro R fam hfam heq
        have hne : pre ≠ [] := fun e => hal (Or.inl e)
        rcases hfam with rfl | rfl
        · apply h4
          exact (hasSuffix_iff _ _).2 ⟨frontOf R, by rw [heq]; simp [v4tail]⟩
        · have : pre = frontOf R := by
            have h2 : pre ++ v6tail = frontOf R ++ v6tail := by rw [heq]; simp [v6tail]
            exact List.append_cancel_right h2
          rcases frontOf_dot_or_nil R with h | ⟨y, hy⟩
          · subst h; exact hne (by simpa [frontOf] using this)
          · exact hal (Or.inr (by rw [this, hy]; simp))
    · left
      simp only [h6, Bool.false_eq_true, if_false, pure, Except.pure]
      refine ⟨_, rfl, ?_, by intro p hp; cases hp⟩
      simp only [okVal]
      symm
      apply longest_none_of
      intro R fam hfam heq
      rcases hfam with rfl | rfl
      · apply h4
        exact (hasSuffix_iff _ _).2 ⟨frontOf R, by rw [heq]; simp [v4tail]⟩
      · apply h6
        exact (hasSuffix_iff _ _).2 ⟨frontOf R, by rw [heq]; simp [v6tail]⟩


end GolibsVerif.C05
