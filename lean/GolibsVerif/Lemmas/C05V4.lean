/-
C05 helper lemmas, part 2 (IPv4 family): canonical octets, `isIPv4Label`, the value computed
by `netip.parseIPv4Fields`, the loop of `ipv4NetFromReversed`, and `subnetFromReversedV4`
against the reference decoder.
-/
import GolibsVerif.Lemmas.C05Str

namespace GolibsVerif.C05
open GolibsVerif.Netutil GolibsVerif.Str GolibsVerif.Netip GolibsVerif GolibsVerif.Gen.Consts

/-! ### canonical octets -/

theorem foldl_dec_ge (t : Bytes) (acc : Nat) :
    acc ≤ t.foldl (fun a c => a * 10 + (c - 48)) acc := by
  induction t generalizing acc with
  | nil => simp
  | cons c t ih =>
    simp only [List.foldl_cons]
    exact Nat.le_trans (by omega) (ih _)

theorem decVal_snoc (l : Bytes) (c : Nat) : decVal (l ++ [c]) = decVal l * 10 + (c - 48) := by
  simp [decVal, List.foldl_append]

theorem decVal_append_ge (l t : Bytes) : decVal l ≤ decVal (l ++ t) := by
  simp only [decVal, List.foldl_append]
  exact foldl_dec_ge _ _

theorem decVal_ge_1000 (a b c d : Nat) (t : Bytes) (ha : 49 ≤ a) :
    1000 ≤ decVal (a :: b :: c :: d :: t) := by
  simp only [decVal, List.foldl_cons]
  exact Nat.le_trans (by omega) (foldl_dec_ge _ _)

theorem isDigit_iff (c : Nat) : isDigit c = true ↔ 48 ≤ c ∧ c ≤ 57 := by
  simp [isDigit]

theorem octetOK_iff (l : Bytes) : octetOK l = true ↔
    l ≠ [] ∧ l.all isDigit = true ∧ (l.length = 1 ∨ l.head? ≠ some 48) ∧ decVal l ≤ 255 := by
  simp [octetOK, and_assoc]

theorem octetVal_eq_some (l : Bytes) (v : Nat) : octetVal l = some v ↔ octetOK l = true ∧ v = decVal l := by
  unfold octetVal
  by_cases h : octetOK l = true
  · simp [h, eq_comm]
  · simp [h]

theorem octetVal_eq_none (l : Bytes) : octetVal l = none ↔ octetOK l = false := by
  unfold octetVal
  by_cases h : octetOK l = true <;> simp [h]

theorem octetVal_le (l : Bytes) (v : Nat) (h : octetVal l = some v) : v ≤ 255 := by
  obtain ⟨h1, rfl⟩ := (octetVal_eq_some l v).1 h
  exact ((octetOK_iff l).1 h1).2.2.2

theorem octetOK_dotfree (l : Bytes) (h : octetOK l = true) : DotFree l := by
  have h2 := ((octetOK_iff l).1 h).2.1
  intro hm
  have := List.all_eq_true.1 h2 46 hm
  simp [isDigit] at this

theorem octetOK_ne_nil (l : Bytes) (h : octetOK l = true) : l ≠ [] := ((octetOK_iff l).1 h).1

/-- closed form of `isIPv4Label` -/
theorem isIPv4Label_eq (l : Bytes) : isIPv4Label l = .ok (octetOK l) := by
  match l with
  | [] => simp [isIPv4Label, octetOK, pure, Except.pure]
  | [a] =>
    by_cases ha : isDigit a = true
    · have := (isDigit_iff a).1 ha
      simp [isIPv4Label, octetOK, decVal, bind, Except.bind, pure, Except.pure, ha]; omega
    · simp [isIPv4Label, octetOK, decVal, bind, Except.bind, pure, Except.pure, ha]
  | [a, b] =>
    by_cases h0 : a = 48
    · simp [isIPv4Label, octetOK, bind, Except.bind, pure, Except.pure, h0]
    · by_cases hd : (isDigit a && isDigit b) = true
      · simp at hd
        simp [isIPv4Label, octetOK, decVal, bind, Except.bind, pure, Except.pure, h0, hd]
      · simp at hd
        by_cases ha : isDigit a = true
        · simp [isIPv4Label, octetOK, decVal, bind, Except.bind, pure, Except.pure, h0, hd, ha]
        · simp [isIPv4Label, octetOK, decVal, bind, Except.bind, pure, Except.pure, h0, ha]
  | [a, b, c] =>
    by_cases h0 : a = 48
    · simp [isIPv4Label, octetOK, bind, Except.bind, pure, Except.pure, h0]
    · by_cases hd : [a, b, c].all isDigit = true
      · simp [isIPv4Label, octetOK, decVal, bind, Except.bind, pure, Except.pure, h0, hd]
      · simp [isIPv4Label, octetOK, decVal, bind, Except.bind, pure, Except.pure, h0, hd]
  | a :: b :: c :: d :: t =>
    have : octetOK (a :: b :: c :: d :: t) = false := by
      by_cases ha : isDigit a = true
      · by_cases h0 : a = 48
        · simp [octetOK, h0]
        · have := (isDigit_iff a).1 ha
          have h1000 := decVal_ge_1000 a b c d t (by omega)
          have : ¬ decVal (a :: b :: c :: d :: t) ≤ 255 := by omega
          simp [octetOK, this]
      · simp [octetOK, ha]
    rw [this]
    simp [isIPv4Label, pure, Except.pure]

/-! ### the loop of `ipv4NetFromReversed` -/

/-- one iteration of the loop on `addr = frontOf R ++ l` (last label `l`, the labels before it
`R`, nearest first) -/
theorem ipv4NetLoop_step (f : Nat) (R : List Bytes) (l : Bytes) (ip : List Nat) (hl : DotFree l)
    (hne : frontOf R ++ l ≠ []) :
    ipv4NetLoop (f + 1) (frontOf R ++ l) ip =
      match parseUintDec l 255 with
      | none => .ok (.error (.const .parseUint))
      | some octet =>
        if l.length > 1 ∧ l.head? = some 48 then
          .ok (.error (.addr .lblDomain l (some (.const .leadingZero))))
        else if ip.length ≥ 4 then .error (.indexOutOfRange ip.length 4)
        else match R with
          | [] => .ok (.ok (ip ++ [octet]))
          | x :: R' => ipv4NetLoop f (frontOf R' ++ x) (ip ++ [octet]) := by
  conv => lhs; unfold ipv4NetLoop
  simp only [hne, if_false, lastIndexByte_frontOf R l hl, bind, Except.bind, pure, Except.pure]
  rw [sliceFrom_app _ _ _ rfl]
  simp only
  cases hp : parseUintDec l 255 with
  | none => rfl
  | some octet =>
    simp only
    cases l with
    | nil => simp [parseUintDec] at hp
    | cons c l' =>
      rw [idx_app _ _ _ _ rfl]
      have hcond : ((((frontOf R ++ c :: l').length : Int) - ((frontOf R).length : Int) > 1 ∧ c = 48) ↔
          ((c :: l').length > 1 ∧ (c :: l').head? = some 48)) := by
        simp; omega
      simp only [hcond]
      split
      · rfl
      · split
        · rfl
        · cases R with
          | nil => simp [frontOf]
          | cons x R' =>
            have h0 : ¬ (((frontOf (x :: R')).length : Int) = 0) := by simp [frontOf]; omega
            simp only [h0, if_false]
            have : frontOf (x :: R') ++ c :: l' = (frontOf R' ++ x) ++ (46 :: c :: l') := by
              simp [frontOf]
            rw [this, sliceTo_app _ _ _ (by simp [frontOf]; omega)]

/-- what one iteration decides about the label: `strconv.ParseUint(l, 10, 8)` succeeds and the
leading-zero test passes iff `l` is a canonical octet -/
theorem parse_octet (l : Bytes) :
    match parseUintDec l 255 with
    | none => octetVal l = none
    | some v => if l.length > 1 ∧ l.head? = some 48 then octetVal l = none else octetVal l = some v := by
  unfold parseUintDec
  by_cases h0 : l = []
  · subst h0; simp [octetVal, octetOK]
  · simp only [h0, if_false]
    by_cases hd : l.all isDigit = true
    · simp only [hd, if_true]
      by_cases hv : l.foldl (fun a c => a * 10 + (c - 48)) 0 > 255
      · simp only [hv, if_true]
        rw [octetVal_eq_none]
        have : ¬ decVal l ≤ 255 := by unfold decVal; omega
        simp [octetOK, this]
      · simp only [hv, if_false]
        split
        · rename_i hz
          rw [octetVal_eq_none]
          have : ¬ (l.length = 1) := by omega
          simp [octetOK, hz.2, this]
        · rename_i hz
          rw [octetVal_eq_some]
          refine ⟨?_, rfl⟩
          rw [octetOK_iff]
          refine ⟨h0, hd, ?_, by unfold decVal; omega⟩
          by_cases h1 : l.length = 1
          · exact Or.inl h1
          · right; intro h48; apply hz
            have : l.length ≠ 0 := by intro e; exact h0 (List.length_eq_zero_iff.1 e)
            exact ⟨by omega, h48⟩
    · simp only [hd]
      rw [octetVal_eq_none]
      simp [octetOK, hd]

/-- the result of the loop as a function of the labels (last label first) -/
def v4LoopRes : List Bytes → List Nat → Option (List Nat)
  | [], ip => some ip
  | l :: R, ip =>
    if l = [] ∧ R = [] then some ip
    else match octetVal l with
      | none => none
      | some v => v4LoopRes R (ip ++ [v])

def okVal {α : Type} : Except Err α → Option α
  | .ok a => some a
  | .error _ => none

theorem ipv4NetLoop_spec (R : List Bytes) : ∀ (l : Bytes) (fuel : Nat) (ip : List Nat),
    DotFree l → (∀ x ∈ R, DotFree x) → R.length + 1 ≤ fuel → ip.length + R.length + 1 ≤ 4 →
    ∃ r, ipv4NetLoop fuel (frontOf R ++ l) ip = .ok r ∧ okVal r = v4LoopRes (l :: R) ip := by
  induction R with
  | nil =>
    intro l fuel ip hl _ hf hip
    obtain ⟨f, rfl⟩ : ∃ f, fuel = f + 1 := ⟨fuel - 1, by omega⟩
    by_cases hne : l = []
    · subst hne
      exact ⟨.ok ip, by simp [ipv4NetLoop, frontOf, pure, Except.pure], by simp [okVal, v4LoopRes]⟩
    · have hne' : frontOf [] ++ l ≠ [] := by simpa [frontOf] using hne
      rw [ipv4NetLoop_step f [] l ip hl hne']
      have hp := parse_octet l
      have hip' : ¬ ip.length ≥ 4 := by simp at hip; omega
      cases hpu : parseUintDec l 255 with
      | none =>
        rw [hpu] at hp; simp only at hp
        exact ⟨_, rfl, by simp [okVal, v4LoopRes, hne, hp]⟩
      | some v =>
        rw [hpu] at hp; simp only at hp
        simp only
        split
        · rename_i hz; rw [if_pos hz] at hp
          exact ⟨_, rfl, by simp [okVal, v4LoopRes, hne, hp]⟩
        · rename_i hz; rw [if_neg hz] at hp
          exact ⟨_, rfl, by simp [okVal, v4LoopRes, hne, hp]⟩
  | cons x R ih =>
    intro l fuel ip hl hR hf hip
    obtain ⟨f, rfl⟩ : ∃ f, fuel = f + 1 := ⟨fuel - 1, by omega⟩
    have hne' : frontOf (x :: R) ++ l ≠ [] := by simp [frontOf]
    rw [ipv4NetLoop_step f (x :: R) l ip hl hne']
    have hp := parse_octet l
    have hip' : ¬ ip.length ≥ 4 := by simp at hip; omega
    cases hpu : parseUintDec l 255 with
    | none =>
      rw [hpu] at hp; simp only at hp
      exact ⟨_, rfl, by simp [okVal, v4LoopRes, hp]⟩
    | some v =>
      rw [hpu] at hp; simp only at hp
      simp only
      split
      · rename_i hz; rw [if_pos hz] at hp
        exact ⟨_, rfl, by simp [okVal, v4LoopRes, hp]⟩
      · rename_i hz; rw [if_neg hz] at hp
        obtain ⟨r, hr1, hr2⟩ := ih x f (ip ++ [v]) (hR x (by simp))
          (fun y hy => hR y (by simp [hy])) (by simp at hf; omega) (by simp at hip ⊢; omega)
        exact ⟨r, hr1, by rw [hr2]; simp [v4LoopRes, hp]⟩


theorem traverse_cons_some (f : Bytes → Option Nat) (l : Bytes) (ls : List Bytes) (v : Nat)
    (h : f l = some v) : traverse f (l :: ls) = (traverse f ls).map (v :: ·) := by
  cases ht : traverse f ls <;> simp [traverse, h, ht]

theorem traverse_cons_none (f : Bytes → Option Nat) (l : Bytes) (ls : List Bytes)
    (h : f l = none) : traverse f (l :: ls) = none := by
  simp [traverse, h]

theorem v4LoopRes_cons_some (l : Bytes) (x : Bytes) (R : List Bytes) (ip : List Nat) (v : Nat)
    (h : octetVal l = some v) : v4LoopRes (l :: x :: R) ip = v4LoopRes (x :: R) (ip ++ [v]) := by
  rw [v4LoopRes]; simp [h]

theorem v4LoopRes_traverse (R : List Bytes) : ∀ (l : Bytes) (ip : List Nat),
    (l :: R).getLast? ≠ some [] →
    v4LoopRes (l :: R) ip = (traverse octetVal (l :: R)).map (ip ++ ·) := by
  induction R with
  | nil =>
    intro l ip h
    have hl : l ≠ [] := by simpa using h
    cases ho : octetVal l <;> simp [v4LoopRes, traverse, hl, ho]
  | cons x R ih =>
    intro l ip h
    have h' : (x :: R).getLast? ≠ some [] := by simpa [List.getLast?_cons_cons] using h
    cases ho : octetVal l with
    | none => simp [v4LoopRes, traverse, ho]
    | some v =>
      rw [v4LoopRes_cons_some l x R ip v ho, ih x (ip ++ [v]) h', traverse_cons_some _ _ _ _ ho]
      cases traverse octetVal (x :: R) <;> simp

theorem v4LoopRes_shape (Rl : List Bytes) : ∀ (ip r : List Nat), v4LoopRes Rl ip = some r →
    ∃ vs, r = ip ++ vs ∧ vs.length ≤ Rl.length ∧ ∀ v ∈ vs, v ≤ 255 := by
  induction Rl with
  | nil => intro ip r h; simp [v4LoopRes] at h; exact ⟨[], by simp [h]⟩
  | cons l R ih =>
    intro ip r h
    unfold v4LoopRes at h
    split at h
    · simp at h; exact ⟨[], by simp [h]⟩
    · cases ho : octetVal l with
      | none => simp [ho] at h
      | some v =>
        simp only [ho] at h
        obtain ⟨vs, h1, h2, h3⟩ := ih _ _ h
        refine ⟨v :: vs, by simp [h1], by simp; omega, ?_⟩
        intro w hw
        simp only [List.mem_cons] at hw
        rcases hw with rfl | hw
        · exact octetVal_le l _ ho
        · exact h3 w hw


/-! ### the value of `netip.parseIPv4Fields` (adapted from the C02 invariant, with values) -/

theorem octetOK_single (c : Nat) (h : isDigit c = true) : octetOK [c] = true := by
  have := (isDigit_iff c).1 h
  rw [octetOK_iff]; simp [h, decVal]; omega

theorem octetOK_snoc (cur : Bytes) (c : Nat) (h : octetOK cur = true) (hc : isDigit c = true)
    (hz : ¬ (cur.length = 1 ∧ decVal cur = 0)) (hv : decVal cur * 10 + (c - 48) ≤ 255) :
    octetOK (cur ++ [c]) = true := by
  rw [octetOK_iff] at h ⊢
  obtain ⟨h1, h2, h3, h4⟩ := h
  refine ⟨by simp, by simp [h2, hc], ?_, by rw [decVal_snoc]; exact hv⟩
  right
  match cur, h1 with
  | [a], _ =>
    have ha : isDigit a = true := by simpa using h2
    have := (isDigit_iff a).1 ha
    simp [decVal] at hz
    simp; omega
  | a :: b :: t, _ =>
    simp at h3 ⊢; exact h3

theorem octetOK_lead0 (cur : Bytes) (c : Nat) (p : Bytes) (h : octetOK cur = true)
    (hz : cur.length = 1 ∧ decVal cur = 0) : octetOK (cur ++ c :: p) = false := by
  rw [octetOK_iff] at h
  obtain ⟨h1, h2, h3, h4⟩ := h
  match cur, h1 with
  | [a], _ =>
    have ha : isDigit a = true := by simpa using h2
    have := (isDigit_iff a).1 ha
    simp [decVal] at hz
    have : a = 48 := by omega
    subst this
    simp [octetOK]
  | a :: b :: t, _ => simp at hz

theorem octetOK_big (cur : Bytes) (c : Nat) (p : Bytes)
    (hv : decVal cur * 10 + (c - 48) > 255) : octetOK (cur ++ c :: p) = false := by
  have h1 := decVal_append_ge (cur ++ [c]) p
  rw [decVal_snoc] at h1
  have : cur ++ [c] ++ p = cur ++ c :: p := by simp
  rw [this] at h1
  have : ¬ decVal (cur ++ c :: p) ≤ 255 := by omega
  simp [octetOK, this]

theorem octetOK_nondigit (cur : Bytes) (c : Nat) (p : Bytes) (hc : ¬ isDigit c = true) :
    octetOK (cur ++ c :: p) = false := by
  simp [octetOK, hc]

/-- what remains to be parsed: the partial octet `cur` continued by the first piece, then the
other pieces, `pos` dots having been seen; the result appends the values to `fields` -/
def v4TailV (cur : Bytes) (pos : Nat) (fields : List Nat) : List Bytes → Option (List Nat)
  | [] => none
  | p :: ps =>
    if octetOK (cur ++ p) && ps.all octetOK && pos + ps.length == 3 then
      some (fields ++ ((cur ++ p) :: ps).map decVal)
    else none

theorem splitOn_dot (r : Bytes) : splitOn 46 (46 :: r) = [] :: splitOn 46 r := by
  simp [splitOn]

theorem splitOn_nondot (c : Nat) (r : Bytes) (h : c ≠ 46) :
    ∃ p ps, splitOn 46 r = p :: ps ∧ splitOn 46 (c :: r) = (c :: p) :: ps := by
  have hne := splitOn_ne_nil 46 r
  cases hs : splitOn 46 r with
  | nil => exact absurd hs hne
  | cons p ps => exact ⟨p, ps, rfl, by simp [splitOn, h, hs]⟩

theorem digit_ne_dot (c : Nat) (h : isDigit c = true) : c ≠ 46 := by
  have := (isDigit_iff c).1 h; omega

theorem v4aux_val (rest : Bytes) :
    (∀ cur pos fields, octetOK cur = true → pos ≤ 3 →
      parseIPv4FieldsAux rest false false (decVal cur) pos cur.length fields =
        v4TailV cur pos fields (splitOn 46 rest)) ∧
    (∀ first prevDot pos fields, (first = true ∨ prevDot = true) → (rest ≠ [] ∨ pos < 3) →
      pos ≤ 3 →
      parseIPv4FieldsAux rest first prevDot 0 pos 0 fields =
        v4TailV [] pos fields (splitOn 46 rest)) := by
  induction rest with
  | nil =>
    constructor
    · intro cur pos fields hcur hpos
      by_cases h : pos < 3
      · have : ¬ pos = 3 := by omega
        simp [parseIPv4FieldsAux, v4TailV, splitOn, h, this]
      · have : pos = 3 := by omega
        simp [parseIPv4FieldsAux, v4TailV, splitOn, this, hcur]
    · intro first prevDot pos fields _ h _
      have h : pos < 3 := by simpa using h
      simp [parseIPv4FieldsAux, v4TailV, splitOn, h, octetOK]
  | cons c r ih =>
    obtain ⟨ihA, ihB⟩ := ih
    constructor
    · intro cur pos fields hcur hpos
      unfold parseIPv4FieldsAux
      by_cases hd : isDigit c = true
      · obtain ⟨p, ps, hs1, hs2⟩ := splitOn_nondot c r (digit_ne_dot c hd)
        simp only [hd, if_true, hs2, v4TailV]
        by_cases hz : cur.length = 1 ∧ decVal cur = 0
        · simp [hz, octetOK_lead0 cur c p hcur hz]
        · simp only [hz, if_false]
          by_cases hv : decVal cur * 10 + (c - 48) > 255
          · simp [hv, octetOK_big cur c p hv]
          · simp only [hv, if_false]
            have hok := octetOK_snoc cur c hcur hd hz (by omega)
            have := ihA (cur ++ [c]) pos fields hok hpos
            rw [decVal_snoc] at this
            simp only [List.length_append, List.length_cons, List.length_nil] at this
            rw [this, hs1]
            simp [v4TailV]
      · simp only [hd]
        by_cases hdot : c = 46
        · subst hdot
          simp only [if_true, splitOn_dot, v4TailV, List.append_nil, hcur, Bool.true_and]
          by_cases hr : r = []
          · subst hr; simp [splitOn, octetOK]
          · by_cases hp : pos = 3
            · subst hp
              have hne := splitOn_ne_nil 46 r
              simp [hr]
              intro _; cases hl : splitOn 46 r with
              | nil => exact absurd hl hne
              | cons => simp
            · simp only [Bool.false_eq_true, false_or, hr, hp, if_false]
              rw [ihB false true (pos + 1) _ (Or.inr rfl) (Or.inl hr) (by omega)]
              have hne := splitOn_ne_nil 46 r
              cases hl : splitOn 46 r with
              | nil => exact absurd hl hne
              | cons q qs => simp [v4TailV, Nat.add_assoc, Nat.add_comm 1]
        · obtain ⟨p, ps, hs1, hs2⟩ := splitOn_nondot c r hdot
          simp [hdot, hs2, v4TailV, octetOK_nondigit cur c p hd]
    · intro first prevDot pos fields hfp hne hpos
      unfold parseIPv4FieldsAux
      by_cases hd : isDigit c = true
      · obtain ⟨p, ps, hs1, hs2⟩ := splitOn_nondot c r (digit_ne_dot c hd)
        have hc := (isDigit_iff c).1 hd
        have hv : ¬ (0 * 10 + (c - 48) > 255) := by omega
        simp only [hd, if_true, hs2, v4TailV, hv, if_false]
        have := ihA [c] pos fields (octetOK_single c hd) hpos
        simp only [decVal, List.foldl_cons, List.foldl_nil, List.length_cons, List.length_nil] at this
        simp only [Nat.zero_ne_one, false_and, if_false]
        rw [this, hs1]
        simp [v4TailV]
      · simp only [hd]
        by_cases hdot : c = 46
        · subst hdot
          have : (first = true ∨ r = [] ∨ prevDot = true) := by
            rcases hfp with h | h
            · exact Or.inl h
            · exact Or.inr (Or.inr h)
          simp [this, splitOn_dot, v4TailV, octetOK]
        · obtain ⟨p, ps, hs1, hs2⟩ := splitOn_nondot c r hdot
          have := octetOK_nondigit [] c p hd
          simp at this
          simp [hdot, hs2, v4TailV, this]

/-- `netip.parseIPv4Fields` returns the values of exactly four canonical octets -/
theorem parseIPv4Fields_val (s : Bytes) :
    parseIPv4Fields s =
      if (splitOn 46 s).all octetOK && (splitOn 46 s).length == 4 then
        some ((splitOn 46 s).map decVal) else none := by
  unfold parseIPv4Fields
  rw [(v4aux_val s).2 true false 0 [] (Or.inl rfl) (Or.inr (by omega)) (by omega)]
  cases h : splitOn 46 s with
  | nil => exact absurd h (splitOn_ne_nil 46 s)
  | cons p ps =>
    simp only [v4TailV, List.nil_append, List.all_cons, List.length_cons]
    have : (0 + ps.length == 3) = (ps.length + 1 == 4) := by
      by_cases h3 : ps.length = 3 <;> simp [h3]
    simp

/-! ### `ipv4FromReversed` -/

theorem parseIPv6_not_v4 (w : Bytes) (b : List Nat) : parseIPv6 w ≠ some (.v4 b) := by
  unfold parseIPv6
  intro h
  dsimp only at h
  repeat' split at h
  all_goals simp at h

theorem dispatch_v4 (rest whole : Bytes) (b : List Nat)
    (h : parseAddrDispatch rest whole = some (.v4 b)) : parseIPv4Fields whole = some b := by
  induction rest with
  | nil => simp [parseAddrDispatch] at h
  | cons c rest ih =>
    unfold parseAddrDispatch at h
    split at h
    · unfold parseIPv4 at h
      cases hf : parseIPv4Fields whole with
      | none => simp [hf] at h
      | some f => simp [hf] at h; simp [h]
    · split at h
      · exact absurd h (parseIPv6_not_v4 whole b)
      · split at h
        · simp at h
        · exact ih h

theorem dispatch_digits (ds t whole : Bytes) (h : ds.all isDigit = true) :
    parseAddrDispatch (ds ++ 46 :: t) whole = parseIPv4 whole := by
  induction ds with
  | nil => simp [parseAddrDispatch]
  | cons c ds ih =>
    simp only [List.all_cons, Bool.and_eq_true] at h
    have hc := (isDigit_iff c).1 h.1
    have h1 : c ≠ 46 := by omega
    have h2 : c ≠ 58 := by omega
    have h3 : c ≠ 37 := by omega
    simp [parseAddrDispatch, h1, h2, h3, ih h.2]

theorem traverse_octet (Rl : List Bytes) :
    traverse octetVal Rl = if Rl.all octetOK then some (Rl.map decVal) else none := by
  induction Rl with
  | nil => simp [traverse]
  | cons l R ih =>
    by_cases h : octetOK l = true
    · have : octetVal l = some (decVal l) := (octetVal_eq_some _ _).2 ⟨h, rfl⟩
      rw [traverse_cons_some _ _ _ _ this, ih]
      by_cases hR : R.all octetOK = true <;> simp [h, hR]
    · have h' : octetOK l = false := by simpa using h
      rw [traverse_cons_none _ _ _ ((octetVal_eq_none l).2 h')]
      simp [h']

theorem traverse_length (f : Bytes → Option Nat) (ls : List Bytes) (vs : List Nat)
    (h : traverse f ls = some vs) : vs.length = ls.length := by
  induction ls generalizing vs with
  | nil => simp [traverse] at h; simp [← h]
  | cons l ls ih =>
    cases hf : f l with
    | none => rw [traverse_cons_none _ _ _ hf] at h; cases h
    | some v =>
      rw [traverse_cons_some _ _ _ _ hf] at h
      cases ht : traverse f ls with
      | none => simp [ht] at h
      | some ws => simp [ht] at h; subst h; simp [ih ws ht]

theorem traverse_octet_le (ls : List Bytes) (vs : List Nat)
    (h : traverse octetVal ls = some vs) : ∀ v ∈ vs, v ≤ 255 := by
  induction ls generalizing vs with
  | nil => simp [traverse] at h; subst h; simp
  | cons l ls ih =>
    cases hf : octetVal l with
    | none => rw [traverse_cons_none _ _ _ hf] at h; cases h
    | some v =>
      rw [traverse_cons_some _ _ _ _ hf] at h
      cases ht : traverse octetVal ls with
      | none => simp [ht] at h
      | some ws =>
        simp [ht] at h; subst h
        intro w hw
        simp only [List.mem_cons] at hw
        rcases hw with rfl | hw
        · exact octetVal_le l _ hf
        · exact ih ws ht w hw

/-- `ipv4FromReversed` on a string with exactly three dots -/
theorem ipv4FromReversed_spec (a b c l : Bytes) (ha : DotFree a) (hb : DotFree b) (hc : DotFree c)
    (hl : DotFree l) :
    okVal (ipv4FromReversed (frontOf [a, b, c] ++ l)) =
      (traverse octetVal [l, a, b, c]).map .v4 := by
  have hsp : splitOn 46 (frontOf [a, b, c] ++ l) = [c, b, a, l] := by
    rw [splitOn_frontOf _ _ (by simp [ha, hb, hc]), splitOn_dotfree l hl]; simp
  have hval := parseIPv4Fields_val (frontOf [a, b, c] ++ l)
  rw [hsp] at hval
  rw [traverse_octet]
  unfold ipv4FromReversed
  by_cases hall : [l, a, b, c].all octetOK = true
  · have hall' : [c, b, a, l].all octetOK = true := by
      simp only [List.all_cons, List.all_nil, Bool.and_true, Bool.and_eq_true] at hall ⊢
      exact ⟨hall.2.2.2, hall.2.2.1, hall.2.1, hall.1⟩
    have hcd : c.all isDigit = true := by
      simp only [List.all_cons, List.all_nil, Bool.and_true, Bool.and_eq_true] at hall
      exact ((octetOK_iff c).1 hall.2.2.2).2.1
    have hs : frontOf [a, b, c] ++ l = c ++ 46 :: (b ++ 46 :: (a ++ 46 :: l)) := by
      simp [frontOf]
    have hpa : parseAddr (frontOf [a, b, c] ++ l) = some (.v4 [decVal c, decVal b, decVal a, decVal l]) := by
      unfold parseAddr
      conv => lhs; arg 1; rw [hs]
      rw [dispatch_digits _ _ _ hcd]
      unfold parseIPv4
      rw [hval]
      simp [hall']
    rw [hpa]
    simp [okVal, hall]
  · have hall' : ¬ ([c, b, a, l].all octetOK = true) := by
      simp only [List.all_cons, List.all_nil, Bool.and_true, Bool.and_eq_true] at hall ⊢
      intro h; exact hall ⟨h.2.2.2, h.2.2.1, h.2.1, h.1⟩
    have hnone : parseIPv4Fields (frontOf [a, b, c] ++ l) = none := by rw [hval]; simp [hall']
    simp only [hall]
    cases hpa : parseAddr (frontOf [a, b, c] ++ l) with
    | none => simp [okVal]
    | some ad =>
      cases ad with
      | v4 bb =>
        have := dispatch_v4 _ _ _ hpa
        rw [hnone] at this; cases this
      | invalid => simp [okVal]
      | v6 _ _ => simp [okVal]

/-! ### `subnetFromReversedV4` against the reference decoder -/

/-- `"in-addr.arpa"` = `arpaV4Suffix[1:]` -/
def v4tail : Bytes := lblInAddr ++ 46 :: lblArpa
/-- `"ip6.arpa"` = `arpaV6Suffix[1:]` -/
def v6tail : Bytes := lblIp6 ++ 46 :: lblArpa

theorem v4tail_eq : GoM.sliceFrom arpaV4Suffix 1 = .ok v4tail := by decide
theorem v6tail_eq : GoM.sliceFrom arpaV6Suffix 1 = .ok v6tail := by decide

theorem pad_v4Prefix (os : List Nat) (h : os.length ≤ 4) :
    ({ addr := .v4 (pad 4 os), bits := os.length * 8 } : Prefix) = v4Prefix os := by
  match os, h with
  | [], _ => rfl
  | [a], _ => rfl
  | [a, b], _ => rfl
  | [a, b, c], _ => rfl
  | [a, b, c, d], _ => rfl
  | _ :: _ :: _ :: _ :: _ :: _, h => simp at h

theorem frontOf_head_dot (R : List Bytes) (h : R.getLast? = some []) : (frontOf R).head? = some 46 := by
  obtain ⟨ys, rfl⟩ := List.getLast?_eq_some_iff.1 h
  simp [frontOf_append, frontOf]

theorem length_frontOf_ge (R : List Bytes) : R.length ≤ (frontOf R).length := by
  induction R with
  | nil => simp
  | cons l R ih => simp [frontOf]; omega

theorem dotfree_inaddr : DotFree lblInAddr := by unfold DotFree; decide
theorem dotfree_arpa : DotFree lblArpa := by unfold DotFree; decide
theorem dotfree_ip6 : DotFree lblIp6 := by unfold DotFree; decide

theorem dotfree_append (a b : Bytes) (ha : DotFree a) (hb : DotFree b) : DotFree (a ++ b) := by
  unfold DotFree at *; simp [ha, hb]

/-- labels of `pre ++ "in-addr.arpa"` when `pre = frontOf R ++ l` -/
theorem labels_tail (R : List Bytes) (l fam : Bytes) (hR : ∀ x ∈ R, DotFree x) (hl : DotFree l)
    (hf : DotFree fam) :
    (splitOn 46 (frontOf R ++ l ++ (fam ++ 46 :: lblArpa))).reverse = lblArpa :: (l ++ fam) :: R := by
  have : frontOf R ++ l ++ (fam ++ 46 :: lblArpa) = frontOf R ++ ((l ++ fam) ++ 46 :: lblArpa) := by simp
  rw [this, splitOn_frontOf _ _ hR, splitOn_dotfree_append _ _ (dotfree_append _ _ hl hf),
    splitOn_dotfree _ dotfree_arpa]
  simp


theorem spec_of_rev (ls : List Bytes) (fam : Bytes) (R : List Bytes)
    (h : ls.reverse = lblArpa :: fam :: R) :
    arpaPrefixSpec ls =
      if fam = lblInAddr then
        match traverse octetVal R with
        | some os => if os.length ≤ 4 then some (v4Prefix os) else none
        | none => none
      else if fam = lblIp6 then
        match traverse nibbleVal R with
        | some ns => if ns.length ≤ 32 then some (v6Prefix ns) else none
        | none => none
      else none := by
  unfold arpaPrefixSpec
  rw [h]
  dsimp only
  rw [if_pos rfl]
  rfl

theorem append_inaddr_ne (l : Bytes) (hl : l ≠ []) : l ++ lblInAddr ≠ lblInAddr := by
  intro h
  have := congrArg List.length h
  simp at this
  exact hl this

theorem append_inaddr_ne_ip6 (l : Bytes) : l ++ lblInAddr ≠ lblIp6 := by
  intro h
  have := congrArg List.getLast? h
  simp [lblInAddr, lblIp6] at this

theorem hasSuffix_dot_frontOf (R : List Bytes) (l : Bytes) (hl : DotFree l) (hne : l ≠ []) :
    hasSuffix (frontOf R ++ l) [46] = false := by
  cases hs : hasSuffix (frontOf R ++ l) [46] with
  | false => rfl
  | true =>
    obtain ⟨t, ht⟩ := (hasSuffix_iff _ _).1 hs
    have h1 := congrArg List.getLast? ht
    rw [List.getLast?_append] at h1
    cases hgl : l.getLast? with
    | none => exact absurd (List.getLast?_eq_none_iff.1 hgl) hne
    | some z =>
      rw [hgl] at h1
      simp at h1
      subst h1
      exact absurd (List.mem_of_getLast? hgl) hl

/-- shape of an accepted IPv4 prefix -/
def V4Shape (p : Prefix) : Prop := ∃ os : List Nat, os.length ≤ 4 ∧ (∀ v ∈ os, v ≤ 255) ∧ p = v4Prefix os

theorem subnetV4_spec (pre : Bytes) :
    ∃ r, subnetFromReversedV4 (pre ++ v4tail) = .ok r ∧
      (pre.head? ≠ some 46 → okVal r = arpaPrefixSpec (splitOn 46 (pre ++ v4tail))) ∧
      (∀ p, r = .ok p → V4Shape p) := by
  obtain ⟨l, R, hl, hR, hpre, _⟩ := exists_frontOf pre
  have hrev := labels_tail R l lblInAddr hR hl dotfree_inaddr
  rw [← hpre] at hrev
  have hspec := spec_of_rev _ _ _ hrev
  change arpaPrefixSpec (splitOn 46 (pre ++ v4tail)) = _ at hspec
  rw [hspec]
  unfold subnetFromReversedV4
  have hlen : ((pre ++ v4tail).length : Int) - (arpaV4Suffix.length : Int) + 1 = (pre.length : Int) := by
    simp [v4tail, lblInAddr, lblArpa, arpaV4Suffix]; omega
  simp only [hlen, bind, Except.bind, pure, Except.pure]
  rw [sliceTo_app _ _ _ rfl]
  simp only
  by_cases hp0 : pre = []
  · subst hp0
    have hR0 : R = [] := by
      cases R with
      | nil => rfl
      | cons x R' => simp [frontOf] at hpre
    have hl0 : l = [] := by subst hR0; simpa [frontOf] using hpre.symm
    subst hR0 hl0
    refine ⟨.ok (v4Prefix []), ?_, ?_, ?_⟩
    · simp [ipv4NetFromReversed, ipv4NetLoop, bind, Except.bind, pure, Except.pure]
      rfl
    · intro _; simp [okVal, traverse]
    · intro p hp; cases hp; exact ⟨[], by simp, by simp, rfl⟩
  · have hp0' : ¬ ((pre.length : Int) = 0) := by
      intro h; apply hp0; exact List.length_eq_zero_iff.1 (by omega)
    simp only [hp0', if_false]
    by_cases hl0 : l = []
    · subst hl0
      cases R with
      | nil => simp [frontOf] at hpre; exact absurd hpre hp0
      | cons x R' =>
        have hx : DotFree x := hR x (by simp)
        have hR' : ∀ y ∈ R', DotFree y := fun y hy => hR y (by simp [hy])
        have hpre' : pre = (frontOf R' ++ x) ++ [46] := by simp [hpre, frontOf]
        have hsuf : hasSuffix pre [46] = true := (hasSuffix_iff _ _).2 ⟨_, hpre'⟩
        simp only [hsuf, Bool.not_true, Bool.false_eq_true, if_false]
        rw [hpre', sliceTo_app _ _ _ (by simp; omega)]
        simp only [List.nil_append]
        have hdots : countByte (frontOf R' ++ x) 46 = R'.length := by
          have := count_dot_frontOf R' hR'
          unfold countByte at this ⊢
          rw [List.count_append, this, List.count_eq_zero.2 hx]; rfl
        rw [hdots]
        by_cases h3 : R'.length > 3
        · simp only [h3, if_true]
          refine ⟨_, rfl, ?_, by intro p hp; cases hp⟩
          intro _
          cases ht : traverse octetVal (x :: R') with
          | none => simp [okVal]
          | some os =>
            have := traverse_length _ _ _ ht
            have : ¬ os.length ≤ 4 := by simp at this; omega
            simp [okVal, this]
        · simp only [h3, if_false]
          by_cases h3' : R'.length = 3
          · simp only [h3', if_true]
            match R', h3' with
            | [a, b, c], _ =>
              have hh := ipv4FromReversed_spec a b c x (hR' a (by simp)) (hR' b (by simp))
                (hR' c (by simp)) hx
              cases hres : ipv4FromReversed (frontOf [a, b, c] ++ x) with
              | error e =>
                rw [hres] at hh
                refine ⟨_, rfl, ?_, by intro p hp; cases hp⟩
                intro _
                cases ht : traverse octetVal [x, a, b, c] with
                | none => simp [okVal, mapAddr]
                | some os => rw [ht] at hh; simp [okVal] at hh
              | ok ad =>
                rw [hres] at hh
                cases ht : traverse octetVal [x, a, b, c] with
                | none => rw [ht] at hh; simp [okVal] at hh
                | some os =>
                  rw [ht] at hh
                  simp [okVal] at hh
                  subst hh
                  have hlen := traverse_length _ _ _ ht
                  have hle := traverse_octet_le _ _ ht
                  have hpf : ({ addr := .v4 os, bits := 32 } : Prefix) = v4Prefix os := by
                    match os, hlen with
                    | [o1, o2, o3, o4], _ => rfl
                  refine ⟨.ok (v4Prefix os), by simp [mapAddr, hpf], ?_, ?_⟩
                  · intro _; simp [okVal, hlen]
                  · intro p hp; cases hp; exact ⟨os, by simp [hlen], hle, rfl⟩
          · simp only [h3', if_false]
            unfold ipv4NetFromReversed
            obtain ⟨r, hr1, hr2⟩ := ipv4NetLoop_spec R' x ((frontOf R' ++ x).length + 1) [] hx hR'
              (by have := length_frontOf_ge R'; simp; omega) (by simp; omega)
            simp only [bind, Except.bind, pure, Except.pure, hr1]
            cases r with
            | error e =>
              refine ⟨_, rfl, ?_, by intro p hp; cases hp⟩
              intro hd
              have hlast : (x :: R').getLast? ≠ some [] := by
                intro hg
                apply hd
                have := frontOf_head_dot (x :: R') hg
                simpa [hpre', frontOf] using this
              rw [v4LoopRes_traverse R' x [] hlast] at hr2
              cases ht : traverse octetVal (x :: R') with
              | none => simp [okVal]
              | some os => rw [ht] at hr2; simp [okVal] at hr2
            | ok ip =>
              simp only [okVal] at hr2
              obtain ⟨vs, hv1, hv2, hv3⟩ := v4LoopRes_shape _ _ _ hr2.symm
              simp only [List.nil_append] at hv1
              subst hv1
              have hle4 : ip.length ≤ 4 := by simp at hv2; omega
              refine ⟨.ok (v4Prefix ip), by simp [pad_v4Prefix ip hle4], ?_, ?_⟩
              · intro hd
                have hlast : (x :: R').getLast? ≠ some [] := by
                  intro hg
                  apply hd
                  have := frontOf_head_dot (x :: R') hg
                  simpa [hpre', frontOf] using this
                rw [v4LoopRes_traverse R' x [] hlast] at hr2
                cases ht : traverse octetVal (x :: R') with
                | none => rw [ht] at hr2; simp at hr2
                | some os =>
                  rw [ht] at hr2; simp at hr2; subst hr2
                  simp [okVal, hle4]
              · intro p hp; cases hp; exact ⟨ip, hle4, hv3, rfl⟩
    · have hsuf : hasSuffix pre [46] = false := by rw [hpre]; exact hasSuffix_dot_frontOf R l hl hl0
      simp only [hsuf, Bool.not_false, if_true]
      refine ⟨_, rfl, ?_, by intro p hp; cases hp⟩
      intro _
      simp [okVal, append_inaddr_ne l hl0, append_inaddr_ne_ip6 l]

end GolibsVerif.C05
