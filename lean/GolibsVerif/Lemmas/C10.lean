/-
C10 — helper lemmas: concurrent executions (append / split / induction from the right), their
projection to framed executions, the abstraction `absReg` from the cache state to the register
of `Spec/C10.lean`, and the refinement step "every section is an operation (or a loss) of the
sequential specification".
-/
import GolibsVerif.Model.C10
import GolibsVerif.Lemmas.C09Frames
import GolibsVerif.Theorems.C09Frames

namespace GolibsVerif.C10
open GolibsVerif.C09

/-! ### concurrent executions -/

theorem ctrace_append {c : Conf} {σ σ1 σ2 : KSt} {l1 l2 : List KRec} (h1 : CTrace c σ l1 σ1)
    (h2 : CTrace c σ1 l2 σ2) : CTrace c σ (l1 ++ l2) σ2 := by
  induction h1 with
  | nil => simpa using h2
  | cons hstep _ ih => exact CTrace.cons hstep (ih h2)

theorem ctrace_single {c : Conf} {σ σ' : KSt} {ev : KEv} (h : KStep c σ ev σ') :
    CTrace c σ [⟨ev, σ'⟩] σ' := CTrace.cons h (CTrace.nil σ')

theorem ctrace_snoc {c : Conf} {σ σ1 σ2 : KSt} {l : List KRec} {ev : KEv} (h1 : CTrace c σ l σ1)
    (h2 : KStep c σ1 ev σ2) : CTrace c σ (l ++ [⟨ev, σ2⟩]) σ2 :=
  ctrace_append h1 (ctrace_single h2)

theorem ctrace_split {c : Conf} {σ σ' : KSt} {pre post : List KRec} {ev : KEv} {σ1 : KSt}
    (ht : CTrace c σ (pre ++ ⟨ev, σ1⟩ :: post) σ') :
    ∃ σ0, CTrace c σ pre σ0 ∧ KStep c σ0 ev σ1 ∧ CTrace c σ1 post σ' := by
  induction pre generalizing σ with
  | nil =>
    cases ht with
    | cons hstep hrest => exact ⟨σ, CTrace.nil σ, hstep, hrest⟩
  | cons x xs ih =>
    cases ht with
    | cons hstep hrest =>
      obtain ⟨σ0, h1, h2, h3⟩ := ih hrest
      exact ⟨σ0, CTrace.cons hstep h1, h2, h3⟩

/-- induction over a concurrent execution from a fixed start, one step at the END at a time -/
theorem ctrace_snoc_ind {c : Conf} {σ0 : KSt} {P : List KRec → KSt → Prop} (h0 : P [] σ0)
    (hs : ∀ l σ ev σ', CTrace c σ0 l σ → P l σ → KStep c σ ev σ' → P (l ++ [⟨ev, σ'⟩]) σ') :
    ∀ {l : List KRec} {σ : KSt}, CTrace c σ0 l σ → P l σ := by
  have key : ∀ {σ1 σ : KSt} {l : List KRec}, CTrace c σ1 l σ →
      ∀ pre, CTrace c σ0 pre σ1 → P pre σ1 → P (pre ++ l) σ := by
    intro σ1 σ l ht
    induction ht with
    | nil => intro pre _ hp; simpa using hp
    | @cons σa σb σc ev rest hstep _ ih =>
      intro pre hpre hp
      have := ih (pre ++ [⟨ev, σb⟩]) (ctrace_snoc hpre hstep) (hs pre σa ev σb hpre hp hstep)
      simpa using this
  intro l σ ht
  simpa using key ht [] (CTrace.nil σ0) h0

/-! ### projection to the framed system -/

theorem frameOf_set {σ : KSt} {id i : Nat} {k v : Bytes}
    (h : σ.calls[id]? = some ⟨.set k v, .running (some i)⟩) : σ.frameOf id = some i := by
  simp [KSt.frameOf, h]

theorem frameOf_one {σ : KSt} {id : Nat} {op : Call}
    (h : σ.calls[id]? = some ⟨op, .running none⟩) : σ.frameOf id = none := by
  simp [KSt.frameOf, h]

/-- what a step of the concurrent system is in the framed system -/
theorem kstep_fstep {c : Conf} {σ σ' : KSt} {ev : KEv} (h : KStep c σ ev σ') :
    match ev with
    | .inv _ (.set k v) => FStep c σ.f (.call σ.f.frames.length k v) σ'.f
    | .inv _ _ => σ'.f = σ.f
    | .sec id e => FStep c σ.f (.sec (σ.frameOf id) e) σ'.f
    | .ret .. => σ'.f = σ.f := by
  cases h with
  | invSet k v f' hf => exact hf
  | inv op hop =>
    cases op with
    | set k v => exact absurd rfl (hop k v)
    | _ => rfl
  | secSet id i k v ev f' hc hf => simpa [frameOf_set hc] using hf
  | secOne id op ev f' hc _ hf => simpa [frameOf_one hc] using hf
  | ret id op r hc => rfl

theorem ctrace_ftrace {c : Conf} {σ σ' : KSt} {log : List KRec} (ht : CTrace c σ log σ') :
    FTrace c σ.f (flogFrom σ log) σ'.f := by
  induction ht with
  | nil σ => exact FTrace.nil _
  | @cons σa σb σc ev rest hstep _ ih =>
    have hk := kstep_fstep hstep
    cases ev with
    | inv id op =>
      cases op with
      | set k v => simpa [flogFrom] using FTrace.cons hk ih
      | get k => simp only at hk; simpa [flogFrom, hk] using ih
      | del k => simp only at hk; simpa [flogFrom, hk] using ih
      | clear => simp only at hk; simpa [flogFrom, hk] using ih
      | stats => simp only at hk; simpa [flogFrom, hk] using ih
    | sec id e => simpa [flogFrom] using FTrace.cons hk ih
    | ret id r => simp only at hk; simpa [flogFrom, hk] using ih

theorem flogFrom_append (σ σ1 : KSt) (l1 l2 : List KRec) {c : Conf} (h : CTrace c σ l1 σ1) :
    flogFrom σ (l1 ++ l2) = flogFrom σ l1 ++ flogFrom σ1 l2 := by
  induction h with
  | nil => simp [flogFrom]
  | cons _ _ ih => simp [flogFrom, ih]

/-- the cache invariant and the frame invariant hold in every state of every execution -/
theorem ctrace_inv {c : Conf} {log : List KRec} {σ : KSt} (ht : CTrace c KSt.init log σ) :
    Inv c σ.f.cache ∧ FramesOk c σ.f := by
  have hf := ctrace_ftrace ht
  obtain ⟨hok, htr⟩ := ftrace_proj hf (FramesOk.init c)
  exact ⟨(inv_reachable htr).1, hok⟩

/-- a section of the concurrent system is a step of the frameless system on the cache -/
theorem ksec_cstep {c : Conf} {σ σ' : KSt} {id : Nat} {e : Ev} (hok : FramesOk c σ.f)
    (h : KStep c σ (.sec id e) σ') : C09.CStep c σ.f.cache e σ'.f.cache := by
  have := kstep_fstep h
  simp only at this
  exact (fstep_ok hok this).2

/-! ### the abstraction to the register -/

/-- the register the cache state stands for: key ↦ value of the entry with that key -/
def absReg (s : St) : Reg := fun k => aLookup (pairs s.lru) k

/-- what an event does to the register -/
def effect : Ev → Reg → Reg
  | .commit k v _, m => m.put k v
  | .evict k _, m => m.erase k
  | .del k, m => m.erase k
  | .clear, _ => Reg.empty
  | _, m => m

theorem absReg_init : absReg St.init = Reg.empty := rfl

theorem absReg_step {c : Conf} {s s' : St} {ev : Ev} (hs : C09.CStep c s ev s') (h : Inv c s) :
    absReg s' = effect ev (absReg s) := by
  obtain ⟨_, ha⟩ := step_ok hs h (Agree.self s)
  have hl := ha.live
  funext q
  unfold absReg
  rw [hl]
  cases ev with
  | commit k v r =>
    simp only [absStep, effect, Reg.put, aLookup_remove_append]
    by_cases hk : k = q
    · subst hk; simp
    · have : ¬ q = k := fun hc => hk hc.symm
      simp [hk, this]
  | evict k v =>
    simp only [absStep, effect, Reg.erase, aLookup_remove]
    by_cases hk : k = q
    · subst hk; simp
    · have : ¬ q = k := fun hc => hk hc.symm
      simp [hk, this]
  | del k =>
    simp only [absStep, effect, Reg.erase, aLookup_remove]
    by_cases hk : k = q
    · subst hk; simp
    · have : ¬ q = k := fun hc => hk hc.symm
      simp [hk, this]
  | clear => simp [absStep, effect, Reg.empty, Abs.empty, aLookup]
  | get k r =>
    cases r with
    | none => simp [absStep, effect]
    | some v =>
      cases hb : c.lru
      · simp [absStep, effect]
      · simp only [absStep, effect, if_true]
        cases hlk : aLookup (pairs s.lru) k with
        | none => rfl
        | some v' =>
          simp only [aLookup_remove_append]
          by_cases hk : k = q
          · subst hk; simp [hlk]
          · simp [hk]
  | refused k v => simp [absStep, effect]
  | onDelete k v => simp [absStep, effect]
  | stats st => simp [absStep, effect]

theorem mem_pairs_iff {l : List Entry} (hn : (l.map Entry.key).Nodup) (k v : Bytes) :
    (k, v) ∈ pairs l ↔ aLookup (pairs l) k = some v := by
  induction l with
  | nil => simp [pairs, aLookup]
  | cons e rest ih =>
    simp only [List.map_cons, List.nodup_cons] at hn
    by_cases hk : e.key = k
    · subst hk
      have hnot : ∀ v', (e.key, v') ∉ pairs rest := by
        intro v' hm
        simp only [pairs, List.mem_map] at hm
        obtain ⟨x, hx, hxe⟩ := hm
        injection hxe with h1 _
        exact hn.1 (List.mem_map.2 ⟨x, hx, h1⟩)
      simp only [pairs, List.map_cons, List.mem_cons, Prod.mk.injEq, true_and, aLookup,
        List.find?_cons, decide_true, Option.map_some, Option.some.injEq]
      constructor
      · rintro (h | h)
        · exact h.symm
        · exact absurd (by simpa [pairs] using h) (hnot v)
      · intro h; exact Or.inl h.symm
    · have hk' : ¬ k = e.key := fun hc => hk hc.symm
      have := ih hn.2
      simp only [pairs, aLookup] at this
      simp [pairs, aLookup, hk, hk', this]

theorem lists_absReg {c : Conf} {s : St} (h : Inv c s) : Lists (pairs s.lru) (absReg s) := by
  refine ⟨?_, fun k v => mem_pairs_iff h.nodup k v⟩
  have : (pairs s.lru).map (·.1) = s.lru.map Entry.key := by simp [pairs]
  rw [this]; exact h.nodup

/-! ### calls and the events of their sections -/

/-- `ev` is an event of a call `op` (for `Set`: of ITS key and value) -/
def OpEv : Call → Ev → Prop
  | .set k v, .commit k' v' _ => k' = k ∧ v' = v
  | .set k v, .refused k' v' => k' = k ∧ v' = v
  | .set _ _, .evict .. => True
  | .set _ _, .onDelete .. => True
  | op, ev => IsSecOf op ev

theorem opEv_of_isSecOf {op : Call} {ev : Ev} (h : IsSecOf op ev) : OpEv op ev := by
  cases op <;> cases ev <;> simp_all [OpEv, IsSecOf]

/-- the sections of frame `i` carry the key and value of frame `i` -/
theorem fstep_frame_ev {c : Conf} {σ σ' : FSt} {i : Nat} {ev : Ev} {f : Frame}
    (hs : FStep c σ (.sec (some i) ev) σ') (hf : σ.frames[i]? = some f) :
    OpEv (.set f.key f.val) ev := by
  generalize hev : FEv.sec (some i) ev = lab at hs
  cases hs with
  | call => cases hev
  | refuse j g hg hp hc =>
    injection hev with hw hev; injection hw with hw; subst hw; subst hev
    rw [hf] at hg; injection hg with hg; subst hg
    exact ⟨rfl, rfl⟩
  | evict j g s' e hg hh hfull he =>
    injection hev with hw hev; subst hev; trivial
  | onDelete j g k v hg hp =>
    injection hev with hw hev; subst hev; trivial
  | commit j g s' r hg hh hfull hc =>
    injection hev with hw hev; injection hw with hw; subst hw; subst hev
    rw [hf] at hg; injection hg with hg; subst hg
    exact ⟨rfl, rfl⟩
  | get => cases hev
  | del => cases hev
  | clear => cases hev
  | stats => cases hev

/-- **the refinement step**: a section that fixes the result `r` of a call `op` is the operation
`op` of the sequential specification with result `r`, from the register the cache stood for
before the section to the one it stands for after it -/
theorem section_is_seqStep {c : Conf} {s s' : St} {ev : Ev} {op : Call} {r : Res}
    (hs : C09.CStep c s ev s') (h : Inv c s) (hop : OpEv op ev) (hr : resOf ev = some r) :
    SeqStep c (absReg s) op r (absReg s') := by
  have habs := absReg_step hs h
  obtain ⟨_, ha⟩ := step_ok hs h (Agree.self s)
  cases hs with
  | refuse k v hc =>
    cases op <;> simp [OpEv, IsSecOf] at hop
    obtain ⟨rfl, rfl⟩ := hop
    simp only [resOf, Option.some.injEq] at hr; subst hr
    exact SeqStep.refuse _ _ _
  | evict s' add e _ _ _ he => simp [resOf] at hr
  | onDelete k v _ => simp [resOf] at hr
  | commit s' k v rep _ hnf hc =>
    cases op <;> simp [OpEv, IsSecOf] at hop
    obtain ⟨rfl, rfl⟩ := hop
    simp only [resOf, Option.some.injEq] at hr; subst hr
    rw [habs]
    have hrep : rep = (absReg s k).isSome := (setCommit_agree h (Agree.self s) hc).2
    rw [hrep]
    exact SeqStep.store _ _ _
  | get s' k res hg =>
    cases op <;> simp [OpEv, IsSecOf] at hop
    subst hop
    simp only [resOf, Option.some.injEq] at hr; subst hr
    rw [habs]
    have hres : res = absReg s k := (get_agree h (Agree.self s) hg).2
    rw [hres]
    exact SeqStep.get _ _
  | del s' k hd =>
    cases op <;> simp [OpEv, IsSecOf] at hop
    subst hop
    simp only [resOf, Option.some.injEq] at hr; subst hr
    rw [habs]
    exact SeqStep.del _ _
  | clear =>
    cases op <;> simp [OpEv, IsSecOf] at hop
    simp only [resOf, Option.some.injEq] at hr; subst hr
    rw [habs]
    exact SeqStep.clear _
  | stats =>
    cases op <;> simp [OpEv, IsSecOf] at hop
    simp only [resOf, Option.some.injEq] at hr; subst hr
    refine SeqStep.stats _ (pairs s.lru) _ (lists_absReg h) (by simp [stats, pairs]) ?_
      (by simpa [stats] using h.count_le) (by simpa [stats] using h.size_le)
    rw [aSize_pairs]; simpa [stats] using h.size_eq

/-- a section that does not fix a result leaves the register alone or loses one entry -/
theorem section_is_tau {c : Conf} {s s' : St} {ev : Ev} (hs : C09.CStep c s ev s') (h : Inv c s)
    (hr : resOf ev = none) : absReg s' = absReg s ∨ ∃ k, absReg s' = (absReg s).erase k := by
  have habs := absReg_step hs h
  cases ev <;> simp [resOf] at hr
  · right; exact ⟨_, habs⟩
  · left; exact habs

/-! ### runs of the specification, from the right -/

theorem run_snoc_drop {c : Conf} {m m' : Reg} {l : List LinOp} (k : Bytes) (h : Run c m l m') :
    Run c m l (m'.erase k) := by
  induction h with
  | nil m => exact Run.drop k (Run.nil _)
  | drop k' _ ih => exact Run.drop k' ih
  | op hstep _ ih => exact Run.op hstep ih

theorem run_snoc_op {c : Conf} {m m1 m' : Reg} {l : List LinOp} {x : LinOp} (h : Run c m l m1)
    (hx : SeqStep c m1 x.op x.res m') : Run c m (l ++ [x]) m' := by
  induction h with
  | nil m => exact Run.op hx (Run.nil _)
  | drop k' _ ih => exact Run.drop k' (ih hx)
  | op hstep _ ih => exact Run.op hstep (ih hx)

/-! ### real-time order and `Before`, one event at a time -/

theorem before_append {l : List Nat} {a b : Nat} (l' : List Nat) (h : Before l a b) :
    Before (l ++ l') a b := by
  obtain ⟨l1, l2, l3, rfl⟩ := h
  exact ⟨l1, l2, l3 ++ l', by simp⟩

theorem before_snoc {l : List Nat} {a : Nat} (b : Nat) (h : a ∈ l) : Before (l ++ [b]) a b := by
  obtain ⟨l1, l2, rfl⟩ := List.append_of_mem h
  exact ⟨l1, l2, [], by simp⟩

theorem rt_snoc {h : History} {e : HEv} {a b : Nat} (hr : RtBefore (h ++ [e]) a b) :
    RtBefore h a b ∨ ((∃ op, e = .inv b op) ∧ ∃ r, HEv.ret a r ∈ h) := by
  obtain ⟨h1, h2, h3, r, op, heq⟩ := hr
  rcases List.eq_nil_or_concat h3 with rfl | ⟨h3', x, rfl⟩
  · right
    have : h ++ [e] = (h1 ++ HEv.ret a r :: h2) ++ [HEv.inv b op] := by simpa using heq
    obtain ⟨hh, he⟩ := List.append_inj' this rfl
    refine ⟨⟨op, by simpa using he⟩, r, ?_⟩
    rw [hh]; simp
  · left
    have : h ++ [e] = (h1 ++ HEv.ret a r :: h2 ++ HEv.inv b op :: h3') ++ [x] := by
      simpa using heq
    obtain ⟨hh, _⟩ := List.append_inj' this rfl
    exact ⟨h1, h2, h3', r, op, hh⟩

theorem historyOf_snoc (l : List KRec) (ev : KEv) (σ : KSt) :
    historyOf (l ++ [⟨ev, σ⟩]) = historyOf l ++ (match ev.hist with | some e => [e] | none => []) := by
  simp only [historyOf, List.filterMap_append]
  cases h : ev.hist <;> simp [h]

end GolibsVerif.C10
