/-
`insertionSortCmpFunc` of `Go/Sort.lean`: for every comparator it succeeds and permutes
`[a, b)`; for a strict weak order the range is sorted afterwards.
-/
import GolibsVerif.Lemmas.SortBasic

namespace GolibsVerif.Slices

variable {α : Type}

@[simp] theorem ok_bind {β γ : Type} (x : β) (f : β → GoM γ) : ((Except.ok x : GoM β) >>= f) = f x := rfl
@[simp] theorem pure_ok {β : Type} (x : β) : (pure x : GoM β) = .ok x := rfl

/-- invariant of the inner loop: all pairs of `[a, i]` are in order, except possibly the pairs
`(p, j)` with `p < j` -/
def InsInv (cmp : α → α → Int) (d : Array α) (a j i : Int) : Prop :=
  ∀ p q x y, a ≤ p → p < q → q ≤ i → q ≠ j → at? d p = some x → at? d q = some y → ¬ cmp y x < 0

theorem insertionInner_spec (cmp : α → α → Int) (i : Int) : ∀ (n : Nat) (d : Array α) (a j : Int),
    (j - a).toNat = n → 0 ≤ a → a ≤ j → j ≤ i → i < d.size →
    ∃ d', insertionInner cmp d a j = .ok d' ∧ Frame d d' a (j + 1) ∧
      (WeakCmp cmp → InsInv cmp d a j i → SortedOn cmp d' a (i + 1)) := by
  intro n
  induction n with
  | zero =>
    intro d a j hn ha haj hji hi
    have : ¬ j > a := by omega
    rw [insertionInner]
    simp only [this, if_false]
    refine ⟨_, rfl, Frame.refl .., ?_⟩
    intro _ hinv p q u v hp hpq hq hu hv
    unfold InsInv at hinv
    grind
  | succ n ih =>
    intro d a j hn ha haj hji hi
    have hja : j > a := by omega
    obtain ⟨x, hx⟩ := at?_eq_some (d := d) (i := j) (by omega) (by omega)
    obtain ⟨y, hy⟩ := at?_eq_some (d := d) (i := j - 1) (by omega) (by omega)
    rw [insertionInner]
    simp only [hja, if_true, get_ok hx, get_ok hy, ok_bind]
    split
    · rename_i hc
      obtain ⟨d1, hs, hf, hat⟩ := swap_frame (d := d) (i := j) (j := j - 1) (a := a) (b := j + 1) ha
        (by omega) (by omega) (by omega)
      simp only [hs, ok_bind]
      obtain ⟨d2, h2, hf2, hs2⟩ := ih d1 a (j - 1) (by omega) ha (by omega) (by omega) (by rw [hf.size]; omega)
      refine ⟨d2, h2, hf.trans (hf2.mono (Int.le_refl _) (by omega)), ?_⟩
      intro hw hinv
      apply hs2 hw
      intro p q u v hp hpq hq hne hu hv
      have hasym := hw.asymm hc
      rw [hat] at hu hv
      unfold InsInv at hinv
      grind
    · rename_i hc
      refine ⟨d, rfl, Frame.refl .., ?_⟩
      intro hw hinv p q u v hp hpq hq hu hv
      unfold InsInv at hinv
      have := hw.le_trans
      grind

theorem insertionOuter_spec (cmp : α → α → Int) : ∀ (n : Nat) (d : Array α) (a b i : Int),
    (b - i).toNat = n → 0 ≤ a → a < i → b ≤ d.size →
    ∃ d', insertionOuter cmp d a b i = .ok d' ∧ Frame d d' a b ∧
      (WeakCmp cmp → SortedOn cmp d a i → SortedOn cmp d' a b) := by
  intro n
  induction n with
  | zero =>
    intro d a b i hn ha hai hb
    have : ¬ i < b := by omega
    rw [insertionOuter]
    simp only [this, if_false]
    refine ⟨_, rfl, Frame.refl .., ?_⟩
    intro _ hs p q u v hp hpq hq hu hv
    exact hs p q u v hp hpq (by omega) hu hv
  | succ n ih =>
    intro d a b i hn ha hai hb
    have hib : i < b := by omega
    rw [insertionOuter]
    simp only [hib, if_true]
    obtain ⟨d1, h1, hf1, hs1⟩ := insertionInner_spec cmp i _ d a i rfl ha (by omega) (Int.le_refl _) (by omega)
    simp only [h1, ok_bind]
    obtain ⟨d2, h2, hf2, hs2⟩ := ih d1 a b (i + 1) (by omega) ha (by omega) (by rw [hf1.size]; exact hb)
    refine ⟨d2, h2, (hf1.mono (Int.le_refl _) (by omega)).trans hf2, ?_⟩
    intro hw hs
    apply hs2 hw
    apply hs1 hw
    intro p q u v hp hpq hq hne hu hv
    exact hs p q u v hp hpq (by omega) hu hv

theorem insertionSort_spec (cmp : α → α → Int) (d : Array α) (a b : Int) (ha : 0 ≤ a) (hb : b ≤ d.size) :
    ∃ d', insertionSort cmp d a b = .ok d' ∧ Frame d d' a b ∧ (WeakCmp cmp → SortedOn cmp d' a b) := by
  obtain ⟨d', h1, hf, hs⟩ := insertionOuter_spec cmp _ d a b (a + 1) rfl ha (by omega) hb
  refine ⟨d', h1, hf, fun hw => hs hw ?_⟩
  intro p q u v hp hpq hq hu hv
  omega

end GolibsVerif.Slices
