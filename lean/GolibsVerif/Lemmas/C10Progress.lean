/-
C10 — calls and their frames: a running `Set` owns exactly one frame, which has not returned,
and nobody else owns it.  From that: no call in flight is ever stuck (`call_can_step`).
-/
import GolibsVerif.Lemmas.C10Obs

namespace GolibsVerif.C10
open GolibsVerif.C09

structure CallFrames (σ : KSt) : Prop where
  /-- a running `Set` owns a frame with its key and value that has not returned -/
  own : ∀ (id : Nat) (op : Call) (i : Nat), σ.calls[id]? = some ⟨op, .running (some i)⟩ →
    ∃ f : Frame, σ.f.frames[i]? = some f ∧ f.phase ≠ .done ∧ op = .set f.key f.val
  /-- no two running calls own the same frame -/
  inj : ∀ (id id' : Nat) (op op' : Call) (i : Nat), σ.calls[id]? = some ⟨op, .running (some i)⟩ →
    σ.calls[id']? = some ⟨op', .running (some i)⟩ → id = id'
  /-- a running call without a frame is a one-section call -/
  one : ∀ (id : Nat) (op : Call), σ.calls[id]? = some ⟨op, .running none⟩ → ∀ k v, op ≠ .set k v

theorem CallFrames.init : CallFrames KSt.init :=
  ⟨by simp [KSt.init], by simp [KSt.init], by simp [KSt.init]⟩

/-- what a section of frame `i` does to the frames: frame `i` changes phase — to `done` exactly
when the section fixes the result — and every other frame stays -/
theorem fstep_frame_phase {c : Conf} {σ σ' : FSt} {i : Nat} {ev : Ev}
    (hs : FStep c σ (.sec (some i) ev) σ') :
    ∃ (f : Frame) (p : Phase), σ.frames[i]? = some f ∧
      (∀ j, σ'.frames[j]? = if j = i then some { f with phase := p } else σ.frames[j]?) ∧
      (p = .done ↔ (resOf ev).isSome) := by
  generalize hev : FEv.sec (some i) ev = lab at hs
  cases hs with
  | call => cases hev
  | refuse j g hg hp hc =>
    injection hev with hw hev; injection hw with hw; subst hw; subst hev
    exact ⟨g, .done, hg, fun j => move_frames _ _ hg j, by simp [resOf]⟩
  | evict j g s' e hg hh hfull he =>
    injection hev with hw hev; injection hw with hw; subst hw; subst hev
    refine ⟨g, _, hg, fun j => move_frames _ _ hg j, ?_⟩
    cases c.hasCb <;> simp [resOf]
  | onDelete j g k v hg hp =>
    injection hev with hw hev; injection hw with hw; subst hw; subst hev
    exact ⟨g, .loop, hg, fun j => move_frames _ _ hg j, by simp [resOf]⟩
  | commit j g s' r hg hh hfull hc =>
    injection hev with hw hev; injection hw with hw; subst hw; subst hev
    exact ⟨g, .done, hg, fun j => move_frames _ _ hg j, by simp [resOf]⟩
  | get => cases hev
  | del => cases hev
  | clear => cases hev
  | stats => cases hev

/-- a section of a one-section call leaves the frames alone -/
theorem fstep_none_frames {c : Conf} {σ σ' : FSt} {ev : Ev} (hs : FStep c σ (.sec none ev) σ') :
    σ'.frames = σ.frames := by
  generalize hev : FEv.sec none ev = lab at hs
  cases hs with
  | call => cases hev
  | refuse j g hg hp hc => injection hev with hw _; cases hw
  | evict j g s' e hg hh hfull he => injection hev with hw _; cases hw
  | onDelete j g k v hg hp => injection hev with hw _; cases hw
  | commit j g s' r hg hh hfull hc => injection hev with hw _; cases hw
  | get => rfl
  | del => rfl
  | clear => rfl
  | stats => rfl

theorem callFrames_step {c : Conf} {σ σ' : KSt} {ev : KEv} (h : CallFrames σ)
    (hs : KStep c σ ev σ') : CallFrames σ' := by
  cases hs with
  | invSet k v f' hf =>
    cases hf with
    | call =>
      have hlt : ∀ (id : Nat) (op : Call) (i : Nat),
          σ.calls[id]? = some ⟨op, .running (some i)⟩ → i < σ.f.frames.length := by
        intro id op i hc
        obtain ⟨f, hf, _⟩ := h.own id op i hc
        exact lt_of_getElem? hf
      refine ⟨?_, ?_, ?_⟩
      · intro id op i hc
        rcases getElem?_snoc_lt hc with h1 | ⟨_, heq⟩
        · obtain ⟨f, hf, hp, hop⟩ := h.own id op i h1
          exact ⟨f, getElem?_append_some _ hf, hp, hop⟩
        · injection heq with h1 h2; injection h2 with h2; injection h2 with h2
          subst h1; subst h2
          exact ⟨⟨k, v, .start⟩, by simp, by simp, rfl⟩
      · intro id id' op op' i hc hc'
        rcases getElem?_snoc_lt hc with h1 | ⟨hid, heq⟩ <;>
          rcases getElem?_snoc_lt hc' with h1' | ⟨hid', heq'⟩
        · exact h.inj id id' op op' i h1 h1'
        · injection heq' with _ h2; injection h2 with h2; injection h2 with h2
          have := hlt id op i h1; omega
        · injection heq with _ h2; injection h2 with h2; injection h2 with h2
          have := hlt id' op' i h1'; omega
        · omega
      · intro id op hc
        rcases getElem?_snoc_lt hc with h1 | ⟨_, heq⟩
        · exact h.one id op h1
        · injection heq with _ h2; injection h2 with h2; cases h2
  | inv op hop =>
    refine ⟨?_, ?_, ?_⟩
    · intro id op' i hc
      rcases getElem?_snoc_lt hc with h1 | ⟨_, heq⟩
      · exact h.own id op' i h1
      · injection heq with _ h2; injection h2 with h2; cases h2
    · intro id id' op1 op2 i hc hc'
      rcases getElem?_snoc_lt hc with h1 | ⟨_, heq⟩
      · rcases getElem?_snoc_lt hc' with h1' | ⟨_, heq'⟩
        · exact h.inj id id' op1 op2 i h1 h1'
        · injection heq' with _ h2; injection h2 with h2; cases h2
      · injection heq with _ h2; injection h2 with h2; cases h2
    · intro id op' hc
      rcases getElem?_snoc_lt hc with h1 | ⟨_, heq⟩
      · exact h.one id op' h1
      · injection heq with h1 _; subst h1; exact hop
  | secSet id i k v e f' hc hf =>
    obtain ⟨f, p, hff, hfr, hdone⟩ := fstep_frame_phase hf
    -- any other running call keeps its entry and owns a different frame
    have other : ∀ (j : Nat) (cs : CallSt),
        (σ.calls.set id ⟨.set k v, statusAfter (some i) e⟩)[j]? = some cs → j ≠ id →
        σ.calls[j]? = some cs := by
      intro j cs hcs hj
      rwa [getElem?_set_ne' hj] at hcs
    refine ⟨?_, ?_, ?_⟩
    · intro j op i' hcs
      rcases getElem?_set_cases hcs with ⟨rfl, heq⟩ | ⟨hj, h1⟩
      · injection heq with h1 h2
        simp only [statusAfter] at h2
        cases hr : resOf e with
        | some r => rw [hr] at h2; cases h2
        | none =>
          rw [hr] at h2; injection h2 with h2; injection h2 with h2; subst h2
          obtain ⟨f0, hf0, _, hop0⟩ := h.own _ _ _ hc
          rw [hff] at hf0; injection hf0 with hf0; subst hf0
          refine ⟨{ f with phase := p }, by rw [hfr]; simp, ?_, by rw [h1]; exact hop0⟩
          intro hp
          have := hdone.1 hp
          rw [hr] at this; cases this
      · obtain ⟨f0, hf0, hp0, hop0⟩ := h.own j op i' h1
        have hne : i' ≠ i := by
          intro he; subst he
          exact hj (h.inj j id op (.set k v) i' h1 hc)
        exact ⟨f0, by rw [hfr]; simp [hne, hf0], hp0, hop0⟩
    · intro j j' op op' i' hcs hcs'
      have back : ∀ (x : Nat) (o : Call),
          (σ.calls.set id ⟨.set k v, statusAfter (some i) e⟩)[x]? = some ⟨o, .running (some i')⟩ →
          ∃ o', σ.calls[x]? = some ⟨o', .running (some i')⟩ := by
        intro x o hx
        rcases getElem?_set_cases hx with ⟨rfl, heq⟩ | ⟨_, h1⟩
        · injection heq with _ h2
          simp only [statusAfter] at h2
          cases hr : resOf e with
          | some r => rw [hr] at h2; cases h2
          | none =>
            rw [hr] at h2; injection h2 with h2; injection h2 with h2; subst h2
            exact ⟨_, hc⟩
        · exact ⟨o, h1⟩
      obtain ⟨o1, h1⟩ := back j op hcs
      obtain ⟨o2, h2⟩ := back j' op' hcs'
      exact h.inj j j' o1 o2 i' h1 h2
    · intro j op hcs
      rcases getElem?_set_cases hcs with ⟨rfl, heq⟩ | ⟨_, h1⟩
      · injection heq with _ h2
        simp only [statusAfter] at h2
        cases hr : resOf e with
        | some r => rw [hr] at h2; cases h2
        | none => rw [hr] at h2; injection h2 with h2; cases h2
      · exact h.one j op h1
  | secOne id op e f' hc hsecof hf =>
    have hfr := fstep_none_frames hf
    have hfin : ∃ r, statusAfter none e = .finished r := by
      cases op <;> cases e <;> simp_all [IsSecOf, statusAfter, resOf]
    obtain ⟨r, hr⟩ := hfin
    have back : ∀ (x : Nat) (cs : CallSt) (fr : Option Nat),
        (σ.calls.set id ⟨op, statusAfter none e⟩)[x]? = some cs → cs.st = .running fr →
        σ.calls[x]? = some cs := by
      intro x cs fr hx hst
      rcases getElem?_set_cases hx with ⟨rfl, heq⟩ | ⟨_, h1⟩
      · subst heq; rw [hr] at hst; cases hst
      · exact h1
    refine ⟨?_, ?_, ?_⟩
    · intro j op' i' hcs
      obtain ⟨f0, hf0, hp0⟩ := h.own j op' i' (back j _ _ hcs rfl)
      exact ⟨f0, by rw [hfr]; exact hf0, hp0⟩
    · intro j j' o o' i' hcs hcs'
      exact h.inj j j' o o' i' (back j _ _ hcs rfl) (back j' _ _ hcs' rfl)
    · intro j op' hcs
      exact h.one j op' (back j _ _ hcs rfl)
  | ret id op r hc =>
    have back : ∀ (x : Nat) (cs : CallSt) (fr : Option Nat),
        (σ.calls.set id ⟨op, .returned r⟩)[x]? = some cs → cs.st = .running fr →
        σ.calls[x]? = some cs := by
      intro x cs fr hx hst
      rcases getElem?_set_cases hx with ⟨rfl, heq⟩ | ⟨_, h1⟩
      · subst heq; cases hst
      · exact h1
    refine ⟨?_, ?_, ?_⟩
    · intro j op' i' hcs
      exact h.own j op' i' (back j _ _ hcs rfl)
    · intro j j' o o' i' hcs hcs'
      exact h.inj j j' o o' i' (back j _ _ hcs rfl) (back j' _ _ hcs' rfl)
    · intro j op' hcs
      exact h.one j op' (back j _ _ hcs rfl)

theorem callFrames_reachable {c : Conf} {log : List KRec} {σ : KSt}
    (ht : CTrace c KSt.init log σ) : CallFrames σ := by
  refine ctrace_snoc_ind (P := fun _ σ => CallFrames σ) CallFrames.init ?_ ht
  intro l σ ev σ' _ ih hstep
  exact callFrames_step ih hstep

/-- **no call in flight is stuck**: a running call can run its next section -/
theorem call_can_step {c : Conf} (ok : ConfOk c) {log : List KRec} {σ : KSt}
    (ht : CTrace c KSt.init log σ) {id : Nat} {op : Call} {fr : Option Nat}
    (hc : σ.calls[id]? = some ⟨op, .running fr⟩) : ∃ ev σ', KStep c σ (.sec id ev) σ' := by
  have hcf := callFrames_reachable ht
  obtain ⟨hinv, _⟩ := ctrace_inv ht
  cases fr with
  | some i =>
    obtain ⟨f, hf, hnd, rfl⟩ := hcf.own id op i hc
    obtain ⟨ev, σf, hstep⟩ := frame_progress ok (ctrace_ftrace ht) hf hnd
    exact ⟨ev, _, KStep.secSet σ id i f.key f.val ev σf hc hstep⟩
  | none =>
    have hone := hcf.one id op hc
    cases op with
    | set k v => exact absurd rfl (hone k v)
    | get k =>
      obtain ⟨_, _, ⟨sg, rg, hg⟩, _⟩ := sections_total ok hinv k []
      exact ⟨_, _, KStep.secOne σ id _ (.get k rg) _ hc rfl (FStep.get σ.f sg k rg hg)⟩
    | del k =>
      obtain ⟨_, _, _, ⟨sd, hd⟩⟩ := sections_total ok hinv k []
      exact ⟨_, _, KStep.secOne σ id _ (.del k) _ hc rfl (FStep.del σ.f sd k hd)⟩
    | clear => exact ⟨_, _, KStep.secOne σ id _ .clear _ hc trivial (FStep.clear σ.f)⟩
    | stats => exact ⟨_, _, KStep.secOne σ id _ (.stats _) _ hc trivial (FStep.stats σ.f)⟩

end GolibsVerif.C10
