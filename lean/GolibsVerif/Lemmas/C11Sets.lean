/-
C11 — helper lemmas for the two set containers.
-/
import GolibsVerif.Spec.C11

namespace GolibsVerif.C11

open GoOrdered (lt)

section Ordered
variable {T : Type} [GoOrdered T]

theorem less_iff {a b : T} : less a b = true ↔ lt a b := by simp [less]

theorem less_false_iff {a b : T} : less a b = false ↔ ¬ lt a b := by simp [less]

theorem lt_asymm {a b : T} (h : lt a b) : ¬ lt b a :=
  fun h' => GoOrdered.irrefl a (GoOrdered.trans a b a h h')

theorem cmpEq_iff {a b : T} : cmpEq a b = true ↔ a = b := by
  simp only [cmpEq, Bool.and_eq_true, Bool.not_eq_true', less_false_iff]
  constructor
  · intro ⟨h1, h2⟩
    rcases GoOrdered.total a b with h | h | h
    · exact absurd h h1
    · exact h
    · exact absurd h h2
  · intro h; subst h; exact ⟨GoOrdered.irrefl a, GoOrdered.irrefl a⟩

theorem cmpEq_self (a : T) : cmpEq a a = true := cmpEq_iff.2 rfl

theorem cmpEq_false_of_lt {a b : T} (h : lt a b) : cmpEq a b = false := by
  cases hc : cmpEq a b
  · rfl
  · have := cmpEq_iff.1 hc; subst this; exact absurd h (GoOrdered.irrefl a)

/-- `¬ (b < a)`, i.e. `a ≤ b` -/
def le (a b : T) : Prop := ¬ lt b a

theorem le_trans' {a b c : T} (h1 : le a b) (h2 : le b c) : le a c := by
  intro hca
  rcases GoOrdered.total a b with h | h | h
  · exact h2 (GoOrdered.trans c a b hca h)
  · subst h; exact h2 hca
  · exact h1 h

theorem lt_of_lt_of_le' {a b c : T} (h1 : lt a b) (h2 : le b c) : lt a c := by
  rcases GoOrdered.total a c with h | h | h
  · exact h
  · subst h; exact absurd h1 h2
  · exact absurd (GoOrdered.trans c a b h h1) h2

theorem lt_or_eq_of_le' {a b : T} (h : le a b) : lt a b ∨ a = b := by
  rcases GoOrdered.total a b with h' | h' | h'
  · exact Or.inl h'
  · exact Or.inr h'
  · exact absurd h' h

/-! ### sort -/

theorem mem_insertSorted {v x : T} {l : List T} : x ∈ insertSorted v l ↔ x = v ∨ x ∈ l := by
  induction l with
  | nil => simp [insertSorted]
  | cons y ys ih =>
    simp only [insertSorted]
    split
    · simp
    · simp [ih]; constructor <;> (intro h; rcases h with h | h | h <;> simp [h])

theorem mem_sort {x : T} {l : List T} : x ∈ sort l ↔ x ∈ l := by
  induction l with
  | nil => simp [sort]
  | cons y ys ih => simp [sort, mem_insertSorted, ih]

theorem sorted_insertSorted {v : T} {l : List T} (h : l.Pairwise le) :
    (insertSorted v l).Pairwise le := by
  induction l with
  | nil => simp [insertSorted]
  | cons y ys ih =>
    simp only [insertSorted]
    rw [List.pairwise_cons] at h
    by_cases hl : less v y = true
    · rw [if_pos hl]
      have hvy : lt v y := less_iff.1 hl
      refine List.pairwise_cons.2 ⟨?_, List.pairwise_cons.2 h⟩
      intro z hz
      rcases List.mem_cons.1 hz with rfl | hz
      · exact lt_asymm hvy
      · exact le_trans' (lt_asymm hvy) (h.1 z hz)
    · rw [if_neg hl]
      have hyv : le y v := fun hh => hl (less_iff.2 hh)
      refine List.pairwise_cons.2 ⟨?_, ih h.2⟩
      intro z hz
      rcases mem_insertSorted.1 hz with rfl | hz
      · exact hyv
      · exact h.1 z hz

theorem sorted_sort (l : List T) : (sort l).Pairwise le := by
  induction l with
  | nil => simp [sort]
  | cons y ys ih => exact sorted_insertSorted ih

theorem insertSorted_of_lt_all {v : T} {l : List T} (h : ∀ x ∈ l, lt v x) :
    insertSorted v l = v :: l := by
  cases l with
  | nil => rfl
  | cons y ys => simp [insertSorted, less_iff.2 (h y (by simp))]

theorem sort_of_strictAsc {l : List T} (h : StrictAsc l) : sort l = l := by
  induction l with
  | nil => rfl
  | cons y ys ih =>
    rw [StrictAsc, List.pairwise_cons] at h
    rw [sort, ih h.2, insertSorted_of_lt_all h.1]

/-! ### compact -/

theorem compactAux_spec (prev : T) (l : List T) (h : (prev :: l).Pairwise le) :
    StrictAsc (compactAux cmpEq prev l) ∧ (∀ x ∈ compactAux cmpEq prev l, lt prev x ∧ x ∈ l) ∧
    (∀ x ∈ l, x = prev ∨ x ∈ compactAux cmpEq prev l) := by
  induction l generalizing prev with
  | nil => simp [compactAux, StrictAsc]
  | cons y ys ih =>
    rw [List.pairwise_cons] at h
    have hy := ih y h.2
    simp only [compactAux]
    by_cases hc : cmpEq y prev = true
    · have : y = prev := cmpEq_iff.1 hc
      subst this
      rw [if_pos hc]
      refine ⟨hy.1, fun x hx => ⟨(hy.2.1 x hx).1, List.mem_cons_of_mem _ (hy.2.1 x hx).2⟩, ?_⟩
      intro x hx
      rcases List.mem_cons.1 hx with rfl | hx
      · exact Or.inl rfl
      · exact hy.2.2 x hx
    · rw [if_neg hc]
      have hlt : lt prev y := by
        rcases lt_or_eq_of_le' (h.1 y (by simp)) with h' | h'
        · exact h'
        · subst h'; exact absurd (cmpEq_self prev) hc
      refine ⟨List.pairwise_cons.2 ⟨fun x hx => (hy.2.1 x hx).1, hy.1⟩, ?_, ?_⟩
      · intro x hx
        rcases List.mem_cons.1 hx with rfl | hx
        · exact ⟨hlt, by simp⟩
        · exact ⟨GoOrdered.trans _ _ _ hlt (hy.2.1 x hx).1, List.mem_cons_of_mem _ (hy.2.1 x hx).2⟩
      · intro x hx
        rcases List.mem_cons.1 hx with rfl | hx
        · exact Or.inr (by simp)
        · rcases hy.2.2 x hx with rfl | hx'
          · exact Or.inr (by simp)
          · exact Or.inr (List.mem_cons_of_mem _ hx')

theorem compactBy_spec (l : List T) (h : l.Pairwise le) :
    StrictAsc (compactBy cmpEq l) ∧ ∀ x, x ∈ compactBy cmpEq l ↔ x ∈ l := by
  cases l with
  | nil => simp [compactBy, StrictAsc]
  | cons y ys =>
    have := compactAux_spec y ys h
    simp only [compactBy]
    refine ⟨List.pairwise_cons.2 ⟨fun x hx => (this.2.1 x hx).1, this.1⟩, ?_⟩
    intro x
    constructor
    · intro hx
      rcases List.mem_cons.1 hx with rfl | hx
      · simp
      · exact List.mem_cons_of_mem _ (this.2.1 x hx).2
    · intro hx
      rcases List.mem_cons.1 hx with rfl | hx
      · simp
      · rcases this.2.2 x hx with rfl | hx'
        · simp
        · exact List.mem_cons_of_mem _ hx'

theorem compactAux_of_strictAsc (prev : T) (l : List T) (h : StrictAsc (prev :: l)) :
    compactAux cmpEq prev l = l := by
  induction l generalizing prev with
  | nil => rfl
  | cons y ys ih =>
    rw [StrictAsc, List.pairwise_cons] at h
    have hlt : lt prev y := h.1 y (by simp)
    have hc : cmpEq y prev = false := by
      cases hc : cmpEq y prev
      · rfl
      · have := cmpEq_iff.1 hc; subst this; exact absurd hlt (GoOrdered.irrefl _)
    simp only [compactAux, hc]
    rw [ih y h.2]
    simp

theorem compactBy_of_strictAsc (l : List T) (h : StrictAsc l) : compactBy cmpEq l = l := by
  cases l with
  | nil => rfl
  | cons y ys => simp [compactBy, compactAux_of_strictAsc y ys h]

/-- the constructor yields a strictly ascending list with the members of its argument -/
theorem new_spec (init : List T) :
    StrictAsc (SSS.new init).elems ∧ ∀ x, x ∈ (SSS.new init).elems ↔ x ∈ init := by
  have := compactBy_spec (sort init) (sorted_sort init)
  exact ⟨this.1, fun x => (this.2 x).trans mem_sort⟩

theorem new_of_strictAsc (l : List T) (h : StrictAsc l) : SSS.new l = ⟨l⟩ := by
  simp [SSS.new, sort_of_strictAsc h, compactBy_of_strictAsc l h]

/-! ### Add / Delete / Has as structural recursions -/

def addSpec (v : T) : List T → List T
  | [] => [v]
  | x :: xs => if less x v then x :: addSpec v xs else if cmpEq x v then x :: xs else v :: x :: xs

def delSpec (v : T) : List T → List T
  | [] => []
  | x :: xs => if less x v then x :: delSpec v xs else if cmpEq x v then xs else x :: xs

def hasSpec (v : T) : List T → Bool
  | [] => false
  | x :: xs => if less x v then hasSpec v xs else cmpEq x v

theorem binarySearch_cons_lt (x v : T) (xs : List T) (h : less x v = true) :
    binarySearch (x :: xs) v = ((binarySearch xs v).1 + 1, (binarySearch xs v).2) := by
  simp [binarySearch, lowerBound, h]

theorem binarySearch_cons_ge (x v : T) (xs : List T) (h : less x v = false) :
    binarySearch (x :: xs) v = (0, cmpEq x v) := by
  simp [binarySearch, lowerBound, h]

theorem lowerBound_le (v : T) (l : List T) : lowerBound v l ≤ l.length := by
  induction l with
  | nil => simp [lowerBound]
  | cons x xs ih => simp only [lowerBound]; split <;> simp; omega

theorem has_eq (l : List T) (v : T) : SSS.has ⟨l⟩ v = hasSpec v l := by
  induction l with
  | nil => simp [SSS.has, binarySearch, lowerBound, hasSpec]
  | cons x xs ih =>
    simp only [SSS.has] at ih ⊢
    by_cases h : less x v = true
    · simp [binarySearch_cons_lt x v xs h, hasSpec, h, ih]
    · have h' : less x v = false := by simpa using h
      simp [binarySearch_cons_ge x v xs h', hasSpec, h']

theorem add_eq (l : List T) (v : T) : SSS.add ⟨l⟩ v = .ok ⟨addSpec v l⟩ := by
  induction l with
  | nil => simp [SSS.add, binarySearch, lowerBound, insertAt, addSpec, bind, Except.bind]
  | cons x xs ih =>
    by_cases h : less x v = true
    · simp only [SSS.add, binarySearch_cons_lt x v xs h, addSpec, h, if_true] at ih ⊢
      cases hf : (binarySearch xs v).2
      · simp only [hf, Bool.not_false, if_true, bind, Except.bind] at ih ⊢
        have hle : (binarySearch xs v).1 ≤ xs.length := lowerBound_le v xs
        simp only [insertAt, hle, if_true] at ih
        have hle' : (binarySearch xs v).1 + 1 ≤ (x :: xs).length := by simp; omega
        simp only [insertAt, hle', if_true]
        simp only [Except.ok.injEq, SSS.mk.injEq] at ih
        simp [← ih]
      · simp only [hf, Bool.not_true, Bool.false_eq_true, if_false] at ih ⊢
        simp only [Except.ok.injEq, SSS.mk.injEq] at ih
        simp [← ih]
    · have h' : less x v = false := by simpa using h
      simp only [SSS.add, binarySearch_cons_ge x v xs h', addSpec, h']
      cases hc : cmpEq x v <;> simp [insertAt, bind, Except.bind]

theorem delete_eq (l : List T) (v : T) : SSS.delete ⟨l⟩ v = .ok ⟨delSpec v l⟩ := by
  induction l with
  | nil => simp [SSS.delete, binarySearch, lowerBound, delSpec]
  | cons x xs ih =>
    by_cases h : less x v = true
    · simp only [SSS.delete, binarySearch_cons_lt x v xs h, delSpec, h, if_true] at ih ⊢
      cases hf : (binarySearch xs v).2
      · simp only [hf, Bool.false_eq_true, if_false] at ih ⊢
        simp only [Except.ok.injEq, SSS.mk.injEq] at ih
        simp [← ih]
      · simp only [hf, if_true, bind, Except.bind] at ih ⊢
        by_cases hle : (binarySearch xs v).1 + 1 ≤ xs.length
        · have hle' : (binarySearch xs v).1 + 1 + 1 ≤ (x :: xs).length := by simp; omega
          simp only [deleteRange, hle, Nat.le_add_right, true_and, if_true] at ih
          simp only [deleteRange, hle', Nat.le_add_right, true_and, if_true]
          simp only [Except.ok.injEq, SSS.mk.injEq] at ih
          simp [← ih]
        · simp [deleteRange, hle] at ih
    · have h' : less x v = false := by simpa using h
      simp only [SSS.delete, binarySearch_cons_ge x v xs h', delSpec, h']
      cases hc : cmpEq x v <;> simp [deleteRange, bind, Except.bind]

/-! ### the structural versions on strictly ascending lists -/

theorem mem_addSpec {v x : T} {l : List T} : x ∈ addSpec v l ↔ x = v ∨ x ∈ l := by
  induction l with
  | nil => simp [addSpec]
  | cons y ys ih =>
    simp only [addSpec]
    split
    · simp [ih]; constructor <;> (intro h; rcases h with h | h | h <;> simp [h])
    · split
      · rename_i hc
        have := cmpEq_iff.1 hc; subst this
        simp
      · simp

theorem strictAsc_addSpec {v : T} {l : List T} (h : StrictAsc l) : StrictAsc (addSpec v l) := by
  induction l with
  | nil => simp [addSpec, StrictAsc]
  | cons y ys ih =>
    rw [StrictAsc, List.pairwise_cons] at h
    simp only [addSpec]
    by_cases hl : less y v = true
    · rw [if_pos hl]
      refine List.pairwise_cons.2 ⟨?_, ih h.2⟩
      intro z hz
      rcases mem_addSpec.1 hz with rfl | hz
      · exact less_iff.1 hl
      · exact h.1 z hz
    · rw [if_neg hl]
      by_cases hc : cmpEq y v = true
      · rw [if_pos hc]; exact List.pairwise_cons.2 h
      · rw [if_neg hc]
        have hvy : lt v y := by
          rcases GoOrdered.total v y with h' | h' | h'
          · exact h'
          · subst h'; exact absurd (cmpEq_self v) hc
          · exact absurd (less_iff.2 h') hl
        refine List.pairwise_cons.2 ⟨?_, List.pairwise_cons.2 h⟩
        intro z hz
        rcases List.mem_cons.1 hz with rfl | hz
        · exact hvy
        · exact GoOrdered.trans _ _ _ hvy (h.1 z hz)

theorem mem_delSpec {v x : T} {l : List T} (h : StrictAsc l) :
    x ∈ delSpec v l ↔ x ∈ l ∧ x ≠ v := by
  induction l with
  | nil => simp [delSpec]
  | cons y ys ih =>
    rw [StrictAsc, List.pairwise_cons] at h
    simp only [delSpec]
    by_cases hl : less y v = true
    · rw [if_pos hl]
      have hyv : lt y v := less_iff.1 hl
      have hne : y ≠ v := fun e => by subst e; exact GoOrdered.irrefl _ hyv
      simp only [List.mem_cons, ih h.2]
      constructor
      · rintro (rfl | ⟨h1, h2⟩)
        · exact ⟨Or.inl rfl, hne⟩
        · exact ⟨Or.inr h1, h2⟩
      · rintro ⟨rfl | h1, h2⟩
        · exact Or.inl rfl
        · exact Or.inr ⟨h1, h2⟩
    · rw [if_neg hl]
      by_cases hc : cmpEq y v = true
      · rw [if_pos hc]
        have := cmpEq_iff.1 hc; subst this
        constructor
        · intro hx
          exact ⟨List.mem_cons_of_mem _ hx, fun e => by subst e; exact GoOrdered.irrefl _ (h.1 _ hx)⟩
        · rintro ⟨hx, hne⟩
          rcases List.mem_cons.1 hx with rfl | hx
          · exact absurd rfl hne
          · exact hx
      · rw [if_neg hc]
        -- `v < y`: `v` is below every element, hence not in the list
        have hvy : lt v y := by
          rcases GoOrdered.total v y with h' | h' | h'
          · exact h'
          · subst h'; exact absurd (cmpEq_self v) hc
          · exact absurd (less_iff.2 h') hl
        constructor
        · intro hx
          refine ⟨hx, fun e => ?_⟩
          subst e
          rcases List.mem_cons.1 hx with rfl | hx
          · exact GoOrdered.irrefl _ hvy
          · exact lt_asymm hvy (h.1 _ hx)
        · exact fun hx => hx.1

theorem strictAsc_delSpec {v : T} {l : List T} (h : StrictAsc l) : StrictAsc (delSpec v l) := by
  induction l with
  | nil => simp [delSpec, StrictAsc]
  | cons y ys ih =>
    have h' := h
    rw [StrictAsc, List.pairwise_cons] at h
    simp only [delSpec]
    split
    · refine List.pairwise_cons.2 ⟨?_, ih h.2⟩
      intro z hz
      exact h.1 z ((mem_delSpec h.2).1 hz).1
    · split
      · exact h.2
      · exact h'

theorem hasSpec_iff {v : T} {l : List T} (h : StrictAsc l) : hasSpec v l = true ↔ v ∈ l := by
  induction l with
  | nil => simp [hasSpec]
  | cons y ys ih =>
    rw [StrictAsc, List.pairwise_cons] at h
    simp only [hasSpec]
    by_cases hl : less y v = true
    · rw [if_pos hl, ih h.2]
      have hyv : lt y v := less_iff.1 hl
      have hne : v ≠ y := fun e => by subst e; exact GoOrdered.irrefl _ hyv
      simp [hne]
    · rw [if_neg hl, cmpEq_iff]
      constructor
      · intro e; simp [e]
      · intro hv
        rcases List.mem_cons.1 hv with rfl | hv
        · rfl
        · exact absurd (less_iff.2 (h.1 v hv)) hl

/-! ### Equal -/

theorem equalElems_iff (a b : List T) : SSS.equalElems a b = true ↔ a = b := by
  induction a generalizing b with
  | nil => cases b <;> simp [SSS.equalElems]
  | cons x xs ih => cases b with
    | nil => simp [SSS.equalElems]
    | cons y ys => simp [SSS.equalElems, cmpEq_iff, ih]

/-- a strictly ascending list is determined by its members -/
theorem strictAsc_ext {a b : List T} (ha : StrictAsc a) (hb : StrictAsc b)
    (h : ∀ x, x ∈ a ↔ x ∈ b) : a = b := by
  induction a generalizing b with
  | nil =>
    cases b with
    | nil => rfl
    | cons y ys => exact absurd ((h y).2 (by simp)) (by simp)
  | cons x xs ih =>
    cases b with
    | nil => exact absurd ((h x).1 (by simp)) (by simp)
    | cons y ys =>
      rw [StrictAsc, List.pairwise_cons] at ha hb
      have hxy : x = y := by
        have h1 := (h x).1 (by simp)
        have h2 := (h y).2 (by simp)
        rcases List.mem_cons.1 h1 with e | h1
        · exact e
        · rcases List.mem_cons.1 h2 with e | h2
          · exact e.symm
          · exact absurd (ha.1 y h2) (lt_asymm (hb.1 x h1))
      subst hxy
      congr 1
      apply ih ha.2 hb.2
      intro z
      constructor
      · intro hz
        rcases List.mem_cons.1 ((h z).1 (List.mem_cons_of_mem _ hz)) with e | hz'
        · subst e; exact absurd (ha.1 z hz) (GoOrdered.irrefl _)
        · exact hz'
      · intro hz
        rcases List.mem_cons.1 ((h z).2 (List.mem_cons_of_mem _ hz)) with e | hz'
        · subst e; exact absurd (hb.1 z hz) (GoOrdered.irrefl _)
        · exact hz'

theorem strictAsc_nodup {l : List T} (h : StrictAsc l) : l.Nodup := by
  refine List.Pairwise.imp ?_ h
  intro a b hab e
  subst e
  exact GoOrdered.irrefl _ hab

end Ordered

/-! ### MapSet -/

section MapSet
variable {T : Type} [DecidableEq T]

theorem ms_mem_add {s : MS T} {v x : T} : x ∈ (s.add v).keys ↔ x = v ∨ x ∈ s.keys := by
  simp only [MS.add]
  split
  · rename_i h
    constructor
    · exact Or.inr
    · rintro (rfl | h') <;> assumption
  · simp [or_comm]

theorem ms_nodup_add {s : MS T} {v : T} (h : s.keys.Nodup) : (s.add v).keys.Nodup := by
  simp only [MS.add]
  split
  · exact h
  · rename_i hv
    rw [List.nodup_append]
    refine ⟨h, by simp, ?_⟩
    intro a ha b hb
    simp at hb
    subst hb
    intro e
    subst e
    exact hv ha

theorem ms_mem_delete {s : MS T} {v x : T} (h : s.keys.Nodup) :
    x ∈ (s.delete v).keys ↔ x ∈ s.keys ∧ x ≠ v := by
  simp only [MS.delete]
  rw [h.mem_erase_iff]
  exact And.comm

theorem ms_nodup_delete {s : MS T} {v : T} (h : s.keys.Nodup) : (s.delete v).keys.Nodup :=
  h.erase v

theorem ms_new_spec (values : List T) (s : MS T) (h : s.keys.Nodup) :
    (values.foldl MS.add s).keys.Nodup ∧
    ∀ x, x ∈ (values.foldl MS.add s).keys ↔ x ∈ s.keys ∨ x ∈ values := by
  induction values generalizing s with
  | nil => simp [h]
  | cons v vs ih =>
    have := ih (s.add v) (ms_nodup_add h)
    refine ⟨this.1, fun x => ?_⟩
    rw [List.foldl_cons, this.2 x, ms_mem_add]
    simp only [List.mem_cons]
    constructor
    · rintro ((h1 | h1) | h1)
      · exact Or.inr (Or.inl h1)
      · exact Or.inl h1
      · exact Or.inr (Or.inr h1)
    · rintro (h1 | h1 | h1)
      · exact Or.inl (Or.inr h1)
      · exact Or.inl (Or.inl h1)
      · exact Or.inr h1

/-- pigeonhole: a duplicate-free list contained in a list that is not longer exhausts it -/
theorem subset_of_nodup_length {a b : List T} (ha : a.Nodup) (hsub : ∀ x ∈ a, x ∈ b)
    (hlen : b.length ≤ a.length) : ∀ x ∈ b, x ∈ a := by
  induction a generalizing b with
  | nil =>
    intro x hx
    cases b with
    | nil => exact hx
    | cons y ys => simp at hlen
  | cons y ys ih =>
    rw [List.nodup_cons] at ha
    have hyb : y ∈ b := hsub y (by simp)
    have hsub' : ∀ x ∈ ys, x ∈ b.erase y := by
      intro x hx
      have hne : x ≠ y := fun e => by subst e; exact ha.1 hx
      exact (List.mem_erase_of_ne hne).2 (hsub x (by simp [hx]))
    have hlen' : (b.erase y).length ≤ ys.length := by
      rw [List.length_erase_of_mem hyb]; simp at hlen; omega
    have := ih ha.2 hsub' hlen'
    intro x hx
    by_cases hxy : x = y
    · simp [hxy]
    · exact List.mem_cons_of_mem _ (this x ((List.mem_erase_of_ne hxy).2 hx))

theorem equalMaps_iff {a b : MS T} (ha : a.keys.Nodup) (hb : b.keys.Nodup) :
    MS.equalMaps a b = true ↔ ∀ x, x ∈ a.keys ↔ x ∈ b.keys := by
  simp only [MS.equalMaps, Bool.and_eq_true, beq_iff_eq, List.all_eq_true, decide_eq_true_eq]
  constructor
  · rintro ⟨hlen, hsub⟩ x
    exact ⟨hsub x, subset_of_nodup_length ha hsub (by omega) x⟩
  · intro h
    refine ⟨?_, fun x hx => (h x).1 hx⟩
    have h1 : a.keys.length ≤ b.keys.length := by
      have := subset_of_nodup_length (a := a.keys) (b := b.keys) ha (fun x hx => (h x).1 hx)
      by_cases hle : a.keys.length ≤ b.keys.length
      · exact hle
      · exfalso
        -- `b` strictly shorter than `a`: then `b ⊆ a ⊆ b` with `|a| > |b|`, impossible
        have hperm := List.Nodup.length_le_of_subset (l₁ := a.keys) (l₂ := b.keys) ha
          (fun x hx => (h x).1 hx)
        exact hle hperm
    have h2 : b.keys.length ≤ a.keys.length :=
      List.Nodup.length_le_of_subset (l₁ := b.keys) (l₂ := a.keys) hb (fun x hx => (h x).2 hx)
    omega

end MapSet

end GolibsVerif.C11
