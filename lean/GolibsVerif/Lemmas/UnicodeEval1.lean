/-
Kernel evaluation of the period clause of FOLD-1 (`periodOk`: the `SimpleFold` cycle through
the rune closes within `orbitFuel` steps) on the runes of the pieces 1, 5, 9, 13 of `CaseRanges`
(`pieceLen` = 21 table entries each; see `Lemmas/Unicode.lean`).  One of four files that Lake
builds in parallel; the tables are those regenerated from `$GOROOT/src/unicode/tables.go`
(`Gen/UniFold.lean`).  `decide +kernel`: the Lean kernel evaluates the model; no axioms.
-/
import GolibsVerif.Lemmas.Unicode

namespace GolibsVerif.Unicode
open GolibsVerif.Gen.UniFold

theorem periodOk_piece1 : pieceAll (rangeOk periodOk) (1 * pieceLen) pieceLen = true := by decide +kernel

theorem periodOk_piece5 : pieceAll (rangeOk periodOk) (5 * pieceLen) pieceLen = true := by decide +kernel

theorem periodOk_piece9 : pieceAll (rangeOk periodOk) (9 * pieceLen) pieceLen = true := by decide +kernel

theorem periodOk_piece13 : pieceAll (rangeOk periodOk) (13 * pieceLen) pieceLen = true := by decide +kernel

/-! The small evaluations: ASCII runes, `caseOrbit` keys, U+FFFD, the ASCII clause. -/

theorem periodOk_ascii : rangeAll periodOk 0 128 = true := by decide +kernel

theorem periodOk_orbitKeys : caseOrbit.all (fun e => periodOk e.1) = true := by decide +kernel

theorem asciiOk_all : rangeAll asciiOk 0 128 = true := by decide +kernel

theorem simpleFold_fffd : simpleFold C13.RuneError = C13.RuneError := by decide +kernel

end GolibsVerif.Unicode
